(* TOKINV: the tokenizer's inverse on well-shaped token sequences
   (DESIGN.md section 5).

   Stage 1  definitions: shape, followc / pre_tok / follow, follows_ok,
            start_quirk (the index-0 quirk of peek(-1)), first_ok, repos.
   Stage 2  tokinv: shaped + follow + first-token condition  ==>
            tokens_of_string (texts toks) = (repos 0 toks, TEnd).
   Stage 3  tokens_shaped: the converse for tokenizer outputs; retokenize_id;
            drop_spacer(s)_retokenize.

   All texts are NUL/DEL-free (no character of a Tables.ignore_cats category):
   this is part of `shape`.  Every fact about a generated table is obtained by
   computation on the table. *)
From Coq Require Import List NArith ZArith Bool Lia Arith Permutation.
From TexModel Require Import Base Tables Chars Tokenizer.
From TexProofs Require Import TokProofs TokFacts.
Import ListNotations.

Local Notation points := Tables.punctuation_commands.

(* ====================================================================== *)
(* Stage 1: definitions                                                    *)
(* ====================================================================== *)

Notation catc := categorize_char (only parsing).
Definition is_c (k : cc) (c : N) : bool := cc_beq (catc c) k.
Definition clean_c (c : N) : bool := negb (mem_cc (catc c) Tables.ignore_cats).
Definition text_c (c : N) : bool := negb (mem_cc (catc c) Tables.string_stop_cats).
Definition rollback_c (c : N) : bool := mem_cc (catc c) Tables.spacer_rollback_cats.
Definition ls_c (c : N) : bool := is_c CLetter c || N.eqb c star.
Definition noeol_c (c : N) : bool := negb (is_c CEndOfLine c).
Definition esc2_c (c : N) : bool := mem_cc (catc c) Tables.escaped_second_cats.
Definition asym_c (c : N) : bool :=
  match lookup_asym Tables.asym_map CEscape (catc c) with Some _ => true | None => false end.

(* blank* (eol blank* )? is what rule 7 consumes *)
Fixpoint drop_blanks (s : str) : str :=
  match s with
  | c :: s' => if is_c CSpacer c then drop_blanks s' else s
  | [] => []
  end.
Definition drop_eol (s : str) : str :=
  match s with
  | c :: s' => if is_c CEndOfLine c then s' else s
  | [] => []
  end.
Definition after_spacers (s : str) : str := drop_blanks (drop_eol (drop_blanks s)).
Definition starts_blank (s : str) : bool :=
  match s with c :: _ => is_c CSpacer c || is_c CEndOfLine c | [] => false end.
Definition starts_letter (s : str) : bool :=
  match s with c :: _ => is_c CLetter c | [] => false end.
Definition has_eol (s : str) : bool := existsb (is_c CEndOfLine) s.

(* the lexical shape of a token of category k, read off the rule that emits it *)
Definition shape_cat (k : tc) (s : str) : bool :=
  match k with
  | TText =>
    (* rule 11: no stop character; and rule 7 did not claim its beginning:
       either it does not start with a blank/eol, or the run
       blank* (eol blank* )? it starts with is followed, inside the text, by a
       Letter/Other character (the roll-back of rule 7) *)
    forallb text_c s &&
    match after_spacers s with
    | [] => false
    | c :: _ => rollback_c c || negb (starts_blank s)
    end
  | TMergedSpacer =>
    match s with [] => false | _ :: _ => match after_spacers s with [] => true | _ :: _ => false end end
  | TComment =>
    match s with c0 :: b => is_c CComment c0 && forallb noeol_c b | [] => false end
  | TEscapedComment =>
    match s with [c0; c1] => is_c CEscape c0 && esc2_c c1 | _ => false end
  | TEscape | TGroupBegin | TGroupEnd | TBracketBegin | TBracketEnd =>
    match s with
    | [c] => match lookup_sym Tables.symbols_map (catc c) with
             | Some k' => tc_beq k' k | None => false end
    | _ => false
    end
  | TMathSwitch => match s with [c] => is_c CMathSwitch c | _ => false end
  | TDisplayMathSwitch =>
    match s with [c0; c1] => is_c CMathSwitch c0 && is_c CMathSwitch c1 | _ => false end
  | TMathGroupBegin | TMathGroupEnd | TDisplayMathGroupBegin | TDisplayMathGroupEnd =>
    match s with
    | [c0; c1] => match lookup_asym Tables.asym_map (catc c0) (catc c1) with
                  | Some k' => tc_beq k' k | None => false end
    | _ => false
    end
  | TCommandName =>
    match s with c0 :: m => is_c CLetter c0 && forallb ls_c m | [] => false end
  | TPunctuationCommandName => mem_str s points
  | TLineBreak | TParenBegin | TParenEnd | TSizeCommand | TSpacer => false
  end.

Definition shape (t : token) : bool :=
  forallb clean_c (ttext t) && shape_cat (tcat t) (ttext t).

Definition nc_not (P : N -> bool) (o : option N) : bool :=
  match o with Some c => negb (P c) | None => true end.

(* maximal munch: what the characters after token t may be.  `rest` is the
   whole remaining input: for a CommandName the look-ahead of rule 9 reaches
   beyond the next token ("\left" + "\" + "langle"). *)
Definition followc (t : token) (rest : str) : bool :=
  let h := hd_error rest in
  match tcat t with
  | TText => nc_not text_c h
  | TMergedSpacer =>
    nc_not rollback_c h && nc_not (is_c CSpacer) h &&
    (has_eol (ttext t) || nc_not (is_c CEndOfLine) h)
  | TComment => nc_not noeol_c h
  | TMathSwitch => nc_not (is_c CMathSwitch) h
  | TEscape => nc_not esc2_c h && nc_not asym_c h
  | TCommandName =>
    nc_not ls_c h &&
    match find_point points (ttext t ++ rest) with None => true | Some _ => false end
  | _ => true
  end.

(* the classification of a token that starts with a letter depends on
   whether the character before it is an escape (rules 9 and 10) *)
Definition pre_tok (esc : bool) (t : token) : bool :=
  match tcat t with
  | TCommandName | TPunctuationCommandName => esc
  | TText => negb (esc && starts_letter (ttext t))
  | _ => true
  end.
Definition pre_ok (esc : bool) (nxt : list token) : bool :=
  match nxt with [] => true | n :: _ => pre_tok esc n end.

Definition ends_esc (t : token) : bool := is_c CEscape (last (ttext t) 0%N).

Definition texts (toks : list token) : str := concat (map ttext toks).

Definition follow (t : token) (nxt : list token) : bool :=
  followc t (texts nxt) && pre_ok (ends_esc t) nxt.

Fixpoint follows_ok (toks : list token) : bool :=
  match toks with
  | [] => true
  | t :: r => follow t r && follows_ok r
  end.

(* the index-0 quirk: at buffer index 0, peek(-1) is the last MATERIALISED
   character.  It changes the first token exactly when the input starts with
   a letter, then an escape, and the character at index
   min(len, 1 + max point length) - 1 is an escape too: the letter becomes a
   CommandName ("a\" -> CommandName "a", Escape "\"). *)
Definition nth_is (P : N -> bool) (o : option N) : bool :=
  match o with Some c => P c | None => false end.

Definition start_quirk (s : str) : bool :=
  match s with
  | c0 :: c1 :: _ =>
    is_c CLetter c0 && is_c CEscape c1 &&
    nth_is (is_c CEscape) (nth_error s (Nat.min (length s) (S (max_point_len points)) - 1))
  | _ => false
  end.

Definition first_ok (toks : list token) : bool :=
  pre_ok false toks && negb (start_quirk (texts toks)).

Fixpoint repos (p : Z) (toks : list token) : list token :=
  match toks with
  | [] => []
  | t :: r => mkt (ttext t) p (tcat t) :: repos (p + Z.of_nat (length (ttext t)))%Z r
  end.

Definition clean (s : str) : bool := forallb clean_c s.

(* ====================================================================== *)
(* Stage 2: helpers                                                        *)
(* ====================================================================== *)

Local Notation cf := categorize_from.

Lemma cf_app p a b : cf p (a ++ b) = cf p a ++ cf (p + Z.of_nat (length a))%Z b.
Proof. apply categorize_from_app. Qed.

Lemma cf_Forall (q : cchar -> bool) (pb : N -> bool) :
  (forall c pos, q (mkc c pos (catc c)) = pb c) ->
  forall x p, forallb pb x = true -> Forall (fun c => q c = true) (cf p x).
Proof.
  intros Hq x. induction x as [|a x IH]; intros p H; cbn [categorize_from]; constructor.
  - rewrite Hq. cbn [forallb] in H. apply andb_true_iff in H. tauto.
  - apply IH. cbn [forallb] in H. apply andb_true_iff in H. tauto.
Qed.

Lemma cf_head_stop (q : cchar -> bool) (pb : N -> bool) :
  (forall c pos, q (mkc c pos (catc c)) = pb c) ->
  forall rest p, nc_not pb (hd_error rest) = true ->
  match cf p rest with c :: _ => q c = false | [] => True end.
Proof.
  intros Hq rest p H. destruct rest as [|c r]; cbn [categorize_from]; [exact I|].
  rewrite Hq. cbn [hd_error nc_not] in H. apply negb_true_iff in H. exact H.
Qed.

Lemma tw_cf (q : cchar -> bool) (pb : N -> bool) :
  (forall c pos, q (mkc c pos (catc c)) = pb c) ->
  forall x p rest, forallb pb x = true -> nc_not pb (hd_error rest) = true ->
  take_while q (cf p (x ++ rest)) = (cf p x, cf (p + Z.of_nat (length x))%Z rest).
Proof.
  intros Hq x p rest Hx Hr. rewrite cf_app. apply take_while_split.
  - eapply cf_Forall; eassumption.
  - eapply cf_head_stop; eassumption.
Qed.

Lemma chars_of_cf p s : chars_of (cf p s) = s.
Proof. apply chars_of_categorize_from. Qed.

Lemma cf_length p s : length (cf p s) = length s.
Proof. apply categorize_from_length. Qed.

Lemma mk_tok_cf p x idx k : x <> [] -> mk_tok (cf p x) idx k = mkt x p k.
Proof.
  intro H. destruct x as [|c x]; [congruence|]. unfold mk_tok. rewrite chars_of_cf. reflexivity.
Qed.

Lemma last_cf_cat x : forall q c p, ccat (last (cf q x) (mkc c p (catc c))) = catc (last x c).
Proof.
  induction x as [|a x IH]; intros q c p; [reflexivity|].
  cbn [categorize_from]. rewrite !last_cons. apply IH.
Qed.

(* boolean facts about categories, by case analysis on the category *)
Lemma is_c_true k c : is_c k c = true <-> catc c = k.
Proof. unfold is_c. apply cc_eqb_eq. Qed.

Lemma is_c_false k c : catc c <> k -> is_c k c = false.
Proof. intro H. destruct (is_c k c) eqn:E; [|reflexivity]. apply is_c_true in E. contradiction. Qed.

Lemma text_c_cats c : text_c c = true ->
  catc c <> CEscape /\ catc c <> CComment /\ catc c <> CMathSwitch /\
  lookup_sym Tables.symbols_map (catc c) = None.
Proof.
  unfold text_c. destruct (catc c); intro H; vm_compute in H; try discriminate H;
    repeat split; try discriminate; reflexivity.
Qed.

Lemma blank_text_clean c : is_c CSpacer c || is_c CEndOfLine c = true ->
  text_c c = true /\ clean_c c = true /\ catc c <> CLetter.
Proof.
  unfold is_c, text_c, clean_c. destruct (catc c); intro H; vm_compute in H; try discriminate H;
    repeat split; discriminate.
Qed.

Lemma rollback_text c : rollback_c c = true -> text_c c = true /\ starts_blank [c] = false.
Proof.
  unfold rollback_c, text_c, starts_blank, is_c. destruct (catc c); intro H; vm_compute in H;
    try discriminate H; split; reflexivity.
Qed.

Lemma esc2_not_escape c : esc2_c c = false -> catc c <> CEscape.
Proof. unfold esc2_c. destruct (catc c); intro H; vm_compute in H; try discriminate H; discriminate. Qed.

(* ---------------------------------------------------- rule-level helpers *)

Lemma rules_1_6_none cx c0 r :
  ccat c0 <> CEscape -> ccat c0 <> CComment -> ccat c0 <> CMathSwitch ->
  mem_cc (ccat c0) Tables.ignore_cats = false ->
  run_rules Tables.rule_order cx (c0 :: r) =
  run_rules [R_spacers; R_symbols; R_punctuation_command_name; R_command_name; R_string]
            cx (c0 :: r).
Proof.
  intros H1 H2 H3 H4. unfold Tables.rule_order.
  rewrite run_rules_cons_none by (cbn [run_rule]; apply escaped_none_first; exact H1).
  rewrite run_rules_cons_none by (cbn [run_rule]; apply comment_none; exact H2).
  rewrite run_rules_cons_none by (cbn [run_rule]; apply math_sym_none; exact H3).
  rewrite run_rules_cons_none by (cbn [run_rule]; apply math_asym_none; exact H1).
  rewrite run_rules_cons_none by (cbn [run_rule]; apply line_break_none; exact H1).
  rewrite run_rules_cons_none by (cbn [run_rule]; apply ignore_none; exact H4).
  reflexivity.
Qed.

Lemma find_point_nonletter c0 s : catc c0 <> CLetter -> find_point points (c0 :: s) = None.
Proof.
  intro H. destruct (find_point points (c0 :: s)) as [q|] eqn:E; [|reflexivity].
  exfalso. apply find_point_in in E. destruct E as [Iq Fq].
  destruct (points_start_letter q Iq) as (c & q' & Eq & Hc). subst q.
  cbn [length firstn] in Fq. inversion Fq; subst. contradiction.
Qed.

Lemma punct_none_nonletter prevc c p r :
  catc c <> CLetter -> rule_punctuation points prevc (cf p (c :: r)) = RNone.
Proof.
  intro H. unfold rule_punctuation. destruct (prev_is_escape prevc); [|reflexivity].
  rewrite chars_of_cf, (find_point_nonletter c r H). reflexivity.
Qed.

Lemma cmd_none_nonletter prevc c0 r : ccat c0 <> CLetter -> rule_command_name prevc (c0 :: r) = RNone.
Proof.
  intro H. unfold rule_command_name. destruct (prev_is_escape prevc); [|reflexivity].
  rewrite (is_cat_false _ _ H). reflexivity.
Qed.

Lemma punct_none_find prevc cs :
  find_point points (chars_of cs) = None -> rule_punctuation points prevc cs = RNone.
Proof.
  intro H. unfold rule_punctuation. destruct (prev_is_escape prevc); [|reflexivity].
  rewrite H. reflexivity.
Qed.

(* rule 7 on  s1 e s2 r3 *)
Lemma spacers_spec idx s1 e s2 r3 :
  Forall (fun c => is_cat CSpacer c = true) s1 ->
  Forall (fun c => is_cat CSpacer c = true) s2 ->
  match r3 with c :: _ => is_cat CSpacer c = false | [] => True end ->
  (e = [] /\ s2 = [] /\ match r3 with c :: _ => is_cat CEndOfLine c = false | [] => True end) \/
  (exists c, e = [c] /\ is_cat CEndOfLine c = true) ->
  rule_spacers idx (s1 ++ e ++ s2 ++ r3) =
  let emit := match s1 ++ e ++ s2 with
              | [] => RNone
              | _ :: _ => RTok (mk_tok (s1 ++ e ++ s2) idx TMergedSpacer) r3
              end in
  match r3 with
  | c :: _ => if mem_cc (ccat c) Tables.spacer_rollback_cats then RNone else emit
  | [] => emit
  end.
Proof.
  intros F1 F2 H3 He. unfold rule_spacers.
  assert (Hhead : match e ++ s2 ++ r3 with c :: _ => is_cat CSpacer c = false | [] => True end).
  { destruct He as [(E1 & E2 & E3) | (c & E1 & E2)]; subst; cbn [app]; [exact H3|].
    apply is_cat_true in E2. apply is_cat_false. rewrite E2. discriminate. }
  rewrite (take_while_split (is_cat CSpacer) s1 (e ++ s2 ++ r3) F1 Hhead).
  destruct He as [(E1 & E2 & E3) | (c & E1 & E2)]; subst; cbn [app].
  - destruct r3 as [|c r3']; cbn [take_while].
    + rewrite !app_nil_r. reflexivity.
    + rewrite E3. cbn [take_while]. rewrite H3. rewrite !app_nil_r. cbn [app]. reflexivity.
  - rewrite E2. rewrite (take_while_split (is_cat CSpacer) s2 r3 F2 H3). reflexivity.
Qed.

(* string-level decomposition  s = blank* (eol blank* )? ++ after_spacers s *)
Lemma drop_blanks_decomp s : exists b,
  s = b ++ drop_blanks s /\ forallb (is_c CSpacer) b = true /\
  nc_not (is_c CSpacer) (hd_error (drop_blanks s)) = true.
Proof.
  induction s as [|c s IH]; cbn [drop_blanks].
  - exists []. repeat split.
  - destruct (is_c CSpacer c) eqn:E.
    + destruct IH as (b & H1 & H2 & H3). exists (c :: b). cbn [app forallb].
      rewrite E, H2, <- H1. repeat split. exact H3.
    + exists []. cbn [app forallb hd_error nc_not]. rewrite E. repeat split.
Qed.

Lemma drop_blanks_id s : nc_not (is_c CSpacer) (hd_error s) = true -> drop_blanks s = s.
Proof.
  destruct s as [|c s]; [reflexivity|]. cbn [hd_error nc_not drop_blanks].
  intro H. apply negb_true_iff in H. rewrite H. reflexivity.
Qed.

Lemma after_spacers_decomp s : exists b1 e b2,
  s = b1 ++ e ++ b2 ++ after_spacers s /\
  forallb (is_c CSpacer) b1 = true /\ forallb (is_c CSpacer) b2 = true /\
  nc_not (is_c CSpacer) (hd_error (after_spacers s)) = true /\
  ((e = [] /\ b2 = [] /\ nc_not (is_c CEndOfLine) (hd_error (after_spacers s)) = true) \/
   (exists c, e = [c] /\ is_c CEndOfLine c = true)).
Proof.
  unfold after_spacers. destruct (drop_blanks_decomp s) as (b1 & H1 & H2 & H3).
  destruct (drop_blanks s) as [|c s1] eqn:Ed.
  - exists b1, [], []. cbn [drop_eol drop_blanks app hd_error nc_not]. repeat split; auto.
  - cbn [drop_eol]. destruct (is_c CEndOfLine c) eqn:Ee.
    + destruct (drop_blanks_decomp s1) as (b2 & G1 & G2 & G3).
      exists b1, [c], b2. cbn [app]. rewrite <- G1. repeat split; auto. right. eauto.
    + rewrite (drop_blanks_id (c :: s1) H3).
      exists b1, [], []. cbn [app hd_error nc_not]. rewrite Ee. repeat split; auto.
Qed.

Lemma forallb_app {A} (f : A -> bool) a b : forallb f (a ++ b) = forallb f a && forallb f b.
Proof. induction a as [|x a IH]; cbn [app forallb]; [reflexivity|]. rewrite IH, andb_assoc. reflexivity. Qed.

Lemma blanks_no_eol b : forallb (is_c CSpacer) b = true -> has_eol b = false.
Proof.
  unfold has_eol. induction b as [|c b IH]; cbn [forallb existsb]; [reflexivity|].
  intro H. apply andb_true_iff in H. destruct H as [H1 H2]. rewrite (IH H2), orb_false_r.
  apply is_c_true in H1. apply is_c_false. rewrite H1. discriminate.
Qed.

Lemma is_cat_cf k c pos : is_cat k (mkc c pos (catc c)) = is_c k c.
Proof. reflexivity. Qed.

(* ====================================================================== *)
(* Stage 2: one lemma per token kind -- "the round emits exactly t"        *)
(* ====================================================================== *)

(* what the round needs to know about peek(-1): only for a letter *)
Definition ctx_ok (esc : bool) (pp pc : option cchar) (s : str) : Prop :=
  starts_letter s = true ->
  (prev_is_escape pp = esc /\ prev_is_escape pc = esc) \/
  (esc = false /\ find_point points s = None /\ prev_is_escape pc = false).

Lemma asym_none_lookup c0 c1 r :
  lookup_asym Tables.asym_map (ccat c0) (ccat c1) = None ->
  rule_math_asym_switch (c0 :: c1 :: r) = RNone.
Proof. intro H. unfold rule_math_asym_switch. rewrite H. reflexivity. Qed.

Lemma line_break_none_second c0 c1 r :
  ccat c1 <> CEscape -> rule_line_break (c0 :: c1 :: r) = RNone.
Proof.
  intro H. unfold rule_line_break. destruct (is_cat CEscape c0); [|reflexivity].
  rewrite (is_cat_false _ _ H). reflexivity.
Qed.

(* rule 8: { } [ ] and the lone escape *)
Lemma round_symbols cx c k p rest :
  lookup_sym Tables.symbols_map (catc c) = Some k ->
  (catc c = CEscape ->
   nc_not esc2_c (hd_error rest) = true /\ nc_not asym_c (hd_error rest) = true) ->
  run_rules Tables.rule_order cx (cf p (c :: rest)) = RTok (mkt [c] p k) (cf (p + 1)%Z rest).
Proof.
  intros Hk Hesc. cbn [categorize_from].
  set (c0 := mkc c p (catc c)). set (tl := cf (p + 1)%Z rest) in *.
  assert (Hfire : rule_symbols (c0 :: tl) = RTok (mkt [c] p k) tl).
  { unfold rule_symbols. cbn [ccat c0]. rewrite Hk. reflexivity. }
  destruct (cc_eq_dec (catc c) CEscape) as [E|NE].
  - specialize (Hesc E). destruct Hesc as [H2 Ha].
    assert (Hign : mem_cc (ccat c0) Tables.ignore_cats = false) by (cbn [ccat c0]; rewrite E; reflexivity).
    unfold Tables.rule_order.
    destruct rest as [|c1 rest'].
    + subst tl. cbn [categorize_from] in *.
      rewrite run_rules_cons_none
        by (cbn [run_rule]; unfold rule_escaped_symbols; destruct (is_cat CEscape c0); reflexivity).
      rewrite run_rules_cons_none by (cbn [run_rule]; apply comment_none; cbn [ccat c0]; rewrite E; discriminate).
      rewrite run_rules_cons_none by (cbn [run_rule]; apply math_sym_none; cbn [ccat c0]; rewrite E; discriminate).
      rewrite run_rules_cons_none by (cbn [run_rule]; reflexivity).
      rewrite run_rules_cons_none
        by (cbn [run_rule]; unfold rule_line_break; destruct (is_cat CEscape c0); reflexivity).
      rewrite run_rules_cons_none by (cbn [run_rule]; apply ignore_none; exact Hign).
      rewrite run_rules_cons_none
        by (cbn [run_rule]; apply spacers_none; cbn [ccat c0]; rewrite E; discriminate).
      apply run_rules_cons_tok. cbn [run_rule]. exact Hfire.
    + subst tl. cbn [categorize_from] in *. cbn [hd_error nc_not] in H2, Ha.
      apply negb_true_iff in H2. apply negb_true_iff in Ha.
      set (c1' := mkc c1 (p + 1)%Z (catc c1)) in *.
      rewrite run_rules_cons_none by (cbn [run_rule]; apply escaped_none_second; exact H2).
      rewrite run_rules_cons_none by (cbn [run_rule]; apply comment_none; cbn [ccat c0]; rewrite E; discriminate).
      rewrite run_rules_cons_none by (cbn [run_rule]; apply math_sym_none; cbn [ccat c0]; rewrite E; discriminate).
      rewrite run_rules_cons_none.
      2:{ cbn [run_rule]. apply asym_none_lookup. cbn [ccat c0 c1']. rewrite E.
          unfold asym_c in Ha. destruct (lookup_asym Tables.asym_map CEscape (catc c1)); [discriminate Ha|reflexivity]. }
      rewrite run_rules_cons_none
        by (cbn [run_rule]; apply line_break_none_second; apply esc2_not_escape; exact H2).
      rewrite run_rules_cons_none by (cbn [run_rule]; apply ignore_none; exact Hign).
      rewrite run_rules_cons_none
        by (cbn [run_rule]; apply spacers_none; cbn [ccat c0]; rewrite E; discriminate).
      apply run_rules_cons_tok. cbn [run_rule]. exact Hfire.
  - assert (Hc : catc c <> CComment /\ catc c <> CMathSwitch /\
                 mem_cc (catc c) Tables.ignore_cats = false /\
                 catc c <> CSpacer /\ catc c <> CEndOfLine).
    { destruct (catc c); try congruence; vm_compute in Hk; try discriminate Hk;
        repeat split; discriminate. }
    destruct Hc as (N2 & N3 & N4 & N5 & N6).
    rewrite rules_1_6_none; try assumption.
    rewrite run_rules_cons_none by (cbn [run_rule]; apply spacers_none; assumption).
    apply run_rules_cons_tok. cbn [run_rule]. exact Hfire.
Qed.

Lemma cf_spacer_split p b1 e b2 :
  forallb (is_c CSpacer) b1 = true -> forallb (is_c CSpacer) b2 = true ->
  (e = [] /\ b2 = []) \/ (exists c, e = [c] /\ is_c CEndOfLine c = true) ->
  exists S1 E S2, cf p (b1 ++ e ++ b2) = S1 ++ E ++ S2 /\
    Forall (fun c => is_cat CSpacer c = true) S1 /\
    Forall (fun c => is_cat CSpacer c = true) S2 /\
    ((E = [] /\ S2 = [] /\ e = [] /\ b2 = []) \/ (exists c, E = [c] /\ is_cat CEndOfLine c = true)).
Proof.
  intros F1 F2 Hd. rewrite !cf_app.
  eexists _, _, _. split; [reflexivity|]. split; [|split].
  - apply (cf_Forall (is_cat CSpacer) (is_c CSpacer)); [intros; reflexivity | exact F1].
  - apply (cf_Forall (is_cat CSpacer) (is_c CSpacer)); [intros; reflexivity | exact F2].
  - destruct Hd as [(D1 & D2) | (c' & D1 & D2)]; subst e.
    + subst b2. left. repeat split.
    + right. cbn [categorize_from]. eexists. split; [reflexivity|]. exact D2.
Qed.

(* rule 7 emits a MergedSpacer *)
Lemma round_spacer cx x rest p :
  cx_idx cx = p ->
  shape_cat TMergedSpacer x = true ->
  nc_not rollback_c (hd_error rest) = true -> nc_not (is_c CSpacer) (hd_error rest) = true ->
  has_eol x || nc_not (is_c CEndOfLine) (hd_error rest) = true ->
  run_rules Tables.rule_order cx (cf p (x ++ rest)) =
  RTok (mkt x p TMergedSpacer) (cf (p + Z.of_nat (length x))%Z rest).
Proof.
  intros Hidx Hs Hrb Hsp He. cbn [shape_cat] in Hs.
  destruct x as [|c x'] eqn:Ex; [discriminate Hs|]. rewrite <- Ex in *.
  destruct (after_spacers x) as [|? ?] eqn:Ea; [|discriminate Hs].
  assert (Hb : is_c CSpacer c || is_c CEndOfLine c = true).
  { destruct (is_c CSpacer c) eqn:E1; [reflexivity|]. destruct (is_c CEndOfLine c) eqn:E2; [reflexivity|].
    exfalso. rewrite Ex in Ea. unfold after_spacers in Ea. cbn [drop_blanks drop_eol] in Ea.
    rewrite E1 in Ea. cbn [drop_eol] in Ea. rewrite E2 in Ea. cbn [drop_blanks] in Ea.
    rewrite E1 in Ea. discriminate Ea. }
  destruct (after_spacers_decomp x) as (b1 & e & b2 & Hx & F1 & F2 & _ & Hd).
  rewrite Ea, app_nil_r in Hx.
  assert (Hne : x <> []) by (rewrite Ex; discriminate).
  assert (Hc0 : forall r, cf p (x ++ r) = mkc c p (catc c) :: cf (p + 1)%Z (x' ++ r))
    by (intro r; rewrite Ex; reflexivity).
  rewrite Hc0.
  assert (Hcat : catc c = CSpacer \/ catc c = CEndOfLine).
  { apply orb_true_iff in Hb. destruct Hb as [Hb|Hb]; apply is_c_true in Hb; auto. }
  rewrite rules_1_6_none;
    try (cbn [ccat]; destruct Hcat as [Hcat|Hcat]; rewrite Hcat; (discriminate || reflexivity)).
  rewrite <- Hc0. apply run_rules_cons_tok. cbn [run_rule]. rewrite Hidx.
  rewrite cf_app. rewrite <- (mk_tok_cf p x p TMergedSpacer Hne).
  set (tl := cf (p + Z.of_nat (length x))%Z rest).
  assert (Htl1 : match tl with c :: _ => is_cat CSpacer c = false | [] => True end).
  { apply (cf_head_stop (is_cat CSpacer) (is_c CSpacer)); [intros; reflexivity | exact Hsp]. }
  assert (Htl2 : match tl with c :: _ => mem_cc (ccat c) Tables.spacer_rollback_cats = false | [] => True end).
  { apply (cf_head_stop (fun c => mem_cc (ccat c) Tables.spacer_rollback_cats) rollback_c);
      [intros; reflexivity | exact Hrb]. }
  assert (Hsplit : exists S1 E S2, cf p x = S1 ++ E ++ S2 /\
            Forall (fun c => is_cat CSpacer c = true) S1 /\
            Forall (fun c => is_cat CSpacer c = true) S2 /\
            ((E = [] /\ S2 = [] /\ e = [] /\ b2 = []) \/ (exists c, E = [c] /\ is_cat CEndOfLine c = true))).
  { rewrite Hx. apply cf_spacer_split; try assumption.
    destruct Hd as [(D1 & D2 & _) | D]; [left; split; assumption | right; exact D]. }
  destruct Hsplit as (S1 & E & S2 & Hcf & G1 & G2 & G3).
  rewrite Hcf. rewrite <- !app_assoc.
  rewrite (spacers_spec p S1 E S2 tl G1 G2 Htl1).
  - cbv zeta. rewrite !app_assoc. rewrite <- app_assoc. rewrite <- Hcf.
    assert (Hnn : exists a l, cf p x = a :: l) by (rewrite Ex; cbn [categorize_from]; eauto).
    destruct Hnn as (a & l & Hal).
    destruct tl as [|t0 tl'].
    + rewrite Hal. rewrite <- Hal. reflexivity.
    + rewrite Htl2. rewrite Hal. rewrite <- Hal. reflexivity.
  - destruct G3 as [(A1 & A2 & A3 & A4) | G3]; [left | right; exact G3].
    repeat split; auto. subst e b2. rewrite app_nil_r in Hx. cbn [app] in Hx.
    assert (Hno : has_eol x = false) by (rewrite Hx; apply blanks_no_eol; exact F1).
    rewrite Hno in He. cbn [orb] in He.
    apply (cf_head_stop (is_cat CEndOfLine) (is_c CEndOfLine)); [intros; reflexivity | exact He].
Qed.

(* rule 7 returns None at the beginning of a Text *)
Lemma spacers_text idx p x rest :
  match after_spacers x with
  | [] => false
  | c :: _ => rollback_c c || negb (starts_blank x)
  end = true ->
  rule_spacers idx (cf p (x ++ rest)) = RNone.
Proof.
  intro H. destruct (after_spacers x) as [|c tl] eqn:Ea; [discriminate H|].
  destruct (rollback_c c) eqn:Erb.
  - destruct (after_spacers_decomp x) as (b1 & e & b2 & Hx & F1 & F2 & H3 & Hd).
    rewrite Ea in *. rewrite Hx. rewrite <- !app_assoc. rewrite !cf_app.
    rewrite (spacers_spec idx).
    + cbn [app categorize_from]. cbn [ccat]. unfold rollback_c in Erb. rewrite Erb. reflexivity.
    + apply (cf_Forall (is_cat CSpacer) (is_c CSpacer)); [intros; reflexivity | exact F1].
    + apply (cf_Forall (is_cat CSpacer) (is_c CSpacer)); [intros; reflexivity | exact F2].
    + cbn [app categorize_from]. rewrite is_cat_cf. cbn [hd_error nc_not] in H3.
      apply negb_true_iff in H3. exact H3.
    + destruct Hd as [(D1 & D2 & D3) | (c' & D1 & D2)].
      * left. subst e b2. repeat split. cbn [app categorize_from]. rewrite is_cat_cf.
        cbn [hd_error nc_not] in D3. apply negb_true_iff in D3. exact D3.
      * right. subst e. cbn [categorize_from]. eexists. split; [reflexivity|]. exact D2.
  - cbn [orb] in H. destruct x as [|c' x']; [discriminate Ea|].
    cbn [starts_blank] in H. apply negb_true_iff, orb_false_iff in H. destruct H as [H1 H2].
    cbn [app categorize_from]. apply spacers_none; cbn [ccat]; intro E; apply is_c_true in E; congruence.
Qed.

(* rule 11 emits a Text *)
Lemma round_text cx x rest p esc :
  shape_cat TText x = true -> forallb clean_c x = true ->
  nc_not text_c (hd_error rest) = true ->
  negb (esc && starts_letter x) = true ->
  cx_points cx = points ->
  ctx_ok esc (cx_prevc_punct cx) (cx_prevc_cmd cx) (x ++ rest) ->
  run_rules Tables.rule_order cx (cf p (x ++ rest)) =
  RTok (mkt x p TText) (cf (p + Z.of_nat (length x))%Z rest).
Proof.
  intros Hs Hcl Hr Hpre Hpts Hctx. cbn [shape_cat] in Hs. apply andb_true_iff in Hs.
  destruct Hs as [Ht Hsp].
  destruct x as [|c x'] eqn:Ex.
  { cbn in Hsp. discriminate Hsp. }
  rewrite <- Ex in *.
  assert (Hne : x <> []) by (rewrite Ex; discriminate).
  assert (Hc0 : cf p (x ++ rest) = mkc c p (catc c) :: cf (p + 1)%Z (x' ++ rest))
    by (rewrite Ex; reflexivity).
  assert (Htc : text_c c = true).
  { rewrite Ex in Ht. cbn [forallb] in Ht. apply andb_true_iff in Ht. tauto. }
  assert (Hcc : clean_c c = true).
  { rewrite Ex in Hcl. cbn [forallb] in Hcl. apply andb_true_iff in Hcl. tauto. }
  destruct (text_c_cats c Htc) as (N1 & N2 & N3 & N8).
  rewrite Hc0.
  rewrite rules_1_6_none; try (cbn [ccat]; assumption).
  2:{ cbn [ccat]. unfold clean_c in Hcc. apply negb_true_iff in Hcc. exact Hcc. }
  rewrite <- Hc0.
  rewrite run_rules_cons_none by (cbn [run_rule]; apply spacers_text; exact Hsp).
  rewrite Hc0.
  rewrite run_rules_cons_none by (cbn [run_rule]; apply symbols_none; cbn [ccat]; exact N8).
  rewrite <- Hc0.
  assert (H910 : rule_punctuation (cx_points cx) (cx_prevc_punct cx) (cf p (x ++ rest)) = RNone /\
                 rule_command_name (cx_prevc_cmd cx) (cf p (x ++ rest)) = RNone).
  { rewrite Hpts. destruct (is_c CLetter c) eqn:El.
    - assert (Hsl : starts_letter (x ++ rest) = true) by (rewrite Ex; cbn [app starts_letter]; exact El).
      assert (Hesc : esc = false).
      { destruct esc; [|reflexivity]. rewrite Ex in Hpre. cbn [starts_letter andb] in Hpre.
        rewrite El in Hpre. discriminate Hpre. }
      subst esc. destruct (Hctx Hsl) as [[A B] | (_ & A & B)].
      + unfold rule_punctuation, rule_command_name. rewrite A, B. split; reflexivity.
      + split.
        * apply punct_none_find. rewrite chars_of_cf. exact A.
        * unfold rule_command_name. rewrite B. reflexivity.
    - assert (NL : catc c <> CLetter) by (intro E; apply is_c_true in E; congruence).
      split.
      + rewrite Ex. cbn [app]. apply punct_none_nonletter. exact NL.
      + rewrite Hc0. apply cmd_none_nonletter. cbn [ccat]. exact NL. }
  destruct H910 as [H9 H10].
  rewrite run_rules_cons_none by (cbn [run_rule]; exact H9).
  rewrite run_rules_cons_none by (cbn [run_rule]; exact H10).
  apply run_rules_cons_tok. cbn [run_rule]. unfold rule_string.
  rewrite (tw_cf (fun c => negb (mem_cc (ccat c) Tables.string_stop_cats)) text_c);
    [ | intros; reflexivity | exact Ht | exact Hr ].
  rewrite mk_tok_cf by exact Hne. reflexivity.
Qed.

(* rule 2 emits a Comment *)
Lemma round_comment cx c b rest p :
  is_c CComment c = true -> forallb noeol_c b = true ->
  nc_not noeol_c (hd_error rest) = true ->
  run_rules Tables.rule_order cx (cf p ((c :: b) ++ rest)) =
  RTok (mkt (c :: b) p TComment) (cf (p + Z.of_nat (length (c :: b)))%Z rest).
Proof.
  intros Hc Hb Hr. cbn [app categorize_from].
  rewrite comment_round by (cbn [ccat]; apply is_c_true; exact Hc).
  rewrite (tw_cf (fun c => negb (is_cat CEndOfLine c)) noeol_c);
    [ | intros; reflexivity | exact Hb | exact Hr ].
  rewrite chars_of_cf. cbn [ch cpos].
  replace (p + 1 + Z.of_nat (length b))%Z with (p + Z.of_nat (length (c :: b)))%Z
    by (cbn [length]; lia).
  reflexivity.
Qed.

(* rule 10 emits a CommandName *)
Lemma round_cmd cx c m rest p :
  is_c CLetter c = true -> forallb ls_c m = true -> nc_not ls_c (hd_error rest) = true ->
  find_point points ((c :: m) ++ rest) = None ->
  cx_points cx = points -> prev_is_escape (cx_prevc_cmd cx) = true ->
  run_rules Tables.rule_order cx (cf p ((c :: m) ++ rest)) =
  RTok (mkt (c :: m) p TCommandName) (cf (p + Z.of_nat (length (c :: m)))%Z rest).
Proof.
  intros Hc Hm Hr Hfp Hpts Hec.
  assert (Hchars : chars_of (cf p ((c :: m) ++ rest)) = (c :: m) ++ rest) by apply chars_of_cf.
  cbn [app categorize_from] in *.
  rewrite letter_rules_none by (cbn [ccat]; apply is_c_true; exact Hc).
  rewrite run_rules_cons_none
    by (cbn [run_rule]; rewrite Hpts; apply punct_none_find; rewrite Hchars; exact Hfp).
  apply run_rules_cons_tok. cbn [run_rule]. unfold rule_command_name. rewrite Hec.
  rewrite is_cat_cf, Hc.
  rewrite (tw_cf (fun c => is_cat CLetter c || N.eqb (ch c) star) ls_c);
    [ | intros; reflexivity | exact Hm | exact Hr ].
  rewrite chars_of_cf. cbn [ch cpos].
  replace (p + 1 + Z.of_nat (length m))%Z with (p + Z.of_nat (length (c :: m)))%Z
    by (cbn [length]; lia).
  reflexivity.
Qed.

Lemma mem_str_In s l : mem_str s l = true -> In s l.
Proof.
  unfold mem_str. intro H. apply existsb_exists in H. destruct H as (x & Hx & E).
  apply str_eqb_eq in E. subst. exact Hx.
Qed.

Lemma In_mem_str s l : In s l -> mem_str s l = true.
Proof.
  intro H. unfold mem_str. apply existsb_exists. exists s. split; [exact H | apply str_eqb_refl].
Qed.

Lemma firstn_app_exact {A} (a b : list A) : firstn (length a) (a ++ b) = a.
Proof. rewrite firstn_app, Nat.sub_diag, firstn_all. cbn [firstn]. apply app_nil_r. Qed.

Lemma skipn_app_exact {A} (a b : list A) : skipn (length a) (a ++ b) = b.
Proof. rewrite skipn_app, Nat.sub_diag, skipn_all. reflexivity. Qed.

(* rule 9 emits a PunctuationCommandName *)
Lemma round_punct cx x rest p :
  mem_str x points = true -> cx_points cx = points ->
  prev_is_escape (cx_prevc_punct cx) = true ->
  run_rules Tables.rule_order cx (cf p (x ++ rest)) =
  RTok (mkt x p TPunctuationCommandName) (cf (p + Z.of_nat (length x))%Z rest).
Proof.
  intros Hx Hpts Hep. apply mem_str_In in Hx.
  destruct (points_start_letter x Hx) as (c & x' & Ex & Hc).
  assert (Hc0 : cf p (x ++ rest) = mkc c p (catc c) :: cf (p + 1)%Z (x' ++ rest))
    by (rewrite Ex; reflexivity).
  destruct (punctuation_command_one_token cx (mkc c p (catc c)) (cf (p + 1)%Z (x' ++ rest)) x)
    as (H1 & _ & _).
  - rewrite Hpts. apply Permutation_refl.
  - exact Hep.
  - reflexivity.
  - exact Hx.
  - rewrite <- Hc0, chars_of_cf. apply firstn_app_exact.
  - rewrite <- Hc0 in H1. rewrite H1. cbn [cpos]. f_equal.
    rewrite cf_app. rewrite <- (cf_length p x) at 1. apply skipn_app_exact.
Qed.

Lemma shape_nonempty t : shape t = true -> ttext t <> [].
Proof.
  unfold shape. intro H. apply andb_true_iff in H. destruct H as [_ H].
  destruct (ttext t) as [|c x]; [|discriminate].
  destruct (tcat t); cbn in H; discriminate H.
Qed.

(* the round on  ttext t ++ rest  emits exactly t *)
Theorem round_emit esc t rest p prev pp pc :
  shape t = true -> followc t rest = true -> pre_tok esc t = true ->
  ctx_ok esc pp pc (ttext t ++ rest) ->
  run_rules Tables.rule_order (mkctx p prev pp pc points) (cf p (ttext t ++ rest)) =
  RTok (mkt (ttext t) p (tcat t)) (cf (p + Z.of_nat (length (ttext t)))%Z rest).
Proof.
  intros Hs Hf Hpre Hctx. set (cx := mkctx p prev pp pc points).
  unfold shape in Hs. apply andb_true_iff in Hs. destruct Hs as [Hcl Hs].
  destruct t as [x q k]. cbn [ttext tcat] in *. unfold followc in Hf. cbn [ttext tcat] in Hf.
  unfold pre_tok in Hpre. cbn [ttext tcat] in Hpre.
  destruct k; try (cbn in Hs; discriminate Hs).
  - (* TEscape *)
    cbn [shape_cat] in Hs. destruct x as [|c [|? ?]]; try discriminate Hs.
    destruct (lookup_sym Tables.symbols_map (catc c)) as [k'|] eqn:Ek; [|discriminate Hs].
    apply tc_eqb_eq in Hs. subst k'. apply andb_true_iff in Hf.
    cbn [app length]. apply round_symbols; [exact Ek | intros _; exact Hf].
  - (* TGroupBegin *)
    cbn [shape_cat] in Hs. destruct x as [|c [|? ?]]; try discriminate Hs.
    destruct (lookup_sym Tables.symbols_map (catc c)) as [k'|] eqn:Ek; [|discriminate Hs].
    apply tc_eqb_eq in Hs. subst k'.
    cbn [app length]. apply round_symbols; [exact Ek|].
    intro E. rewrite E in Ek. vm_compute in Ek. discriminate Ek.
  - (* TGroupEnd *)
    cbn [shape_cat] in Hs. destruct x as [|c [|? ?]]; try discriminate Hs.
    destruct (lookup_sym Tables.symbols_map (catc c)) as [k'|] eqn:Ek; [|discriminate Hs].
    apply tc_eqb_eq in Hs. subst k'.
    cbn [app length]. apply round_symbols; [exact Ek|].
    intro E. rewrite E in Ek. vm_compute in Ek. discriminate Ek.
  - (* TComment *)
    cbn [shape_cat] in Hs. destruct x as [|c b]; [discriminate Hs|].
    apply andb_true_iff in Hs. destruct Hs as [Hc Hb].
    apply round_comment; assumption.
  - (* TMergedSpacer *)
    apply andb_true_iff in Hf. destruct Hf as [Hf He]. apply andb_true_iff in Hf.
    destruct Hf as [Hrb Hsp]. apply round_spacer; try assumption. reflexivity.
  - (* TEscapedComment *)
    cbn [shape_cat] in Hs. destruct x as [|c0 [|c1 [|? ?]]]; try discriminate Hs.
    apply andb_true_iff in Hs. destruct Hs as [H0 H1].
    rewrite cf_app. cbn [categorize_from app].
    rewrite escaped_round; [reflexivity | cbn [ccat]; apply is_c_true; exact H0 | exact H1].
  - (* TMathSwitch *)
    cbn [shape_cat] in Hs. destruct x as [|c [|? ?]]; try discriminate Hs.
    rewrite cf_app. cbn [categorize_from app].
    rewrite single_switch_token; [reflexivity | cbn [ccat]; apply is_c_true; exact Hs|].
    unfold not_switch_next.
    pose proof (cf_head_stop (is_cat CMathSwitch) (is_c CMathSwitch)
                  ltac:(intros; reflexivity) rest (p + Z.of_nat (length [c]))%Z Hf) as G.
    destruct (cf (p + Z.of_nat (length [c]))%Z rest) as [|c1 r]; [exact I|].
    intro E. apply is_cat_true in E. congruence.
  - (* TDisplayMathSwitch *)
    cbn [shape_cat] in Hs. destruct x as [|c0 [|c1 [|? ?]]]; try discriminate Hs.
    apply andb_true_iff in Hs. destruct Hs as [H0 H1].
    rewrite cf_app. cbn [categorize_from app].
    rewrite display_switch_token; [reflexivity | |]; cbn [ccat]; apply is_c_true; assumption.
  - (* TMathGroupBegin *)
    cbn [shape_cat] in Hs. destruct x as [|c0 [|c1 [|? ?]]]; try discriminate Hs.
    destruct (lookup_asym Tables.asym_map (catc c0) (catc c1)) as [k'|] eqn:Ek; [|discriminate Hs].
    apply tc_eqb_eq in Hs. subst k'.
    assert (E0 : catc c0 = CEscape).
    { destruct (cc_eq_dec (catc c0) CEscape) as [E|NE]; [exact E|].
      rewrite (asym_key_escape _ _ NE) in Ek. discriminate Ek. }
    rewrite cf_app. cbn [categorize_from app].
    rewrite (asym_round _ _ _ _ TMathGroupBegin); [reflexivity | exact E0 |].
    cbn [ccat]. rewrite <- E0. exact Ek.
  - (* TMathGroupEnd *)
    cbn [shape_cat] in Hs. destruct x as [|c0 [|c1 [|? ?]]]; try discriminate Hs.
    destruct (lookup_asym Tables.asym_map (catc c0) (catc c1)) as [k'|] eqn:Ek; [|discriminate Hs].
    apply tc_eqb_eq in Hs. subst k'.
    assert (E0 : catc c0 = CEscape).
    { destruct (cc_eq_dec (catc c0) CEscape) as [E|NE]; [exact E|].
      rewrite (asym_key_escape _ _ NE) in Ek. discriminate Ek. }
    rewrite cf_app. cbn [categorize_from app].
    rewrite (asym_round _ _ _ _ TMathGroupEnd); [reflexivity | exact E0 |].
    cbn [ccat]. rewrite <- E0. exact Ek.
  - (* TDisplayMathGroupBegin *)
    cbn [shape_cat] in Hs. destruct x as [|c0 [|c1 [|? ?]]]; try discriminate Hs.
    destruct (lookup_asym Tables.asym_map (catc c0) (catc c1)) as [k'|] eqn:Ek; [|discriminate Hs].
    apply tc_eqb_eq in Hs. subst k'.
    assert (E0 : catc c0 = CEscape).
    { destruct (cc_eq_dec (catc c0) CEscape) as [E|NE]; [exact E|].
      rewrite (asym_key_escape _ _ NE) in Ek. discriminate Ek. }
    rewrite cf_app. cbn [categorize_from app].
    rewrite (asym_round _ _ _ _ TDisplayMathGroupBegin); [reflexivity | exact E0 |].
    cbn [ccat]. rewrite <- E0. exact Ek.
  - (* TDisplayMathGroupEnd *)
    cbn [shape_cat] in Hs. destruct x as [|c0 [|c1 [|? ?]]]; try discriminate Hs.
    destruct (lookup_asym Tables.asym_map (catc c0) (catc c1)) as [k'|] eqn:Ek; [|discriminate Hs].
    apply tc_eqb_eq in Hs. subst k'.
    assert (E0 : catc c0 = CEscape).
    { destruct (cc_eq_dec (catc c0) CEscape) as [E|NE]; [exact E|].
      rewrite (asym_key_escape _ _ NE) in Ek. discriminate Ek. }
    rewrite cf_app. cbn [categorize_from app].
    rewrite (asym_round _ _ _ _ TDisplayMathGroupEnd); [reflexivity | exact E0 |].
    cbn [ccat]. rewrite <- E0. exact Ek.
  - (* TCommandName *)
    cbn [shape_cat] in Hs. destruct x as [|c m]; [discriminate Hs|].
    apply andb_true_iff in Hs. destruct Hs as [Hc Hm].
    apply andb_true_iff in Hf. destruct Hf as [Hr Hfp].
    subst esc.
    assert (Hsl : starts_letter ((c :: m) ++ rest) = true) by (cbn [app starts_letter]; exact Hc).
    destruct (Hctx Hsl) as [[A B] | (F & _)]; [|discriminate F].
    apply round_cmd; try assumption; try reflexivity.
    destruct (find_point points ((c :: m) ++ rest)); [discriminate Hfp | reflexivity].
  - (* TText *)
    apply (round_text cx x rest p esc); try assumption. reflexivity.
  - (* TBracketBegin *)
    cbn [shape_cat] in Hs. destruct x as [|c [|? ?]]; try discriminate Hs.
    destruct (lookup_sym Tables.symbols_map (catc c)) as [k'|] eqn:Ek; [|discriminate Hs].
    apply tc_eqb_eq in Hs. subst k'.
    cbn [app length]. apply round_symbols; [exact Ek|].
    intro E. rewrite E in Ek. vm_compute in Ek. discriminate Ek.
  - (* TBracketEnd *)
    cbn [shape_cat] in Hs. destruct x as [|c [|? ?]]; try discriminate Hs.
    destruct (lookup_sym Tables.symbols_map (catc c)) as [k'|] eqn:Ek; [|discriminate Hs].
    apply tc_eqb_eq in Hs. subst k'.
    cbn [app length]. apply round_symbols; [exact Ek|].
    intro E. rewrite E in Ek. vm_compute in Ek. discriminate Ek.
  - (* TPunctuationCommandName *)
    cbn [shape_cat] in Hs. subst esc.
    assert (Hsl : starts_letter (x ++ rest) = true).
    { destruct (points_start_letter x (mem_str_In _ _ Hs)) as (c & x' & Ex & Hc). subst x.
      cbn [app starts_letter]. apply is_c_true. exact Hc. }
    destruct (Hctx Hsl) as [[A B] | (F & _)]; [|discriminate F].
    apply round_punct; try assumption; reflexivity.
Qed.

(* ====================================================================== *)
(* Stage 2: the loop and the theorem                                       *)
(* ====================================================================== *)

Lemma texts_cons t r : texts (t :: r) = ttext t ++ texts r.
Proof. reflexivity. Qed.

Lemma texts_app a b : texts (a ++ b) = texts a ++ texts b.
Proof. unfold texts. rewrite map_app, concat_app. reflexivity. Qed.

Lemma loop_step f pts idx pp pc prev rest t rest' :
  rest <> [] ->
  run_rules Tables.rule_order (mkctx idx prev pp pc pts) rest = RTok t rest' ->
  tokenize_loop (S f) pts idx pp pc prev rest =
  let lc := last_consumed rest rest' in
  let (ts, e) := tokenize_loop f pts (idx + Z.of_nat (length rest - length rest'))%Z
                               lc lc (Some t) rest' in
  (t :: ts, e).
Proof.
  intros Hne H. destruct rest as [|c0 r]; [congruence|]. apply loop_step_tok. exact H.
Qed.

(* the state after a round that consumed x *)
Lemma consumed_cf p x rest :
  length (cf p (x ++ rest)) - length (cf (p + Z.of_nat (length x))%Z rest) = length x.
Proof. rewrite !cf_length, app_length. lia. Qed.

Lemma last_consumed_cf p x rest :
  x <> [] ->
  prev_is_escape (last_consumed (cf p (x ++ rest)) (cf (p + Z.of_nat (length x))%Z rest)) =
  is_c CEscape (last x 0%N).
Proof.
  intro H. destruct x as [|c x']; [congruence|].
  rewrite cf_app. cbn [categorize_from app].
  rewrite last_consumed_body. unfold prev_is_escape, is_cat.
  rewrite last_cf_cat. rewrite last_cons. reflexivity.
Qed.

Lemma ctx_ok_same esc pp pc s :
  prev_is_escape pp = esc -> prev_is_escape pc = esc -> ctx_ok esc pp pc s.
Proof. intros A B _. left. split; assumption. Qed.

Theorem loop_tokinv toks : forall fuel idx pp pc prev esc,
  Forall (fun t => shape t = true) toks -> follows_ok toks = true -> pre_ok esc toks = true ->
  ctx_ok esc pp pc (texts toks) -> (length (texts toks) < fuel)%nat ->
  tokenize_loop fuel points idx pp pc prev (cf idx (texts toks)) = (repos idx toks, TEnd).
Proof.
  induction toks as [|t r IH]; intros fuel idx pp pc prev esc Hsh Hfo Hpre Hctx Hfuel.
  - destruct fuel as [|f]; [cbn in Hfuel; lia|]. reflexivity.
  - destruct fuel as [|f]; [lia|].
    inversion Hsh as [|? ? Hst Hsr]; subst.
    cbn [follows_ok] in Hfo. apply andb_true_iff in Hfo. destruct Hfo as [Hft Hfr].
    unfold follow in Hft. apply andb_true_iff in Hft. destruct Hft as [Hfc Hnext].
    cbn [pre_ok] in Hpre.
    pose proof (shape_nonempty t Hst) as Hne.
    rewrite texts_cons in *.
    assert (Hne' : cf idx (ttext t ++ texts r) <> []).
    { destruct (ttext t); [congruence | discriminate]. }
    rewrite (loop_step f points idx pp pc prev _ _ _ Hne'
               (round_emit esc t (texts r) idx prev pp pc Hst Hfc Hpre Hctx)).
    cbv zeta. rewrite consumed_cf.
    rewrite (IH f (idx + Z.of_nat (length (ttext t)))%Z _ _ (Some (mkt (ttext t) idx (tcat t)))
                (ends_esc t) Hsr Hfr Hnext).
    + reflexivity.
    + apply ctx_ok_same; apply last_consumed_cf; exact Hne.
    + rewrite app_length in Hfuel. destruct (ttext t); [congruence|]. cbn [length] in Hfuel. lia.
Qed.

(* ---------------------------------------------------------------- start *)

Definition second_not_escape_b (q : str) : bool :=
  match q with _ :: c1 :: _ => negb (is_c CEscape c1) | _ => false end.

Lemma points_second_not_escape_b : forallb second_not_escape_b points = true.
Proof. vm_compute. reflexivity. Qed.

(* no sizing command matches an input whose second character is an escape *)
Lemma find_point_second_escape c0 c1 s :
  is_c CEscape c1 = true -> find_point points (c0 :: c1 :: s) = None.
Proof.
  intro H. destruct (find_point points (c0 :: c1 :: s)) as [q|] eqn:E; [|reflexivity].
  exfalso. apply find_point_in in E. destruct E as [Iq Fq].
  pose proof points_second_not_escape_b as B. rewrite forallb_forall in B. specialize (B q Iq).
  destruct q as [|a [|b q']]; try discriminate B. cbn [second_not_escape_b] in B.
  cbn [length firstn] in Fq. inversion Fq; subst. rewrite H in B. discriminate B.
Qed.

Lemma nth_error_cf s : forall p i,
  nth_error (cf p s) i =
  match nth_error s i with Some c => Some (mkc c (p + Z.of_nat i)%Z (catc c)) | None => None end.
Proof.
  induction s as [|a s IH]; intros p i; destruct i as [|i]; cbn [categorize_from nth_error]; try reflexivity.
  - rewrite Z.add_0_r. reflexivity.
  - rewrite IH. destruct (nth_error s i); [|reflexivity]. do 2 f_equal. lia.
Qed.

Lemma start_ctx_ok s :
  start_quirk s = false ->
  ctx_ok false (start_prev_punct (categorize s)) (start_prev_cmd points (categorize s)) s.
Proof.
  intros Hq Hsl. unfold categorize.
  destruct s as [|c0 [|c1 s']].
  - discriminate Hsl.
  - left. cbn [starts_letter] in Hsl. apply is_c_true in Hsl.
    unfold start_prev_cmd. cbn [categorize_from start_prev_punct].
    assert (E : prev_is_escape (Some (mkc c0 0%Z (catc c0))) = false).
    { unfold prev_is_escape. apply is_cat_false. cbn [ccat]. rewrite Hsl. discriminate. }
    rewrite E. split; first [reflexivity | exact E].
  - cbn [starts_letter] in Hsl. unfold start_prev_cmd.
    cbn [categorize_from start_prev_punct].
    change (prev_is_escape (Some (mkc c1 (0 + 1)%Z (catc c1)))) with (is_c CEscape c1).
    destruct (is_c CEscape c1) eqn:E1.
    + right. split; [reflexivity|]. split; [apply find_point_second_escape; exact E1|].
      unfold start_quirk in Hq. rewrite Hsl, E1 in Hq. cbn [andb] in Hq.
      change (mkc c0 0%Z (catc c0) :: mkc c1 (0 + 1)%Z (catc c1) :: cf (0 + 1 + 1)%Z s')
        with (cf 0%Z (c0 :: c1 :: s')).
      rewrite cf_length, nth_error_cf.
      destruct (nth_error (c0 :: c1 :: s')
                  (Nat.min (length (c0 :: c1 :: s')) (S (max_point_len points)) - 1)) as [c|];
        [|reflexivity].
      cbn [nth_is] in Hq. unfold prev_is_escape. rewrite is_cat_cf. exact Hq.
    + left. change (prev_is_escape (Some (mkc c1 (0 + 1)%Z (catc c1)))) with (is_c CEscape c1).
      rewrite E1. split; reflexivity.
Qed.

(* TOKINV *)
Theorem tokinv toks :
  Forall (fun t => shape t = true) toks -> follows_ok toks = true -> first_ok toks = true ->
  tokens_of_string (texts toks) = (repos 0 toks, TEnd).
Proof.
  intros Hsh Hfo Hfirst. unfold first_ok in Hfirst. apply andb_true_iff in Hfirst.
  destruct Hfirst as [Hpre Hq]. apply negb_true_iff in Hq.
  unfold tokens_of_string, tokenize, tokenize_with.
  unfold categorize at 4.
  apply (loop_tokinv toks _ 0%Z _ _ None false Hsh Hfo Hpre).
  - apply start_ctx_ok. exact Hq.
  - unfold categorize. rewrite cf_length. lia.
Qed.

Fixpoint offsets_ok (p : Z) (toks : list token) : Prop :=
  match toks with
  | [] => True
  | t :: r => tpos t = p /\ offsets_ok (p + Z.of_nat (length (ttext t)))%Z r
  end.

Lemma repos_id toks : forall p, offsets_ok p toks -> repos p toks = toks.
Proof.
  induction toks as [|t r IH]; intros p H; [reflexivity|].
  cbn [offsets_ok] in H. destruct H as [H1 H2]. cbn [repos]. rewrite (IH _ H2).
  destruct t as [x q k]. cbn [ttext tpos tcat] in *. subst q. reflexivity.
Qed.

Corollary tokinv_exact toks :
  Forall (fun t => shape t = true) toks -> follows_ok toks = true -> first_ok toks = true ->
  offsets_ok 0 toks ->
  tokens_of_string (texts toks) = (toks, TEnd).
Proof. intros A B C D. rewrite (tokinv toks A B C), (repos_id toks 0%Z D). reflexivity. Qed.
