(* The regenerated reader (Model/ReadGen.v, interpreted by Model/ReadDSL.v)
   computes what the hand-written reader of Model/Reader.v computes: function
   by function, for all buffers and arguments, and from the top.

   Set-up.  The buffer of the DSL is (all tokens, cursor i); the hand-written
   functions work on the suffix `skipn i all`.  NE all: no token of the buffer
   has empty text (Buffer.hasNext() is bool(peek()) and an empty Token is
   false; the hand model only tests for a token -- see
   parse_tokens_gen_unconditional_refuted).  The relations rel_expr / rel_ref /
   rel_list / rel_cmd / rel_args / rel_cnt say, for a result r of a
   hand-written function and the result c of the corresponding call:
     r = Ok (x, rest)   ->  c = CDone <x as a value> locs (all, i') with
                            rest = skipn i' all and i <= i' (and, for the
                            functions that mutate a parameter, its final value
                            heads locs)
     r = Err e          ->  c = CExc e            (e a Python exception)
     r = Err OutOfFuel  ->  nothing is claimed.
   Fuel.  rel_all_holds: for every fuel f of the hand-written functions and
   every fuel m >= 2 f + 2 of `call`, all nine relations hold.  So whenever the
   hand model does not run out of its fuel, the interpreter run with at least
   twice that (+2) returns the same value, the same exception, the same cursor;
   in particular it is neither OFuel nor OUnsup.

   Structure.  Leaves first (read_spacer, unclosed_env_handler, read_skip_env);
   then each function body under the hypothesis that the calls it makes agree
   (sections with hypotheses), the loops by induction on the hand model's fuel;
   rel_all_holds ties the knot by induction on f; read_tex and the root on top.

   How the bodies are proved.  The generated terms are in the normal form of
   harness/gen_reader.py (early exits moved into the branches of the `if`s,
   `not` and `!=` tests turned round, ...), so most re-arrangements of the
   source give the same term.  The scripts below do not rely on where a
   statement stands in a block: each splits on what the HAND-WRITTEN function
   splits on (end of input, category of the token at the cursor, the numbers,
   the names), lets `vs` run the program under those facts -- every decision
   made so far is a hypothesis and is rewritten wherever the program asks
   again, in whatever order it asks -- and at a call of another reader function
   uses the hypothesis about that call (call_expr, call_cmd, call_arg_group,
   ...), found by matching the goal.  Frames are only spelled out in the loop
   invariants.  A change of reader.py that changes what a function computes
   breaks the lemma named after that function. *)
From Coq Require Import List NArith ZArith Bool Lia Arith.
From TexModel Require Import Base Tables Chars Tokenizer Tree Reader ReadDSL ReadGen.
From TexProofs Require Import TokProofs ReaderLen ReaderTotal.
Import ListNotations.

Definition NE (all : list token) : Prop := Forall (fun t => ttext t <> []) all.

Lemma call_S tbl n f args b :
  call tbl (S n) f args b =
  match init_frame (tbl f) args with
  | Some fr => finish (tbl f) (exec_block tbl (call tbl n) n (fd_body (tbl f)) fr b)
  | None => CUnsup
  end.
Proof. reflexivity. Qed.

Arguments has_next : simpl never.
Arguments peek_at : simpl never.
Arguments tok_at : simpl never.
Arguments skipn : simpl never.
Arguments call : simpl never.
Arguments assoc_str : simpl never.
Arguments math_kind_of_begin : simpl never.
Arguments group_kind_of_begin : simpl never.
Arguments strip : simpl never.
Arguments arg_string : simpl never.
Arguments math_tok_end : simpl never.
Arguments group_tok_end : simpl never.
Arguments mem_str : simpl never.
Arguments env_end : simpl never.
Arguments forward_until : simpl never.
Arguments starts_with_buf : simpl never.
Arguments peek_range : simpl never.



(* what the buffer operations see at the cursor *)
Inductive bview (all : list token) (i : nat) : Type :=
| BV_end : skipn i all = [] -> has_next (mkbuf all i) = false ->
           peek_at (mkbuf all i) 0 = VNone -> tok_at (mkbuf all i) 0 = None -> bview all i
| BV_tok t r : skipn i all = t :: r -> has_next (mkbuf all i) = true ->
           peek_at (mkbuf all i) 0 = tok_val t -> tok_at (mkbuf all i) 0 = Some t ->
           skipn (S i) all = r -> nonempty (ttext t) = true -> bview all i.

Lemma skipn_nth_error {A} (l : list A) : forall i,
  nth_error l i = match skipn i l with x :: _ => Some x | [] => None end.
Proof.
  induction l as [|a l IH]; intros [|i]; try reflexivity. simpl. apply IH.
Qed.

Lemma skipn_S_tail {A} (l : list A) : forall i x r, skipn i l = x :: r -> skipn (S i) l = r.
Proof.
  induction l as [|a l IH]; intros [|i] x r H; simpl in *; try discriminate.
  - inversion H. reflexivity.
  - apply (IH i x r H).
Qed.

Lemma skipn_in {A} (l : list A) : forall i x r, skipn i l = x :: r -> In x l.
Proof.
  intros i x r H. rewrite <- (firstn_skipn i l). apply in_or_app. right. rewrite H. left. reflexivity.
Qed.

Lemma buf_view all i : NE all -> bview all i.
Proof.
  intro H. destruct (skipn i all) as [|t r] eqn:E.
  - apply BV_end; auto.
    + unfold has_next, rest_of. simpl. rewrite E. reflexivity.
    + unfold peek_at, tok_at. simpl. rewrite Nat.add_0_r, skipn_nth_error, E. reflexivity.
    + unfold tok_at. simpl. rewrite Nat.add_0_r, skipn_nth_error, E. reflexivity.
  - apply (BV_tok all i t r); auto.
    + unfold has_next, rest_of. simpl. rewrite E.
      assert (Ht : ttext t <> []).
      { unfold NE in H. rewrite Forall_forall in H. apply H. eapply skipn_in; eauto. }
      destruct (ttext t); [congruence | reflexivity].
    + unfold peek_at, tok_at. simpl. rewrite Nat.add_0_r, skipn_nth_error, E. reflexivity.
    + unfold tok_at. simpl. rewrite Nat.add_0_r, skipn_nth_error, E. reflexivity.
    + eapply skipn_S_tail; eauto.
    + assert (Ht : ttext t <> []).
      { unfold NE in H. rewrite Forall_forall in H. apply H. eapply skipn_in; eauto. }
      destruct (ttext t); [congruence | reflexivity].
Qed.

Ltac bcase all i HNE :=
  let E := fresh "E" in let Hh := fresh "Hh" in let Hp := fresh "Hp" in
  let Hn := fresh "Hn" in let Hs := fresh "Hs" in
  let t := fresh "t" in let r := fresh "r" in let Ht := fresh "Ht" in
  destruct (buf_view all i HNE) as [E Hh Hp Hn | t r E Hh Hp Hn Hs Ht];
  repeat (progress (rewrite ?Hh, ?Hp, ?Hn, ?E; cbn)).

Section Leaf.
Variable rec : fname -> list value -> buf -> cres.
Variable lf : nat.

Definition body (f : fname) (args : list value) (b : buf) : cres :=
  match init_frame (gen_table f) args with
  | Some fr => finish (gen_table f) (exec_block gen_table rec lf (fd_body (gen_table f)) fr b)
  | None => CUnsup
  end.

(* read_spacer on the buffer: the value returned and the new cursor *)
Definition spacer_step (all : list token) (i : nat) : value * nat :=
  match skipn i all with
  | t :: _ => if is_tc TMergedSpacer t then (tok_val t, S i) else (VStr [], i)
  | [] => (VStr [], i)
  end.

Lemma body_read_spacer all i : NE all ->
  body F_read_spacer [] (mkbuf all i) =
  CDone (fst (spacer_step all i)) [] (mkbuf all (snd (spacer_step all i))).
Proof.
  intro HNE. unfold body, spacer_step. cbn. bcase all i HNE; cbn.
  - reflexivity.
  - unfold is_tc. cbn. destruct (tc_beq (tcat t) TMergedSpacer); cbn.
    + rewrite ?Hn. reflexivity.
    + reflexivity.
Qed.

Lemma spacer_step_hand all i : NE all ->
  let '(b, src) := read_spacer (skipn i all) in
  truthy (fst (spacer_step all i)) = Some b /\ src = skipn (snd (spacer_step all i)) all
  /\ (i <= snd (spacer_step all i) <= S i)%nat.
Proof.
  intro HNE. unfold spacer_step, read_spacer. bcase all i HNE.
  - cbn. rewrite ?E. auto.
  - destruct (is_tc TMergedSpacer t); cbn.
    + rewrite ?Hs. destruct (ttext t); [discriminate Ht|]. auto.
    + rewrite ?E. auto.
Qed.

(* unclosed_env_handler always raises EOFError *)
Definition has_end (e : expr) : Prop :=
  match e with ENamed _ _ _ _ | EMath _ _ _ => True | _ => False end.
Definition tok_or_none (v : value) : Prop :=
  match v with VNone | VTok _ _ _ => True | _ => False end.

Lemma body_unclosed e v b : has_end e -> tok_or_none v ->
  body F_unclosed_env_handler [VExpr e; v] b = CExc EOFError.
Proof.
  intros He Hv. unfold body.
  destruct e; try contradiction; destruct v; try contradiction; cbn;
    try reflexivity; destruct s; reflexivity.
Qed.

(* ---- read_skip_env *)
Lemma until_scan_skip_scan target : forall toks acc, NE toks ->
  until_scan target acc toks =
  (fst (skip_scan target acc toks), length toks - length (snd (skip_scan target acc toks)))
  /\ snd (skip_scan target acc toks) =
     skipn (length toks - length (snd (skip_scan target acc toks))) toks
  /\ (length (snd (skip_scan target acc toks)) <= length toks)%nat.
Proof.
  induction toks as [|t r IH]; intros acc HNE.
  - cbn. auto.
  - inversion HNE as [|? ? Ht Hr]; subst.
    cbn [until_scan skip_scan].
    destruct (ttext t) as [|c0 s0] eqn:Et; [congruence|]. cbn [nonempty negb].
    rewrite <- Et.
    destruct (starts_with (texts (firstn (length target) (t :: r))) target) eqn:Es.
    + cbn [fst snd]. rewrite Nat.sub_diag. auto.
    + destruct (IH (acc ++ ttext t) Hr) as (H1 & H2 & H3). rewrite H1.
      destruct (skip_scan target (acc ++ ttext t) r) as [a rest] eqn:Ess. cbn [fst snd] in *.
      cbn [length]. replace (S (length r) - length rest)%nat with (S (length r - length rest)) by lia.
      split; [reflexivity|]. split; [|lia]. exact H2.
Qed.

Definition rel_ref (all : list token) (i : nat) (r : res (expr * list token)) (c : cres) : Prop :=
  match r with
  | Err OutOfFuel => True
  | Err er => c = CExc er
  | Ok (e, rest) => exists i' locs, c = CDone (VExpr e) (Some (VExpr e) :: locs) (mkbuf all i')
                                    /\ rest = skipn i' all /\ (i <= i')%nat
  end.

Hypothesis Hunc : forall e v b, has_end e -> tok_or_none v ->
  rec F_unclosed_env_handler [VExpr e; v] b = CExc EOFError.

Lemma tok_or_none_join ts : tok_or_none (join_tokens ts).
Proof. destruct ts; exact I. Qed.

Lemma skipn_skipn' {A} (l : list A) : forall a b, skipn a (skipn b l) = skipn (b + a) l.
Proof.
  induction l as [|x l IH]; intros a [|b]; try reflexivity.
  - destruct a; reflexivity.
  - simpl. apply IH.
Qed.

Lemma NE_skipn all i : NE all -> NE (skipn i all).
Proof.
  unfold NE. intro H. rewrite <- (firstn_skipn i all) in H. apply Forall_app in H. apply H.
Qed.

Lemma forward_until_eq all i target : NE all ->
  forward_until (mkbuf all i) target =
  (VTok (fst (skip_scan target [] (skipn i all)))
        (match skipn i all with t :: _ => tpos t | [] => Z.of_nat i end) None,
   mkbuf all (i + (length (skipn i all) - length (snd (skip_scan target [] (skipn i all)))))).
Proof.
  intro HNE. unfold forward_until, rest_of. cbn [b_all b_pos].
  destruct (until_scan_skip_scan target (skipn i all) [] (NE_skipn all i HNE)) as (H1 & _ & _).
  rewrite H1. bcase all i HNE; reflexivity.
Qed.

Lemma env_end_nonempty name : env_end name <> [].
Proof. discriminate. Qed.

Lemma starts_with_nil_false p : p <> [] -> starts_with [] p = false.
Proof. destruct p; [congruence | reflexivity]. Qed.

Lemma body_read_skip_env all i name args pos : NE all ->
  rel_ref all i (read_skip_env name args pos (skipn i all))
          (body F_read_skip_env [VExpr (ENamed name args [] pos)] (mkbuf all i)).
Proof.
  intro HNE. unfold body. cbn.
  assert (Hee : forall n, (92 :: 101 :: 110 :: 100 :: 123 :: n ++ [125])%N = env_end n)
    by reflexivity.
  rewrite !Hee.
  rewrite (forward_until_eq all i (env_end name) HNE).
  destruct (until_scan_skip_scan (env_end name) (skipn i all) [] (NE_skipn all i HNE))
    as (_ & H2 & H3).
  unfold read_skip_env.
  destruct (skip_scan (env_end name) [] (skipn i all)) as [bd rest] eqn:Ess.
  cbn [fst snd] in *. cbn. rewrite ?Hee.
  unfold starts_with_buf, rest_of. cbn [b_all b_pos].
  assert (Hrest : skipn (i + (length (skipn i all) - length rest)) all = rest)
    by (rewrite <- skipn_skipn'; symmetry; exact H2).
  rewrite Hrest.
  remember (skipn i all) as toks eqn:E.
  destruct toks as [|t0 r0].
  - (* nothing left *)
    cbn in H3. assert (rest = []) by (destruct rest; [reflexivity | cbn in H3; lia]). subst rest.
    rewrite firstn_nil. cbn [texts concat map].
    rewrite (starts_with_nil_false _ (env_end_nonempty name)). cbn.
    unfold do_call; rewrite Hunc; [reflexivity | exact I | apply tok_or_none_join].
  - destruct rest as [|r1 rest'].
    + rewrite firstn_nil. cbn [texts concat map].
      rewrite (starts_with_nil_false _ (env_end_nonempty name)). cbn.
      unfold do_call; rewrite Hunc; [reflexivity | exact I | apply tok_or_none_join].
    + destruct (starts_with (texts (firstn (length (env_end name)) (r1 :: rest'))) (env_end name)) eqn:Esw.
      * cbn. eexists; eexists.
        split; [reflexivity|]. split; [|lia].
        match type of Hrest with skipn ?k all = _ =>
          transitivity (skipn 5 (skipn k all)); [rewrite Hrest; reflexivity|];
          rewrite skipn_skipn'; f_equal; cbn; lia
        end.
      * cbn. unfold do_call; rewrite Hunc; [reflexivity | exact I | apply tok_or_none_join].
Qed.
End Leaf.

(* ------------------------------------------------------------ value lemmas *)
Arguments bin_op : simpl never.
Arguments glob_val : simpl never.
Arguments dict_lookup : simpl never.
Arguments mode_val : simpl never.
Arguments tol_val : simpl never.
Arguments skip_val : simpl never.

Definition glob_list (g : glob) : list str :=
  match g with
  | G_SKIP_ENV_NAMES => Tables.skip_env_names
  | G_MATH_ENV_NAMES => Tables.math_env_names
  | G_SPECIAL_COMMANDS => Tables.special_commands
  end.

Lemma str_eqb_sym a b : str_eqb a b = str_eqb b a.
Proof.
  destruct (str_eqb a b) eqn:E1, (str_eqb b a) eqn:E2; try reflexivity.
  - apply str_eqb_eq in E1. subst. rewrite str_eqb_refl in E2. discriminate.
  - apply str_eqb_eq in E2. subst. rewrite str_eqb_refl in E1. discriminate.
Qed.

Lemma py_in_strs s l : py_in (VStr s) (map VStr l) = Some (mem_str s l).
Proof.
  induction l as [|y l IH]; [reflexivity|]. cbn [map py_in py_eq]. unfold mem_str in *. cbn [existsb].
  rewrite (str_eqb_sym s y). destruct (str_eqb y s); [reflexivity | exact IH].
Qed.

Lemma bop_in_glob s g : bin_op OIn (VStr s) (glob_val g) = Some (VBool (mem_str s (glob_list g))).
Proof. destruct g; unfold bin_op, glob_val; cbn [glob_list]; rewrite py_in_strs; reflexivity. Qed.
Lemma bop_in_skip s l : bin_op OIn (VStr s) (skip_val l) = Some (VBool (mem_str s l)).
Proof. unfold bin_op, skip_val. rewrite py_in_strs. reflexivity. Qed.
Lemma bop_eq_cat a b : bin_op OEq (VCat a) (VCat b) = Some (VBool (tc_beq a b)).
Proof. reflexivity. Qed.
Lemma bop_ne_cat a b : bin_op ONe (VCat a) (VCat b) = Some (VBool (negb (tc_beq a b))).
Proof. reflexivity. Qed.
Lemma bop_eq_tok_str s p k x : bin_op OEq (VTok s p k) (VStr x) = Some (VBool (str_eqb s x)).
Proof. reflexivity. Qed.
Lemma bop_eq_int a b : bin_op OEq (VInt a) (VInt b) = Some (VBool (a =? b)%Z).
Proof. reflexivity. Qed.
Lemma bop_ne_int a b : bin_op ONe (VInt a) (VInt b) = Some (VBool (negb (a =? b)%Z)).
Proof. reflexivity. Qed.
Lemma bop_lt_int a b : bin_op OLt (VInt a) (VInt b) = Some (VBool (a <? b)%Z).
Proof. reflexivity. Qed.
Lemma bop_gt_int a b : bin_op OGt (VInt a) (VInt b) = Some (VBool (b <? a)%Z).
Proof. reflexivity. Qed.
Lemma bop_eq_tol strict : bin_op OEq (tol_val strict) (VInt 0) = Some (VBool strict).
Proof. destruct strict; reflexivity. Qed.
Lemma bop_ne_mode_math m : bin_op ONe (mode_val m) (VStr gen_MODE_MATH) = Some (VBool (negb (mode_is_math m))).
Proof. destruct m; reflexivity. Qed.
Lemma bop_ne_mode_special m : bin_op ONe (mode_val m) (VStr gen_MODE_SPECIAL) = Some (VBool (negb (mode_is_special m))).
Proof. destruct m; reflexivity. Qed.
Lemma bop_add_skip l : bin_op OAdd (glob_val G_SKIP_ENV_NAMES) (skip_val l) = Some (skip_val (Tables.skip_env_names ++ l)).
Proof. unfold bin_op, glob_val, skip_val. rewrite map_app. reflexivity. Qed.

Lemma dict_sig_tok s p k :
  dict_lookup D_SIGNATURES (VTok s p k) =
  match assoc_str s Tables.signatures with
  | Some (a, b) => DFound (VTuple [VInt a; VInt b])
  | None => DMissing
  end.
Proof. reflexivity. Qed.
Lemma dict_sig_tokval t :
  dict_lookup D_SIGNATURES (tok_val t) =
  match assoc_str (ttext t) Tables.signatures with
  | Some (a, b) => DFound (VTuple [VInt a; VInt b])
  | None => DMissing
  end.
Proof. reflexivity. Qed.
Lemma bop_eq_tokval_str t x : bin_op OEq (tok_val t) (VStr x) = Some (VBool (str_eqb (ttext t) x)).
Proof. reflexivity. Qed.
Lemma dict_math c : dict_lookup D_MATH_TOKEN_TO_ENV (VCat c) =
  match math_kind_of_begin c with Some k => DFound (VCls (KMath k)) | None => DMissing end.
Proof. reflexivity. Qed.
Lemma dict_group c : dict_lookup D_ARG_BEGIN_TO_ENV (VCat c) =
  match group_kind_of_begin c with Some k => DFound (VCls (KGroup k)) | None => DMissing end.
Proof. reflexivity. Qed.

Lemma mode_val_special : VStr gen_MODE_SPECIAL = mode_val MSpecial. Proof. reflexivity. Qed.
Lemma mode_val_math : VStr gen_MODE_MATH = mode_val MMath. Proof. reflexivity. Qed.
Lemma mode_val_non_math : VStr gen_MODE_NON_MATH = mode_val MNonMath. Proof. reflexivity. Qed.
Lemma tol_val_0 : VInt 0 = tol_val true. Proof. reflexivity. Qed.
Lemma skip_val_nil : VTuple [] = skip_val []. Proof. reflexivity. Qed.

Create HintDb bop.
#[export] Hint Rewrite bop_in_glob bop_in_skip bop_eq_cat bop_ne_cat bop_eq_tok_str bop_eq_int bop_ne_int
  bop_lt_int bop_gt_int bop_eq_tol bop_ne_mode_math bop_ne_mode_special bop_add_skip
  dict_sig_tok dict_sig_tokval bop_eq_tokval_str dict_math dict_group : bop.

(* facts about the buffer at a cursor, and every decision that was split on
   (a hypothesis  l = true / false / None / Some _), rewritten wherever the
   program asks again *)
Ltac bfacts := repeat match goal with
  | H : nonempty (ttext ?t) = true |- context [nonempty (ttext ?t)] => rewrite H
  | H : has_next ?b = _ |- context [has_next ?b] => rewrite H
  | H : peek_at ?b 0 = _ |- context [peek_at ?b 0] => rewrite H
  | H : tok_at ?b 0 = _ |- context [tok_at ?b 0] => rewrite H
  | H : ?l = true |- context [?l] => rewrite H
  | H : ?l = false |- context [?l] => rewrite H
  | H : ?l = None |- context [?l] => rewrite H
  | H : ?l = Some _ |- context [?l] => rewrite H
  end.
Ltac bfacts_in X := repeat match goal with
  | H : has_next ?b = _ |- _ => rewrite H in X
  | H : peek_at ?b 0 = _ |- _ => rewrite H in X
  | H : tok_at ?b 0 = _ |- _ => rewrite H in X
  end.
Ltac vs := repeat (progress (cbn; autorewrite with bop; change (Pos.to_nat 1) with 1%nat; rewrite ?Nat.sub_0_r, ?Nat.add_1_r; bfacts)).
Ltac vs_in X := repeat (progress (cbn in X; autorewrite with bop in X; bfacts_in X)).

(* ------------------------------------------------------------- relations *)
Definition rel_expr (all : list token) (i : nat) (r : res (expr * list token)) (c : cres) : Prop :=
  match r with
  | Err OutOfFuel => True
  | Err er => c = CExc er
  | Ok (e, rest) => exists i' locs, c = CDone (VExpr e) locs (mkbuf all i')
                                    /\ rest = skipn i' all /\ (i <= i')%nat
  end.
Definition rel_list (all : list token) (i : nat) (r : res (list expr * list token)) (c : cres) : Prop :=
  match r with
  | Err OutOfFuel => True
  | Err er => c = CExc er
  | Ok (es, rest) => exists i' locs, c = CDone (VList (map VExpr es)) locs (mkbuf all i')
                                     /\ rest = skipn i' all /\ (i <= i')%nat
  end.
Definition rel_cmd (all : list token) (i : nat) (r : res ((str * list expr) * list token)) (c : cres)
  : Prop :=
  match r with
  | Err OutOfFuel => True
  | Err er => c = CExc er
  | Ok ((name, args), rest) =>
    exists i' locs p k, c = CDone (VTuple [VTok name p k; VArgs args]) locs (mkbuf all i')
                        /\ rest = skipn i' all /\ (i <= i')%nat
  end.
Definition rel_args (all : list token) (i : nat) (r : res (list expr * list token)) (c : cres) : Prop :=
  match r with
  | Err OutOfFuel => True
  | Err er => c = CExc er
  | Ok (args, rest) => exists i' locs, c = CDone (VArgs args) locs (mkbuf all i')
                                       /\ rest = skipn i' all /\ (i <= i')%nat
  end.
Definition rel_cnt (all : list token) (i : nat) (r : res ((list expr * Z) * list token)) (c : cres)
  : Prop :=
  match r with
  | Err OutOfFuel => True
  | Err er => c = CExc er
  | Ok ((args, n), rest) =>
    exists i' locs, c = CDone (VInt n) (Some (VArgs args) :: locs) (mkbuf all i')
                    /\ rest = skipn i' all /\ (i <= i')%nat
  end.
(* the error branch of a call: the hand side is Err er *)
Ltac err_case H er :=
  destruct er; try exact I; cbn in H; unfold do_call; rewrite H; vs; try reflexivity.

(* use a hypothesis H : rel_X all j (hand call) (rec ...) : split on the hand
   result; in the Ok case rewrite the rec call in the goal *)
Ltac use_cnt H a n j l Hle :=
  let er := fresh "er" in let r := fresh "r" in let Hr := fresh "Hr" in
  match type of H with
  | rel_cnt _ _ ?h _ => destruct h as [[[a n] r]|er]; [|err_case H er]
  end;
  destruct H as (j & l & H & Hr & Hle); unfold do_call; rewrite H; vs; subst r.
Ltac use_expr H e j l Hle :=
  let er := fresh "er" in let r := fresh "r" in let Hr := fresh "Hr" in
  match type of H with
  | rel_expr _ _ ?h _ => destruct h as [[e r]|er]; [|err_case H er]
  end;
  destruct H as (j & l & H & Hr & Hle); unfold do_call; rewrite H; vs; subst r.
Ltac use_ref H e j l Hle :=
  let er := fresh "er" in let r := fresh "r" in let Hr := fresh "Hr" in
  match type of H with
  | rel_ref _ _ ?h _ => destruct h as [[e r]|er]; [|err_case H er]
  end;
  destruct H as (j & l & H & Hr & Hle); unfold do_call; rewrite H; vs; subst r.
Ltac use_list H es j l Hle :=
  let er := fresh "er" in let r := fresh "r" in let Hr := fresh "Hr" in
  match type of H with
  | rel_list _ _ ?h _ => destruct h as [[es r]|er]; [|err_case H er]
  end;
  destruct H as (j & l & H & Hr & Hle); unfold do_call; rewrite H; vs; subst r.
Ltac use_args H es j l Hle :=
  let er := fresh "er" in let r := fresh "r" in let Hr := fresh "Hr" in
  match type of H with
  | rel_args _ _ ?h _ => destruct h as [[es r]|er]; [|err_case H er]
  end;
  destruct H as (j & l & H & Hr & Hle); unfold do_call; rewrite H; vs; subst r.
Ltac use_cmd H nm a j l Hle :=
  let er := fresh "er" in let r := fresh "r" in let Hr := fresh "Hr" in
  let p := fresh "p" in let k := fresh "k" in
  match type of H with
  | rel_cmd _ _ ?h _ => destruct h as [[[nm a] r]|er]; [|err_case H er]
  end;
  destruct H as (j & l & p & k & H & Hr & Hle); unfold do_call; rewrite H; vs; subst r.
Ltac done_at j := exists j; eexists; split; [reflexivity|]; split; [try reflexivity; try (symmetry; assumption) | lia].

Section Command.
Variable rec : fname -> list value -> buf -> cres.
Variable lf : nat.
Variable f : nat.
Hypothesis Hargs : forall all i nreq nopt strict m, NE all ->
  rel_args all i (read_args f nreq nopt strict m (skipn i all))
           (rec F_read_args [VInt nreq; VInt nopt; VNone; tol_val strict; mode_val m] (mkbuf all i)).

(* the command proper, with the cursor j on the name token t (r the tokens
   after it): split on what the hand-written function splits on, run the
   program, use the hypothesis about read_args at the call *)
Ltac cmd_main all j t r Hs HNE :=
  rewrite ?mode_val_special;
  let Hcall := fresh "Hcall" in
  assert (Hcall : forall nreq' nopt' m' strict',
    rel_args all (S j) (read_args f nreq' nopt' strict' m' r)
      (rec F_read_args [VInt nreq'; VInt nopt'; VNone; tol_val strict'; mode_val m'] (mkbuf all (S j))))
    by (intros; rewrite <- Hs; apply Hargs; exact HNE);
  let Em := fresh "Em" in
  destruct (mem_str (ttext t) Tables.special_commands) eqn:Em; vs;
  match goal with
  | |- context [(?a <? 0)%Z && (?b <? 0)%Z] => destruct (a <? 0)%Z; vs; [destruct (b <? 0)%Z; vs|]
  end;
  unfold signature_of; try (destruct (assoc_str (ttext t) Tables.signatures) as [[? ?]|]; vs);
  rewrite ?mode_val_special;
  unfold do_call;
  match goal with
  | |- context [rec F_read_args [VInt ?a; VInt ?b; VNone; tol_val ?st; mode_val ?mm] _] =>
    let Hc := fresh "Hc" in
    pose proof (Hcall a b mm st) as Hc;
    match type of Hc with
    | rel_args _ _ ?h _ =>
      let ar := fresh "ar" in let rr := fresh "rr" in let er := fresh "er" in
      destruct h as [[ar rr]|er];
      [ let i' := fresh "i'" in let locs := fresh "locs" in let Hr := fresh "Hr" in let Hle := fresh "Hle" in
        destruct Hc as (i' & locs & Hc & Hr & Hle); rewrite Hc; vs;
        exists i'; eexists; eexists; eexists; split; [reflexivity|]; split; [exact Hr | lia]
      | destruct er; try exact I; cbn in Hc; rewrite Hc; reflexivity ]
    end
  end.

Lemma body_read_command all i nreq nopt sk strict m : NE all -> (sk <= 1)%nat ->
  rel_cmd all i (read_command (S f) nreq nopt sk strict m (skipn i all))
          (body rec lf F_read_command
                [VInt nreq; VInt nopt; VInt (Z.of_nat sk); tol_val strict; mode_val m] (mkbuf all i)).
Proof.
  intros HNE Hsk. unfold body.
  destruct sk as [|[|sk]]; [| |lia].
  - (* skip = 0 *)
    cbn [read_command Nat.ltb Nat.leb]. rewrite skipn_O. vs. bcase all i HNE; vs.
    + exists i. eexists. eexists. eexists. split; [reflexivity|]. split; [symmetry; exact E | lia].
    + cmd_main all i t r Hs HNE.
  - (* skip = 1: one token is passed over first *)
    cbn [read_command]. vs. bcase all i HNE; vs.
    + reflexivity.
    + change (skipn 1 (t :: r)) with r. rewrite <- Hs.
      bcase all (S i) HNE; vs.
      * exists (S i). eexists. eexists. eexists. split; [reflexivity|]. split; [symmetry; exact E0 | lia].
      * cmd_main all (S i) t0 r0 Hs0 HNE.
Qed.
End Command.

(* rewrite what is known about the suffixes `skipn j all` in H *)
Ltac fix_skipn H :=
  repeat match goal with
  | E : skipn ?j ?all = _ |- _ =>
    match type of H with context [skipn j all] => rewrite E in H end
  end.

(* the hand side is Ok: the program has returned with the cursor where it is *)
Ltac done_cur :=
  cbn [rel_args rel_cnt rel_expr rel_list rel_ref rel_cmd];
  match goal with
  | |- exists _ _, CDone _ _ {| b_all := _; b_pos := ?j |} = _ /\ _ => done_at j
  end.

Section Args.
Variable rec : fname -> list value -> buf -> cres.
Variable lf : nat.
Variable f : nat.
Hypothesis Hopt : forall all i args nopt strict m, NE all ->
  rel_cnt all i (read_arg_optional f args nopt strict m (skipn i all))
          (rec F_read_arg_optional [VArgs args; VInt nopt; tol_val strict; mode_val m] (mkbuf all i)).
Hypothesis Hreq : forall all i args nreq strict m, NE all ->
  rel_cnt all i (read_arg_required f args nreq strict m (skipn i all))
          (rec F_read_arg_required [VArgs args; VInt nreq; tol_val strict; mode_val m] (mkbuf all i)).

(* the program is about to call read_arg_optional / read_arg_required: use the
   hypothesis at that call *)
Ltac call_opt HNE a n j l Hle :=
  unfold do_call;
  match goal with
  | |- context [rec F_read_arg_optional [VArgs ?aa; VInt ?nn; tol_val ?st; mode_val ?mm] (mkbuf ?all ?jj)] =>
    let H := fresh "Hc" in pose proof (Hopt all jj aa nn st mm HNE) as H; fix_skipn H; use_cnt H a n j l Hle
  end.
Ltac call_req HNE a n j l Hle :=
  unfold do_call;
  match goal with
  | |- context [rec F_read_arg_required [VArgs ?aa; VInt ?nn; tol_val ?st; mode_val ?mm] (mkbuf ?all ?jj)] =>
    let H := fresh "Hc" in pose proof (Hreq all jj aa nn st mm HNE) as H; fix_skipn H; use_cnt H a n j l Hle
  end.

(* the last statement pair: `if src.hasNext() and <group begin>: read_arg_required`,
   `return args`, with the token at the cursor known *)
Ltac args_last_tok HNE t :=
  unfold is_tc; let Eg := fresh "Eg" in
  destruct (tc_beq (tcat t) TGroupBegin) eqn:Eg; vs;
  [ let a4 := fresh "a4" in let n4 := fresh "n4" in let i4 := fresh "i4" in
    let l4 := fresh "l4" in let Hle4 := fresh "Hle4" in
    call_req HNE a4 n4 i4 l4 Hle4; done_at i4
  | done_cur ].

Lemma body_read_args all i nreq nopt strict m : NE all ->
  rel_args all i (read_args (S f) nreq nopt strict m (skipn i all))
           (body rec lf F_read_args [VInt nreq; VInt nopt; VNone; tol_val strict; mode_val m]
                 (mkbuf all i)).
Proof.
  intro HNE. unfold body. cbn [read_args]. vs.
  destruct (nreq =? 0)%Z eqn:E0; vs; [destruct (nopt =? 0)%Z eqn:E1; vs|].
  { done_at i. }
  all: call_opt HNE a1 n1 i1 l1 Hle1.
  all: call_req HNE a2 n2 i2 l2 Hle2.
  all: bcase all i2 HNE; vs; [done_at i2|].
  all: unfold is_tc; destruct (tc_beq (tcat t) TBracketBegin) eqn:Eb; vs.
  all: try args_last_tok HNE t.
  all: call_opt HNE a3 n3 i3 l3 Hle3.
  all: bcase all i3 HNE; vs; [done_at i3|].
  all: args_last_tok HNE t0.
Qed.
End Args.

(* ------------------------------------------------------------------- loops *)
Arguments while_loop : simpl never.

Lemma while_S ev bd f fr b :
  while_loop ev bd (S f) fr b =
  match ev fr b with
  | EV v fr1 b1 =>
    match truthy v with
    | Some true =>
      match bd fr1 b1 with
      | XNormal fr2 b2 => while_loop ev bd f fr2 b2
      | XContinue fr2 b2 => while_loop ev bd f fr2 b2
      | XBreak fr2 b2 => XNormal fr2 b2
      | x => x
      end
    | Some false => XNormal fr1 b1
    | None => XUnsup
    end
  | EX e => XExc e
  | EU => XUnsup
  | EF => XFuel
  end.
Proof. reflexivity. Qed.

(* read_arg returns a group *)
Lemma read_arg_loop_group : forall f k pos strict m acc toks e rest,
  read_arg_loop f k pos strict m acc toks = Ok (e, rest) -> exists b, e = EGroup k b pos.
Proof.
  induction f as [|f IH]; intros k pos strict m acc toks e rest H; [discriminate|].
  cbn [read_arg_loop] in H. destruct toks as [|t src].
  - destruct strict; [discriminate|]. inversion H. eauto.
  - destruct (is_group_end k t); [inversion H; eauto|].
    destruct (read_expr f [] strict m (t :: src)) as [[e1 s1]|]; [|discriminate].
    cbn [bind] in H. eapply IH; eauto.
Qed.
Lemma read_arg_group f c strict m toks e rest :
  read_arg f c strict m toks = Ok (e, rest) -> exists k b p, e = EGroup k b p.
Proof.
  destruct f as [|f]; [discriminate|]. cbn [read_arg].
  destruct (group_kind_of_begin (tcat c)) as [k|]; [|discriminate].
  intro H. apply read_arg_loop_group in H. destruct H as (b & ->). eauto.
Qed.

Definition opt_parts : exp * block * block :=
  match fd_body gen_read_arg_optional with
  | BCons (SWhile c b) rest => (c, b, rest)
  | _ => (XConst VNone, BNil, BNil)
  end.

Ltac done_cnt j := exists j; eexists; split; [reflexivity|]; split; [try reflexivity; try (symmetry; assumption) | lia].

(* the program is about to call read_arg on the token it has just taken: use
   the hypothesis Harg at that call (g: the hand fuel), name the group it
   returns, run on *)
Ltac call_arg_group Harg g HNE :=
  unfold do_call;
  let Ha := fresh "Ha" in
  match goal with
  | |- context [?rc F_read_arg [tok_val ?c; tol_val ?st; mode_val ?mm] (mkbuf ?all ?jj)] =>
    pose proof (Harg g ltac:(lia) all jj c st mm HNE) as Ha; fix_skipn Ha
  end;
  let e1 := fresh "e1" in let r1 := fresh "r1" in let er := fresh "er" in let Era := fresh "Era" in
  match type of Ha with
  | rel_expr _ _ ?h _ => destruct h as [[e1 r1]|er] eqn:Era; [|err_case Ha er]
  end;
  let k1 := fresh "k1" in let b1 := fresh "b1" in let p1 := fresh "p1" in
  destruct (read_arg_group _ _ _ _ _ _ _ Era) as (k1 & b1 & p1 & ->);
  let j1 := fresh "j1" in let l1 := fresh "l1" in let Hr1 := fresh "Hr1" in let Hle1 := fresh "Hle1" in
  destruct Ha as (j1 & l1 & Ha & Hr1 & Hle1); rewrite Ha; vs; subst r1.

Section OptLoop.
Variable rec : fname -> list value -> buf -> cres.
Variable lf : nat.
Variable F : nat.
Hypothesis Hsp : forall all i, NE all ->
  rec F_read_spacer [] (mkbuf all i) =
  CDone (fst (spacer_step all i)) [] (mkbuf all (snd (spacer_step all i))).
Hypothesis Harg : forall f', (f' <= F)%nat -> forall all i c strict m, NE all ->
  rel_expr all i (read_arg f' c strict m (skipn i all))
           (rec F_read_arg [tok_val c; tol_val strict; mode_val m] (mkbuf all i)).
Section Inner.
Variables (ev : frame -> buf -> eres) (bd : frame -> buf -> xres).
Hypothesis Hev : forall fr b, ev fr b = eval gen_table rec (fst (fst opt_parts)) fr b.
Hypothesis Hbd : forall fr b, bd fr b = exec_block gen_table rec lf (snd (fst opt_parts)) fr b.

Lemma opt_loop all strict m i0 : NE all -> forall g, (g <= S F)%nat -> forall lfw, (g <= lfw)%nat ->
  forall args nopt i o4, (i0 <= i)%nat ->
  rel_cnt all i0 (read_arg_optional g args nopt strict m (skipn i all))
    (finish gen_read_arg_optional
       (match while_loop ev bd lfw
                (mkf [Some (VArgs args); Some (VInt nopt); Some (tol_val strict); Some (mode_val m); o4] [])
                (mkbuf all i) with
        | XNormal fr1 b1 => exec_block gen_table rec lf (snd opt_parts) fr1 b1
        | r => r
        end)).
Proof.
  intros HNE g. induction g as [|g IH]; intros Hg lfw Hlf args nopt i o4 Hi; [exact I|].
  destruct lfw as [|lfw]; [lia|].
  rewrite while_S, Hev. cbn [read_arg_optional]. vs.
  destruct (nopt =? 0)%Z eqn:En0; vs.
  { done_cnt i. }
  rewrite Hbd. vs. unfold do_call. rewrite (Hsp all i HNE). unfold spacer_step, read_spacer. vs.
  bcase all i HNE; vs.
  - done_cnt i.
  - unfold is_tc. destruct (tc_beq (tcat t) TMergedSpacer) eqn:Esp; vs.
    + (* a spacer was taken: the cursor is on the token after it *)
      bcase all (S i) HNE; vs.
      * destruct r as [|x r']; [|congruence]. done_cnt i.
      * destruct r as [|x r']; [congruence|]. rewrite Hs in E0. injection E0 as -> ->.
        destruct (tc_beq (tcat t0) TBracketBegin) eqn:Eb; vs.
        -- call_arg_group Harg g HNE. apply IH; lia.
        -- done_cnt i.
    + destruct (tc_beq (tcat t) TBracketBegin) eqn:Eb; vs.
      * call_arg_group Harg g HNE. apply IH; lia.
      * done_cnt i.
Qed.
End Inner.

Lemma body_read_arg_optional all i g args nopt strict m : NE all -> (g <= S F)%nat -> (g <= lf)%nat ->
  rel_cnt all i (read_arg_optional g args nopt strict m (skipn i all))
          (body rec lf F_read_arg_optional [VArgs args; VInt nopt; tol_val strict; mode_val m]
                (mkbuf all i)).
Proof.
  intros HNE Hg Hlf.
  exact (opt_loop _ _ (fun _ _ => eq_refl) (fun _ _ => eq_refl) all strict m i HNE g Hg lf Hlf args nopt i None (le_n i)).
Qed.
End OptLoop.

(* ---- TexArgs.append *)
Arguments append_to : simpl never.
Arguments parse_group : simpl never.
Arguments is_space : simpl never.

Lemma append_list l v : append_to (VList l) v = UOk (VList (l ++ [v])).
Proof. reflexivity. Qed.
Lemma append_args_group l k b p : append_to (VArgs l) (VExpr (EGroup k b p)) = UOk (VArgs (l ++ [EGroup k b p])).
Proof. reflexivity. Qed.
Lemma append_args_cmd l n a b p : append_to (VArgs l) (VExpr (ECmd n a b p)) = UOk (VArgs (l ++ [ECmd n a b p])).
Proof. reflexivity. Qed.

Lemma starts_with_nil_r s : starts_with s [] = true.
Proof. destruct s; reflexivity. Qed.

Lemma starts_with_rev_last x : starts_with (rev (x ++ [125%N])) [125%N] = true.
Proof. rewrite rev_app_distr. cbn. destruct (rev x); reflexivity. Qed.

Lemma append_args_brace l x :
  append_to (VArgs l) (VStr (123%N :: x ++ [125%N])) = UOk (VArgs (l ++ [EGroup GBrace [EStr x] (-1)])).
Proof.
  unfold append_to.
  assert (Hsp : is_space (123%N :: x ++ [125%N]) = false) by reflexivity.
  rewrite Hsp. unfold parse_group. cbn [Tables.group_classes parse_group_in].
  assert (H1 : starts_with (123%N :: x ++ [125%N]) [91%N] = false) by reflexivity. rewrite H1.
  cbn [andb].
  assert (H2 : starts_with (123%N :: x ++ [125%N]) [123%N] = true) by (cbn; apply starts_with_nil_r). rewrite H2.
  unfold ends_with. change (123%N :: x ++ [125%N]) with ((123%N :: x) ++ [125%N]).
  rewrite starts_with_rev_last. cbn [andb].
  replace (firstn (length ((123%N :: x) ++ [125%N]) - length [123%N] - length [125%N])
                  (skipn (length [123%N]) ((123%N :: x) ++ [125%N]))) with x; [reflexivity|].
  rewrite app_length. cbn [length]. unfold skipn; fold (@skipn N). cbn [app].
  replace (S (length x) + 1 - 1 - 1)%nat with (length x) by lia.
  change (skipn 0 (x ++ [125%N])) with (x ++ [125%N]).
  rewrite firstn_app, firstn_all, Nat.sub_diag. cbn. rewrite app_nil_r. reflexivity.
Qed.
#[export] Hint Rewrite append_list append_args_group append_args_cmd append_args_brace : bop.

Definition req_parts : exp * block * block :=
  match fd_body gen_read_arg_required with
  | BCons (SWhile c b) rest => (c, b, rest)
  | _ => (XConst VNone, BNil, BNil)
  end.


(* the program is about to call read_command: use the hypothesis Hcmd (g: the
   hand fuel; sk: the number of tokens skipped) *)
Ltac call_cmd Hcmd g sk HNE nm ca j l Hle :=
  unfold do_call;
  let Hc := fresh "Hc" in
  match goal with
  | |- context [?rc F_read_command [VInt ?a; VInt ?b; VInt _; tol_val ?st; mode_val ?mm] (mkbuf ?all ?jj)] =>
    pose proof (Hcmd g ltac:(lia) all jj a b sk st mm HNE ltac:(lia)) as Hc; fix_skipn Hc;
    cbn [Z.of_nat Pos.of_succ_nat] in Hc
  end;
  use_cmd Hc nm ca j l Hle.

Section ReqLoop.
Variable rec : fname -> list value -> buf -> cres.
Variable lf : nat.
Variable F : nat.
Hypothesis Hsp : forall all i, NE all ->
  rec F_read_spacer [] (mkbuf all i) =
  CDone (fst (spacer_step all i)) [] (mkbuf all (snd (spacer_step all i))).
Hypothesis Harg : forall f', (f' <= F)%nat -> forall all i c strict m, NE all ->
  rel_expr all i (read_arg f' c strict m (skipn i all))
           (rec F_read_arg [tok_val c; tol_val strict; mode_val m] (mkbuf all i)).
Hypothesis Hcmd : forall f', (f' <= F)%nat -> forall all i nreq nopt sk strict m, NE all -> (sk <= 1)%nat ->
  rel_cmd all i (read_command f' nreq nopt sk strict m (skipn i all))
          (rec F_read_command [VInt nreq; VInt nopt; VInt (Z.of_nat sk); tol_val strict; mode_val m]
               (mkbuf all i)).
Section Inner.
Variables (ev : frame -> buf -> eres) (bd : frame -> buf -> xres).
Hypothesis Hev : forall fr b, ev fr b = eval gen_table rec (fst (fst req_parts)) fr b.
Hypothesis Hbd : forall fr b, bd fr b = exec_block gen_table rec lf (snd (fst req_parts)) fr b.

Lemma req_loop all strict m i0 : NE all -> forall g, (g <= S F)%nat -> forall lfw, (g <= lfw)%nat ->
  forall args nreq i o4 o5 o6 o7, (i0 <= i)%nat ->
  rel_cnt all i0 (read_arg_required g args nreq strict m (skipn i all))
    (finish gen_read_arg_required
       (match while_loop ev bd lfw
                (mkf [Some (VArgs args); Some (VInt nreq); Some (tol_val strict); Some (mode_val m);
                      o4; o5; o6; o7] [])
                (mkbuf all i) with
        | XNormal fr1 b1 => exec_block gen_table rec lf (snd req_parts) fr1 b1
        | r => r
        end)).
Proof.
  intros HNE g. induction g as [|g IH]; intros Hg lfw Hlf args nreq i o4 o5 o6 o7 Hi; [exact I|].
  destruct lfw as [|lfw]; [lia|].
  rewrite while_S, Hev. cbn [read_arg_required]. vs.
  destruct (nreq =? 0)%Z eqn:En0; vs.
  { done_cnt i. }
  bcase all i HNE; vs.
  { done_cnt i. }
  rewrite Hbd. vs. unfold do_call. rewrite (Hsp all i HNE). unfold spacer_step, read_spacer. rewrite E. vs.
  (* the token c at the cursor j decides; r' are the tokens after it *)
  unfold is_tc. destruct (tc_beq (tcat t) TMergedSpacer) eqn:Esp; vs.
  - bcase all (S i) HNE; vs.
    + destruct r as [|x r']; [|congruence]. done_cnt i.
    + destruct r as [|x r']; [congruence|]. rewrite Hs in E0. injection E0 as -> ->.
      destruct (tc_beq (tcat t0) TGroupBegin) eqn:Eg; vs.
      * call_arg_group Harg g HNE. apply IH; lia.
      * destruct (0 <? nreq)%Z eqn:Epos; vs.
        -- destruct (tc_beq (tcat t0) TEscape) eqn:Ee; vs.
           ++ call_cmd Hcmd g 0%nat HNE nm ca j1 l1 Hle1. apply IH; lia.
           ++ rewrite <- Hs0. apply IH; lia.
        -- done_cnt i.
  - destruct (tc_beq (tcat t) TGroupBegin) eqn:Eg; vs.
    + call_arg_group Harg g HNE. apply IH; lia.
    + destruct (0 <? nreq)%Z eqn:Epos; vs.
      * destruct (tc_beq (tcat t) TEscape) eqn:Ee; vs.
        -- call_cmd Hcmd g 0%nat HNE nm ca j1 l1 Hle1. apply IH; lia.
        -- rewrite <- Hs. apply IH; lia.
      * done_cnt i.
Qed.
End Inner.

Lemma body_read_arg_required all i g args nreq strict m : NE all -> (g <= S F)%nat -> (g <= lf)%nat ->
  rel_cnt all i (read_arg_required g args nreq strict m (skipn i all))
          (body rec lf F_read_arg_required [VArgs args; VInt nreq; tol_val strict; mode_val m]
                (mkbuf all i)).
Proof.
  intros HNE Hg Hlf.
  exact (req_loop _ _ (fun _ _ => eq_refl) (fun _ _ => eq_refl) all strict m i HNE g Hg lf Hlf
                  args nreq i None None None None (le_n i)).
Qed.
End ReqLoop.

Lemma skipn_1_cons {A} (x : A) l : skipn 1 (x :: l) = l.
Proof. reflexivity. Qed.
#[export] Hint Rewrite @skipn_1_cons : bop.

Lemma to_contents_exprs l : to_contents (map VExpr l) = Some l.
Proof. induction l as [|e l IH]; [reflexivity|]. cbn [map to_contents to_content]. rewrite IH. reflexivity. Qed.
#[export] Hint Rewrite to_contents_exprs : bop.

Lemma group_tok_end_some k : exists e, group_tok_end k = Some e.
Proof. destruct k; eexists; reflexivity. Qed.
Lemma math_tok_end_some k : exists e, math_tok_end k = Some e.
Proof. destruct k; eexists; reflexivity. Qed.

Definition arg_parts : exp * block * block :=
  match fd_body gen_read_arg with
  | BCons _ (BCons _ (BCons (SWhile c b) rest)) => (c, b, rest)
  | _ => (XConst VNone, BNil, BNil)
  end.

Section ArgLoop.
Variable rec : fname -> list value -> buf -> cres.
Variable lf : nat.
Variable F : nat.
Hypothesis Hexpr : forall f', (f' <= F)%nat -> forall all i skip strict m, NE all ->
  rel_expr all i (read_expr f' skip strict m (skipn i all))
           (rec F_read_expr [skip_val skip; tol_val strict; mode_val m] (mkbuf all i)).
Section Inner.
Variables (ev : frame -> buf -> eres) (bd : frame -> buf -> xres).
Hypothesis Hev : forall fr b, ev fr b = eval gen_table rec (fst (fst arg_parts)) fr b.
Hypothesis Hbd : forall fr b, bd fr b = exec_block gen_table rec lf (snd (fst arg_parts)) fr b.

Lemma arg_loop all c k strict m i0 : NE all -> forall g, (g <= S F)%nat -> forall lfw, (g <= lfw)%nat ->
  forall acc i, (i0 <= i)%nat ->
  rel_expr all i0 (read_arg_loop g k (tpos c) strict m acc (skipn i all))
    (finish gen_read_arg
       (match while_loop ev bd lfw
                (mkf [Some (tok_val c); Some (tol_val strict); Some (mode_val m);
                      Some (VList (tok_val c :: map VExpr acc)); Some (VCls (KGroup k));
                      None; None; None] [])
                (mkbuf all i) with
        | XNormal fr1 b1 => exec_block gen_table rec lf (snd arg_parts) fr1 b1
        | r => r
        end)).
Proof.
  intros HNE g. induction g as [|g IH]; intros Hg lfw Hlf acc i Hi; [exact I|].
  destruct lfw as [|lfw]; [lia|].
  rewrite while_S, Hev. cbn [read_arg_loop]. vs.
  destruct (group_tok_end_some k) as (ge & Hge).
  bcase all i HNE; vs.
  - destruct strict; vs.
    + reflexivity.
    + exists i. eexists. split; [reflexivity|]. split; [symmetry; exact E | exact Hi].
  - rewrite Hbd. vs. unfold is_group_end. rewrite Hge. vs. unfold is_tc.
    destruct (tc_beq (tcat t) ge); vs.
    + exists (S i). eexists. split; [reflexivity|]. split; [symmetry; exact Hs | lia].
    + pose proof (Hexpr g ltac:(lia) all i [] strict m HNE) as He. rewrite E in He.
      unfold skip_val in He. cbn [map] in He. use_expr He e1 j1 l1 Hle1.
      change [VExpr e1] with (map VExpr [e1]). rewrite <- map_app.
      apply IH; lia.
Qed.
End Inner.

Lemma body_read_arg all i f c strict m : NE all -> (f <= F)%nat -> (f <= lf)%nat ->
  rel_expr all i (read_arg (S f) c strict m (skipn i all))
           (body rec lf F_read_arg [tok_val c; tol_val strict; mode_val m] (mkbuf all i)).
Proof.
  intros HNE Hf Hlf. unfold body. cbn [read_arg]. vs.
  destruct (group_kind_of_begin (tcat c)) as [k|]; vs; [|reflexivity].
  match goal with
  | |- context [while_loop ?ev ?bd _ _ _] =>
    exact (arg_loop ev bd (fun _ _ => eq_refl) (fun _ _ => eq_refl) all c k strict m i HNE f
                    ltac:(lia) lf Hlf [] i (le_n i))
  end.
Qed.
End ArgLoop.

(* ---- make_read_peek: the roll-back lands on the start *)
Lemma peek_back all i i' : (i <= i')%nat ->
  exists v, buf_backward (mkbuf all i') (Z.of_nat i' - Z.of_nat i) = Some (v, mkbuf all i).
Proof.
  intro H. unfold buf_backward.
  destruct (Z.of_nat i' - Z.of_nat i <? 0)%Z eqn:E; [apply Z.ltb_lt in E; lia|].
  unfold bwd. cbn [b_pos b_all].
  replace (Z.to_nat (Z.of_nat i' - Z.of_nat i)) with (i' - i)%nat by lia.
  destruct (Nat.ltb i' (i' - i)) eqn:E2; [apply Nat.ltb_lt in E2; lia|].
  replace (i' - (i' - i))%nat with i by lia. eexists. reflexivity.
Qed.

Arguments Z.sub : simpl never.
Arguments Z.of_nat : simpl never.
Arguments buf_backward : simpl never.

Lemma bop_in_pair nm p k a b :
  bin_op OIn (VTok nm p k) (VTuple [VStr a; VStr b]) = Some (VBool (str_eqb nm a || str_eqb nm b)).
Proof.
  unfold bin_op. cbn [py_in py_eq]. rewrite (str_eqb_sym a nm), (str_eqb_sym b nm).
  destruct (str_eqb nm a); [reflexivity|]. destruct (str_eqb nm b); reflexivity.
Qed.
#[export] Hint Rewrite bop_in_pair : bop.

(* the program is about to call read_expr, the hand side is at
   `read_expr g skip strict m ..`: use the hypothesis Hexpr at that call and
   append the expression read to the list in local `acc` *)
Ltac call_expr Hexpr g HNE e1 j1 l1 Hle1 :=
  unfold do_call;
  let He := fresh "He" in
  match goal with
  | |- context [read_expr g ?sk ?st ?mm _] =>
    match goal with
    | |- context [?rc F_read_expr ?args (mkbuf ?all ?jj)] =>
      pose proof (Hexpr g ltac:(lia) all jj sk st mm HNE) as He; fix_skipn He;
      change (rc F_read_expr args (mkbuf all jj))
        with (rc F_read_expr [skip_val sk; tol_val st; mode_val mm] (mkbuf all jj))
    end
  end;
  use_expr He e1 j1 l1 Hle1;
  try (change [VExpr e1] with (map VExpr [e1]); rewrite <- map_app).

(* the peek at the command: make_read_peek(read_command)(src, skip=1, ..) *)
Ltac call_peek_cmd Hcmd g HNE nm ca j1 l1 Hle1 :=
  unfold do_call;
  let Hc := fresh "Hc" in
  match goal with
  | |- context [read_command g ?a ?b 1 ?st ?mm _] =>
    match goal with
    | |- context [?rc F_read_command ?args (mkbuf ?all ?jj)] =>
      pose proof (Hcmd g ltac:(lia) all jj a b 1%nat st mm HNE ltac:(lia)) as Hc; fix_skipn Hc;
      change (rc F_read_command args (mkbuf all jj))
        with (rc F_read_command [VInt a; VInt b; VInt (Z.of_nat 1); tol_val st; mode_val mm] (mkbuf all jj))
    end
  end;
  use_cmd Hc nm ca j1 l1 Hle1;
  match goal with
  | Hle : (?i <= j1)%nat |- context [buf_backward (mkbuf ?all j1) (Z.of_nat j1 - Z.of_nat ?i)] =>
    let vb := fresh "vb" in let Hpb := fresh "Hpb" in
    destruct (peek_back all i j1 Hle) as (vb & Hpb); rewrite Hpb; vs
  end.

Definition item_parts : exp * block * block :=
  match fd_body gen_read_item with
  | BCons _ (BCons (SWhile c b) rest) => (c, b, rest)
  | _ => (XConst VNone, BNil, BNil)
  end.

Section ItemLoop.
Variable rec : fname -> list value -> buf -> cres.
Variable lf : nat.
Variable F : nat.
Hypothesis Hexpr : forall f', (f' <= F)%nat -> forall all i skip strict m, NE all ->
  rel_expr all i (read_expr f' skip strict m (skipn i all))
           (rec F_read_expr [skip_val skip; tol_val strict; mode_val m] (mkbuf all i)).
Hypothesis Hcmd : forall f', (f' <= F)%nat -> forall all i nreq nopt sk strict m, NE all -> (sk <= 1)%nat ->
  rel_cmd all i (read_command f' nreq nopt sk strict m (skipn i all))
          (rec F_read_command [VInt nreq; VInt nopt; VInt (Z.of_nat sk); tol_val strict; mode_val m]
               (mkbuf all i)).
Section Inner.
Variables (ev : frame -> buf -> eres) (bd : frame -> buf -> xres).
Hypothesis Hev : forall fr b, ev fr b = eval gen_table rec (fst (fst item_parts)) fr b.
Hypothesis Hbd : forall fr b, bd fr b = exec_block gen_table rec lf (snd (fst item_parts)) fr b.

Lemma item_loop all i0 : NE all -> forall g, (g <= S F)%nat -> forall lfw, (g <= lfw)%nat ->
  forall acc i o2 o3, (i0 <= i)%nat ->
  rel_list all i0 (read_item_loop g acc (skipn i all))
    (finish gen_read_item
       (match while_loop ev bd lfw
                (mkf [Some (tol_val true); Some (VList (map VExpr acc)); o2; o3] [])
                (mkbuf all i) with
        | XNormal fr1 b1 => exec_block gen_table rec lf (snd item_parts) fr1 b1
        | r => r
        end)).
Proof.
  intros HNE g. induction g as [|g IH]; intros Hg lfw Hlf acc i o2 o3 Hi; [exact I|].
  destruct lfw as [|lfw]; [lia|].
  rewrite while_S, Hev. cbn [read_item_loop]. vs.
  bcase all i HNE; vs.
  { exists i. eexists. split; [reflexivity|]. split; [symmetry; exact E | exact Hi]. }
  rewrite Hbd. vs.
  unfold is_tc. destruct (tc_beq (tcat t) TEscape) eqn:Ee; vs.
  - call_peek_cmd Hcmd g HNE nm ca j1 l1 Hle1.
    change [101; 110; 100]%N with s_end. change [105; 116; 101; 109]%N with s_item.
    destruct (str_eqb nm s_end || str_eqb nm s_item); vs.
    + exists i. eexists. split; [reflexivity|]. split; [symmetry; exact E | exact Hi].
    + call_expr Hexpr g HNE e1 j2 l2 Hle2. apply IH; lia.
  - destruct (tc_beq (tcat t) TGroupEnd) eqn:Ege; vs.
    + exists i. eexists. split; [reflexivity|]. split; [symmetry; exact E | exact Hi].
    + call_expr Hexpr g HNE e1 j2 l2 Hle2. apply IH; lia.
Qed.
End Inner.

Lemma body_read_item all i g : NE all -> (g <= S F)%nat -> (g <= lf)%nat ->
  rel_list all i (read_item_loop g [] (skipn i all))
           (body rec lf F_read_item [tol_val true] (mkbuf all i)).
Proof.
  intros HNE Hg Hlf. unfold body. vs.
  match goal with
  | |- context [while_loop ?ev ?bd _ _ _] =>
    exact (item_loop ev bd (fun _ _ => eq_refl) (fun _ _ => eq_refl) all i HNE g Hg lf Hlf
                     [] i None None (le_n i))
  end.
Qed.
End ItemLoop.

Definition math_parts : exp * block * block :=
  match fd_body gen_read_math_env with
  | BCons _ (BCons (SWhile c b) rest) => (c, b, rest)
  | _ => (XConst VNone, BNil, BNil)
  end.

Section MathLoop.
Variable rec : fname -> list value -> buf -> cres.
Variable lf : nat.
Variable F : nat.
Hypothesis Hexpr : forall f', (f' <= F)%nat -> forall all i skip strict m, NE all ->
  rel_expr all i (read_expr f' skip strict m (skipn i all))
           (rec F_read_expr [skip_val skip; tol_val strict; mode_val m] (mkbuf all i)).
Hypothesis Hunc : forall e v b, has_end e -> tok_or_none v ->
  rec F_unclosed_env_handler [VExpr e; v] b = CExc EOFError.
Section Inner.
Variables (ev : frame -> buf -> eres) (bd : frame -> buf -> xres).
Hypothesis Hev : forall fr b, ev fr b = eval gen_table rec (fst (fst math_parts)) fr b.
Hypothesis Hbd : forall fr b, bd fr b = exec_block gen_table rec lf (snd (fst math_parts)) fr b.

Lemma math_loop all k pos strict i0 : NE all -> forall g, (g <= S F)%nat -> forall lfw, (g <= lfw)%nat ->
  forall acc i, (i0 <= i)%nat ->
  rel_ref all i0 (read_math_loop g k pos strict acc (skipn i all))
    (finish gen_read_math_env
       (match while_loop ev bd lfw
                (mkf [Some (VExpr (EMath k [] pos)); Some (tol_val strict); Some (VList (map VExpr acc))] [])
                (mkbuf all i) with
        | XNormal fr1 b1 => exec_block gen_table rec lf (snd math_parts) fr1 b1
        | r => r
        end)).
Proof.
  intros HNE g. induction g as [|g IH]; intros Hg lfw Hlf acc i Hi; [exact I|].
  destruct lfw as [|lfw]; [lia|].
  rewrite while_S, Hev. cbn [read_math_loop]. vs.
  destruct (math_tok_end_some k) as (me & Hme).
  bcase all i HNE; vs.
  - unfold do_call. rewrite Hunc; [reflexivity | exact I | exact I].
  - rewrite ?Hme. vs. unfold is_math_end. rewrite ?Hme. unfold is_tc.
    destruct (tc_beq (tcat t) me) eqn:Em; vs.
    + exists (S i). eexists. split; [reflexivity|]. split; [symmetry; exact Hs | lia].
    + rewrite Hbd. vs.
      call_expr Hexpr g HNE e1 j1 l1 Hle1. apply IH; lia.
Qed.
End Inner.

Lemma body_read_math_env all i g k pos strict : NE all -> (g <= S F)%nat -> (g <= lf)%nat ->
  rel_ref all i (read_math_loop g k pos strict [] (skipn i all))
          (body rec lf F_read_math_env [VExpr (EMath k [] pos); tol_val strict] (mkbuf all i)).
Proof.
  intros HNE Hg Hlf. unfold body. vs.
  match goal with
  | |- context [while_loop ?ev ?bd _ _ _] =>
    exact (math_loop ev bd (fun _ _ => eq_refl) (fun _ _ => eq_refl) all k pos strict i HNE g Hg lf Hlf
                     [] i (le_n i))
  end.
Qed.
End MathLoop.

Lemma bop_ne_str a b : bin_op ONe (VStr a) (VStr b) = Some (VBool (negb (str_eqb a b))).
Proof. reflexivity. Qed.
#[export] Hint Rewrite bop_ne_str : bop.

Lemma tok_or_none_peek_range b lo hi : tok_or_none (peek_range b lo hi).
Proof. unfold peek_range. apply tok_or_none_join. Qed.

Lemma buf_forward_2 b : buf_forward b 2 = Some (fwd b 2).
Proof. reflexivity. Qed.

Definition env_parts : exp * block * block :=
  match fd_body gen_read_env with
  | BCons _ (BCons (SWhile c b) rest) => (c, b, rest)
  | _ => (XConst VNone, BNil, BNil)
  end.

Section EnvLoop.
Variable rec : fname -> list value -> buf -> cres.
Variable lf : nat.
Variable F : nat.
Hypothesis Hexpr : forall f', (f' <= F)%nat -> forall all i skip strict m, NE all ->
  rel_expr all i (read_expr f' skip strict m (skipn i all))
           (rec F_read_expr [skip_val skip; tol_val strict; mode_val m] (mkbuf all i)).
Hypothesis Hcmd : forall f', (f' <= F)%nat -> forall all i nreq nopt sk strict m, NE all -> (sk <= 1)%nat ->
  rel_cmd all i (read_command f' nreq nopt sk strict m (skipn i all))
          (rec F_read_command [VInt nreq; VInt nopt; VInt (Z.of_nat sk); tol_val strict; mode_val m]
               (mkbuf all i)).
Hypothesis Harg : forall f', (f' <= F)%nat -> forall all i c strict m, NE all ->
  rel_expr all i (read_arg f' c strict m (skipn i all))
           (rec F_read_arg [tok_val c; tol_val strict; mode_val m] (mkbuf all i)).
Hypothesis Hsp : forall all i, NE all ->
  rec F_read_spacer [] (mkbuf all i) =
  CDone (fst (spacer_step all i)) [] (mkbuf all (snd (spacer_step all i))).
Hypothesis Hunc : forall e v b, has_end e -> tok_or_none v ->
  rec F_unclosed_env_handler [VExpr e; v] b = CExc EOFError.


(* the statements after the loop *)
Lemma env_finish all name args pos skip (strict : bool) m acc i0 i g o5 o6 o7 eargs : NE all ->
  (g <= F)%nat -> (i0 <= i)%nat ->
  (skipn i all = [] \/ (skipn i all <> [] /\ exists ca, eargs = Some ca /\ o6 = Some (VArgs ca))) ->
  rel_ref all i0
    (let error := match skipn i all, eargs with
                  | [], _ => true
                  | _, None => true
                  | _, Some [] => true
                  | _, Some (a0 :: _) => negb (str_eqb (arg_string a0) name)
                  end in
     if error then
       if strict then (Err EOFError : res (expr * list token)) else Ok (ENamed name args acc pos, skipn i all)
     else
       let '(_, src2) := read_spacer (skipn 2 (skipn i all)) in
       match src2 with
       | [] => Err StopIteration
       | c :: src3 =>
         bind (read_arg g c strict m src3) (fun '(_, rest) =>
           Ok (ENamed name args acc pos, rest))
       end)
    (finish gen_read_env
       (exec_block gen_table rec lf (snd env_parts)
          (mkf [Some (VExpr (ENamed name args [] pos)); Some (skip_val skip); Some (tol_val strict);
                Some (mode_val m); Some (VList (map VExpr acc)); o5; o6; o7] [])
          (mkbuf all i))).
Proof.
  intros HNE Hg Hi Hcase.
  (* the error branch: EOFError when strict, else the environment as it is *)
  Ltac env_err Hunc i Hi :=
    match goal with
    | |- context [if ?strict then Err EOFError else _] =>
      destruct strict; vs;
      [ unfold do_call; rewrite Hunc; [reflexivity | exact I | apply tok_or_none_peek_range]
      | exists i; eexists; split; [reflexivity|]; split; [try reflexivity; try (symmetry; assumption) | exact Hi] ]
    end.
  destruct Hcase as [E | (Hne & ca & -> & ->)].
  - rewrite E. bcase all i HNE; [|congruence]. vs. env_err Hunc i Hi.
  - bcase all i HNE; [congruence|]. vs.
    destruct ca as [|a0 ca]; vs.
    + env_err Hunc i Hi.
    + destruct (str_eqb (arg_string a0) name) eqn:Ea; vs.
      * (* not an error: consume \end, spacer, the group *)
        change (Pos.to_nat 2) with 2%nat. unfold do_call. rewrite (Hsp all (i + 2)%nat HNE). vs.
        pose proof (spacer_step_hand all (i + 2)%nat HNE) as Hss.
        rewrite <- (skipn_skipn' all 2 i) in Hss.
        destruct (read_spacer (skipn 2 (t :: r))) as [sb src2] eqn:Ers.
        rewrite <- E in Ers. rewrite Ers in Hss. destruct Hss as (_ & Hsrc2 & Hrange).
        set (j := snd (spacer_step all (i + 2))) in *.
        bcase all j HNE; vs.
        -- rewrite Hsrc2, E0. reflexivity.
        -- rewrite Hsrc2, E0.
           pose proof (Harg g Hg all (S j) t0 strict m HNE) as Ha. rewrite Hs0 in Ha.
           use_expr Ha e1 j1 l1 Hle1.
           exists j1. eexists. split; [reflexivity|]. split; [reflexivity | lia].
      * env_err Hunc i Hi.
Qed.

Section Inner.
Variables (ev : frame -> buf -> eres) (bd : frame -> buf -> xres).
Hypothesis Hev : forall fr b, ev fr b = eval gen_table rec (fst (fst env_parts)) fr b.
Hypothesis Hbd : forall fr b, bd fr b = exec_block gen_table rec lf (snd (fst env_parts)) fr b.

Lemma env_loop all name args pos skip (strict : bool) m i0 : NE all ->
  forall g, (g <= S F)%nat -> forall lfw, (g <= lfw)%nat ->
  forall acc i o5 o6 o7, (i0 <= i)%nat ->
  rel_ref all i0 (read_env_loop g name args pos skip strict m acc (skipn i all))
    (finish gen_read_env
       (match while_loop ev bd lfw
                (mkf [Some (VExpr (ENamed name args [] pos)); Some (skip_val skip); Some (tol_val strict);
                      Some (mode_val m); Some (VList (map VExpr acc)); o5; o6; o7] [])
                (mkbuf all i) with
        | XNormal fr1 b1 => exec_block gen_table rec lf (snd env_parts) fr1 b1
        | r => r
        end)).
Proof.
  intros HNE g. induction g as [|g IH]; intros Hg lfw Hlf acc i o5 o6 o7 Hi; [exact I|].
  destruct lfw as [|lfw]; [lia|].
  rewrite while_S, Hev. cbn [read_env_loop]. vs.
  bcase all i HNE; vs.
  { pose proof (env_finish all name args pos skip strict m acc i0 i g o5 o6 o7 None HNE
                           ltac:(lia) Hi (or_introl E)) as Hf.
    rewrite E in Hf. vs_in Hf. exact Hf. }
  rewrite Hbd. vs.
  unfold is_tc. destruct (tc_beq (tcat t) TEscape) eqn:Ee; vs.
  - call_peek_cmd Hcmd g HNE nm ca j1 l1 Hle1.
    change [101; 110; 100]%N with s_end.
    destruct (str_eqb nm s_end); vs.
    + assert (Hne : skipn i all <> []) by (rewrite E; discriminate).
      pose proof (env_finish all name args pos skip strict m acc i0 i g (Some (VTok nm p k))
                             (Some (VArgs ca)) o7 (Some ca) HNE ltac:(lia) Hi
                             (or_intror (conj Hne (ex_intro _ ca (conj eq_refl eq_refl))))) as Hf.
      rewrite E in Hf. vs_in Hf. exact Hf.
    + call_expr Hexpr g HNE e1 j2 l2 Hle2. apply IH; lia.
  - call_expr Hexpr g HNE e1 j2 l2 Hle2. apply IH; lia.
Qed.
End Inner.

Lemma body_read_env all i g name args pos skip (strict : bool) m :
  NE all -> (g <= S F)%nat -> (g <= lf)%nat ->
  rel_ref all i (read_env_loop g name args pos skip strict m [] (skipn i all))
          (body rec lf F_read_env
                [VExpr (ENamed name args [] pos); skip_val skip; tol_val strict; mode_val m]
                (mkbuf all i)).
Proof.
  intros HNE Hg Hlf. unfold body. vs.
  match goal with
  | |- context [while_loop ?ev ?bd _ _ _] =>
    exact (env_loop ev bd (fun _ _ => eq_refl) (fun _ _ => eq_refl) all name args pos skip strict m i
                    HNE g Hg lf Hlf [] i None None None (le_n i))
  end.
Qed.
End EnvLoop.

Section Expr.
Variable rec : fname -> list value -> buf -> cres.
Variable lf : nat.
Variable f : nat.
Hypothesis Hmath : forall all i k pos strict, NE all ->
  rel_ref all i (read_math_loop f k pos strict [] (skipn i all))
          (rec F_read_math_env [VExpr (EMath k [] pos); tol_val strict] (mkbuf all i)).
Hypothesis Hcmd : forall all i nreq nopt sk strict m, NE all -> (sk <= 1)%nat ->
  rel_cmd all i (read_command f nreq nopt sk strict m (skipn i all))
          (rec F_read_command [VInt nreq; VInt nopt; VInt (Z.of_nat sk); tol_val strict; mode_val m]
               (mkbuf all i)).
Hypothesis Hitem : forall all i, NE all ->
  rel_list all i (read_item_loop f [] (skipn i all)) (rec F_read_item [tol_val true] (mkbuf all i)).
Hypothesis Hskip : forall all i name args pos, NE all ->
  rel_ref all i (read_skip_env name args pos (skipn i all))
          (rec F_read_skip_env [VExpr (ENamed name args [] pos)] (mkbuf all i)).
Hypothesis Henv : forall all i name args pos skip strict m, NE all ->
  rel_ref all i (read_env_loop f name args pos skip strict m [] (skipn i all))
          (rec F_read_env [VExpr (ENamed name args [] pos); skip_val skip; tol_val strict; mode_val m]
               (mkbuf all i)).
Hypothesis Harg : forall all i c strict m, NE all ->
  rel_expr all i (read_arg f c strict m (skipn i all))
           (rec F_read_arg [tok_val c; tol_val strict; mode_val m] (mkbuf all i)).


Lemma body_read_expr all i skip strict m : NE all ->
  rel_expr all i (read_expr (S f) skip strict m (skipn i all))
           (body rec lf F_read_expr [skip_val skip; tol_val strict; mode_val m] (mkbuf all i)).
Proof.
  intro HNE. unfold body. cbn [read_expr]. vs. bcase all i HNE; vs.
  { reflexivity. }
  (* the category of the token decides; with the category known every test
     of the program computes, in whatever order the tests are made *)
  destruct t as [tx tp tk]. cbn [tcat ttext tpos] in *. vs.
  destruct (math_kind_of_begin tk) as [k|] eqn:Emk; vs.
  { pose proof (Hmath all (S i) k tp strict HNE) as Hm. rewrite Hs in Hm.
    use_ref Hm e1 j1 l1 Hle1. exists j1. eexists. split; [reflexivity|]. split; [reflexivity | lia]. }
  unfold is_tc.
  destruct tk; try (vm_compute in Emk; discriminate Emk); vs.
  (* TEscape: a command *)
  1: { pose proof (Hcmd all (S i) (-1)%Z (-1)%Z 0%nat strict m HNE ltac:(lia)) as Hc.
    rewrite Hs in Hc. change (Z.of_nat 0) with 0%Z in Hc.
    use_cmd Hc nm ca j1 l1 Hle1.
    change [105; 116; 101; 109]%N with s_item. change [98; 101; 103; 105; 110]%N with s_begin.
    destruct (str_eqb nm s_item) eqn:Eit; vs.
    + destruct (mode_is_math m) eqn:Emm; vs; [reflexivity|].
      pose proof (Hitem all j1 HNE) as Hi. change (tol_val true) with (VInt 0) in Hi.
      use_list Hi es j2 l2 Hle2.
      exists j2. eexists. split; [reflexivity|]. split; [reflexivity | lia].
    + destruct (str_eqb nm s_begin) eqn:Ebg; vs.
      * destruct (mode_is_special m) eqn:Ems; vs.
        -- exists j1. eexists. split; [reflexivity|]. split; [reflexivity | lia].
        -- destruct ca as [|a0 ca']; vs; [reflexivity|].
           destruct (mem_str (strip (arg_string a0)) Tables.math_env_names) eqn:Eme; vs.
           all: rewrite ?mode_val_math.
           all: destruct (mem_str (strip (arg_string a0)) skip) eqn:Esk; vs.
           all: unfold do_call;
             match goal with
             | |- context [rec F_read_skip_env _ _] =>
               pose proof (Hskip all j1 (strip (arg_string a0)) ca' tp HNE) as Hk;
               use_ref Hk e2 j2 l2 Hle2
             | |- context [rec F_read_env [_; _; _; mode_val ?mm] _] =>
               pose proof (Henv all j1 (strip (arg_string a0)) ca' tp skip strict mm HNE) as Hv;
               use_ref Hv e2 j2 l2 Hle2
             end.
           all: exists j2; eexists; split; [reflexivity|]; split; [reflexivity | lia].
      * exists j1. eexists. split; [reflexivity|]. split; [reflexivity | lia]. }
  (* TGroupBegin: a brace group *)
  1: { pose proof (Harg all (S i) (mkt tx tp TGroupBegin) strict MNonMath HNE) as Ha. rewrite Hs in Ha.
    change (mode_val MNonMath) with (VStr gen_MODE_NON_MATH) in Ha.
    use_expr Ha e1 j1 l1 Hle1. exists j1. eexists. split; [reflexivity|]. split; [reflexivity | lia]. }
  (* everything else is text *)
  all: exists (S i); eexists; split; [reflexivity|]; split; [symmetry; exact Hs | lia].
Qed.
End Expr.

(* ================================================== the mutual induction *)

Record rel_all (f : nat) (rec : fname -> list value -> buf -> cres) : Prop := {
  ra_expr : forall all i skip strict m, NE all ->
    rel_expr all i (read_expr f skip strict m (skipn i all))
             (rec F_read_expr [skip_val skip; tol_val strict; mode_val m] (mkbuf all i));
  ra_item : forall all i, NE all ->
    rel_list all i (read_item_loop f [] (skipn i all)) (rec F_read_item [tol_val true] (mkbuf all i));
  ra_math : forall all i k pos strict, NE all ->
    rel_ref all i (read_math_loop f k pos strict [] (skipn i all))
            (rec F_read_math_env [VExpr (EMath k [] pos); tol_val strict] (mkbuf all i));
  ra_env : forall all i name args pos skip strict m, NE all ->
    rel_ref all i (read_env_loop f name args pos skip strict m [] (skipn i all))
            (rec F_read_env [VExpr (ENamed name args [] pos); skip_val skip; tol_val strict; mode_val m]
                 (mkbuf all i));
  ra_cmd : forall all i nreq nopt sk strict m, NE all -> (sk <= 1)%nat ->
    rel_cmd all i (read_command f nreq nopt sk strict m (skipn i all))
            (rec F_read_command [VInt nreq; VInt nopt; VInt (Z.of_nat sk); tol_val strict; mode_val m]
                 (mkbuf all i));
  ra_args : forall all i nreq nopt strict m, NE all ->
    rel_args all i (read_args f nreq nopt strict m (skipn i all))
             (rec F_read_args [VInt nreq; VInt nopt; VNone; tol_val strict; mode_val m] (mkbuf all i));
  ra_opt : forall all i args nopt strict m, NE all ->
    rel_cnt all i (read_arg_optional f args nopt strict m (skipn i all))
            (rec F_read_arg_optional [VArgs args; VInt nopt; tol_val strict; mode_val m] (mkbuf all i));
  ra_req : forall all i args nreq strict m, NE all ->
    rel_cnt all i (read_arg_required f args nreq strict m (skipn i all))
            (rec F_read_arg_required [VArgs args; VInt nreq; tol_val strict; mode_val m] (mkbuf all i));
  ra_arg : forall all i c strict m, NE all ->
    rel_expr all i (read_arg f c strict m (skipn i all))
             (rec F_read_arg [tok_val c; tol_val strict; mode_val m] (mkbuf all i))
}.

Lemma rel_all_0 rec : rel_all 0 rec.
Proof. constructor; intros; exact I. Qed.

Lemma call_body n f args b : call gen_table (S n) f args b = body (call gen_table n) n f args b.
Proof. reflexivity. Qed.

(* the leaves, as calls *)
Lemma call_read_spacer n all i : NE all ->
  call gen_table (S n) F_read_spacer [] (mkbuf all i) =
  CDone (fst (spacer_step all i)) [] (mkbuf all (snd (spacer_step all i))).
Proof. intro H. rewrite call_body. apply body_read_spacer. exact H. Qed.

Lemma call_unclosed n e v b : has_end e -> tok_or_none v ->
  call gen_table (S n) F_unclosed_env_handler [VExpr e; v] b = CExc EOFError.
Proof. intros. rewrite call_body. apply body_unclosed; assumption. Qed.

Lemma call_read_skip_env n all i name args pos : NE all ->
  rel_ref all i (read_skip_env name args pos (skipn i all))
          (call gen_table (S (S n)) F_read_skip_env [VExpr (ENamed name args [] pos)] (mkbuf all i)).
Proof.
  intro H. rewrite call_body. apply body_read_skip_env; [|exact H].
  intros. apply call_unclosed; assumption.
Qed.

Theorem rel_all_holds : forall F m, (2 * F + 2 <= m)%nat ->
  forall f, (f <= F)%nat -> rel_all f (call gen_table m).
Proof.
  induction F as [|F IH]; intros m Hm f Hf.
  { assert (f = 0)%nat by lia. subst f. apply rel_all_0. }
  destruct (Nat.eq_dec f (S F)) as [->|Hne]; [|apply IH; lia].
  destruct m as [|m']; [lia|].
  assert (Hup : forall f', (f' <= F)%nat -> rel_all f' (call gen_table m')) by (intros; apply IH; lia).
  destruct m' as [|[|m'']] eqn:Em'; [lia|lia|]. rewrite <- Em' in *.
  assert (Hsp : forall all i, NE all ->
     call gen_table m' F_read_spacer [] (mkbuf all i) =
     CDone (fst (spacer_step all i)) [] (mkbuf all (snd (spacer_step all i)))).
  { intros. rewrite Em'. apply call_read_spacer. assumption. }
  assert (Hunc : forall e v b, has_end e -> tok_or_none v ->
     call gen_table m' F_unclosed_env_handler [VExpr e; v] b = CExc EOFError).
  { intros. rewrite Em'. apply call_unclosed; assumption. }
  assert (Hskip : forall all i name args pos, NE all ->
     rel_ref all i (read_skip_env name args pos (skipn i all))
             (call gen_table m' F_read_skip_env [VExpr (ENamed name args [] pos)] (mkbuf all i))).
  { intros. rewrite Em'. apply call_read_skip_env. assumption. }
  assert (HlfF : (S F <= m')%nat) by lia.
  constructor; intros; rewrite call_body.
  - apply body_read_expr; try assumption; intros.
    + apply (ra_math _ _ (Hup F (le_n F))); assumption.
    + apply (ra_cmd _ _ (Hup F (le_n F))); assumption.
    + apply (ra_item _ _ (Hup F (le_n F))); assumption.
    + apply (ra_env _ _ (Hup F (le_n F))); assumption.
    + apply (ra_arg _ _ (Hup F (le_n F))); assumption.
  - apply (body_read_item (call gen_table m') m' F); try assumption; try lia; intros.
    + apply (ra_expr _ _ (Hup f' H0)); assumption.
    + apply (ra_cmd _ _ (Hup f' H0)); assumption.
  - apply (body_read_math_env (call gen_table m') m' F); try assumption; try lia; intros.
    apply (ra_expr _ _ (Hup f' H0)); assumption.
  - apply (body_read_env (call gen_table m') m' F); try assumption; try lia; intros.
    + apply (ra_expr _ _ (Hup f' H0)); assumption.
    + apply (ra_cmd _ _ (Hup f' H0)); assumption.
    + apply (ra_arg _ _ (Hup f' H0)); assumption.
  - apply body_read_command; try assumption; intros.
    apply (ra_args _ _ (Hup F (le_n F))); assumption.
  - apply body_read_args; try assumption; intros.
    + apply (ra_opt _ _ (Hup F (le_n F))); assumption.
    + apply (ra_req _ _ (Hup F (le_n F))); assumption.
  - apply (body_read_arg_optional (call gen_table m') m' F); try assumption; try lia; intros.
    apply (ra_arg _ _ (Hup f' H0)); assumption.
  - apply (body_read_arg_required (call gen_table m') m' F); try assumption; try lia; intros.
    + apply (ra_arg _ _ (Hup f' H0)); assumption.
    + apply (ra_cmd _ _ (Hup f' H0)); assumption.
  - apply (body_read_arg (call gen_table m') m' F); try assumption; try lia; intros.
    apply (ra_expr _ _ (Hup f' H0)); assumption.
Qed.

(* ================================================================ read_tex *)

Definition rel_tex (r : res (list expr)) (c : cres) : Prop :=
  match r with
  | Err OutOfFuel => True
  | Err er => c = CExc er
  | Ok es => exists locs b, c = CDone (VList (map VExpr es)) locs b
  end.

Definition tex_parts : exp * block :=
  match fd_body gen_read_tex with
  | BCons (SWhile c b) BNil => (c, b)
  | _ => (XConst VNone, BNil)
  end.

Section TexLoop.
Variable rec : fname -> list value -> buf -> cres.
Variable lf : nat.
Variable efuel : nat.
Hypothesis Hexpr : forall all i skip strict m, NE all ->
  rel_expr all i (read_expr efuel skip strict m (skipn i all))
           (rec F_read_expr [skip_val skip; tol_val strict; mode_val m] (mkbuf all i)).
Section Inner.
Variables (ev : frame -> buf -> eres) (bd : frame -> buf -> xres).
Hypothesis Hev : forall fr b, ev fr b = eval gen_table rec (fst tex_parts) fr b.
Hypothesis Hbd : forall fr b, bd fr b = exec_block gen_table rec lf (snd tex_parts) fr b.

Lemma tex_loop all user (strict : bool) : NE all -> forall n lfw, (n <= lfw)%nat -> forall acc i,
  rel_tex (read_tex_loop n efuel (Tables.skip_env_names ++ user) strict acc (skipn i all))
    (finish gen_read_tex
       (match while_loop ev bd lfw (mkf [Some (skip_val user); Some (tol_val strict)] (map VExpr acc))
                         (mkbuf all i) with
        | XNormal fr1 b1 => XNormal fr1 b1
        | r => r
        end)).
Proof.
  intros HNE n. remember (Tables.skip_env_names ++ user) as sk eqn:Hsk.
  induction n as [|n IH]; intros lfw Hlf acc i; [exact I|].
  destruct lfw as [|lfw]; [lia|].
  rewrite while_S, Hev. cbn [read_tex_loop]. vs.
  bcase all i HNE; vs.
  { eexists. eexists. reflexivity. }
  rewrite Hbd. vs. cbn in Hsk. rewrite <- Hsk.
  pose proof (Hexpr all i sk strict MNonMath HNE) as He. rewrite E in He.
  change (mode_val MNonMath) with (VStr gen_MODE_NON_MATH) in He.
  destruct (read_expr efuel sk strict MNonMath (t :: r)) as [[e1 r1]|er].
  2: { destruct er; try exact I; cbn in He; unfold do_call; rewrite He; reflexivity. }
  destruct He as (j1 & l1 & He & Hr1 & Hle1). unfold do_call. rewrite He. vs. subst r1.
  change [VExpr e1] with (map VExpr [e1]). rewrite <- map_app.
  apply IH. lia.
Qed.
End Inner.

Lemma xres_eta x :
  match x with
  | XNormal fr b => XNormal fr b | XReturn v fr b => XReturn v fr b | XBreak fr b => XBreak fr b
  | XContinue fr b => XContinue fr b | XExc e => XExc e | XUnsup => XUnsup | XFuel => XFuel
  end = x.
Proof. destruct x; reflexivity. Qed.

Lemma body_read_tex all user (strict : bool) n : NE all -> (n <= lf)%nat ->
  rel_tex (read_tex_loop n efuel (Tables.skip_env_names ++ user) strict [] all)
          (body rec lf F_read_tex [skip_val user; tol_val strict] (mkbuf all 0)).
Proof.
  intros HNE Hlf. unfold body.
  remember (read_tex_loop n efuel (Tables.skip_env_names ++ user) strict [] all) as hr eqn:Hhr.
  vs.
  match goal with
  | |- context [while_loop ?ev ?bd _ _ _] =>
    pose proof (tex_loop ev bd (fun _ _ => eq_refl) (fun _ _ => eq_refl) all user strict HNE n lf Hlf [] 0%nat)
      as H
  end.
  change (skipn 0 all) with all in H. rewrite <- Hhr in H. rewrite xres_eta in *. exact H.
Qed.
End TexLoop.

(* ================================================================ the top *)

Theorem parse_tokens_gen_full_ok toks strict user : NE toks ->
  parse_tokens_gen_full gen_table toks strict user = GDone (parse_tokens toks strict user).
Proof.
  intro HNE. unfold parse_tokens_gen_full, run, gen_fuel.
  replace (2 * fuel_for toks + 8)%nat with (S (2 * fuel_for toks + 7)) by lia.
  rewrite call_body.
  set (m0 := (2 * fuel_for toks + 7)%nat).
  assert (Hexpr : forall all i skip strict m, NE all ->
    rel_expr all i (read_expr (fuel_for toks) skip strict m (skipn i all))
             (call gen_table m0 F_read_expr [skip_val skip; tol_val strict; mode_val m] (mkbuf all i))).
  { intros. apply (ra_expr _ _ (rel_all_holds (fuel_for toks) m0 ltac:(unfold m0; lia)
                                              (fuel_for toks) (le_n _))). assumption. }
  pose proof (body_read_tex (call gen_table m0) m0 (fuel_for toks) Hexpr toks user strict
                            (S (length toks)) HNE ltac:(unfold m0, fuel_for; lia)) as H.
  pose proof (parse_tokens_total toks strict user) as Hd.
  unfold parse_tokens in *.
  destruct (read_tex_loop (S (length toks)) (fuel_for toks) (Tables.skip_env_names ++ user) strict [] toks)
    as [es|er]; cbn [bind rel_tex] in *.
  - destruct H as (locs & b & ->). unfold contents_of, seq_of. rewrite to_contents_exprs. reflexivity.
  - destruct er; try contradiction; rewrite H; reflexivity.
Qed.

Corollary parse_tokens_gen_ok toks strict user : NE toks ->
  parse_tokens_gen gen_table toks strict user = parse_tokens toks strict user.
Proof. intro H. unfold parse_tokens_gen. rewrite parse_tokens_gen_full_ok by exact H. reflexivity. Qed.

(* on every input string: the tokenizer never produces an empty token *)
Theorem parse_gen_ok (s : str) strict user : parse_gen gen_table s strict user = parse s strict user.
Proof.
  unfold parse_gen, parse. destruct (tokens_of_string s) as [toks e] eqn:E.
  destruct (tokens_concat s toks e E) as (-> & _ & HNE).
  apply parse_tokens_gen_ok. exact HNE.
Qed.

(* Without the hypothesis the two differ: Buffer.hasNext() is bool(peek()), and
   a Token with empty text is false, so the code (and the regenerated reader)
   stops at an empty token where the hand-written model reads on.  Replayed on
   the implementation: read_tex over [Token('a'), Token(''), Token('b')] yields
   ['a']. *)
Theorem parse_tokens_gen_unconditional_refuted :
  exists toks strict user,
    parse_tokens_gen_full gen_table toks strict user <> GDone (parse_tokens toks strict user).
Proof.
  exists [mkt [97%N] 0 TText; mkt [] 1 TText; mkt [98%N] 1 TText], true, [].
  vm_compute. discriminate.
Qed.

(* the hypotheses are satisfiable, on an input where the reader does something:
   \begin{a}[o]{r} $x$ \item y \end{a} *)
Example parse_tokens_gen_full_ok_example :
  let s := [92; 98; 101; 103; 105; 110; 123; 97; 125; 91; 111; 93; 123; 114; 125; 32; 36; 120; 36;
            32; 92; 105; 116; 101; 109; 32; 121; 32; 92; 101; 110; 100; 123; 97; 125]%N in
  let toks := fst (tokens_of_string s) in
  NE toks /\ length toks = 24%nat /\
  exists e, parse_tokens_gen_full gen_table toks true [] = GDone (Ok e) /\ estr e = s.
Proof.
  cbv zeta. split.
  - unfold NE. vm_compute. repeat constructor; discriminate.
  - split; [vm_compute; reflexivity|]. eexists. split; vm_compute; reflexivity.
Qed.

Example rel_all_holds_example :
  (2 * 3 + 2 <= 8)%nat /\
  read_expr 3 [] true MNonMath [mkt [97%N] 0 TText] = Ok (EText (mkt [97%N] 0 TText), []) /\
  exists locs,
    call gen_table 8 F_read_expr [skip_val []; tol_val true; mode_val MNonMath]
         (mkbuf [mkt [97%N] 0 TText] 0)
    = CDone (VExpr (EText (mkt [97%N] 0 TText))) locs (mkbuf [mkt [97%N] 0 TText] 1).
Proof. split; [lia|]. split; [vm_compute; reflexivity|]. eexists. vm_compute. reflexivity. Qed.
