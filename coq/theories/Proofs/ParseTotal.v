(* C06 at the level of strings: tokenizer totality + reader totality *)
From Coq Require Import List NArith ZArith Bool Lia.
From TexModel Require Import Base Tables Chars Tokenizer Tree Reader.
From TexProofs Require Import TokProofs ReaderLen ReaderTotal.
Import ListNotations.

Theorem parse_total (s : str) strict user_skip : diag (parse s strict user_skip).
Proof.
  unfold parse. destruct (tokenize_partition s) as (toks & E & _). rewrite E.
  apply parse_tokens_total.
Qed.

(* the same statement spelled out *)
Theorem parse_result_cases (s : str) strict user_skip :
  (exists t, parse s strict user_skip = Ok t) \/
  parse s strict user_skip = Err EOFError \/
  parse s strict user_skip = Err TypeError \/
  parse s strict user_skip = Err AssertionError.
Proof.
  pose proof (parse_total s strict user_skip) as D.
  destruct (parse s strict user_skip) as [t|e]; [left; eauto|].
  destruct e; simpl in D; try contradiction; auto.
Qed.
