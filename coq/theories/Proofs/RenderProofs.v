(* RenderProofs  C02 / C01 at STRING level for the document grammar of
   ReaderComplete.v, by assembling the three token-level results

     PP      ReaderComplete.PP_parse_tokens   the token list of a well-formed
             grammar document parses to the generating tree
     TOKINV  TokInverse.tokinv                the text of a lexically well-shaped
             token list tokenizes back to these tokens (positions recomputed)
     POS     FixedPoint.parse_tokens_pos_sim  the reader never looks at recorded
             positions

   render ds = the source text of the grammar document ds.

   NAME CLASH: ReaderComplete.follows_ok (the follow condition of a grammar
   element) and TokInverse.follows_ok (maximal munch between adjacent tokens)
   are different things; TokInverse and FixedPoint are only `Require`d here and
   their names are always written qualified. *)
From Coq Require Import List NArith ZArith Bool Lia.
From TexModel Require Import Base Tables Chars Tokenizer Tree Reader.
From TexProofs Require Import TokProofs ReaderLen ReaderTotal ReaderCons AttachProofs ReaderComplete.
From TexProofs Require ConsBridge TokInverse FixedPoint.
Import ListNotations.

(* ---------------------------------------------------------------- render *)

Definition render (ds : list doc) : str := texts (flat_list ds).

Lemma texts_TI l : TokInverse.texts l = texts l.
Proof. reflexivity. Qed.

(* the three lexical conditions of TOKINV as one decidable test *)
Definition lexb (toks : list token) : bool :=
  forallb TokInverse.shape toks && TokInverse.follows_ok toks && TokInverse.first_ok toks.

Lemma lexb_parts toks : lexb toks = true ->
  Forall (fun t => TokInverse.shape t = true) toks /\
  TokInverse.follows_ok toks = true /\ TokInverse.first_ok toks = true.
Proof.
  unfold lexb. intro H.
  apply andb_true_iff in H. destruct H as [H H3].
  apply andb_true_iff in H. destruct H as [H1 H2].
  split; [|split; assumption].
  apply Forall_forall. rewrite forallb_forall in H1. exact H1.
Qed.

Lemma lexb_of_parts toks :
  Forall (fun t => TokInverse.shape t = true) toks ->
  TokInverse.follows_ok toks = true -> TokInverse.first_ok toks = true -> lexb toks = true.
Proof.
  intros H1 H2 H3. unfold lexb. rewrite H2, H3, !andb_true_r.
  apply forallb_forall. rewrite Forall_forall in H1. exact H1.
Qed.

(* ------------------------------------------------------ small tools *)

Lemma pos_sim_sym e1 e2 : FixedPoint.expr_pos_sim e1 e2 -> FixedPoint.expr_pos_sim e2 e1.
Proof.
  intro S. apply FixedPoint.ze_eq_sim. symmetry. apply FixedPoint.sim_ze_eq. exact S.
Qed.

(* tok_wf speaks about text and category only *)
Lemma tok_wf_pos_sim t1 t2 : FixedPoint.tok_pos_sim t1 t2 -> tok_wf t1 -> tok_wf t2.
Proof.
  intros [Ht Hc] W. unfold tok_wf in *. rewrite <- Ht, <- Hc. exact W.
Qed.

Lemma tok_wf_all_pos_sim l1 l2 :
  Forall2 FixedPoint.tok_pos_sim l1 l2 -> Forall tok_wf l1 -> Forall tok_wf l2.
Proof.
  induction 1 as [|t1 t2 r1 r2 Ht Hr IH]; intro F; [constructor|].
  inversion F; subst. constructor; [eapply tok_wf_pos_sim; eassumption | auto].
Qed.

(* the tokens of the source text of a lexically well-shaped token list are
   these tokens with consecutive offsets *)
Lemma texts_tokens toks :
  Forall (fun t => TokInverse.shape t = true) toks ->
  TokInverse.follows_ok toks = true -> TokInverse.first_ok toks = true ->
  tokens_of_string (texts toks) = (TokInverse.repos 0 toks, TEnd).
Proof.
  intros Sh Fo Fi. pose proof (TokInverse.tokinv toks Sh Fo Fi) as TK.
  rewrite texts_TI in TK. exact TK.
Qed.

(* lexically well-shaped tokens carry their delimiter texts: they are (up to
   positions) tokenizer output, and tokenizer output is tok_wf *)
Lemma lex_tok_wf toks :
  Forall (fun t => TokInverse.shape t = true) toks ->
  TokInverse.follows_ok toks = true -> TokInverse.first_ok toks = true ->
  Forall tok_wf toks.
Proof.
  intros Sh Fo Fi. pose proof (texts_tokens toks Sh Fo Fi) as TK.
  apply (tok_wf_all_pos_sim (TokInverse.repos 0 toks) toks).
  - apply FixedPoint.repos_pos_sim.
  - exact (ConsBridge.tokenize_wf _ _ _ TK).
Qed.

(* --------------------------------------------- C02 at string level *)

Theorem render_tokens ds :
  Forall (fun t => TokInverse.shape t = true) (flat_list ds) ->
  TokInverse.follows_ok (flat_list ds) = true -> TokInverse.first_ok (flat_list ds) = true ->
  tokens_of_string (render ds) = (TokInverse.repos 0 (flat_list ds), TEnd).
Proof. intros Sh Fo Fi. unfold render. apply texts_tokens; assumption. Qed.

Theorem structure_string ds strict user :
  wf_seq (all_skip user) false CTop ds [] = true ->
  Forall (fun t => TokInverse.shape t = true) (flat_list ds) ->
  TokInverse.follows_ok (flat_list ds) = true -> TokInverse.first_ok (flat_list ds) = true ->
  (exists t', parse (render ds) strict user = Ok t' /\
              FixedPoint.expr_pos_sim (ERoot (map tree ds)) t') /\
  (TokInverse.offsets_ok 0 (flat_list ds) ->
   parse (render ds) strict user = Ok (ERoot (map tree ds))).
Proof.
  intros W Sh Fo Fi. pose proof (render_tokens ds Sh Fo Fi) as TK. split.
  - unfold parse. rewrite TK.
    pose proof (FixedPoint.parse_tokens_pos_sim _ _ strict user
                  (FixedPoint.repos_pos_sim (flat_list ds) 0%Z)) as S.
    rewrite (PP_parse_tokens ds strict user W) in S.
    destruct (parse_tokens (TokInverse.repos 0 (flat_list ds)) strict user) as [t'|er];
      [|contradiction].
    exists t'. split; [reflexivity|]. apply pos_sim_sym. exact S.
  - intro Off. unfold parse. rewrite TK, (TokInverse.repos_id _ _ Off).
    apply PP_parse_tokens. exact W.
Qed.

(* the same tree in particular prints the same text *)
Corollary structure_string_text ds strict user :
  wf_seq (all_skip user) false CTop ds [] = true ->
  Forall (fun t => TokInverse.shape t = true) (flat_list ds) ->
  TokInverse.follows_ok (flat_list ds) = true -> TokInverse.first_ok (flat_list ds) = true ->
  exists t', parse (render ds) strict user = Ok t' /\
             FixedPoint.expr_pos_sim (ERoot (map tree ds)) t' /\
             estr t' = estr (ERoot (map tree ds)).
Proof.
  intros W Sh Fo Fi. destruct (structure_string ds strict user W Sh Fo Fi) as [(t' & P & S) _].
  exists t'. split; [exact P|]. split; [exact S|]. symmetry. apply FixedPoint.expr_pos_sim_estr.
  exact S.
Qed.

(* --------------------------------------------- C01, first sentence *)

Theorem grammar_parses_and_roundtrips ds strict user :
  wf_seq (all_skip user) false CTop ds [] = true -> forallb printable ds = true ->
  Forall (fun t => TokInverse.shape t = true) (flat_list ds) ->
  TokInverse.follows_ok (flat_list ds) = true -> TokInverse.first_ok (flat_list ds) = true ->
  exists t', parse (render ds) strict user = Ok t' /\ estr t' = render ds.
Proof.
  intros W P Sh Fo Fi.
  destruct (structure_string_text ds strict user W Sh Fo Fi) as (t' & Pa & _ & E).
  exists t'. split; [exact Pa|]. rewrite E. unfold render.
  apply (estr_tree_list (all_skip user) false CTop ds [] W P).
  apply lex_tok_wf; assumption.
Qed.

(* ------------------------------------- the bridge: from a source string *)

(* whenever the tokens of a source can be grouped into a well-formed grammar
   document, the parse tree is that document's tree - literally, positions
   included.  No hypothesis on s: the tokenizer always ends with TEnd. *)
Theorem structure_of_source s ds strict user :
  fst (tokens_of_string s) = flat_list ds ->
  wf_seq (all_skip user) false CTop ds [] = true ->
  parse s strict user = Ok (ERoot (map tree ds)).
Proof.
  intros E W. destruct (tokenize_partition s) as (toks & TK & _).
  unfold parse. rewrite TK in *. cbn [fst] in E. rewrite E.
  apply PP_parse_tokens. exact W.
Qed.

(* and then the lexical hypotheses of structure_string hold automatically *)
Theorem source_lexical s ds :
  TokInverse.clean s = true -> TokInverse.start_quirk s = false ->
  fst (tokens_of_string s) = flat_list ds ->
  render ds = s /\
  Forall (fun t => TokInverse.shape t = true) (flat_list ds) /\
  TokInverse.follows_ok (flat_list ds) = true /\ TokInverse.first_ok (flat_list ds) = true /\
  TokInverse.offsets_ok 0 (flat_list ds).
Proof.
  intros Cl Q E.
  destruct (TokInverse.tokens_shaped s Cl Q) as (toks & TK & T1 & T2 & T3 & T4 & T5).
  rewrite TK in E. cbn [fst] in E. subst toks. unfold render.
  rewrite <- texts_TI. repeat split; assumption.
Qed.

(* the source text is the rendering as soon as s has no NUL/DEL *)
Lemma source_render s ds :
  TokInverse.clean s = true -> fst (tokens_of_string s) = flat_list ds -> render ds = s.
Proof.
  intros Cl E. destruct (tokens_of_string s) as [toks e] eqn:TK. cbn [fst] in E. subst toks.
  unfold render, texts. exact (tokens_concat_exact s _ e TK (TokInverse.clean_ign s Cl)).
Qed.

Theorem source_parses_and_roundtrips s ds strict user :
  TokInverse.clean s = true ->
  fst (tokens_of_string s) = flat_list ds ->
  wf_seq (all_skip user) false CTop ds [] = true -> forallb printable ds = true ->
  parse s strict user = Ok (ERoot (map tree ds)) /\ estr (ERoot (map tree ds)) = s.
Proof.
  intros Cl E W P. split; [apply structure_of_source; assumption|].
  transitivity (render ds); [|exact (source_render s ds Cl E)]. unfold render.
  apply (estr_tree_list (all_skip user) false CTop ds [] W P).
  destruct (tokens_of_string s) as [toks e] eqn:TK. cbn [fst] in E. subst toks.
  exact (ConsBridge.tokenize_wf _ _ _ TK).
Qed.

(* ====================================================================== *)
(* The hypotheses cannot be weakened, the conclusions not strengthened     *)
(* ====================================================================== *)

(* a hand-made document - NOT tokenizer output: every token records offset 0 -
   \begin{q}\a[x]{y}$z$\end{q}w *)
Definition tk (s : str) (c : tc) : token := mkt s 0%Z c.
Definition exP_doc : list doc :=
  let esc := tk [92]%N TEscape in
  let ob := tk [123]%N TGroupBegin in
  let cb := tk [125]%N TGroupEnd in
  let dollar := tk [36]%N TMathSwitch in
  let q := tk [113]%N TText in
  [ DEnv esc (tk [98;101;103;105;110]%N TCommandName) (Arg None GBrace ob [DLeaf q] cb) []
      [ DCmd esc (tk [97]%N TCommandName)
          [ Arg None GBracket (tk [91]%N TBracketBegin) [DLeaf (tk [120]%N TText)]
                (tk [93]%N TBracketEnd);
            Arg None GBrace ob [DLeaf (tk [121]%N TText)] cb ];
        DMath MInline dollar [DLeaf (tk [122]%N TText)] dollar ]
      esc (tk [101;110;100]%N TCommandName) (Arg None GBrace ob [DLeaf q] cb);
    DLeaf (tk [119]%N TText) ].
Definition exP_src : str :=
  [92;98;101;103;105;110;123;113;125;92;97;91;120;93;123;121;125;36;122;36;92;101;110;100;123;113;125;119]%N.

Example exP_hyps :
  render exP_doc = exP_src /\
  wf_seq (all_skip []) false CTop exP_doc [] = true /\ forallb printable exP_doc = true /\
  lexb (flat_list exP_doc) = true.
Proof. repeat split; vm_compute; reflexivity. Qed.

(* conclusions by the theorems *)
Example exP_structure strict :
  exists t', parse exP_src strict [] = Ok t' /\
             FixedPoint.expr_pos_sim (ERoot (map tree exP_doc)) t' /\ estr t' = exP_src.
Proof.
  destruct exP_hyps as (R & W & P & L). destruct (lexb_parts _ L) as (Sh & Fo & Fi).
  destruct (structure_string exP_doc strict [] W Sh Fo Fi) as [(t' & Pa & S) _].
  destruct (grammar_parses_and_roundtrips exP_doc strict [] W P Sh Fo Fi) as (t2 & Pa2 & E).
  rewrite R in *. exists t'. split; [exact Pa|]. split; [exact S|]. congruence.
Qed.

(* "up to positions" cannot be dropped when the tokens do not carry
   consecutive offsets *)
Theorem structure_string_literal_refuted :
  exists ds,
    wf_seq (all_skip []) false CTop ds [] = true /\ lexb (flat_list ds) = true /\
    parse (render ds) true [] <> Ok (ERoot (map tree ds)).
Proof.
  exists exP_doc. split; [vm_compute; reflexivity|]. split; [vm_compute; reflexivity|].
  vm_compute. discriminate.
Qed.

(* the lexical hypotheses cannot be dropped: two adjacent Text leaves `a` `b`
   are a well-formed grammar document, but its text "ab" is ONE Text token *)
Theorem structure_string_without_lexical_refuted :
  exists ds t',
    wf_seq (all_skip []) false CTop ds [] = true /\
    forallb TokInverse.shape (flat_list ds) = true /\ TokInverse.first_ok (flat_list ds) = true /\
    TokInverse.follows_ok (flat_list ds) = false /\
    parse (render ds) true [] = Ok t' /\ ~ FixedPoint.expr_pos_sim (ERoot (map tree ds)) t'.
Proof.
  exists [DLeaf (tk [97]%N TText); DLeaf (tk [98]%N TText)]. eexists.
  split; [vm_compute; reflexivity|]. split; [vm_compute; reflexivity|].
  split; [vm_compute; reflexivity|]. split; [vm_compute; reflexivity|].
  split; [vm_compute; reflexivity|]. apply FixedPoint.not_sim. vm_compute. discriminate.
Qed.

(* `printable` cannot be dropped from the round trip: ex1 =
   \a[x]{y \b{z}} {g $m_1$} t has a spacer before the third argument; the
   tree is the grammar's tree but prints without that spacer (C01 defect) *)
Theorem roundtrip_without_printable_refuted :
  exists ds t',
    wf_seq (all_skip []) false CTop ds [] = true /\ lexb (flat_list ds) = true /\
    forallb printable ds = false /\
    parse (render ds) true [] = Ok t' /\ t' = ERoot (map tree ds) /\
    estr t' <> render ds /\ length (estr t') = Nat.pred (length (render ds)).
Proof.
  exists ex1_doc. eexists.
  split; [vm_compute; reflexivity|]. split; [vm_compute; reflexivity|].
  split; [vm_compute; reflexivity|]. split; [vm_compute; reflexivity|].
  split; [vm_compute; reflexivity|]. split; [vm_compute; discriminate | vm_compute; reflexivity].
Qed.

(* ====================================================================== *)
(* Non-vacuity on the six documents of ReaderComplete.v                    *)
(* ====================================================================== *)

(* everything the examples need of a source / document pair, computed *)
Definition ex_hyps (src : str) (doc : list doc) : Prop :=
  TokInverse.clean src = true /\ TokInverse.start_quirk src = false /\
  fst (tokens_of_string src) = flat_list doc /\
  wf_seq (all_skip []) false CTop doc [] = true.

(* ... and everything the theorems conclude from it *)
Definition ex_concl (src : str) (doc : list doc) : Prop :=
  render doc = src /\ lexb (flat_list doc) = true /\
  TokInverse.offsets_ok 0 (flat_list doc) /\
  forall strict,
    parse src strict [] = Ok (ERoot (map tree doc)) /\
    parse (render doc) strict [] = Ok (ERoot (map tree doc)) /\
    exists t', parse (render doc) strict [] = Ok t' /\
               FixedPoint.expr_pos_sim (ERoot (map tree doc)) t'.

Lemma ex_by_theorems src doc : ex_hyps src doc -> ex_concl src doc.
Proof.
  intros (Cl & Q & E & W).
  destruct (source_lexical src doc Cl Q E) as (R & Sh & Fo & Fi & Off).
  split; [exact R|]. split; [apply lexb_of_parts; assumption|]. split; [exact Off|].
  intro strict. split; [apply structure_of_source; assumption|].
  destruct (structure_string doc strict [] W Sh Fo Fi) as [X Y]. split; [exact (Y Off) | exact X].
Qed.

Lemma ex_roundtrip src doc : ex_hyps src doc -> forallb printable doc = true ->
  forall strict, exists t', parse src strict [] = Ok t' /\ estr t' = src.
Proof.
  intros (Cl & Q & E & W) P strict.
  destruct (source_lexical src doc Cl Q E) as (R & Sh & Fo & Fi & _).
  destruct (grammar_parses_and_roundtrips doc strict [] W P Sh Fo Fi) as (t' & Pa & Es).
  rewrite R in *. exists t'. split; assumption.
Qed.

Example ex1_hyps : ex_hyps ex1_src ex1_doc.
Proof. repeat split; vm_compute; reflexivity. Qed.
Example ex2_hyps : ex_hyps ex2_src ex2_doc /\ forallb printable ex2_doc = true.
Proof. repeat split; vm_compute; reflexivity. Qed.
Example ex3_hyps : ex_hyps ex3_src ex3_doc /\ forallb printable ex3_doc = true.
Proof. repeat split; vm_compute; reflexivity. Qed.
Example ex4_hyps : ex_hyps ex4_src ex4_doc /\ forallb printable ex4_doc = true.
Proof. repeat split; vm_compute; reflexivity. Qed.
Example ex5_hyps : ex_hyps ex5_src ex5_doc /\ forallb printable ex5_doc = true.
Proof. repeat split; vm_compute; reflexivity. Qed.
Example ex6_hyps : ex_hyps ex6_src ex6_doc /\ forallb printable ex6_doc = true.
Proof. repeat split; vm_compute; reflexivity. Qed.

(* hypotheses computed, conclusions by the theorems *)
Definition ex_roundtrips (src : str) : Prop :=
  forall strict, exists t', parse src strict [] = Ok t' /\ estr t' = src.

Lemma ex_full src doc : ex_hyps src doc -> ex_hyps src doc /\ ex_concl src doc.
Proof. intro H. split; [exact H | exact (ex_by_theorems src doc H)]. Qed.

Lemma ex_full_printable src doc : ex_hyps src doc /\ forallb printable doc = true ->
  ex_hyps src doc /\ forallb printable doc = true /\ ex_concl src doc /\ ex_roundtrips src.
Proof.
  intros [H P]. split; [exact H|]. split; [exact P|].
  split; [exact (ex_by_theorems src doc H) | exact (ex_roundtrip src doc H P)].
Qed.

Example ex1_string : ex_hyps ex1_src ex1_doc /\ ex_concl ex1_src ex1_doc.
Proof. exact (ex_full _ _ ex1_hyps). Qed.
Example ex2_string :
  ex_hyps ex2_src ex2_doc /\ forallb printable ex2_doc = true /\
  ex_concl ex2_src ex2_doc /\ ex_roundtrips ex2_src.
Proof. exact (ex_full_printable _ _ ex2_hyps). Qed.
Example ex3_string :
  ex_hyps ex3_src ex3_doc /\ forallb printable ex3_doc = true /\
  ex_concl ex3_src ex3_doc /\ ex_roundtrips ex3_src.
Proof. exact (ex_full_printable _ _ ex3_hyps). Qed.
Example ex4_string :
  ex_hyps ex4_src ex4_doc /\ forallb printable ex4_doc = true /\
  ex_concl ex4_src ex4_doc /\ ex_roundtrips ex4_src.
Proof. exact (ex_full_printable _ _ ex4_hyps). Qed.
Example ex5_string :
  ex_hyps ex5_src ex5_doc /\ forallb printable ex5_doc = true /\
  ex_concl ex5_src ex5_doc /\ ex_roundtrips ex5_src.
Proof. exact (ex_full_printable _ _ ex5_hyps). Qed.
Example ex6_string :
  ex_hyps ex6_src ex6_doc /\ forallb printable ex6_doc = true /\
  ex_concl ex6_src ex6_doc /\ ex_roundtrips ex6_src.
Proof. exact (ex_full_printable _ _ ex6_hyps). Qed.
