(* Proofs about the model of the editing API (Model/Edit.v): the span lemma, the
   characterisation of every operation as a splice of one raw list, locality of the
   setters, refinement of a reference document model.  All statements are for every tree
   and every position (induction along the path; no depth bound). *)
From Coq Require Import List NArith ZArith Bool Lia Arith.
From TexModel Require Import Base Tables Chars Tokenizer Tree Reader Edit.
Import ListNotations.

(* ------------------------------------------------------------------------ lists *)
Lemma estr_list_app l1 l2 : estr_list (l1 ++ l2) = estr_list l1 ++ estr_list l2.
Proof. unfold estr_list. rewrite map_app, concat_app. reflexivity. Qed.
Lemma estr_list_cons x l : estr_list (x :: l) = estr x ++ estr_list l.
Proof. reflexivity. Qed.
Lemma estr_list_nil : estr_list [] = [].
Proof. reflexivity. Qed.

Lemma split_nth {A} (l : list A) i x :
  nth_error l i = Some x -> l = firstn i l ++ x :: skipn (S i) l.
Proof.
  revert i; induction l as [|y l IH]; intros [|i] H; simpl in H; try discriminate.
  - inversion H; subst. reflexivity.
  - simpl. f_equal. apply IH. exact H.
Qed.

Lemma nth_error_lt {A} (l : list A) i x : nth_error l i = Some x -> (i < length l)%nat.
Proof. intros H. apply nth_error_Some. rewrite H. discriminate. Qed.

Lemma firstn_app_exact {A} (l1 l2 : list A) n : length l1 = n -> firstn n (l1 ++ l2) = l1.
Proof.
  revert n; induction l1 as [|x l1 IH]; intros n H; subst n; simpl.
  - reflexivity.
  - f_equal. apply IH. reflexivity.
Qed.
Lemma skipn_app_exact {A} (l1 l2 : list A) n : length l1 = n -> skipn n (l1 ++ l2) = l2.
Proof.
  revert n; induction l1 as [|x l1 IH]; intros n H; subst n; simpl.
  - reflexivity.
  - apply IH. reflexivity.
Qed.

Lemma estr_list_split l i c :
  nth_error l i = Some c ->
  estr_list l = estr_list (firstn i l) ++ estr c ++ estr_list (skipn (S i) l).
Proof.
  intros H. rewrite <- estr_list_cons, <- estr_list_app. f_equal. apply split_nth. exact H.
Qed.
Lemma estr_list_subst l i c :
  estr_list (subst_nth i c l) = estr_list (firstn i l) ++ estr c ++ estr_list (skipn (S i) l).
Proof. unfold subst_nth. rewrite estr_list_app, estr_list_cons. reflexivity. Qed.

Lemma nth_error_subst_same {A} (l : list A) i x y :
  nth_error l i = Some y -> nth_error (subst_nth i x l) i = Some x.
Proof.
  intros H. unfold subst_nth. pose proof (nth_error_lt _ _ _ H) as Hl.
  rewrite nth_error_app2; rewrite firstn_length_le by lia; [|lia].
  rewrite Nat.sub_diag. reflexivity.
Qed.
Lemma nth_error_subst_other {A} (l : list A) i j x :
  i <> j -> (i < length l)%nat -> nth_error (subst_nth i x l) j = nth_error l j.
Proof.
  intros Hne Hl. unfold subst_nth.
  destruct (Nat.lt_ge_cases j i) as [Hlt|Hge].
  - rewrite nth_error_app1 by (rewrite firstn_length_le; lia).
    rewrite <- (firstn_skipn i l) at 2.
    rewrite nth_error_app1 by (rewrite firstn_length_le; lia). reflexivity.
  - rewrite nth_error_app2; rewrite firstn_length_le by lia; [|lia].
    destruct (j - i)%nat as [|d] eqn:Hd; [lia|]. simpl.
    rewrite <- (firstn_skipn (S i) l) at 2.
    rewrite nth_error_app2; rewrite firstn_length_le by lia; [|lia].
    f_equal. lia.
Qed.

(* ------------------------------------------------------------------------ paths *)
Lemma step_eqb_eq a b : step_eqb a b = true <-> a = b.
Proof.
  destruct a as [i|i], b as [j|j]; simpl; split; intro H; try discriminate;
    try (apply Nat.eqb_eq in H; subst; reflexivity);
    try (inversion H; subst; apply Nat.eqb_refl).
Qed.
Lemma path_eqb_eq p q : path_eqb p q = true <-> p = q.
Proof.
  revert q; induction p as [|a p IH]; destruct q as [|b q]; simpl; split; intro H;
    try reflexivity; try discriminate.
  - apply andb_true_iff in H as [H1 H2]. apply step_eqb_eq in H1. apply IH in H2. congruence.
  - inversion H; subst. apply andb_true_iff. split; [apply step_eqb_eq | apply IH]; reflexivity.
Qed.
Lemma path_eqb_refl p : path_eqb p p = true.
Proof. apply path_eqb_eq. reflexivity. Qed.
Lemma path_eqb_app_neq p s : path_eqb (p ++ [s]) p = false.
Proof.
  destruct (path_eqb (p ++ [s]) p) eqn:E; [|reflexivity].
  apply path_eqb_eq in E. apply (f_equal (@length step)) in E.
  rewrite app_length in E. simpl in E. lia.
Qed.

Lemma child_is_node e s c : child e s = Some c -> is_node e = true.
Proof.
  destruct s as [i|i]; destruct e; simpl; intros H; try reflexivity;
    destruct i; discriminate.
Qed.

Lemma get_app root p q :
  get root (p ++ q) = match get root p with Some x => get x q | None => None end.
Proof.
  revert root; induction p as [|s p IH]; intros root; simpl.
  - reflexivity.
  - destruct (child root s) as [c|]; [apply IH | reflexivity].
Qed.

Lemma put_total root p x x' : get root p = Some x -> exists root', put root p x' = Some root'.
Proof.
  revert root; induction p as [|s p IH]; intros root H; simpl in *.
  - eexists; reflexivity.
  - destruct (child root s) as [c|]; [|discriminate].
    destruct (IH c H) as [c' Hc']. rewrite Hc'. eexists; reflexivity.
Qed.

Lemma put_app root p q h x h' :
  get root p = Some h -> put h q x = Some h' -> put root (p ++ q) x = put root p h'.
Proof.
  revert root; induction p as [|s p IH]; intros root Hg Hp; simpl in *.
  - inversion Hg; subst. exact Hp.
  - destruct (child root s) as [c|]; [|discriminate].
    rewrite (IH c Hg Hp). reflexivity.
Qed.

(* ------------------------------------------------------- one step of serialisation *)
Lemma estr_shape e :
  is_node e = true ->
  estr e = head_of e ++ estr_list (args_of e) ++ estr_list (body_of e) ++ close_of e.
Proof.
  destruct e; simpl; intros H; try discriminate; unfold estr_list; simpl;
    rewrite ?app_nil_r; reflexivity.
Qed.

Lemma estr_open_close e : estr e = open_of e ++ estr_list (body_of e) ++ close_of e.
Proof.
  destruct (is_node e) eqn:N.
  - rewrite (estr_shape e N). unfold open_of. rewrite <- app_assoc. reflexivity.
  - destruct e; try discriminate; unfold open_of; simpl; rewrite ?app_nil_r; reflexivity.
Qed.

Lemma open_of_set_body e b : open_of (set_body e b) = open_of e.
Proof. destruct e; reflexivity. Qed.
Lemma close_of_set_body e b : close_of (set_body e b) = close_of e.
Proof. destruct e; reflexivity. Qed.
Lemma body_of_set_body e b : is_node e = true -> body_of (set_body e b) = b.
Proof. destruct e; simpl; intros H; try discriminate; reflexivity. Qed.
Lemma args_of_set_body e b : args_of (set_body e b) = args_of e.
Proof. destruct e; reflexivity. Qed.
Lemma is_node_set_body e b : is_node (set_body e b) = is_node e.
Proof. destruct e; reflexivity. Qed.
(* an expression that holds something supports contents (repaired TexCmd._supports_contents) *)
Lemma supports_holder h i x : nth_error (body_of h) i = Some x -> supports h = true.
Proof.
  destruct h; simpl; intros H; try reflexivity.
  destruct body; [destruct i; discriminate | apply orb_true_r].
Qed.
Lemma set_body_set_body e b1 b2 : set_body (set_body e b1) b2 = set_body e b2.
Proof. destruct e; reflexivity. Qed.
Lemma body_of_set_args e a : body_of (set_args_of e a) = body_of e.
Proof. destruct e; reflexivity. Qed.

Lemma estr_set_body e b :
  is_node e = true -> estr (set_body e b) = open_of e ++ estr_list b ++ close_of e.
Proof.
  intros N. rewrite estr_open_close, open_of_set_body, close_of_set_body.
  rewrite body_of_set_body by exact N. reflexivity.
Qed.

Lemma step_estr e s c :
  child e s = Some c -> estr e = step_pre e s ++ estr c ++ step_post e s.
Proof.
  intros H. pose proof (child_is_node _ _ _ H) as N.
  destruct s as [i|i]; simpl in H; unfold step_pre, step_post.
  - rewrite (estr_shape e N), (estr_list_split _ _ _ H). rewrite <- !app_assoc. reflexivity.
  - rewrite (estr_open_close e), (estr_list_split _ _ _ H). rewrite <- !app_assoc. reflexivity.
Qed.

Lemma step_estr_set e s c c' :
  child e s = Some c -> estr (set_child e s c') = step_pre e s ++ estr c' ++ step_post e s.
Proof.
  intros H. pose proof (child_is_node _ _ _ H) as N.
  destruct s as [i|i]; simpl in H; unfold set_child, step_pre, step_post.
  - destruct e; simpl in H; try (destruct i; discriminate); simpl;
      fold (estr_list (subst_nth i c' args)); rewrite estr_list_subst;
      unfold estr_list; rewrite <- ?app_assoc; simpl; rewrite <- ?app_assoc, ?app_nil_r; reflexivity.
  - rewrite (estr_set_body e _ N), estr_list_subst. rewrite <- !app_assoc. reflexivity.
Qed.

(* ------------------------------------------------------------------ along a path *)
Lemma estr_get : forall p root x,
  get root p = Some x -> estr root = ctx_pre root p ++ estr x ++ ctx_post root p.
Proof.
  induction p as [|s p IH]; intros root x H; simpl in H.
  - inversion H; subst. simpl. rewrite app_nil_r. reflexivity.
  - destruct (child root s) as [c|] eqn:C; [|discriminate].
    rewrite (step_estr _ _ _ C), (IH c x H). cbn [ctx_pre ctx_post]. rewrite C.
    rewrite <- !app_assoc. reflexivity.
Qed.

Lemma estr_put : forall p root x x' root',
  get root p = Some x -> put root p x' = Some root' ->
  estr root' = ctx_pre root p ++ estr x' ++ ctx_post root p.
Proof.
  induction p as [|s p IH]; intros root x x' root' H Hp; simpl in H, Hp.
  - inversion Hp; subst. simpl. rewrite app_nil_r. reflexivity.
  - destruct (child root s) as [c|] eqn:C; [|discriminate].
    destruct (put c p x') as [c'|] eqn:Pc; [|discriminate]. inversion Hp; subst.
    rewrite (step_estr_set _ _ _ c' C), (IH c x x' c' H Pc). cbn [ctx_pre ctx_post]. rewrite C.
    rewrite <- !app_assoc. reflexivity.
Qed.

(* The span lemma.  pre/post depend on root and p only. *)
Lemma serialise_body root p h :
  get root p = Some h ->
  estr root = span_pre root p ++ estr_list (body_of h) ++ span_post root p.
Proof.
  intros H. unfold span_pre, span_post. rewrite H.
  rewrite (estr_get _ _ _ H), (estr_open_close h). rewrite <- !app_assoc. reflexivity.
Qed.

Lemma serialise_set_body root p h l :
  get root p = Some h -> is_node h = true ->
  exists root', set_body_at root p l = Some root' /\
                estr root' = span_pre root p ++ estr_list l ++ span_post root p.
Proof.
  intros H N. unfold set_body_at. rewrite H.
  destruct (put_total root p h (set_body h l) H) as [root' Hp].
  exists root'. split; [exact Hp|].
  unfold span_pre, span_post. rewrite H.
  rewrite (estr_put _ _ _ _ _ H Hp), (estr_set_body h l N). rewrite <- !app_assoc. reflexivity.
Qed.

Lemma serialise_update root p h :
  get root p = Some h -> is_node h = true ->
  estr root = span_pre root p ++ estr_list (body_of h) ++ span_post root p /\
  forall i k new, exists root',
    splice_at root p i k new = Some root' /\
    estr root' = span_pre root p ++ estr_list (firstn i (body_of h)) ++ estr_list new
                   ++ estr_list (skipn (i + k) (body_of h)) ++ span_post root p.
Proof.
  intros H N. split; [apply serialise_body; exact H|].
  intros i k new. unfold splice_at. rewrite H.
  destruct (serialise_set_body root p h (splice i k new (body_of h)) H N) as [root' [Hs He]].
  exists root'. split; [exact Hs|]. rewrite He. unfold splice.
  rewrite !estr_list_app. rewrite <- !app_assoc. reflexivity.
Qed.

(* ----------------------------------------------------------------- Python lists *)
Lemma list_insert_nat {A} i (x : A) l :
  (i <= length l)%nat -> list_insert (Z.of_nat i) x l = firstn i l ++ x :: skipn i l.
Proof.
  intros H. unfold list_insert, norm_index.
  destruct (Z.ltb_spec (Z.of_nat i) 0) as [Hn|Hn]; [lia|].
  rewrite Nat2Z.id, Nat.min_l by exact H. reflexivity.
Qed.

Lemma insert_seq_nat {A} (new : list A) : forall i l,
  (i <= length l)%nat -> insert_seq (Z.of_nat i) new l = firstn i l ++ new ++ skipn i l.
Proof.
  induction new as [|x new IH]; intros i l H; simpl.
  - symmetry. apply firstn_skipn.
  - rewrite list_insert_nat by exact H.
    replace (Z.of_nat i + 1)%Z with (Z.of_nat (S i)) by lia.
    assert (E : firstn i l ++ x :: skipn i l = (firstn i l ++ [x]) ++ skipn i l)
      by (rewrite <- app_assoc; reflexivity).
    assert (L : length (firstn i l ++ [x]) = S i)
      by (rewrite app_length, firstn_length_le by exact H; simpl; lia).
    rewrite IH.
    + rewrite E, (firstn_app_exact _ _ _ L), (skipn_app_exact _ _ _ L).
      rewrite <- app_assoc. reflexivity.
    + rewrite E, app_length, L, skipn_length. lia.
Qed.

Lemma splice_insert {A} (new l : list A) i :
  (i <= length l)%nat -> insert_seq (Z.of_nat i) new l = splice i 0 new l.
Proof. intros H. unfold splice. rewrite Nat.add_0_r. apply insert_seq_nat. exact H. Qed.

Lemma splice_replace {A} (new l : list A) i x :
  nth_error l i = Some x -> splice i 0 new (splice i 1 [] l) = splice i 1 new l.
Proof.
  intros H. pose proof (nth_error_lt _ _ _ H) as Hl. unfold splice. simpl.
  rewrite Nat.add_0_r.
  assert (L : length (firstn i l) = i) by (apply firstn_length_le; lia).
  rewrite (firstn_app_exact _ _ _ L), (skipn_app_exact _ _ _ L). reflexivity.
Qed.

Lemma splice_append {A} (new l : list A) : l ++ new = splice (length l) 0 new l.
Proof. unfold splice. rewrite firstn_all, Nat.add_0_r, skipn_all, app_nil_r. reflexivity. Qed.

Lemma splice_length_remove {A} (l : list A) i x :
  nth_error l i = Some x -> (i <= length (splice i 1 [] l))%nat.
Proof.
  intros H. pose proof (nth_error_lt _ _ _ H) as Hl. unfold splice. simpl.
  rewrite app_length, firstn_length_le by lia. lia.
Qed.

(* --------------------------------------------------------- the navigation parent *)
Lemma nav_parent_noarg hp : ends_in_arg hp = false -> nav_parent hp = hp.
Proof.
  unfold ends_in_arg, nav_parent. intros H.
  destruct (rev hp) as [|[j|j] r] eqn:R; try discriminate; cbn [drop_args]; rewrite <- R;
    apply rev_involutive.
Qed.

Lemma nav_parent_cases hp :
  arg_depth_ok hp = true ->
  nav_parent hp = hp \/ exists j, hp = nav_parent hp ++ [SArg j].
Proof.
  unfold arg_depth_ok, nav_parent. intros H.
  assert (Hh : hp = rev (rev hp)) by (symmetry; apply rev_involutive).
  destruct (rev hp) as [|[j|j] r] eqn:R.
  - left. simpl. symmetry. exact Hh.
  - right. exists j. destruct r as [|[k|k] r2]; try discriminate; simpl in *; exact Hh.
  - left. cbn [drop_args]. symmetry. exact Hh.
Qed.

(* ------------------------------------------------ the identity look-up is exact *)
Lemma find_holders_self_gen pp P : forall l k,
  find (holds_object pp) (number_args pp k l ++ [(pp, P)]) = Some (pp, P).
Proof.
  induction l as [|a l IH]; intros k; simpl.
  - unfold holds_object. simpl. rewrite path_eqb_refl. reflexivity.
  - unfold holds_object at 1. simpl. rewrite path_eqb_app_neq. apply IH.
Qed.
Lemma find_holders_self pp P : find (holds_object pp) (holders pp P) = Some (pp, P).
Proof. apply find_holders_self_gen. Qed.

Lemma find_holders_arg_gen pp rest : forall l k j a,
  nth_error l j = Some a ->
  find (holds_object (pp ++ [SArg (k + j)])) (number_args pp k l ++ rest)
  = Some (pp ++ [SArg (k + j)], a).
Proof.
  induction l as [|b l IH]; intros k [|j] a H; simpl in H; try discriminate.
  - inversion H; subst. simpl. unfold holds_object. simpl.
    rewrite Nat.add_0_r, path_eqb_refl. reflexivity.
  - simpl. unfold holds_object at 1. simpl.
    destruct (path_eqb (pp ++ [SArg k]) (pp ++ [SArg (k + S j)])) eqn:E.
    + apply path_eqb_eq in E. apply app_inv_head in E. inversion E. lia.
    + replace (k + S j)%nat with (S k + j)%nat by lia. apply IH. exact H.
Qed.
Lemma find_holders_arg pp P j a :
  nth_error (args_of P) j = Some a ->
  find (holds_object (pp ++ [SArg j])) (holders pp P) = Some (pp ++ [SArg j], a).
Proof. intros H. apply (find_holders_arg_gen pp [(pp, P)] (args_of P) 0 j a H). Qed.

(* the holder of a well-formed position is found among the holders of the navigation
   parent, by identity *)
Lemma find_nav root hp h :
  get root hp = Some h -> arg_depth_ok hp = true ->
  exists P, get root (nav_parent hp) = Some P /\
            find (holds_object hp) (holders (nav_parent hp) P) = Some (hp, h).
Proof.
  intros H D. destruct (nav_parent_cases hp D) as [E|[j E]].
  - rewrite E. exists h. split; [exact H | apply find_holders_self].
  - remember (nav_parent hp) as pp eqn:Epp. clear Epp. subst hp.
    rewrite get_app in H. destruct (get root pp) as [P|] eqn:G; [|discriminate].
    exists P. split; [reflexivity|]. simpl in H.
    destruct (nth_error (args_of P) j) as [a|] eqn:A; [|discriminate]. inversion H; subst.
    apply find_holders_arg. exact A.
Qed.

Lemma get_item root hp i h x :
  get root hp = Some h -> nth_error (body_of h) i = Some x -> get root (hp ++ [SBody i]) = Some x.
Proof. intros H X. rewrite get_app, H. simpl. rewrite X. reflexivity. Qed.

(* --------------------------------------------- every operation is a splice (C05) *)
Lemma expr_remove_identity eqf hp h i x :
  supports h = true ->
  expr_remove eqf hp h hp i x = Done (i, set_body h (splice i 1 [] (body_of h))).
Proof. intros S. unfold expr_remove. rewrite S, path_eqb_refl. reflexivity. Qed.

Lemma put_o_done root p h x :
  get root p = Some h -> exists root', put root p x = Some root' /\ put_o root p x = Done root'.
Proof.
  intros H. destruct (put_total root p h x H) as [r Hr]. exists r. split; [exact Hr|].
  unfold put_o. rewrite Hr. reflexivity.
Qed.

Lemma delete_via_found root pp hp i P h x :
  get root pp = Some P -> get root hp = Some h -> nth_error (body_of h) i = Some x ->
  find (holds_object hp) (holders pp P) = Some (hp, h) ->
  exists root', splice_at root hp i 1 [] = Some root' /\ delete_via root pp hp i = Done root'.
Proof.
  intros GP GH X F. pose proof (supports_holder h i x X) as S. unfold delete_via. rewrite GP, (get_item _ _ _ _ _ GH X), F.
  rewrite (expr_remove_identity _ hp h i x S). simpl.
  destruct (put_o_done root hp h (set_body h (splice i 1 [] (body_of h))) GH) as [r [Hr Ho]].
  exists r. split; [|exact Ho]. unfold splice_at, set_body_at. rewrite GH. exact Hr.
Qed.

Lemma delete_is_splice root hp i h x :
  get root hp = Some h -> nth_error (body_of h) i = Some x ->
  arg_depth_ok hp = true ->
  exists root', splice_at root hp i 1 [] = Some root' /\ delete root hp i = Done root'.
Proof.
  intros GH X D. destruct (find_nav root hp h GH D) as [P [GP F]].
  unfold delete. apply (delete_via_found root _ hp i P h x GP GH X F).
Qed.

Lemma remove_is_splice root hp i h x :
  get root hp = Some h -> nth_error (body_of h) i = Some x ->
  ends_in_arg hp = false ->
  exists root', splice_at root hp i 1 [] = Some root' /\ remove root hp i = Done root'.
Proof.
  intros GH X E. pose proof (supports_holder h i x X) as S. unfold remove, remove_via. rewrite (nav_parent_noarg hp E).
  rewrite GH, (get_item _ _ _ _ _ GH X), (expr_remove_identity _ hp h i x S). simpl.
  destruct (put_o_done root hp h (set_body h (splice i 1 [] (body_of h))) GH) as [r [Hr Ho]].
  exists r. split; [|exact Ho]. unfold splice_at, set_body_at. rewrite GH. exact Hr.
Qed.

Lemma replace_in_identity root hp h i x new :
  get root hp = Some h -> nth_error (body_of h) i = Some x -> supports (set_body h (splice i 1 [] (body_of h))) = true ->
  exists root', splice_at root hp i 1 new = Some root' /\
                replace_in root hp h hp i x new = Done root'.
Proof.
  intros GH X S2. pose proof (supports_holder h i x X) as S.
  pose proof (child_is_node h (SBody i) x X) as N.
  unfold replace_in. rewrite (expr_remove_identity _ hp h i x S). simpl.
  unfold expr_insert. rewrite S2. simpl.
  rewrite (body_of_set_body h _ N), set_body_set_body.
  rewrite (splice_insert new _ i (splice_length_remove _ _ _ X)), (splice_replace new _ i x X).
  destruct (put_o_done root hp h (set_body h (splice i 1 new (body_of h))) GH) as [r [Hr Ho]].
  exists r. split; [|exact Ho]. unfold splice_at, set_body_at. rewrite GH. exact Hr.
Qed.

Lemma replace_via_found root pp hp i P h x new :
  get root pp = Some P -> get root hp = Some h -> nth_error (body_of h) i = Some x ->
  supports (set_body h (splice i 1 [] (body_of h))) = true ->
  find (holds_object hp) (holders pp P) = Some (hp, h) ->
  exists root', splice_at root hp i 1 new = Some root' /\
                replace_via root pp hp i new = Done root'.
Proof.
  intros GP GH X S F. unfold replace_via. rewrite GP, (get_item _ _ _ _ _ GH X), F.
  apply replace_in_identity; assumption.
Qed.

Lemma replace_with_is_splice root hp i h x new :
  get root hp = Some h -> nth_error (body_of h) i = Some x ->
  supports (set_body h (splice i 1 [] (body_of h))) = true -> arg_depth_ok hp = true ->
  exists root', splice_at root hp i 1 new = Some root' /\ replace_with root hp i new = Done root'.
Proof.
  intros GH X S D. destruct (find_nav root hp h GH D) as [P [GP F]].
  unfold replace_with. apply (replace_via_found root _ hp i P h x new GP GH X S F).
Qed.

(* parent.replace(child, ...) with the parent given explicitly: the child is in the
   parent's own list or in one of its argument groups *)
Lemma replace_is_splice root pp hp i P h x new :
  get root pp = Some P -> (hp = pp \/ exists j, hp = pp ++ [SArg j]) ->
  get root hp = Some h -> nth_error (body_of h) i = Some x ->
  supports (set_body h (splice i 1 [] (body_of h))) = true ->
  exists root', splice_at root hp i 1 new = Some root' /\
                replace_via root pp hp i new = Done root'.
Proof.
  intros GP [E|[j E]] GH X S; subst hp.
  - rewrite GP in GH. inversion GH; subst.
    apply (replace_via_found root pp pp i h h x new GP GP X S (find_holders_self pp h)).
  - pose proof GH as GH'. rewrite get_app, GP in GH'. simpl in GH'.
    destruct (nth_error (args_of P) j) as [a|] eqn:A; [|discriminate]. inversion GH'; subst.
    apply (replace_via_found root pp _ i P h x new GP GH X S (find_holders_arg pp P j h A)).
Qed.

Lemma insert_is_splice root np i h new :
  get root np = Some h -> is_node h = true -> supports h = true ->
  (i <= length (body_of h))%nat ->
  exists root', splice_at root np i 0 new = Some root' /\
                insert root np (Z.of_nat i) new = Done root'.
Proof.
  intros GH N S L. unfold insert, expr_insert. rewrite GH, S. simpl.
  rewrite (splice_insert new _ i L).
  destruct (put_o_done root np h (set_body h (splice i 0 new (body_of h))) GH) as [r [Hr Ho]].
  exists r. split; [|exact Ho]. unfold splice_at, set_body_at. rewrite GH. exact Hr.
Qed.

Lemma append_is_splice root np h new :
  get root np = Some h -> is_node h = true -> supports h = true ->
  exists root', splice_at root np (length (body_of h)) 0 new = Some root' /\
                append root np new = Done root'.
Proof.
  intros GH N S. unfold append, expr_append. rewrite GH, S. simpl.
  rewrite (splice_append new (body_of h)).
  destruct (put_o_done root np h (set_body h (splice (length (body_of h)) 0 new (body_of h))) GH)
    as [r [Hr Ho]].
  exists r. split; [|exact Ho]. unfold splice_at, set_body_at. rewrite GH. exact Hr.
Qed.

(* a command other than \item refuses contents *)
Lemma insert_refused root np h i new :
  get root np = Some h -> supports h = false -> insert root np i new = Raise ETypeError.
Proof. intros GH S. unfold insert, expr_insert. rewrite GH, S. reflexivity. Qed.

(* ------------------------------------------------------------- the setters (C14) *)
Lemma rename_cmd_local root np n a b p s :
  get root np = Some (ECmd n a b p) ->
  exists root', set_name root np s = Done root' /\
    estr root  = ctx_pre root np ++ (backslash :: n ++ estr_list a ++ estr_list b) ++ ctx_post root np /\
    estr root' = ctx_pre root np ++ (backslash :: s ++ estr_list a ++ estr_list b) ++ ctx_post root np.
Proof.
  intros G. unfold set_name. rewrite G. simpl.
  destruct (put_o_done root np _ (ECmd s a b p) G) as [r [Hr Ho]].
  exists r. split; [exact Ho|]. split.
  - rewrite (estr_get _ _ _ G). reflexivity.
  - rewrite (estr_put _ _ _ _ _ G Hr). reflexivity.
Qed.

Lemma rename_env_local root np n a b p s :
  get root np = Some (ENamed n a b p) ->
  exists root', set_name root np s = Done root' /\
    estr root  = ctx_pre root np ++ (env_begin n ++ estr_list a ++ estr_list b ++ env_end n)
                   ++ ctx_post root np /\
    estr root' = ctx_pre root np ++ (env_begin s ++ estr_list a ++ estr_list b ++ env_end s)
                   ++ ctx_post root np.
Proof.
  intros G. unfold set_name. rewrite G. simpl.
  destruct (put_o_done root np _ (ENamed s a b p) G) as [r [Hr Ho]].
  exists r. split; [exact Ho|]. split.
  - rewrite (estr_get _ _ _ G). reflexivity.
  - rewrite (estr_put _ _ _ _ _ G Hr). reflexivity.
Qed.

Lemma estr_text_of s : estr_list [text_of s] = s.
Proof. unfold estr_list. simpl. apply app_nil_r. Qed.

(* the string of a one-argument command: the contents of that argument become the text *)
Lemma set_string_cmd_is_set_body root np n a0 b p s :
  get root np = Some (ECmd n [a0] b p) ->
  exists root', set_body_at root (np ++ [SArg 0]) [text_of s] = Some root' /\
                set_string root np s = Done root'.
Proof.
  intros G. unfold set_string. rewrite G. simpl.
  destruct (put_o_done root np _ (ECmd n [set_body a0 [text_of s]] b p) G) as [r [Hr Ho]].
  exists r. split; [|exact Ho].
  unfold set_body_at. rewrite get_app, G. simpl.
  rewrite (put_app root np [SArg 0] (ECmd n [a0] b p) (set_body a0 [text_of s])
                   (ECmd n [set_body a0 [text_of s]] b p) G); [exact Hr | reflexivity].
Qed.

Lemma set_string_cmd_local root np n a0 b p s :
  get root np = Some (ECmd n [a0] b p) -> is_node a0 = true ->
  exists root', set_string root np s = Done root' /\
    estr root  = span_pre root (np ++ [SArg 0]) ++ estr_list (body_of a0)
                   ++ span_post root (np ++ [SArg 0]) /\
    estr root' = span_pre root (np ++ [SArg 0]) ++ s ++ span_post root (np ++ [SArg 0]).
Proof.
  intros G N.
  assert (GA : get root (np ++ [SArg 0]) = Some a0) by (rewrite get_app, G; reflexivity).
  destruct (set_string_cmd_is_set_body root np n a0 b p s G) as [r [Hs Ho]].
  exists r. split; [exact Ho|]. split.
  - apply serialise_body. exact GA.
  - destruct (serialise_set_body root _ a0 [text_of s] GA N) as [r' [Hs' He]].
    rewrite Hs in Hs'. inversion Hs'; subst r'. rewrite He, estr_text_of. reflexivity.
Qed.

Lemma set_string_env_is_set_body root np h q x s :
  get root np = Some h -> is_env h = true -> cview h = [(q, x)] -> is_node x = false ->
  exists root', set_body_at root np [text_of s] = Some root' /\ set_string root np s = Done root'.
Proof.
  intros G E V X. unfold set_string. rewrite G.
  assert (R : restring h s = Done (set_body h [text_of s])).
  { destruct h; try discriminate; unfold restring; rewrite V, X; reflexivity. }
  rewrite R. simpl.
  destruct (put_o_done root np h (set_body h [text_of s]) G) as [r [Hr Ho]].
  exists r. split; [|exact Ho]. unfold set_body_at. rewrite G. exact Hr.
Qed.

Lemma set_string_env_local root np h q x s :
  get root np = Some h -> is_env h = true -> cview h = [(q, x)] -> is_node x = false ->
  exists root', set_string root np s = Done root' /\
    estr root  = span_pre root np ++ estr_list (body_of h) ++ span_post root np /\
    estr root' = span_pre root np ++ s ++ span_post root np.
Proof.
  intros G E V X.
  assert (N : is_node h = true) by (destruct h; try discriminate; reflexivity).
  destruct (set_string_env_is_set_body root np h q x s G E V X) as [r [Hs Ho]].
  exists r. split; [exact Ho|]. split.
  - apply serialise_body. exact G.
  - destruct (serialise_set_body root np h [text_of s] G N) as [r' [Hs' He]].
    rewrite Hs in Hs'. inversion Hs'; subst r'. rewrite He, estr_text_of. reflexivity.
Qed.

(* an environment without arguments: its `contents` view is its raw list without the
   whitespace-only texts *)
Lemma cview_own_gen (b : list expr) : forall k,
  map snd (filter (fun it : (path * nat) * expr => negb (is_ws_item (snd it)))
                  (map (fun ix : nat * expr => (([], fst ix), snd ix)) (number_from k b)))
  = filter (fun c => negb (is_ws_item c)) b.
Proof.
  induction b as [|c b IH]; intros k; simpl; [reflexivity|].
  destruct (negb (is_ws_item c)); simpl; rewrite IH; reflexivity.
Qed.

Lemma cview_noargs h :
  is_env h = true -> args_of h = [] ->
  map snd (cview h) = filter (fun c => negb (is_ws_item c)) (body_of h).
Proof.
  intros E A. destruct h; try discriminate; simpl in A; subst; simpl; apply cview_own_gen.
Qed.

Lemma set_string_env_noargs_local root np h x s :
  get root np = Some h -> is_env h = true -> args_of h = [] ->
  filter (fun c => negb (is_ws_item c)) (body_of h) = [x] -> is_node x = false ->
  exists root', set_string root np s = Done root' /\
    estr root  = span_pre root np ++ estr_list (body_of h) ++ span_post root np /\
    estr root' = span_pre root np ++ s ++ span_post root np.
Proof.
  intros G E A F X. pose proof (cview_noargs h E A) as V. rewrite F in V.
  destruct (cview h) as [|[q x'] [|y l]] eqn:CV; try discriminate.
  simpl in V. inversion V; subst x'.
  apply (set_string_env_local root np h q x s G E CV X).
Qed.

Lemma estr_set_args_of e a :
  has_args e = true ->
  estr (set_args_of e a) = head_of e ++ estr_list a ++ estr_list (body_of e) ++ close_of e.
Proof.
  destruct e; simpl; intros H; try discriminate; unfold estr_list; rewrite ?app_nil_r; reflexivity.
Qed.

Lemma set_args_local root np h idxs a' :
  get root np = Some h -> has_args h = true -> nodup_nat idxs = true ->
  select (args_of h) idxs = Some a' ->
  exists root', set_args root np idxs = Done root' /\
    estr root  = ctx_pre root np
                   ++ (head_of h ++ estr_list (args_of h) ++ estr_list (body_of h) ++ close_of h)
                   ++ ctx_post root np /\
    estr root' = ctx_pre root np
                   ++ (head_of h ++ estr_list a' ++ estr_list (body_of h) ++ close_of h)
                   ++ ctx_post root np.
Proof.
  intros G A D S. unfold set_args. rewrite G.
  assert (R : reargs h idxs = Done (set_args_of h a')).
  { destruct h; try discriminate; unfold reargs; rewrite D; simpl in S; rewrite S; reflexivity. }
  rewrite R. simpl.
  destruct (put_o_done root np h (set_args_of h a') G) as [r [Hr Ho]].
  exists r. split; [exact Ho|]. split.
  - rewrite (estr_get _ _ _ G). rewrite (estr_shape h) by (destruct h; try discriminate; reflexivity).
    reflexivity.
  - rewrite (estr_put _ _ _ _ _ G Hr), (estr_set_args_of h a' A). reflexivity.
Qed.

(* ----------------------------------------- what an update leaves alone (C05, C15) *)
Lemma args_of_set_args e a : has_args e = true -> args_of (set_args_of e a) = a.
Proof. destruct e; simpl; intros H; try discriminate; reflexivity. Qed.

Lemma child_has_args e i c : child e (SArg i) = Some c -> has_args e = true.
Proof. destruct e; simpl; intros H; try reflexivity; destruct i; discriminate. Qed.

Lemma child_set_child_same e s c c' :
  child e s = Some c -> child (set_child e s c') s = Some c'.
Proof.
  intros H. destruct s as [i|i]; simpl in *.
  - rewrite (args_of_set_args e _ (child_has_args e i c H)).
    apply (nth_error_subst_same _ _ _ _ H).
  - rewrite (body_of_set_body e _ (child_is_node e (SBody i) c H)).
    apply (nth_error_subst_same _ _ _ _ H).
Qed.

Lemma child_set_child_other e s s' c c' :
  child e s = Some c -> s <> s' -> child (set_child e s c') s' = child e s'.
Proof.
  intros H Hne. destruct s as [i|i], s' as [j|j]; simpl in *.
  - rewrite (args_of_set_args e _ (child_has_args e i c H)).
    apply nth_error_subst_other; [congruence | apply (nth_error_lt _ _ _ H)].
  - rewrite body_of_set_args. reflexivity.
  - rewrite args_of_set_body. reflexivity.
  - rewrite (body_of_set_body e _ (child_is_node e (SBody i) c H)).
    apply nth_error_subst_other; [congruence | apply (nth_error_lt _ _ _ H)].
Qed.

Lemma get_put_same : forall p root x x' root',
  get root p = Some x -> put root p x' = Some root' -> get root' p = Some x'.
Proof.
  induction p as [|s p IH]; intros root x x' root' G P; simpl in *.
  - inversion P; subst. reflexivity.
  - destruct (child root s) as [c|] eqn:C; [|discriminate].
    destruct (put c p x') as [c'|] eqn:Pc; [|discriminate]. inversion P; subst.
    rewrite (child_set_child_same _ _ _ c' C). apply (IH c x x' c' G Pc).
Qed.

(* p and q part ways at some step *)
Fixpoint diverges (p q : path) : bool :=
  match p, q with
  | s1 :: p', s2 :: q' => if step_eqb s1 s2 then diverges p' q' else true
  | _, _ => false
  end.

Lemma get_put_diverge : forall p root x' root' q,
  put root p x' = Some root' -> diverges p q = true -> get root' q = get root q.
Proof.
  induction p as [|s p IH]; intros root x' root' q P D; simpl in *; [discriminate|].
  destruct q as [|s2 q]; [discriminate|].
  destruct (child root s) as [c|] eqn:C; [|discriminate].
  destruct (put c p x') as [c'|] eqn:Pc; [|discriminate]. inversion P; subst. simpl.
  destruct (step_eqb s s2) eqn:E.
  - apply step_eqb_eq in E. subst s2.
    rewrite (child_set_child_same _ _ _ c' C), C. apply (IH c x' c' q Pc D).
  - rewrite (child_set_child_other _ s s2 c c' C); [reflexivity|].
    intros Heq. subst s2. rewrite (proj2 (step_eqb_eq s s) eq_refl) in E. discriminate.
Qed.

Lemma nth_error_skipn_add {A} (l : list A) : forall n m,
  nth_error (skipn n l) m = nth_error l (n + m).
Proof.
  induction l as [|x l IH]; intros [|n] m; simpl; try reflexivity.
  - destruct m; reflexivity.
  - apply IH.
Qed.

Lemma nth_error_splice_before {A} (l new : list A) i k j :
  (j < i)%nat -> (i <= length l)%nat -> nth_error (splice i k new l) j = nth_error l j.
Proof.
  intros Hj Hi. unfold splice.
  rewrite nth_error_app1 by (rewrite firstn_length_le; lia).
  rewrite <- (firstn_skipn i l) at 2.
  rewrite nth_error_app1 by (rewrite firstn_length_le; lia). reflexivity.
Qed.

Lemma nth_error_splice_after {A} (l new : list A) i k j :
  (i + k <= j)%nat -> (i <= length l)%nat ->
  nth_error (splice i k new l) (j - k + length new) = nth_error l j.
Proof.
  intros Hj Hi. unfold splice.
  rewrite nth_error_app2; rewrite firstn_length_le by lia; [|lia].
  rewrite nth_error_app2 by lia.
  rewrite nth_error_skipn_add. f_equal. lia.
Qed.

Lemma untargeted_unchanged root p h i k new root' :
  get root p = Some h -> is_node h = true -> (i <= length (body_of h))%nat ->
  splice_at root p i k new = Some root' ->
  (forall q, diverges p q = true -> get root' q = get root q) /\
  (forall j rest, (j < i)%nat ->
     get root' (p ++ SBody j :: rest) = get root (p ++ SBody j :: rest)) /\
  (forall j rest, (i + k <= j)%nat ->
     get root' (p ++ SBody (j - k + length new) :: rest) = get root (p ++ SBody j :: rest)) /\
  (forall j rest, get root' (p ++ SArg j :: rest) = get root (p ++ SArg j :: rest)).
Proof.
  intros G N L S. unfold splice_at, set_body_at in S. rewrite G in S.
  pose proof (get_put_same _ _ _ _ _ G S) as G'.
  split; [|split; [|split]].
  - intros q D. apply (get_put_diverge _ _ _ _ q S D).
  - intros j rest Hj. rewrite !get_app, G, G'. simpl.
    rewrite (body_of_set_body h _ N), (nth_error_splice_before _ new i k j Hj L). reflexivity.
  - intros j rest Hj. rewrite !get_app, G, G'. simpl.
    rewrite (body_of_set_body h _ N), (nth_error_splice_after _ new i k j Hj L). reflexivity.
  - intros j rest. rewrite !get_app, G, G'. simpl. rewrite args_of_set_body. reflexivity.
Qed.

(* textually identical twins: deleting the second leaves the first where it was, deleting
   the first leaves the second (one place further left) *)
Lemma C05_twins root hp h i j x y :
  get root hp = Some h -> arg_depth_ok hp = true ->
  nth_error (body_of h) i = Some x -> nth_error (body_of h) j = Some y ->
  estr x = estr y -> (i < j)%nat ->
  (exists root', delete root hp j = Done root' /\
     get root' (hp ++ [SBody i]) = Some x /\
     estr root' = span_pre root hp ++ estr_list (firstn j (body_of h))
                    ++ estr_list (skipn (S j) (body_of h)) ++ span_post root hp) /\
  (exists root', delete root hp i = Done root' /\
     get root' (hp ++ [SBody (j - 1)]) = Some y /\
     estr root' = span_pre root hp ++ estr_list (firstn i (body_of h))
                    ++ estr_list (skipn (S i) (body_of h)) ++ span_post root hp).
Proof.
  intros G D Xi Xj _ Hij.
  pose proof (child_is_node h (SBody j) y Xj) as N.
  pose proof (nth_error_lt _ _ _ Xj) as Lj.
  destruct (serialise_update root hp h G N) as [_ U].
  split.
  - destruct (delete_is_splice root hp j h y G Xj D) as [r [Hs Hd]].
    exists r. split; [exact Hd|]. split.
    + destruct (untargeted_unchanged root hp h j 1 [] r G N (Nat.lt_le_incl _ _ Lj) Hs)
        as [_ [Hb _]].
      rewrite (Hb i [] Hij). apply (get_item _ _ _ _ _ G Xi).
    + destruct (U j 1%nat []) as [r' [Hs' He]]. rewrite Hs in Hs'. inversion Hs'; subst r'.
      rewrite He. simpl. replace (j + 1)%nat with (S j) by lia. reflexivity.
  - destruct (delete_is_splice root hp i h x G Xi D) as [r [Hs Hd]].
    exists r. split; [exact Hd|]. split.
    + assert (Li : (i <= length (body_of h))%nat) by lia.
      destruct (untargeted_unchanged root hp h i 1 [] r G N Li Hs) as [_ [_ [Ha _]]].
      assert (Hj : (i + 1 <= j)%nat) by lia.
      pose proof (Ha j [] Hj) as E. simpl in E. rewrite Nat.add_0_r in E.
      rewrite E. apply (get_item _ _ _ _ _ G Xj).
    + destruct (U i 1%nat []) as [r' [Hs' He]]. rewrite Hs in Hs'. inversion Hs'; subst r'.
      rewrite He. simpl. replace (i + 1)%nat with (S i) by lia. reflexivity.
Qed.

(* ------------------------------------------------- the reference model (C15) *)
Lemma map_abs_str l :
  Forall (fun e => ref_str (abs e) = estr e) l ->
  concat (map ref_str (map abs l)) = estr_list l.
Proof.
  induction 1 as [|x l Hx Hl IH]; [reflexivity|].
  unfold estr_list in *. simpl. rewrite Hx, IH. reflexivity.
Qed.

Lemma ref_str_abs e : ref_str (abs e) = estr e.
Proof.
  induction e as [t|s p|s|n a b p Ha Hb|n a b p Ha Hb|k b p Hb|k b p Hb|b Hb] using expr_ind';
    try reflexivity; cbn [abs ref_str].
  - rewrite (map_abs_str _ Ha), (map_abs_str _ Hb). unfold estr_list, s_backslash. simpl.
    rewrite ?app_nil_r. reflexivity.
  - rewrite (map_abs_str _ Ha), (map_abs_str _ Hb). unfold estr_list.
    cbn [concat estr]. unfold env_begin, env_end. rewrite ?app_nil_r, <- ?app_assoc. reflexivity.
  - rewrite (map_abs_str _ Hb). unfold estr_list. cbn [concat estr map].
    rewrite ?app_nil_r. reflexivity.
  - rewrite (map_abs_str _ Hb). unfold estr_list. cbn [concat estr map].
    rewrite ?app_nil_r. reflexivity.
  - rewrite (map_abs_str _ Hb). unfold estr_list. cbn [concat estr map]. 
    rewrite ?app_nil_r. reflexivity.
Qed.

Lemma abs_args e : r_args (abs e) = map abs (args_of e).
Proof. destruct e; reflexivity. Qed.
Lemma abs_body e : r_body (abs e) = map abs (body_of e).
Proof. destruct e; reflexivity. Qed.
Lemma abs_set_body e b : abs (set_body e b) = r_set_body (abs e) (map abs b).
Proof. destruct e; reflexivity. Qed.
Lemma abs_set_args e a :
  has_args e = true -> abs (set_args_of e a) = r_set_args (abs e) (map abs a).
Proof. destruct e; simpl; intros H; try discriminate; reflexivity. Qed.

Lemma map_subst_nth {A B} (f : A -> B) i x l :
  map f (subst_nth i x l) = subst_nth i (f x) (map f l).
Proof. unfold subst_nth. rewrite map_app, firstn_map, skipn_map. reflexivity. Qed.
Lemma map_splice {A B} (f : A -> B) i k new l :
  map f (splice i k new l) = splice i k (map f new) (map f l).
Proof. unfold splice. rewrite !map_app, firstn_map, skipn_map. reflexivity. Qed.

Lemma abs_child e s : r_child (abs e) s = option_map abs (child e s).
Proof.
  destruct s as [i|i]; simpl.
  - rewrite abs_args. apply nth_error_map.
  - rewrite abs_body. apply nth_error_map.
Qed.

Lemma abs_set_child e s c c' :
  child e s = Some c -> abs (set_child e s c') = r_set_child (abs e) s (abs c').
Proof.
  intros H. destruct s as [i|i]; simpl.
  - rewrite (abs_set_args e _ (child_has_args e i c H)), map_subst_nth, abs_args. reflexivity.
  - rewrite abs_set_body, map_subst_nth, abs_body. reflexivity.
Qed.

Lemma abs_get : forall p e x, get e p = Some x -> r_get (abs e) p = Some (abs x).
Proof.
  induction p as [|s p IH]; intros e x H; simpl in *.
  - inversion H; subst. reflexivity.
  - rewrite abs_child. destruct (child e s) as [c|]; [|discriminate]. simpl. apply IH. exact H.
Qed.

Lemma abs_put : forall p e x e',
  put e p x = Some e' -> r_put (abs e) p (abs x) = Some (abs e').
Proof.
  induction p as [|s p IH]; intros e x e' H; simpl in *.
  - inversion H; subst. reflexivity.
  - rewrite abs_child. destruct (child e s) as [c|] eqn:C; [|discriminate]. simpl.
    destruct (put c p x) as [c'|] eqn:Pc; [|discriminate]. inversion H; subst.
    rewrite (IH c x c' Pc), (abs_set_child e s c c' C). reflexivity.
Qed.

(* the core of the refinement: replacing the expression at p by h', where abs h' is f
   applied to the abstraction of what was there, is r_update with f *)
Lemma abs_update root p h h' root' f :
  get root p = Some h -> put root p h' = Some root' -> abs h' = f (abs h) ->
  r_update (abs root) p f = abs root'.
Proof.
  intros G P E. unfold r_update. rewrite (abs_get _ _ _ G), <- E, (abs_put _ _ _ _ P).
  reflexivity.
Qed.

Lemma abs_splice_at root p h i k new root' :
  get root p = Some h -> splice_at root p i k new = Some root' ->
  ref_step (abs root) (RSplice p i k (map abs new)) = abs root'.
Proof.
  intros G S. unfold splice_at, set_body_at in S. rewrite G in S. simpl.
  apply (abs_update root p h _ root' _ G S).
  rewrite abs_set_body, map_splice, abs_body. reflexivity.
Qed.

Lemma abs_set_body_at root p h l root' :
  get root p = Some h -> set_body_at root p l = Some root' ->
  ref_step (abs root) (RSetBody p (map abs l)) = abs root'.
Proof.
  intros G S. unfold set_body_at in S. rewrite G in S. simpl.
  apply (abs_update root p h _ root' _ G S). apply abs_set_body.
Qed.

Lemma select_map {A B} (f : A -> B) l idxs :
  select (map f l) idxs = option_map (map f) (select l idxs).
Proof.
  induction idxs as [|i r IH]; simpl; [reflexivity|].
  rewrite nth_error_map, IH.
  destruct (nth_error l i); simpl; [|reflexivity]. destruct (select l r); reflexivity.
Qed.

Lemma done_inj {A} (a b : A) : Done a = Done b -> a = b.
Proof. intros H. inversion H. reflexivity. Qed.

Lemma holder_ok_inv t hp i :
  holder_ok t hp i = true ->
  exists h x, get t hp = Some h /\ nth_error (body_of h) i = Some x /\
              arg_depth_ok hp = true.
Proof.
  unfold holder_ok. destruct (get t hp) as [h|]; [|discriminate]. intros H.
  apply andb_true_iff in H as [L D].
  apply Nat.ltb_lt in L. destruct (nth_error (body_of h) i) as [x|] eqn:X.
  - exists h, x. repeat split; assumption.
  - apply nth_error_None in X. lia.
Qed.

(* one step: the abstraction of the edited tree is the reference model after the same edit *)
Lemma apply_op_refines t o t' :
  op_ok t o = true -> apply_op t o = Done t' -> ref_step (abs t) (op_abs o) = abs t'.
Proof.
  intros OK A. destruct o as [hp i|hp i|hp i new|np i new|np new|np s|np s|np s|np idxs];
    cbn [op_ok apply_op op_abs] in *.
  - destruct (holder_ok_inv _ _ _ OK) as [h [x [G [X D]]]].
    destruct (delete_is_splice t hp i h x G X D) as [r [Hs Hd]].
    rewrite Hd in A. apply done_inj in A. subst r.
    apply (abs_splice_at t hp h i 1 [] t' G Hs).
  - apply andb_true_iff in OK as [OK E]. apply negb_true_iff in E.
    destruct (holder_ok_inv _ _ _ OK) as [h [x [G [X D]]]].
    destruct (remove_is_splice t hp i h x G X E) as [r [Hs Hd]].
    rewrite Hd in A. apply done_inj in A. subst r.
    apply (abs_splice_at t hp h i 1 [] t' G Hs).
  - apply andb_true_iff in OK as [OK Sp].
    destruct (holder_ok_inv _ _ _ OK) as [h [x [G [X D]]]]. rewrite G in Sp.
    destruct (replace_with_is_splice t hp i h x new G X Sp D) as [r [Hs Hd]].
    rewrite Hd in A. apply done_inj in A. subst r.
    apply (abs_splice_at t hp h i 1 new t' G Hs).
  - destruct (get t np) as [h|] eqn:G; [|discriminate].
    apply andb_true_iff in OK as [OK L]. apply andb_true_iff in OK as [N Sp].
    apply Nat.leb_le in L.
    destruct (insert_is_splice t np i h new G N Sp L) as [r [Hs Hd]].
    rewrite Hd in A. apply done_inj in A. subst r.
    apply (abs_splice_at t np h i 0 new t' G Hs).
  - destruct (get t np) as [h|] eqn:G; [|discriminate].
    apply andb_true_iff in OK as [N Sp].
    destruct (append_is_splice t np h new G N Sp) as [r [Hs Hd]].
    rewrite Hd in A. apply done_inj in A. subst r.
    unfold splice_at, set_body_at in Hs. rewrite G in Hs. simpl.
    apply (abs_update t np h _ t' _ G Hs).
    rewrite abs_set_body, <- splice_append, map_app, abs_body. reflexivity.
  - unfold set_name in A. destruct (get t np) as [h|] eqn:G; [|discriminate].
    destruct h; try discriminate; simpl in A; unfold put_o in A;
      match type of A with context [put t np ?x] => destruct (put t np x) as [r|] eqn:P end;
      try discriminate; apply done_inj in A; subst r;
      apply (abs_update t np _ _ t' _ G P); reflexivity.
  - unfold set_string in A. destruct (get t np) as [h|] eqn:G; [|discriminate].
    destruct h as [| | |n a b p| | | |]; try discriminate.
    destruct a as [|a0 [|a1 a]]; try discriminate.
    destruct (set_string_cmd_is_set_body t np n a0 b p s G) as [r [Hs Hd]].
    unfold set_string in Hd. rewrite G in Hd. rewrite Hd in A. apply done_inj in A. subst r.
    assert (GA : get t (np ++ [SArg 0]) = Some a0) by (rewrite get_app, G; reflexivity).
    apply (abs_set_body_at t _ a0 [text_of s] t' GA Hs).
  - unfold set_string in A. destruct (get t np) as [h|] eqn:G; [|discriminate].
    assert (R : exists h', restring h s = Done h' /\ h' = set_body h [text_of s]).
    { destruct h; try discriminate; unfold restring in *;
        (destruct (cview _) as [|[q x] [|y l]]; try discriminate);
        (destruct (is_node x); try discriminate); eexists; split; reflexivity. }
    destruct R as [h' [R E]]. rewrite R in A. simpl in A. unfold put_o in A.
    destruct (put t np h') as [r|] eqn:P; [|discriminate]. apply done_inj in A. subst r h'.
    simpl. apply (abs_update t np h _ t' _ G P). apply abs_set_body.
  - unfold set_args in A. destruct (get t np) as [h|] eqn:G; [|discriminate].
    assert (Ha : has_args h = true) by (destruct h; try discriminate; reflexivity).
    assert (R : exists a', select (args_of h) idxs = Some a' /\
                           reargs h idxs = Done (set_args_of h a')).
    { destruct h; try discriminate; unfold reargs in *; simpl;
        (destruct (nodup_nat idxs); [|discriminate]);
        (destruct (select _ idxs) as [a'|]; [|discriminate]); eexists; split; reflexivity. }
    destruct R as [a' [Sel R]]. rewrite R in A. simpl in A. unfold put_o in A.
    destruct (put t np (set_args_of h a')) as [r|] eqn:P; [|discriminate].
    apply done_inj in A. subst r. simpl.
    apply (abs_update t np h _ t' _ G P).
    unfold r_select. rewrite abs_args, select_map, Sel. simpl. apply abs_set_args. exact Ha.
Qed.

Lemma run_ops_refines : forall ops t t',
  ops_ok t ops -> run_ops t ops = Done t' ->
  abs t' = fold_left ref_step (map op_abs ops) (abs t).
Proof.
  induction ops as [|o ops IH]; intros t t' OK R; simpl in *.
  - apply done_inj in R. subst. reflexivity.
  - destruct OK as [OK1 OKr]. destruct (apply_op t o) as [t1|e|e t1] eqn:A; [|discriminate|discriminate]. simpl in R.
    rewrite (apply_op_refines t o t1 OK1 A). apply (IH t1 t' (OKr t1 eq_refl) R).
Qed.

Lemma C15_refines ops t t' :
  ops_ok t ops -> run_ops t ops = Done t' ->
  estr t' = ref_str (fold_left ref_step (map op_abs ops) (abs t)).
Proof.
  intros OK R. rewrite <- (run_ops_refines ops t t' OK R). symmetry. apply ref_str_abs.
Qed.

(* well-targeted operations do not raise *)
Lemma apply_op_total t o : op_ok t o = true -> exists t', apply_op t o = Done t'.
Proof.
  intros OK. destruct o as [hp i|hp i|hp i new|np i new|np new|np s|np s|np s|np idxs];
    cbn [op_ok apply_op] in *.
  - destruct (holder_ok_inv _ _ _ OK) as [h [x [G [X D]]]].
    destruct (delete_is_splice t hp i h x G X D) as [r [_ Hd]]. exists r. exact Hd.
  - apply andb_true_iff in OK as [OK E]. apply negb_true_iff in E.
    destruct (holder_ok_inv _ _ _ OK) as [h [x [G [X D]]]].
    destruct (remove_is_splice t hp i h x G X E) as [r [_ Hd]]. exists r. exact Hd.
  - apply andb_true_iff in OK as [OK Sp].
    destruct (holder_ok_inv _ _ _ OK) as [h [x [G [X D]]]]. rewrite G in Sp.
    destruct (replace_with_is_splice t hp i h x new G X Sp D) as [r [_ Hd]]. exists r. exact Hd.
  - destruct (get t np) as [h|] eqn:G; [|discriminate].
    apply andb_true_iff in OK as [OK L]. apply andb_true_iff in OK as [N Sp].
    apply Nat.leb_le in L.
    destruct (insert_is_splice t np i h new G N Sp L) as [r [_ Hd]]. exists r. exact Hd.
  - destruct (get t np) as [h|] eqn:G; [|discriminate].
    apply andb_true_iff in OK as [N Sp].
    destruct (append_is_splice t np h new G N Sp) as [r [_ Hd]]. exists r. exact Hd.
  - destruct (get t np) as [h|] eqn:G; [|discriminate].
    destruct h; try discriminate.
    + destruct (rename_cmd_local t np _ _ _ _ s G) as [r [Hd _]]. exists r. exact Hd.
    + destruct (rename_env_local t np _ _ _ _ s G) as [r [Hd _]]. exists r. exact Hd.
  - destruct (get t np) as [h|] eqn:G; [|discriminate].
    destruct h as [| | |n a b p| | | |]; try discriminate.
    destruct a as [|a0 [|a1 a]]; try discriminate.
    destruct (set_string_cmd_is_set_body t np n a0 b p s G) as [r [_ Hd]]. exists r. exact Hd.
  - destruct (get t np) as [h|] eqn:G; [|discriminate].
    apply andb_true_iff in OK as [E V].
    destruct (cview h) as [|[q x] [|y l]] eqn:CV; try discriminate.
    apply negb_true_iff in V.
    destruct (set_string_env_is_set_body t np h q x s G E CV V) as [r [_ Hd]]. exists r. exact Hd.
  - destruct (get t np) as [h|] eqn:G; [|discriminate].
    apply andb_true_iff in OK as [OK Sel]. apply andb_true_iff in OK as [Ha Nd].
    destruct (select (args_of h) idxs) as [a'|] eqn:Se; [|discriminate].
    destruct (set_args_local t np h idxs a' G Ha Nd Se) as [r [Hd _]]. exists r. exact Hd.
Qed.

Lemma ops_ok_run : forall ops t, ops_ok t ops -> exists t', run_ops t ops = Done t'.
Proof.
  induction ops as [|o ops IH]; intros t OK; simpl in *.
  - eexists; reflexivity.
  - destruct OK as [OK1 OKr]. destruct (apply_op_total t o OK1) as [t1 A]. rewrite A. simpl.
    apply (IH t1 (OKr t1 A)).
Qed.

Lemma ops_okb_sound : forall ops t, ops_okb t ops = true -> ops_ok t ops.
Proof.
  induction ops as [|o ops IH]; intros t H; simpl in *; [exact I|].
  apply andb_true_iff in H as [H1 H2]. split; [exact H1|].
  intros t' A. rewrite A in H2. apply IH. exact H2.
Qed.

(* ----------------------------------------------------- quirks of the faithful model *)
(* list.insert normalises every index on its own: inserting several items at a negative
   index does not put them next to each other -- it is no splice at any index *)
Lemma insert_negative_index_not_a_splice :
  exists (l new : list nat) (i : Z),
    forall k, insert_seq i new l <> splice k 0 new l.
Proof.
  exists [1; 2]%nat, [8; 9]%nat, (-1)%Z. intros k.
  destruct k as [|[|[|k]]]; vm_compute; discriminate.
Qed.

(* ------------------------------------------------------------------- examples *)
(* \a{x} mid \a{x} end *)
Definition doc_twins : str := [92; 97; 123; 120; 125; 32; 109; 105; 100; 32; 92; 97; 123; 120; 125; 32; 101; 110; 100]%N.
(* \a{\b}\c *)
Definition doc_arg : str := [92; 97; 123; 92; 98; 125; 92; 99]%N.
(* \begin{e} ab \end{e}\g{h} *)
Definition doc_env : str := [92; 98; 101; 103; 105; 110; 123; 101; 125; 32; 97; 98; 32; 92; 101; 110; 100; 123; 101; 125; 92; 103; 123; 104; 125]%N.
(* \c[o]{p}{q} *)
Definition doc_args : str := [92; 99; 91; 111; 93; 123; 112; 125; 123; 113; 125]%N.
(* \begin{itemize}\item a \c\end{itemize} *)
Definition doc_item : str := [92; 98; 101; 103; 105; 110; 123; 105; 116; 101; 109; 105; 122; 101; 125; 92; 105; 116; 101; 109; 32; 97; 32; 92; 99; 92; 101; 110; 100; 123; 105; 116; 101; 109; 105; 122; 101; 125]%N.
(* \begin{e}{x}\end{e} *)
Definition doc_envarg : str := [92; 98; 101; 103; 105; 110; 123; 101; 125; 123; 120; 125; 92; 101; 110; 100; 123; 101; 125]%N.
(* \a{x} mid  end *)
Definition s_twins_deleted : str := [92; 97; 123; 120; 125; 32; 109; 105; 100; 32; 32; 101; 110; 100]%N.
(*  mid \a{x} end *)
Definition s_twins_deleted_first : str := [32; 109; 105; 100; 32; 92; 97; 123; 120; 125; 32; 101; 110; 100]%N.
Definition s_new : str := [78; 69; 87]%N.
Definition s_ren : str := [114; 101; 110]%N.
Definition s_foo : str := [102; 111; 111]%N.
Definition s_S : str := [83]%N.
(* \begin{e}{x}S\end{e} *)
Definition s_envarg_S : str := [92; 98; 101; 103; 105; 110; 123; 101; 125; 123; 120; 125; 83; 92; 101; 110; 100; 123; 101; 125]%N.
(* \begin{ren} ab \end{ren}\g{h} *)
Definition s_renamed_env : str := [92; 98; 101; 103; 105; 110; 123; 114; 101; 110; 125; 32; 97; 98; 32; 92; 101; 110; 100; 123; 114; 101; 110; 125; 92; 103; 123; 104; 125]%N.
(* \c{q}[o] *)
Definition s_args_sel : str := [92; 99; 123; 113; 125; 91; 111; 93]%N.
(* \begin{e} ab \end{e}\g{NEW} *)
Definition s_cmd_string : str := [92; 98; 101; 103; 105; 110; 123; 101; 125; 32; 97; 98; 32; 92; 101; 110; 100; 123; 101; 125; 92; 103; 123; 78; 69; 87; 125]%N.

Definition parsed (s : str) : expr :=
  match parse s true [] with Ok r => r | Err _ => ERoot [] end.
Definition done_str (o : outcome expr) : option str :=
  match o with Done r => Some (estr r) | _ => None end.

(* C05_twins on the real parse of  \a{x} mid \a{x} end : the twins are items 0 and 2 of the
   root; deleting the second keeps the first, deleting the first keeps the second *)
Example C05_twins_example :
  let root := parsed doc_twins in
  estr root = doc_twins /\
  (exists x y, nth_error (body_of root) 0 = Some x /\ nth_error (body_of root) 2 = Some y /\
               estr x = estr y /\ x <> y /\ supports root = true) /\
  done_str (delete root [] 2) = Some s_twins_deleted /\
  done_str (delete root [] 0) = Some s_twins_deleted_first.
Proof.
  vm_compute. split; [reflexivity|]. split; [|split; reflexivity].
  eexists; eexists. repeat split; try reflexivity. discriminate.
Qed.

(* hypotheses of the span lemma / delete / replace_with / C05_twins: a node inside an
   argument group:  \b  in  \a{\b}\c  is item 0 of the group at [SBody 0; SArg 0] *)
Example position_example :
  let root := parsed doc_arg in
  exists h x, get root [SBody 0; SArg 0] = Some h /\ is_node h = true /\
              nth_error (body_of h) 0 = Some x /\ is_node x = true /\
              supports h = true /\ arg_depth_ok [SBody 0; SArg 0] = true /\
              nav_parent [SBody 0; SArg 0] = [SBody 0].
Proof. vm_compute. eexists; eexists. repeat split; reflexivity. Qed.

(* hypotheses of remove / insert / append / replace (parent given): the root of \a{\b}\c *)
Example container_example :
  let root := parsed doc_arg in
  exists h x, get root [] = Some h /\ is_node h = true /\ supports h = true /\
              nth_error (body_of h) 1 = Some x /\ ends_in_arg [] = false /\
              (2 <= length (body_of h))%nat.
Proof. vm_compute. eexists; eexists. repeat split; try reflexivity. Qed.

(* a command that is not \item refuses contents *)
Example insert_refused_example :
  let root := parsed doc_arg in
  (exists h, get root [SBody 0] = Some h /\ supports h = false) /\
  insert root [SBody 0] 0 [EStr s_S] = Raise ETypeError.
Proof. vm_compute. split; [eexists; split; reflexivity | reflexivity]. Qed.

(* rename: an environment and a command of  \begin{e} ab \end{e}\g{h} *)
Example rename_example :
  let root := parsed doc_env in
  (exists n a b p, get root [SBody 0] = Some (ENamed n a b p)) /\
  (exists n a b p, get root [SBody 1] = Some (ECmd n a b p)) /\
  done_str (set_name root [SBody 0] s_ren) = Some s_renamed_env.
Proof.
  vm_compute. split; [|split; [|reflexivity]]; eexists; eexists; eexists; eexists; reflexivity.
Qed.

(* string of a one-argument command, of a text-only environment *)
Example set_string_example :
  let root := parsed doc_env in
  (exists n a0 b p, get root [SBody 1] = Some (ECmd n [a0] b p) /\ is_node a0 = true) /\
  done_str (set_string root [SBody 1] s_new) = Some s_cmd_string /\
  (exists h q x, get root [SBody 0] = Some h /\ is_env h = true /\ cview h = [(q, x)] /\
                 is_node x = false).
Proof.
  vm_compute. split; [|split; [reflexivity|]].
  - eexists; eexists; eexists; eexists. split; reflexivity.
  - eexists; eexists; eexists. repeat split; reflexivity.
Qed.

(* arguments of \c[o]{p}{q} re-ordered / sliced to  {q}[o] *)
Example set_args_example :
  let root := parsed doc_args in
  (exists h a', get root [SBody 0] = Some h /\ has_args h = true /\
                nodup_nat [2; 0]%nat = true /\ select (args_of h) [2; 0]%nat = Some a') /\
  done_str (set_args root [SBody 0] [2; 0]%nat) = Some s_args_sel.
Proof.
  vm_compute. split; [|reflexivity]. eexists; eexists. repeat split; reflexivity.
Qed.

(* a well-targeted history on \a{x} mid \a{x} end *)
Definition example_history : list op :=
  [ ODelete [] 2;
    OInsert [] 1 [EStr s_S; ECmd s_foo [] [] (-1)];
    ORename [SBody 0] s_ren;
    OSetStringCmd [SBody 0] s_new;
    OReplaceWith [SBody 0; SArg 0] 0 [EStr s_foo];
    OAppend [] [EStr s_S];
    OSetArgs [SBody 0] [];
    ORemove [] 0 ].
Example history_example :
  ops_okb (parsed doc_twins) example_history = true /\
  (exists t', run_ops (parsed doc_twins) example_history = Done t' /\
              estr t' = [83; 92; 102; 111; 111; 32; 109; 105; 100; 32; 32; 101; 110; 100; 83]%N).
Proof. vm_compute. split; [reflexivity|]. eexists. split; reflexivity. Qed.

(* --------------------------------------------------------------------- refuted *)
(* \begin{itemize}\item\c\end{itemize} *)
Definition doc_item1 : str := [92; 98; 101; 103; 105; 110; 123; 105; 116; 101; 109; 105; 122; 101; 125; 92; 105; 116; 101; 109; 92; 99; 92; 101; 110; 100; 123; 105; 116; 101; 109; 105; 122; 101; 125]%N.
(* \begin{itemize}\foo a \end{itemize} *)
Definition s_item_renamed_deleted : str := [92; 98; 101; 103; 105; 110; 123; 105; 116; 101; 109; 105; 122; 101; 125; 92; 102; 111; 111; 32; 97; 32; 92; 101; 110; 100; 123; 105; 116; 101; 109; 105; 122; 101; 125]%N.
(* \begin{itemize}\foo\end{itemize} *)
Definition s_item1_lost : str := [92; 98; 101; 103; 105; 110; 123; 105; 116; 101; 109; 105; 122; 101; 125; 92; 102; 111; 111; 92; 101; 110; 100; 123; 105; 116; 101; 109; 105; 122; 101; 125]%N.
(* \begin{itemize}\fooS\end{itemize} *)
Definition s_item1_wanted : str := [92; 98; 101; 103; 105; 110; 123; 105; 116; 101; 109; 105; 122; 101; 125; 92; 102; 111; 111; 83; 92; 101; 110; 100; 123; 105; 116; 101; 109; 105; 122; 101; 125]%N.

(* With the repaired _supports_contents (name == 'item' or non-empty contents) a renamed
   \item keeps accepting edits of the contents it holds: rename, then delete a child, is a
   well-targeted history and agrees with the reference model.  (Before the repair the
   delete raised TypeError.) *)
Example C15_rename_item_then_delete :
  let t := parsed doc_item in
  let o1 := ORename [SBody 0; SBody 0] s_foo in
  let o2 := ODelete [SBody 0; SBody 0] 1 in
  ops_okb t [o1; o2] = true /\
  exists t1 t2 x,
    apply_op t o1 = Done t1 /\
    get t1 [SBody 0; SBody 0; SBody 1] = Some x /\ is_node x = true /\
    apply_op t1 o2 = Done t2 /\
    estr t2 = s_item_renamed_deleted /\
    ref_str (ref_step (abs t1) (op_abs o2)) = estr t2.
Proof.
  vm_compute. split; [reflexivity|]. eexists; eexists; eexists. repeat split; reflexivity.
Qed.

(* What remains false of "any sequence of edits": replace is holder.insert(holder.remove(x),
   ...).  When x is the only content of a command that is not \item (a renamed \item), the
   removal empties the command, insert's support check then raises TypeError -- after the
   child has been removed: the child is lost, the new material is not inserted, and the
   reference model (which replaces) differs. *)
Lemma C15_replace_only_child_of_renamed_item_refuted :
  exists (t t1 t2 : expr) (x : expr),
    apply_op t (ORename [SBody 0; SBody 0] s_foo) = Done t1 /\
    op_ok t (ORename [SBody 0; SBody 0] s_foo) = true /\
    get t1 [SBody 0; SBody 0; SBody 0] = Some x /\ is_node x = true /\
    apply_op t1 (OReplaceWith [SBody 0; SBody 0] 0 [EStr s_S]) = Partial ETypeError t2 /\
    estr t2 = s_item1_lost /\
    ref_str (ref_step (abs t1) (op_abs (OReplaceWith [SBody 0; SBody 0] 0 [EStr s_S])))
      = s_item1_wanted.
Proof.
  exists (parsed doc_item1). eexists; eexists; eexists.
  vm_compute. repeat split; reflexivity.
Qed.

(* C14: "assigning the string of a text-only environment changes exactly that part".
   For an environment whose only text sits in its argument, .string reads that text but
   assigning it appends a body instead, after which .string can no longer be read or
   assigned (AssertionError). *)
Lemma C14_set_string_env_argument_text_refuted :
  exists (t t1 : expr) (np : path),
    (exists h q x, get t np = Some h /\ is_env h = true /\ cview h = [(q, x)] /\
                   is_node x = false /\ body_of h = []) /\
    set_string t np s_S = Done t1 /\ estr t1 = s_envarg_S /\
    set_string t1 np s_S = Raise EAssertionError.
Proof.
  exists (parsed doc_envarg). eexists. exists [SBody 0].
  vm_compute. split; [|repeat split; reflexivity].
  eexists; eexists; eexists. repeat split; reflexivity.
Qed.

(* ------------------------------------------------ the statements of C05, assembled *)
Lemma splice_one_text root hp h i x new root' :
  get root hp = Some h -> nth_error (body_of h) i = Some x ->
  splice_at root hp i 1 new = Some root' ->
  estr root  = span_pre root hp ++ estr_list (firstn i (body_of h)) ++ estr x
                 ++ estr_list (skipn (S i) (body_of h)) ++ span_post root hp /\
  estr root' = span_pre root hp ++ estr_list (firstn i (body_of h)) ++ estr_list new
                 ++ estr_list (skipn (S i) (body_of h)) ++ span_post root hp.
Proof.
  intros G X Sp. pose proof (child_is_node h (SBody i) x X) as N.
  destruct (serialise_update root hp h G N) as [E U]. split.
  - rewrite E, (estr_list_split _ _ _ X). rewrite <- !app_assoc. reflexivity.
  - destruct (U i 1%nat new) as [r [Hs He]]. rewrite Sp in Hs. inversion Hs; subst r.
    rewrite He. replace (i + 1)%nat with (S i) by lia. reflexivity.
Qed.

Lemma splice_zero_text root np h i new root' :
  get root np = Some h -> is_node h = true ->
  splice_at root np i 0 new = Some root' ->
  estr root  = span_pre root np ++ estr_list (firstn i (body_of h))
                 ++ estr_list (skipn i (body_of h)) ++ span_post root np /\
  estr root' = span_pre root np ++ estr_list (firstn i (body_of h)) ++ estr_list new
                 ++ estr_list (skipn i (body_of h)) ++ span_post root np.
Proof.
  intros G N Sp. destruct (serialise_update root np h G N) as [E U]. split.
  - rewrite E. rewrite <- (firstn_skipn i (body_of h)) at 1. rewrite estr_list_app.
    rewrite <- !app_assoc. reflexivity.
  - destruct (U i 0%nat new) as [r [Hs He]]. rewrite Sp in Hs. inversion Hs; subst r.
    rewrite He, Nat.add_0_r. reflexivity.
Qed.

Lemma C05_delete_local root hp i h x :
  get root hp = Some h -> nth_error (body_of h) i = Some x ->
  arg_depth_ok hp = true ->
  exists root', delete root hp i = Done root' /\ splice_at root hp i 1 [] = Some root' /\
    estr root  = span_pre root hp ++ estr_list (firstn i (body_of h)) ++ estr x
                   ++ estr_list (skipn (S i) (body_of h)) ++ span_post root hp /\
    estr root' = span_pre root hp ++ estr_list (firstn i (body_of h))
                   ++ estr_list (skipn (S i) (body_of h)) ++ span_post root hp.
Proof.
  intros G X D. destruct (delete_is_splice root hp i h x G X D) as [r [Hs Hd]].
  exists r. split; [exact Hd|]. split; [exact Hs|].
  exact (splice_one_text root hp h i x [] r G X Hs).
Qed.

Lemma C05_remove_local root hp i h x :
  get root hp = Some h -> nth_error (body_of h) i = Some x ->
  ends_in_arg hp = false ->
  exists root', remove root hp i = Done root' /\ splice_at root hp i 1 [] = Some root' /\
    estr root  = span_pre root hp ++ estr_list (firstn i (body_of h)) ++ estr x
                   ++ estr_list (skipn (S i) (body_of h)) ++ span_post root hp /\
    estr root' = span_pre root hp ++ estr_list (firstn i (body_of h))
                   ++ estr_list (skipn (S i) (body_of h)) ++ span_post root hp.
Proof.
  intros G X E. destruct (remove_is_splice root hp i h x G X E) as [r [Hs Hd]].
  exists r. split; [exact Hd|]. split; [exact Hs|].
  exact (splice_one_text root hp h i x [] r G X Hs).
Qed.

Lemma C05_replace_with_local root hp i h x new :
  get root hp = Some h -> nth_error (body_of h) i = Some x ->
  supports (set_body h (splice i 1 [] (body_of h))) = true -> arg_depth_ok hp = true ->
  exists root', replace_with root hp i new = Done root' /\
    splice_at root hp i 1 new = Some root' /\
    estr root  = span_pre root hp ++ estr_list (firstn i (body_of h)) ++ estr x
                   ++ estr_list (skipn (S i) (body_of h)) ++ span_post root hp /\
    estr root' = span_pre root hp ++ estr_list (firstn i (body_of h)) ++ estr_list new
                   ++ estr_list (skipn (S i) (body_of h)) ++ span_post root hp.
Proof.
  intros G X Sp D. destruct (replace_with_is_splice root hp i h x new G X Sp D) as [r [Hs Hd]].
  exists r. split; [exact Hd|]. split; [exact Hs|].
  exact (splice_one_text root hp h i x new r G X Hs).
Qed.

Lemma C05_replace_local root pp hp i P h x new :
  get root pp = Some P -> (hp = pp \/ exists j, hp = pp ++ [SArg j]) ->
  get root hp = Some h -> nth_error (body_of h) i = Some x ->
  supports (set_body h (splice i 1 [] (body_of h))) = true ->
  exists root', replace_via root pp hp i new = Done root' /\
    splice_at root hp i 1 new = Some root' /\
    estr root  = span_pre root hp ++ estr_list (firstn i (body_of h)) ++ estr x
                   ++ estr_list (skipn (S i) (body_of h)) ++ span_post root hp /\
    estr root' = span_pre root hp ++ estr_list (firstn i (body_of h)) ++ estr_list new
                   ++ estr_list (skipn (S i) (body_of h)) ++ span_post root hp.
Proof.
  intros GP Hp G X Sp.
  destruct (replace_is_splice root pp hp i P h x new GP Hp G X Sp) as [r [Hs Hd]].
  exists r. split; [exact Hd|]. split; [exact Hs|].
  exact (splice_one_text root hp h i x new r G X Hs).
Qed.

Lemma C05_insert_local root np i h new :
  get root np = Some h -> is_node h = true -> supports h = true ->
  (i <= length (body_of h))%nat ->
  exists root', insert root np (Z.of_nat i) new = Done root' /\
    splice_at root np i 0 new = Some root' /\
    estr root  = span_pre root np ++ estr_list (firstn i (body_of h))
                   ++ estr_list (skipn i (body_of h)) ++ span_post root np /\
    estr root' = span_pre root np ++ estr_list (firstn i (body_of h)) ++ estr_list new
                   ++ estr_list (skipn i (body_of h)) ++ span_post root np.
Proof.
  intros G N Sp L. destruct (insert_is_splice root np i h new G N Sp L) as [r [Hs Hd]].
  exists r. split; [exact Hd|]. split; [exact Hs|].
  exact (splice_zero_text root np h i new r G N Hs).
Qed.

Lemma C05_append_local root np h new :
  get root np = Some h -> is_node h = true -> supports h = true ->
  exists root', append root np new = Done root' /\
    splice_at root np (length (body_of h)) 0 new = Some root' /\
    estr root  = span_pre root np ++ estr_list (body_of h) ++ span_post root np /\
    estr root' = span_pre root np ++ estr_list (body_of h) ++ estr_list new ++ span_post root np.
Proof.
  intros G N Sp. destruct (append_is_splice root np h new G N Sp) as [r [Hs Hd]].
  exists r. split; [exact Hd|]. split; [exact Hs|].
  destruct (splice_zero_text root np h _ new r G N Hs) as [_ E2].
  split; [apply serialise_body; exact G|].
  rewrite E2, firstn_all, skipn_all. rewrite estr_list_nil. reflexivity.
Qed.

(* hypotheses of untargeted_unchanged: deleting x from the first {x} of
   \a{x} mid \a{x} end  leaves the second \a{x} (a path that parts ways) as it was *)
Example untargeted_example :
  let root := parsed doc_twins in
  exists h root', get root [SBody 0; SArg 0] = Some h /\ is_node h = true /\
    (0 <= length (body_of h))%nat /\
    splice_at root [SBody 0; SArg 0] 0 1 [] = Some root' /\
    diverges [SBody 0; SArg 0] [SBody 2] = true /\
    get root' [SBody 2] = get root [SBody 2] /\ estr root' <> estr root.
Proof.
  vm_compute. eexists; eexists.
  repeat split; try reflexivity; try discriminate; apply Nat.le_0_l.
Qed.

(* hypotheses of set_string_env_noargs_local, on  \begin{e} ab \end{e}\g{h} *)
Example set_string_env_noargs_example :
  let root := parsed doc_env in
  exists h x, get root [SBody 0] = Some h /\ is_env h = true /\ args_of h = [] /\
              filter (fun c => negb (is_ws_item c)) (body_of h) = [x] /\ is_node x = false.
Proof. vm_compute. eexists; eexists. repeat split; reflexivity. Qed.

(* hypothesis of replace_with: the holder still accepts contents without the child (always
   so unless the holder is a command that is not \item with this single content) *)
Example replace_hypothesis_example :
  let root := parsed doc_arg in
  exists h x, get root [SBody 0; SArg 0] = Some h /\ nth_error (body_of h) 0 = Some x /\
              supports (set_body h (splice 0 1 [] (body_of h))) = true /\
              done_str (replace_with root [SBody 0; SArg 0] 0 [EStr s_S])
              = Some [92; 97; 123; 83; 125; 92; 99]%N.
Proof. vm_compute. eexists; eexists. repeat split; reflexivity. Qed.
