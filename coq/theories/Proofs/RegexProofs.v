(* C13, clause 3: "every match reported by search_regex carries the source
   offset at which the matched text actually occurs".

   The regular-expression engine is a Section variable [finditer]; its
   contract (the matched text is the text standing at the match's start)
   is the Section hypothesis [Hfind] of the theorems that need it.

   Route
     1. search_regex is, leaf by leaf over the string leaves of the tree in
        document order (Views.leaves = map snd (text n)), the list of
        (body, p + start) for (start, body) in finditer leaf, up to the first
        plain-str leaf that has a match, where the generator raises
        AttributeError (search_regex_leafwise).
     2. every positioned leaf [ERaw leaf p] of a freshly parsed tree is
        either the text and position of a TOKEN of the source (an EText), or
        the raw body of a verbatim-like environment: the texts of a run of
        consecutive tokens at the position of the token the run starts at
        (parsed_leaf_cases, from NodeProofs.parse_tokens_nodes).
     3. a token is the slice of the source at its position, unconditionally
        (TokProofs.token_slices); a run of consecutive tokens is, when the
        source has no NUL / DEL character (NodeProofs.tokens_run_slice).
     4. slices compose (slice_compose). *)
From Coq Require Import List NArith ZArith Bool Lia Arith.
From TexModel Require Import Base Tables Chars Tokenizer Tree Reader Views Regex.
From TexProofs Require Import TokProofs ReaderLen ReaderCons ConsTop StructProofs ConsBridge
     NodeProofs ViewsProofs.
Import ListNotations.

(* ------------------------------------------------------------ list facts *)

Lemma firstn_skipn_firstn {A} m a n (X : list A) :
  (m <= n - a)%nat -> firstn m (skipn a (firstn n X)) = firstn m (skipn a X).
Proof.
  intro H. rewrite skipn_firstn_comm, firstn_firstn. rewrite Nat.min_l by exact H. reflexivity.
Qed.

Lemma skipn_skipn {A} x y (l : list A) : skipn x (skipn y l) = skipn (x + y) l.
Proof.
  revert l. induction y as [|y IH]; intro l.
  - rewrite Nat.add_0_r. reflexivity.
  - rewrite Nat.add_succ_r. destruct l as [|a l]; [rewrite !skipn_nil; reflexivity|].
    cbn [skipn]. apply IH.
Qed.

(* slices compose: a piece of a slice is a slice *)
Lemma slice_compose (s leaf body : str) (p : Z) (start : nat) :
  (0 <= p)%Z -> slice s p (length leaf) = leaf ->
  firstn (length body) (skipn start leaf) = body ->
  slice s (p + Z.of_nat start) (length body) = body.
Proof.
  intros Hp Hl Hb.
  assert (Hlen : (length body <= length leaf - start)%nat).
  { pose proof (f_equal (@length N) Hb) as L. rewrite firstn_length, skipn_length in L. lia. }
  unfold slice in *. rewrite <- Hl in Hb.
  rewrite firstn_skipn_firstn in Hb by exact Hlen.
  rewrite skipn_skipn in Hb.
  replace (Z.to_nat (p + Z.of_nat start)) with (start + Z.to_nat p)%nat by lia.
  exact Hb.
Qed.

(* ------------------------------------------------ token positions are >= 0 *)

Lemma Part_pos_nonneg p cs toks :
  Part p cs toks -> (0 <= p)%Z -> Forall (fun t => (0 <= tpos t)%Z) toks.
Proof.
  induction 1 as [p|p sk cs toks Hne Hall P IH|p body cs t toks Hne Ht Hpos P IH]; intro Hp.
  - constructor.
  - apply IH. lia.
  - constructor; [lia | apply IH; lia].
Qed.

Lemma token_positions_nonneg (s : str) toks e :
  tokens_of_string s = (toks, e) -> Forall (fun t => (0 <= tpos t)%Z) toks.
Proof.
  intro H. destruct (tokenize_partition s) as (toks' & E & P). rewrite E in H.
  inversion H; subst. eapply Part_pos_nonneg; [exact P | lia].
Qed.

(* ----------------------------------- where a string leaf of a tree comes from *)

(* x, an element of [leaves e], is the (text, position) of a TexText below e,
   or a bare Token / plain str standing in the body of a node of e *)
Definition Origin (e x : expr) : Prop :=
  (exists c, x = ERaw (ttext c) (tpos c) /\ sub (EText c) e) \/
  (exists s p, x = ERaw s p /\ item_in (ERaw s p) e) \/
  (exists s, x = EStr s /\ item_in (EStr s) e).

Lemma item_in_child x c e : item_in x c -> child c e -> item_in x e.
Proof.
  intros (p & Hp & Hin) Hc. exists p. split; [eapply sub_step; eassumption | exact Hin].
Qed.

Lemma Origin_child c e x : child c e -> Origin c x -> Origin e x.
Proof.
  intros Hc [(t & -> & Hs)|[(s & p & -> & Hi)|(s & -> & Hi)]].
  - left. exists t. split; [reflexivity | eapply sub_step; eassumption].
  - right; left. exists s, p. split; [reflexivity | eapply item_in_child; eassumption].
  - right; right. exists s. split; [reflexivity | eapply item_in_child; eassumption].
Qed.

Lemma leaf_item_origin e x0 x :
  In x0 (ebody e) -> (forall y, In y (leaves x0) -> Origin x0 y) ->
  In x (leaf_item x0) -> Origin e x.
Proof.
  intros Hb IH Hx.
  assert (Hc : child x0 e) by (left; exact Hb).
  (* for a node, and for a TexText (leaf_item and leaves agree on it), the
     leaf comes from below x0 *)
  destruct x0 as [t|s p|s|n a b p|n a b p|k b p|k b p|b]; cbn [leaf_item] in Hx;
    try (eapply Origin_child; [exact Hc | apply IH; exact Hx]).
  - destruct (str_isspace s); [contradiction|]. destruct Hx as [<-|[]].
    right; left. exists s, p. split; [reflexivity|]. exists e. split; [apply sub_refl | exact Hb].
  - destruct (str_isspace s); [contradiction|]. destruct Hx as [<-|[]].
    right; right. exists s. split; [reflexivity|]. exists e. split; [apply sub_refl | exact Hb].
Qed.

Lemma leaves_origin e : forall x, In x (leaves e) -> Origin e x.
Proof.
  induction e as [t|s p|s|n a b p IHa IHb|n a b p IHa IHb|k b p IHb|k b p IHb|b IHb]
    using expr_ind'; intros x Hx; rewrite leaves_eq in Hx.
  - destruct (str_isspace (ttext t)); [contradiction|]. destruct Hx as [<-|[]].
    left. exists t. split; [reflexivity | apply sub_refl].
  - contradiction.
  - contradiction.
  - rewrite Forall_forall in IHa, IHb.
    apply in_app_or in Hx. destruct Hx as [Hx|Hx]; apply in_flat_map in Hx;
      destruct Hx as (y & Hy & Hx).
    + eapply Origin_child; [right; exact Hy | apply IHa; assumption].
    + eapply leaf_item_origin; [exact Hy | apply IHb; exact Hy | exact Hx].
  - rewrite Forall_forall in IHa, IHb.
    apply in_app_or in Hx. destruct Hx as [Hx|Hx]; apply in_flat_map in Hx;
      destruct Hx as (y & Hy & Hx).
    + eapply Origin_child; [right; exact Hy | apply IHa; assumption].
    + eapply leaf_item_origin; [exact Hy | apply IHb; exact Hy | exact Hx].
  - rewrite Forall_forall in IHb. apply in_flat_map in Hx. destruct Hx as (y & Hy & Hx).
    eapply leaf_item_origin; [exact Hy | apply IHb; exact Hy | exact Hx].
  - rewrite Forall_forall in IHb. apply in_flat_map in Hx. destruct Hx as (y & Hy & Hx).
    eapply leaf_item_origin; [exact Hy | apply IHb; exact Hy | exact Hx].
  - rewrite Forall_forall in IHb. apply in_flat_map in Hx. destruct Hx as (y & Hy & Hx).
    eapply leaf_item_origin; [exact Hy | apply IHb; exact Hy | exact Hx].
Qed.

(* an item of `text` is a Token or a plain str *)
Definition str_leaf (x : expr) : Prop := (exists s p, x = ERaw s p) \/ (exists s, x = EStr s).

Lemma leaves_strings e x : In x (leaves e) -> str_leaf x.
Proof.
  intro H. apply leaves_origin in H.
  destruct H as [(c & -> & _)|[(s & p & -> & _)|(s & -> & _)]]; [left | left | right]; eauto.
Qed.

Lemma text_items_are_strings n it : In it (text n) -> str_leaf (snd it).
Proof.
  intro H. apply (leaves_strings (snd n)).
  rewrite <- (proj1 (text_is_leaves_in_order n)). apply in_map. exact H.
Qed.

(* ================================================================== *)
Section RegexFacts.
Variable finditer : str -> list (nat * str).

(* the matches a leaf contributes: (body, position of the leaf + start) for
   every (start, body) the engine finds in it *)
Definition leaf_hits (x : expr) : list res_match :=
  match x with
  | ERaw s p => map (fun m => (snd m, Some (p + Z.of_nat (fst m))%Z)) (finditer s)
  | _ => []
  end.

Lemma search_strs_spec l :
  Forall str_leaf l ->
  (exists pre s post, l = pre ++ EStr s :: post /\ finditer s <> [] /\
     (forall s', In (EStr s') pre -> finditer s' = []) /\
     search_strs finditer l = (flat_map leaf_hits pre, Some AttributeError)) \/
  ((forall s, In (EStr s) l -> finditer s = []) /\
   search_strs finditer l = (flat_map leaf_hits l, None)).
Proof.
  induction 1 as [|x l Hx Hl IH].
  - right. split; [intros s []|reflexivity].
  - destruct Hx as [(s & p & ->)|(s & ->)].
    + cbn [search_strs leaf_matches].
      destruct IH as [(pre & s' & post & -> & Hne & Hpre & E)|[Hall E]].
      * left. exists (ERaw s p :: pre), s', post. split; [reflexivity|]. split; [exact Hne|].
        split.
        -- intros s0 [H0|H0]; [discriminate H0 | apply Hpre; exact H0].
        -- rewrite E. reflexivity.
      * right. split.
        -- intros s0 [H0|H0]; [discriminate H0 | apply Hall; exact H0].
        -- rewrite E. reflexivity.
    + cbn [search_strs leaf_matches]. destruct (finditer s) as [|m ms] eqn:Ef.
      * destruct IH as [(pre & s' & post & -> & Hne & Hpre & E)|[Hall E]].
        -- left. exists (EStr s :: pre), s', post. split; [reflexivity|]. split; [exact Hne|].
           split.
           ++ intros s0 [H0|H0]; [inversion H0; subst s0; exact Ef | apply Hpre; exact H0].
           ++ rewrite E. reflexivity.
        -- right. split.
           ++ intros s0 [H0|H0]; [inversion H0; subst s0; exact Ef | apply Hall; exact H0].
           ++ rewrite E. reflexivity.
      * left. exists [], s, l. split; [reflexivity|]. split; [rewrite Ef; discriminate|].
        split; [intros s' []|reflexivity].
Qed.

(* C13.3, step 1 (needs no contract): the reported matches are exactly, leaf
   by leaf over the string leaves of the tree in document order, the
   engine's matches shifted by the leaf's position; the generator stops with
   AttributeError at the first plain-str leaf in which the engine finds
   something, and not otherwise *)
Theorem search_regex_leafwise n :
  (exists pre s post, leaves (snd n) = pre ++ EStr s :: post /\ finditer s <> [] /\
     (forall s', In (EStr s') pre -> finditer s' = []) /\
     search_regex finditer n = (flat_map leaf_hits pre, Some AttributeError)) \/
  ((forall s, In (EStr s) (leaves (snd n)) -> finditer s = []) /\
   search_regex finditer n = (flat_map leaf_hits (leaves (snd n)), None)).
Proof.
  unfold search_regex. rewrite (proj1 (text_is_leaves_in_order n)).
  apply search_strs_spec. apply Forall_forall. intros x Hx. eapply leaves_strings. exact Hx.
Qed.

Lemma leaf_hits_in x body q :
  In (body, Some q) (leaf_hits x) ->
  exists leaf p start, x = ERaw leaf p /\ In (start, body) (finditer leaf) /\
                       q = (p + Z.of_nat start)%Z.
Proof.
  destruct x as [t|s p|s|n a b p|n a b p|k b p|k b p|b]; cbn [leaf_hits]; try contradiction.
  intro H. apply in_map_iff in H. destruct H as ([st bd] & Heq & Hin). cbn [fst snd] in Heq.
  inversion Heq; subst. exists s, p, st. auto.
Qed.

(* every reported match comes from a positioned leaf of the tree *)
Lemma search_regex_provenance n body q :
  In (body, Some q) (fst (search_regex finditer n)) ->
  exists leaf p start, In (ERaw leaf p) (leaves (snd n)) /\
    In (start, body) (finditer leaf) /\ q = (p + Z.of_nat start)%Z.
Proof.
  intro H.
  destruct (search_regex_leafwise n) as [(pre & s & post & El & _ & _ & E)|[_ E]];
    rewrite E in H; cbn [fst] in H; apply in_flat_map in H; destruct H as (x & Hx & Hm);
    apply leaf_hits_in in Hm; destruct Hm as (leaf & p & st & -> & Hin & ->);
    exists leaf, p, st; repeat split; auto.
  rewrite El. apply in_or_app. left. exact Hx.
Qed.

(* every reported position is present (Token(body, int)) *)
Lemma search_regex_positions_present n body o :
  In (body, o) (fst (search_regex finditer n)) -> exists q, o = Some q.
Proof.
  intro H.
  destruct (search_regex_leafwise n) as [(pre & s & post & El & _ & _ & E)|[_ E]];
    rewrite E in H; cbn [fst] in H; apply in_flat_map in H; destruct H as (x & Hx & Hm);
    (destruct x as [t|s0 p|s0|n0 a b p|n0 a b p|k b p|k b p|b]; cbn [leaf_hits] in Hm;
     try contradiction; apply in_map_iff in Hm; destruct Hm as (m & Heq & _);
     inversion Heq; eauto).
Qed.

(* no bare-token argument anywhere in the tree: the generator never raises *)
Theorem search_regex_no_error n :
  nobare (snd n) = true ->
  search_regex finditer n = (flat_map leaf_hits (leaves (snd n)), None).
Proof.
  intro Hn.
  destruct (search_regex_leafwise n) as [(pre & s & post & El & _ & _ & _)|[_ E]]; [|exact E].
  exfalso.
  assert (Hin : In (EStr s) (leaves (snd n))).
  { rewrite El. apply in_or_app. right. left. reflexivity. }
  apply leaves_origin in Hin.
  destruct Hin as [(c & Hc & _)|[(s0 & p & Hc & _)|(s0 & Hc & Hi)]]; try discriminate Hc.
  inversion Hc; subst s0. apply item_in_sub in Hi.
  pose proof (nobare_sub _ _ Hi Hn) as Hb. discriminate Hb.
Qed.

(* -------------------------------------------------- freshly parsed trees *)

Lemma parse_tokens_root toks strict user t :
  parse_tokens toks strict user = Ok t -> exists b, t = ERoot b.
Proof.
  intro H. unfold parse_tokens in H. apply bind_ok in H. destruct H as (b & _ & H).
  inversion H. eauto.
Qed.

(* step 2: a positioned string leaf of a parsed tree is a token of the
   source (text and position), or the raw body of a verbatim-like
   environment *)
Lemma parsed_leaf_cases toks strict user t leaf p :
  parse_tokens toks strict user = Ok t -> In (ERaw leaf p) (leaves t) ->
  (exists c, In c toks /\ leaf = ttext c /\ p = tpos c) \/
  (RawItem toks (ERaw leaf p) /\ item_in (ERaw leaf p) t).
Proof.
  intros H Hin. pose proof (parse_tokens_root _ _ _ _ H) as (b & Et).
  apply parse_tokens_nodes in H. destruct H as [Hi Ha].
  apply leaves_origin in Hin.
  destruct Hin as [(c & Hc & Hs)|[(s0 & p0 & Hc & Hit)|(s0 & Hc & _)]]; [| |discriminate Hc].
  - inversion Hc; subst leaf p. left. exists c. split; [|split; reflexivity].
    apply sub_cases in Hs. destruct Hs as [Hs|[Hs|Hs]].
    + rewrite Et in Hs. discriminate Hs.
    + apply Hi in Hs. destruct Hs as [Hs|[Hs|Hs]].
      * destruct Hs as (f & skip & st & m & t' & rest & (pre & ->) & _ & _ & Hs).
        destruct t' as [|c' src]; [exfalso; eapply read_expr_nonempty; exact Hs|].
        apply read_expr_shape in Hs.
        destruct (math_kind_of_begin (tcat c')) as [k|].
        { destruct Hs as (bd & Hs). discriminate Hs. }
        destruct (is_tc TEscape c').
        { destruct Hs as [(n0 & a0 & b0 & Hs)|(n0 & a0 & b0 & Hs)]; discriminate Hs. }
        destruct (is_tc TGroupBegin c').
        { destruct Hs as (k & bd & Hs). discriminate Hs. }
        destruct Hs as [Hs _]. inversion Hs; subst c'.
        apply in_or_app. right. left. reflexivity.
      * destruct Hs as (a0 & pre & b0 & c0 & _ & _ & Hs). discriminate Hs.
      * destruct Hs as (c0 & _ & Hs). discriminate Hs.
    + apply Ha in Hs. destruct Hs as [Hs|[Hs|Hs]].
      * destruct Hs as (f & c0 & st & m & t' & rest & pre & _ & _ & Hs).
        apply arg_shape in Hs. destruct Hs as (k & bd & _ & Hs). discriminate Hs.
      * destruct Hs as (c0 & _ & Hs). discriminate Hs.
      * destruct Hs as (n0 & c0 & _ & _ & Hs). discriminate Hs.
  - inversion Hc; subst s0 p0. right. split; [|exact Hit].
    destruct (Hi _ Hit) as [Hs|[Hs|Hs]].
    + exfalso. destruct Hs as (f & skip & st & m & t' & rest & (pre & ->) & _ & _ & Hs).
      destruct t' as [|c' src]; [eapply read_expr_nonempty; exact Hs|].
      apply read_expr_shape in Hs.
      destruct (math_kind_of_begin (tcat c')) as [k|].
      { destruct Hs as (bd & Hs). discriminate Hs. }
      destruct (is_tc TEscape c').
      { destruct Hs as [(n0 & a0 & b0 & Hs)|(n0 & a0 & b0 & Hs)]; discriminate Hs. }
      destruct (is_tc TGroupBegin c').
      { destruct Hs as (k & bd & Hs). discriminate Hs. }
      destruct Hs as [Hs _]. discriminate Hs.
    + exact Hs.
    + destruct Hs as (c0 & _ & Hs). discriminate Hs.
Qed.

(* ---------------------------------------------- the offsets of the matches *)

Hypothesis Hfind : forall leaf start body,
  In (start, body) (finditer leaf) -> firstn (length body) (skipn start leaf) = body.

(* a match found inside a leaf that is the slice of the source at the leaf's
   position is itself the slice of the source at the reported offset *)
Lemma match_in_slice (s leaf body : str) p start :
  (0 <= p)%Z -> slice s p (length leaf) = leaf -> In (start, body) (finditer leaf) ->
  (0 <= p + Z.of_nat start)%Z /\ slice s (p + Z.of_nat start) (length body) = body.
Proof.
  intros Hp Hl Hin. split; [lia|]. eapply slice_compose; [exact Hp | exact Hl |].
  apply Hfind. exact Hin.
Qed.

(* C13.3, UNCONDITIONAL (any source, strict or tolerant, any user skip list;
   no hygiene hypothesis): every reported match either occurs in the source
   at the reported offset, or was found inside the raw body of a
   verbatim-like environment *)
Theorem search_regex_offsets_tokens (s : str) strict user t :
  parse s strict user = Ok t ->
  forall body q, In (body, Some q) (fst (search_regex finditer ([], t))) ->
    ((0 <= q)%Z /\ slice s q (length body) = body) \/
    (exists raw p start, item_in (ERaw raw p) t /\ In (start, body) (finditer raw) /\
                         q = (p + Z.of_nat start)%Z).
Proof.
  intros H body q Hm. apply parse_unfold in H. destruct H as (toks & Et & H).
  apply search_regex_provenance in Hm. cbn [snd] in Hm.
  destruct Hm as (leaf & p & st & Hl & Hin & ->).
  destruct (parsed_leaf_cases _ _ _ _ _ _ H Hl) as [(c & Hc & -> & ->)|[_ Hit]].
  - left. apply match_in_slice with (leaf := ttext c); [| |exact Hin].
    + exact (Forall_In _ _ _ (token_positions_nonneg _ _ _ Et) Hc).
    + exact (Forall_In _ _ _ (token_slices _ _ _ Et) Hc).
  - right. exists leaf, p, st. auto.
Qed.

(* C13.3 in full, for a source without NUL / DEL characters (the characters
   the tokenizer drops): EVERY reported match occurs in the source at the
   reported offset.  Any mode, any user skip list; none of the round-trip
   hygiene hypotheses of node_slices is needed, because a string leaf is a
   token or a run of consecutive tokens -- never a re-serialised node. *)
Theorem search_regex_offsets (s : str) strict user t :
  parse s strict user = Ok t ->
  Forall (fun c => ign c = false) (categorize s) ->
  forall body q, In (body, Some q) (fst (search_regex finditer ([], t))) ->
    (0 <= q)%Z /\ slice s q (length body) = body.
Proof.
  intros H Hign body q Hm. apply parse_unfold in H. destruct H as (toks & Et & H).
  apply search_regex_provenance in Hm. cbn [snd] in Hm.
  destruct Hm as (leaf & p & st & Hl & Hin & ->).
  destruct (parsed_leaf_cases _ _ _ _ _ _ H Hl) as [(c & Hc & -> & ->)|[Hraw _]].
  - apply match_in_slice with (leaf := ttext c); [| |exact Hin].
    + exact (Forall_In _ _ _ (token_positions_nonneg _ _ _ Et) Hc).
    + exact (Forall_In _ _ _ (token_slices _ _ _ Et) Hc).
  - destruct Hraw as (a & pre & b & c & Etoks & Hh & Hx). inversion Hx; subst leaf p.
    apply match_in_slice with (leaf := texts pre); [| |exact Hin].
    + assert (Hc : In c toks).
      { rewrite Etoks. apply in_or_app. right. apply head_In. exact Hh. }
      exact (Forall_In _ _ _ (token_positions_nonneg _ _ _ Et) Hc).
    + symmetry. eapply tokens_run_slice; eassumption.
Qed.

(* the statement asked for: under the hypotheses of node_slices *)
Corollary search_regex_offsets_hyp (s : str) user t :
  parse s true user = Ok t ->
  hypb (all_skip user) (fst (tokens_of_string s)) = true ->
  nobare t = true ->
  no_arg_spacer (fst (tokens_of_string s)) = true ->
  Forall (fun c => ign c = false) (categorize s) ->
  snd (search_regex finditer ([], t)) = None /\
  forall body q, In (body, Some q) (fst (search_regex finditer ([], t))) ->
    (0 <= q)%Z /\ slice s q (length body) = body.
Proof.
  intros H _ Hn _ Hign. split.
  - rewrite (search_regex_no_error ([], t) Hn). reflexivity.
  - eapply search_regex_offsets; eassumption.
Qed.

End RegexFacts.

(* ================================================================== *)
(* the concrete engine of the harness satisfies the contract *)

Lemma starts_with_firstn (p s : str) : starts_with s p = true -> firstn (length p) s = p.
Proof.
  revert s. induction p as [|y p IH]; intros s H; [reflexivity|].
  destruct s as [|x s]; [discriminate H|]. cbn [starts_with] in H.
  apply andb_true_iff in H. destruct H as [H1 H2]. apply N.eqb_eq in H1. subst y.
  cbn [length firstn]. f_equal. apply IH. exact H2.
Qed.

Lemma find_lit_contract pat : forall s skip i start body,
  In (start, body) (find_lit pat skip i s) ->
  (i <= start)%nat /\ firstn (length body) (skipn (start - i) s) = body.
Proof.
  induction s as [|c s IH]; intros skip i start body H.
  - cbn [find_lit] in H. destruct skip; [|contradiction]. destruct pat; [|contradiction].
    destruct H as [H|[]]. inversion H; subst. split; [lia | reflexivity].
  - cbn [find_lit] in H. destruct skip as [|k].
    + destruct (starts_with (c :: s) pat) eqn:Es.
      * destruct H as [H|H].
        -- inversion H; subst. split; [lia|]. rewrite Nat.sub_diag. cbn [skipn].
           apply starts_with_firstn. exact Es.
        -- apply IH in H. destruct H as [H1 H2]. split; [lia|].
           replace (start - i)%nat with (S (start - S i)) by lia. exact H2.
      * apply IH in H. destruct H as [H1 H2]. split; [lia|].
        replace (start - i)%nat with (S (start - S i)) by lia. exact H2.
    + apply IH in H. destruct H as [H1 H2]. split; [lia|].
      replace (start - i)%nat with (S (start - S i)) by lia. exact H2.
Qed.

Theorem find_literal_contract pat leaf start body :
  In (start, body) (find_literal pat leaf) ->
  firstn (length body) (skipn start leaf) = body.
Proof.
  intro H. apply find_lit_contract in H. destruct H as [_ H].
  rewrite Nat.sub_0_r in H. exact H.
Qed.

(* every match of the literal engine is the pattern *)
Lemma find_lit_body pat : forall s skip i start body,
  In (start, body) (find_lit pat skip i s) -> body = pat.
Proof.
  induction s as [|c s IH]; intros skip i start body H; cbn [find_lit] in H.
  - destruct skip; [|contradiction]. destruct pat; [|contradiction].
    destruct H as [H|[]]. inversion H; reflexivity.
  - destruct skip as [|k]; [|eapply IH; exact H].
    destruct (starts_with (c :: s) pat); [|eapply IH; exact H].
    destruct H as [H|H]; [inversion H; reflexivity | eapply IH; exact H].
Qed.

(* ================================================================== *)
(* witnesses, examples *)

(* `a \textbf b`: the bare-token argument holds a plain str; search_regex("b")
   raises AttributeError (same on the code) -- "search_regex reports every
   match" is false outside the no-bare-argument grammar *)
Example search_regex_total_refuted :
  exists (s : str) t,
    parse s true [] = Ok t /\
    search_regex (find_literal [98]%N) ([], t) = ([], Some AttributeError).
Proof.
  exists [97; 32; 92; 116; 101; 120; 116; 98; 102; 32; 98]%N. eexists.
  split; vm_compute; reflexivity.
Qed.

(* ... but only if the engine finds something in the plain str: "zz" in the
   same document ends normally (node.position is evaluated per match) *)
Example search_regex_plain_str_without_match :
  exists t,
    parse [97; 32; 92; 116; 101; 120; 116; 98; 102; 32; 98]%N true [] = Ok t /\
    search_regex (find_literal [122; 122]%N) ([], t) = ([], None) /\
    search_regex (find_literal [97]%N) ([], t) = ([([97]%N, Some 0%Z)], None).
Proof. eexists. do 2 (split; [vm_compute; reflexivity|]). vm_compute. reflexivity. Qed.

(* the NUL/DEL hypothesis of search_regex_offsets is needed, and only for raw
   verbatim bodies: in  \begin{verbatim}}<DEL>b\end{verbatim}  the body is
   the Token "}b" at 16 (the tokenizer drops the DEL between the tokens `}`
   and `b`); search_regex("b") reports offset 17, where the source has DEL.
   Same on the code. *)
Example search_regex_offsets_raw_body_refuted :
  exists (s : str) t body q,
    parse s true [] = Ok t /\
    In (body, Some q) (fst (search_regex (find_literal [98]%N) ([], t))) /\
    slice s q (length body) <> body.
Proof.
  exists [92; 98; 101; 103; 105; 110; 123; 118; 101; 114; 98; 97; 116; 105; 109; 125;
          125; 127; 98;
          92; 101; 110; 100; 123; 118; 101; 114; 98; 97; 116; 105; 109; 125]%N.
  eexists. exists [98]%N, 17%Z.
  split; [vm_compute; reflexivity|]. split; [vm_compute; left; reflexivity|].
  vm_compute. discriminate.
Qed.

(* ab \begin{verbatim} ab $x$ab\end{verbatim} abab aba *)
Definition doc_regex : str :=
  [97; 98; 32; 92; 98; 101; 103; 105; 110; 123; 118; 101; 114; 98; 97; 116; 105; 109; 125;
   32; 97; 98; 32; 36; 120; 36; 97; 98; 92; 101; 110; 100; 123; 118; 101; 114; 98; 97; 116;
   105; 109; 125; 32; 97; 98; 97; 98; 32; 97; 98; 97]%N.

(* non-vacuity of search_regex_offsets / _hyp: the document satisfies every
   hypothesis; "ab" is found 6 times (text tokens and a verbatim body),
   "aba" twice (non-overlapping, leftmost), at these offsets -- the same the
   code reports *)
Example search_regex_example :
  exists t, parse doc_regex true [] = Ok t /\
    hypb (all_skip []) (fst (tokens_of_string doc_regex)) = true /\
    nobare t = true /\ no_arg_spacer (fst (tokens_of_string doc_regex)) = true /\
    forallb (fun c => negb (ign c)) (categorize doc_regex) = true /\
    search_regex (find_literal [97; 98]%N) ([], t) =
      (map (fun q => ([97; 98]%N, Some q)) [0; 20; 26; 43; 45; 48]%Z, None) /\
    search_regex (find_literal [97; 98; 97]%N) ([], t) =
      (map (fun q => ([97; 98; 97]%N, Some q)) [43; 48]%Z, None) /\
    forallb (fun m => match snd m with
                      | Some q => str_eqb (slice doc_regex q (length (fst m))) (fst m)
                      | None => false
                      end)
            (fst (search_regex (find_literal [97; 98]%N) ([], t))) = true.
Proof.
  eexists. do 7 (split; [vm_compute; reflexivity|]). vm_compute. reflexivity.
Qed.

(* the empty pattern matches once at every offset of every leaf *)
Example find_literal_empty :
  find_literal [] [97; 98]%N = [(0, []); (1, []); (2, [])]%nat /\
  find_literal [97; 97]%N [97; 97; 97; 97; 97]%N = [(0, [97; 97]%N); (2, [97; 97]%N)]%nat.
Proof. split; vm_compute; reflexivity. Qed.

(* run_regex on `a \textbf b` / "b" and on `ab ab` / "ab" *)
Example run_regex_examples :
  run_regex ([1; 1; 98] ++ [97; 32; 92; 116; 101; 120; 116; 98; 102; 32; 98])%Z = [0; 1]%Z /\
  run_regex ([1; 2; 97; 98] ++ [97; 98; 32; 97; 98])%Z
    = [2; 2; 97; 98; 1; 0; 2; 97; 98; 1; 3; 0]%Z.
Proof. split; vm_compute; reflexivity. Qed.
