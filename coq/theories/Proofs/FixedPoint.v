(* C16, general case: the serialised output is a fixed point of the parser.

   Stage 1  token level ("drop-run", `fp_all_holds`, one mutual induction
            mirroring ReaderCons.CP).  A successful strict run on `toks`
            determines `kept` (toks minus the argument spacers the run dropped)
            with  estr v = texts kept,  such that
              det   EVERY successful run of the same reader function on `kept`,
                    at any fuel, returns the same value and the same rest;
              succ  on the fragment `frag` (shallow look-ahead peeks) the run on
                    `kept` SUCCEEDS, with the same fuel;
              KeptJ every dropped spacer stood in argument position (after a
                    group closer or after a command name).
            Top level: `parse_tokens_drop_run`.
   Stage 2  position insensitivity: the reader commutes with erasing token
            positions (`ze_all_holds`), hence token lists that agree on text
            and category give trees that agree up to positions
            (`parse_tokens_pos_sim`).
   Stage 3  assembly with TOKINV (TokInverse.v): `C16_retokenize`,
            `C16_fixed_point` (on `frag`), `C16_reparse_outcome` (everywhere:
            the second parse gives the same tree or raises a diagnostic error).

   The second run reads `kept ++ Y` where Y is the (already reduced)
   continuation; what the first run saw of its own continuation `rest` and what
   the second run sees of Y are related by LK (first token, command name after
   an Escape, first token after an optional spacer) and, for the peeks of
   read_item_loop, by PV (the peek views `pvk` agree).

   What is NOT proved: that outside `frag` the second run cannot fail.  It
   follows the first one branch by branch; the only places where it could leave
   it are the look-ahead peeks of read_item_loop / read_env_loop (a whole command
   is read ahead and must not raise), which in the second run range over tokens
   whose spacers were dropped by a DIFFERENT (the actual, later) run.  `frag`
   makes those peeks shallow (they read no argument, or exactly one simple
   group), so that they can be computed. *)
From Coq Require Import List NArith ZArith Bool Lia.
From TexModel Require Import Base Tables Chars Tokenizer Tree Reader.
From TexProofs Require Import ReaderLen ReaderTotal ReaderCons ConsTop ConsBridge.
From TexProofs Require TokInverse.
Import ListNotations.

(* ====================================================================== *)
(* Stage 1: the drop-run lemma                                             *)
(* ====================================================================== *)

(* ------------------------------------------------ look-ahead equivalence *)

Definition hdc (l : list token) : option tc := option_map tcat (hd_error l).

(* what read_arg_optional / read_arg_required see of the continuation *)
Definition LKs (a b : list token) : Prop := hdc (after_spacer a) = hdc (after_spacer b).

(* what the loops and read_args see of the continuation: the first token, the
   token after an Escape (the command name the peeks compare), and LKs *)
Definition LK (a b : list token) : Prop :=
  hd_error a = hd_error b /\
  (forall x, hd_error a = Some x -> is_tc TEscape x = true -> hd_error (tl a) = hd_error (tl b)) /\
  LKs a b.

Definition LKP (used kept : list token) : Prop :=
  forall rest Y, LK rest Y -> LK (used ++ rest) (kept ++ Y).
Definition LKU (used kept : list token) : Prop :=
  forall rest Y : list token, LK (used ++ rest) (kept ++ Y).
Definition LKsP (used kept : list token) : Prop :=
  forall rest Y, LKs rest Y -> LKs (used ++ rest) (kept ++ Y).

Lemma LK_nil : LK [] [].
Proof. repeat split. Qed.

Lemma LK_LKs a b : LK a b -> LKs a b.
Proof. intros (_ & _ & H). exact H. Qed.

Lemma LK_nil_inv Y : LK [] Y -> Y = [].
Proof. intros (H & _). destruct Y; [reflexivity | discriminate H]. Qed.

Lemma LKP_nil : LKP [] [].
Proof. intros r Y H. exact H. Qed.

Lemma LKsP_nil : LKsP [] [].
Proof. intros r Y H. exact H. Qed.

Lemma LKP_app u1 k1 u2 k2 : LKP u1 k1 -> LKP u2 k2 -> LKP (u1 ++ u2) (k1 ++ k2).
Proof. intros H1 H2 r Y H. rewrite <- !app_assoc. apply H1, H2, H. Qed.

Lemma LKP_LKU_app u1 k1 u2 k2 : LKP u1 k1 -> LKU u2 k2 -> LKU (u1 ++ u2) (k1 ++ k2).
Proof. intros H1 H2 r Y. rewrite <- !app_assoc. apply H1, H2. Qed.

Lemma LKsP_app u1 k1 u2 k2 : LKsP u1 k1 -> LKsP u2 k2 -> LKsP (u1 ++ u2) (k1 ++ k2).
Proof. intros H1 H2 r Y H. rewrite <- !app_assoc. apply H1, H2, H. Qed.

Lemma LKU_LKP u k : LKU u k -> LKP u k.
Proof. intros H r Y _. apply H. Qed.

Lemma after_spacer_cons c l :
  after_spacer (c :: l) = if is_tc TMergedSpacer c then l else c :: l.
Proof. unfold after_spacer, read_spacer. destruct (is_tc TMergedSpacer c); reflexivity. Qed.

(* the same tokens in front *)
Lemma LKP_same u : LKP u u.
Proof.
  intros r Y H. destruct u as [|x [|y u]].
  - exact H.
  - destruct H as (H1 & H2 & H3). cbn [app]. split; [reflexivity|]. split.
    + intros x' _ _. cbn [tl]. exact H1.
    + unfold LKs. rewrite !after_spacer_cons. destruct (is_tc TMergedSpacer x); [|reflexivity].
      unfold hdc. rewrite H1. reflexivity.
  - cbn [app]. split; [reflexivity|]. split; [intros; reflexivity|].
    unfold LKs. rewrite !after_spacer_cons. destruct (is_tc TMergedSpacer x); reflexivity.
Qed.

(* a first token that is neither a spacer nor an escape *)
Lemma LKU_plain c u k :
  is_tc TMergedSpacer c = false -> is_tc TEscape c = false -> LKU (c :: u) (c :: k).
Proof.
  intros Hs He r Y. cbn [app]. split; [reflexivity|]. split.
  - intros x Hx Hx'. inversion Hx; subst x. congruence.
  - unfold LKs. rewrite !after_spacer_cons, Hs. reflexivity.
Qed.

(* the same two tokens in front *)
Lemma LKU_two c n u k : is_tc TMergedSpacer c = false -> LKU (c :: n :: u) (c :: n :: k).
Proof.
  intros Hs r Y. cbn [app]. split; [reflexivity|]. split; [intros; reflexivity|].
  unfold LKs. rewrite !after_spacer_cons, Hs. reflexivity.
Qed.

Lemma is_tc_excl k1 k2 t : is_tc k1 t = true -> k1 <> k2 -> is_tc k2 t = false.
Proof.
  intros H Hne. apply is_tc_eq in H. unfold is_tc. rewrite H.
  destruct (tc_beq k1 k2) eqn:E; [|reflexivity]. apply tc_eqb_eq in E. contradiction.
Qed.

Lemma opener_not_spacer c : is_opener c = true -> is_tc TMergedSpacer c = false.
Proof.
  unfold is_opener. intro H. apply orb_true_iff in H.
  destruct H as [H|H]; eapply is_tc_excl; try exact H; discriminate.
Qed.

Lemma tc_not_is k c t : tcat t = c -> c <> k -> is_tc k t = false.
Proof.
  intros E Hne. unfold is_tc. rewrite E. destruct (tc_beq c k) eqn:B; [|reflexivity].
  apply tc_eqb_eq in B. contradiction.
Qed.

Lemma group_tok_end_cats k c : group_tok_end k = Some c -> c <> TMergedSpacer /\ c <> TEscape.
Proof. destruct k; vm_compute; intro H; inversion H; split; discriminate. Qed.
Lemma math_tok_end_cats k c : math_tok_end k = Some c -> c <> TMergedSpacer /\ c <> TEscape.
Proof. destruct k; vm_compute; intro H; inversion H; split; discriminate. Qed.

Lemma group_end_cats k t : is_group_end k t = true ->
  is_tc TMergedSpacer t = false /\ is_tc TEscape t = false.
Proof.
  intro H. apply is_group_end_tok in H. apply group_tok_end_cats in H. destruct H as [H1 H2].
  split; eapply tc_not_is; try reflexivity; assumption.
Qed.

Lemma math_end_cats k t : is_math_end k t = true ->
  is_tc TMergedSpacer t = false /\ is_tc TEscape t = false.
Proof.
  intro H. apply is_math_end_tok in H. apply math_tok_end_cats in H. destruct H as [H1 H2].
  split; eapply tc_not_is; try reflexivity; assumption.
Qed.

Lemma math_begin_cats c k : math_kind_of_begin (tcat c) = Some k ->
  is_tc TMergedSpacer c = false /\ is_tc TEscape c = false.
Proof.
  unfold is_tc. destruct (tcat c); vm_compute; intro H; try discriminate H; split; reflexivity.
Qed.

(* -------------------------------------------- attached argument groups *)

(* the shape of what read_arg_optional / read_arg_required consume and keep *)
Definition ArgP (used kept : list token) : Prop :=
  (used = [] /\ kept = []) \/
  exists c u k, is_opener c = true /\ kept = c :: k /\
    (used = c :: u \/ exists sp, is_tc TMergedSpacer sp = true /\ used = sp :: c :: u).

Lemma ArgP_LKsP used kept : ArgP used kept -> LKsP used kept.
Proof.
  intros [[-> ->]|(c & u & k & Hc & -> & Hu)]; [apply LKsP_nil|].
  intros r Y _. pose proof (opener_not_spacer c Hc) as Hs.
  unfold LKs. destruct Hu as [->|(sp & Hsp & ->)]; cbn [app];
    rewrite !after_spacer_cons; [rewrite Hs; reflexivity|].
  rewrite Hsp, Hs. reflexivity.
Qed.

(* the direct head (read_args looks at it without skipping a spacer) *)
Lemma ArgP_direct used kept rest Y t :
  ArgP used kept -> hd_error (used ++ rest) = Some t -> is_tc TMergedSpacer t = false ->
  hd_error rest = hd_error Y -> hd_error (kept ++ Y) = Some t.
Proof.
  intros [[-> ->]|(c & u & k & Hc & -> & Hu)] Ht Hs Hr.
  - cbn [app] in *. congruence.
  - destruct Hu as [->|(sp & Hsp & ->)]; cbn [app hd_error] in *; [exact Ht|].
    inversion Ht; subst t. congruence.
Qed.

Lemma Kept_app a ka b kb : Kept a ka -> Kept b kb -> Kept (a ++ b) (ka ++ kb).
Proof.
  intros Ha Hb. induction Ha; cbn [app].
  - exact Hb.
  - apply Kept_keep. exact IHHa.
  - apply Kept_drop; assumption.
Qed.

Lemma Kept_nil_inv k : Kept [] k -> k = [].
Proof. intro H. inversion H. reflexivity. Qed.

(* ------------------------------- Kept with the context of every drop *)

(* `KeptJ p2 p1 used kept`: Kept, where p2 p1 are the two tokens before `used`
   in the token list, and every dropped spacer stands in ARGUMENT POSITION:
   the token before it closes a group, or the token before that is an Escape
   (so the token before the spacer is a command name). *)
Definition closer_cat (x : token) : bool := is_tc TGroupEnd x || is_tc TBracketEnd x.

Definition argpos (p2 p1 : option token) : Prop :=
  (exists x, p1 = Some x /\ closer_cat x = true) \/
  (exists e, p2 = Some e /\ is_tc TEscape e = true).

Inductive KeptJ : option token -> option token -> list token -> list token -> Prop :=
| KJ_nil p2 p1 : KeptJ p2 p1 [] []
| KJ_keep p2 p1 t ts ks : KeptJ p1 (Some t) ts ks -> KeptJ p2 p1 (t :: ts) (t :: ks)
| KJ_drop p2 p1 sp t ts ks :
    is_tc TMergedSpacer sp = true -> opener t -> argpos p2 p1 ->
    KeptJ p1 (Some sp) (t :: ts) ks -> KeptJ p2 p1 (sp :: t :: ts) ks.

Fixpoint ctx (p2 p1 : option token) (a : list token) : option token * option token :=
  match a with
  | [] => (p2, p1)
  | t :: ts => ctx p1 (Some t) ts
  end.

Lemma KeptJ_Kept p2 p1 a k : KeptJ p2 p1 a k -> Kept a k.
Proof. induction 1; [constructor | apply Kept_keep; assumption | apply Kept_drop; assumption]. Qed.

Lemma KeptJ_app p2 p1 a ka b kb :
  KeptJ p2 p1 a ka -> KeptJ (fst (ctx p2 p1 a)) (snd (ctx p2 p1 a)) b kb ->
  KeptJ p2 p1 (a ++ b) (ka ++ kb).
Proof.
  intros Ha. revert b kb. induction Ha; intros b kb Hb; cbn [app ctx] in *.
  - exact Hb.
  - apply KJ_keep. apply IHHa. exact Hb.
  - apply KJ_drop; try assumption. apply IHHa. exact Hb.
Qed.

Lemma KeptJ_refl l : forall p2 p1, KeptJ p2 p1 l l.
Proof. induction l as [|t l IH]; intros p2 p1; [constructor | apply KJ_keep, IH]. Qed.

(* pieces that may be placed anywhere / only in argument position *)
Definition KJall (used kept : list token) : Prop := forall p2 p1, KeptJ p2 p1 used kept.
Definition KJarg (used kept : list token) : Prop :=
  forall p2 p1, argpos p2 p1 -> KeptJ p2 p1 used kept.

(* after the piece the position is again an argument position *)
Definition APres (used : list token) : Prop :=
  used = [] \/ exists l x, used = l ++ [x] /\ closer_cat x = true.

Lemma ctx_app p2 p1 a b : ctx p2 p1 (a ++ b) = ctx (fst (ctx p2 p1 a)) (snd (ctx p2 p1 a)) b.
Proof. revert p2 p1. induction a as [|t a IH]; intros p2 p1; [reflexivity|]. cbn [app ctx]. apply IH. Qed.

Lemma ctx_snoc p2 p1 l x : snd (ctx p2 p1 (l ++ [x])) = Some x.
Proof. rewrite ctx_app. reflexivity. Qed.

Lemma APres_argpos used p2 p1 : APres used -> argpos p2 p1 ->
  argpos (fst (ctx p2 p1 used)) (snd (ctx p2 p1 used)).
Proof.
  intros [->|(l & x & -> & Hx)] Ha; [exact Ha|]. left. exists x. split; [apply ctx_snoc | exact Hx].
Qed.

Lemma KJall_app a ka b kb : KJall a ka -> KJall b kb -> KJall (a ++ b) (ka ++ kb).
Proof. intros Ha Hb p2 p1. apply KeptJ_app; [apply Ha | apply Hb]. Qed.

Lemma KJall_nil : KJall [] [].
Proof. intros p2 p1. constructor. Qed.

Lemma KJall_refl l : KJall l l.
Proof. intros p2 p1. apply KeptJ_refl. Qed.

Lemma KJall_cons t a ka : KJall a ka -> KJall (t :: a) (t :: ka).
Proof. intros H p2 p1. apply KJ_keep. apply H. Qed.

Lemma KJarg_nil : KJarg [] [].
Proof. intros p2 p1 _. constructor. Qed.

Lemma KJarg_app a ka b kb : KJarg a ka -> APres a -> KJarg b kb -> KJarg (a ++ b) (ka ++ kb).
Proof.
  intros Ha Pa Hb p2 p1 Hp. apply KeptJ_app; [apply Ha; exact Hp|].
  apply Hb. apply APres_argpos; assumption.
Qed.

Lemma APres_app a b : APres a -> APres b -> APres (a ++ b).
Proof.
  intros Ha [->|(l & x & -> & Hx)]; [rewrite app_nil_r; exact Ha|].
  right. exists (a ++ l), x. rewrite app_assoc. auto.
Qed.

Lemma APres_nil : APres [].
Proof. left. reflexivity. Qed.

(* arg pieces: valid in argument position, and leave one behind *)
Definition KJA (used kept : list token) : Prop := KJarg used kept /\ APres used.
(* group contents: valid anywhere, ending with the closer *)
Definition KJC (used kept : list token) : Prop :=
  KJall used kept /\ exists l x, used = l ++ [x] /\ closer_cat x = true.

Lemma KJall_Kept a k : KJall a k -> Kept a k.
Proof. intro H. exact (KeptJ_Kept None None a k (H None None)). Qed.

Lemma KJarg_Kept a k : KJarg a k -> Kept a k.
Proof.
  intro H. apply (KeptJ_Kept None (Some (mkt [] 0%Z TGroupEnd)) a k). apply H.
  left. eexists. split; reflexivity.
Qed.

Lemma group_tok_end_closer k c : group_tok_end k = Some c -> c = TGroupEnd \/ c = TBracketEnd.
Proof. destruct k; vm_compute; intro H; inversion H; auto. Qed.

Lemma group_end_closer k t : is_group_end k t = true -> closer_cat t = true.
Proof.
  intro H. apply is_group_end_tok in H. apply group_tok_end_closer in H.
  unfold closer_cat, is_tc. destruct H as [-> | ->]; reflexivity.
Qed.

Lemma texts_one t : texts [t] = ttext t.
Proof. unfold texts. cbn. apply app_nil_r. Qed.

Lemma texts_cons t l : texts (t :: l) = ttext t ++ texts l.
Proof. reflexivity. Qed.

(* the name a peek (read_command with one token skipped) returns *)
Lemma peek_name g nr no m t l cn a r :
  read_command g nr no 1 true m (t :: l) = Ok ((cn, a), r) ->
  cn = match l with nt :: _ => ttext nt | [] => [] end.
Proof.
  destruct g as [|g]; [discriminate|]. cbn [read_command].
  replace (length (t :: l) <? 1)%nat with false by reflexivity.
  change (skipn 1 (t :: l)) with l. destruct l as [|nt src]; [intro H; inversion H; reflexivity|].
  destruct (if (nr <? 0)%Z && (no <? 0)%Z then signature_of (ttext nt) else (nr, no)) as [a1 a2].
  intro H. apply bind_ok in H. destruct H as ([x y] & _ & H). inversion H. reflexivity.
Qed.

(* determinacy of a second run: whatever it returns is (v, Y) *)
Definition det {A} (F : nat -> list token -> res (A * list token))
           (R : list token -> list token -> Prop) (kept rest : list token) (v : A) : Prop :=
  forall g Y r, R rest Y -> F g (kept ++ Y) = Ok r -> r = (v, Y).

Definition anyR (_ _ : list token) : Prop := True.

Lemma LK_hd a b t l : LK a b -> a = t :: l -> exists l', b = t :: l'.
Proof.
  intros (H & _) ->. destruct b as [|t' l']; [discriminate H|]. inversion H. eauto.
Qed.

Lemma LK_hd2 a b t n l : LK a b -> a = t :: n :: l -> is_tc TEscape t = true ->
  exists l', b = t :: n :: l'.
Proof.
  intros (H1 & H2 & _) -> Ht. destruct b as [|t' l']; [discriminate H1|]. inversion H1; subst t'.
  specialize (H2 t eq_refl Ht). cbn [tl] in H2.
  destruct l' as [|n' l'']; [discriminate H2|]. inversion H2. eauto.
Qed.

(* ------------------------------------------------------ fuel monotonicity *)
(* (the same statement is proved in ReaderComplete.v; repeated here so that
   this file depends only on finished files) *)

Definition fref {A} (r r' : res A) : Prop := r = Err OutOfFuel \/ r = r'.

Lemma fref_refl {A} (r : res A) : fref r r.
Proof. right. reflexivity. Qed.

Lemma fref_bind {A B} (r r' : res A) (k k' : A -> res B) :
  fref r r' -> (forall a, fref (k a) (k' a)) -> fref (bind r k) (bind r' k').
Proof.
  intros [-> | ->] H; [left; reflexivity|].
  destruct r' as [a|e]; simpl; [apply H | right; reflexivity].
Qed.

Lemma fref_ok {A} (r r' : res A) a : fref r r' -> r = Ok a -> r' = Ok a.
Proof. intros [H | H] E; [rewrite E in H; discriminate H | rewrite <- H; exact E]. Qed.

Definition fm_expr f := forall f' skip strict m toks, (f <= f')%nat ->
  fref (read_expr f skip strict m toks) (read_expr f' skip strict m toks).
Definition fm_item f := forall f' acc toks, (f <= f')%nat ->
  fref (read_item_loop f acc toks) (read_item_loop f' acc toks).
Definition fm_math f := forall f' k pos strict acc toks, (f <= f')%nat ->
  fref (read_math_loop f k pos strict acc toks) (read_math_loop f' k pos strict acc toks).
Definition fm_env f := forall f' name args pos skip strict m acc toks, (f <= f')%nat ->
  fref (read_env_loop f name args pos skip strict m acc toks)
       (read_env_loop f' name args pos skip strict m acc toks).
Definition fm_command f := forall f' nreq nopt sk strict m toks, (f <= f')%nat ->
  fref (read_command f nreq nopt sk strict m toks) (read_command f' nreq nopt sk strict m toks).
Definition fm_args f := forall f' nreq nopt strict m toks, (f <= f')%nat ->
  fref (read_args f nreq nopt strict m toks) (read_args f' nreq nopt strict m toks).
Definition fm_opt f := forall f' args nopt strict m toks, (f <= f')%nat ->
  fref (read_arg_optional f args nopt strict m toks) (read_arg_optional f' args nopt strict m toks).
Definition fm_req f := forall f' args nreq strict m toks, (f <= f')%nat ->
  fref (read_arg_required f args nreq strict m toks) (read_arg_required f' args nreq strict m toks).
Definition fm_arg f := forall f' c strict m toks, (f <= f')%nat ->
  fref (read_arg f c strict m toks) (read_arg f' c strict m toks).
Definition fm_argloop f := forall f' k pos strict m acc toks, (f <= f')%nat ->
  fref (read_arg_loop f k pos strict m acc toks) (read_arg_loop f' k pos strict m acc toks).

Definition fm_all f :=
  fm_expr f /\ fm_item f /\ fm_math f /\ fm_env f /\ fm_command f /\ fm_args f /\
  fm_opt f /\ fm_req f /\ fm_arg f /\ fm_argloop f.

Ltac fmstep :=
  match goal with
  | |- fref ?x ?x => apply fref_refl
  | |- fref (bind _ _) (bind _ _) => apply fref_bind; [ | let a := fresh "a" in intros a ]
  | IH : fm_expr ?f |- fref (read_expr ?f _ _ _ _) _ => apply IH; assumption
  | IH : fm_item ?f |- fref (read_item_loop ?f _ _) _ => apply IH; assumption
  | IH : fm_math ?f |- fref (read_math_loop ?f _ _ _ _ _) _ => apply IH; assumption
  | IH : fm_env ?f |- fref (read_env_loop ?f _ _ _ _ _ _ _ _) _ => apply IH; assumption
  | IH : fm_command ?f |- fref (read_command ?f _ _ _ _ _ _) _ => apply IH; assumption
  | IH : fm_args ?f |- fref (read_args ?f _ _ _ _ _) _ => apply IH; assumption
  | IH : fm_opt ?f |- fref (read_arg_optional ?f _ _ _ _ _) _ => apply IH; assumption
  | IH : fm_req ?f |- fref (read_arg_required ?f _ _ _ _ _) _ => apply IH; assumption
  | IH : fm_arg ?f |- fref (read_arg ?f _ _ _ _) _ => apply IH; assumption
  | IH : fm_argloop ?f |- fref (read_arg_loop ?f _ _ _ _ _ _) _ => apply IH; assumption
  | |- fref (match ?x with _ => _ end) _ => destruct_innermost x
  end.

Lemma fm_all_holds : forall f, fm_all f.
Proof.
  induction f as [|f IH].
  { unfold fm_all, fm_expr, fm_item, fm_math, fm_env, fm_command, fm_args,
      fm_opt, fm_req, fm_arg, fm_argloop.
    repeat match goal with |- _ /\ _ => split end; intros; left; reflexivity. }
  destruct IH as (Me & Mi & Mm & Mv & Mc & Ma & Mo & Mr & Mg & Ml).
  unfold fm_all.
  repeat match goal with |- _ /\ _ => split end;
    [unfold fm_expr | unfold fm_item | unfold fm_math | unfold fm_env
     | unfold fm_command | unfold fm_args | unfold fm_opt | unfold fm_req
     | unfold fm_arg | unfold fm_argloop].
  - intros f' skip strict m toks Hle. destruct f' as [|f']; [lia|]. apply le_S_n in Hle.
    simpl. repeat fmstep.
  - intros f' acc toks Hle. destruct f' as [|f']; [lia|]. apply le_S_n in Hle.
    simpl. repeat fmstep.
  - intros f' k pos strict acc toks Hle. destruct f' as [|f']; [lia|]. apply le_S_n in Hle.
    simpl. repeat fmstep.
  - intros f' name args pos skip strict m acc toks Hle. destruct f' as [|f']; [lia|].
    apply le_S_n in Hle. simpl. repeat fmstep.
  - intros f' nreq nopt sk strict m toks Hle. destruct f' as [|f']; [lia|]. apply le_S_n in Hle.
    simpl. repeat fmstep.
  - intros f' nreq nopt strict m toks Hle. destruct f' as [|f']; [lia|]. apply le_S_n in Hle.
    simpl. repeat fmstep.
  - intros f' args nopt strict m toks Hle. destruct f' as [|f']; [lia|]. apply le_S_n in Hle.
    simpl. repeat fmstep.
  - intros f' args nreq strict m toks Hle. destruct f' as [|f']; [lia|]. apply le_S_n in Hle.
    simpl. repeat fmstep.
  - intros f' c strict m toks Hle. destruct f' as [|f']; [lia|]. apply le_S_n in Hle.
    simpl. repeat fmstep.
  - intros f' k pos strict m acc toks Hle. destruct f' as [|f']; [lia|]. apply le_S_n in Hle.
    simpl. repeat fmstep.
Qed.

Lemma command_mono f f' nreq nopt sk m toks r : (f <= f')%nat ->
  read_command f nreq nopt sk true m toks = Ok r -> read_command f' nreq nopt sk true m toks = Ok r.
Proof.
  intros Hle H. destruct (fm_all_holds f) as (_ & _ & _ & _ & M & _).
  eapply fref_ok; [apply M; exact Hle | exact H].
Qed.

Lemma expr_mono f f' skip strict m toks r : (f <= f')%nat ->
  read_expr f skip strict m toks = Ok r -> read_expr f' skip strict m toks = Ok r.
Proof.
  intros Hle H. destruct (fm_all_holds f) as (M & _).
  eapply fref_ok; [apply M; exact Hle | exact H].
Qed.

(* a peek is the command read one token later *)
Lemma peek_shift f nr no m t l :
  read_command f nr no 1 true m (t :: l) = read_command f nr no 0 true m l.
Proof.
  destruct f as [|f]; [reflexivity|]. cbn [read_command].
  replace (length (t :: l) <? 1)%nat with false by reflexivity.
  replace (length l <? 0)%nat with false by (symmetry; apply Nat.ltb_ge; lia).
  reflexivity.
Qed.

Lemma escape_not_math t : is_tc TEscape t = true -> math_kind_of_begin (tcat t) = None.
Proof. intro H. apply is_tc_eq in H. rewrite H. vm_compute. reflexivity. Qed.

(* whenever read_expr succeeds on an Escape, so does the peek at that place *)
Lemma expr_peek f skip m t l r :
  read_expr f skip true m (t :: l) = Ok r -> is_tc TEscape t = true ->
  exists x, read_command f (-1) (-1) 1 true m (t :: l) = Ok x.
Proof.
  intros H Et. destruct f as [|f]; [discriminate H|]. cbn [read_expr] in H.
  rewrite (escape_not_math t Et), Et in H.
  apply bind_ok in H. destruct H as (x & Hc & _). exists x.
  rewrite peek_shift. eapply command_mono; [|exact Hc]. lia.
Qed.

(* --------------------------- the fragment with shallow look-ahead peeks *)

(* nothing that read_args would take as an argument follows *)
Definition noarg (Y : list token) : bool :=
  match hdc (after_spacer Y) with
  | Some TGroupBegin | Some TBracketBegin => false
  | _ => true
  end.

(* how far a peek at `\item` / `\end` reads: nothing after the name (KPlain),
   exactly one simple name group `{` Text `}` (KGroup, after \end), or exactly
   one simple label `[` Text `]` (KBracket, after \item) *)
Inductive pkind := KPlain | KGroup | KBracket.

Definition simple_bracket (toks : list token) : bool :=
  match toks with
  | o :: n :: c :: _ => is_tc TBracketBegin o && is_tc TText n && is_tc TBracketEnd c
  | _ => false
  end.

Definition endk (r : list token) : option pkind :=
  match after_spacer r with
  | [] => Some KPlain
  | c :: l' =>
    if is_opener c then
      match l' with
      | _ :: _ :: Z => if simple_name_group (c :: l') && noarg Z then Some KGroup else None
      | _ => None
      end
    else Some KPlain
  end.

Definition itemk (r : list token) : option pkind :=
  if noarg r then Some KPlain
  else match after_spacer r with
       | c :: n :: cl :: Z =>
         if simple_bracket (c :: n :: cl :: Z) && noarg Z then Some KBracket else None
       | _ => None
       end.

Definition pvk (L : list token) : option pkind :=
  match L with
  | t :: nm :: r =>
    if is_tc TEscape t then
      if str_eqb (ttext nm) s_item then itemk r
      else if str_eqb (ttext nm) s_end then endk r
      else Some KPlain
    else Some KPlain
  | _ => Some KPlain
  end.

(* every \item is plain or has a simple label `[` Text `]` followed by no
   group; every \end is followed either by no group or by a simple name group
   that is itself followed by no group *)
Fixpoint frag (toks : list token) : bool :=
  match toks with
  | [] => true
  | _ :: toks' => (match pvk toks with Some _ => true | None => false end) && frag toks'
  end.

Lemma frag_suffix a b : frag (a ++ b) = true -> frag b = true.
Proof.
  induction a as [|x a IH]; [auto|]. cbn [app frag]. intro H.
  apply andb_true_iff in H. apply IH. tauto.
Qed.

Lemma frag_tail t l : frag (t :: l) = true -> frag l = true.
Proof. apply (frag_suffix [t] l). Qed.

Lemma frag_pvk L : frag L = true -> exists k, pvk L = Some k.
Proof.
  destruct L as [|t l]; [exists KPlain; reflexivity|]. cbn [frag]. intro H.
  apply andb_true_iff in H. destruct H as [H _].
  destruct (pvk (t :: l)) as [k|]; [eauto | discriminate H].
Qed.

(* the peek views agree *)
Definition PV (a b : list token) : Prop := forall k, pvk a = Some k -> pvk b = Some k.
Definition LKp (a b : list token) : Prop := LK a b /\ PV a b.
Definition PVP (used kept rest : list token) : Prop :=
  forall Y, LK rest Y -> PV rest Y -> PV (used ++ rest) (kept ++ Y).
Definition PVE (used kept rest : list token) : Prop :=
  forall Y, LK rest Y -> PV (used ++ rest) (kept ++ Y).
Definition PVU (used kept rest : list token) : Prop :=
  forall Y : list token, PV (used ++ rest) (kept ++ Y).

Lemma PV_refl a : PV a a.
Proof. intros k H. exact H. Qed.

Lemma PVP_nil rest : PVP [] [] rest.
Proof. intros Y _ H. exact H. Qed.

Lemma PVU_PVE u k rest : PVU u k rest -> PVE u k rest.
Proof. intros H Y _. apply H. Qed.
Lemma PVE_PVP u k rest : PVE u k rest -> PVP u k rest.
Proof. intros H Y Hl _. apply H. exact Hl. Qed.

Lemma PVP_app u1 k1 u2 k2 src1 rest : src1 = u2 ++ rest ->
  PVP u1 k1 src1 -> LKP u2 k2 -> PVP u2 k2 rest -> PVP (u1 ++ u2) (k1 ++ k2) rest.
Proof.
  intros -> H1 L2 H2 Y Hl Hp. rewrite <- !app_assoc. apply H1; [apply L2; exact Hl|].
  apply H2; assumption.
Qed.
Lemma PVP_PVE_app u1 k1 u2 k2 src1 rest : src1 = u2 ++ rest ->
  PVP u1 k1 src1 -> LKU u2 k2 -> PVE u2 k2 rest -> PVE (u1 ++ u2) (k1 ++ k2) rest.
Proof.
  intros -> H1 L2 H2 Y Hl. rewrite <- !app_assoc. apply H1; [apply L2|]. apply H2. exact Hl.
Qed.
Lemma PVP_PVU_app u1 k1 u2 k2 src1 rest : src1 = u2 ++ rest ->
  PVP u1 k1 src1 -> LKU u2 k2 -> PVU u2 k2 rest -> PVU (u1 ++ u2) (k1 ++ k2) rest.
Proof.
  intros -> H1 L2 H2 Y. rewrite <- !app_assoc. apply H1; [apply L2|]. apply H2.
Qed.

(* a first token that is not an escape: nothing to compare *)
Lemma PVU_plain c u k rest : is_tc TEscape c = false -> PVU (c :: u) (c :: k) rest.
Proof.
  intros He Y kd H. cbn [app] in *.
  destruct (u ++ rest) as [|x l]; destruct (k ++ Y) as [|x' l']; cbn [pvk] in *;
    rewrite ?He in *; exact H.
Qed.

Lemma PVP_one c rest : is_tc TEscape c = false -> PVP [c] [c] rest.
Proof. intro He. apply PVE_PVP, PVU_PVE, PVU_plain. exact He. Qed.

Lemma noarg_LKs a b : LKs a b -> noarg a = noarg b.
Proof. unfold LKs, noarg. intros ->. reflexivity. Qed.

Definition succ {A} (F : list token -> res (A * list token))
           (R : list token -> list token -> Prop) (kept rest : list token) (v : A) : Prop :=
  forall Y, R rest Y -> F (kept ++ Y) = Ok (v, Y).

Section FP.
Variable SK : list str.
Notation Hyp := (Hyp SK).

Definition fp_expr f := forall skip m toks e rest,
  sub_skip SK skip -> Hyp toks -> read_expr f skip true m toks = Ok (e, rest) ->
  exists used, toks = used ++ rest /\ (nobare e = true ->
    exists kept, KJall used kept /\ estr e = texts kept /\ LKP used kept /\
      det (fun g l => read_expr g skip true m l) LK kept rest e /\
      (frag toks = true -> succ (fun l => read_expr f skip true m l) LKp kept rest e) /\
      PVP used kept rest).
Definition fp_item f := forall acc toks es rest,
  Hyp toks -> read_item_loop f acc toks = Ok (es, rest) ->
  exists used new, toks = used ++ rest /\ es = acc ++ new /\ (forallb nobare new = true ->
    exists kept, KJall used kept /\ estr_list new = texts kept /\ LKP used kept /\
      det (fun g l => read_item_loop g acc l) LK kept rest es /\
      (frag toks = true -> succ (fun l => read_item_loop f acc l) LKp kept rest es) /\
      PVP used kept rest).
Definition fp_math f := forall k pos acc toks e rest,
  Hyp toks -> read_math_loop f k pos true acc toks = Ok (e, rest) ->
  exists used new, toks = used ++ rest /\ e = EMath k (acc ++ new) pos /\
   (forallb nobare new = true ->
    exists kept, KJall used kept /\ estr_list new ++ math_end k = texts kept /\ LKU used kept /\
      det (fun g l => read_math_loop g k pos true acc l) anyR kept rest e /\
      (frag toks = true -> succ (fun l => read_math_loop f k pos true acc l) anyR kept rest e) /\
      PVU used kept rest).
Definition fp_env f := forall name args pos skip m acc toks e rest,
  sub_skip SK skip -> Hyp toks ->
  read_env_loop f name args pos skip true m acc toks = Ok (e, rest) ->
  exists used new, toks = used ++ rest /\ e = ENamed name args (acc ++ new) pos /\
   (forallb nobare new = true ->
    exists kept, KJall used kept /\ estr_list new ++ env_end name = texts kept /\ LKU used kept /\
      det (fun g l => read_env_loop g name args pos skip true m acc l) anyR kept rest e /\
      (frag toks = true ->
       succ (fun l => read_env_loop f name args pos skip true m acc l) LK kept rest e) /\
      PVE used kept rest).
Definition fp_command f := forall nreq nopt m toks name args rest,
  Hyp toks -> read_command f nreq nopt 0 true m toks = Ok ((name, args), rest) ->
  (toks = [] /\ name = [] /\ args = [] /\ rest = []) \/
  exists nt used, toks = nt :: used ++ rest /\ name = ttext nt /\ (okargs args = true ->
    exists kept, (forall e, is_tc TEscape e = true -> KeptJ (Some e) (Some nt) used kept) /\ estr_list args = texts kept /\
      det (fun g l => read_command g nreq nopt 0 true m l) LK (nt :: kept) rest (name, args) /\
      (frag toks = true ->
       succ (fun l => read_command f nreq nopt 0 true m l) LK (nt :: kept) rest (name, args)) /\
      LKsP used kept).
Definition fp_args f := forall nreq nopt m toks args rest,
  Hyp toks -> read_args f nreq nopt true m toks = Ok (args, rest) ->
  exists used, toks = used ++ rest /\ (okargs args = true ->
    exists kept, KJarg used kept /\ estr_list args = texts kept /\
      det (fun g l => read_args g nreq nopt true m l) LK kept rest args /\
      (frag toks = true -> succ (fun l => read_args f nreq nopt true m l) LK kept rest args) /\
      LKsP used kept).
Definition fp_opt f := forall args nopt m toks args' n' rest,
  Hyp toks -> read_arg_optional f args nopt true m toks = Ok ((args', n'), rest) ->
  exists used new, toks = used ++ rest /\ args' = args ++ new /\ (okargs new = true ->
    exists kept, KJA used kept /\ estr_list new = texts kept /\ ArgP used kept /\
      det (fun g l => read_arg_optional g args nopt true m l) LKs kept rest (args', n') /\
      (frag toks = true ->
       succ (fun l => read_arg_optional f args nopt true m l) LKs kept rest (args', n'))).
Definition fp_req f := forall args nreq m toks args' n' rest,
  Hyp toks -> read_arg_required f args nreq true m toks = Ok ((args', n'), rest) ->
  exists used new, toks = used ++ rest /\ args' = args ++ new /\ (okargs new = true ->
    exists kept, KJA used kept /\ estr_list new = texts kept /\ ArgP used kept /\
      det (fun g l => read_arg_required g args nreq true m l) LKs kept rest (args', n') /\
      (frag toks = true ->
       succ (fun l => read_arg_required f args nreq true m l) LKs kept rest (args', n'))).
Definition fp_arg f := forall c m toks e rest,
  tok_wf c -> Hyp toks -> read_arg f c true m toks = Ok (e, rest) ->
  exists used, toks = used ++ rest /\ is_group e = true /\ (nobare e = true ->
    exists kept, KJC used kept /\ estr e = ttext c ++ texts kept /\
      det (fun g l => read_arg g c true m l) anyR kept rest e /\
      (frag toks = true -> succ (fun l => read_arg f c true m l) anyR kept rest e)).
Definition fp_argloop f := forall k pos m acc toks e rest,
  Hyp toks -> read_arg_loop f k pos true m acc toks = Ok (e, rest) ->
  exists used new, toks = used ++ rest /\ e = EGroup k (acc ++ new) pos /\
   (forallb nobare new = true ->
    exists kept, KJC used kept /\ estr_list new ++ group_end k = texts kept /\ LKU used kept /\
      det (fun g l => read_arg_loop g k pos true m acc l) anyR kept rest e /\
      (frag toks = true -> succ (fun l => read_arg_loop f k pos true m acc l) anyR kept rest e) /\
      PVU used kept rest).

Definition fp_all f :=
  fp_expr f /\ fp_item f /\ fp_math f /\ fp_env f /\ fp_command f /\ fp_args f /\
  fp_opt f /\ fp_req f /\ fp_arg f /\ fp_argloop f.

Lemma fp_argloop_S f : fp_all f -> fp_argloop (S f).
Proof.
  intros (Ce & Ci & Cm & Cv & Cc & Ca & Co & Cr & Cg & Cl).
  unfold fp_argloop. intros k pos m acc toks e rest Hy H. simpl in H.
  destruct toks as [|t src]; [discriminate|].
  destruct (is_group_end k t) eqn:Eend.
  - inversion H; subst. exists [t], [].
    split; [reflexivity|]. split; [rewrite app_nil_r; reflexivity|].
    intros _. exists [t]. split.
    { split; [apply KJall_refl|]. exists [], t. split; [reflexivity|].
      eapply group_end_closer; exact Eend. }
    split.
    { simpl. rewrite texts_one. symmetry.
      apply Hyp_head_wf in Hy. apply Hy. apply is_group_end_tok. exact Eend. }
    destruct (group_end_cats _ _ Eend) as [S1 S2].
    split; [apply LKU_plain; assumption|].
    split.
    { intros g Y r _ HB. destruct g as [|g]; [discriminate HB|].
      cbn [read_arg_loop app] in HB. rewrite Eend in HB. inversion HB. reflexivity. }
    split; [intros _ Y _; cbn [read_arg_loop app]; rewrite Eend; reflexivity|].
    apply PVU_plain. exact S2.
  - apply bind_ok in H. destruct H as ([e1 src1] & He & H).
    apply Ce in He; [|exact (no_skip SK) | exact Hy]. destruct He as (u1 & Eu1 & C1).
    apply Cl in H; [|rewrite Eu1 in Hy; eapply Hyp_suffix; exact Hy].
    destruct H as (u2 & new & Eu2 & -> & C2).
    exists (u1 ++ u2), (e1 :: new).
    split; [rewrite Eu1, Eu2, <- app_assoc; reflexivity|].
    split; [rewrite <- app_assoc; reflexivity|].
    intro Hn. simpl in Hn. apply andb_true_iff in Hn. destruct Hn as [Hn1 Hn2].
    destruct (C1 Hn1) as (k1 & K1 & T1 & L1 & D1 & U1 & P1).
    destruct (C2 Hn2) as (k2 & K2 & T2 & L2 & D2 & U2 & P2).
    exists (k1 ++ k2). split.
    { destruct K2 as (K2 & l2 & x2 & E2 & Hx2). split; [apply KJall_app; assumption|].
      exists (u1 ++ l2), x2. rewrite E2, app_assoc. auto. }
    split.
    { change (estr_list (e1 :: new)) with (estr e1 ++ estr_list new).
      rewrite <- app_assoc, T1, T2, texts_app. reflexivity. }
    split; [apply LKP_LKU_app; assumption|].
    assert (Hlk : forall Y, LK (t :: src) (k1 ++ k2 ++ Y)).
    { intro Y. rewrite Eu1, Eu2. apply L1, L2. }
    split.
    { intros g Y r _ HB. destruct g as [|g]; [discriminate HB|].
      rewrite <- app_assoc in HB.
      destruct (LK_hd _ _ _ _ (Hlk Y) eq_refl) as (l' & EL).
      cbn [read_arg_loop] in HB. rewrite EL in HB. rewrite Eend in HB. rewrite <- EL in HB.
      apply bind_ok in HB. destruct HB as ([e1' s1'] & HB1 & HB2).
      apply D1 in HB1; [|rewrite Eu2; apply L2]. inversion HB1; subst e1' s1'.
      apply D2 in HB2; [exact HB2 | exact I]. }
    split; [|eapply PVP_PVU_app; eassumption].
    intros Hf Y _. rewrite <- app_assoc.
    destruct (LK_hd _ _ _ _ (Hlk Y) eq_refl) as (l' & EL).
    cbn [read_arg_loop]. rewrite EL. rewrite Eend. rewrite <- EL.
    rewrite (U1 Hf (k2 ++ Y)); [|split; rewrite Eu2; [apply L2 | apply P2]]. cbn [bind].
    apply U2; [rewrite Eu1 in Hf; eapply frag_suffix; exact Hf | exact I].
Qed.

Lemma fp_arg_S f : fp_all f -> fp_arg (S f).
Proof.
  intros (Ce & Ci & Cm & Cv & Cc & Ca & Co & Cr & Cg & Cl).
  unfold fp_arg. intros c m toks e rest Wc Hy H. simpl in H.
  destruct (group_kind_of_begin (tcat c)) as [k|] eqn:Ek; [|discriminate].
  apply Cl in H; [|exact Hy]. destruct H as (used & new & Eu & -> & C).
  exists used. split; [exact Eu|]. split; [reflexivity|].
  cbn [nobare app]. intro Hn. destruct (C Hn) as (kept & K & T & _ & D & U & _).
  exists kept. split; [exact K|]. split.
  { cbn [estr]. change (concat (map estr new)) with (estr_list new). rewrite T. f_equal.
    symmetry. apply Wc. apply group_kind_begin_tok. exact Ek. }
  split.
  { intros g Y r _ HB. destruct g as [|g]; [discriminate HB|].
    cbn [read_arg] in HB. rewrite Ek in HB. apply D in HB; [exact HB | exact I]. }
  intros Hf Y _. cbn [read_arg]. rewrite Ek. apply U; [exact Hf | exact I].
Qed.

Lemma fp_math_S f : fp_all f -> fp_math (S f).
Proof.
  intros (Ce & Ci & Cm & Cv & Cc & Ca & Co & Cr & Cg & Cl).
  unfold fp_math. intros k pos acc toks e rest Hy H. simpl in H.
  destruct toks as [|t src]; [discriminate|].
  destruct (is_math_end k t) eqn:Eend.
  - inversion H; subst. exists [t], [].
    split; [reflexivity|]. split; [rewrite app_nil_r; reflexivity|].
    intros _. exists [t]. split; [apply KJall_refl|]. split.
    { simpl. rewrite texts_one. symmetry.
      apply Hyp_head_wf in Hy. apply Hy. apply is_math_end_tok. exact Eend. }
    destruct (math_end_cats _ _ Eend) as [S1 S2].
    split; [apply LKU_plain; assumption|].
    split.
    { intros g Y r _ HB. destruct g as [|g]; [discriminate HB|].
      cbn [read_math_loop app] in HB. rewrite Eend in HB. inversion HB. reflexivity. }
    split; [intros _ Y _; cbn [read_math_loop app]; rewrite Eend; reflexivity|].
    apply PVU_plain. exact S2.
  - apply bind_ok in H. destruct H as ([e1 src1] & He & H).
    apply Ce in He; [|exact (no_skip SK) | exact Hy]. destruct He as (u1 & Eu1 & C1).
    apply Cm in H; [|rewrite Eu1 in Hy; eapply Hyp_suffix; exact Hy].
    destruct H as (u2 & new & Eu2 & -> & C2).
    exists (u1 ++ u2), (e1 :: new).
    split; [rewrite Eu1, Eu2, <- app_assoc; reflexivity|].
    split; [rewrite <- app_assoc; reflexivity|].
    intro Hn. simpl in Hn. apply andb_true_iff in Hn. destruct Hn as [Hn1 Hn2].
    destruct (C1 Hn1) as (k1 & K1 & T1 & L1 & D1 & U1 & P1).
    destruct (C2 Hn2) as (k2 & K2 & T2 & L2 & D2 & U2 & P2).
    exists (k1 ++ k2). split; [apply KJall_app; assumption|]. split.
    { change (estr_list (e1 :: new)) with (estr e1 ++ estr_list new).
      rewrite <- app_assoc, T1, T2, texts_app. reflexivity. }
    split; [apply LKP_LKU_app; assumption|].
    assert (Hlk : forall Y, LK (t :: src) (k1 ++ k2 ++ Y)).
    { intro Y. rewrite Eu1, Eu2. apply L1, L2. }
    split.
    { intros g Y r _ HB. destruct g as [|g]; [discriminate HB|].
      rewrite <- app_assoc in HB.
      destruct (LK_hd _ _ _ _ (Hlk Y) eq_refl) as (l' & EL).
      cbn [read_math_loop] in HB. rewrite EL in HB. rewrite Eend in HB. rewrite <- EL in HB.
      apply bind_ok in HB. destruct HB as ([e1' s1'] & HB1 & HB2).
      apply D1 in HB1; [|rewrite Eu2; apply L2]. inversion HB1; subst e1' s1'.
      apply D2 in HB2; [exact HB2 | exact I]. }
    split; [|eapply PVP_PVU_app; eassumption].
    intros Hf Y _. rewrite <- app_assoc.
    destruct (LK_hd _ _ _ _ (Hlk Y) eq_refl) as (l' & EL).
    cbn [read_math_loop]. rewrite EL. rewrite Eend. rewrite <- EL.
    rewrite (U1 Hf (k2 ++ Y)); [|split; rewrite Eu2; [apply L2 | apply P2]]. cbn [bind].
    apply U2; [rewrite Eu1 in Hf; eapply frag_suffix; exact Hf | exact I].
Qed.

Lemma hdc_nil_inv l : hdc l = None -> l = [].
Proof. destruct l; [reflexivity | discriminate]. Qed.

Lemma hdc_cons_inv l c l0 : hdc (c :: l0) = hdc l -> exists c' l', l = c' :: l' /\ tcat c' = tcat c.
Proof. destruct l as [|c' l']; [discriminate|]. unfold hdc. simpl. intro H. inversion H. eauto. Qed.

Lemma is_tc_cat k c c' : tcat c' = tcat c -> is_tc k c' = is_tc k c.
Proof. unfold is_tc. intros ->. reflexivity. Qed.

Lemma opt_stop_B g args nopt m toks Y r :
  LKs toks Y ->
  ((nopt =? 0)%Z = true \/ after_spacer toks = [] \/
   exists c l, after_spacer toks = c :: l /\ is_tc TBracketBegin c = false) ->
  read_arg_optional g args nopt true m Y = Ok r -> r = ((args, nopt), Y).
Proof.
  intros Hlk Hc HB. destruct g as [|g]; [discriminate HB|]. cbn [read_arg_optional] in HB.
  destruct (nopt =? 0)%Z eqn:En; [inversion HB; reflexivity|].
  destruct Hc as [Hc|[Hc|(c & l & Hc & Hb)]]; [discriminate Hc| |].
  - unfold LKs in Hlk. rewrite Hc in Hlk. symmetry in Hlk. apply hdc_nil_inv in Hlk.
    unfold after_spacer in Hlk. destruct (read_spacer Y) as [b' s']. cbn [snd] in Hlk. subst s'.
    inversion HB. reflexivity.
  - unfold LKs in Hlk. rewrite Hc in Hlk. apply hdc_cons_inv in Hlk.
    destruct Hlk as (c' & l' & E & Ecat).
    unfold after_spacer in E. destruct (read_spacer Y) as [b' s']. cbn [snd] in E. subst s'.
    rewrite (is_tc_cat _ _ _ Ecat), Hb in HB. inversion HB. reflexivity.
Qed.

Lemma req_stop_B g args nreq m toks Y r :
  LKs toks Y ->
  ((nreq =? 0)%Z = true \/ after_spacer toks = [] \/
   exists c l, after_spacer toks = c :: l /\ is_tc TGroupBegin c = false /\ (0 <? nreq)%Z = false) ->
  read_arg_required g args nreq true m Y = Ok r -> r = ((args, nreq), Y).
Proof.
  intros Hlk Hc HB. destruct g as [|g]; [discriminate HB|]. cbn [read_arg_required] in HB.
  destruct (nreq =? 0)%Z eqn:En; [inversion HB; reflexivity|].
  destruct Y as [|y Y']; [inversion HB; reflexivity|].
  destruct Hc as [Hc|[Hc|(c & l & Hc & Hb & H0)]]; [discriminate Hc| |].
  - unfold LKs in Hlk. rewrite Hc in Hlk. symmetry in Hlk. apply hdc_nil_inv in Hlk.
    unfold after_spacer in Hlk. destruct (read_spacer (y :: Y')) as [b' s']. cbn [snd] in Hlk.
    subst s'. inversion HB. reflexivity.
  - unfold LKs in Hlk. rewrite Hc in Hlk. apply hdc_cons_inv in Hlk.
    destruct Hlk as (c' & l' & E & Ecat).
    unfold after_spacer in E. destruct (read_spacer (y :: Y')) as [b' s']. cbn [snd] in E. subst s'.
    rewrite (is_tc_cat _ _ _ Ecat), Hb, H0 in HB. inversion HB. reflexivity.
Qed.

Lemma opt_stop_F f args nopt m toks Y :
  LKs toks Y ->
  ((nopt =? 0)%Z = true \/ after_spacer toks = [] \/
   exists c l, after_spacer toks = c :: l /\ is_tc TBracketBegin c = false) ->
  read_arg_optional (S f) args nopt true m Y = Ok ((args, nopt), Y).
Proof.
  intros Hlk Hc. cbn [read_arg_optional].
  destruct (nopt =? 0)%Z eqn:En; [reflexivity|].
  destruct Hc as [Hc|[Hc|(c & l & Hc & Hb)]]; [discriminate Hc| |].
  - unfold LKs in Hlk. rewrite Hc in Hlk. symmetry in Hlk. apply hdc_nil_inv in Hlk.
    unfold after_spacer in Hlk. destruct (read_spacer Y) as [b' s']. cbn [snd] in Hlk. subst s'.
    reflexivity.
  - unfold LKs in Hlk. rewrite Hc in Hlk. apply hdc_cons_inv in Hlk.
    destruct Hlk as (c' & l' & E & Ecat).
    unfold after_spacer in E. destruct (read_spacer Y) as [b' s']. cbn [snd] in E. subst s'.
    rewrite (is_tc_cat _ _ _ Ecat), Hb. reflexivity.
Qed.

Lemma req_stop_F f args nreq m toks Y :
  LKs toks Y ->
  ((nreq =? 0)%Z = true \/ after_spacer toks = [] \/
   exists c l, after_spacer toks = c :: l /\ is_tc TGroupBegin c = false /\ (0 <? nreq)%Z = false) ->
  read_arg_required (S f) args nreq true m Y = Ok ((args, nreq), Y).
Proof.
  intros Hlk Hc. cbn [read_arg_required].
  destruct (nreq =? 0)%Z eqn:En; [reflexivity|].
  destruct Y as [|y Y']; [reflexivity|].
  destruct Hc as [Hc|[Hc|(c & l & Hc & Hb & H0)]]; [discriminate Hc| |].
  - unfold LKs in Hlk. rewrite Hc in Hlk. symmetry in Hlk. apply hdc_nil_inv in Hlk.
    unfold after_spacer in Hlk. destruct (read_spacer (y :: Y')) as [b' s']. cbn [snd] in Hlk.
    subst s'. reflexivity.
  - unfold LKs in Hlk. rewrite Hc in Hlk. apply hdc_cons_inv in Hlk.
    destruct Hlk as (c' & l' & E & Ecat).
    unfold after_spacer in E. destruct (read_spacer (y :: Y')) as [b' s']. cbn [snd] in E. subst s'.
    rewrite (is_tc_cat _ _ _ Ecat), Hb, H0. reflexivity.
Qed.

Lemma after_spacer_of toks b src1 : read_spacer toks = (b, src1) -> after_spacer toks = src1.
Proof. intro H. unfold after_spacer. rewrite H. reflexivity. Qed.

(* the attached group: what is consumed, what is kept *)
Lemma attach_kept toks b c src2 ug src3 u2 rest kg k2 :
  read_spacer toks = (b, c :: src2) -> is_opener c = true ->
  src2 = ug ++ src3 -> src3 = u2 ++ rest -> KJC ug kg -> KJA u2 k2 ->
  exists used, toks = used ++ rest /\ KJA used (c :: kg ++ k2) /\ ArgP used (c :: kg ++ k2).
Proof.
  intros Esp Hop E2 E3 (Kg & lg & xg & Eg & Hxg) (K2 & P2).
  assert (KK : forall q2 q1, KeptJ q2 q1 (c :: ug ++ u2) (c :: kg ++ k2)).
  { intros q2 q1. apply KJ_keep. apply KeptJ_app; [apply Kg|]. apply K2.
    left. exists xg. split; [rewrite Eg; apply ctx_snoc | exact Hxg]. }
  assert (PP : forall pre, APres (pre ++ c :: ug ++ u2)).
  { intro pre. destruct P2 as [->|(l2 & x2 & -> & Hx2)].
    - right. exists (pre ++ c :: lg), xg. rewrite app_nil_r, Eg, <- app_assoc. auto.
    - right. exists (pre ++ c :: ug ++ l2), x2. split; [|exact Hx2].
      rewrite <- !app_assoc. cbn [app]. rewrite <- app_assoc. reflexivity. }
  apply read_spacer_cases in Esp. destruct Esp as [->|(sp & -> & Hsp)].
  - exists (c :: ug ++ u2). split; [rewrite E2, E3; simpl; rewrite <- app_assoc; reflexivity|].
    split; [split; [intros p2 p1 _; apply KK | apply (PP [])]|].
    right. exists c, (ug ++ u2), (kg ++ k2). auto.
  - exists (sp :: c :: ug ++ u2).
    split; [rewrite E2, E3; simpl; rewrite <- app_assoc; reflexivity|].
    split.
    { split; [|apply (PP [sp])]. intros p2 p1 Hp.
      apply KJ_drop; [exact Hsp | apply is_opener_opener; exact Hop | exact Hp | apply KK]. }
    right. exists c, (ug ++ u2), (kg ++ k2). split; [exact Hop|]. split; [reflexivity|].
    right. exists sp. auto.
Qed.

Lemma opener_read_spacer c l : is_opener c = true -> read_spacer (c :: l) = (false, c :: l).
Proof.
  intro H. apply opener_not_spacer in H. unfold read_spacer. rewrite H. reflexivity.
Qed.

Lemma fp_opt_S f : fp_all f -> fp_opt (S f).
Proof.
  intros (Ce & Ci & Cm & Cv & Cc & Ca & Co & Cr & Cg & Cl).
  unfold fp_opt. intros args nopt m toks args' n' rest Hy H. simpl in H.
  assert (Hstop : forall args' n' rest,
    ((nopt =? 0)%Z = true \/ after_spacer toks = [] \/
     exists c l, after_spacer toks = c :: l /\ is_tc TBracketBegin c = false) ->
    Ok (args, nopt, toks) = Ok (args', n', rest) ->
    exists used new, toks = used ++ rest /\ args' = args ++ new /\ (okargs new = true ->
      exists kept, KJA used kept /\ estr_list new = texts kept /\ ArgP used kept /\
        det (fun g l => read_arg_optional g args nopt true m l) LKs kept rest (args', n') /\
        (frag toks = true ->
         succ (fun l => read_arg_optional (S f) args nopt true m l) LKs kept rest (args', n')))).
  { intros a' k' r' Hc H'. inversion H'; subst. exists [], [].
    split; [reflexivity|]. split; [rewrite app_nil_r; reflexivity|]. intros _.
    exists []. split; [split; [apply KJarg_nil | apply APres_nil]|].
    split; [reflexivity|]. split; [left; auto|].
    split.
    { intros g Y r Hlk HB. cbn [app] in HB. eapply opt_stop_B; eassumption. }
    intros _ Y Hlk. cbn [app]. eapply opt_stop_F; eassumption. }
  destruct (nopt =? 0)%Z eqn:En; [apply Hstop; [left; reflexivity | exact H]|].
  destruct (read_spacer toks) as [b src1] eqn:Esp.
  pose proof (after_spacer_of _ _ _ Esp) as Has.
  destruct src1 as [|c src2]; [apply Hstop; [right; left; exact Has | exact H]|].
  destruct (is_tc TBracketBegin c) eqn:Ec;
    [|apply Hstop; [right; right; exists c, src2; auto | exact H]].
  apply bind_ok in H. destruct H as ([gr src3] & Hg & H).
  destruct (Hyp_after_spacer _ _ _ _ _ Hy Esp) as [Wc Hy2].
  apply Cg in Hg; [|exact Wc | exact Hy2]. destruct Hg as (ug & Eug & Hgrp & Cgr).
  apply Co in H; [|rewrite Eug in Hy2; eapply Hyp_suffix; exact Hy2].
  destruct H as (u2 & new2 & Eu2 & -> & C2).
  assert (Hop : is_opener c = true) by (unfold is_opener; rewrite Ec; apply orb_true_r).
  assert (Hsplit : exists used, toks = used ++ rest).
  { apply read_spacer_cases in Esp. destruct Esp as [->|(sp & -> & _)].
    - exists (c :: ug ++ u2). rewrite Eug, Eu2. simpl. rewrite <- app_assoc. reflexivity.
    - exists (sp :: c :: ug ++ u2). rewrite Eug, Eu2. simpl. rewrite <- app_assoc. reflexivity. }
  destruct Hsplit as (used & Eused).
  exists used, (gr :: new2). split; [exact Eused|]. split; [rewrite <- app_assoc; reflexivity|].
  intro Hok. apply okargs_cons in Hok. destruct Hok as (_ & Hn1 & Hn2).
  destruct (Cgr Hn1) as (kg & Kg & Tg & Dg & Ug).
  destruct (C2 Hn2) as (k2 & K2 & T2 & A2 & D2 & U2).
  destruct (attach_kept toks b c src2 ug src3 u2 rest kg k2 Esp Hop Eug Eu2 Kg K2)
    as (used' & Eused' & KK & AP).
  assert (used' = used) by (rewrite Eused in Eused'; apply app_inv_tail in Eused'; auto). subst used'.
  exists (c :: kg ++ k2). split; [exact KK|]. split.
  { change (estr_list (gr :: new2)) with (estr gr ++ estr_list new2).
    rewrite Tg, T2, texts_cons, texts_app, <- app_assoc. reflexivity. }
  split; [exact AP|]. split.
  { intros g Y r Hlk HB. destruct g as [|g]; [discriminate HB|].
    cbn [read_arg_optional app] in HB. rewrite En, (opener_read_spacer c _ Hop), Ec in HB.
    rewrite <- app_assoc in HB.
    apply bind_ok in HB. destruct HB as ([g' s'] & HB1 & HB2).
    apply Dg in HB1; [|exact I]. inversion HB1; subst g' s'.
    apply D2 in HB2; [exact HB2 | exact Hlk]. }
  intros Hf Y Hlk.
  assert (Hf2 : frag src2 = true).
  { apply read_spacer_cases in Esp. destruct Esp as [E|(sp & E & _)]; rewrite E in Hf.
    - eapply frag_tail; exact Hf.
    - eapply frag_tail, frag_tail; exact Hf. }
  cbn [read_arg_optional app]. rewrite En, (opener_read_spacer c _ Hop), Ec.
  rewrite <- app_assoc. rewrite (Ug Hf2 (k2 ++ Y) I). cbn [bind].
  apply U2; [rewrite Eug in Hf2; eapply frag_suffix; exact Hf2 | exact Hlk].
Qed.

Lemma fp_req_S f : fp_all f -> fp_req (S f).
Proof.
  intros (Ce & Ci & Cm & Cv & Cc & Ca & Co & Cr & Cg & Cl).
  unfold fp_req. intros args nreq m toks args' n' rest Hy H. simpl in H.
  assert (Hstop : forall args' n' rest,
    ((nreq =? 0)%Z = true \/ after_spacer toks = [] \/
     exists c l, after_spacer toks = c :: l /\ is_tc TGroupBegin c = false /\
                 (0 <? nreq)%Z = false) ->
    Ok (args, nreq, toks) = Ok (args', n', rest) ->
    exists used new, toks = used ++ rest /\ args' = args ++ new /\ (okargs new = true ->
      exists kept, KJA used kept /\ estr_list new = texts kept /\ ArgP used kept /\
        det (fun g l => read_arg_required g args nreq true m l) LKs kept rest (args', n') /\
        (frag toks = true ->
         succ (fun l => read_arg_required (S f) args nreq true m l) LKs kept rest (args', n')))).
  { intros a' k' r' Hc H'. inversion H'; subst. exists [], [].
    split; [reflexivity|]. split; [rewrite app_nil_r; reflexivity|]. intros _.
    exists []. split; [split; [apply KJarg_nil | apply APres_nil]|].
    split; [reflexivity|]. split; [left; auto|].
    split.
    { intros g Y r Hlk HB. cbn [app] in HB. eapply req_stop_B; eassumption. }
    intros _ Y Hlk. cbn [app]. eapply req_stop_F; eassumption. }
  destruct (nreq =? 0)%Z eqn:En; [apply Hstop; [left; reflexivity | exact H]|].
  destruct toks as [|t0 ts0]; [apply Hstop; [right; left; reflexivity | exact H]|].
  destruct (read_spacer (t0 :: ts0)) as [b src1] eqn:Esp.
  pose proof (after_spacer_of _ _ _ Esp) as Has.
  destruct src1 as [|c src2]; [apply Hstop; [right; left; exact Has | exact H]|].
  destruct (Hyp_after_spacer _ _ _ _ _ Hy Esp) as [Wc Hy2].
  assert (Hpre : exists pre, t0 :: ts0 = pre ++ c :: src2).
  { apply read_spacer_cases in Esp. destruct Esp as [E|(sp & E & _)]; rewrite E;
      [exists [] | exists [sp]]; reflexivity. }
  destruct (is_tc TGroupBegin c) eqn:Ec.
  - apply bind_ok in H. destruct H as ([gr src3] & Hg & H).
    apply Cg in Hg; [|exact Wc | exact Hy2]. destruct Hg as (ug & Eug & Hgrp & Cgr).
    apply Cr in H; [|rewrite Eug in Hy2; eapply Hyp_suffix; exact Hy2].
    destruct H as (u2 & new2 & Eu2 & -> & C2).
    assert (Hop : is_opener c = true) by (unfold is_opener; rewrite Ec; reflexivity).
    destruct Hpre as (pre & Epre).
    exists (pre ++ c :: ug ++ u2), (gr :: new2).
    split; [rewrite Epre, Eug, Eu2, <- !app_assoc; simpl; rewrite <- app_assoc; reflexivity|].
    split; [rewrite <- app_assoc; reflexivity|].
    intro Hok. apply okargs_cons in Hok. destruct Hok as (_ & Hn1 & Hn2).
    destruct (Cgr Hn1) as (kg & Kg & Tg & Dg & Ug).
    destruct (C2 Hn2) as (k2 & K2 & T2 & A2 & D2 & U2).
    destruct (attach_kept (t0 :: ts0) b c src2 ug src3 u2 rest kg k2 Esp Hop Eug Eu2 Kg K2)
      as (used' & Eused' & KK & AP).
    assert (used' = pre ++ c :: ug ++ u2).
    { rewrite Epre, Eug, Eu2 in Eused'.
      replace (pre ++ c :: (ug ++ u2 ++ rest)) with ((pre ++ c :: ug ++ u2) ++ rest) in Eused'
        by (rewrite <- !app_assoc; simpl; rewrite <- app_assoc; reflexivity).
      apply app_inv_tail in Eused'. auto. }
    subst used'.
    exists (c :: kg ++ k2). split; [exact KK|]. split.
    { change (estr_list (gr :: new2)) with (estr gr ++ estr_list new2).
      rewrite Tg, T2, texts_cons, texts_app, <- app_assoc. reflexivity. }
    split; [exact AP|]. split.
    { intros g Y r Hlk HB. destruct g as [|g]; [discriminate HB|].
      cbn [read_arg_required app] in HB. rewrite En, (opener_read_spacer c _ Hop), Ec in HB.
      rewrite <- app_assoc in HB.
      apply bind_ok in HB. destruct HB as ([g' s'] & HB1 & HB2).
      apply Dg in HB1; [|exact I]. inversion HB1; subst g' s'.
      apply D2 in HB2; [exact HB2 | exact Hlk]. }
    intros Hf Y Hlk.
    assert (Hf2 : frag src2 = true).
    { rewrite Epre in Hf. apply frag_suffix in Hf. eapply frag_tail; exact Hf. }
    cbn [read_arg_required app]. rewrite En, (opener_read_spacer c _ Hop), Ec.
    rewrite <- app_assoc. rewrite (Ug Hf2 (k2 ++ Y) I). cbn [bind].
    apply U2; [rewrite Eug in Hf2; eapply frag_suffix; exact Hf2 | exact Hlk].
  - destruct (0 <? nreq)%Z eqn:E0;
      [|apply Hstop; [right; right; exists c, src2; auto | exact H]].
    (* a bare token taken as argument: excluded by okargs *)
    destruct Hpre as (pre & Epre).
    destruct (is_tc TEscape c).
    + apply bind_ok in H. destruct H as ([[cname cargs] src3] & Hc & H).
      apply Cc in Hc; [|exact Hy2].
      apply Cr in H.
      * destruct H as (u2 & new2 & Eu2 & -> & _).
        destruct Hc as [(E1 & _ & _ & E4)|(nt & uc & E1 & _ & _)].
        -- rewrite E4 in Eu2. symmetry in Eu2. apply app_eq_nil in Eu2.
           destruct Eu2 as [-> ->].
           exists (pre ++ [c]), (ECmd (strip cname) [] [] (tpos c) :: new2).
           split; [rewrite Epre, E1, app_nil_r; reflexivity|].
           split; [rewrite <- app_assoc; reflexivity|]. intro Hok. apply okargs_cons in Hok.
           destruct Hok as (Hg1 & Hg2 & _). simpl in Hg1, Hg2. discriminate.
        -- exists (pre ++ c :: nt :: uc ++ u2), (ECmd (strip cname) [] [] (tpos c) :: new2).
           split; [rewrite Epre, E1, Eu2, <- !app_assoc; simpl; rewrite <- app_assoc; reflexivity|].
           split; [rewrite <- app_assoc; reflexivity|]. intro Hok. apply okargs_cons in Hok.
           destruct Hok as (Hg1 & Hg2 & _). simpl in Hg1, Hg2. discriminate.
      * destruct Hc as [(E1 & _ & _ & E4)|(nt & uc & E1 & _ & _)].
        -- subst src3. exact (Hyp_nil SK).
        -- rewrite E1 in Hy2. apply Hyp_tail in Hy2. eapply Hyp_suffix; exact Hy2.
    + apply Cr in H; [|exact Hy2]. destruct H as (u2 & new2 & Eu2 & -> & _).
      exists (pre ++ c :: u2), (EGroup GBrace [EStr (ttext c)] (-1) :: new2).
      split; [rewrite Epre, Eu2, <- app_assoc; reflexivity|].
      split; [rewrite <- app_assoc; reflexivity|]. intro Hok. apply okargs_cons in Hok.
      destruct Hok as (Hg1 & Hg2 & _). simpl in Hg1, Hg2. discriminate.
Qed.

Lemma ArgP_hd u k : ArgP u k -> (forall t l, u = t :: l -> is_tc TMergedSpacer t = false) ->
  forall r Y : list token, hd_error r = hd_error Y -> hd_error (u ++ r) = hd_error (k ++ Y).
Proof.
  intros [[-> ->]|(c & u' & k' & Hc & -> & Hu)] Hns r Y Hr; [exact Hr|].
  destruct Hu as [->|(sp & Hsp & ->)]; [reflexivity|].
  specialize (Hns sp _ eq_refl). congruence.
Qed.

(* the relation the two trailing steps of read_args need *)
Definition LKd (a b : list token) : Prop := LKs a b /\ hd_error a = hd_error b.

Lemma LK_LKd a b : LK a b -> LKd a b.
Proof. intros (H1 & _ & H3). split; assumption. Qed.

Lemma fp_args_S f : fp_all f -> fp_args (S f).
Proof.
  intros (Ce & Ci & Cm & Cv & Cc & Ca & Co & Cr & Cg & Cl).
  unfold fp_args. intros nreq nopt m toks args rest Hy H. simpl in H.
  destruct ((nreq =? 0)%Z && (nopt =? 0)%Z) eqn:E00.
  { inversion H; subst. exists []. split; [reflexivity|]. intros _.
    exists []. split; [apply KJarg_nil|]. split; [reflexivity|]. split.
    { intros g Y r _ HB. destruct g as [|g]; [discriminate HB|].
      cbn [read_args app] in HB. rewrite E00 in HB. inversion HB. reflexivity. }
    split; [|apply LKsP_nil].
    intros _ Y _. cbn [read_args app]. rewrite E00. reflexivity. }
  apply bind_ok in H. destruct H as ([[args1 nopt1] src1] & H1 & H).
  apply Co in H1; [|exact Hy]. destruct H1 as (u1 & new1 & Eu1 & -> & C1).
  assert (Hy1 : Hyp src1) by (rewrite Eu1 in Hy; eapply Hyp_suffix; exact Hy).
  apply bind_ok in H. destruct H as ([[args2 nreq1] src2] & H2 & H).
  apply Cr in H2; [|exact Hy1]. destruct H2 as (u2 & new2 & Eu2 & -> & C2).
  assert (Hy2 : Hyp src2) by (rewrite Eu2 in Hy1; eapply Hyp_suffix; exact Hy1).
  apply bind_ok in H. destruct H as ([[args3 n3] src3] & H3 & H).
  set (args2 := ([] ++ new1) ++ new2) in *.
  set (F3 := fun (g : nat) (l : list token) =>
               match l with
               | t :: _ => if is_tc TBracketBegin t
                           then read_arg_optional g args2 nopt1 true m l
                           else Ok (args2, nopt1, l)
               | [] => Ok (args2, nopt1, l)
               end).
  assert (S3 : exists u3 new3, src2 = u3 ++ src3 /\ args3 = args2 ++ new3 /\
     (okargs new3 = true -> exists k3, KJA u3 k3 /\ estr_list new3 = texts k3 /\ ArgP u3 k3 /\
        (forall t l, u3 = t :: l -> is_tc TMergedSpacer t = false) /\
        det F3 LKd k3 src3 (args3, n3) /\
        (frag src2 = true -> succ (F3 f) LKd k3 src3 (args3, n3)))).
  { destruct src2 as [|t2 ts2].
    { inversion H3; subst. exists [], []. split; [reflexivity|].
      split; [rewrite app_nil_r; reflexivity|]. intros _. exists [].
      split; [split; [apply KJarg_nil | apply APres_nil]|]. split; [reflexivity|]. split; [left; auto|].
      split; [intros t l E; discriminate E|].
      split.
      { intros g Y r (_ & Hh) HB. cbn [app] in HB. destruct Y; [|discriminate Hh].
        unfold F3 in HB. inversion HB. reflexivity. }
      intros _ Y (_ & Hh). cbn [app]. destruct Y; [|discriminate Hh]. reflexivity. }
    destruct (is_tc TBracketBegin t2) eqn:Et2.
    - apply Co in H3; [|exact Hy2]. destruct H3 as (u3 & new3 & Eu3 & -> & C3).
      exists u3, new3. split; [exact Eu3|]. split; [reflexivity|].
      intro Hok. destruct (C3 Hok) as (k3 & K3 & T3 & A3 & D3 & U3).
      assert (Hns : forall t l, u3 = t :: l -> is_tc TMergedSpacer t = false).
      { intros t l E. rewrite E in Eu3. inversion Eu3; subst t.
        eapply is_tc_excl; [exact Et2 | discriminate]. }
      exists k3. split; [exact K3|]. split; [exact T3|]. split; [exact A3|].
      split; [exact Hns|].
      split.
      { intros g Y r (Hl & Hh) HB.
        pose proof (ArgP_hd _ _ A3 Hns _ _ Hh) as Hhd. rewrite <- Eu3 in Hhd. cbn [hd_error] in Hhd.
        unfold F3 in HB. destruct (k3 ++ Y) as [|t' l'] eqn:EL; [discriminate Hhd|].
        inversion Hhd; subst t'. rewrite Et2 in HB. rewrite <- EL in HB.
        apply D3 in HB; [exact HB | exact Hl]. }
      intros Hf Y (Hl & Hh).
      pose proof (ArgP_hd _ _ A3 Hns _ _ Hh) as Hhd. rewrite <- Eu3 in Hhd. cbn [hd_error] in Hhd.
      unfold F3. destruct (k3 ++ Y) as [|t' l'] eqn:EL; [discriminate Hhd|].
      inversion Hhd; subst t'. rewrite Et2. rewrite <- EL.
      apply U3; [exact Hf | exact Hl].
    - inversion H3; subst. exists [], []. split; [reflexivity|].
      split; [rewrite app_nil_r; reflexivity|]. intros _. exists [].
      split; [split; [apply KJarg_nil | apply APres_nil]|]. split; [reflexivity|]. split; [left; auto|].
      split; [intros t l E; discriminate E|].
      split.
      { intros g Y r (_ & Hh) HB. cbn [app] in HB. destruct Y as [|y Y']; [discriminate Hh|].
        cbn [hd_error] in Hh. inversion Hh; subst y.
        unfold F3 in HB. rewrite Et2 in HB. inversion HB. reflexivity. }
      intros _ Y (_ & Hh). cbn [app]. destruct Y as [|y Y']; [discriminate Hh|].
      cbn [hd_error] in Hh. inversion Hh; subst y. unfold F3. rewrite Et2. reflexivity. }
  destruct S3 as (u3 & new3 & Eu3 & -> & C3).
  assert (Hy3 : Hyp src3) by (rewrite Eu3 in Hy2; eapply Hyp_suffix; exact Hy2).
  apply bind_ok in H. destruct H as ([[args4 n4] src4] & H4 & H).
  inversion H; subst args4 src4. clear H.
  set (args3 := args2 ++ new3) in *.
  set (F4 := fun (g : nat) (l : list token) =>
               match l with
               | t :: _ => if is_tc TGroupBegin t
                           then read_arg_required g args3 nreq1 true m l
                           else Ok (args3, nreq1, l)
               | [] => Ok (args3, nreq1, l)
               end).
  assert (S4 : exists u4 new4, src3 = u4 ++ rest /\ args = args3 ++ new4 /\
     (okargs new4 = true -> exists k4, KJA u4 k4 /\ estr_list new4 = texts k4 /\ ArgP u4 k4 /\
        (forall t l, u4 = t :: l -> is_tc TMergedSpacer t = false) /\
        det F4 LKd k4 rest (args, n4) /\
        (frag src3 = true -> succ (F4 f) LKd k4 rest (args, n4)))).
  { destruct src3 as [|t3 ts3].
    { inversion H4; subst. exists [], []. split; [reflexivity|].
      split; [rewrite app_nil_r; reflexivity|]. intros _. exists [].
      split; [split; [apply KJarg_nil | apply APres_nil]|]. split; [reflexivity|]. split; [left; auto|].
      split; [intros t l E; discriminate E|].
      split.
      { intros g Y r (_ & Hh) HB. cbn [app] in HB. destruct Y; [|discriminate Hh].
        unfold F4 in HB. inversion HB. reflexivity. }
      intros _ Y (_ & Hh). cbn [app]. destruct Y; [|discriminate Hh]. reflexivity. }
    destruct (is_tc TGroupBegin t3) eqn:Et3.
    - apply Cr in H4; [|exact Hy3]. destruct H4 as (u4 & new4 & Eu4 & -> & C4).
      exists u4, new4. split; [exact Eu4|]. split; [reflexivity|].
      intro Hok. destruct (C4 Hok) as (k4 & K4 & T4 & A4 & D4 & U4).
      assert (Hns : forall t l, u4 = t :: l -> is_tc TMergedSpacer t = false).
      { intros t l E. rewrite E in Eu4. inversion Eu4; subst t.
        eapply is_tc_excl; [exact Et3 | discriminate]. }
      exists k4. split; [exact K4|]. split; [exact T4|]. split; [exact A4|].
      split; [exact Hns|].
      split.
      { intros g Y r (Hl & Hh) HB.
        pose proof (ArgP_hd _ _ A4 Hns _ _ Hh) as Hhd. rewrite <- Eu4 in Hhd. cbn [hd_error] in Hhd.
        unfold F4 in HB. destruct (k4 ++ Y) as [|t' l'] eqn:EL; [discriminate Hhd|].
        inversion Hhd; subst t'. rewrite Et3 in HB. rewrite <- EL in HB.
        apply D4 in HB; [exact HB | exact Hl]. }
      intros Hf Y (Hl & Hh).
      pose proof (ArgP_hd _ _ A4 Hns _ _ Hh) as Hhd. rewrite <- Eu4 in Hhd. cbn [hd_error] in Hhd.
      unfold F4. destruct (k4 ++ Y) as [|t' l'] eqn:EL; [discriminate Hhd|].
      inversion Hhd; subst t'. rewrite Et3. rewrite <- EL.
      apply U4; [exact Hf | exact Hl].
    - inversion H4; subst. exists [], []. split; [reflexivity|].
      split; [rewrite app_nil_r; reflexivity|]. intros _. exists [].
      split; [split; [apply KJarg_nil | apply APres_nil]|]. split; [reflexivity|]. split; [left; auto|].
      split; [intros t l E; discriminate E|].
      split.
      { intros g Y r (_ & Hh) HB. cbn [app] in HB. destruct Y as [|y Y']; [discriminate Hh|].
        cbn [hd_error] in Hh. inversion Hh; subst y.
        unfold F4 in HB. rewrite Et3 in HB. inversion HB. reflexivity. }
      intros _ Y (_ & Hh). cbn [app]. destruct Y as [|y Y']; [discriminate Hh|].
      cbn [hd_error] in Hh. inversion Hh; subst y. unfold F4. rewrite Et3. reflexivity. }
  destruct S4 as (u4 & new4 & Eu4 & -> & C4).
  exists (u1 ++ u2 ++ u3 ++ u4).
  split; [rewrite Eu1, Eu2, Eu3, Eu4, <- !app_assoc; reflexivity|].
  intro Hok. unfold args3, args2 in Hok.
  apply okargs_app in Hok. destruct Hok as [Hok H4ok].
  apply okargs_app in Hok. destruct Hok as [Hok H3ok].
  apply okargs_app in Hok. destruct Hok as [H1ok H2ok]. cbn [app] in H1ok.
  destruct (C1 H1ok) as (k1 & K1 & T1 & A1 & D1 & U1).
  destruct (C2 H2ok) as (k2 & K2 & T2 & A2 & D2 & U2).
  destruct (C3 H3ok) as (k3 & K3 & T3 & A3 & N3 & D3 & U3).
  destruct (C4 H4ok) as (k4 & K4 & T4 & A4 & N4 & D4 & U4).
  exists (k1 ++ k2 ++ k3 ++ k4).
  destruct K1 as [K1 Q1]. destruct K2 as [K2 Q2]. destruct K3 as [K3 Q3]. destruct K4 as [K4 Q4].
  split; [apply KJarg_app; [exact K1 | exact Q1|]; apply KJarg_app; [exact K2 | exact Q2|];
          apply KJarg_app; assumption|].
  split.
  { unfold args3, args2. rewrite !estr_list_app, !texts_app, T1, T2, T3, T4, <- !app_assoc.
    reflexivity. }
  split.
  2:{ split.
      2:{ repeat apply LKsP_app; apply ArgP_LKsP; assumption. }
      intros Hf Y Hlk. cbn [read_args]. rewrite E00. rewrite <- !app_assoc.
      pose proof (LK_LKd _ _ Hlk) as (Hls & Hlh).
      pose proof (ArgP_LKsP _ _ A4 _ _ Hls) as L4.
      pose proof (ArgP_LKsP _ _ A3 _ _ L4) as L3.
      pose proof (ArgP_LKsP _ _ A2 _ _ L3) as L2.
      assert (Hf1 : frag src1 = true) by (rewrite Eu1 in Hf; eapply frag_suffix; exact Hf).
      assert (Hf2 : frag src2 = true) by (rewrite Eu2 in Hf1; eapply frag_suffix; exact Hf1).
      assert (Hf3 : frag src3 = true) by (rewrite Eu3 in Hf2; eapply frag_suffix; exact Hf2).
      rewrite (U1 Hf (k2 ++ k3 ++ k4 ++ Y)); [|rewrite Eu2, Eu3, Eu4; exact L2]. cbn [bind].
      rewrite (U2 Hf1 (k3 ++ k4 ++ Y)); [|rewrite Eu3, Eu4; exact L3]. cbn [bind].
      change (bind (F3 f (k3 ++ k4 ++ Y))
                (fun '(args3, _, src3) =>
                   bind match src3 with
                        | t :: _ => if is_tc TGroupBegin t
                                    then read_arg_required f args3 nreq1 true m src3
                                    else Ok (args3, nreq1, src3)
                        | [] => Ok (args3, nreq1, src3)
                        end (fun '(args4, _, src4) => Ok (args4, src4))) = Ok (args3 ++ new4, Y)).
      rewrite (U3 Hf2 (k4 ++ Y));
        [|split; [rewrite Eu4; exact L4 | rewrite Eu4; apply (ArgP_hd _ _ A4 N4); exact Hlh]].
      cbn [bind]. change (bind (F4 f (k4 ++ Y)) (fun '(args4, _, src4) => Ok (args4, src4))
                          = Ok (args3 ++ new4, Y)).
      rewrite (U4 Hf3 Y); [|split; assumption]. reflexivity. }
  intros g Y r Hlk HB. destruct g as [|g]; [discriminate HB|].
  cbn [read_args] in HB. rewrite E00 in HB. rewrite <- !app_assoc in HB.
  pose proof (LK_LKd _ _ Hlk) as (Hls & Hlh).
  pose proof (ArgP_LKsP _ _ A4 _ _ Hls) as L4.
  pose proof (ArgP_LKsP _ _ A3 _ _ L4) as L3.
  pose proof (ArgP_LKsP _ _ A2 _ _ L3) as L2.
  apply bind_ok in HB. destruct HB as ([[a1' n1'] s1'] & HB1 & HB).
  apply D1 in HB1; [|rewrite Eu2, Eu3, Eu4; exact L2]. inversion HB1; subst a1' n1' s1'.
  apply bind_ok in HB. destruct HB as ([[a2' n2'] s2'] & HB2 & HB).
  apply D2 in HB2; [|rewrite Eu3, Eu4; exact L3]. inversion HB2; subst a2' n2' s2'.
  apply bind_ok in HB. destruct HB as ([[a3' n3'] s3'] & HB3 & HB).
  change (F3 g (k3 ++ k4 ++ Y) = Ok (a3', n3', s3')) in HB3.
  apply D3 in HB3; [|split; [rewrite Eu4; exact L4 | rewrite Eu4; apply (ArgP_hd _ _ A4 N4); exact Hlh]].
  inversion HB3; subst a3' n3' s3'.
  apply bind_ok in HB. destruct HB as ([[a4' n4'] s4'] & HB4 & HB).
  change (F4 g (k4 ++ Y) = Ok (a4', n4', s4')) in HB4.
  apply D4 in HB4; [|split; assumption]. inversion HB4; subst a4' n4' s4'.
  inversion HB. reflexivity.
Qed.

Lemma fp_command_S f : fp_all f -> fp_command (S f).
Proof.
  intros (Ce & Ci & Cm & Cv & Cc & Ca & Co & Cr & Cg & Cl).
  unfold fp_command. intros nreq nopt m toks name args rest Hy H.
  cbn [read_command] in H. change (skipn 0 toks) with toks in H.
  replace (length toks <? 0)%nat with false in H by (symmetry; apply Nat.ltb_ge; lia).
  destruct toks as [|nt src]; [inversion H; auto|]. right.
  destruct (if (nreq <? 0)%Z && (nopt <? 0)%Z then signature_of (ttext nt) else (nreq, nopt))
    as [nr no] eqn:Esig.
  apply bind_ok in H. destruct H as ([args1 src1] & Ha & H). inversion H; subst.
  apply Ca in Ha; [|eapply Hyp_tail; exact Hy]. destruct Ha as (used & Eu & C).
  exists nt, used. split; [rewrite Eu; reflexivity|]. split; [reflexivity|].
  intro Hok. destruct (C Hok) as (kept & K & T & D & U & LS).
  exists kept. split.
  { intros e He. apply K. right. exists e. auto. }
  split; [exact T|]. split.
  { intros g Y r Hlk HB. destruct g as [|g]; [discriminate HB|].
    cbn [read_command app] in HB. change (skipn 0 (nt :: kept ++ Y)) with (nt :: kept ++ Y) in HB.
    replace (length (nt :: kept ++ Y) <? 0)%nat with false in HB
      by (symmetry; apply Nat.ltb_ge; lia).
    cbv beta iota in HB. rewrite Esig in HB.
    apply bind_ok in HB. destruct HB as ([a' s'] & HB1 & HB).
    apply D in HB1; [|exact Hlk]. inversion HB1; subst a' s'. inversion HB. reflexivity. }
  split; [|exact LS]. intros Hf Y Hlk.
  cbn [read_command app]. change (skipn 0 (nt :: kept ++ Y)) with (nt :: kept ++ Y).
  replace (length (nt :: kept ++ Y) <? 0)%nat with false by (symmetry; apply Nat.ltb_ge; lia).
  cbv beta iota. rewrite Esig. rewrite (U (frag_tail _ _ Hf) Y Hlk). reflexivity.
Qed.

Definition name_of (l : list token) : str := match l with nt :: _ => ttext nt | [] => [] end.

Lemma name_of_hd a b : hd_error a = hd_error b -> name_of a = name_of b.
Proof. destruct a, b; simpl; intro H; try discriminate H; [reflexivity|]. inversion H. reflexivity. Qed.

Lemma peek_name' g nr no m t l cn a r :
  read_command g nr no 1 true m (t :: l) = Ok ((cn, a), r) -> cn = name_of l.
Proof. apply peek_name. Qed.

(* the peeked name is the same in the second run *)
Lemma LK_peek t src L g1 g2 nr no m1 m2 cn1 a1 r1 cn2 a2 r2 :
  LK (t :: src) L -> is_tc TEscape t = true ->
  read_command g1 nr no 1 true m1 (t :: src) = Ok ((cn1, a1), r1) ->
  read_command g2 nr no 1 true m2 L = Ok ((cn2, a2), r2) -> cn2 = cn1.
Proof.
  intros Hlk Ht H1 H2. destruct (LK_hd _ _ _ _ Hlk eq_refl) as (l' & ->).
  apply peek_name' in H1. apply peek_name' in H2. subst.
  apply name_of_hd. destruct Hlk as (_ & Hk & _). symmetry. exact (Hk t eq_refl Ht).
Qed.

Lemma LKs_refl a : LKs a a.
Proof. reflexivity. Qed.

(* ----------------------------------- the peek at `\end{name}`, forwards *)

Lemma text_not_closer n : is_tc TText n = true ->
  is_group_end GBrace n = false /\ math_kind_of_begin (tcat n) = None /\
  is_tc TEscape n = false /\ is_tc TGroupBegin n = false.
Proof.
  intro H. apply is_tc_eq in H. unfold is_group_end, is_tc. rewrite brace_end_is, H.
  repeat split; reflexivity.
Qed.

Lemma simple_group_fwd f c m n cl Y :
  group_kind_of_begin (tcat c) = Some GBrace ->
  is_tc TText n = true -> is_tc TGroupEnd cl = true ->
  read_arg (S (S (S f))) c true m (n :: cl :: Y) = Ok (EGroup GBrace [EText n] (tpos c), Y).
Proof.
  intros Hk Hn Hcl. destruct (text_not_closer n Hn) as (N1 & N2 & N3 & N4).
  assert (Hce : is_group_end GBrace cl = true).
  { unfold is_group_end. rewrite brace_end_is. exact Hcl. }
  cbn [read_arg]. rewrite Hk. cbn [read_arg_loop]. rewrite N1. cbn [read_expr].
  rewrite N2, N3, N4. cbn [bind app]. rewrite Hce. reflexivity.
Qed.

Lemma noarg_after Y : noarg Y = true ->
  after_spacer Y = [] \/
  exists c l, after_spacer Y = c :: l /\ is_tc TGroupBegin c = false /\ is_tc TBracketBegin c = false.
Proof.
  unfold noarg, hdc. destruct (after_spacer Y) as [|c l]; [auto|]. cbn [hd_error option_map].
  intro H. right. exists c, l. split; [reflexivity|]. unfold is_tc.
  destruct (tcat c); try discriminate H; split; reflexivity.
Qed.

Lemma noarg_hd y Y' : noarg (y :: Y') = true ->
  is_tc TBracketBegin y = false /\ is_tc TGroupBegin y = false.
Proof.
  intro H. destruct (is_tc TMergedSpacer y) eqn:Es.
  - split; eapply is_tc_excl; try exact Es; discriminate.
  - apply noarg_after in H. rewrite after_spacer_cons, Es in H.
    destruct H as [H|(c & l & H & H1 & H2)]; [discriminate H|]. inversion H; subst. auto.
Qed.

Lemma end_plain nm : ttext nm = s_end ->
  signature_of (ttext nm) = ((-1)%Z, (-1)%Z) /\ mem_str (ttext nm) Tables.special_commands = false.
Proof. intros ->. split; vm_compute; reflexivity. Qed.

Lemma req_take f args nreq m c l g s :
  (nreq =? 0)%Z = false -> is_tc TGroupBegin c = true ->
  read_arg f c true m l = Ok (g, s) ->
  read_arg_required (S f) args nreq true m (c :: l) =
  read_arg_required f (args ++ [g]) (nreq - 1) true m s.
Proof.
  intros Hn Hc H. cbn [read_arg_required]. rewrite Hn.
  assert (Hop : is_opener c = true) by (unfold is_opener; rewrite Hc; reflexivity).
  rewrite (opener_read_spacer c _ Hop), Hc, H. reflexivity.
Qed.

Lemma peek_end_fwd f m t nm c n cl Y :
  ttext nm = s_end -> is_tc TGroupBegin c = true -> is_tc TText n = true ->
  is_tc TGroupEnd cl = true -> noarg Y = true ->
  read_command (6 + f) (-1) (-1) 1 true m (t :: nm :: c :: n :: cl :: Y) =
  Ok ((ttext nm, [EGroup GBrace [EText n] (tpos c)]), Y).
Proof.
  intros Tnm Hc Hn Hcl HY. destruct (end_plain nm Tnm) as [Hsig Hspec].
  assert (Hkc : group_kind_of_begin (tcat c) = Some GBrace).
  { apply is_tc_eq in Hc. rewrite Hc. exact gk_brace. }
  assert (Hop : is_opener c = true) by (unfold is_opener; rewrite Hc; reflexivity).
  assert (Hcb : is_tc TBracketBegin c = false) by (eapply is_tc_excl; [exact Hc | discriminate]).
  rewrite peek_shift. change (6 + f)%nat with (S (S (S (S (S (S f)))))).
  cbn [read_command]. change (skipn 0 (nm :: c :: n :: cl :: Y)) with (nm :: c :: n :: cl :: Y).
  replace (length (nm :: c :: n :: cl :: Y) <? 0)%nat with false by reflexivity.
  cbv beta iota. rewrite Hspec.
  replace ((-1 <? 0)%Z && (-1 <? 0)%Z) with true by reflexivity. rewrite Hsig.
  cbn [read_args]. replace ((-1 =? 0)%Z && (-1 =? 0)%Z) with false by reflexivity.
  (* optional pass *)
  rewrite (opt_stop_F _ [] (-1) m (c :: n :: cl :: Y) (c :: n :: cl :: Y) (LKs_refl _)).
  2:{ right. right. exists c, (n :: cl :: Y). rewrite after_spacer_cons.
      rewrite (opener_not_spacer c Hop). auto. }
  cbn [bind].
  (* required pass *)
  rewrite (req_take _ [] (-1) m c (n :: cl :: Y) _ _ eq_refl Hc
             (simple_group_fwd f c m n cl Y Hkc Hn Hcl)).
  cbn [app]. replace (-1 - 1)%Z with (-2)%Z by reflexivity.
  rewrite (req_stop_F _ [EGroup GBrace [EText n] (tpos c)] (-2) m Y Y (LKs_refl Y)).
  2:{ right. destruct (noarg_after Y HY) as [E|(c2 & l2 & E & G1 & _)]; [left; exact E|].
      right. exists c2, l2. auto. }
  cbn [bind].
  destruct Y as [|y Y']; [reflexivity|].
  destruct (noarg_hd y Y' HY) as [B1 B2]. rewrite B1. cbn [bind]. rewrite B2. reflexivity.
Qed.

(* the first run's peek went through the same six levels *)
Lemma peek_fuel f m t nm pre c n cl rest r :
  (pre = [] \/ exists sp, is_tc TMergedSpacer sp = true /\ pre = [sp]) ->
  ttext nm = s_end -> is_tc TGroupBegin c = true -> is_tc TText n = true ->
  read_command f (-1) (-1) 1 true m (t :: nm :: pre ++ c :: n :: cl :: rest) = Ok r ->
  exists f', f = (6 + f')%nat.
Proof.
  intros Hpre Tnm Hc Hn H. destruct (end_plain nm Tnm) as [Hsig Hspec].
  assert (Hkc : group_kind_of_begin (tcat c) = Some GBrace).
  { apply is_tc_eq in Hc. rewrite Hc. exact gk_brace. }
  assert (Hop : is_opener c = true) by (unfold is_opener; rewrite Hc; reflexivity).
  assert (Hcb : is_tc TBracketBegin c = false) by (eapply is_tc_excl; [exact Hc | discriminate]).
  destruct (text_not_closer n Hn) as (N1 & N2 & N3 & N4).
  set (X := pre ++ c :: n :: cl :: rest) in *.
  assert (Esp : exists b, read_spacer X = (b, c :: n :: cl :: rest)).
  { unfold X. destruct Hpre as [->|(sp & Hsp & ->)]; cbn [app].
    - exists false. apply opener_read_spacer. exact Hop.
    - exists true. unfold read_spacer. rewrite Hsp. reflexivity. }
  destruct Esp as (b & Esp).
  assert (HX : exists x0 xs, X = x0 :: xs).
  { unfold X. destruct Hpre as [->|(sp & _ & ->)]; cbn [app]; eauto. }
  destruct HX as (x0 & xs & HX).
  rewrite peek_shift in H.
  destruct f as [|f1]; [discriminate H|]. cbn [read_command] in H.
  change (skipn 0 (nm :: X)) with (nm :: X) in H.
  replace (length (nm :: X) <? 0)%nat with false in H by reflexivity.
  cbv beta iota in H. rewrite Hspec in H.
  replace ((-1 <? 0)%Z && (-1 <? 0)%Z) with true in H by reflexivity. rewrite Hsig in H.
  apply bind_ok in H. destruct H as ([a s] & Ha & _).
  destruct f1 as [|f2]; [discriminate Ha|]. cbn [read_args] in Ha.
  replace ((-1 =? 0)%Z && (-1 =? 0)%Z) with false in Ha by reflexivity.
  apply bind_ok in Ha. destruct Ha as ([[a1 n1] s1] & Ho & Ha).
  destruct f2 as [|f3]; [discriminate Ho|]. cbn [read_arg_optional] in Ho.
  replace (-1 =? 0)%Z with false in Ho by reflexivity. rewrite Esp, Hcb in Ho.
  inversion Ho; subst a1 n1 s1. clear Ho.
  apply bind_ok in Ha. destruct Ha as ([[a2 n2] s2] & Hr & _).
  cbn [read_arg_required] in Hr. replace (-1 =? 0)%Z with false in Hr by reflexivity.
  rewrite HX in Hr. rewrite <- HX in Hr. rewrite Esp, Hc in Hr.
  apply bind_ok in Hr. destruct Hr as ([g s3] & Hg & _).
  destruct f3 as [|f4]; [discriminate Hg|]. cbn [read_arg] in Hg. rewrite Hkc in Hg.
  destruct f4 as [|f5]; [discriminate Hg|]. cbn [read_arg_loop] in Hg. rewrite N1 in Hg.
  apply bind_ok in Hg. destruct Hg as ([e s4] & He & _).
  destruct f5 as [|f6]; [discriminate He|]. exists f6. reflexivity.
Qed.

(* ------------------------------------ shallow peeks at `\item` / `\end` *)

Lemma stop_plain s : str_eqb s s_end || str_eqb s s_item = true ->
  signature_of s = ((-1)%Z, (-1)%Z) /\ mem_str s Tables.special_commands = false.
Proof.
  intro H. apply orb_true_iff in H. destruct H as [H|H]; apply str_eqb_eq in H; subst s;
    split; vm_compute; reflexivity.
Qed.

Lemma after_spacer_inv r x l : after_spacer r = x :: l ->
  r = x :: l \/ exists sp, is_tc TMergedSpacer sp = true /\ r = sp :: x :: l.
Proof.
  unfold after_spacer. destruct (read_spacer r) as [b s] eqn:E. cbn [snd]. intros ->.
  apply read_spacer_cases in E. destruct E as [E|(sp & E & Hsp)]; [left; exact E|].
  right. exists sp. auto.
Qed.

Lemma noarg_hd' Y : noarg Y = true ->
  match Y with
  | y :: _ => is_tc TBracketBegin y = false /\ is_tc TGroupBegin y = false
  | [] => True
  end.
Proof. destruct Y as [|y Y']; [trivial|]. apply noarg_hd. Qed.

(* nothing follows the name: the peek returns no arguments *)
Lemma peek_plain_fwd f m t nm r :
  str_eqb (ttext nm) s_end || str_eqb (ttext nm) s_item = true -> noarg r = true ->
  read_command (3 + f) (-1) (-1) 1 true m (t :: nm :: r) = Ok ((ttext nm, []), r).
Proof.
  intros Hn Hr. destruct (stop_plain _ Hn) as [Hsig Hspec].
  rewrite peek_shift. change (3 + f)%nat with (S (S (S f))).
  cbn [read_command]. change (skipn 0 (nm :: r)) with (nm :: r).
  replace (length (nm :: r) <? 0)%nat with false by reflexivity.
  cbv beta iota. rewrite Hspec.
  replace ((-1 <? 0)%Z && (-1 <? 0)%Z) with true by reflexivity. rewrite Hsig.
  cbn [read_args]. replace ((-1 =? 0)%Z && (-1 =? 0)%Z) with false by reflexivity.
  assert (Hc : after_spacer r = [] \/
               exists c l, after_spacer r = c :: l /\ is_tc TGroupBegin c = false /\
                           is_tc TBracketBegin c = false).
  { unfold noarg, hdc in Hr. destruct (after_spacer r) as [|c l]; [auto|]. right.
    exists c, l. split; [reflexivity|]. cbn [hd_error option_map] in Hr. unfold is_tc.
    destruct (tcat c); try discriminate Hr; split; reflexivity. }
  rewrite (opt_stop_F _ [] (-1) m r r (LKs_refl r)).
  2:{ right. destruct Hc as [E|(c & l & E & _ & G)]; [left; exact E|]. right. exists c, l. auto. }
  cbn [bind].
  rewrite (req_stop_F _ [] (-1) m r r (LKs_refl r)).
  2:{ right. destruct Hc as [E|(c & l & E & G & _)]; [left; exact E|]. right. exists c, l. auto. }
  cbn [bind]. pose proof (noarg_hd' r Hr) as Hh.
  destruct r as [|y r']; [reflexivity|]. destruct Hh as [B1 B2]. rewrite B1. cbn [bind].
  rewrite B2. reflexivity.
Qed.

Lemma peek_plain_fuel f m t nm r x :
  read_command f (-1) (-1) 1 true m (t :: nm :: r) = Ok x ->
  str_eqb (ttext nm) s_end || str_eqb (ttext nm) s_item = true ->
  exists f', f = (3 + f')%nat.
Proof.
  intros H Hn. destruct (stop_plain _ Hn) as [Hsig Hspec]. rewrite peek_shift in H.
  destruct f as [|f1]; [discriminate H|]. cbn [read_command] in H.
  change (skipn 0 (nm :: r)) with (nm :: r) in H.
  replace (length (nm :: r) <? 0)%nat with false in H by reflexivity.
  cbv beta iota in H. rewrite Hspec in H.
  replace ((-1 <? 0)%Z && (-1 <? 0)%Z) with true in H by reflexivity. rewrite Hsig in H.
  apply bind_ok in H. destruct H as ([a s] & Ha & _).
  destruct f1 as [|f2]; [discriminate Ha|]. cbn [read_args] in Ha.
  replace ((-1 =? 0)%Z && (-1 =? 0)%Z) with false in Ha by reflexivity.
  apply bind_ok in Ha. destruct Ha as ([[a1 n1] s1] & Ho & _).
  destruct f2 as [|f3]; [discriminate Ho|]. exists f3. reflexivity.
Qed.

(* one simple name group follows, then nothing: the peek reads exactly it *)
Lemma peek_group_fwd f m t nm r c n cl Z :
  ttext nm = s_end -> after_spacer r = c :: n :: cl :: Z ->
  simple_name_group (c :: n :: cl :: Z) = true -> noarg Z = true ->
  read_command (6 + f) (-1) (-1) 1 true m (t :: nm :: r) =
  Ok ((ttext nm, [EGroup GBrace [EText n] (tpos c)]), Z).
Proof.
  intros Tnm Has Hs HZ.
  unfold simple_name_group in Hs.
  apply andb_true_iff in Hs. destruct Hs as [Hs Hcl].
  apply andb_true_iff in Hs. destruct Hs as [Hs _].
  apply andb_true_iff in Hs. destruct Hs as [Hc Hn].
  assert (Hstop : str_eqb (ttext nm) s_end || str_eqb (ttext nm) s_item = true).
  { rewrite Tnm. reflexivity. }
  destruct (stop_plain _ Hstop) as [Hsig Hspec].
  assert (Hkc : group_kind_of_begin (tcat c) = Some GBrace).
  { apply is_tc_eq in Hc. rewrite Hc. exact gk_brace. }
  assert (Hcb : is_tc TBracketBegin c = false) by (eapply is_tc_excl; [exact Hc | discriminate]).
  assert (Esp : exists b, read_spacer r = (b, c :: n :: cl :: Z)).
  { unfold after_spacer in Has. destruct (read_spacer r) as [b s]. cbn [snd] in Has. subst s.
    eauto. }
  destruct Esp as (b & Esp).
  assert (Hr : exists x0 xs, r = x0 :: xs).
  { destruct (after_spacer_inv _ _ _ Has) as [E|(sp & _ & E)]; rewrite E; eauto. }
  destruct Hr as (x0 & xs & Hr).
  rewrite peek_shift. change (6 + f)%nat with (S (S (S (S (S (S f)))))).
  cbn [read_command]. change (skipn 0 (nm :: r)) with (nm :: r).
  replace (length (nm :: r) <? 0)%nat with false by reflexivity.
  cbv beta iota. rewrite Hspec.
  replace ((-1 <? 0)%Z && (-1 <? 0)%Z) with true by reflexivity. rewrite Hsig.
  cbn [read_args]. replace ((-1 =? 0)%Z && (-1 =? 0)%Z) with false by reflexivity.
  rewrite (opt_stop_F _ [] (-1) m r r (LKs_refl r)).
  2:{ right. right. exists c, (n :: cl :: Z). auto. }
  cbn [bind].
  (* required pass: one step by hand (a spacer may precede the group) *)
  assert (Hreq : read_arg_required (S (S (S (S f)))) [] (-1) true m r =
                 read_arg_required (S (S (S f))) ([] ++ [EGroup GBrace [EText n] (tpos c)])
                                   (-1 - 1) true m Z).
  { cbn [read_arg_required]. replace (-1 =? 0)%Z with false by reflexivity.
    rewrite Hr. rewrite <- Hr. rewrite Esp, Hc.
    rewrite (simple_group_fwd f c m n cl Z Hkc Hn Hcl). reflexivity. }
  rewrite Hreq. cbn [app]. replace (-1 - 1)%Z with (-2)%Z by reflexivity.
  rewrite (req_stop_F _ [EGroup GBrace [EText n] (tpos c)] (-2) m Z Z (LKs_refl Z)).
  2:{ right. destruct (noarg_after Z HZ) as [E|(c2 & l2 & E & G1 & _)]; [left; exact E|].
      right. exists c2, l2. auto. }
  cbn [bind]. pose proof (noarg_hd' Z HZ) as Hh.
  destruct Z as [|y Z']; [reflexivity|]. destruct Hh as [B1 B2]. rewrite B1. cbn [bind].
  rewrite B2. reflexivity.
Qed.

(* what pvk = Some k says about the tokens *)
Lemma pvk_stop t nm r k :
  is_tc TEscape t = true ->
  str_eqb (ttext nm) s_end || str_eqb (ttext nm) s_item = true ->
  pvk (t :: nm :: r) = Some k ->
  (k = KPlain /\ noarg r = true) \/
  (k = KGroup /\ ttext nm = s_end /\ exists c n cl Z,
     after_spacer r = c :: n :: cl :: Z /\ simple_name_group (c :: n :: cl :: Z) = true /\
     noarg Z = true) \/
  (k = KBracket /\ ttext nm = s_item /\ exists c n cl Z,
     after_spacer r = c :: n :: cl :: Z /\ simple_bracket (c :: n :: cl :: Z) = true /\
     noarg Z = true).
Proof.
  intros Et Hn H. cbn [pvk] in H. rewrite Et in H.
  destruct (str_eqb (ttext nm) s_item) eqn:Ei.
  - unfold itemk in H. destruct (noarg r) eqn:En; [inversion H; left; auto|].
    destruct (after_spacer r) as [|c [|n [|cl Z]]] eqn:Ea; try discriminate H.
    destruct (simple_bracket (c :: n :: cl :: Z) && noarg Z) eqn:E; [|discriminate H].
    inversion H. apply andb_true_iff in E. destruct E as [E1 E2]. right. right.
    split; [reflexivity|]. split; [apply str_eqb_eq; exact Ei|]. exists c, n, cl, Z. auto.
  - rewrite orb_false_r in Hn. rewrite Hn in H. unfold endk in H.
    destruct (after_spacer r) as [|c l'] eqn:Ea.
    + inversion H. left. split; [reflexivity|]. unfold noarg. rewrite Ea. reflexivity.
    + destruct (is_opener c) eqn:Eo.
      * destruct l' as [|n [|cl Z]]; try discriminate H.
        destruct (simple_name_group (c :: n :: cl :: Z) && noarg Z) eqn:E; [|discriminate H].
        inversion H. apply andb_true_iff in E. destruct E as [E1 E2]. right. left.
        split; [reflexivity|]. split; [apply str_eqb_eq; exact Hn|].
        exists c, n, cl, Z. auto.
      * inversion H. left. split; [reflexivity|]. unfold noarg, hdc. rewrite Ea.
        cbn [hd_error option_map]. unfold is_opener, is_tc in Eo.
        destruct (tcat c); try reflexivity; discriminate Eo.
Qed.

Lemma bracket_end_is : group_tok_end GBracket = Some TBracketEnd.
Proof. vm_compute. reflexivity. Qed.

Lemma simple_bracket_fwd f c m n cl Y :
  group_kind_of_begin (tcat c) = Some GBracket ->
  is_tc TText n = true -> is_tc TBracketEnd cl = true ->
  read_arg (S (S (S f))) c true m (n :: cl :: Y) = Ok (EGroup GBracket [EText n] (tpos c), Y).
Proof.
  intros Hk Hn Hcl. destruct (text_not_closer n Hn) as (_ & N2 & N3 & N4).
  assert (N1 : is_group_end GBracket n = false).
  { apply is_tc_eq in Hn. unfold is_group_end, is_tc. rewrite bracket_end_is, Hn. reflexivity. }
  assert (Hce : is_group_end GBracket cl = true).
  { unfold is_group_end. rewrite bracket_end_is. exact Hcl. }
  cbn [read_arg]. rewrite Hk. cbn [read_arg_loop]. rewrite N1. cbn [read_expr].
  rewrite N2, N3, N4. cbn [bind app]. rewrite Hce. reflexivity.
Qed.

Lemma simple_bracket_parts c n cl Z : simple_bracket (c :: n :: cl :: Z) = true ->
  is_tc TBracketBegin c = true /\ is_tc TText n = true /\ is_tc TBracketEnd cl = true.
Proof.
  unfold simple_bracket. intro H. apply andb_true_iff in H. destruct H as [H H3].
  apply andb_true_iff in H. destruct H as [H1 H2]. auto.
Qed.

(* `\item` + one simple label, then nothing: the peek reads exactly the label *)
Lemma peek_bracket_fwd f m t nm r c n cl Z :
  ttext nm = s_item -> after_spacer r = c :: n :: cl :: Z ->
  simple_bracket (c :: n :: cl :: Z) = true -> noarg Z = true ->
  read_command (6 + f) (-1) (-1) 1 true m (t :: nm :: r) =
  Ok ((ttext nm, [EGroup GBracket [EText n] (tpos c)]), Z).
Proof.
  intros Tnm Has Hs HZ. destruct (simple_bracket_parts _ _ _ _ Hs) as (Hc & Hn & Hcl).
  assert (Hstop : str_eqb (ttext nm) s_end || str_eqb (ttext nm) s_item = true).
  { rewrite Tnm. reflexivity. }
  destruct (stop_plain _ Hstop) as [Hsig Hspec].
  assert (Hkc : group_kind_of_begin (tcat c) = Some GBracket).
  { apply is_tc_eq in Hc. rewrite Hc. exact gk_bracket. }
  assert (Esp : exists b, read_spacer r = (b, c :: n :: cl :: Z)).
  { unfold after_spacer in Has. destruct (read_spacer r) as [b s]. cbn [snd] in Has. subst s.
    eauto. }
  destruct Esp as (b & Esp).
  rewrite peek_shift. change (6 + f)%nat with (S (S (S (S (S (S f)))))).
  cbn [read_command]. change (skipn 0 (nm :: r)) with (nm :: r).
  replace (length (nm :: r) <? 0)%nat with false by reflexivity.
  cbv beta iota. rewrite Hspec.
  replace ((-1 <? 0)%Z && (-1 <? 0)%Z) with true by reflexivity. rewrite Hsig.
  cbn [read_args]. replace ((-1 =? 0)%Z && (-1 =? 0)%Z) with false by reflexivity.
  (* optional pass: one step by hand *)
  assert (Hopt : read_arg_optional (S (S (S (S f)))) [] (-1) true m r =
                 read_arg_optional (S (S (S f))) ([] ++ [EGroup GBracket [EText n] (tpos c)])
                                   (-1 - 1) true m Z).
  { cbn [read_arg_optional]. replace (-1 =? 0)%Z with false by reflexivity.
    rewrite Esp, Hc. rewrite (simple_bracket_fwd f c m n cl Z Hkc Hn Hcl). reflexivity. }
  rewrite Hopt. cbn [app]. replace (-1 - 1)%Z with (-2)%Z by reflexivity.
  destruct (noarg_after Z HZ) as [E|(c2 & l2 & E & G1 & G2)].
  - rewrite (opt_stop_F _ _ (-2) m Z Z (LKs_refl Z)); [|right; left; exact E]. cbn [bind].
    rewrite (req_stop_F _ _ (-1) m Z Z (LKs_refl Z)); [|right; left; exact E]. cbn [bind].
    pose proof (noarg_hd' Z HZ) as Hh.
    destruct Z as [|y Z']; [reflexivity|]. destruct Hh as [B1 B2]. rewrite B1. cbn [bind].
    rewrite B2. reflexivity.
  - rewrite (opt_stop_F _ _ (-2) m Z Z (LKs_refl Z)); [|right; right; exists c2, l2; auto].
    cbn [bind].
    rewrite (req_stop_F _ _ (-1) m Z Z (LKs_refl Z)); [|right; right; exists c2, l2; auto].
    cbn [bind]. pose proof (noarg_hd' Z HZ) as Hh.
    destruct Z as [|y Z']; [reflexivity|]. destruct Hh as [B1 B2]. rewrite B1. cbn [bind].
    rewrite B2. reflexivity.
Qed.

Lemma peek_fuel_bracket f m t nm pre c n cl rest r :
  (pre = [] \/ exists sp, is_tc TMergedSpacer sp = true /\ pre = [sp]) ->
  ttext nm = s_item -> is_tc TBracketBegin c = true -> is_tc TText n = true ->
  read_command f (-1) (-1) 1 true m (t :: nm :: pre ++ c :: n :: cl :: rest) = Ok r ->
  exists f', f = (6 + f')%nat.
Proof.
  intros Hpre Tnm Hc Hn H.
  assert (Hstop : str_eqb (ttext nm) s_end || str_eqb (ttext nm) s_item = true).
  { rewrite Tnm. reflexivity. }
  destruct (stop_plain _ Hstop) as [Hsig Hspec].
  assert (Hkc : group_kind_of_begin (tcat c) = Some GBracket).
  { apply is_tc_eq in Hc. rewrite Hc. exact gk_bracket. }
  assert (Hop : is_opener c = true) by (unfold is_opener; rewrite Hc; apply orb_true_r).
  assert (N1 : is_group_end GBracket n = false).
  { apply is_tc_eq in Hn. unfold is_group_end, is_tc. rewrite bracket_end_is, Hn. reflexivity. }
  set (X := pre ++ c :: n :: cl :: rest) in *.
  assert (Esp : exists b, read_spacer X = (b, c :: n :: cl :: rest)).
  { unfold X. destruct Hpre as [->|(sp & Hsp & ->)]; cbn [app].
    - exists false. apply opener_read_spacer. exact Hop.
    - exists true. unfold read_spacer. rewrite Hsp. reflexivity. }
  destruct Esp as (b & Esp).
  rewrite peek_shift in H.
  destruct f as [|f1]; [discriminate H|]. cbn [read_command] in H.
  change (skipn 0 (nm :: X)) with (nm :: X) in H.
  replace (length (nm :: X) <? 0)%nat with false in H by reflexivity.
  cbv beta iota in H. rewrite Hspec in H.
  replace ((-1 <? 0)%Z && (-1 <? 0)%Z) with true in H by reflexivity. rewrite Hsig in H.
  apply bind_ok in H. destruct H as ([a s] & Ha & _).
  destruct f1 as [|f2]; [discriminate Ha|]. cbn [read_args] in Ha.
  replace ((-1 =? 0)%Z && (-1 =? 0)%Z) with false in Ha by reflexivity.
  apply bind_ok in Ha. destruct Ha as ([[a1 n1] s1] & Ho & _).
  destruct f2 as [|f3]; [discriminate Ho|]. cbn [read_arg_optional] in Ho.
  replace (-1 =? 0)%Z with false in Ho by reflexivity. rewrite Esp, Hc in Ho.
  apply bind_ok in Ho. destruct Ho as ([g s3] & Hg & _).
  destruct f3 as [|f4]; [discriminate Hg|]. cbn [read_arg] in Hg. rewrite Hkc in Hg.
  destruct f4 as [|f5]; [discriminate Hg|]. cbn [read_arg_loop] in Hg. rewrite N1 in Hg.
  apply bind_ok in Hg. destruct Hg as ([e s4] & He & _).
  destruct f5 as [|f6]; [discriminate He|]. exists f6. reflexivity.
Qed.

(* a stopping peek of the first run is matched by the second run *)
Lemma stop_peek_B f m t src Y x :
  is_tc TEscape t = true ->
  read_command f (-1) (-1) 1 true m (t :: src) = Ok x ->
  str_eqb (name_of src) s_end || str_eqb (name_of src) s_item = true ->
  LK (t :: src) Y -> frag (t :: src) = true -> PV (t :: src) Y ->
  exists a' r', read_command f (-1) (-1) 1 true m Y = Ok ((name_of src, a'), r').
Proof.
  intros Et Hpeek Hn Hlk Hf Hpv.
  destruct src as [|nm r]; [discriminate Hn|]. cbn [name_of] in *.
  destruct (LK_hd2 _ _ _ _ _ Hlk eq_refl Et) as (r' & ->).
  destruct (frag_pvk _ Hf) as (k & Hk). pose proof (Hpv k Hk) as Hk'.
  destruct (pvk_stop _ _ _ _ Et Hn Hk)
    as [(-> & _)|[(-> & Tnm & c & n & cl & Z & Ha & Hs & HZ)|(-> & Tnm & c & n & cl & Z & Ha & Hs & HZ)]].
  - destruct (pvk_stop _ _ _ _ Et Hn Hk') as [(_ & Hr')|[(E & _)|(E & _)]];
      [|discriminate E|discriminate E].
    destruct (peek_plain_fuel _ _ _ _ _ _ Hpeek Hn) as (f' & ->).
    rewrite (peek_plain_fwd f' m t nm r' Hn Hr'). eauto.
  - destruct (pvk_stop _ _ _ _ Et Hn Hk')
      as [(E & _)|[(_ & _ & c' & n' & cl' & Z' & Ha' & Hs' & HZ')|(E & _)]];
      [discriminate E| |discriminate E].
    assert (Hfuel : exists f', f = (6 + f')%nat).
    { pose proof Hs as Hs0. unfold simple_name_group in Hs0.
      apply andb_true_iff in Hs0. destruct Hs0 as [Hs0 Hcl].
      apply andb_true_iff in Hs0. destruct Hs0 as [Hs0 _].
      apply andb_true_iff in Hs0. destruct Hs0 as [Hc Hnn].
      destruct (after_spacer_inv _ _ _ Ha) as [E|(sp & Hsp & E)]; rewrite E in Hpeek.
      - eapply (peek_fuel f m t nm [] c n cl Z); [left; reflexivity | exact Tnm | exact Hc
                                                    | exact Hnn | exact Hpeek].
      - eapply (peek_fuel f m t nm [sp] c n cl Z);
          [right; exists sp; auto | exact Tnm | exact Hc | exact Hnn | exact Hpeek]. }
    destruct Hfuel as (f' & ->).
    rewrite (peek_group_fwd f' m t nm r' c' n' cl' Z' Tnm Ha' Hs' HZ'). eauto.
  - destruct (pvk_stop _ _ _ _ Et Hn Hk')
      as [(E & _)|[(E & _)|(_ & _ & c' & n' & cl' & Z' & Ha' & Hs' & HZ')]];
      [discriminate E|discriminate E|].
    assert (Hfuel : exists f', f = (6 + f')%nat).
    { destruct (simple_bracket_parts _ _ _ _ Hs) as (Hc & Hnn & _).
      destruct (after_spacer_inv _ _ _ Ha) as [E|(sp & Hsp & E)]; rewrite E in Hpeek.
      - eapply (peek_fuel_bracket f m t nm [] c n cl Z);
          [left; reflexivity | exact Tnm | exact Hc | exact Hnn | exact Hpeek].
      - eapply (peek_fuel_bracket f m t nm [sp] c n cl Z);
          [right; exists sp; auto | exact Tnm | exact Hc | exact Hnn | exact Hpeek]. }
    destruct Hfuel as (f' & ->).
    rewrite (peek_bracket_fwd f' m t nm r' c' n' cl' Z' Tnm Ha' Hs' HZ'). eauto.
Qed.

Lemma fp_item_S f : fp_all f -> fp_item (S f).
Proof.
  intros (Ce & Ci & Cm & Cv & Cc & Ca & Co & Cr & Cg & Cl).
  unfold fp_item. intros acc toks es rest Hy H. simpl in H.
  assert (Hstep : forall es rest,
    bind (read_expr f [] true MNonMath toks)
         (fun '(e, src1) => read_item_loop f (acc ++ [e]) src1) = Ok (es, rest) ->
    exists used new, toks = used ++ rest /\ es = acc ++ new /\ (forallb nobare new = true ->
      exists kept, KJall used kept /\ estr_list new = texts kept /\ LKP used kept /\
        (forall g Y r, LK rest Y ->
          bind (read_expr g [] true MNonMath (kept ++ Y))
               (fun '(e, src1) => read_item_loop g (acc ++ [e]) src1) = Ok r -> r = (es, Y)) /\
        (frag toks = true -> forall Y, LKp rest Y ->
          bind (read_expr f [] true MNonMath (kept ++ Y))
               (fun '(e, src1) => read_item_loop f (acc ++ [e]) src1) = Ok (es, Y)) /\
        PVP used kept rest)).
  { intros es' rest' H'. apply bind_ok in H'. destruct H' as ([e1 src1] & He & H').
    apply Ce in He; [|exact (no_skip SK) | exact Hy]. destruct He as (u1 & Eu1 & C1).
    apply Ci in H'; [|rewrite Eu1 in Hy; eapply Hyp_suffix; exact Hy].
    destruct H' as (u2 & new & Eu2 & -> & C2).
    exists (u1 ++ u2), (e1 :: new).
    split; [rewrite Eu1, Eu2, <- app_assoc; reflexivity|].
    split; [rewrite <- app_assoc; reflexivity|].
    intro Hn. simpl in Hn. apply andb_true_iff in Hn. destruct Hn as [Hn1 Hn2].
    destruct (C1 Hn1) as (k1 & K1 & T1 & L1 & D1 & U1 & P1).
    destruct (C2 Hn2) as (k2 & K2 & T2 & L2 & D2 & U2 & P2).
    exists (k1 ++ k2). split; [apply KJall_app; assumption|]. split.
    { change (estr_list (e1 :: new)) with (estr e1 ++ estr_list new).
      rewrite T1, T2, texts_app. reflexivity. }
    split; [apply LKP_app; assumption|]. split.
    { intros g Y r Hlk HB. rewrite <- app_assoc in HB.
      apply bind_ok in HB. destruct HB as ([e1' s1'] & HB1 & HB2).
      apply D1 in HB1; [|rewrite Eu2; apply L2; exact Hlk]. inversion HB1; subst e1' s1'.
      apply D2 in HB2; [exact HB2 | exact Hlk]. }
    split; [|eapply PVP_app; eassumption].
    intros Hf Y (Hlk & Hpv). rewrite <- app_assoc.
    rewrite (U1 Hf (k2 ++ Y));
      [|split; rewrite Eu2; [apply L2; exact Hlk | apply P2; assumption]].
    cbn [bind]. apply U2; [rewrite Eu1 in Hf; eapply frag_suffix; exact Hf | split; assumption]. }
  destruct toks as [|t src].
  { inversion H; subst es rest. exists [], [].
    split; [reflexivity|]. split; [rewrite app_nil_r; reflexivity|]. intros _.
    exists []. split; [apply KJall_nil|]. split; [reflexivity|]. split; [apply LKP_nil|].
    split.
    { intros g Y r Hlk HB. cbn [app] in HB.
      apply LK_nil_inv in Hlk. subst Y. destruct g as [|g]; [discriminate HB|].
      cbn [read_item_loop] in HB. inversion HB. reflexivity. }
    split; [|apply PVP_nil].
    intros _ Y (Hlk & _). apply LK_nil_inv in Hlk. subst Y. reflexivity. }
  destruct (is_tc TEscape t) eqn:Et.
  - apply bind_ok in H. destruct H as ([[cname cargs] crest] & Hpeek & H).
    pose proof (peek_name' _ _ _ _ _ _ _ _ _ Hpeek) as Ecn.
    destruct (str_eqb cname s_end || str_eqb cname s_item) eqn:Estop.
    + inversion H; subst es rest. exists [], [].
      split; [reflexivity|]. split; [rewrite app_nil_r; reflexivity|]. intros _.
      exists []. split; [apply KJall_nil|]. split; [reflexivity|]. split; [apply LKP_nil|].
      split.
      { intros g Y r Hlk HB. cbn [app] in HB.
        destruct (LK_hd _ _ _ _ Hlk eq_refl) as (l' & EL).
        destruct g as [|g]; [discriminate HB|]. cbn [read_item_loop] in HB.
        rewrite EL in HB. rewrite Et in HB. rewrite <- EL in HB.
        apply bind_ok in HB. destruct HB as ([[cn' a'] r'] & HP & HB).
        rewrite (LK_peek _ _ _ _ _ _ _ _ _ _ _ _ _ _ _ Hlk Et Hpeek HP), Estop in HB.
        inversion HB. reflexivity. }
      split; [|apply PVP_nil].
      intros Hf Y (Hlk & Hpv). cbn [app].
      destruct (LK_hd _ _ _ _ Hlk eq_refl) as (l' & EL).
      rewrite Ecn in Estop.
      destruct (stop_peek_B _ _ _ _ _ _ Et Hpeek Estop Hlk Hf Hpv) as (a' & r' & HP).
      cbn [read_item_loop]. rewrite EL. rewrite Et. rewrite <- EL. rewrite HP. cbn [bind].
      rewrite Estop. reflexivity.
    + destruct (Hstep _ _ H) as (used & new & Eu & En & C). exists used, new.
      split; [exact Eu|]. split; [exact En|]. intro Hn.
      destruct (C Hn) as (kept & K & T & L & D & U & P). exists kept.
      repeat (split; [assumption|]). split.
      { intros g Y r Hlk HB.
        assert (Hlk' : LK (t :: src) (kept ++ Y)) by (rewrite Eu; apply L; exact Hlk).
        destruct (LK_hd _ _ _ _ Hlk' eq_refl) as (l' & EL).
        destruct g as [|g]; [discriminate HB|]. cbn [read_item_loop] in HB.
        rewrite EL in HB. rewrite Et in HB. rewrite <- EL in HB.
        apply bind_ok in HB. destruct HB as ([[cn' a'] r'] & HP & HB).
        rewrite (LK_peek _ _ _ _ _ _ _ _ _ _ _ _ _ _ _ Hlk' Et Hpeek HP), Estop in HB.
        eapply D; eassumption. }
      split; [|exact P].
      intros Hf Y Hlkp. pose proof Hlkp as (Hlk & Hpv).
      assert (Hlk' : LK (t :: src) (kept ++ Y)) by (rewrite Eu; apply L; exact Hlk).
      destruct (LK_hd _ _ _ _ Hlk' eq_refl) as (l' & EL).
      pose proof (U Hf Y Hlkp) as HU. pose proof HU as HU0.
      apply bind_ok in HU0. destruct HU0 as (x & Hx & _). rewrite EL in Hx.
      destruct (expr_peek _ _ _ _ _ _ Hx Et) as ([[cn' a'] r'] & HP). rewrite <- EL in HP.
      cbn [read_item_loop]. rewrite EL. rewrite Et. rewrite <- EL. rewrite HP. cbn [bind].
      rewrite (LK_peek _ _ _ _ _ _ _ _ _ _ _ _ _ _ _ Hlk' Et Hpeek HP), Estop. exact HU.
  - destruct (is_tc TGroupEnd t) eqn:Eg.
    + inversion H; subst es rest. exists [], [].
      split; [reflexivity|]. split; [rewrite app_nil_r; reflexivity|]. intros _.
      exists []. split; [apply KJall_nil|]. split; [reflexivity|]. split; [apply LKP_nil|].
      split.
      { intros g Y r Hlk HB. cbn [app] in HB.
        destruct (LK_hd _ _ _ _ Hlk eq_refl) as (l' & EL).
        destruct g as [|g]; [discriminate HB|]. cbn [read_item_loop] in HB.
        rewrite EL in HB. rewrite Et, Eg in HB. rewrite <- EL in HB.
        inversion HB. reflexivity. }
      split; [|apply PVP_nil].
      intros _ Y (Hlk & _). cbn [app].
      destruct (LK_hd _ _ _ _ Hlk eq_refl) as (l' & EL).
      cbn [read_item_loop]. rewrite EL. rewrite Et, Eg. reflexivity.
    + destruct (Hstep _ _ H) as (used & new & Eu & En & C). exists used, new.
      split; [exact Eu|]. split; [exact En|]. intro Hn.
      destruct (C Hn) as (kept & K & T & L & D & U & P). exists kept.
      repeat (split; [assumption|]). split.
      { intros g Y r Hlk HB.
        assert (Hlk' : LK (t :: src) (kept ++ Y)) by (rewrite Eu; apply L; exact Hlk).
        destruct (LK_hd _ _ _ _ Hlk' eq_refl) as (l' & EL).
        destruct g as [|g]; [discriminate HB|]. cbn [read_item_loop] in HB.
        rewrite EL in HB. rewrite Et, Eg in HB. rewrite <- EL in HB.
        eapply D; eassumption. }
      split; [|exact P].
      intros Hf Y Hlkp. pose proof Hlkp as (Hlk & Hpv).
      assert (Hlk' : LK (t :: src) (kept ++ Y)) by (rewrite Eu; apply L; exact Hlk).
      destruct (LK_hd _ _ _ _ Hlk' eq_refl) as (l' & EL).
      cbn [read_item_loop]. rewrite EL. rewrite Et, Eg. rewrite <- EL. apply U; assumption.
Qed.

(* closing an environment (cf. ReaderCons.finish_end): exactly escape, `end`,
   optional spacer, `{`, name, `}` are consumed; all but the spacer are kept *)
Lemma finish_end_kept f m t l cname a0 cargs crest name b c src3 g rest :
  Hyp (t :: l) -> is_tc TEscape t = true ->
  read_command f (-1) (-1) 1 true m (t :: l) = Ok ((cname, a0 :: cargs), crest) ->
  str_eqb cname s_end = true -> str_eqb (arg_string a0) name = true ->
  read_spacer (skipn 2 (t :: l)) = (b, c :: src3) ->
  read_arg f c true m src3 = Ok (g, rest) ->
  exists nm n cl,
    (t :: l = [t; nm; c; n; cl] ++ rest \/
     exists sp, is_tc TMergedSpacer sp = true /\ t :: l = [t; nm; sp; c; n; cl] ++ rest) /\
    env_end name = texts [t; nm; c; n; cl] /\ ttext nm = s_end /\
    is_tc TGroupBegin c = true /\ is_tc TText n = true /\ is_tc TGroupEnd cl = true /\
    simple_name_group (c :: n :: cl :: rest) = true /\ ttext n = name.
Proof.
  intros Hy Ht Hpeek Hend Hname Esp Harg.
  pose proof (end_peek_opens _ _ _ _ _ _ _ _ _ Hpeek Hend) as (c0 & Hc0 & Hk0).
  destruct f as [|f1]; [discriminate|]. cbn [read_command] in Hpeek.
  replace (length (t :: l) <? 1)%nat with false in Hpeek by reflexivity.
  change (skipn 1 (t :: l)) with l in Hpeek.
  destruct l as [|nm src]; [inversion Hpeek|].
  change (skipn 2 (t :: nm :: src)) with src in *.
  destruct (signature_of (ttext nm)) as [nr no] eqn:Esig.
  replace ((-1 <? 0)%Z && (-1 <? 0)%Z) with true in Hpeek by reflexivity.
  apply bind_ok in Hpeek. destruct Hpeek as ([pargs psrc] & Hargs & Hpeek).
  inversion Hpeek; subst cname pargs psrc. clear Hpeek.
  assert (Hbe : is_beginend nm = true) by (unfold is_beginend; rewrite Hend; apply orb_true_r).
  destruct (beginend_plain nm Hbe) as [Hsig Hspec]. rewrite Hsig in Esig. inversion Esig; subst nr no.
  pose proof (h_names _ _ Hy) as Hn. cbn [clean_names] in Hn. rewrite Ht, Hbe in Hn.
  apply andb_true_iff in Hn. destruct Hn as [Hn _].
  apply andb_true_iff in Hn. destruct Hn as [_ Hnok].
  unfold head_after_spacer in Hc0. unfold after_spacer in Hnok. rewrite Esp in Hc0, Hnok.
  cbn [snd] in Hc0, Hnok. inversion Hc0; subst c0.
  unfold name_ok in Hnok. rewrite (opener_of_kind c Hk0) in Hnok.
  destruct src3 as [|n [|cl src']]; try discriminate Hnok.
  pose proof Hnok as Hs. unfold simple_name_group in Hs.
  apply andb_true_iff in Hs. destruct Hs as [Hs Hcl].
  apply andb_true_iff in Hs. destruct Hs as [Hs _].
  apply andb_true_iff in Hs. destruct Hs as [Ho Htxt].
  assert (Hkc : group_kind_of_begin (tcat c) = Some GBrace).
  { apply is_tc_eq in Ho. rewrite Ho. exact gk_brace. }
  destruct (args_simple_name f1 true _ src c n cl src' _ _
              ltac:(unfold after_spacer; rewrite Esp; reflexivity) Hnok Hargs) as (args' & Ea0).
  inversion Ea0; subst a0 cargs. clear Ea0.
  assert (Has : arg_string (EGroup GBrace [EText n] (tpos c)) = ttext n).
  { unfold arg_string, estr_list. simpl. apply app_nil_r. }
  rewrite Has in Hname. apply str_eqb_eq in Hname. subst name.
  destruct (simple_group_read _ _ _ _ _ _ _ _ _ Hkc Htxt Hcl Harg) as [_ ->].
  pose proof (h_wf _ _ Hy) as W. inversion W as [|? ? Wt W1]; subst.
  inversion W1 as [|? ? Wnm W2]; subst. clear W W1.
  assert (Wsrc : Forall tok_wf (c :: n :: cl :: src')).
  { apply read_spacer_cases in Esp. destruct Esp as [->|(sp & -> & _)]; [exact W2|].
    inversion W2; assumption. }
  inversion Wsrc as [|? ? Wc W3]; subst. inversion W3 as [|? ? _ W4]; subst.
  inversion W4 as [|? ? Wcl _]; subst.
  assert (Tt : ttext t = [backslash]) by (apply Wt; apply is_tc_eq; exact Ht).
  assert (Tnm : ttext nm = s_end) by (apply str_eqb_eq; exact Hend).
  assert (Tc : ttext c = group_begin GBrace).
  { apply Wc. rewrite brace_begin_is. f_equal. symmetry. apply is_tc_eq. exact Ho. }
  assert (Tcl : ttext cl = group_end GBrace).
  { apply Wcl. rewrite brace_end_is. f_equal. symmetry. apply is_tc_eq. exact Hcl. }
  exists nm, n, cl. split.
  { apply read_spacer_cases in Esp. destruct Esp as [->|(sp & -> & Hsp)];
      [left; reflexivity | right; exists sp; split; [exact Hsp | reflexivity]]. }
  split.
  { rewrite env_end_eq. unfold texts. cbn [map concat]. rewrite Tt, Tnm, Tc, Tcl, app_nil_r.
    reflexivity. }
  repeat (split; [assumption|]). reflexivity.
Qed.

Lemma finish_PVE t nm c n cl used :
  is_tc TEscape t = true -> ttext nm = s_end -> is_opener c = true ->
  (used = [t; nm; c; n; cl] \/
   exists sp, is_tc TMergedSpacer sp = true /\ used = [t; nm; sp; c; n; cl]) ->
  forall r, PVE used [t; nm; c; n; cl] r.
Proof.
  intros Et Tnm Hop Hu r Y Hlk k.
  assert (E : pvk (used ++ r) = pvk ([t; nm; c; n; cl] ++ Y)).
  { pose proof (opener_not_spacer c Hop) as Hcs.
    destruct Hu as [->|(sp & Hsp & ->)]; cbn [app pvk]; rewrite Et, Tnm;
      replace (str_eqb s_end s_item) with false by reflexivity;
      replace (str_eqb s_end s_end) with true by reflexivity;
      unfold endk; rewrite !after_spacer_cons, ?Hsp, Hcs, Hop;
      unfold simple_name_group; rewrite (noarg_LKs _ _ (LK_LKs _ _ Hlk)); reflexivity. }
  rewrite E. auto.
Qed.

Lemma fp_env_S f : fp_all f -> fp_env (S f).
Proof.
  intros (Ce & Ci & Cm & Cv & Cc & Ca & Co & Cr & Cg & Cl).
  unfold fp_env. intros name args pos skip m acc toks e rest Hsk Hy H.
  cbn [read_env_loop] in H.
  assert (Hstep : forall e rest,
    bind (read_expr f skip true m toks)
         (fun '(e0, src1) => read_env_loop f name args pos skip true m (acc ++ [e0]) src1)
      = Ok (e, rest) ->
    exists used new, toks = used ++ rest /\ e = ENamed name args (acc ++ new) pos /\
     (forallb nobare new = true ->
      exists kept, KJall used kept /\ estr_list new ++ env_end name = texts kept /\
        LKU used kept /\
        (forall g Y r,
          bind (read_expr g skip true m (kept ++ Y))
               (fun '(e0, src1) => read_env_loop g name args pos skip true m (acc ++ [e0]) src1)
            = Ok r -> r = (e, Y)) /\
        (frag toks = true -> forall Y, LK rest Y ->
          bind (read_expr f skip true m (kept ++ Y))
               (fun '(e0, src1) => read_env_loop f name args pos skip true m (acc ++ [e0]) src1)
            = Ok (e, Y)) /\
        PVE used kept rest)).
  { intros e' rest' H'. apply bind_ok in H'. destruct H' as ([e1 src1] & He & H').
    apply Ce in He; [|exact Hsk | exact Hy]. destruct He as (u1 & Eu1 & C1).
    apply Cv in H'; [|exact Hsk | rewrite Eu1 in Hy; eapply Hyp_suffix; exact Hy].
    destruct H' as (u2 & new & Eu2 & -> & C2).
    exists (u1 ++ u2), (e1 :: new).
    split; [rewrite Eu1, Eu2, <- app_assoc; reflexivity|].
    split; [rewrite <- app_assoc; reflexivity|].
    intro Hn. simpl in Hn. apply andb_true_iff in Hn. destruct Hn as [Hn1 Hn2].
    destruct (C1 Hn1) as (k1 & K1 & T1 & L1 & D1 & U1 & P1).
    destruct (C2 Hn2) as (k2 & K2 & T2 & L2 & D2 & U2 & P2).
    exists (k1 ++ k2). split; [apply KJall_app; assumption|]. split.
    { change (estr_list (e1 :: new)) with (estr e1 ++ estr_list new).
      rewrite <- app_assoc, T1, T2, texts_app. reflexivity. }
    split; [apply LKP_LKU_app; assumption|]. split.
    { intros g Y r HB. rewrite <- app_assoc in HB.
      apply bind_ok in HB. destruct HB as ([e1' s1'] & HB1 & HB2).
      apply D1 in HB1; [|rewrite Eu2; apply L2]. inversion HB1; subst e1' s1'.
      apply D2 in HB2; [exact HB2 | exact I]. }
    split; [|eapply PVP_PVE_app; eassumption].
    intros Hf Y Hlk. rewrite <- app_assoc.
    rewrite (U1 Hf (k2 ++ Y)); [|split; rewrite Eu2; [apply L2 | apply P2; exact Hlk]].
    cbn [bind].
    apply U2; [rewrite Eu1 in Hf; eapply frag_suffix; exact Hf | exact Hlk]. }
  destruct toks as [|t l]; [discriminate H|].
  destruct (is_tc TEscape t) eqn:Et.
  2:{ destruct (Hstep _ _ H) as (used & new & Eu & En & C). exists used, new.
      split; [exact Eu|]. split; [exact En|]. intro Hn.
      destruct (C Hn) as (kept & K & T & L & D & U & P). exists kept.
      repeat (split; [assumption|]). split.
      { intros g Y r _ HB.
        assert (Hlk' : LK (t :: l) (kept ++ Y)) by (rewrite Eu; apply L).
        destruct (LK_hd _ _ _ _ Hlk' eq_refl) as (l' & EL).
        destruct g as [|g]; [discriminate HB|]. cbn [read_env_loop] in HB.
        rewrite EL in HB. rewrite Et in HB. rewrite <- EL in HB.
        eapply D; eassumption. }
      split; [|exact P]. intros Hf Y Hlk.
      assert (Hlk' : LK (t :: l) (kept ++ Y)) by (rewrite Eu; apply L).
      destruct (LK_hd _ _ _ _ Hlk' eq_refl) as (l' & EL).
      cbn [read_env_loop]. rewrite EL. rewrite Et. rewrite <- EL. apply U; assumption. }
  apply bind_ok in H. destruct H as ([[cname cargs] crest] & Hpeek & H).
  destruct (str_eqb cname s_end) eqn:Eend.
  2:{ destruct (Hstep _ _ H) as (used & new & Eu & En & C). exists used, new.
      split; [exact Eu|]. split; [exact En|]. intro Hn.
      destruct (C Hn) as (kept & K & T & L & D & U & P). exists kept.
      repeat (split; [assumption|]). split.
      { intros g Y r _ HB.
        assert (Hlk' : LK (t :: l) (kept ++ Y)) by (rewrite Eu; apply L).
        destruct (LK_hd _ _ _ _ Hlk' eq_refl) as (l' & EL).
        destruct g as [|g]; [discriminate HB|]. cbn [read_env_loop] in HB.
        rewrite EL in HB. rewrite Et in HB. rewrite <- EL in HB.
        apply bind_ok in HB. destruct HB as ([[cn' a'] r'] & HP & HB).
        rewrite (LK_peek _ _ _ _ _ _ _ _ _ _ _ _ _ _ _ Hlk' Et Hpeek HP), Eend in HB.
        eapply D; eassumption. }
      split; [|exact P]. intros Hf Y Hlk.
      assert (Hlk' : LK (t :: l) (kept ++ Y)) by (rewrite Eu; apply L).
      destruct (LK_hd _ _ _ _ Hlk' eq_refl) as (l' & EL).
      pose proof (U Hf Y Hlk) as HU. pose proof HU as HU0.
      apply bind_ok in HU0. destruct HU0 as (x & Hx & _). rewrite EL in Hx.
      destruct (expr_peek _ _ _ _ _ _ Hx Et) as ([[cn' a'] r'] & HP). rewrite <- EL in HP.
      cbn [read_env_loop]. rewrite EL. rewrite Et. rewrite <- EL. rewrite HP. cbn [bind].
      rewrite (LK_peek _ _ _ _ _ _ _ _ _ _ _ _ _ _ _ Hlk' Et Hpeek HP), Eend. exact HU. }
  destruct cargs as [|a0 cargs]; [discriminate H|].
  destruct (negb (str_eqb (arg_string a0) name)) eqn:Ename; [discriminate H|].
  apply negb_false_iff in Ename.
  destruct (read_spacer (skipn 2 (t :: l))) as [b src2] eqn:Esp.
  destruct src2 as [|c src3]; [discriminate|].
  apply bind_ok in H. destruct H as ([gr grest] & Harg' & H). inversion H; subst e grest. clear H.
  destruct (finish_end_kept _ _ _ _ _ _ _ _ _ _ _ _ _ _ Hy Et Hpeek Eend Ename Esp Harg')
    as (nm & n & cl & Hused & Ttx & Tnm & Hc & Hn & Hcl & Hsimple & Tn).
  assert (Hsplit : exists used, t :: l = used ++ rest /\ KJall used [t; nm; c; n; cl] /\
                     LKU used [t; nm; c; n; cl]).
  { pose proof (is_tc_excl _ TMergedSpacer _ Et ltac:(discriminate)) as Hts.
    destruct Hused as [E|(sp & Hsp & E)].
    - exists [t; nm; c; n; cl]. split; [exact E|]. split; [apply KJall_refl|].
      apply LKU_two. exact Hts.
    - exists [t; nm; sp; c; n; cl]. split; [exact E|]. split.
      + intros p2 p1. apply KJ_keep, KJ_keep, KJ_drop;
          [exact Hsp | left; exact Hc | right; exists t; auto | apply KeptJ_refl].
      + apply LKU_two. exact Hts. }
  destruct Hsplit as (used & Eu & K & L).
  exists used, []. split; [exact Eu|]. split; [rewrite app_nil_r; reflexivity|].
  intros _. exists [t; nm; c; n; cl]. split; [exact K|]. split; [exact Ttx|]. split; [exact L|].
  assert (Hop : is_opener c = true) by (unfold is_opener; rewrite Hc; reflexivity).
  assert (Hkc : group_kind_of_begin (tcat c) = Some GBrace).
  { apply is_tc_eq in Hc. rewrite Hc. exact gk_brace. }
  split.
  2:{ split.
      2:{ apply (finish_PVE t nm c n cl used Et Tnm Hop).
          destruct Hused as [E|(sp & Hsp & E)]; rewrite Eu in E; apply app_inv_tail in E;
            [left; exact E | right; exists sp; auto]. }
      intros Hf Y Hlk.
      (* what follows `\end{name}` is not a group: the peek stops right there *)
      assert (Has : exists r', l = nm :: r' /\ after_spacer r' = c :: n :: cl :: rest /\
                      exists pre, (pre = [] \/ exists sp, is_tc TMergedSpacer sp = true /\ pre = [sp])
                                  /\ r' = pre ++ c :: n :: cl :: rest).
      { destruct Hused as [E|(sp & Hsp & E)]; inversion E; subst l; eexists;
          (split; [reflexivity|]).
        - split; [rewrite after_spacer_cons, (opener_not_spacer c Hop); reflexivity|].
          exists []. split; [left; reflexivity | reflexivity].
        - split; [cbn [app]; rewrite after_spacer_cons, Hsp; reflexivity|].
          exists [sp]. split; [right; exists sp; auto | reflexivity]. }
      destruct Has as (r' & El & Has & pre & Hpre & Er').
      assert (HnY : noarg Y = true).
      { rewrite <- (noarg_LKs _ _ (LK_LKs _ _ Hlk)).
        rewrite El in Hf. destruct (frag_pvk _ Hf) as (kd & Hk).
        assert (Hstop : str_eqb (ttext nm) s_end || str_eqb (ttext nm) s_item = true).
        { rewrite Tnm. reflexivity. }
        destruct (pvk_stop _ _ _ _ Et Hstop Hk)
          as [(_ & Hna)|[(_ & _ & c' & n' & cl' & Z & Ha & _ & HZ)|(_ & E & _)]].
        - exfalso. unfold noarg, hdc in Hna. rewrite Has in Hna. cbn [hd_error option_map] in Hna.
          apply is_tc_eq in Hc. rewrite Hc in Hna. discriminate Hna.
        - rewrite Has in Ha. inversion Ha; subst. exact HZ.
        - rewrite Tnm in E. discriminate E. }
      rewrite El, Er' in Hpeek.
      destruct (peek_fuel _ _ _ _ _ _ _ _ _ _ Hpre Tnm Hc Hn Hpeek) as (f' & ->).
      cbn [read_env_loop app]. rewrite Et.
      rewrite (peek_end_fwd f' m t nm c n cl Y Tnm Hc Hn Hcl HnY). cbn [bind].
      rewrite Tnm. replace (str_eqb s_end s_end) with true by reflexivity.
      cbn [arg_string estr_list map concat estr]. rewrite app_nil_r.
      assert (En : str_eqb (ttext n) name = true) by (apply str_eqb_eq; exact Tn).
      rewrite En. cbn [negb].
      change (skipn 2 (t :: nm :: c :: n :: cl :: Y)) with (c :: n :: cl :: Y).
      rewrite (opener_read_spacer c _ Hop).
      change (6 + f')%nat with (S (S (S (3 + f')))).
      rewrite (simple_group_fwd _ c m n cl Y Hkc Hn Hcl). reflexivity. }
  intros g Y r _ HB. destruct g as [|g]; [discriminate HB|].
  cbn [read_env_loop app] in HB. rewrite Et in HB.
  apply bind_ok in HB. destruct HB as ([[cn' ca'] r'] & HP & HB).
  apply peek_name' in HP. cbn [name_of] in HP. rewrite Tnm in HP. subst cn'.
  replace (str_eqb s_end s_end) with true in HB by reflexivity.
  destruct (match ca' with [] => true | a0 :: _ => negb (str_eqb (arg_string a0) name) end);
    [discriminate HB|].
  change (skipn 2 (t :: nm :: c :: n :: cl :: Y)) with (c :: n :: cl :: Y) in HB.
  rewrite (opener_read_spacer c _ Hop) in HB.
  apply bind_ok in HB. destruct HB as ([g' s'] & HB1 & HB).
  destruct (simple_group_read _ _ _ _ _ _ _ _ _ Hkc Hn Hcl HB1) as [_ ->].
  inversion HB. reflexivity.
Qed.

Lemma starts_with_app p : forall s z, (length p <= length s)%nat ->
  starts_with (s ++ z) p = starts_with s p.
Proof.
  induction p as [|y p IH]; intros s z Hl; [destruct s; [destruct z|]; reflexivity|].
  destruct s as [|x s]; [simpl in Hl; lia|]. simpl. rewrite IH; [reflexivity|]. simpl in Hl. lia.
Qed.

Definition sw (T : str) (l : list token) : bool :=
  starts_with (texts (firstn (length T) l)) T.

Lemma sw_stable T five a X X' : texts five = T -> sw T (a ++ five ++ X) = sw T (a ++ five ++ X').
Proof.
  intro E. unfold sw. rewrite !app_assoc.
  rewrite (firstn_app (length T) (a ++ five) X), (firstn_app (length T) (a ++ five) X'), !texts_app.
  destruct (Nat.le_gt_cases (length T) (length (a ++ five))) as [Hle|Hgt].
  - replace (length T - length (a ++ five))%nat with 0%nat by lia. reflexivity.
  - rewrite (firstn_all2 (a ++ five)) by lia.
    assert (Hl : (length T <= length (texts (a ++ five)))%nat).
    { rewrite texts_app, E, app_length. lia. }
    rewrite !starts_with_app by exact Hl. reflexivity.
Qed.

Lemma skip_scan_stable T r r' body :
  (forall a, sw T (a ++ r) = sw T (a ++ r')) -> sw T r = true -> r <> [] -> r' <> [] ->
  forall pre acc, skip_scan T acc (pre ++ r) = (body, r) -> skip_scan T acc (pre ++ r') = (body, r').
Proof.
  intros Hst Hr Hne Hne'. induction pre as [|p pre IH]; intros acc H.
  - cbn [app] in *. destruct r as [|x r0]; [congruence|]. destruct r' as [|x' r0']; [congruence|].
    cbn [skip_scan] in H |- *. fold (sw T (x :: r0)) in H. fold (sw T (x' :: r0')).
    pose proof (Hst []) as H0. cbn [app] in H0. rewrite <- H0.
    rewrite Hr in H |- *. inversion H. reflexivity.
  - cbn [app skip_scan] in H |- *. fold (sw T (p :: pre ++ r)) in H. fold (sw T (p :: pre ++ r')).
    pose proof (Hst (p :: pre)) as H0. cbn [app] in H0. rewrite <- H0.
    destruct (sw T (p :: pre ++ r)).
    + exfalso. inversion H as [[E1 E2]]. apply (f_equal (@length token)) in E2.
      simpl in E2. rewrite app_length in E2. lia.
    + apply IH. exact H.
Qed.

Lemma skipn_firstn_app {A} n : forall (r Y : list A), (skipn n r = [] -> Y = []) ->
  skipn n (firstn n r ++ Y) = Y.
Proof.
  induction n as [|n IH]; intros r Y H; [reflexivity|].
  destruct r as [|x r].
  - rewrite skipn_nil in H. rewrite (H eq_refl). reflexivity.
  - cbn [firstn app]. rewrite skipn_cons. apply IH. rewrite skipn_cons in H. exact H.
Qed.

Lemma skip_env_kept ename args' pos src1 e rest :
  Hyp src1 -> mem_str ename SK = true ->
  read_skip_env ename args' pos src1 = Ok (e, rest) ->
  exists used body p, src1 = used ++ rest /\ e = ENamed ename args' [ERaw body p] pos /\
    body ++ env_end ename = texts used /\
    forall Y, (rest = [] -> Y = []) -> read_skip_env ename args' pos (used ++ Y) = Ok (e, Y).
Proof.
  intros Hy Hm H. unfold read_skip_env in H.
  destruct (skip_scan (env_end ename) [] src1) as [body r] eqn:Esc.
  pose proof Esc as Esc0.
  apply skip_scan_prefix in Esc. destruct Esc as (pre & Epre & Ebody). simpl in Ebody.
  destruct src1 as [|t0 ts]; [discriminate|]. destruct r as [|r0 rs]; [discriminate|].
  destruct (starts_with _ _) eqn:Est; [|discriminate]. inversion H; subst e rest. clear H.
  pose proof (h_skip _ _ Hy pre (r0 :: rs) ename Epre Hm Est) as H5.
  set (r := r0 :: rs) in *. set (T := env_end ename) in *.
  exists (pre ++ firstn 5 r), body, (tpos t0).
  split; [rewrite <- app_assoc, firstn_skipn; exact Epre|]. split; [reflexivity|].
  split; [rewrite Ebody, <- H5, <- texts_app; reflexivity|].
  intros Y HY. unfold read_skip_env. fold T.
  assert (Hr : r = firstn 5 r ++ skipn 5 r) by (symmetry; apply firstn_skipn).
  assert (Hne5 : firstn 5 r ++ Y <> []) by (unfold r; discriminate).
  assert (Hsc : skip_scan T [] (pre ++ firstn 5 r ++ Y) = (body, firstn 5 r ++ Y)).
  { apply (skip_scan_stable T r); [| exact Est | unfold r; discriminate | exact Hne5 |].
    - intro a. rewrite Hr at 1. apply sw_stable. exact H5.
    - rewrite <- Epre. exact Esc0. }
  rewrite <- app_assoc, Hsc.
  assert (Hhd : exists l', pre ++ firstn 5 r ++ Y = t0 :: l').
  { destruct pre as [|p0 pre']; cbn [app] in Epre |- *.
    - unfold r in Epre |- *. inversion Epre. cbn [firstn app]. eauto.
    - inversion Epre. eauto. }
  destruct Hhd as (l' & EL). rewrite EL.
  destruct (firstn 5 r ++ Y) as [|x0 xs] eqn:E5; [congruence|].
  rewrite <- E5.
  assert (Est' : sw T (firstn 5 r ++ Y) = true).
  { rewrite <- Est. fold (sw T r). rewrite Hr at 2.
    apply (sw_stable T (firstn 5 r) [] Y (skipn 5 r) H5). }
  unfold sw in Est'. rewrite Est'. rewrite (skipn_firstn_app 5 r Y HY). reflexivity.
Qed.

(* ------------------------------ the peek view across a command piece *)

Lemma endk_plain r : endk r = Some KPlain <-> noarg r = true.
Proof.
  unfold endk, noarg, hdc. destruct (after_spacer r) as [|c l']; [split; reflexivity|].
  cbn [hd_error option_map]. unfold is_opener, is_tc.
  destruct (tcat c); cbn [tc_beq orb]; split; intro H; try reflexivity; try discriminate H.
  all: destruct l' as [|n [|cl Z]]; try discriminate H.
  all: match type of H with context [if ?b then _ else _] => destruct b end; discriminate H.
Qed.

Lemma Kept_simple pre c n cl kc W :
  (pre = [] \/ exists sp, is_tc TMergedSpacer sp = true /\ pre = [sp]) ->
  is_tc TMergedSpacer c = false -> is_tc TMergedSpacer n = false ->
  Kept (pre ++ [c; n; cl]) kc -> after_spacer (kc ++ W) = c :: n :: cl :: W.
Proof.
  intros Hpre Hcs Hns K.
  assert (K3 : forall k, Kept [c; n; cl] k -> k = [c; n; cl]).
  { intros k Hk. inversion Hk as [|? ? k1 Hk1|]; subst; [|congruence].
    inversion Hk1 as [|? ? k2 Hk2|]; subst; [|congruence].
    inversion Hk2 as [|? ? k3 Hk3|]; subst. inversion Hk3. reflexivity. }
  destruct Hpre as [->|(sp & Hsp & ->)]; cbn [app] in K.
  - rewrite (K3 _ K). cbn [app]. rewrite after_spacer_cons, Hcs. reflexivity.
  - inversion K as [|? ? k1 Hk1|? ? ? ? _ _ Hk1]; subst.
    + rewrite (K3 _ Hk1). cbn [app]. rewrite after_spacer_cons, Hsp. reflexivity.
    + rewrite (K3 _ Hk1). cbn [app]. rewrite after_spacer_cons, Hcs. reflexivity.
Qed.

(* the tokens a command consumed when its peek view is one simple group *)
Lemma used_exact usedc src1 c' n' cl' :
  after_spacer (usedc ++ src1) = c' :: n' :: cl' :: src1 ->
  exists pre, (pre = [] \/ exists sp, is_tc TMergedSpacer sp = true /\ pre = [sp]) /\
              usedc = pre ++ [c'; n'; cl'].
Proof.
  intro Ha. destruct (after_spacer_inv _ _ _ Ha) as [E|(sp & Hsp & E)].
  - exists []. split; [left; reflexivity|].
    change (c' :: n' :: cl' :: src1) with ([c'; n'; cl'] ++ src1) in E.
    apply app_inv_tail in E. exact E.
  - exists [sp]. split; [right; exists sp; auto|].
    change (sp :: c' :: n' :: cl' :: src1) with ([sp; c'; n'; cl'] ++ src1) in E.
    apply app_inv_tail in E. exact E.
Qed.

Lemma cmd_PVP f m c nt usedc kc u2 k2 src1 rest name args :
  is_tc TEscape c = true -> src1 = u2 ++ rest ->
  read_command f (-1) (-1) 0 true m (nt :: usedc ++ src1) = Ok ((name, args), src1) ->
  Kept usedc kc -> LKsP usedc kc -> LKP u2 k2 ->
  PVP (c :: nt :: usedc ++ u2) (c :: nt :: kc ++ k2) rest.
Proof.
  intros Ec Esrc Hcmd Kc LS L2 Y Hlk _ k Hk.
  cbn [app] in *. rewrite <- !app_assoc in *.
  assert (HL : LKs (usedc ++ u2 ++ rest) (kc ++ k2 ++ Y)).
  { apply LS. apply LK_LKs. apply L2. exact Hlk. }
  destruct (str_eqb (ttext nt) s_end || str_eqb (ttext nt) s_item) eqn:Hn.
  2:{ apply orb_false_iff in Hn. destruct Hn as [H1 H2]. cbn [pvk] in *.
      rewrite Ec, H2, H1 in *. exact Hk. }
  assert (HnY : forall Z, src1 = Z -> noarg Z = true -> noarg (k2 ++ Y) = true).
  { intros Z <- HZ. rewrite <- HZ. rewrite Esrc. symmetry. apply noarg_LKs, LK_LKs, L2.
    exact Hlk. }
  rewrite <- (peek_shift f (-1) (-1) m c (nt :: usedc ++ src1)) in Hcmd.
  apply (command_mono f (6 + f)) in Hcmd; [|lia].
  destruct (pvk_stop _ _ _ _ Ec Hn Hk)
    as [(-> & Hna)|[(-> & Tnm & c' & n' & cl' & Z & Ha & Hs & HZ)
                   |(-> & Tnm & c' & n' & cl' & Z & Ha & Hs & HZ)]].
  - (* nothing follows the name *)
    rewrite (noarg_LKs _ _ HL) in Hna. cbn [pvk]. rewrite Ec.
    destruct (str_eqb (ttext nt) s_item).
    + unfold itemk. rewrite Hna. reflexivity.
    + rewrite orb_false_r in Hn. rewrite Hn. apply endk_plain. exact Hna.
  - (* `\end` + one simple group, read as an ordinary command *)
    rewrite <- Esrc in Ha.
    assert (EZ : src1 = Z).
    { pose proof (peek_group_fwd f m c nt (usedc ++ src1) c' n' cl' Z Tnm Ha Hs HZ) as Hfw.
      rewrite Hcmd in Hfw. inversion Hfw. reflexivity. }
    subst Z.
    pose proof Hs as Hs0. unfold simple_name_group in Hs0.
    apply andb_true_iff in Hs0. destruct Hs0 as [Hs0 Hcl].
    apply andb_true_iff in Hs0. destruct Hs0 as [Hs0 _].
    apply andb_true_iff in Hs0. destruct Hs0 as [Hc' Hn'].
    destruct (used_exact _ _ _ _ _ Ha) as (pre & Hpre & ->).
    assert (Hcs : is_tc TMergedSpacer c' = false) by (eapply is_tc_excl; [exact Hc' | discriminate]).
    assert (Hns : is_tc TMergedSpacer n' = false) by (eapply is_tc_excl; [exact Hn' | discriminate]).
    pose proof (Kept_simple pre c' n' cl' kc (k2 ++ Y) Hpre Hcs Hns Kc) as HB.
    cbn [pvk]. rewrite Ec, Tnm.
    replace (str_eqb s_end s_item) with false by reflexivity.
    replace (str_eqb s_end s_end) with true by reflexivity.
    unfold endk. rewrite HB.
    assert (Hop : is_opener c' = true) by (unfold is_opener; rewrite Hc'; reflexivity).
    rewrite Hop. unfold simple_name_group in Hs |- *.
    rewrite (HnY src1 eq_refl HZ).
    apply andb_true_iff in Hs. destruct Hs as [Hs1 Hs2]. rewrite Hs1, Hs2. reflexivity.
  - (* `\item` + one simple label *)
    rewrite <- Esrc in Ha.
    assert (EZ : src1 = Z).
    { pose proof (peek_bracket_fwd f m c nt (usedc ++ src1) c' n' cl' Z Tnm Ha Hs HZ) as Hfw.
      rewrite Hcmd in Hfw. inversion Hfw. reflexivity. }
    subst Z.
    destruct (simple_bracket_parts _ _ _ _ Hs) as (Hc' & Hn' & Hcl').
    destruct (used_exact _ _ _ _ _ Ha) as (pre & Hpre & ->).
    assert (Hcs : is_tc TMergedSpacer c' = false) by (eapply is_tc_excl; [exact Hc' | discriminate]).
    assert (Hns : is_tc TMergedSpacer n' = false) by (eapply is_tc_excl; [exact Hn' | discriminate]).
    pose proof (Kept_simple pre c' n' cl' kc (k2 ++ Y) Hpre Hcs Hns Kc) as HB.
    cbn [pvk]. rewrite Ec, Tnm.
    replace (str_eqb s_item s_item) with true by reflexivity.
    unfold itemk. rewrite HB.
    assert (Hnb : noarg (kc ++ k2 ++ Y) = false).
    { unfold noarg, hdc. rewrite HB. cbn [hd_error option_map].
      apply is_tc_eq in Hc'. rewrite Hc'. reflexivity. }
    rewrite Hnb. unfold simple_bracket in Hs |- *. rewrite (HnY src1 eq_refl HZ), Hs. reflexivity.
Qed.

Lemma fp_expr_S f : fp_all f -> fp_expr (S f).
Proof.
  intros (Ce & Ci & Cm & Cv & Cc & Ca & Co & Cr & Cg & Cl).
  unfold fp_expr. intros skip m toks e rest Hsk Hy H. cbn [read_expr] in H.
  destruct toks as [|c src]; [discriminate|].
  pose proof (Hyp_head_wf _ _ _ Hy) as Wc. pose proof (Hyp_tail _ _ _ Hy) as Hys.
  destruct (math_kind_of_begin (tcat c)) as [k|] eqn:Ek.
  { (* math region *)
    apply Cm in H; [|exact Hys]. destruct H as (used & new & Eu & -> & C).
    exists (c :: used). split; [rewrite Eu; reflexivity|].
    cbn [nobare app]. intro Hn. destruct (C Hn) as (kept & K & T & L & D & U & P).
    exists (c :: kept). split; [apply KJall_cons; exact K|]. split.
    { cbn [estr]. change (concat (map estr new)) with (estr_list new). rewrite T, texts_cons.
      f_equal. symmetry. apply Wc. apply math_kind_begin_tok. exact Ek. }
    destruct (math_begin_cats _ _ Ek) as [S1 S2].
    split; [apply LKU_LKP, LKU_plain; assumption|]. split.
    { intros g Y r _ HB. destruct g as [|g]; [discriminate HB|].
      cbn [read_expr app] in HB. rewrite Ek in HB. apply D in HB; [exact HB | exact I]. }
    split; [|apply PVE_PVP, PVU_PVE, PVU_plain; exact S2].
    intros Hf Y _. cbn [read_expr app]. rewrite Ek.
    apply U; [eapply frag_tail; exact Hf | exact I]. }
  destruct (is_tc TEscape c) eqn:Ec.
  2:{ destruct (is_tc TGroupBegin c) eqn:Eg.
      - apply Cg in H; [|exact Wc | exact Hys]. destruct H as (used & Eu & _ & C).
        exists (c :: used). split; [rewrite Eu; reflexivity|].
        intro Hn. destruct (C Hn) as (kept & K & T & D & U).
        exists (c :: kept). split; [apply KJall_cons; exact (proj1 K)|]. split; [rewrite T; reflexivity|].
        split; [apply LKU_LKP, LKU_plain;
                [eapply is_tc_excl; [exact Eg | discriminate] | exact Ec]|].
        split.
        { intros g Y r _ HB. destruct g as [|g]; [discriminate HB|].
          cbn [read_expr app] in HB. rewrite Ek, Ec, Eg in HB.
          apply D in HB; [exact HB | exact I]. }
        split; [|apply PVE_PVP, PVU_PVE, PVU_plain; exact Ec].
        intros Hf Y _. cbn [read_expr app]. rewrite Ek, Ec, Eg.
        apply U; [eapply frag_tail; exact Hf | exact I].
      - inversion H; subst. exists [c]. split; [reflexivity|]. intros _.
        exists [c]. split; [apply KJall_refl|]. split; [rewrite texts_one; reflexivity|].
        split; [apply LKP_same|]. split.
        { intros g Y r _ HB. destruct g as [|g]; [discriminate HB|].
          cbn [read_expr app] in HB. rewrite Ek, Ec, Eg in HB. inversion HB. reflexivity. }
        split; [|apply PVP_one; exact Ec].
        intros _ Y _. cbn [read_expr app]. rewrite Ek, Ec, Eg. reflexivity. }
  (* a command *)
  assert (Tc : ttext c = [backslash]) by (apply Wc; apply is_tc_eq; exact Ec).
  pose proof (is_tc_excl _ TMergedSpacer _ Ec ltac:(discriminate)) as Hcs.
  apply bind_ok in H. destruct H as ([[name args] src1] & Hcmd' & H).
  pose proof Hcmd' as Hcmd2.
  apply Cc in Hcmd'; [|exact Hys].
  destruct Hcmd' as [(-> & -> & -> & ->)|(nt & usedc & Esrc & Ename & Cargs)].
  { (* lone escape at the end of the input *)
    simpl in H. inversion H; subst. exists [c]. split; [reflexivity|].
    intros _. exists [c]. split; [apply KJall_refl|].
    split; [rewrite texts_one, Tc; reflexivity|]. split; [apply LKP_same|]. split.
    { intros g Y r Hlk HB. apply LK_nil_inv in Hlk. subst Y.
      destruct g as [|g]; [discriminate HB|].
      cbn [read_expr app] in HB. rewrite Ek, Ec in HB.
      apply bind_ok in HB. destruct HB as ([[n' a'] s'] & HP & HB).
      destruct g as [|g]; [discriminate HP|]. cbn in HP. inversion HP; subst n' a' s'.
      simpl in HB. inversion HB. reflexivity. }
    split.
    2:{ intros Y Hlk _. apply LK_nil_inv in Hlk. subst Y. apply PV_refl. }
    intros _ Y (Hlk & _). apply LK_nil_inv in Hlk. subst Y.
    cbn [read_expr app]. rewrite Ek, Ec. rewrite Hcmd2. reflexivity. }
  subst src.
  assert (Hstrip : strip name = name).
  { pose proof (h_names _ _ Hy) as Hn. cbn [clean_names] in Hn. rewrite Ec in Hn.
    apply andb_true_iff in Hn. destruct Hn as [Hn _].
    apply andb_true_iff in Hn. destruct Hn as [Hn _].
    apply str_eqb_eq in Hn. rewrite Ename. exact Hn. }
  assert (Hys1 : Hyp src1).
  { change (nt :: usedc ++ src1) with ((nt :: usedc) ++ src1) in Hys.
    eapply Hyp_suffix; exact Hys. }
  (* the second run up to the command's arguments *)
  assert (Bcmd : forall kc, det (fun g l => read_command g (-1) (-1) 0 true m l) LK
                                (nt :: kc) src1 (name, args) ->
          forall g k2 Y r, LK src1 (k2 ++ Y) ->
            forall F : (str * list expr) * list token -> res (expr * list token),
              bind (read_command g (-1) (-1) 0 true m (nt :: kc ++ k2 ++ Y)) F = Ok r ->
              F (name, args, k2 ++ Y) = Ok r).
  { intros kc Dc g k2 Y r Hlk F HB.
    apply bind_ok in HB. destruct HB as (x & HB1 & HB).
    specialize (Dc g (k2 ++ Y) x Hlk HB1). subst x. exact HB. }
  assert (Fcmd : forall kc,
            succ (fun l => read_command f (-1) (-1) 0 true m l) LK (nt :: kc) src1 (name, args) ->
            forall k2 Y, LK src1 (k2 ++ Y) ->
              read_command f (-1) (-1) 0 true m (nt :: kc ++ k2 ++ Y) = Ok (name, args, k2 ++ Y)).
  { intros kc Uc k2 Y Hlk. exact (Uc (k2 ++ Y) Hlk). }
  destruct (str_eqb name s_item) eqn:Eitem.
  { (* \item *)
    destruct (mode_is_math m) eqn:Emm; [discriminate|].
    apply bind_ok in H. destruct H as ([contents src2] & Hit & H). inversion H; subst.
    apply Ci in Hit; [|exact Hys1]. destruct Hit as (u2 & new & Eu2 & -> & C2).
    exists (c :: nt :: usedc ++ u2).
    split; [rewrite Eu2; simpl; rewrite <- app_assoc; reflexivity|].
    rewrite Hstrip, estr_cmd, nobare_cmd. cbn [app]. intro Hn.
    apply andb_true_iff in Hn. destruct Hn as [Hn Hn3].
    destruct (Cargs Hn) as (kc & Kc & Tk & Dc & Uc & LS).
    destruct (C2 Hn3) as (k2 & K2 & T2 & L2 & D2 & U2 & P2).
    exists (c :: nt :: kc ++ k2).
    pose proof (KeptJ_Kept _ _ _ _ (Kc c Ec)) as Kc'.
    split; [intros p2 p1; apply KJ_keep, KJ_keep, KeptJ_app; [apply Kc; exact Ec | apply K2]|].
    split.
    { rewrite !texts_cons, texts_app, Tc, Tk, T2. reflexivity. }
    split; [apply LKU_LKP, LKU_two; exact Hcs|]. split.
    { intros g Y r Hlk HB. destruct g as [|g]; [discriminate HB|].
      cbn [read_expr app] in HB. rewrite Ek, Ec in HB.
      rewrite <- app_assoc in HB.
      apply (Bcmd kc Dc g k2 Y r) in HB; [|rewrite Eu2; apply L2; exact Hlk].
      cbv beta iota in HB. rewrite Eitem, Emm in HB.
      apply bind_ok in HB. destruct HB as ([ct' s'] & HB1 & HB).
      apply D2 in HB1; [|exact Hlk]. inversion HB1; subst ct' s'.
      rewrite Hstrip in HB. inversion HB. reflexivity. }
    split; [|eapply cmd_PVP; eassumption].
    intros Hf Y (Hlk & Hpv). cbn [read_expr app]. rewrite Ek, Ec. rewrite <- app_assoc.
    rewrite (Fcmd kc (Uc (frag_tail _ _ Hf)) k2 Y); [|rewrite Eu2; apply L2; exact Hlk].
    cbn [bind]. rewrite Eitem, Emm.
    rewrite (U2 (frag_suffix (c :: nt :: usedc) src1 Hf) Y); [|split; assumption].
    cbn [bind]. rewrite Hstrip. reflexivity. }
  destruct (str_eqb name s_begin && negb (mode_is_special m)) eqn:Ebegin.
  2:{ (* an ordinary command *)
      inversion H; subst. exists (c :: nt :: usedc ++ []).
      split; [rewrite app_nil_r; reflexivity|].
      rewrite Hstrip, estr_cmd, nobare_cmd. intro Hn. rewrite andb_true_r in Hn.
      destruct (Cargs Hn) as (kc & Kc & Tk & Dc & Uc & LS).
      exists (c :: nt :: kc ++ []).
      pose proof (KeptJ_Kept _ _ _ _ (Kc c Ec)) as Kc'.
      split; [intros p2 p1; apply KJ_keep, KJ_keep, KeptJ_app; [apply Kc; exact Ec | constructor]|].
      split.
      { rewrite !texts_cons, app_nil_r, Tc, Tk. cbn [estr_list map concat]. rewrite app_nil_r.
        reflexivity. }
      split; [apply LKU_LKP, LKU_two; exact Hcs|]. split.
      { intros g Y r Hlk HB. destruct g as [|g]; [discriminate HB|].
        cbn [read_expr app] in HB. rewrite Ek, Ec in HB.
        rewrite <- app_assoc in HB.
        apply (Bcmd kc Dc g [] Y r) in HB; [|exact Hlk].
        cbv beta iota in HB. rewrite Eitem, Ebegin in HB. cbn [app] in HB.
        rewrite Hstrip in HB. inversion HB. reflexivity. }
      split.
      2:{ eapply (cmd_PVP f m c nt usedc kc [] [] rest rest); try eassumption;
            [reflexivity | apply LKP_nil]. }
      intros Hf Y (Hlk & _). cbn [read_expr app]. rewrite Ek, Ec. rewrite <- app_assoc.
      rewrite (Fcmd kc (Uc (frag_tail _ _ Hf)) [] Y Hlk). cbn [bind].
      rewrite Eitem, Ebegin. cbn [app]. rewrite Hstrip. reflexivity. }
  (* \begin *)
  pose proof Ebegin as Ebegin0.
  apply andb_true_iff in Ebegin. destruct Ebegin as [Ebegin _].
  destruct args as [|a0 args']; [discriminate|].
  destruct (begin_name _ _ _ _ _ _ _ _ _ _ _ Hy Ec Hcmd2 Ebegin) as (Ea0 & Hoka0).
  set (ename := strip (arg_string a0)) in *.
  assert (Ebeg : name = s_begin) by (apply str_eqb_eq; exact Ebegin).
  assert (Hokall : okargs args' = true -> okargs (a0 :: args') = true).
  { intro Hok. unfold okargs in *. simpl in *.
    apply andb_true_iff in Hoka0. destruct Hoka0 as [G1 G2].
    apply andb_true_iff in Hok. destruct Hok as [G3 G4].
    rewrite !andb_true_r in G1, G2. rewrite G1, G2, G3, G4. reflexivity. }
  assert (Tbegin : forall kc, estr_list (a0 :: args') = texts kc ->
            env_begin ename ++ estr_list args' = texts (c :: nt :: kc)).
  { intros kc Tk. rewrite !texts_cons, <- Tk, Tc, <- Ename, Ebeg, env_begin_eq.
    change (estr_list (a0 :: args')) with (estr a0 ++ estr_list args').
    rewrite Ea0. simpl. rewrite <- !app_assoc. reflexivity. }
  destruct (mem_str ename skip) eqn:Eskip.
  { (* verbatim-like *)
    destruct (skip_env_kept _ _ _ _ _ _ Hys1 (Hsk _ Eskip) H)
      as (u2 & body & p & Eu2 & -> & T2 & D2).
    exists (c :: nt :: usedc ++ u2).
    split; [rewrite Eu2; simpl; rewrite <- app_assoc; reflexivity|].
    rewrite estr_named, nobare_named, estr_list_one. cbn [estr forallb nobare].
    rewrite andb_true_r. intro Hn.
    destruct (Cargs (Hokall Hn)) as (kc & Kc & Tk & Dc & Uc & LS).
    exists (c :: nt :: kc ++ u2).
    pose proof (KeptJ_Kept _ _ _ _ (Kc c Ec)) as Kc'.
    split; [intros p2 p1; apply KJ_keep, KJ_keep, KeptJ_app;
            [apply Kc; exact Ec | apply KeptJ_refl]|].
    split.
    { rewrite app_assoc, (Tbegin kc Tk), T2.
      change (c :: nt :: kc ++ u2) with ((c :: nt :: kc) ++ u2). rewrite texts_app. reflexivity. }
    split; [apply LKU_LKP, LKU_two; exact Hcs|].
    assert (HY : forall Y, LK rest Y -> rest = [] -> Y = []).
    { intros Y Hlk ->. apply LK_nil_inv in Hlk. exact Hlk. }
    split.
    { intros g Y r Hlk HB. destruct g as [|g]; [discriminate HB|].
      cbn [read_expr app] in HB. rewrite Ek, Ec in HB.
      rewrite <- app_assoc in HB.
      apply (Bcmd kc Dc g u2 Y r) in HB; [|rewrite Eu2; apply LKP_same; exact Hlk].
      cbv beta iota in HB. rewrite Eitem, Ebegin0 in HB. fold ename in HB. rewrite Eskip in HB.
      rewrite (D2 Y (HY Y Hlk)) in HB. inversion HB. reflexivity. }
    split; [|eapply cmd_PVP; try eassumption; apply LKP_same].
    intros Hf Y (Hlk & _). cbn [read_expr app]. rewrite Ek, Ec. rewrite <- app_assoc.
    rewrite (Fcmd kc (Uc (frag_tail _ _ Hf)) u2 Y); [|rewrite Eu2; apply LKP_same; exact Hlk].
    cbn [bind]. rewrite Eitem, Ebegin0. fold ename. rewrite Eskip. apply D2. exact (HY Y Hlk). }
  apply Cv in H; [|exact Hsk | exact Hys1]. destruct H as (u2 & new & Eu2 & -> & C2).
  exists (c :: nt :: usedc ++ u2).
  split; [rewrite Eu2; simpl; rewrite <- app_assoc; reflexivity|].
  rewrite estr_named, nobare_named. cbn [app]. intro Hn.
  apply andb_true_iff in Hn. destruct Hn as [Hn Hn3].
  destruct (Cargs (Hokall Hn)) as (kc & Kc & Tk & Dc & Uc & LS).
  destruct (C2 Hn3) as (k2 & K2 & T2 & L2 & D2 & U2 & P2).
  exists (c :: nt :: kc ++ k2).
  pose proof (KeptJ_Kept _ _ _ _ (Kc c Ec)) as Kc'.
  split; [intros p2 p1; apply KJ_keep, KJ_keep, KeptJ_app; [apply Kc; exact Ec | apply K2]|].
  split.
  { rewrite app_assoc, (Tbegin kc Tk), T2.
    change (c :: nt :: kc ++ k2) with ((c :: nt :: kc) ++ k2). rewrite texts_app. reflexivity. }
  split; [apply LKU_LKP, LKU_two; exact Hcs|]. split.
  { intros g Y r Hlk HB. destruct g as [|g]; [discriminate HB|].
    cbn [read_expr app] in HB. rewrite Ek, Ec in HB.
    rewrite <- app_assoc in HB.
    apply (Bcmd kc Dc g k2 Y r) in HB; [|rewrite Eu2; apply L2].
    cbv beta iota in HB. rewrite Eitem, Ebegin0 in HB. fold ename in HB. rewrite Eskip in HB.
    apply D2 in HB; [exact HB | exact I]. }
  split; [|eapply cmd_PVP; try eassumption; apply LKU_LKP; exact L2].
  intros Hf Y (Hlk & _). cbn [read_expr app]. rewrite Ek, Ec. rewrite <- app_assoc.
  rewrite (Fcmd kc (Uc (frag_tail _ _ Hf)) k2 Y); [|rewrite Eu2; apply L2].
  cbn [bind]. rewrite Eitem, Ebegin0. fold ename. rewrite Eskip.
  apply U2; [|exact Hlk].
  apply frag_tail in Hf. change (nt :: usedc ++ src1) with ((nt :: usedc) ++ src1) in Hf.
  eapply frag_suffix; exact Hf.
Qed.

Lemma fp_all_holds : forall f, fp_all f.
Proof.
  induction f as [|f IH].
  { unfold fp_all, fp_expr, fp_item, fp_math, fp_env, fp_command, fp_args, fp_opt, fp_req,
      fp_arg, fp_argloop.
    repeat match goal with |- _ /\ _ => split end; intros; simpl in *; discriminate. }
  unfold fp_all. repeat match goal with |- _ /\ _ => split end.
  - apply fp_expr_S, IH.
  - apply fp_item_S, IH.
  - apply fp_math_S, IH.
  - apply fp_env_S, IH.
  - apply fp_command_S, IH.
  - apply fp_args_S, IH.
  - apply fp_opt_S, IH.
  - apply fp_req_S, IH.
  - apply fp_arg_S, IH.
  - apply fp_argloop_S, IH.
Qed.

Lemma read_tex_loop_fp fuel efuel skip : forall acc toks body,
  sub_skip SK skip -> Hyp toks ->
  read_tex_loop fuel efuel skip true acc toks = Ok body ->
  exists new, body = acc ++ new /\ (forallb nobare new = true ->
    exists kept, KJall toks kept /\ estr_list new = texts kept /\ LK toks kept /\ PV toks kept /\
      (forall fuel' efuel' r, read_tex_loop fuel' efuel' skip true acc kept = Ok r -> r = body) /\
      (frag toks = true -> read_tex_loop fuel efuel skip true acc kept = Ok body)).
Proof.
  induction fuel as [|fu IH]; intros acc toks body Hsk Hy H; [discriminate|].
  cbn [read_tex_loop] in H. destruct toks as [|t ts].
  - inversion H; subst. exists []. split; [symmetry; apply app_nil_r|]. intros _.
    exists []. split; [apply KJall_nil|]. split; [reflexivity|]. split; [apply LK_nil|].
    split; [apply PV_refl|]. split; [|reflexivity].
    intros fuel' efuel' r HB. destruct fuel' as [|fu']; [discriminate HB|].
    cbn in HB. inversion HB. reflexivity.
  - apply bind_ok in H. destruct H as ([e rest] & He & H).
    destruct (fp_all_holds efuel) as (Ce & _).
    apply Ce in He; [|exact Hsk | exact Hy]. destruct He as (u1 & Eu1 & C1).
    apply IH in H; [|exact Hsk | rewrite Eu1 in Hy; eapply Hyp_suffix; exact Hy].
    destruct H as (new & -> & C2). exists (e :: new).
    split; [rewrite <- app_assoc; reflexivity|].
    intro Hn. simpl in Hn. apply andb_true_iff in Hn. destruct Hn as [Hn1 Hn2].
    destruct (C1 Hn1) as (k1 & K1 & T1 & L1 & D1 & U1 & P1).
    destruct (C2 Hn2) as (k2 & K2 & T2 & L2 & Pv2 & D2 & U2).
    exists (k1 ++ k2). split; [rewrite Eu1; apply KJall_app; assumption|]. split.
    { change (estr_list (e :: new)) with (estr e ++ estr_list new).
      rewrite T1, T2, texts_app. reflexivity. }
    assert (Hlk : LK (t :: ts) (k1 ++ k2)) by (rewrite Eu1; apply L1; exact L2).
    split; [exact Hlk|]. split; [rewrite Eu1; apply P1; assumption|].
    destruct (LK_hd _ _ _ _ Hlk eq_refl) as (l' & EL). split.
    { intros fuel' efuel' r HB. destruct fuel' as [|fu']; [discriminate HB|].
      cbn [read_tex_loop] in HB. rewrite EL in HB. rewrite <- EL in HB.
      apply bind_ok in HB. destruct HB as ([e' s'] & HB1 & HB2).
      apply D1 in HB1; [|exact L2]. inversion HB1; subst e' s'.
      eapply D2. exact HB2. }
    intro Hf. cbn [read_tex_loop]. rewrite EL. rewrite <- EL.
    rewrite (U1 Hf k2 (conj L2 Pv2)). cbn [bind]. apply U2.
    rewrite Eu1 in Hf. eapply frag_suffix. exact Hf.
Qed.

End FP.

(* Stage 1, top level: the tokens the run kept serialise to the output, and
   every successful parse of the kept tokens returns the same tree *)
Lemma tex_loop_mono skip : forall fuel fuel' efuel efuel' acc toks,
  (fuel <= fuel')%nat -> (efuel <= efuel')%nat ->
  fref (read_tex_loop fuel efuel skip true acc toks) (read_tex_loop fuel' efuel' skip true acc toks).
Proof.
  induction fuel as [|fu IH]; intros fuel' efuel efuel' acc toks H1 H2; [left; reflexivity|].
  destruct fuel' as [|fu']; [lia|]. cbn [read_tex_loop].
  destruct toks as [|t ts]; [apply fref_refl|].
  apply fref_bind.
  - destruct (fm_all_holds efuel) as (M & _). apply M. exact H2.
  - intros [e rest]. apply IH; lia.
Qed.

Lemma Kept_length toks kept : Kept toks kept -> (length kept <= length toks)%nat.
Proof. induction 1; simpl in *; lia. Qed.

Theorem parse_tokens_drop_run toks user t :
  Hyp (all_skip user) toks -> parse_tokens toks true user = Ok t -> nobare t = true ->
  exists kept, Kept toks kept /\ KeptJ None None toks kept /\ estr t = texts kept /\
    (forall t', parse_tokens kept true user = Ok t' -> t' = t) /\
    (frag toks = true -> parse_tokens kept true user = Ok t).
Proof.
  intros Hy H Hn. unfold parse_tokens in H.
  apply bind_ok in H. destruct H as (body & Hb & H). inversion H; subst t. clear H.
  apply (read_tex_loop_fp (all_skip user)) in Hb; [|intros n Hm; exact Hm | exact Hy].
  destruct Hb as (new & -> & C). cbn [app nobare] in Hn.
  destruct (C Hn) as (kept & K & T & _ & _ & D & U).
  pose proof (KJall_Kept _ _ K) as K'.
  exists kept. split; [exact K'|]. split; [apply K|]. split; [exact T|]. split.
  { intros t' HB. unfold parse_tokens in HB.
    apply bind_ok in HB. destruct HB as (body' & Hb' & HB). inversion HB; subst t'.
    apply D in Hb'. subst body'. reflexivity. }
  intro Hf. specialize (U Hf). unfold parse_tokens.
  pose proof (Kept_length _ _ K') as Hlen.
  pose proof (tex_loop_mono (Tables.skip_env_names ++ user) (S (length kept)) (S (length toks))
                (fuel_for kept) (fuel_for toks) [] kept ltac:(lia)
                ltac:(unfold fuel_for; lia)) as M.
  pose proof (read_tex_loop_diag (S (length kept)) (fuel_for kept)
                (Tables.skip_env_names ++ user) true [] kept ltac:(lia)
                ltac:(unfold fuel_for; lia)) as Dg.
  unfold all_skip in U. rewrite U in M.
  destruct M as [M|M]; [rewrite M in Dg; contradiction|]. rewrite M. reflexivity.
Qed.

(* ====================================================================== *)
(* Stage 2: the reader never looks at token positions                      *)
(* ====================================================================== *)

Definition tok_pos_sim (t1 t2 : token) : Prop := ttext t1 = ttext t2 /\ tcat t1 = tcat t2.

(* the same tree up to every recorded position *)
Inductive expr_pos_sim : expr -> expr -> Prop :=
| PS_Text t1 t2 : tok_pos_sim t1 t2 -> expr_pos_sim (EText t1) (EText t2)
| PS_Raw s p1 p2 : expr_pos_sim (ERaw s p1) (ERaw s p2)
| PS_Str s : expr_pos_sim (EStr s) (EStr s)
| PS_Cmd n a1 a2 b1 b2 p1 p2 :
    Forall2 expr_pos_sim a1 a2 -> Forall2 expr_pos_sim b1 b2 ->
    expr_pos_sim (ECmd n a1 b1 p1) (ECmd n a2 b2 p2)
| PS_Named n a1 a2 b1 b2 p1 p2 :
    Forall2 expr_pos_sim a1 a2 -> Forall2 expr_pos_sim b1 b2 ->
    expr_pos_sim (ENamed n a1 b1 p1) (ENamed n a2 b2 p2)
| PS_Math k b1 b2 p1 p2 : Forall2 expr_pos_sim b1 b2 -> expr_pos_sim (EMath k b1 p1) (EMath k b2 p2)
| PS_Group k b1 b2 p1 p2 :
    Forall2 expr_pos_sim b1 b2 -> expr_pos_sim (EGroup k b1 p1) (EGroup k b2 p2)
| PS_Root b1 b2 : Forall2 expr_pos_sim b1 b2 -> expr_pos_sim (ERoot b1) (ERoot b2).

(* position erasure *)
Definition zt (t : token) : token := mkt (ttext t) (-1) (tcat t).

Fixpoint ze (e : expr) : expr :=
  match e with
  | EText t => EText (zt t)
  | ERaw s _ => ERaw s (-1)
  | EStr s => EStr s
  | ECmd n a b _ => ECmd n (map ze a) (map ze b) (-1)
  | ENamed n a b _ => ENamed n (map ze a) (map ze b) (-1)
  | EMath k b _ => EMath k (map ze b) (-1)
  | EGroup k b _ => EGroup k (map ze b) (-1)
  | ERoot b => ERoot (map ze b)
  end.

Lemma zt_eq t1 t2 : tok_pos_sim t1 t2 <-> zt t1 = zt t2.
Proof.
  unfold tok_pos_sim, zt. split.
  - intros [-> ->]. reflexivity.
  - intro H. inversion H. auto.
Qed.

Lemma map_zt_eq l1 l2 : Forall2 tok_pos_sim l1 l2 -> map zt l1 = map zt l2.
Proof.
  induction 1 as [|t1 t2 r1 r2 Ht _ IH]; [reflexivity|]. simpl.
  apply zt_eq in Ht. rewrite Ht, IH. reflexivity.
Qed.

Lemma map_eq_Forall2 {A} (R : A -> A -> Prop) (f : A -> A) (l1 : list A) :
  Forall (fun x => forall y, f x = f y -> R x y) l1 ->
  forall l2, map f l1 = map f l2 -> Forall2 R l1 l2.
Proof.
  induction 1 as [|x l1 Hx _ IH]; intros l2 E; destruct l2 as [|y l2]; try discriminate E.
  - constructor.
  - simpl in E. inversion E. constructor; [apply Hx; assumption | apply IH; assumption].
Qed.

(* equal erasures are related trees *)
Lemma ze_eq_sim e1 : forall e2, ze e1 = ze e2 -> expr_pos_sim e1 e2.
Proof.
  induction e1 as [t|s p|s|n a b p IHa IHb|n a b p IHa IHb|k b p IHb|k b p IHb|b IHb]
    using expr_ind'; intros e2 E; destruct e2; simpl in E; try discriminate E; inversion E; subst.
  - constructor. split; assumption.
  - constructor.
  - constructor.
  - constructor; [apply (map_eq_Forall2 expr_pos_sim ze _ IHa) | apply (map_eq_Forall2 expr_pos_sim ze _ IHb)]; assumption.
  - constructor; [apply (map_eq_Forall2 expr_pos_sim ze _ IHa) | apply (map_eq_Forall2 expr_pos_sim ze _ IHb)]; assumption.
  - constructor; apply (map_eq_Forall2 expr_pos_sim ze _ IHb); assumption.
  - constructor; apply (map_eq_Forall2 expr_pos_sim ze _ IHb); assumption.
  - constructor; apply (map_eq_Forall2 expr_pos_sim ze _ IHb); assumption.
Qed.

Lemma estr_ze e : estr (ze e) = estr e.
Proof.
  induction e as [t|s p|s|n a b p IHa IHb|n a b p IHa IHb|k b p IHb|k b p IHb|b IHb]
    using expr_ind'; cbn [ze estr]; try reflexivity;
    rewrite ?map_map;
    repeat match goal with
    | H : Forall _ ?l |- context [map (fun x => estr (ze x)) ?l] =>
      rewrite (map_ext_in (fun x => estr (ze x)) estr l)
        by (intros x Hx; rewrite Forall_forall in H; apply H; exact Hx)
    end; reflexivity.
Qed.

Lemma estr_list_ze l : estr_list (map ze l) = estr_list l.
Proof.
  unfold estr_list. rewrite map_map. f_equal. apply map_ext. intro. apply estr_ze.
Qed.

Lemma arg_string_ze e : arg_string (ze e) = arg_string e.
Proof. destruct e; cbn [ze arg_string]; try reflexivity; apply estr_list_ze. Qed.

Lemma Forall2_map_eq {A} (R : A -> A -> Prop) (f : A -> A) (l1 : list A) :
  Forall (fun x => forall y, R x y -> f x = f y) l1 ->
  forall l2, Forall2 R l1 l2 -> map f l1 = map f l2.
Proof.
  induction 1 as [|x l1 Hx _ IH]; intros l2 E; inversion E; subst; [reflexivity|].
  simpl. f_equal; [apply Hx; assumption | apply IH; assumption].
Qed.

Lemma sim_ze_eq e1 : forall e2, expr_pos_sim e1 e2 -> ze e1 = ze e2.
Proof.
  induction e1 as [t|s p|s|n a b p IHa IHb|n a b p IHa IHb|k b p IHb|k b p IHb|b IHb]
    using expr_ind'; intros e2 H; inversion H; subst; cbn [ze]; try reflexivity.
  - f_equal. apply zt_eq. assumption.
  - f_equal; [apply (Forall2_map_eq expr_pos_sim ze _ IHa) | apply (Forall2_map_eq expr_pos_sim ze _ IHb)]; assumption.
  - f_equal; [apply (Forall2_map_eq expr_pos_sim ze _ IHa) | apply (Forall2_map_eq expr_pos_sim ze _ IHb)]; assumption.
  - f_equal; apply (Forall2_map_eq expr_pos_sim ze _ IHb); assumption.
  - f_equal; apply (Forall2_map_eq expr_pos_sim ze _ IHb); assumption.
  - f_equal; apply (Forall2_map_eq expr_pos_sim ze _ IHb); assumption.
Qed.

(* related trees serialise identically *)
Lemma expr_pos_sim_estr e1 e2 : expr_pos_sim e1 e2 -> estr e1 = estr e2.
Proof. intro H. rewrite <- (estr_ze e1), <- (estr_ze e2), (sim_ze_eq _ _ H). reflexivity. Qed.

(* ---------------------------------------------- the reader commutes with zt *)

Definition zr {A} (fa : A -> A) (r : res (A * list token)) : res (A * list token) :=
  match r with Ok (v, rest) => Ok (fa v, map zt rest) | Err e => Err e end.
Definition zna (v : str * list expr) : str * list expr := (fst v, map ze (snd v)).
Definition zan (v : list expr * Z) : list expr * Z := (map ze (fst v), snd v).

Lemma read_spacer_zt toks :
  read_spacer (map zt toks) = (fst (read_spacer toks), map zt (snd (read_spacer toks))).
Proof.
  destruct toks as [|t r]; [reflexivity|]. unfold read_spacer. cbn [map].
  change (is_tc TMergedSpacer (zt t)) with (is_tc TMergedSpacer t).
  destruct (is_tc TMergedSpacer t); reflexivity.
Qed.

Lemma texts_zt l : texts (map zt l) = texts l.
Proof. unfold texts. rewrite map_map. reflexivity. Qed.

Lemma skip_scan_zt T : forall toks acc,
  skip_scan T acc (map zt toks) =
  (fst (skip_scan T acc toks), map zt (snd (skip_scan T acc toks))).
Proof.
  induction toks as [|t r IH]; intro acc; [reflexivity|].
  cbn [map skip_scan]. rewrite <- (map_cons zt), firstn_map, texts_zt.
  destruct (starts_with _ T); [reflexivity|]. cbn [map]. apply IH.
Qed.

Lemma read_skip_env_zt name args pos toks :
  read_skip_env name (map ze args) (-1) (map zt toks) = zr ze (read_skip_env name args pos toks).
Proof.
  unfold read_skip_env. rewrite skip_scan_zt.
  destruct (skip_scan (env_end name) [] toks) as [body r]. cbn [fst snd].
  destruct toks as [|t0 ts]; [reflexivity|]. destruct r as [|r0 rs]; [reflexivity|].
  cbn [map]. rewrite <- (map_cons zt r0 rs), firstn_map, texts_zt.
  destruct (starts_with _ _); [|reflexivity]. cbn [zr]. rewrite skipn_map. reflexivity.
Qed.

Lemma map_snoc (acc : list expr) e : map ze acc ++ [ze e] = map ze (acc ++ [e]).
Proof. rewrite map_app. reflexivity. Qed.

Definition ze_expr f := forall skip strict m toks,
  read_expr f skip strict m (map zt toks) = zr ze (read_expr f skip strict m toks).
Definition ze_item f := forall acc toks,
  read_item_loop f (map ze acc) (map zt toks) = zr (map ze) (read_item_loop f acc toks).
Definition ze_math f := forall k pos strict acc toks,
  read_math_loop f k (-1) strict (map ze acc) (map zt toks) =
  zr ze (read_math_loop f k pos strict acc toks).
Definition ze_env f := forall name args pos skip strict m acc toks,
  read_env_loop f name (map ze args) (-1) skip strict m (map ze acc) (map zt toks) =
  zr ze (read_env_loop f name args pos skip strict m acc toks).
Definition ze_command f := forall nreq nopt sk strict m toks,
  read_command f nreq nopt sk strict m (map zt toks) =
  zr zna (read_command f nreq nopt sk strict m toks).
Definition ze_args f := forall nreq nopt strict m toks,
  read_args f nreq nopt strict m (map zt toks) = zr (map ze) (read_args f nreq nopt strict m toks).
Definition ze_opt f := forall args nopt strict m toks,
  read_arg_optional f (map ze args) nopt strict m (map zt toks) =
  zr zan (read_arg_optional f args nopt strict m toks).
Definition ze_req f := forall args nreq strict m toks,
  read_arg_required f (map ze args) nreq strict m (map zt toks) =
  zr zan (read_arg_required f args nreq strict m toks).
Definition ze_arg f := forall c strict m toks,
  read_arg f (zt c) strict m (map zt toks) = zr ze (read_arg f c strict m toks).
Definition ze_argloop f := forall k pos strict m acc toks,
  read_arg_loop f k (-1) strict m (map ze acc) (map zt toks) =
  zr ze (read_arg_loop f k pos strict m acc toks).

Definition ze_all f :=
  ze_expr f /\ ze_item f /\ ze_math f /\ ze_env f /\ ze_command f /\ ze_args f /\
  ze_opt f /\ ze_req f /\ ze_arg f /\ ze_argloop f.

(* rewrite with an induction hypothesis under a bind, then split on the result *)
Ltac zbind IH :=
  rewrite IH;
  match goal with
  | |- bind (zr _ ?r) _ = _ =>
    destruct r as [[? ?]|?]; cbn [bind zr zna zan fst snd]; [|reflexivity]
  end.

Ltac zbindn IH v s :=
  rewrite IH;
  match goal with
  | |- bind (zr _ ?r) _ = _ =>
    destruct r as [[v s]|?]; cbn [bind zr zna zan fst snd]; [|reflexivity]
  end.

Lemma ze_argloop_S f : ze_all f -> ze_argloop (S f).
Proof.
  intros (Ze & Zi & Zm & Zv & Zc & Za & Zo & Zr & Zg & Zl).
  intros k pos strict m acc toks. destruct toks as [|t src]; cbn [map read_arg_loop].
  - destruct strict; reflexivity.
  - change (is_group_end k (zt t)) with (is_group_end k t).
    destruct (is_group_end k t); [reflexivity|].
    rewrite <- (map_cons zt). zbind Ze. rewrite map_snoc. apply Zl.
Qed.

Lemma ze_math_S f : ze_all f -> ze_math (S f).
Proof.
  intros (Ze & Zi & Zm & Zv & Zc & Za & Zo & Zr & Zg & Zl).
  intros k pos strict acc toks. destruct toks as [|t src]; cbn [map read_math_loop].
  - reflexivity.
  - change (is_math_end k (zt t)) with (is_math_end k t).
    destruct (is_math_end k t); [reflexivity|].
    rewrite <- (map_cons zt). zbind Ze. rewrite map_snoc. apply Zm.
Qed.

Lemma ze_arg_S f : ze_all f -> ze_arg (S f).
Proof.
  intros (Ze & Zi & Zm & Zv & Zc & Za & Zo & Zr & Zg & Zl).
  intros c strict m toks. cbn [read_arg]. change (tcat (zt c)) with (tcat c).
  destruct (group_kind_of_begin (tcat c)); [|reflexivity].
  change (tpos (zt c)) with (-1)%Z. apply (Zl g (tpos c) strict m []).
Qed.

Lemma ze_item_S f : ze_all f -> ze_item (S f).
Proof.
  intros (Ze & Zi & Zm & Zv & Zc & Za & Zo & Zr & Zg & Zl).
  intros acc toks. destruct toks as [|t src]; cbn [map read_item_loop]; [reflexivity|].
  change (is_tc TEscape (zt t)) with (is_tc TEscape t).
  change (is_tc TGroupEnd (zt t)) with (is_tc TGroupEnd t).
  rewrite <- (map_cons zt).
  assert (Hstep : bind (read_expr f [] true MNonMath (map zt (t :: src)))
                       (fun '(e, src1) => read_item_loop f (map ze acc ++ [e]) src1) =
                  zr (map ze) (bind (read_expr f [] true MNonMath (t :: src))
                       (fun '(e, src1) => read_item_loop f (acc ++ [e]) src1))).
  { zbind Ze. rewrite map_snoc. apply Zi. }
  destruct (is_tc TEscape t).
  - zbind Zc. destruct p as [cn ca]. cbn [zna fst snd].
    destruct (str_eqb cn s_end || str_eqb cn s_item); [reflexivity | exact Hstep].
  - destruct (is_tc TGroupEnd t); [reflexivity | exact Hstep].
Qed.

Lemma ze_opt_S f : ze_all f -> ze_opt (S f).
Proof.
  intros (Ze & Zi & Zm & Zv & Zc & Za & Zo & Zr & Zg & Zl).
  intros args nopt strict m toks. cbn [read_arg_optional].
  destruct (nopt =? 0)%Z; [reflexivity|].
  rewrite read_spacer_zt. destruct (read_spacer toks) as [b src1]. cbn [fst snd].
  destruct src1 as [|c src2]; cbn [map]; [reflexivity|].
  change (is_tc TBracketBegin (zt c)) with (is_tc TBracketBegin c).
  destruct (is_tc TBracketBegin c); [|reflexivity].
  zbind Zg. rewrite map_snoc. apply Zo.
Qed.

Lemma ze_req_S f : ze_all f -> ze_req (S f).
Proof.
  intros (Ze & Zi & Zm & Zv & Zc & Za & Zo & Zr & Zg & Zl).
  intros args nreq strict m toks. cbn [read_arg_required].
  destruct (nreq =? 0)%Z; [reflexivity|].
  destruct toks as [|t0 ts0]; [reflexivity|].
  cbn [map]. rewrite <- (map_cons zt t0 ts0).
  rewrite read_spacer_zt. destruct (read_spacer (t0 :: ts0)) as [b src1]. cbn [fst snd].
  destruct src1 as [|c src2]; cbn [map]; [reflexivity|].
  change (is_tc TGroupBegin (zt c)) with (is_tc TGroupBegin c).
  change (is_tc TEscape (zt c)) with (is_tc TEscape c).
  destruct (is_tc TGroupBegin c).
  - zbind Zg. rewrite map_snoc. apply Zr.
  - destruct (0 <? nreq)%Z; [|reflexivity].
    destruct (is_tc TEscape c).
    + zbind Zc. destruct p as [cn ca]. cbn [zna fst snd].
      change [ECmd (strip cn) [] [] (tpos (zt c))] with [ze (ECmd (strip cn) [] [] (tpos c))].
      rewrite map_snoc. apply Zr.
    + change [EGroup GBrace [EStr (ttext (zt c))] (-1)]
        with [ze (EGroup GBrace [EStr (ttext c)] (-1))].
      rewrite map_snoc. apply Zr.
Qed.

Lemma ze_command_S f : ze_all f -> ze_command (S f).
Proof.
  intros (Ze & Zi & Zm & Zv & Zc & Za & Zo & Zr & Zg & Zl).
  intros nreq nopt sk strict m toks. cbn [read_command]. rewrite map_length.
  destruct (length toks <? sk)%nat; [reflexivity|].
  rewrite skipn_map. destruct (skipn sk toks) as [|name src]; cbn [map]; [reflexivity|].
  change (ttext (zt name)) with (ttext name).
  destruct (if (nreq <? 0)%Z && (nopt <? 0)%Z then signature_of (ttext name) else (nreq, nopt))
    as [nr no].
  zbind Za. reflexivity.
Qed.

Lemma ze_args_S f : ze_all f -> ze_args (S f).
Proof.
  intros (Ze & Zi & Zm & Zv & Zc & Za & Zo & Zr & Zg & Zl).
  intros nreq nopt strict m toks. cbn [read_args].
  destruct ((nreq =? 0)%Z && (nopt =? 0)%Z); [reflexivity|].
  change (read_arg_optional f [] nopt strict m (map zt toks))
    with (read_arg_optional f (map ze []) nopt strict m (map zt toks)).
  zbindn Zo p1 src1. destruct p1 as [args1 nopt1]. cbn [zan fst snd].
  zbindn Zr p2 src2. destruct p2 as [args2 nreq1]. cbn [zan fst snd].
  assert (H3 : match map zt src2 with
               | t :: _ => if is_tc TBracketBegin t
                           then read_arg_optional f (map ze args2) nopt1 strict m (map zt src2)
                           else Ok (map ze args2, nopt1, map zt src2)
               | [] => Ok (map ze args2, nopt1, map zt src2)
               end =
               zr zan match src2 with
               | t :: _ => if is_tc TBracketBegin t
                           then read_arg_optional f args2 nopt1 strict m src2
                           else Ok (args2, nopt1, src2)
               | [] => Ok (args2, nopt1, src2)
               end).
  { destruct src2 as [|t2 ts2]; [reflexivity|]. cbn [map].
    change (is_tc TBracketBegin (zt t2)) with (is_tc TBracketBegin t2).
    destruct (is_tc TBracketBegin t2); [|reflexivity].
    rewrite <- (map_cons zt). apply Zo. }
  zbindn H3 p3 src3. destruct p3 as [args3 n3]. cbn [zan fst snd].
  assert (H4 : match map zt src3 with
               | t :: _ => if is_tc TGroupBegin t
                           then read_arg_required f (map ze args3) nreq1 strict m (map zt src3)
                           else Ok (map ze args3, nreq1, map zt src3)
               | [] => Ok (map ze args3, nreq1, map zt src3)
               end =
               zr zan match src3 with
               | t :: _ => if is_tc TGroupBegin t
                           then read_arg_required f args3 nreq1 strict m src3
                           else Ok (args3, nreq1, src3)
               | [] => Ok (args3, nreq1, src3)
               end).
  { destruct src3 as [|t3 ts3]; [reflexivity|]. cbn [map].
    change (is_tc TGroupBegin (zt t3)) with (is_tc TGroupBegin t3).
    destruct (is_tc TGroupBegin t3); [|reflexivity].
    rewrite <- (map_cons zt). apply Zr. }
  zbindn H4 p4 src4. destruct p4 as [args4 n4]. reflexivity.
Qed.

Lemma ze_env_S f : ze_all f -> ze_env (S f).
Proof.
  intros (Ze & Zi & Zm & Zv & Zc & Za & Zo & Zr & Zg & Zl).
  intros name args pos skip strict m acc toks. cbn [read_env_loop].
  destruct toks as [|t l]; cbn [map]; [destruct strict; reflexivity|].
  change (is_tc TEscape (zt t)) with (is_tc TEscape t).
  rewrite <- (map_cons zt t l).
  assert (Hstep : bind (read_expr f skip strict m (map zt (t :: l)))
            (fun '(e, src1) =>
               read_env_loop f name (map ze args) (-1) skip strict m (map ze acc ++ [e]) src1) =
          zr ze (bind (read_expr f skip strict m (t :: l))
            (fun '(e, src1) => read_env_loop f name args pos skip strict m (acc ++ [e]) src1))).
  { zbindn Ze e1 s1. rewrite map_snoc. apply Zv. }
  destruct (is_tc TEscape t); [|exact Hstep].
  zbindn Zc p1 s1. destruct p1 as [cn ca]. cbn [zna fst snd].
  destruct (str_eqb cn s_end); [|exact Hstep].
  destruct ca as [|a0 ca']; cbn [map]; [destruct strict; reflexivity|].
  rewrite arg_string_ze.
  destruct (negb (str_eqb (arg_string a0) name)); [destruct strict; reflexivity|].
  rewrite <- ?(map_cons zt t l). rewrite skipn_map, read_spacer_zt.
  destruct (read_spacer (skipn 2 (t :: l))) as [b src2]. cbn [fst snd].
  destruct src2 as [|c src3]; cbn [map]; [reflexivity|].
  zbindn Zg g1 s2. reflexivity.
Qed.

Lemma ze_expr_S f : ze_all f -> ze_expr (S f).
Proof.
  intros (Ze & Zi & Zm & Zv & Zc & Za & Zo & Zr & Zg & Zl).
  intros skip strict m toks. cbn [read_expr].
  destruct toks as [|c src]; cbn [map]; [reflexivity|].
  change (tcat (zt c)) with (tcat c).
  change (is_tc TEscape (zt c)) with (is_tc TEscape c).
  change (is_tc TGroupBegin (zt c)) with (is_tc TGroupBegin c).
  change (tpos (zt c)) with (-1)%Z.
  destruct (math_kind_of_begin (tcat c)) as [k|].
  { apply (Zm k (tpos c) strict []). }
  destruct (is_tc TEscape c).
  2:{ destruct (is_tc TGroupBegin c); [apply Zg | reflexivity]. }
  zbindn Zc p1 src1. destruct p1 as [name args]. cbn [zna fst snd].
  destruct (str_eqb name s_item).
  { destruct (mode_is_math m); [reflexivity|].
    change (read_item_loop f [] (map zt src1)) with (read_item_loop f (map ze []) (map zt src1)).
    zbindn Zi ct s2. reflexivity. }
  destruct (str_eqb name s_begin && negb (mode_is_special m)); [|reflexivity].
  destruct args as [|a0 args']; cbn [map]; [reflexivity|].
  rewrite arg_string_ze.
  destruct (mem_str (strip (arg_string a0)) skip).
  - apply read_skip_env_zt.
  - apply (Zv _ args' (tpos c) skip strict _ []).
Qed.

Lemma ze_all_holds : forall f, ze_all f.
Proof.
  induction f as [|f IH].
  { unfold ze_all, ze_expr, ze_item, ze_math, ze_env, ze_command, ze_args, ze_opt, ze_req,
      ze_arg, ze_argloop.
    repeat match goal with |- _ /\ _ => split end; intros; reflexivity. }
  unfold ze_all. repeat match goal with |- _ /\ _ => split end.
  - apply ze_expr_S, IH.
  - apply ze_item_S, IH.
  - apply ze_math_S, IH.
  - apply ze_env_S, IH.
  - apply ze_command_S, IH.
  - apply ze_args_S, IH.
  - apply ze_opt_S, IH.
  - apply ze_req_S, IH.
  - apply ze_arg_S, IH.
  - apply ze_argloop_S, IH.
Qed.

Lemma read_tex_loop_zt efuel skip strict : forall fuel acc toks,
  read_tex_loop fuel efuel skip strict (map ze acc) (map zt toks) =
  match read_tex_loop fuel efuel skip strict acc toks with
  | Ok b => Ok (map ze b) | Err e => Err e end.
Proof.
  induction fuel as [|fu IH]; intros acc toks; [reflexivity|].
  cbn [read_tex_loop]. destruct toks as [|t ts]; cbn [map]; [reflexivity|].
  rewrite <- (map_cons zt t ts). destruct (ze_all_holds efuel) as (Ze & _).
  rewrite Ze. destruct (read_expr efuel skip strict MNonMath (t :: ts)) as [[e s]|er];
    cbn [bind zr]; [|reflexivity].
  rewrite map_snoc. apply IH.
Qed.

(* parse_tokens commutes with erasing positions *)
Theorem parse_tokens_zt toks strict user :
  parse_tokens (map zt toks) strict user =
  match parse_tokens toks strict user with Ok t => Ok (ze t) | Err e => Err e end.
Proof.
  unfold parse_tokens, fuel_for. rewrite map_length.
  change (@nil expr) with (map ze []) at 1. rewrite read_tex_loop_zt.
  destruct (read_tex_loop _ _ _ _ _ toks); reflexivity.
Qed.

(* token lists that agree on text and category are parsed to trees that agree
   up to positions, or fail with the same error *)
Theorem parse_tokens_pos_sim l1 l2 strict user :
  Forall2 tok_pos_sim l1 l2 ->
  match parse_tokens l1 strict user, parse_tokens l2 strict user with
  | Ok t1, Ok t2 => expr_pos_sim t1 t2
  | Err e1, Err e2 => e1 = e2
  | _, _ => False
  end.
Proof.
  intro H. apply map_zt_eq in H.
  pose proof (parse_tokens_zt l1 strict user) as H1.
  pose proof (parse_tokens_zt l2 strict user) as H2. rewrite H in H1. rewrite H1 in H2.
  destruct (parse_tokens l1 strict user) as [t1|e1], (parse_tokens l2 strict user) as [t2|e2];
    try discriminate H2.
  - inversion H2. apply ze_eq_sim. assumption.
  - inversion H2. reflexivity.
Qed.

(* ====================================================================== *)
(* Stage 3: assembly with TOKINV                                           *)
(* ====================================================================== *)

Lemma repos_pos_sim toks : forall p, Forall2 tok_pos_sim (TokInverse.repos p toks) toks.
Proof.
  induction toks as [|t r IH]; intro p; cbn [TokInverse.repos]; constructor;
    [split; reflexivity | apply IH].
Qed.

(* the token before a deleted spacer (TokInverse.last_tok_ok): not a Comment
   (in the output it would swallow the opening brace), and not the letter part
   of a sizing command: "\left {" / "\big [" would be re-tokenised as the single
   sizing token "left{" / "big[". *)
Definition prev_ok (prev : option token) : bool :=
  match prev with
  | None => true
  | Some l => negb (is_tc TComment l) &&
              negb (is_tc TCommandName l && mem_str (ttext l) TokInverse.sizing_prefixes)
  end.

(* the property's own side condition "a sizing prefix such as \left or \big is
   immediately followed by its delimiter": no CommandName token that is the
   letter part of a sizing command is followed by a spacer and `{` or `[` *)
Fixpoint sizing_ok (toks : list token) : bool :=
  match toks with
  | [] => true
  | l :: r1 =>
    match r1 with
    | sp :: o :: _ =>
      negb (is_tc TCommandName l && mem_str (ttext l) TokInverse.sizing_prefixes &&
            is_tc TMergedSpacer sp && is_opener o)
    | _ => true
    end && sizing_ok r1
  end.

Lemma sizing_ok_suffix a b : sizing_ok (a ++ b) = true -> sizing_ok b = true.
Proof.
  induction a as [|x a IH]; [auto|]. cbn [app sizing_ok]. intro H.
  apply andb_true_iff in H. apply IH. tauto.
Qed.

(* Kept whose every drop has an admissible predecessor IN THE REDUCED LIST *)
Inductive KeptK : option token -> list token -> list token -> Prop :=
| KK_nil p : KeptK p [] []
| KK_keep p t ts ks : KeptK (Some t) ts ks -> KeptK p (t :: ts) (t :: ks)
| KK_drop p sp t ts ks :
    is_tc TMergedSpacer sp = true -> opener t -> prev_ok p = true ->
    KeptK p (t :: ts) ks -> KeptK p (sp :: t :: ts) ks.

Fixpoint lastopt (a : list token) : option token :=
  match a with
  | [] => None
  | [l] => Some l
  | _ :: a' => lastopt a'
  end.

Lemma lastopt_snoc a t : lastopt (a ++ [t]) = Some t.
Proof.
  induction a as [|x a IH]; [reflexivity|]. cbn [app lastopt].
  destruct (a ++ [t]) eqn:E; [destruct a; discriminate E|]. exact IH.
Qed.

Lemma lastopt_In a l : lastopt a = Some l -> In l a.
Proof.
  induction a as [|x a IH]; [discriminate|]. cbn [lastopt].
  destruct a as [|y a']; [intro H; inversion H; left; reflexivity|].
  intro H. right. apply IH. exact H.
Qed.

Lemma last_ok_lastopt a rest :
  TokInverse.last_ok a rest =
  match lastopt a with None => true | Some l => TokInverse.last_tok_ok l rest end.
Proof.
  induction a as [|x a IH]; [reflexivity|]. cbn [TokInverse.last_ok lastopt].
  destruct a as [|y a']; [reflexivity | exact IH].
Qed.

Lemma opener_open_tok t : opener t -> TokInverse.open_tok t.
Proof. intros [H|H]; [left | right]; apply is_tc_eq; exact H. Qed.

Lemma prev_ok_last l o b :
  TokInverse.shape l = true -> TokInverse.shape o = true -> TokInverse.open_tok o ->
  prev_ok (Some l) = true -> TokInverse.last_tok_ok l (TokInverse.texts (o :: b)) = true.
Proof.
  intros Sl So Ho Hp. unfold prev_ok in Hp. apply andb_true_iff in Hp. destruct Hp as [Hc Hs].
  apply negb_true_iff in Hc. apply negb_true_iff in Hs.
  destruct (tc_beq (tcat l) TCommandName) eqn:Ek.
  - apply tc_eqb_eq in Ek. apply TokInverse.cmd_not_sizing_ok; [exact Sl | exact Ek | |].
    + destruct (TokInverse.open_tok_char o So Ho) as (d & Ed & Hd).
      rewrite TokInverse.texts_cons, Ed. cbn [app hd_error TokInverse.nc_not].
      destruct (TokInverse.open_char_facts d Hd) as (_ & _ & _ & _ & _ & Hls). rewrite Hls.
      reflexivity.
    + unfold is_tc in Hs. rewrite Ek in Hs. cbn [tc_beq andb] in Hs. exact Hs.
  - unfold TokInverse.last_tok_ok. unfold is_tc in Hc.
    destruct (tcat l); try reflexivity; discriminate.
Qed.

(* KeptK and DropSp (TokInverse) are the same idea: the bridge *)
Lemma KeptK_DropSp p toks kept : KeptK p toks kept ->
  forall pre, p = lastopt pre -> TokInverse.shaped (pre ++ toks) ->
  TokInverse.DropSp (pre ++ toks) (pre ++ kept).
Proof.
  induction 1 as [p|p t ts ks K IH|p sp t ts ks Hsp Hop Hok K IH]; intros pre Ep Hsh.
  - apply TokInverse.DS_done.
  - specialize (IH (pre ++ [t])). rewrite <- !app_assoc in IH. apply IH; [|exact Hsh].
    symmetry. apply lastopt_snoc.
  - assert (Hsh' : TokInverse.shaped (pre ++ t :: ts)).
    { unfold TokInverse.shaped in *. apply Forall_app in Hsh. destruct Hsh as [H1 H2].
      apply Forall_app. split; [exact H1|]. inversion H2; assumption. }
    apply TokInverse.DS_step.
    + apply is_tc_eq. exact Hsp.
    + apply opener_open_tok. exact Hop.
    + rewrite last_ok_lastopt. rewrite <- Ep. destruct p as [l|]; [|reflexivity].
      unfold TokInverse.shaped in Hsh. rewrite Forall_forall in Hsh.
      apply prev_ok_last; [| | apply opener_open_tok; exact Hop | exact Hok].
      * apply Hsh. apply in_or_app. left. apply lastopt_In. symmetry. exact Ep.
      * apply Hsh. apply in_or_app. right. right. left. reflexivity.
    + apply IH; [exact Ep | exact Hsh'].
Qed.

(* where a context (Some e, p1) comes from *)
Lemma ctx_two orig e p1 : ctx None None orig = (Some e, p1) ->
  exists l x, orig = l ++ [e; x] /\ p1 = Some x.
Proof.
  destruct orig as [|x orig0 _] using rev_ind; [discriminate|].
  rewrite ctx_app. cbn [ctx]. intro H. inversion H as [[H1 H2]].
  destruct orig0 as [|y l' _] using rev_ind.
  - cbn [ctx snd] in H1. discriminate H1.
  - rewrite ctx_snoc in H1. inversion H1; subst y. exists l', x. rewrite <- app_assoc. auto.
Qed.

Lemma follows_ok_suffix a b :
  TokInverse.follows_ok (a ++ b) = true -> TokInverse.follows_ok b = true.
Proof.
  induction a as [|x a IH]; [auto|]. cbn [app TokInverse.follows_ok]. intro H.
  apply andb_true_iff in H. apply IH. tauto.
Qed.

Lemma closer_prev_ok x : closer_cat x = true -> prev_ok (Some x) = true.
Proof.
  unfold closer_cat, prev_ok, is_tc. intro H.
  destruct (tcat x); try discriminate H; reflexivity.
Qed.

(* every spacer the run dropped stood after a group closer or a command name:
   never after a Comment; with sizing_ok, never after a sizing prefix *)
Lemma KeptJ_KeptK p2 p1 toks kept : KeptJ p2 p1 toks kept ->
  forall orig q, ctx None None orig = (p2, p1) ->
    TokInverse.shaped (orig ++ toks) -> TokInverse.follows_ok (orig ++ toks) = true ->
    sizing_ok (orig ++ toks) = true ->
    (q = p1 \/ match toks with t :: _ => is_tc TMergedSpacer t = false | [] => True end) ->
    KeptK q toks kept.
Proof.
  induction 1 as [p2 p1|p2 p1 t ts ks K IH|p2 p1 sp t ts ks Hsp Hop Hap K IH];
    intros orig q Hctx Hsh Hfo Hsz Hq.
  - constructor.
  - apply KK_keep. apply (IH (orig ++ [t])).
    + rewrite ctx_app, Hctx. reflexivity.
    + rewrite <- app_assoc. exact Hsh.
    + rewrite <- app_assoc. exact Hfo.
    + rewrite <- app_assoc. exact Hsz.
    + left. reflexivity.
  - assert (Eq : q = p1) by (destruct Hq as [E|E]; [exact E | congruence]). subst q.
    assert (Hts : is_tc TMergedSpacer t = false).
    { destruct Hop as [H|H]; eapply is_tc_excl; try exact H; discriminate. }
    apply KK_drop; [exact Hsp | exact Hop | |].
    + destruct Hap as [(x & -> & Hx)|(e & -> & He)]; [apply closer_prev_ok; exact Hx|].
      destruct (ctx_two _ _ _ Hctx) as (l & x & -> & ->).
      rewrite <- app_assoc in Hsh, Hfo, Hsz. cbn [app] in Hsh, Hfo, Hsz.
      assert (Se : TokInverse.shape e = true /\ TokInverse.shape x = true).
      { unfold TokInverse.shaped in Hsh. apply Forall_app in Hsh. destruct Hsh as [_ H2].
        inversion H2 as [|? ? A1 H3]; subst. inversion H3 as [|? ? A2 _]; subst. auto. }
      destruct Se as [Se Sx].
      apply follows_ok_suffix in Hfo. cbn [TokInverse.follows_ok] in Hfo.
      apply andb_true_iff in Hfo. destruct Hfo as [Hfe _].
      destruct (TokInverse.escape_followed_by_command e x _ Se Sx (is_tc_eq _ _ He) Hfe) as [Ek|Ek].
      * assert (Hm : mem_str (ttext x) TokInverse.sizing_prefixes = false).
        { change (l ++ e :: x :: sp :: t :: ts) with (l ++ [e] ++ x :: sp :: t :: ts) in Hsz.
          rewrite app_assoc in Hsz. apply sizing_ok_suffix in Hsz. cbn [sizing_ok] in Hsz.
          apply andb_true_iff in Hsz. destruct Hsz as [Hsz _]. apply negb_true_iff in Hsz.
          assert (Hio : is_opener t = true).
          { unfold is_opener. destruct Hop as [H|H]; rewrite H; [reflexivity | apply orb_true_r]. }
          rewrite Hsp, Hio in Hsz. unfold is_tc in Hsz. rewrite Ek in Hsz. cbn [tc_beq andb] in Hsz.
          destruct (mem_str (ttext x) TokInverse.sizing_prefixes); [discriminate Hsz | reflexivity]. }
        unfold prev_ok, is_tc. rewrite Ek, Hm. reflexivity.
      * unfold prev_ok, is_tc. rewrite Ek. reflexivity.
    + apply (IH (orig ++ [sp])).
      * rewrite ctx_app, Hctx. reflexivity.
      * rewrite <- app_assoc. exact Hsh.
      * rewrite <- app_assoc. exact Hfo.
      * rewrite <- app_assoc. exact Hsz.
      * right. exact Hts.
Qed.

Lemma diag_cases {A} (r : res A) : diag r ->
  match r with
  | Ok _ => True
  | Err e => e = EOFError \/ e = TypeError \/ e = AssertionError
  end.
Proof. destruct r as [a|e]; [trivial|]. destruct e; simpl; intro H; try contradiction; auto. Qed.

(* the tokens of the serialised text are the kept tokens, re-positioned *)
Theorem C16_retokenize (s : str) user t :
  parse s true user = Ok t ->
  TokInverse.clean s = true -> TokInverse.start_quirk s = false ->
  TokInverse.start_quirk (estr t) = false ->
  hypb (all_skip user) (fst (tokens_of_string s)) = true -> nobare t = true ->
  sizing_ok (fst (tokens_of_string s)) = true ->
  exists kept, Kept (fst (tokens_of_string s)) kept /\ estr t = texts kept /\
    tokens_of_string (estr t) = (TokInverse.repos 0 kept, TEnd) /\
    (forall t', parse_tokens kept true user = Ok t' -> t' = t) /\
    (frag (fst (tokens_of_string s)) = true -> parse_tokens kept true user = Ok t).
Proof.
  intros H Hcl Hq Hq' Hb Hn Hctx.
  apply parse_unfold in H. destruct H as (toks & Etok & Hp). rewrite Etok in *. cbn [fst] in *.
  pose proof (Hyp_of_tokenizer s toks TEnd _ Etok Hb) as Hy.
  destruct (parse_tokens_drop_run toks user t Hy Hp Hn) as (kept & K & KJ & T & D & U).
  destruct (TokInverse.tokens_shaped s Hcl Hq) as (toks0 & E0 & _ & Hsh & Hfo & Hfirst & _).
  rewrite Etok in E0. inversion E0; subst toks0.
  assert (KK : KeptK None toks kept).
  { apply (KeptJ_KeptK None None toks kept KJ [] None); auto. }
  pose proof (KeptK_DropSp None toks kept KK [] eq_refl Hsh) as DS. cbn [app] in DS.
  assert (Hq2 : TokInverse.start_quirk (TokInverse.texts kept) = false).
  { change (TokInverse.texts kept) with (texts kept). rewrite <- T. exact Hq'. }
  destruct (TokInverse.drop_spacers_retokenize toks kept DS Hsh Hfo Hfirst Hq2)
    as (_ & _ & _ & Etk).
  exists kept. split; [exact K|]. split; [exact T|]. split; [|split; [exact D | exact U]].
  rewrite T. exact Etk.
Qed.

(* C16, general case, up to the success of the second parse: re-parsing the
   serialised text either raises one of the three diagnostic errors, or it
   yields the same tree up to positions, which serialises to the same text *)
Theorem C16_reparse_outcome (s : str) user t :
  parse s true user = Ok t ->
  TokInverse.clean s = true -> TokInverse.start_quirk s = false ->
  TokInverse.start_quirk (estr t) = false ->
  hypb (all_skip user) (fst (tokens_of_string s)) = true -> nobare t = true ->
  sizing_ok (fst (tokens_of_string s)) = true ->
  match parse (estr t) true user with
  | Ok t' => expr_pos_sim t t' /\ estr t' = estr t
  | Err e => e = EOFError \/ e = TypeError \/ e = AssertionError
  end.
Proof.
  intros H Hcl Hq Hq' Hb Hn Hctx.
  destruct (C16_retokenize s user t H Hcl Hq Hq' Hb Hn Hctx) as (kept & K & T & Etk & D & _).
  unfold parse. rewrite Etk.
  pose proof (parse_tokens_pos_sim _ _ true user (repos_pos_sim kept 0)) as S.
  pose proof (parse_tokens_total (TokInverse.repos 0 kept) true user) as Tot.
  apply diag_cases in Tot.
  destruct (parse_tokens (TokInverse.repos 0 kept) true user) as [t'|e]; [|exact Tot].
  destruct (parse_tokens kept true user) as [t''|e'] eqn:E2; [|contradiction].
  specialize (D t'' eq_refl). subst t''.
  assert (S' : expr_pos_sim t t').
  { apply ze_eq_sim. symmetry. apply sim_ze_eq. exact S. }
  split; [exact S' | symmetry; apply expr_pos_sim_estr; exact S'].
Qed.

(* C16 in full for documents without \item whose \end{name} is not directly
   followed by a group: the second parse succeeds *)
Theorem C16_fixed_point (s : str) user t :
  parse s true user = Ok t ->
  TokInverse.clean s = true -> TokInverse.start_quirk s = false ->
  TokInverse.start_quirk (estr t) = false ->
  hypb (all_skip user) (fst (tokens_of_string s)) = true -> nobare t = true ->
  sizing_ok (fst (tokens_of_string s)) = true ->
  frag (fst (tokens_of_string s)) = true ->
  exists t', parse (estr t) true user = Ok t' /\ expr_pos_sim t t' /\ estr t' = estr t.
Proof.
  intros H Hcl Hq Hq' Hb Hn Hctx Hf.
  destruct (C16_retokenize s user t H Hcl Hq Hq' Hb Hn Hctx) as (kept & K & T & Etk & _ & U).
  specialize (U Hf).
  pose proof (parse_tokens_pos_sim _ _ true user (repos_pos_sim kept 0)) as S.
  rewrite U in S.
  destruct (parse_tokens (TokInverse.repos 0 kept) true user) as [t'|e] eqn:E; [|contradiction].
  exists t'. unfold parse. rewrite Etk. split; [exact E|].
  assert (S' : expr_pos_sim t t').
  { apply ze_eq_sim. symmetry. apply sim_ze_eq. exact S. }
  split; [exact S' | symmetry; apply expr_pos_sim_estr; exact S'].
Qed.

Theorem C16_fixed_point_partial (s : str) user t t' :
  parse s true user = Ok t ->
  TokInverse.clean s = true -> TokInverse.start_quirk s = false ->
  TokInverse.start_quirk (estr t) = false ->
  hypb (all_skip user) (fst (tokens_of_string s)) = true -> nobare t = true ->
  sizing_ok (fst (tokens_of_string s)) = true ->
  parse (estr t) true user = Ok t' ->
  expr_pos_sim t t' /\ estr t' = estr t.
Proof.
  intros H Hcl Hq Hq' Hb Hn Hctx H'.
  pose proof (C16_reparse_outcome s user t H Hcl Hq Hq' Hb Hn Hctx) as O.
  rewrite H' in O. exact O.
Qed.

(* ====================================================================== *)
(* non-vacuity and necessity                                               *)
(* ====================================================================== *)
(* Every document below was first run through the real library
   (harness/impl.py, PYTHONHASHSEED=0); the outputs are quoted. *)

Lemma not_sim t t' : ze t <> ze t' -> ~ expr_pos_sim t t'.
Proof. intros H S. apply H. apply sim_ze_eq. exact S. Qed.

(* exA = '\a [x] {y}z'   str(parse(exA)) == '\a[x]{y}z' *)
Definition exA : str := [92; 97; 32; 91; 120; 93; 32; 123; 121; 125; 122]%N.
Definition treeA : expr := match parse exA true [] with Ok t => t | Err _ => ERoot [] end.
Definition treeA' : expr :=
  match parse (estr treeA) true [] with Ok t => t | Err _ => ERoot [] end.

Example exA_parses : parse exA true [] = Ok treeA.
Proof. vm_compute. reflexivity. Qed.
Example exA_output : estr treeA = [92; 97; 91; 120; 93; 123; 121; 125; 122]%N.
Proof. vm_compute. reflexivity. Qed.
Example exA_clean : TokInverse.clean exA = true.
Proof. vm_compute. reflexivity. Qed.
Example exA_quirk : TokInverse.start_quirk exA = false.
Proof. vm_compute. reflexivity. Qed.
Example exA_quirk' : TokInverse.start_quirk (estr treeA) = false.
Proof. vm_compute. reflexivity. Qed.
Example exA_hyp : hypb (all_skip []) (fst (tokens_of_string exA)) = true.
Proof. vm_compute. reflexivity. Qed.
Example exA_nobare : nobare treeA = true.
Proof. vm_compute. reflexivity. Qed.
Example exA_ctx : sizing_ok (fst (tokens_of_string exA)) = true.
Proof. vm_compute. reflexivity. Qed.
Example exA_reparses : parse (estr treeA) true [] = Ok treeA'.
Proof. vm_compute. reflexivity. Qed.
(* by the theorem, not by recomputation *)
Example exA_fixed_point : expr_pos_sim treeA treeA' /\ estr treeA' = estr treeA.
Proof.
  exact (C16_fixed_point_partial exA [] treeA treeA' exA_parses exA_clean exA_quirk exA_quirk'
           exA_hyp exA_nobare exA_ctx exA_reparses).
Qed.
(* the two trees are not equal: positions moved *)
Example exA_positions_moved : treeA <> treeA'.
Proof. vm_compute. discriminate. Qed.

(* exB (200 characters) =
     '\section {Intro} text $x^2$ and \[ a+b \]\n'
     '\textbf\n{bold} \cite [p. 3] {key}\n'
     '\begin{itemize}\n\item one \emph {two}\n\item[b] three\n\end{itemize}\n'
     '\begin {center} c \end {center}\n'
     '\frac {a}\n{b} end % done\n'
   str(parse(exB)) drops nine argument spacers (two of them line breaks) and
   str(parse(str(parse(exB)))) == str(parse(exB)). *)
Definition exB : str :=
  [92; 115; 101; 99; 116; 105; 111; 110; 32; 123; 73; 110; 116; 114; 111; 125; 32; 116; 101; 120;
   116; 32; 36; 120; 94; 50; 36; 32; 97; 110; 100; 32; 92; 91; 32; 97; 43; 98; 32; 92; 93; 10; 92;
   116; 101; 120; 116; 98; 102; 10; 123; 98; 111; 108; 100; 125; 32; 92; 99; 105; 116; 101; 32; 91;
   112; 46; 32; 51; 93; 32; 123; 107; 101; 121; 125; 10; 92; 98; 101; 103; 105; 110; 123; 105; 116;
   101; 109; 105; 122; 101; 125; 10; 92; 105; 116; 101; 109; 32; 111; 110; 101; 32; 92; 101; 109;
   112; 104; 32; 123; 116; 119; 111; 125; 10; 92; 105; 116; 101; 109; 91; 98; 93; 32; 116; 104; 114;
   101; 101; 10; 92; 101; 110; 100; 123; 105; 116; 101; 109; 105; 122; 101; 125; 10; 92; 98; 101;
   103; 105; 110; 32; 123; 99; 101; 110; 116; 101; 114; 125; 32; 99; 32; 92; 101; 110; 100; 32; 123;
   99; 101; 110; 116; 101; 114; 125; 10; 92; 102; 114; 97; 99; 32; 123; 97; 125; 10; 123; 98; 125;
   32; 101; 110; 100; 32; 37; 32; 100; 111; 110; 101; 10]%N.
Definition treeB : expr := match parse exB true [] with Ok t => t | Err _ => ERoot [] end.
Definition treeB' : expr :=
  match parse (estr treeB) true [] with Ok t => t | Err _ => ERoot [] end.

Example exB_parses : parse exB true [] = Ok treeB.
Proof. vm_compute. reflexivity. Qed.
Example exB_size :
  length exB = 200%nat /\ length (estr treeB) = 191%nat /\
  length (fst (tokens_of_string exB)) = (9 + length (fst (tokens_of_string (estr treeB))))%nat.
Proof. vm_compute. repeat split. Qed.
Example exB_clean : TokInverse.clean exB = true.
Proof. vm_compute. reflexivity. Qed.
Example exB_quirk : TokInverse.start_quirk exB = false.
Proof. vm_compute. reflexivity. Qed.
Example exB_quirk' : TokInverse.start_quirk (estr treeB) = false.
Proof. vm_compute. reflexivity. Qed.
Example exB_hyp : hypb (all_skip []) (fst (tokens_of_string exB)) = true.
Proof. vm_compute. reflexivity. Qed.
Example exB_nobare : nobare treeB = true.
Proof. vm_compute. reflexivity. Qed.
Example exB_ctx : sizing_ok (fst (tokens_of_string exB)) = true.
Proof. vm_compute. reflexivity. Qed.
Example exB_reparses : parse (estr treeB) true [] = Ok treeB'.
Proof. vm_compute. reflexivity. Qed.
Example exB_fixed_point : expr_pos_sim treeB treeB' /\ estr treeB' = estr treeB.
Proof.
  exact (C16_fixed_point_partial exB [] treeB treeB' exB_parses exB_clean exB_quirk exB_quirk'
           exB_hyp exB_nobare exB_ctx exB_reparses).
Qed.
Example exB_outcome :
  match parse (estr treeB) true [] with
  | Ok t' => expr_pos_sim treeB t' /\ estr t' = estr treeB
  | Err e => e = EOFError \/ e = TypeError \/ e = AssertionError
  end.
Proof.
  exact (C16_reparse_outcome exB [] treeB exB_parses exB_clean exB_quirk exB_quirk'
           exB_hyp exB_nobare exB_ctx).
Qed.
Example exB_retokenize :
  exists kept, Kept (fst (tokens_of_string exB)) kept /\ estr treeB = texts kept /\
    tokens_of_string (estr treeB) = (TokInverse.repos 0 kept, TEnd) /\
    (forall t', parse_tokens kept true [] = Ok t' -> t' = treeB) /\
    (frag (fst (tokens_of_string exB)) = true -> parse_tokens kept true [] = Ok treeB).
Proof.
  exact (C16_retokenize exB [] treeB exB_parses exB_clean exB_quirk exB_quirk'
           exB_hyp exB_nobare exB_ctx).
Qed.

(* ---- necessity of the side conditions, at the level of `parse` *)

(* '\left {x}': the sizing prefix fuses with the brace.
   real code: str(parse('\left {x}')) == '\left{x}', whose parse has a command
   named 'left{' followed by two text nodes, instead of 'left' with one
   argument; the TEXT is still a fixed point, the tree shape is not. *)
Theorem C16_sizing_needed :
  exists s t t',
    parse s true [] = Ok t /\ TokInverse.clean s = true /\ TokInverse.start_quirk s = false /\
    TokInverse.start_quirk (estr t) = false /\
    hypb (all_skip []) (fst (tokens_of_string s)) = true /\ nobare t = true /\
    sizing_ok (fst (tokens_of_string s)) = false /\
    parse (estr t) true [] = Ok t' /\ ~ expr_pos_sim t t' /\ estr t' = estr t.
Proof.
  exists [92; 108; 101; 102; 116; 32; 123; 120; 125]%N. eexists. eexists.
  split; [vm_compute; reflexivity|].
  split; [vm_compute; reflexivity|]. split; [vm_compute; reflexivity|].
  split; [vm_compute; reflexivity|]. split; [vm_compute; reflexivity|].
  split; [vm_compute; reflexivity|]. split; [vm_compute; reflexivity|].
  split; [vm_compute; reflexivity|].
  split; [apply not_sim; vm_compute; discriminate | vm_compute; reflexivity].
Qed.

(* 'a\b {ccccccccc}\x': dropping the spacer moves the second escape to index
   14 = max sizing-command length, which switches on the index-0 quirk of the
   tokenizer: the first token 'a' of the output is a CommandName, not Text.
   real code: the text is a fixed point and the node names agree; the two
   trees differ in the category of the first text token. *)
Theorem C16_quirk_needed :
  exists s t t',
    parse s true [] = Ok t /\ TokInverse.clean s = true /\ TokInverse.start_quirk s = false /\
    TokInverse.start_quirk (estr t) = true /\
    hypb (all_skip []) (fst (tokens_of_string s)) = true /\ nobare t = true /\
    sizing_ok (fst (tokens_of_string s)) = true /\
    parse (estr t) true [] = Ok t' /\ ~ expr_pos_sim t t' /\ estr t' = estr t.
Proof.
  exists [97; 92; 98; 32; 123; 99; 99; 99; 99; 99; 99; 99; 99; 99; 125; 92; 120]%N.
  eexists. eexists.
  split; [vm_compute; reflexivity|].
  split; [vm_compute; reflexivity|]. split; [vm_compute; reflexivity|].
  split; [vm_compute; reflexivity|]. split; [vm_compute; reflexivity|].
  split; [vm_compute; reflexivity|]. split; [vm_compute; reflexivity|].
  split; [vm_compute; reflexivity|].
  split; [apply not_sim; vm_compute; discriminate | vm_compute; reflexivity].
Qed.

(* no side condition about comments is needed: a spacer is only ever dropped
   after a group closer or a command name (KeptJ), never after a Comment token.
   '%c' eol '{x}' (the spacer after the comment is not in argument position, so
   it is kept) and '\a{x}%c' eol '{y}' are covered by the theorem. *)
Definition exE : str := [92; 97; 123; 120; 125; 37; 99; 10; 123; 121; 125]%N.
Definition treeE : expr := match parse exE true [] with Ok t => t | Err _ => ERoot [] end.
Example exE_fixed_point :
  exists t', parse (estr treeE) true [] = Ok t' /\ expr_pos_sim treeE t' /\ estr t' = estr treeE.
Proof.
  apply (C16_fixed_point exE [] treeE); vm_compute; reflexivity.
Qed.
Example exE_unchanged : estr treeE = exE.
Proof. vm_compute. reflexivity. Qed.

(* exC (216 characters): like exB with a quote and a verbatim environment
   instead of the itemize; no \item, so the full theorem applies:
     '\section {Intro} text $x^2$ and \[ a+b \]\n\textbf\n{bold} \cite [p. 3] {key}\n'
     '\begin{quote}\none \emph {two}\n\end{quote}\n'
     '\begin{verbatim}\n\x {y} $\n\end{verbatim}\n'
     '\begin {center} c \end {center}\n\frac {a}\n{b} end % done\n'
   real code: nine spacers dropped (the one inside verbatim is kept), and the
   output is a fixed point. *)
Definition exC : str :=
  [92; 115; 101; 99; 116; 105; 111; 110; 32; 123; 73; 110; 116; 114; 111; 125; 32; 116; 101; 120;
   116; 32; 36; 120; 94; 50; 36; 32; 97; 110; 100; 32; 92; 91; 32; 97; 43; 98; 32; 92; 93; 10; 92;
   116; 101; 120; 116; 98; 102; 10; 123; 98; 111; 108; 100; 125; 32; 92; 99; 105; 116; 101; 32; 91;
   112; 46; 32; 51; 93; 32; 123; 107; 101; 121; 125; 10; 92; 98; 101; 103; 105; 110; 123; 113; 117;
   111; 116; 101; 125; 10; 111; 110; 101; 32; 92; 101; 109; 112; 104; 32; 123; 116; 119; 111; 125;
   10; 92; 101; 110; 100; 123; 113; 117; 111; 116; 101; 125; 10; 92; 98; 101; 103; 105; 110; 123;
   118; 101; 114; 98; 97; 116; 105; 109; 125; 10; 92; 120; 32; 123; 121; 125; 32; 36; 10; 92; 101;
   110; 100; 123; 118; 101; 114; 98; 97; 116; 105; 109; 125; 10; 92; 98; 101; 103; 105; 110; 32;
   123; 99; 101; 110; 116; 101; 114; 125; 32; 99; 32; 92; 101; 110; 100; 32; 123; 99; 101; 110; 116;
   101; 114; 125; 10; 92; 102; 114; 97; 99; 32; 123; 97; 125; 10; 123; 98; 125; 32; 101; 110; 100;
   32; 37; 32; 100; 111; 110; 101; 10]%N.
Definition treeC : expr := match parse exC true [] with Ok t => t | Err _ => ERoot [] end.

Example exC_parses : parse exC true [] = Ok treeC.
Proof. vm_compute. reflexivity. Qed.
Example exC_size : length exC = 216%nat /\ length (estr treeC) = 207%nat.
Proof. vm_compute. split; reflexivity. Qed.
Example exC_clean : TokInverse.clean exC = true.
Proof. vm_compute. reflexivity. Qed.
Example exC_quirk : TokInverse.start_quirk exC = false.
Proof. vm_compute. reflexivity. Qed.
Example exC_quirk' : TokInverse.start_quirk (estr treeC) = false.
Proof. vm_compute. reflexivity. Qed.
Example exC_hyp : hypb (all_skip []) (fst (tokens_of_string exC)) = true.
Proof. vm_compute. reflexivity. Qed.
Example exC_nobare : nobare treeC = true.
Proof. vm_compute. reflexivity. Qed.
Example exC_ctx : sizing_ok (fst (tokens_of_string exC)) = true.
Proof. vm_compute. reflexivity. Qed.
Example exC_frag : frag (fst (tokens_of_string exC)) = true.
Proof. vm_compute. reflexivity. Qed.
(* the second parse succeeds BY THE THEOREM; nothing about it is computed *)
Example exC_fixed_point :
  exists t', parse (estr treeC) true [] = Ok t' /\ expr_pos_sim treeC t' /\ estr t' = estr treeC.
Proof.
  exact (C16_fixed_point exC [] treeC exC_parses exC_clean exC_quirk exC_quirk' exC_hyp
           exC_nobare exC_ctx exC_frag).
Qed.

(* exD (248 characters): nested itemize / enumerate with plain \item's; the
   item loops stop at `\item` and at `\end {enumerate}` (a peek across a spacer
   that the second run no longer sees):
     '\section {Intro} text $x^2$ and \[ a+b \]\n\textbf\n{bold} \cite [p. 3] {key}\n'
     '\begin{itemize}\n\item one \emph {two}\n'
     '\item three \begin{enumerate} \item x \item y \end {enumerate}\n\end{itemize}\n'
     '\begin {center} c \end {center}\n\frac {a}\n{b} end % done\n'
   real code: ten spacers dropped, output is a fixed point. *)
Definition exD : str :=
  [92; 115; 101; 99; 116; 105; 111; 110; 32; 123; 73; 110; 116; 114; 111; 125; 32; 116; 101; 120;
   116; 32; 36; 120; 94; 50; 36; 32; 97; 110; 100; 32; 92; 91; 32; 97; 43; 98; 32; 92; 93; 10; 92;
   116; 101; 120; 116; 98; 102; 10; 123; 98; 111; 108; 100; 125; 32; 92; 99; 105; 116; 101; 32; 91;
   112; 46; 32; 51; 93; 32; 123; 107; 101; 121; 125; 10; 92; 98; 101; 103; 105; 110; 123; 105; 116;
   101; 109; 105; 122; 101; 125; 10; 92; 105; 116; 101; 109; 32; 111; 110; 101; 32; 92; 101; 109;
   112; 104; 32; 123; 116; 119; 111; 125; 10; 92; 105; 116; 101; 109; 32; 116; 104; 114; 101; 101;
   32; 92; 98; 101; 103; 105; 110; 123; 101; 110; 117; 109; 101; 114; 97; 116; 101; 125; 32; 92;
   105; 116; 101; 109; 32; 120; 32; 92; 105; 116; 101; 109; 32; 121; 32; 92; 101; 110; 100; 32; 123;
   101; 110; 117; 109; 101; 114; 97; 116; 101; 125; 10; 92; 101; 110; 100; 123; 105; 116; 101; 109;
   105; 122; 101; 125; 10; 92; 98; 101; 103; 105; 110; 32; 123; 99; 101; 110; 116; 101; 114; 125;
   32; 99; 32; 92; 101; 110; 100; 32; 123; 99; 101; 110; 116; 101; 114; 125; 10; 92; 102; 114; 97;
   99; 32; 123; 97; 125; 10; 123; 98; 125; 32; 101; 110; 100; 32; 37; 32; 100; 111; 110; 101; 10]%N.
Definition treeD : expr := match parse exD true [] with Ok t => t | Err _ => ERoot [] end.

Example exD_parses : parse exD true [] = Ok treeD.
Proof. vm_compute. reflexivity. Qed.
Example exD_size : length exD = 248%nat /\ length (estr treeD) = 238%nat.
Proof. vm_compute. split; reflexivity. Qed.
Example exD_clean : TokInverse.clean exD = true.
Proof. vm_compute. reflexivity. Qed.
Example exD_quirk : TokInverse.start_quirk exD = false.
Proof. vm_compute. reflexivity. Qed.
Example exD_quirk' : TokInverse.start_quirk (estr treeD) = false.
Proof. vm_compute. reflexivity. Qed.
Example exD_hyp : hypb (all_skip []) (fst (tokens_of_string exD)) = true.
Proof. vm_compute. reflexivity. Qed.
Example exD_nobare : nobare treeD = true.
Proof. vm_compute. reflexivity. Qed.
Example exD_ctx : sizing_ok (fst (tokens_of_string exD)) = true.
Proof. vm_compute. reflexivity. Qed.
Example exD_frag : frag (fst (tokens_of_string exD)) = true.
Proof. vm_compute. reflexivity. Qed.
Example exD_fixed_point :
  exists t', parse (estr treeD) true [] = Ok t' /\ expr_pos_sim treeD t' /\ estr t' = estr treeD.
Proof.
  exact (C16_fixed_point exD [] treeD exD_parses exD_clean exD_quirk exD_quirk' exD_hyp
           exD_nobare exD_ctx exD_frag).
Qed.
(* exB (an \item with a simple label `[b]`) is in the fragment too *)
Example exB_frag : frag (fst (tokens_of_string exB)) = true.
Proof. vm_compute. reflexivity. Qed.
Example exB_fixed_point_full :
  exists t', parse (estr treeB) true [] = Ok t' /\ expr_pos_sim treeB t' /\ estr t' = estr treeB.
Proof.
  exact (C16_fixed_point exB [] treeB exB_parses exB_clean exB_quirk exB_quirk' exB_hyp
           exB_nobare exB_ctx exB_frag).
Qed.

(* outside the fragment: an \item label with markup, a group right after
   \end{name}; both are fixed points of the real code and of the model (computed),
   but C16_fixed_point does not apply *)
Example outside_frag :
  let s1 := [92; 105; 116; 101; 109; 91; 92; 97; 32; 123; 98; 125; 93; 32; 120]%N in
  let s2 := [92; 98; 101; 103; 105; 110; 123; 97; 125; 120; 92; 101; 110; 100; 123; 97; 125; 123;
             92; 98; 32; 123; 99; 125; 125]%N in
  frag (fst (tokens_of_string s1)) = false /\ frag (fst (tokens_of_string s2)) = false /\
  (exists t t', parse s1 true [] = Ok t /\ parse (estr t) true [] = Ok t' /\ estr t' = estr t) /\
  (exists t t', parse s2 true [] = Ok t /\ parse (estr t) true [] = Ok t' /\ estr t' = estr t).
Proof.
  cbv zeta. split; [vm_compute; reflexivity|]. split; [vm_compute; reflexivity|].
  split; eexists; eexists; (split; [vm_compute; reflexivity|]);
    (split; [vm_compute; reflexivity|]); vm_compute; reflexivity.
Qed.
