(* The reader regenerated from the Python source (Model/ReadGen.v, written by
   harness/gen_reader.py on every run) against the hand-written reader of
   Model/Reader.v: executable validation.

   * the tables and constants the translator re-derives from the source are the
     ones the model uses;
   * `agree`: on 172 inputs the regenerated reader, run from the top (read_tex ->
     root), returns exactly what the hand-written parse_tokens returns
     (vm_compute; both tolerance modes; every construct and every error class
     that is reachable from the top);
   * single functions called directly, for the error classes that are not
     (KeyError, StopIteration) and for the cursor running past the end.
   The theorems for all inputs are in ReadGenEquiv.v.  Everything here computes
   with the generated terms, so it is re-checked against whatever the
   translator produced. *)
From Coq Require Import List NArith ZArith Bool Lia Arith.
From TexModel Require Import Base Tables Chars Tokenizer Tree Reader ReadDSL ReadGen.
Import ListNotations.

(* ================================================================= Part 1 *)

Lemma gen_signatures_ok : gen_signatures = Tables.signatures.
Proof. reflexivity. Qed.

Lemma gen_modes_ok :
  gen_MODE_NON_MATH = str_mode_non_math /\ gen_MODE_MATH = str_mode_math
  /\ gen_MODE_SPECIAL = str_mode_special.
Proof. repeat split. Qed.

(* the keys of MATH_TOKEN_TO_ENV / ARG_BEGIN_TO_ENV are pairwise different, so
   "first match" (math_kind_of_begin / group_kind_of_begin) is the dict lookup *)
Lemma dict_keys_distinct :
  NoDup (map (fun x => Tables.tc_value (fst (fst (snd x)))) Tables.math_classes) /\
  NoDup (map (fun x => Tables.tc_value (fst (fst (snd x)))) Tables.group_classes).
Proof.
  split; vm_compute; repeat constructor; simpl; intuition discriminate.
Qed.

(* the regenerated reader and the hand-written one agree on the tokens of s *)
Definition agree (s : str) (strict : bool) (user_skip : list str) : Prop :=
  let toks := fst (tokens_of_string s) in
  parse_tokens_gen_full gen_table toks strict user_skip
  = GDone (parse_tokens toks strict user_skip).

(* hello world *)
Example ex00s : agree [104; 101; 108; 108; 111; 32; 119; 111; 114; 108; 100]%N true [].
Proof. vm_compute. reflexivity. Qed.
Example ex00t : agree [104; 101; 108; 108; 111; 32; 119; 111; 114; 108; 100]%N false [].
Proof. vm_compute. reflexivity. Qed.
(* \textbf{bold} text *)
Example ex01s : agree [92; 116; 101; 120; 116; 98; 102; 123; 98; 111; 108; 100; 125; 32; 116; 101; 120; 116]%N true [].
Proof. vm_compute. reflexivity. Qed.
Example ex01t : agree [92; 116; 101; 120; 116; 98; 102; 123; 98; 111; 108; 100; 125; 32; 116; 101; 120; 116]%N false [].
Proof. vm_compute. reflexivity. Qed.
(* \section[short]{Long title} *)
Example ex02s : agree [92; 115; 101; 99; 116; 105; 111; 110; 91; 115; 104; 111; 114; 116; 93; 123; 76; 111; 110; 103; 32; 116; 105; 116; 108; 101; 125]%N true [].
Proof. vm_compute. reflexivity. Qed.
Example ex02t : agree [92; 115; 101; 99; 116; 105; 111; 110; 91; 115; 104; 111; 114; 116; 93; 123; 76; 111; 110; 103; 32; 116; 105; 116; 108; 101; 125]%N false [].
Proof. vm_compute. reflexivity. Qed.
(* \section<star>{Star} *)
Example ex03s : agree [92; 115; 101; 99; 116; 105; 111; 110; 42; 123; 83; 116; 97; 114; 125]%N true [].
Proof. vm_compute. reflexivity. Qed.
Example ex03t : agree [92; 115; 101; 99; 116; 105; 111; 110; 42; 123; 83; 116; 97; 114; 125]%N false [].
Proof. vm_compute. reflexivity. Qed.
(* \cmd[a][b]{c}{d} *)
Example ex04s : agree [92; 99; 109; 100; 91; 97; 93; 91; 98; 93; 123; 99; 125; 123; 100; 125]%N true [].
Proof. vm_compute. reflexivity. Qed.
Example ex04t : agree [92; 99; 109; 100; 91; 97; 93; 91; 98; 93; 123; 99; 125; 123; 100; 125]%N false [].
Proof. vm_compute. reflexivity. Qed.
(* \cmd {a} [b] *)
Example ex05s : agree [92; 99; 109; 100; 32; 123; 97; 125; 32; 91; 98; 93]%N true [].
Proof. vm_compute. reflexivity. Qed.
Example ex05t : agree [92; 99; 109; 100; 32; 123; 97; 125; 32; 91; 98; 93]%N false [].
Proof. vm_compute. reflexivity. Qed.
(* \cmd<LF>{a}<LF><LF>{b} *)
Example ex06s : agree [92; 99; 109; 100; 10; 123; 97; 125; 10; 10; 123; 98; 125]%N true [].
Proof. vm_compute. reflexivity. Qed.
Example ex06t : agree [92; 99; 109; 100; 10; 123; 97; 125; 10; 10; 123; 98; 125]%N false [].
Proof. vm_compute. reflexivity. Qed.
(* \def\foo{bar} *)
Example ex07s : agree [92; 100; 101; 102; 92; 102; 111; 111; 123; 98; 97; 114; 125]%N true [].
Proof. vm_compute. reflexivity. Qed.
Example ex07t : agree [92; 100; 101; 102; 92; 102; 111; 111; 123; 98; 97; 114; 125]%N false [].
Proof. vm_compute. reflexivity. Qed.
(* \def\foo *)
Example ex08s : agree [92; 100; 101; 102; 92; 102; 111; 111]%N true [].
Proof. vm_compute. reflexivity. Qed.
Example ex08t : agree [92; 100; 101; 102; 92; 102; 111; 111]%N false [].
Proof. vm_compute. reflexivity. Qed.
(* \textbf x y *)
Example ex09s : agree [92; 116; 101; 120; 116; 98; 102; 32; 120; 32; 121]%N true [].
Proof. vm_compute. reflexivity. Qed.
Example ex09t : agree [92; 116; 101; 120; 116; 98; 102; 32; 120; 32; 121]%N false [].
Proof. vm_compute. reflexivity. Qed.
(* \textbf \emph{x} *)
Example ex10s : agree [92; 116; 101; 120; 116; 98; 102; 32; 92; 101; 109; 112; 104; 123; 120; 125]%N true [].
Proof. vm_compute. reflexivity. Qed.
Example ex10t : agree [92; 116; 101; 120; 116; 98; 102; 32; 92; 101; 109; 112; 104; 123; 120; 125]%N false [].
Proof. vm_compute. reflexivity. Qed.
(* \textbf *)
Example ex11s : agree [92; 116; 101; 120; 116; 98; 102]%N true [].
Proof. vm_compute. reflexivity. Qed.
Example ex11t : agree [92; 116; 101; 120; 116; 98; 102]%N false [].
Proof. vm_compute. reflexivity. Qed.
(* \ *)
Example ex12s : agree [92]%N true [].
Proof. vm_compute. reflexivity. Qed.
Example ex12t : agree [92]%N false [].
Proof. vm_compute. reflexivity. Qed.
(* \cap x \cup y *)
Example ex13s : agree [92; 99; 97; 112; 32; 120; 32; 92; 99; 117; 112; 32; 121]%N true [].
Proof. vm_compute. reflexivity. Qed.
Example ex13t : agree [92; 99; 97; 112; 32; 120; 32; 92; 99; 117; 112; 32; 121]%N false [].
Proof. vm_compute. reflexivity. Qed.
(* \begin{itemize}\item a \item b\end{itemize} *)
Example ex14s : agree [92; 98; 101; 103; 105; 110; 123; 105; 116; 101; 109; 105; 122; 101; 125; 92; 105; 116; 101; 109; 32; 97; 32; 92; 105; 116; 101; 109; 32; 98; 92; 101; 110; 100; 123; 105; 116; 101; 109; 105; 122; 101; 125]%N true [].
Proof. vm_compute. reflexivity. Qed.
Example ex14t : agree [92; 98; 101; 103; 105; 110; 123; 105; 116; 101; 109; 105; 122; 101; 125; 92; 105; 116; 101; 109; 32; 97; 32; 92; 105; 116; 101; 109; 32; 98; 92; 101; 110; 100; 123; 105; 116; 101; 109; 105; 122; 101; 125]%N false [].
Proof. vm_compute. reflexivity. Qed.
(* \begin{itemize}\item[x] a {g} \item\end{itemize} *)
Example ex15s : agree [92; 98; 101; 103; 105; 110; 123; 105; 116; 101; 109; 105; 122; 101; 125; 92; 105; 116; 101; 109; 91; 120; 93; 32; 97; 32; 123; 103; 125; 32; 92; 105; 116; 101; 109; 92; 101; 110; 100; 123; 105; 116; 101; 109; 105; 122; 101; 125]%N true [].
Proof. vm_compute. reflexivity. Qed.
Example ex15t : agree [92; 98; 101; 103; 105; 110; 123; 105; 116; 101; 109; 105; 122; 101; 125; 92; 105; 116; 101; 109; 91; 120; 93; 32; 97; 32; 123; 103; 125; 32; 92; 105; 116; 101; 109; 92; 101; 110; 100; 123; 105; 116; 101; 109; 105; 122; 101; 125]%N false [].
Proof. vm_compute. reflexivity. Qed.
(* \item lone item $x$ *)
Example ex16s : agree [92; 105; 116; 101; 109; 32; 108; 111; 110; 101; 32; 105; 116; 101; 109; 32; 36; 120; 36]%N true [].
Proof. vm_compute. reflexivity. Qed.
Example ex16t : agree [92; 105; 116; 101; 109; 32; 108; 111; 110; 101; 32; 105; 116; 101; 109; 32; 36; 120; 36]%N false [].
Proof. vm_compute. reflexivity. Qed.
(* {\item in group} *)
Example ex17s : agree [123; 92; 105; 116; 101; 109; 32; 105; 110; 32; 103; 114; 111; 117; 112; 125]%N true [].
Proof. vm_compute. reflexivity. Qed.
Example ex17t : agree [123; 92; 105; 116; 101; 109; 32; 105; 110; 32; 103; 114; 111; 117; 112; 125]%N false [].
Proof. vm_compute. reflexivity. Qed.
(* \begin{a}\begin{b}x\end{b}\end{a} *)
Example ex18s : agree [92; 98; 101; 103; 105; 110; 123; 97; 125; 92; 98; 101; 103; 105; 110; 123; 98; 125; 120; 92; 101; 110; 100; 123; 98; 125; 92; 101; 110; 100; 123; 97; 125]%N true [].
Proof. vm_compute. reflexivity. Qed.
Example ex18t : agree [92; 98; 101; 103; 105; 110; 123; 97; 125; 92; 98; 101; 103; 105; 110; 123; 98; 125; 120; 92; 101; 110; 100; 123; 98; 125; 92; 101; 110; 100; 123; 97; 125]%N false [].
Proof. vm_compute. reflexivity. Qed.
(* \begin{a}[opt]{req} body \end{a} *)
Example ex19s : agree [92; 98; 101; 103; 105; 110; 123; 97; 125; 91; 111; 112; 116; 93; 123; 114; 101; 113; 125; 32; 98; 111; 100; 121; 32; 92; 101; 110; 100; 123; 97; 125]%N true [].
Proof. vm_compute. reflexivity. Qed.
Example ex19t : agree [92; 98; 101; 103; 105; 110; 123; 97; 125; 91; 111; 112; 116; 93; 123; 114; 101; 113; 125; 32; 98; 111; 100; 121; 32; 92; 101; 110; 100; 123; 97; 125]%N false [].
Proof. vm_compute. reflexivity. Qed.
(* \begin{a} body \end {a} tail *)
Example ex20s : agree [92; 98; 101; 103; 105; 110; 123; 97; 125; 32; 98; 111; 100; 121; 32; 92; 101; 110; 100; 32; 123; 97; 125; 32; 116; 97; 105; 108]%N true [].
Proof. vm_compute. reflexivity. Qed.
Example ex20t : agree [92; 98; 101; 103; 105; 110; 123; 97; 125; 32; 98; 111; 100; 121; 32; 92; 101; 110; 100; 32; 123; 97; 125; 32; 116; 97; 105; 108]%N false [].
Proof. vm_compute. reflexivity. Qed.
(* \begin{a} body \end<LF>{a} tail *)
Example ex21s : agree [92; 98; 101; 103; 105; 110; 123; 97; 125; 32; 98; 111; 100; 121; 32; 92; 101; 110; 100; 10; 123; 97; 125; 32; 116; 97; 105; 108]%N true [].
Proof. vm_compute. reflexivity. Qed.
Example ex21t : agree [92; 98; 101; 103; 105; 110; 123; 97; 125; 32; 98; 111; 100; 121; 32; 92; 101; 110; 100; 10; 123; 97; 125; 32; 116; 97; 105; 108]%N false [].
Proof. vm_compute. reflexivity. Qed.
(* $x+y$ *)
Example ex22s : agree [36; 120; 43; 121; 36]%N true [].
Proof. vm_compute. reflexivity. Qed.
Example ex22t : agree [36; 120; 43; 121; 36]%N false [].
Proof. vm_compute. reflexivity. Qed.
(* $$x+y$$ *)
Example ex23s : agree [36; 36; 120; 43; 121; 36; 36]%N true [].
Proof. vm_compute. reflexivity. Qed.
Example ex23t : agree [36; 36; 120; 43; 121; 36; 36]%N false [].
Proof. vm_compute. reflexivity. Qed.
(* \(x\) *)
Example ex24s : agree [92; 40; 120; 92; 41]%N true [].
Proof. vm_compute. reflexivity. Qed.
Example ex24t : agree [92; 40; 120; 92; 41]%N false [].
Proof. vm_compute. reflexivity. Qed.
(* \[x\] *)
Example ex25s : agree [92; 91; 120; 92; 93]%N true [].
Proof. vm_compute. reflexivity. Qed.
Example ex25t : agree [92; 91; 120; 92; 93]%N false [].
Proof. vm_compute. reflexivity. Qed.
(* $a \textbf{b} {c} $ d *)
Example ex26s : agree [36; 97; 32; 92; 116; 101; 120; 116; 98; 102; 123; 98; 125; 32; 123; 99; 125; 32; 36; 32; 100]%N true [].
Proof. vm_compute. reflexivity. Qed.
Example ex26t : agree [36; 97; 32; 92; 116; 101; 120; 116; 98; 102; 123; 98; 125; 32; 123; 99; 125; 32; 36; 32; 100]%N false [].
Proof. vm_compute. reflexivity. Qed.
(* $\item$ *)
Example ex27s : agree [36; 92; 105; 116; 101; 109; 36]%N true [].
Proof. vm_compute. reflexivity. Qed.
Example ex27t : agree [36; 92; 105; 116; 101; 109; 36]%N false [].
Proof. vm_compute. reflexivity. Qed.
(* \begin{equation}x \item y\end{equation} *)
Example ex28s : agree [92; 98; 101; 103; 105; 110; 123; 101; 113; 117; 97; 116; 105; 111; 110; 125; 120; 32; 92; 105; 116; 101; 109; 32; 121; 92; 101; 110; 100; 123; 101; 113; 117; 97; 116; 105; 111; 110; 125]%N true [].
Proof. vm_compute. reflexivity. Qed.
Example ex28t : agree [92; 98; 101; 103; 105; 110; 123; 101; 113; 117; 97; 116; 105; 111; 110; 125; 120; 32; 92; 105; 116; 101; 109; 32; 121; 92; 101; 110; 100; 123; 101; 113; 117; 97; 116; 105; 111; 110; 125]%N false [].
Proof. vm_compute. reflexivity. Qed.
(* \begin{equation}a&b\\c\end{equation} *)
Example ex29s : agree [92; 98; 101; 103; 105; 110; 123; 101; 113; 117; 97; 116; 105; 111; 110; 125; 97; 38; 98; 92; 92; 99; 92; 101; 110; 100; 123; 101; 113; 117; 97; 116; 105; 111; 110; 125]%N true [].
Proof. vm_compute. reflexivity. Qed.
Example ex29t : agree [92; 98; 101; 103; 105; 110; 123; 101; 113; 117; 97; 116; 105; 111; 110; 125; 97; 38; 98; 92; 92; 99; 92; 101; 110; 100; 123; 101; 113; 117; 97; 116; 105; 111; 110; 125]%N false [].
Proof. vm_compute. reflexivity. Qed.
(* \begin{align<star>}x\end{align<star>} *)
Example ex30s : agree [92; 98; 101; 103; 105; 110; 123; 97; 108; 105; 103; 110; 42; 125; 120; 92; 101; 110; 100; 123; 97; 108; 105; 103; 110; 42; 125]%N true [].
Proof. vm_compute. reflexivity. Qed.
Example ex30t : agree [92; 98; 101; 103; 105; 110; 123; 97; 108; 105; 103; 110; 42; 125; 120; 92; 101; 110; 100; 123; 97; 108; 105; 103; 110; 42; 125]%N false [].
Proof. vm_compute. reflexivity. Qed.
(* \begin{verbatim}\textbf{a $ \end{verbatim} after *)
Example ex31s : agree [92; 98; 101; 103; 105; 110; 123; 118; 101; 114; 98; 97; 116; 105; 109; 125; 92; 116; 101; 120; 116; 98; 102; 123; 97; 32; 36; 32; 92; 101; 110; 100; 123; 118; 101; 114; 98; 97; 116; 105; 109; 125; 32; 97; 102; 116; 101; 114]%N true [].
Proof. vm_compute. reflexivity. Qed.
Example ex31t : agree [92; 98; 101; 103; 105; 110; 123; 118; 101; 114; 98; 97; 116; 105; 109; 125; 92; 116; 101; 120; 116; 98; 102; 123; 97; 32; 36; 32; 92; 101; 110; 100; 123; 118; 101; 114; 98; 97; 116; 105; 109; 125; 32; 97; 102; 116; 101; 114]%N false [].
Proof. vm_compute. reflexivity. Qed.
(* \begin{verbatim}unclosed \textbf{ *)
Example ex32s : agree [92; 98; 101; 103; 105; 110; 123; 118; 101; 114; 98; 97; 116; 105; 109; 125; 117; 110; 99; 108; 111; 115; 101; 100; 32; 92; 116; 101; 120; 116; 98; 102; 123]%N true [].
Proof. vm_compute. reflexivity. Qed.
Example ex32t : agree [92; 98; 101; 103; 105; 110; 123; 118; 101; 114; 98; 97; 116; 105; 109; 125; 117; 110; 99; 108; 111; 115; 101; 100; 32; 92; 116; 101; 120; 116; 98; 102; 123]%N false [].
Proof. vm_compute. reflexivity. Qed.
(* \begin{lstlisting}[x]code\end{lstlisting} *)
Example ex33s : agree [92; 98; 101; 103; 105; 110; 123; 108; 115; 116; 108; 105; 115; 116; 105; 110; 103; 125; 91; 120; 93; 99; 111; 100; 101; 92; 101; 110; 100; 123; 108; 115; 116; 108; 105; 115; 116; 105; 110; 103; 125]%N true [].
Proof. vm_compute. reflexivity. Qed.
Example ex33t : agree [92; 98; 101; 103; 105; 110; 123; 108; 115; 116; 108; 105; 115; 116; 105; 110; 103; 125; 91; 120; 93; 99; 111; 100; 101; 92; 101; 110; 100; 123; 108; 115; 116; 108; 105; 115; 116; 105; 110; 103; 125]%N false [].
Proof. vm_compute. reflexivity. Qed.
(* \begin{foo}raw $ \end{foo} *)
Example ex34s : agree [92; 98; 101; 103; 105; 110; 123; 102; 111; 111; 125; 114; 97; 119; 32; 36; 32; 92; 101; 110; 100; 123; 102; 111; 111; 125]%N true [].
Proof. vm_compute. reflexivity. Qed.
Example ex34t : agree [92; 98; 101; 103; 105; 110; 123; 102; 111; 111; 125; 114; 97; 119; 32; 36; 32; 92; 101; 110; 100; 123; 102; 111; 111; 125]%N false [].
Proof. vm_compute. reflexivity. Qed.
(* \newcommand{\foo}{\begin{x}} *)
Example ex35s : agree [92; 110; 101; 119; 99; 111; 109; 109; 97; 110; 100; 123; 92; 102; 111; 111; 125; 123; 92; 98; 101; 103; 105; 110; 123; 120; 125; 125]%N true [].
Proof. vm_compute. reflexivity. Qed.
Example ex35t : agree [92; 110; 101; 119; 99; 111; 109; 109; 97; 110; 100; 123; 92; 102; 111; 111; 125; 123; 92; 98; 101; 103; 105; 110; 123; 120; 125; 125]%N false [].
Proof. vm_compute. reflexivity. Qed.
(* \newcommand{\foo}[1]{\end{x} #1} *)
Example ex36s : agree [92; 110; 101; 119; 99; 111; 109; 109; 97; 110; 100; 123; 92; 102; 111; 111; 125; 91; 49; 93; 123; 92; 101; 110; 100; 123; 120; 125; 32; 35; 49; 125]%N true [].
Proof. vm_compute. reflexivity. Qed.
Example ex36t : agree [92; 110; 101; 119; 99; 111; 109; 109; 97; 110; 100; 123; 92; 102; 111; 111; 125; 91; 49; 93; 123; 92; 101; 110; 100; 123; 120; 125; 32; 35; 49; 125]%N false [].
Proof. vm_compute. reflexivity. Qed.
(* \renewcommand\foo{\begin{itemize}} *)
Example ex37s : agree [92; 114; 101; 110; 101; 119; 99; 111; 109; 109; 97; 110; 100; 92; 102; 111; 111; 123; 92; 98; 101; 103; 105; 110; 123; 105; 116; 101; 109; 105; 122; 101; 125; 125]%N true [].
Proof. vm_compute. reflexivity. Qed.
Example ex37t : agree [92; 114; 101; 110; 101; 119; 99; 111; 109; 109; 97; 110; 100; 92; 102; 111; 111; 123; 92; 98; 101; 103; 105; 110; 123; 105; 116; 101; 109; 105; 122; 101; 125; 125]%N false [].
Proof. vm_compute. reflexivity. Qed.
(* \begin{a}\newcommand{\x}{\end{a}}\end{a} *)
Example ex38s : agree [92; 98; 101; 103; 105; 110; 123; 97; 125; 92; 110; 101; 119; 99; 111; 109; 109; 97; 110; 100; 123; 92; 120; 125; 123; 92; 101; 110; 100; 123; 97; 125; 125; 92; 101; 110; 100; 123; 97; 125]%N true [].
Proof. vm_compute. reflexivity. Qed.
Example ex38t : agree [92; 98; 101; 103; 105; 110; 123; 97; 125; 92; 110; 101; 119; 99; 111; 109; 109; 97; 110; 100; 123; 92; 120; 125; 123; 92; 101; 110; 100; 123; 97; 125; 125; 92; 101; 110; 100; 123; 97; 125]%N false [].
Proof. vm_compute. reflexivity. Qed.
(* {unclosed group *)
Example ex39s : agree [123; 117; 110; 99; 108; 111; 115; 101; 100; 32; 103; 114; 111; 117; 112]%N true [].
Proof. vm_compute. reflexivity. Qed.
Example ex39t : agree [123; 117; 110; 99; 108; 111; 115; 101; 100; 32; 103; 114; 111; 117; 112]%N false [].
Proof. vm_compute. reflexivity. Qed.
(* [unclosed bracket *)
Example ex40s : agree [91; 117; 110; 99; 108; 111; 115; 101; 100; 32; 98; 114; 97; 99; 107; 101; 116]%N true [].
Proof. vm_compute. reflexivity. Qed.
Example ex40t : agree [91; 117; 110; 99; 108; 111; 115; 101; 100; 32; 98; 114; 97; 99; 107; 101; 116]%N false [].
Proof. vm_compute. reflexivity. Qed.
(* \cmd{unclosed *)
Example ex41s : agree [92; 99; 109; 100; 123; 117; 110; 99; 108; 111; 115; 101; 100]%N true [].
Proof. vm_compute. reflexivity. Qed.
Example ex41t : agree [92; 99; 109; 100; 123; 117; 110; 99; 108; 111; 115; 101; 100]%N false [].
Proof. vm_compute. reflexivity. Qed.
(* \cmd[unclosed *)
Example ex42s : agree [92; 99; 109; 100; 91; 117; 110; 99; 108; 111; 115; 101; 100]%N true [].
Proof. vm_compute. reflexivity. Qed.
Example ex42t : agree [92; 99; 109; 100; 91; 117; 110; 99; 108; 111; 115; 101; 100]%N false [].
Proof. vm_compute. reflexivity. Qed.
(* $unclosed math *)
Example ex43s : agree [36; 117; 110; 99; 108; 111; 115; 101; 100; 32; 109; 97; 116; 104]%N true [].
Proof. vm_compute. reflexivity. Qed.
Example ex43t : agree [36; 117; 110; 99; 108; 111; 115; 101; 100; 32; 109; 97; 116; 104]%N false [].
Proof. vm_compute. reflexivity. Qed.
(* $$unclosed *)
Example ex44s : agree [36; 36; 117; 110; 99; 108; 111; 115; 101; 100]%N true [].
Proof. vm_compute. reflexivity. Qed.
Example ex44t : agree [36; 36; 117; 110; 99; 108; 111; 115; 101; 100]%N false [].
Proof. vm_compute. reflexivity. Qed.
(* \[unclosed *)
Example ex45s : agree [92; 91; 117; 110; 99; 108; 111; 115; 101; 100]%N true [].
Proof. vm_compute. reflexivity. Qed.
Example ex45t : agree [92; 91; 117; 110; 99; 108; 111; 115; 101; 100]%N false [].
Proof. vm_compute. reflexivity. Qed.
(* \(unclosed \)x *)
Example ex46s : agree [92; 40; 117; 110; 99; 108; 111; 115; 101; 100; 32; 92; 41; 120]%N true [].
Proof. vm_compute. reflexivity. Qed.
Example ex46t : agree [92; 40; 117; 110; 99; 108; 111; 115; 101; 100; 32; 92; 41; 120]%N false [].
Proof. vm_compute. reflexivity. Qed.
(* \begin{a}unclosed *)
Example ex47s : agree [92; 98; 101; 103; 105; 110; 123; 97; 125; 117; 110; 99; 108; 111; 115; 101; 100]%N true [].
Proof. vm_compute. reflexivity. Qed.
Example ex47t : agree [92; 98; 101; 103; 105; 110; 123; 97; 125; 117; 110; 99; 108; 111; 115; 101; 100]%N false [].
Proof. vm_compute. reflexivity. Qed.
(* \begin{a}x\end{b} *)
Example ex48s : agree [92; 98; 101; 103; 105; 110; 123; 97; 125; 120; 92; 101; 110; 100; 123; 98; 125]%N true [].
Proof. vm_compute. reflexivity. Qed.
Example ex48t : agree [92; 98; 101; 103; 105; 110; 123; 97; 125; 120; 92; 101; 110; 100; 123; 98; 125]%N false [].
Proof. vm_compute. reflexivity. Qed.
(* \begin{a}x\end *)
Example ex49s : agree [92; 98; 101; 103; 105; 110; 123; 97; 125; 120; 92; 101; 110; 100]%N true [].
Proof. vm_compute. reflexivity. Qed.
Example ex49t : agree [92; 98; 101; 103; 105; 110; 123; 97; 125; 120; 92; 101; 110; 100]%N false [].
Proof. vm_compute. reflexivity. Qed.
(* \begin{a}x\end{ *)
Example ex50s : agree [92; 98; 101; 103; 105; 110; 123; 97; 125; 120; 92; 101; 110; 100; 123]%N true [].
Proof. vm_compute. reflexivity. Qed.
Example ex50t : agree [92; 98; 101; 103; 105; 110; 123; 97; 125; 120; 92; 101; 110; 100; 123]%N false [].
Proof. vm_compute. reflexivity. Qed.
(* \begin *)
Example ex51s : agree [92; 98; 101; 103; 105; 110]%N true [].
Proof. vm_compute. reflexivity. Qed.
Example ex51t : agree [92; 98; 101; 103; 105; 110]%N false [].
Proof. vm_compute. reflexivity. Qed.
(* \begin x *)
Example ex52s : agree [92; 98; 101; 103; 105; 110; 32; 120]%N true [].
Proof. vm_compute. reflexivity. Qed.
Example ex52t : agree [92; 98; 101; 103; 105; 110; 32; 120]%N false [].
Proof. vm_compute. reflexivity. Qed.
(* \begin[o]{a}x\end{a} *)
Example ex53s : agree [92; 98; 101; 103; 105; 110; 91; 111; 93; 123; 97; 125; 120; 92; 101; 110; 100; 123; 97; 125]%N true [].
Proof. vm_compute. reflexivity. Qed.
Example ex53t : agree [92; 98; 101; 103; 105; 110; 91; 111; 93; 123; 97; 125; 120; 92; 101; 110; 100; 123; 97; 125]%N false [].
Proof. vm_compute. reflexivity. Qed.
(* \begin{}x\end{} *)
Example ex54s : agree [92; 98; 101; 103; 105; 110; 123; 125; 120; 92; 101; 110; 100; 123; 125]%N true [].
Proof. vm_compute. reflexivity. Qed.
Example ex54t : agree [92; 98; 101; 103; 105; 110; 123; 125; 120; 92; 101; 110; 100; 123; 125]%N false [].
Proof. vm_compute. reflexivity. Qed.
(* \end{a} *)
Example ex55s : agree [92; 101; 110; 100; 123; 97; 125]%N true [].
Proof. vm_compute. reflexivity. Qed.
Example ex55t : agree [92; 101; 110; 100; 123; 97; 125]%N false [].
Proof. vm_compute. reflexivity. Qed.
(* } *)
Example ex56s : agree [125]%N true [].
Proof. vm_compute. reflexivity. Qed.
Example ex56t : agree [125]%N false [].
Proof. vm_compute. reflexivity. Qed.
(* ] *)
Example ex57s : agree [93]%N true [].
Proof. vm_compute. reflexivity. Qed.
Example ex57t : agree [93]%N false [].
Proof. vm_compute. reflexivity. Qed.
(* a ] b [ c *)
Example ex58s : agree [97; 32; 93; 32; 98; 32; 91; 32; 99]%N true [].
Proof. vm_compute. reflexivity. Qed.
Example ex58t : agree [97; 32; 93; 32; 98; 32; 91; 32; 99]%N false [].
Proof. vm_compute. reflexivity. Qed.
(* \begin{a}}\end{a} *)
Example ex59s : agree [92; 98; 101; 103; 105; 110; 123; 97; 125; 125; 92; 101; 110; 100; 123; 97; 125]%N true [].
Proof. vm_compute. reflexivity. Qed.
Example ex59t : agree [92; 98; 101; 103; 105; 110; 123; 97; 125; 125; 92; 101; 110; 100; 123; 97; 125]%N false [].
Proof. vm_compute. reflexivity. Qed.
(* {a}[b]{c} *)
Example ex60s : agree [123; 97; 125; 91; 98; 93; 123; 99; 125]%N true [].
Proof. vm_compute. reflexivity. Qed.
Example ex60t : agree [123; 97; 125; 91; 98; 93; 123; 99; 125]%N false [].
Proof. vm_compute. reflexivity. Qed.
(* % comment<LF>text \% not *)
Example ex61s : agree [37; 32; 99; 111; 109; 109; 101; 110; 116; 10; 116; 101; 120; 116; 32; 92; 37; 32; 110; 111; 116]%N true [].
Proof. vm_compute. reflexivity. Qed.
Example ex61t : agree [37; 32; 99; 111; 109; 109; 101; 110; 116; 10; 116; 101; 120; 116; 32; 92; 37; 32; 110; 111; 116]%N false [].
Proof. vm_compute. reflexivity. Qed.
(* a\\b \\[2pt] c *)
Example ex62s : agree [97; 92; 92; 98; 32; 92; 92; 91; 50; 112; 116; 93; 32; 99]%N true [].
Proof. vm_compute. reflexivity. Qed.
Example ex62t : agree [97; 92; 92; 98; 32; 92; 92; 91; 50; 112; 116; 93; 32; 99]%N false [].
Proof. vm_compute. reflexivity. Qed.
(* \left( x \right) *)
Example ex63s : agree [92; 108; 101; 102; 116; 40; 32; 120; 32; 92; 114; 105; 103; 104; 116; 41]%N true [].
Proof. vm_compute. reflexivity. Qed.
Example ex63t : agree [92; 108; 101; 102; 116; 40; 32; 120; 32; 92; 114; 105; 103; 104; 116; 41]%N false [].
Proof. vm_compute. reflexivity. Qed.
(* \big[ x \Big] y *)
Example ex64s : agree [92; 98; 105; 103; 91; 32; 120; 32; 92; 66; 105; 103; 93; 32; 121]%N true [].
Proof. vm_compute. reflexivity. Qed.
Example ex64t : agree [92; 98; 105; 103; 91; 32; 120; 32; 92; 66; 105; 103; 93; 32; 121]%N false [].
Proof. vm_compute. reflexivity. Qed.
(* \textbf{a\textit{b\emph{c}}} *)
Example ex65s : agree [92; 116; 101; 120; 116; 98; 102; 123; 97; 92; 116; 101; 120; 116; 105; 116; 123; 98; 92; 101; 109; 112; 104; 123; 99; 125; 125; 125]%N true [].
Proof. vm_compute. reflexivity. Qed.
Example ex65t : agree [92; 116; 101; 120; 116; 98; 102; 123; 97; 92; 116; 101; 120; 116; 105; 116; 123; 98; 92; 101; 109; 112; 104; 123; 99; 125; 125; 125]%N false [].
Proof. vm_compute. reflexivity. Qed.
(* \begin{itemize}\item a\begin{enumerate}\item b\end{enumerate}\item c\end{itemize} *)
Example ex66s : agree [92; 98; 101; 103; 105; 110; 123; 105; 116; 101; 109; 105; 122; 101; 125; 92; 105; 116; 101; 109; 32; 97; 92; 98; 101; 103; 105; 110; 123; 101; 110; 117; 109; 101; 114; 97; 116; 101; 125; 92; 105; 116; 101; 109; 32; 98; 92; 101; 110; 100; 123; 101; 110; 117; 109; 101; 114; 97; 116; 101; 125; 92; 105; 116; 101; 109; 32; 99; 92; 101; 110; 100; 123; 105; 116; 101; 109; 105; 122; 101; 125]%N true [].
Proof. vm_compute. reflexivity. Qed.
Example ex66t : agree [92; 98; 101; 103; 105; 110; 123; 105; 116; 101; 109; 105; 122; 101; 125; 92; 105; 116; 101; 109; 32; 97; 92; 98; 101; 103; 105; 110; 123; 101; 110; 117; 109; 101; 114; 97; 116; 101; 125; 92; 105; 116; 101; 109; 32; 98; 92; 101; 110; 100; 123; 101; 110; 117; 109; 101; 114; 97; 116; 101; 125; 92; 105; 116; 101; 109; 32; 99; 92; 101; 110; 100; 123; 105; 116; 101; 109; 105; 122; 101; 125]%N false [].
Proof. vm_compute. reflexivity. Qed.
(* \item a } b *)
Example ex67s : agree [92; 105; 116; 101; 109; 32; 97; 32; 125; 32; 98]%N true [].
Proof. vm_compute. reflexivity. Qed.
Example ex67t : agree [92; 105; 116; 101; 109; 32; 97; 32; 125; 32; 98]%N false [].
Proof. vm_compute. reflexivity. Qed.
(* {\begin{a}x}\end{a} *)
Example ex68s : agree [123; 92; 98; 101; 103; 105; 110; 123; 97; 125; 120; 125; 92; 101; 110; 100; 123; 97; 125]%N true [].
Proof. vm_compute. reflexivity. Qed.
Example ex68t : agree [123; 92; 98; 101; 103; 105; 110; 123; 97; 125; 120; 125; 92; 101; 110; 100; 123; 97; 125]%N false [].
Proof. vm_compute. reflexivity. Qed.
(* \begin{a}$x\end{a}$ *)
Example ex69s : agree [92; 98; 101; 103; 105; 110; 123; 97; 125; 36; 120; 92; 101; 110; 100; 123; 97; 125; 36]%N true [].
Proof. vm_compute. reflexivity. Qed.
Example ex69t : agree [92; 98; 101; 103; 105; 110; 123; 97; 125; 36; 120; 92; 101; 110; 100; 123; 97; 125; 36]%N false [].
Proof. vm_compute. reflexivity. Qed.
(* \section{a $x$ \[y\] b} *)
Example ex70s : agree [92; 115; 101; 99; 116; 105; 111; 110; 123; 97; 32; 36; 120; 36; 32; 92; 91; 121; 92; 93; 32; 98; 125]%N true [].
Proof. vm_compute. reflexivity. Qed.
Example ex70t : agree [92; 115; 101; 99; 116; 105; 111; 110; 123; 97; 32; 36; 120; 36; 32; 92; 91; 121; 92; 93; 32; 98; 125]%N false [].
Proof. vm_compute. reflexivity. Qed.
(* \label{x}{y} *)
Example ex71s : agree [92; 108; 97; 98; 101; 108; 123; 120; 125; 123; 121; 125]%N true [].
Proof. vm_compute. reflexivity. Qed.
Example ex71t : agree [92; 108; 97; 98; 101; 108; 123; 120; 125; 123; 121; 125]%N false [].
Proof. vm_compute. reflexivity. Qed.
(* \section{a}[b]{c} *)
Example ex72s : agree [92; 115; 101; 99; 116; 105; 111; 110; 123; 97; 125; 91; 98; 93; 123; 99; 125]%N true [].
Proof. vm_compute. reflexivity. Qed.
Example ex72t : agree [92; 115; 101; 99; 116; 105; 111; 110; 123; 97; 125; 91; 98; 93; 123; 99; 125]%N false [].
Proof. vm_compute. reflexivity. Qed.
(* \textbf[a]{b} *)
Example ex73s : agree [92; 116; 101; 120; 116; 98; 102; 91; 97; 93; 123; 98; 125]%N true [].
Proof. vm_compute. reflexivity. Qed.
Example ex73t : agree [92; 116; 101; 120; 116; 98; 102; 91; 97; 93; 123; 98; 125]%N false [].
Proof. vm_compute. reflexivity. Qed.
(* \def{a}{b}{c} *)
Example ex74s : agree [92; 100; 101; 102; 123; 97; 125; 123; 98; 125; 123; 99; 125]%N true [].
Proof. vm_compute. reflexivity. Qed.
Example ex74t : agree [92; 100; 101; 102; 123; 97; 125; 123; 98; 125; 123; 99; 125]%N false [].
Proof. vm_compute. reflexivity. Qed.
(* \def a\x b *)
Example ex75s : agree [92; 100; 101; 102; 32; 97; 92; 120; 32; 98]%N true [].
Proof. vm_compute. reflexivity. Qed.
Example ex75t : agree [92; 100; 101; 102; 32; 97; 92; 120; 32; 98]%N false [].
Proof. vm_compute. reflexivity. Qed.
(* \x <LF><LF> {a} *)
Example ex76s : agree [92; 120; 32; 10; 10; 32; 123; 97; 125]%N true [].
Proof. vm_compute. reflexivity. Qed.
Example ex76t : agree [92; 120; 32; 10; 10; 32; 123; 97; 125]%N false [].
Proof. vm_compute. reflexivity. Qed.
(* \x[ {a} ]{b} *)
Example ex77s : agree [92; 120; 91; 32; 123; 97; 125; 32; 93; 123; 98; 125]%N true [].
Proof. vm_compute. reflexivity. Qed.
Example ex77t : agree [92; 120; 91; 32; 123; 97; 125; 32; 93; 123; 98; 125]%N false [].
Proof. vm_compute. reflexivity. Qed.
(* \begin{tabular}{c|c} a & b \\ \end{tabular} *)
Example ex78s : agree [92; 98; 101; 103; 105; 110; 123; 116; 97; 98; 117; 108; 97; 114; 125; 123; 99; 124; 99; 125; 32; 97; 32; 38; 32; 98; 32; 92; 92; 32; 92; 101; 110; 100; 123; 116; 97; 98; 117; 108; 97; 114; 125]%N true [].
Proof. vm_compute. reflexivity. Qed.
Example ex78t : agree [92; 98; 101; 103; 105; 110; 123; 116; 97; 98; 117; 108; 97; 114; 125; 123; 99; 124; 99; 125; 32; 97; 32; 38; 32; 98; 32; 92; 92; 32; 92; 101; 110; 100; 123; 116; 97; 98; 117; 108; 97; 114; 125]%N false [].
Proof. vm_compute. reflexivity. Qed.
(* \begin{math}x\end{math} *)
Example ex79s : agree [92; 98; 101; 103; 105; 110; 123; 109; 97; 116; 104; 125; 120; 92; 101; 110; 100; 123; 109; 97; 116; 104; 125]%N true [].
Proof. vm_compute. reflexivity. Qed.
Example ex79t : agree [92; 98; 101; 103; 105; 110; 123; 109; 97; 116; 104; 125; 120; 92; 101; 110; 100; 123; 109; 97; 116; 104; 125]%N false [].
Proof. vm_compute. reflexivity. Qed.
(* \begin{displaymath}\item\end{displaymath} *)
Example ex80s : agree [92; 98; 101; 103; 105; 110; 123; 100; 105; 115; 112; 108; 97; 121; 109; 97; 116; 104; 125; 92; 105; 116; 101; 109; 92; 101; 110; 100; 123; 100; 105; 115; 112; 108; 97; 121; 109; 97; 116; 104; 125]%N true [].
Proof. vm_compute. reflexivity. Qed.
Example ex80t : agree [92; 98; 101; 103; 105; 110; 123; 100; 105; 115; 112; 108; 97; 121; 109; 97; 116; 104; 125; 92; 105; 116; 101; 109; 92; 101; 110; 100; 123; 100; 105; 115; 112; 108; 97; 121; 109; 97; 116; 104; 125]%N false [].
Proof. vm_compute. reflexivity. Qed.
(* \verb|x| *)
Example ex81s : agree [92; 118; 101; 114; 98; 124; 120; 124]%N true [].
Proof. vm_compute. reflexivity. Qed.
Example ex81t : agree [92; 118; 101; 114; 98; 124; 120; 124]%N false [].
Proof. vm_compute. reflexivity. Qed.
(* \begin{foo}raw $ { \end{foo} x   skip_envs=['foo'] *)
Example exk0s : agree [92; 98; 101; 103; 105; 110; 123; 102; 111; 111; 125; 114; 97; 119; 32; 36; 32; 123; 32; 92; 101; 110; 100; 123; 102; 111; 111; 125; 32; 120]%N true [[102; 111; 111]%N].
Proof. vm_compute. reflexivity. Qed.
Example exk0t : agree [92; 98; 101; 103; 105; 110; 123; 102; 111; 111; 125; 114; 97; 119; 32; 36; 32; 123; 32; 92; 101; 110; 100; 123; 102; 111; 111; 125; 32; 120]%N false [[102; 111; 111]%N].
Proof. vm_compute. reflexivity. Qed.
(* \begin{foo}raw $ {   skip_envs=['foo'] *)
Example exk1s : agree [92; 98; 101; 103; 105; 110; 123; 102; 111; 111; 125; 114; 97; 119; 32; 36; 32; 123]%N true [[102; 111; 111]%N].
Proof. vm_compute. reflexivity. Qed.
Example exk1t : agree [92; 98; 101; 103; 105; 110; 123; 102; 111; 111; 125; 114; 97; 119; 32; 36; 32; 123]%N false [[102; 111; 111]%N].
Proof. vm_compute. reflexivity. Qed.
(* \begin{bar}\begin{foo}${\end{foo}\end{bar}   skip_envs=['foo', 'baz'] *)
Example exk2s : agree [92; 98; 101; 103; 105; 110; 123; 98; 97; 114; 125; 92; 98; 101; 103; 105; 110; 123; 102; 111; 111; 125; 36; 123; 92; 101; 110; 100; 123; 102; 111; 111; 125; 92; 101; 110; 100; 123; 98; 97; 114; 125]%N true [[102; 111; 111]%N; [98; 97; 122]%N].
Proof. vm_compute. reflexivity. Qed.
Example exk2t : agree [92; 98; 101; 103; 105; 110; 123; 98; 97; 114; 125; 92; 98; 101; 103; 105; 110; 123; 102; 111; 111; 125; 36; 123; 92; 101; 110; 100; 123; 102; 111; 111; 125; 92; 101; 110; 100; 123; 98; 97; 114; 125]%N false [[102; 111; 111]%N; [98; 97; 122]%N].
Proof. vm_compute. reflexivity. Qed.
(* \begin{foo}a\end{foo}   skip_envs=['bar'] *)
Example exk3s : agree [92; 98; 101; 103; 105; 110; 123; 102; 111; 111; 125; 97; 92; 101; 110; 100; 123; 102; 111; 111; 125]%N true [[98; 97; 114]%N].
Proof. vm_compute. reflexivity. Qed.
Example exk3t : agree [92; 98; 101; 103; 105; 110; 123; 102; 111; 111; 125; 97; 92; 101; 110; 100; 123; 102; 111; 111; 125]%N false [[98; 97; 114]%N].
Proof. vm_compute. reflexivity. Qed.

(* ------------------------------------------------ single functions, directly *)

(* read_arg on a token that opens no group: ARG_BEGIN_TO_ENV[...] raises KeyError *)
Example direct_read_arg_keyerror :
  run gen_table 10 F_read_arg [tok_val (mkt [97%N] 0 TText); tol_val true; mode_val MNonMath]
      (mkbuf [] 0) = OExc KeyError
  /\ read_arg 5 (mkt [97%N] 0 TText) true MNonMath [] = Err KeyError.
Proof. split; vm_compute; reflexivity. Qed.

(* read_expr on an exhausted buffer: next(src) raises StopIteration *)
Example direct_read_expr_stop :
  run gen_table 10 F_read_expr [skip_val []; tol_val true; mode_val MNonMath] (mkbuf [] 0)
  = OExc StopIteration
  /\ read_expr 5 [] true MNonMath [] = Err StopIteration.
Proof. split; vm_compute; reflexivity. Qed.

(* read_command(skip=1) on an exhausted buffer *)
Example direct_read_command_stop :
  run gen_table 10 F_read_command [VInt (-1); VInt (-1); VInt 1; tol_val true; mode_val MNonMath]
      (mkbuf [] 0) = OExc StopIteration
  /\ read_command 5 (-1) (-1) 1 true MNonMath [] = Err StopIteration.
Proof. split; vm_compute; reflexivity. Qed.

(* read_skip_env when \end{verbatim} is ONE token: src.forward(5) moves the
   cursor from 1 to 6, past the end of a 3-token buffer, and the token `y` is
   lost; replayed on the implementation (buf.position = 6, buf.hasNext() =
   False).  The hand model drops 5 tokens from the suffix: the same. *)
Example direct_read_skip_env_overshoot :
  let verb := [118; 101; 114; 98; 97; 116; 105; 109]%N in
  let toks := [mkt [120%N] 0 TText;
               mkt ([92; 101; 110; 100; 123]%N ++ verb ++ [125%N]) 1 TText;
               mkt [121%N] 15 TText] in
  run gen_table 10 F_read_skip_env [VExpr (ENamed verb [] [] 0)] (mkbuf toks 0)
  = ODone (VExpr (ENamed verb [] [ERaw [120%N] 0] 0)) (mkbuf toks 6)
  /\ read_skip_env verb [] 0 toks = Ok (ENamed verb [] [ERaw [120%N] 0] 0, []).
Proof. split; vm_compute; reflexivity. Qed.

(* ================================================================= Part 3
   The constructs that the reader of the unchanged source does not use but the
   translator accepts (ReadDSL: XStrip XRStrip XStrStartsWith XToTuple XIsNone
   XLit.. XFormatDyn, str + str): their meaning on concrete values, each line
   replayed on the implementation (utils.Token / str / tuple). *)

(* Token('  ab ', 3, c).strip() = Token('ab', 5, c);  Token('   ', 3, c).strip() = Token('', 3, c) *)
Example new_strip :
  strip_value (VTok [32; 32; 97; 98; 32]%N 3 (Some TText)) = Some (VTok [97; 98]%N 5 (Some TText))
  /\ strip_value (VTok [32; 32; 32]%N 3 (Some TText)) = Some (VTok [] 3 (Some TText))
  /\ strip_value (VStr [32; 97; 32]%N) = Some (VStr [97%N]).
Proof. repeat split; vm_compute; reflexivity. Qed.

(* Token('a**', 2, c).rstrip('*') = Token('a', 2, c);  Token('**', 2, c).rstrip('*') = Token('', 2, c) *)
Example new_rstrip :
  rstrip_value [42%N] (VTok [97; 42; 42]%N 2 (Some TText)) = Some (VTok [97%N] 2 (Some TText))
  /\ rstrip_value [42%N] (VTok [42; 42]%N 2 (Some TText)) = Some (VTok [] 2 (Some TText)).
Proof. split; vm_compute; reflexivity. Qed.

(* 'verbatim*'.startswith(('lstlisting', 'verb')) ; 'abc'.startswith(()) is False *)
Example new_startswith :
  str_starts_with (VStr [118; 101; 114; 98; 97; 116; 105; 109; 42]%N)
                  (VTuple [VStr [108; 115; 116]%N; VStr [118; 101; 114; 98]%N]) = Some true
  /\ str_starts_with (VStr [97; 98; 99]%N) (VTuple []) = Some false
  /\ str_starts_with (VTok [97; 98; 99]%N 0 None) (VStr [97; 98]%N) = Some true.
Proof. repeat split; vm_compute; reflexivity. Qed.

(* '..%s.. %% ..%d' has the conversions s, d;  a lone '%' at the end and '%q' are not handled *)
Example new_fmt_convs :
  fmt_convs [120; 32; 37; 115; 32; 37; 37; 32; 37; 100]%N = Some [false; true]
  /\ fmt_convs [120; 37]%N = None /\ fmt_convs [37; 113]%N = None.
Proof. repeat split; vm_compute; reflexivity. Qed.

(* ('x %s ' + 'Instead got %s') % (1,) : TypeError (not enough arguments);
   ('x %s ' + 'plain') % (1, 2) : TypeError (not all arguments converted);
   ('x %s ' + 'plain') % (1,) : a string *)
Example new_fmt_dyn :
  fmt_dyn (VStr [120; 32; 37; 115; 32; 103; 111; 116; 32; 37; 115]%N) [VInt 1] = FTypeError
  /\ fmt_dyn (VStr [120; 32; 37; 115; 32; 112]%N) [VInt 1; VInt 2] = FTypeError
  /\ fmt_dyn (VStr [120; 32; 37; 115; 32; 112]%N) [VInt 1] = FOk.
Proof. repeat split; vm_compute; reflexivity. Qed.

Example new_misc :
  to_tuple (VList [VInt 1; VInt 2]) = Some (VTuple [VInt 1; VInt 2])
  /\ bin_op OAdd (VStr [97%N]) (VStr [98%N]) = Some (VStr [97; 98]%N)
  /\ lit_lookup [([97%N], VTuple [VInt 0; VInt 0])] (VTok [97%N] 3 None) = DFound (VTuple [VInt 0; VInt 0])
  /\ lit_lookup [([97%N], VTuple [VInt 0; VInt 0])] (VStr [98%N]) = DMissing.
Proof. repeat split; vm_compute; reflexivity. Qed.
