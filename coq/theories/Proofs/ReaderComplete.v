(* PP: reader completeness ("parse o print = id", DESIGN.md section 5) at
   TOKEN level for a sub-grammar.

   Stage 0  fuel monotonicity of all ten reader functions (`mono_all_holds`),
            `enough_fuel_*`, fuel independence above 3*|toks|+c.
   Stage 1  a token-level document grammar `doc` with its token flattening
            `flat` and its expected tree `tree`, and the boolean
            well-formedness predicate `wf` / `seq_wf`.
   Stage 2  PP for single documents (`PP_expr`), for bodies of groups and
            math regions (`PP_seq_group`, `PP_seq_math`) and for whole token
            lists (`PP_parse_tokens`, both tolerance modes). *)
From Coq Require Import List NArith ZArith Bool Lia Arith.
From TexModel Require Import Base Tables Chars Tokenizer Tree Reader.
From TexProofs Require Import ReaderLen ReaderTotal ReaderCons AttachProofs.
Import ListNotations.

(* ====================================================================== *)
(* Stage 0: fuel monotonicity                                             *)
(* ====================================================================== *)

(* r' refines r: r ran out of fuel, or they agree *)
Definition ref {A} (r r' : res A) : Prop := r = Err OutOfFuel \/ r = r'.

Lemma ref_refl {A} (r : res A) : ref r r.
Proof. right. reflexivity. Qed.

Lemma ref_bind {A B} (r r' : res A) (k k' : A -> res B) :
  ref r r' -> (forall a, ref (k a) (k' a)) -> ref (bind r k) (bind r' k').
Proof.
  intros [-> | ->] H; [left; reflexivity|].
  destruct r' as [a|e]; simpl; [apply H | right; reflexivity].
Qed.

Lemma ref_eq {A} (r r' : res A) : ref r r' -> r <> Err OutOfFuel -> r' = r.
Proof. intros [H | H] Hn; [contradiction | symmetry; exact H]. Qed.

Definition mono_expr f := forall f' skip strict m toks, (f <= f')%nat ->
  ref (read_expr f skip strict m toks) (read_expr f' skip strict m toks).
Definition mono_item f := forall f' acc toks, (f <= f')%nat ->
  ref (read_item_loop f acc toks) (read_item_loop f' acc toks).
Definition mono_math f := forall f' k pos strict acc toks, (f <= f')%nat ->
  ref (read_math_loop f k pos strict acc toks) (read_math_loop f' k pos strict acc toks).
Definition mono_env f := forall f' name args pos skip strict m acc toks, (f <= f')%nat ->
  ref (read_env_loop f name args pos skip strict m acc toks)
      (read_env_loop f' name args pos skip strict m acc toks).
Definition mono_command f := forall f' nreq nopt sk strict m toks, (f <= f')%nat ->
  ref (read_command f nreq nopt sk strict m toks) (read_command f' nreq nopt sk strict m toks).
Definition mono_args f := forall f' nreq nopt strict m toks, (f <= f')%nat ->
  ref (read_args f nreq nopt strict m toks) (read_args f' nreq nopt strict m toks).
Definition mono_opt f := forall f' args nopt strict m toks, (f <= f')%nat ->
  ref (read_arg_optional f args nopt strict m toks) (read_arg_optional f' args nopt strict m toks).
Definition mono_req f := forall f' args nreq strict m toks, (f <= f')%nat ->
  ref (read_arg_required f args nreq strict m toks) (read_arg_required f' args nreq strict m toks).
Definition mono_arg f := forall f' c strict m toks, (f <= f')%nat ->
  ref (read_arg f c strict m toks) (read_arg f' c strict m toks).
Definition mono_argloop f := forall f' k pos strict m acc toks, (f <= f')%nat ->
  ref (read_arg_loop f k pos strict m acc toks) (read_arg_loop f' k pos strict m acc toks).

Definition mono_all f :=
  mono_expr f /\ mono_item f /\ mono_math f /\ mono_env f /\ mono_command f /\ mono_args f /\
  mono_opt f /\ mono_req f /\ mono_arg f /\ mono_argloop f.

(* one step on a goal  ref <reader body at f> <same body at f'> *)
Ltac mstep :=
  match goal with
  | |- ref ?x ?x => apply ref_refl
  | |- ref (bind _ _) (bind _ _) => apply ref_bind; [ | let a := fresh "a" in intros a ]
  | IH : mono_expr ?f |- ref (read_expr ?f _ _ _ _) _ => apply IH; assumption
  | IH : mono_item ?f |- ref (read_item_loop ?f _ _) _ => apply IH; assumption
  | IH : mono_math ?f |- ref (read_math_loop ?f _ _ _ _ _) _ => apply IH; assumption
  | IH : mono_env ?f |- ref (read_env_loop ?f _ _ _ _ _ _ _ _) _ => apply IH; assumption
  | IH : mono_command ?f |- ref (read_command ?f _ _ _ _ _ _) _ => apply IH; assumption
  | IH : mono_args ?f |- ref (read_args ?f _ _ _ _ _) _ => apply IH; assumption
  | IH : mono_opt ?f |- ref (read_arg_optional ?f _ _ _ _ _) _ => apply IH; assumption
  | IH : mono_req ?f |- ref (read_arg_required ?f _ _ _ _ _) _ => apply IH; assumption
  | IH : mono_arg ?f |- ref (read_arg ?f _ _ _ _) _ => apply IH; assumption
  | IH : mono_argloop ?f |- ref (read_arg_loop ?f _ _ _ _ _ _) _ => apply IH; assumption
  | |- ref (match ?x with _ => _ end) _ => destruct_innermost x
  end.

Lemma mono_all_holds : forall f, mono_all f.
Proof.
  induction f as [|f IH].
  { unfold mono_all, mono_expr, mono_item, mono_math, mono_env, mono_command, mono_args,
      mono_opt, mono_req, mono_arg, mono_argloop.
    repeat match goal with |- _ /\ _ => split end; intros; left; reflexivity. }
  destruct IH as (Me & Mi & Mm & Mv & Mc & Ma & Mo & Mr & Mg & Ml).
  unfold mono_all.
  repeat match goal with |- _ /\ _ => split end;
    [unfold mono_expr | unfold mono_item | unfold mono_math | unfold mono_env
     | unfold mono_command | unfold mono_args | unfold mono_opt | unfold mono_req
     | unfold mono_arg | unfold mono_argloop].
  - intros f' skip strict m toks Hle. destruct f' as [|f']; [lia|]. apply le_S_n in Hle.
    simpl. repeat mstep.
  - intros f' acc toks Hle. destruct f' as [|f']; [lia|]. apply le_S_n in Hle.
    simpl. repeat mstep.
  - intros f' k pos strict acc toks Hle. destruct f' as [|f']; [lia|]. apply le_S_n in Hle.
    simpl. repeat mstep.
  - intros f' name args pos skip strict m acc toks Hle. destruct f' as [|f']; [lia|].
    apply le_S_n in Hle. simpl. repeat mstep.
  - intros f' nreq nopt sk strict m toks Hle. destruct f' as [|f']; [lia|]. apply le_S_n in Hle.
    simpl. repeat mstep.
  - intros f' nreq nopt strict m toks Hle. destruct f' as [|f']; [lia|]. apply le_S_n in Hle.
    simpl. repeat mstep.
  - intros f' args nopt strict m toks Hle. destruct f' as [|f']; [lia|]. apply le_S_n in Hle.
    simpl. repeat mstep.
  - intros f' args nreq strict m toks Hle. destruct f' as [|f']; [lia|]. apply le_S_n in Hle.
    simpl. repeat mstep.
  - intros f' c strict m toks Hle. destruct f' as [|f']; [lia|]. apply le_S_n in Hle.
    simpl. repeat mstep.
  - intros f' k pos strict m acc toks Hle. destruct f' as [|f']; [lia|]. apply le_S_n in Hle.
    simpl. repeat mstep.
Qed.

Lemma mono_expr_holds f : mono_expr f.
Proof. destruct (mono_all_holds f) as (M & _); exact M. Qed.
Lemma mono_item_holds f : mono_item f.
Proof. destruct (mono_all_holds f) as (_ & M & _); exact M. Qed.
Lemma mono_math_holds f : mono_math f.
Proof. destruct (mono_all_holds f) as (_ & _ & M & _); exact M. Qed.
Lemma mono_env_holds f : mono_env f.
Proof. destruct (mono_all_holds f) as (_ & _ & _ & M & _); exact M. Qed.
Lemma mono_command_holds f : mono_command f.
Proof. destruct (mono_all_holds f) as (_ & _ & _ & _ & M & _); exact M. Qed.
Lemma mono_args_holds f : mono_args f.
Proof. destruct (mono_all_holds f) as (_ & _ & _ & _ & _ & M & _); exact M. Qed.
Lemma mono_opt_holds f : mono_opt f.
Proof. destruct (mono_all_holds f) as (_ & _ & _ & _ & _ & _ & M & _); exact M. Qed.
Lemma mono_req_holds f : mono_req f.
Proof. destruct (mono_all_holds f) as (_ & _ & _ & _ & _ & _ & _ & M & _); exact M. Qed.
Lemma mono_arg_holds f : mono_arg f.
Proof. destruct (mono_all_holds f) as (_ & _ & _ & _ & _ & _ & _ & _ & M & _); exact M. Qed.
Lemma mono_argloop_holds f : mono_argloop f.
Proof. destruct (mono_all_holds f) as (_ & _ & _ & _ & _ & _ & _ & _ & _ & M); exact M. Qed.

(* enough_fuel: a result other than OutOfFuel obtained with fuel f is the
   result with every fuel f' >= f (in particular with S f) *)
Ltac enough_fuel_tac M :=
  intros H Hn Hle; subst; apply ref_eq; [apply M; exact Hle | exact Hn].

Theorem enough_fuel_expr f f' skip strict m toks r :
  read_expr f skip strict m toks = r -> r <> Err OutOfFuel -> (f <= f')%nat ->
  read_expr f' skip strict m toks = r.
Proof. enough_fuel_tac (mono_expr_holds f). Qed.
Theorem enough_fuel_item f f' acc toks r :
  read_item_loop f acc toks = r -> r <> Err OutOfFuel -> (f <= f')%nat ->
  read_item_loop f' acc toks = r.
Proof. enough_fuel_tac (mono_item_holds f). Qed.
Theorem enough_fuel_math f f' k pos strict acc toks r :
  read_math_loop f k pos strict acc toks = r -> r <> Err OutOfFuel -> (f <= f')%nat ->
  read_math_loop f' k pos strict acc toks = r.
Proof. enough_fuel_tac (mono_math_holds f). Qed.
Theorem enough_fuel_env f f' name args pos skip strict m acc toks r :
  read_env_loop f name args pos skip strict m acc toks = r -> r <> Err OutOfFuel ->
  (f <= f')%nat -> read_env_loop f' name args pos skip strict m acc toks = r.
Proof. enough_fuel_tac (mono_env_holds f). Qed.
Theorem enough_fuel_command f f' nreq nopt sk strict m toks r :
  read_command f nreq nopt sk strict m toks = r -> r <> Err OutOfFuel -> (f <= f')%nat ->
  read_command f' nreq nopt sk strict m toks = r.
Proof. enough_fuel_tac (mono_command_holds f). Qed.
Theorem enough_fuel_args f f' nreq nopt strict m toks r :
  read_args f nreq nopt strict m toks = r -> r <> Err OutOfFuel -> (f <= f')%nat ->
  read_args f' nreq nopt strict m toks = r.
Proof. enough_fuel_tac (mono_args_holds f). Qed.
Theorem enough_fuel_opt f f' args nopt strict m toks r :
  read_arg_optional f args nopt strict m toks = r -> r <> Err OutOfFuel -> (f <= f')%nat ->
  read_arg_optional f' args nopt strict m toks = r.
Proof. enough_fuel_tac (mono_opt_holds f). Qed.
Theorem enough_fuel_req f f' args nreq strict m toks r :
  read_arg_required f args nreq strict m toks = r -> r <> Err OutOfFuel -> (f <= f')%nat ->
  read_arg_required f' args nreq strict m toks = r.
Proof. enough_fuel_tac (mono_req_holds f). Qed.
Theorem enough_fuel_arg f f' c strict m toks r :
  read_arg f c strict m toks = r -> r <> Err OutOfFuel -> (f <= f')%nat ->
  read_arg f' c strict m toks = r.
Proof. enough_fuel_tac (mono_arg_holds f). Qed.
Theorem enough_fuel_argloop f f' k pos strict m acc toks r :
  read_arg_loop f k pos strict m acc toks = r -> r <> Err OutOfFuel -> (f <= f')%nat ->
  read_arg_loop f' k pos strict m acc toks = r.
Proof. enough_fuel_tac (mono_argloop_holds f). Qed.

(* the literal one-step form, all ten functions at once *)
Theorem fuel_mono_S f :
  (forall skip strict m toks r, read_expr f skip strict m toks = r -> r <> Err OutOfFuel ->
     read_expr (S f) skip strict m toks = r) /\
  (forall acc toks r, read_item_loop f acc toks = r -> r <> Err OutOfFuel ->
     read_item_loop (S f) acc toks = r) /\
  (forall k pos strict acc toks r, read_math_loop f k pos strict acc toks = r ->
     r <> Err OutOfFuel -> read_math_loop (S f) k pos strict acc toks = r) /\
  (forall name args pos skip strict m acc toks r,
     read_env_loop f name args pos skip strict m acc toks = r -> r <> Err OutOfFuel ->
     read_env_loop (S f) name args pos skip strict m acc toks = r) /\
  (forall nreq nopt sk strict m toks r, read_command f nreq nopt sk strict m toks = r ->
     r <> Err OutOfFuel -> read_command (S f) nreq nopt sk strict m toks = r) /\
  (forall nreq nopt strict m toks r, read_args f nreq nopt strict m toks = r ->
     r <> Err OutOfFuel -> read_args (S f) nreq nopt strict m toks = r) /\
  (forall args nopt strict m toks r, read_arg_optional f args nopt strict m toks = r ->
     r <> Err OutOfFuel -> read_arg_optional (S f) args nopt strict m toks = r) /\
  (forall args nreq strict m toks r, read_arg_required f args nreq strict m toks = r ->
     r <> Err OutOfFuel -> read_arg_required (S f) args nreq strict m toks = r) /\
  (forall c strict m toks r, read_arg f c strict m toks = r -> r <> Err OutOfFuel ->
     read_arg (S f) c strict m toks = r) /\
  (forall k pos strict m acc toks r, read_arg_loop f k pos strict m acc toks = r ->
     r <> Err OutOfFuel -> read_arg_loop (S f) k pos strict m acc toks = r).
Proof.
  repeat match goal with |- _ /\ _ => split end; intros.
  - eapply enough_fuel_expr; eauto.
  - eapply enough_fuel_item; eauto.
  - eapply enough_fuel_math; eauto.
  - eapply enough_fuel_env; eauto.
  - eapply enough_fuel_command; eauto.
  - eapply enough_fuel_args; eauto.
  - eapply enough_fuel_opt; eauto.
  - eapply enough_fuel_req; eauto.
  - eapply enough_fuel_arg; eauto.
  - eapply enough_fuel_argloop; eauto.
Qed.

Lemma diag_not_oof {A} (r : res A) : diag r -> r <> Err OutOfFuel.
Proof. intros H E. subst r. exact H. Qed.

Lemma ref_indep {A} (F : nat -> res A) f1 f2 :
  (forall f f', (f <= f')%nat -> ref (F f) (F f')) ->
  F f1 <> Err OutOfFuel -> F f2 <> Err OutOfFuel -> F f1 = F f2.
Proof.
  intros M H1 H2.
  pose proof (ref_eq _ _ (M f1 (Nat.max f1 f2) (Nat.le_max_l _ _)) H1) as E1.
  pose proof (ref_eq _ _ (M f2 (Nat.max f1 f2) (Nat.le_max_r _ _)) H2) as E2.
  congruence.
Qed.

(* with TOT: above 3*|toks|+3 the result does not depend on the fuel *)
Theorem fuel_independent_expr f1 f2 skip strict m toks :
  (3 * length toks + 3 <= f1)%nat -> (3 * length toks + 3 <= f2)%nat ->
  read_expr f1 skip strict m toks = read_expr f2 skip strict m toks.
Proof.
  intros H1 H2. destruct toks as [|t ts].
  { destruct f1 as [|f1]; [simpl in H1; lia|]. destruct f2 as [|f2]; [simpl in H2; lia|].
    reflexivity. }
  apply (ref_indep (fun f => read_expr f skip strict m (t :: ts))).
  - intros f f' Hle. apply mono_expr_holds. exact Hle.
  - apply diag_not_oof. apply (tot_all_holds f1); [discriminate | lia].
  - apply diag_not_oof. apply (tot_all_holds f2); [discriminate | lia].
Qed.

Theorem fuel_independent_math f1 f2 k pos strict acc toks :
  (3 * length toks + 3 <= f1)%nat -> (3 * length toks + 3 <= f2)%nat ->
  read_math_loop f1 k pos strict acc toks = read_math_loop f2 k pos strict acc toks.
Proof.
  intros H1 H2. apply (ref_indep (fun f => read_math_loop f k pos strict acc toks)).
  - intros f f' Hle. apply mono_math_holds. exact Hle.
  - apply diag_not_oof. apply (tot_all_holds f1). lia.
  - apply diag_not_oof. apply (tot_all_holds f2). lia.
Qed.

Theorem fuel_independent_argloop f1 f2 k pos strict m acc toks :
  (3 * length toks + 3 <= f1)%nat -> (3 * length toks + 3 <= f2)%nat ->
  read_arg_loop f1 k pos strict m acc toks = read_arg_loop f2 k pos strict m acc toks.
Proof.
  intros H1 H2. apply (ref_indep (fun f => read_arg_loop f k pos strict m acc toks)).
  - intros f f' Hle. apply mono_argloop_holds. exact Hle.
  - apply diag_not_oof. apply (tot_all_holds f1). lia.
  - apply diag_not_oof. apply (tot_all_holds f2). lia.
Qed.

Theorem fuel_independent_env f1 f2 name args pos skip strict m acc toks :
  (3 * length toks + 3 <= f1)%nat -> (3 * length toks + 3 <= f2)%nat ->
  read_env_loop f1 name args pos skip strict m acc toks =
  read_env_loop f2 name args pos skip strict m acc toks.
Proof.
  intros H1 H2.
  apply (ref_indep (fun f => read_env_loop f name args pos skip strict m acc toks)).
  - intros f f' Hle. apply mono_env_holds. exact Hle.
  - apply diag_not_oof. apply (tot_all_holds f1). lia.
  - apply diag_not_oof. apply (tot_all_holds f2). lia.
Qed.

Theorem fuel_independent_item f1 f2 acc toks :
  (3 * length toks + 3 <= f1)%nat -> (3 * length toks + 3 <= f2)%nat ->
  read_item_loop f1 acc toks = read_item_loop f2 acc toks.
Proof.
  intros H1 H2. apply (ref_indep (fun f => read_item_loop f acc toks)).
  - intros f f' Hle. apply mono_item_holds. exact Hle.
  - apply diag_not_oof. apply (tot_all_holds f1). lia.
  - apply diag_not_oof. apply (tot_all_holds f2). lia.
Qed.

Theorem fuel_independent_args f1 f2 nreq nopt strict m toks :
  (3 * length toks + 3 <= f1)%nat -> (3 * length toks + 3 <= f2)%nat ->
  read_args f1 nreq nopt strict m toks = read_args f2 nreq nopt strict m toks.
Proof.
  intros H1 H2. apply (ref_indep (fun f => read_args f nreq nopt strict m toks)).
  - intros f f' Hle. apply mono_args_holds. exact Hle.
  - apply diag_not_oof. apply (tot_all_holds f1). lia.
  - apply diag_not_oof. apply (tot_all_holds f2). lia.
Qed.

(* the form used below: a successful run at SOME fuel is the run at every
   fuel that TOT declares sufficient *)
Lemma fuel_any_expr f f' skip strict m toks r :
  read_expr f skip strict m toks = Ok r -> (3 * length toks + 1 <= f')%nat ->
  read_expr f' skip strict m toks = Ok r.
Proof.
  intros H Hf.
  assert (Hne : toks <> []). { intro E. subst toks. destruct f; discriminate H. }
  rewrite <- H. symmetry.
  apply (ref_indep (fun f => read_expr f skip strict m toks)).
  - intros g g' Hle. apply mono_expr_holds. exact Hle.
  - rewrite H. discriminate.
  - apply diag_not_oof. apply (tot_all_holds f'); [exact Hne | exact Hf].
Qed.

Lemma fuel_any_math f f' k pos strict acc toks r :
  read_math_loop f k pos strict acc toks = Ok r -> (3 * length toks + 2 <= f')%nat ->
  read_math_loop f' k pos strict acc toks = Ok r.
Proof.
  intros H Hf. rewrite <- H. symmetry.
  apply (ref_indep (fun f => read_math_loop f k pos strict acc toks)).
  - intros g g' Hle. apply mono_math_holds. exact Hle.
  - rewrite H. discriminate.
  - apply diag_not_oof. apply (tot_all_holds f'). exact Hf.
Qed.

Lemma fuel_any_argloop f f' k pos strict m acc toks r :
  read_arg_loop f k pos strict m acc toks = Ok r -> (3 * length toks + 2 <= f')%nat ->
  read_arg_loop f' k pos strict m acc toks = Ok r.
Proof.
  intros H Hf. rewrite <- H. symmetry.
  apply (ref_indep (fun f => read_arg_loop f k pos strict m acc toks)).
  - intros g g' Hle. apply mono_argloop_holds. exact Hle.
  - rewrite H. discriminate.
  - apply diag_not_oof. apply (tot_all_holds f'). exact Hf.
Qed.

(* ====================================================================== *)
(* Stage 1: the token-level document grammar                              *)
(* ====================================================================== *)

(* A document element is written down as the tokens it consists of, with the
   structure made explicit.  An argument group carries the MergedSpacer token
   that may precede it, its kind, its two delimiter tokens and its body. *)
Inductive doc :=
| DLeaf (t : token)
| DGroup (o : token) (body : list doc) (c : token)
| DCmd (e n : token) (args : list arg)
| DMath (k : mathkind) (o : token) (body : list doc) (c : token)
with arg :=
| Arg (sp : option token) (k : groupkind) (o : token) (body : list doc) (c : token).

Section doc_ind'.
  Variable P : doc -> Prop.
  Variable Q : arg -> Prop.
  Hypothesis HLeaf : forall t, P (DLeaf t).
  Hypothesis HGroup : forall o b c, Forall P b -> P (DGroup o b c).
  Hypothesis HCmd : forall e n args, Forall Q args -> P (DCmd e n args).
  Hypothesis HMath : forall k o b c, Forall P b -> P (DMath k o b c).
  Hypothesis HArg : forall sp k o b c, Forall P b -> Q (Arg sp k o b c).

  Fixpoint doc_ind' (d : doc) : P d :=
    let fix go (l : list doc) : Forall P l :=
        match l with
        | [] => Forall_nil P
        | x :: l' => Forall_cons x (doc_ind' x) (go l')
        end in
    let fix goa (l : list arg) : Forall Q l :=
        match l with
        | [] => Forall_nil Q
        | x :: l' => Forall_cons x (arg_ind' x) (goa l')
        end in
    match d with
    | DLeaf t => HLeaf t
    | DGroup o b c => HGroup o b c (go b)
    | DCmd e n args => HCmd e n args (goa args)
    | DMath k o b c => HMath k o b c (go b)
    end
  with arg_ind' (a : arg) : Q a :=
    let fix go (l : list doc) : Forall P l :=
        match l with
        | [] => Forall_nil P
        | x :: l' => Forall_cons x (doc_ind' x) (go l')
        end in
    match a with
    | Arg sp k o b c => HArg sp k o b c (go b)
    end.
End doc_ind'.

Definition opt_tok (o : option token) : list token :=
  match o with Some t => [t] | None => [] end.

(* the tokens, in order *)
Fixpoint flat (d : doc) : list token :=
  match d with
  | DLeaf t => [t]
  | DGroup o b c => o :: concat (map flat b) ++ [c]
  | DCmd e n args => e :: n :: concat (map flat_arg args)
  | DMath _ o b c => o :: concat (map flat b) ++ [c]
  end
with flat_arg (a : arg) : list token :=
  match a with
  | Arg sp _ o b c => opt_tok sp ++ o :: concat (map flat b) ++ [c]
  end.

Definition flat_list (ds : list doc) : list token := concat (map flat ds).
Definition flat_args (l : list arg) : list token := concat (map flat_arg l).

(* the expected node *)
Fixpoint tree (d : doc) : expr :=
  match d with
  | DLeaf t => EText t
  | DGroup o b _ => EGroup GBrace (map tree b) (tpos o)
  | DCmd e n args => ECmd (strip (ttext n)) (map tree_arg args) [] (tpos e)
  | DMath k o b _ => EMath k (map tree b) (tpos o)
  end
with tree_arg (a : arg) : expr :=
  match a with
  | Arg _ k o b _ => EGroup k (map tree b) (tpos o)
  end.

(* --------------------------------------------------- well-formedness *)

(* the loop that reads a body: what closes it *)
Inductive ctx := CTop | CGroup (k : groupkind) | CMath (k : mathkind).

Definition closes (x : ctx) (t : token) : bool :=
  match x with
  | CTop => false
  | CGroup k => is_group_end k t
  | CMath k => is_math_end k t
  end.

Definition dhead (d : doc) : token :=
  match d with
  | DLeaf t => t
  | DGroup o _ _ => o
  | DCmd e _ _ => e
  | DMath _ o _ _ => o
  end.

(* "after an optional MergedSpacer the next token is not a k" *)
Definition stopsb (k : tc) (toks : list token) : bool :=
  match head_after_spacer toks with Some c => negb (is_tc k c) | None => true end.
(* "the very next token is not a k" *)
Definition head_notb (k : tc) (toks : list token) : bool :=
  match toks with t :: _ => negb (is_tc k t) | [] => true end.

Definition arg_kind (a : arg) : groupkind := match a with Arg _ k _ _ _ => k end.
Definition is_brace_arg (a : arg) : bool := groupkind_beq (arg_kind a) GBrace.
Definition is_bracket_arg (a : arg) : bool := groupkind_beq (arg_kind a) GBracket.

(* what may follow a command whose arguments are `args` *)
Definition cmd_follow (args : list arg) (rest : list token) : bool :=
  stopsb TGroupBegin rest &&
  (if existsb is_brace_arg args then head_notb TBracketBegin rest
   else stopsb TBracketBegin rest).

Definition follows_ok (d : doc) (rest : list token) : bool :=
  match d with
  | DCmd _ _ args => cmd_follow args rest
  | _ => true
  end.

(* bracket groups before brace groups: the first pass of read_args only *)
Fixpoint brackets_first (ks : list groupkind) : bool :=
  match ks with
  | [] => true
  | GBracket :: ks' => brackets_first ks'
  | GBrace :: ks' => forallb (groupkind_beq GBrace) ks'
  end.

Definition opens_group_kind (k : groupkind) (o : token) : bool :=
  match group_tok_begin k with Some b => is_tc b o | None => false end.
Definition opens_math_kind (k : mathkind) (o : token) : bool :=
  match math_tok_begin k with Some b => is_tc b o | None => false end.

Definition name_ok (n : token) : bool :=
  (let '(a, b) := signature_of (ttext n) in Z.eqb a (-1) && Z.eqb b (-1)) &&
  negb (str_eqb (ttext n) s_item) && negb (str_eqb (ttext n) s_begin) &&
  negb (str_eqb (ttext n) s_end) &&
  negb (mem_str (ttext n) Tables.special_commands).

(* a body: every element well-formed, not starting with the closer of the
   enclosing loop, and followed by what its follow condition allows; `rest`
   is what comes after the whole sequence *)
Definition seq_wf (W : doc -> bool) (x : ctx) : list doc -> list token -> bool :=
  fix go (ds : list doc) (rest : list token) {struct ds} : bool :=
    match ds with
    | [] => true
    | d :: ds' =>
      negb (closes x (dhead d)) && W d && follows_ok d (flat_list ds' ++ rest) &&
      go ds' rest
    end.

Fixpoint wf (d : doc) : bool :=
  match d with
  | DLeaf t => leaf_cat (tcat t)
  | DGroup o b c =>
    is_tc TGroupBegin o && is_group_end GBrace c && seq_wf wf (CGroup GBrace) b [c]
  | DCmd e n args =>
    is_tc TEscape e && name_ok n && brackets_first (map arg_kind args) && forallb wf_arg args
  | DMath k o b c =>
    opens_math_kind k o && is_math_end k c && seq_wf wf (CMath k) b [c]
  end
with wf_arg (a : arg) : bool :=
  match a with
  | Arg sp k o b c =>
    match sp with Some s => is_tc TMergedSpacer s | None => true end &&
    opens_group_kind k o && is_group_end k c && seq_wf wf (CGroup k) b [c]
  end.

Definition wf_seq (x : ctx) (ds : list doc) (rest : list token) : bool := seq_wf wf x ds rest.

(* ------------------------------------------------- equations, list facts *)

Lemma seq_wf_cons W x d ds rest :
  seq_wf W x (d :: ds) rest =
  negb (closes x (dhead d)) && W d && follows_ok d (flat_list ds ++ rest) && seq_wf W x ds rest.
Proof. reflexivity. Qed.

Lemma flat_list_cons d ds : flat_list (d :: ds) = flat d ++ flat_list ds.
Proof. reflexivity. Qed.
Lemma flat_args_cons a l : flat_args (a :: l) = flat_arg a ++ flat_args l.
Proof. reflexivity. Qed.
Lemma flat_args_app a b : flat_args (a ++ b) = flat_args a ++ flat_args b.
Proof. unfold flat_args. rewrite map_app, concat_app. reflexivity. Qed.

Lemma flat_group o b c : flat (DGroup o b c) = o :: flat_list b ++ [c].
Proof. reflexivity. Qed.
Lemma flat_cmd e n args : flat (DCmd e n args) = e :: n :: flat_args args.
Proof. reflexivity. Qed.
Lemma flat_math k o b c : flat (DMath k o b c) = o :: flat_list b ++ [c].
Proof. reflexivity. Qed.
Lemma flat_arg_eq sp k o b c :
  flat_arg (Arg sp k o b c) = opt_tok sp ++ o :: flat_list b ++ [c].
Proof. reflexivity. Qed.

Lemma wf_group o b c :
  wf (DGroup o b c) =
  is_tc TGroupBegin o && is_group_end GBrace c && seq_wf wf (CGroup GBrace) b [c].
Proof. reflexivity. Qed.
Lemma wf_cmd e n args :
  wf (DCmd e n args) =
  is_tc TEscape e && name_ok n && brackets_first (map arg_kind args) && forallb wf_arg args.
Proof. reflexivity. Qed.
Lemma wf_math k o b c :
  wf (DMath k o b c) = opens_math_kind k o && is_math_end k c && seq_wf wf (CMath k) b [c].
Proof. reflexivity. Qed.
Lemma wf_arg_eq sp k o b c :
  wf_arg (Arg sp k o b c) =
  match sp with Some s => is_tc TMergedSpacer s | None => true end &&
  opens_group_kind k o && is_group_end k c && seq_wf wf (CGroup k) b [c].
Proof. reflexivity. Qed.

Lemma flat_head d : exists tl, flat d = dhead d :: tl.
Proof. destruct d; simpl; eauto. Qed.

Lemma flat_length_pos d : (1 <= length (flat d))%nat.
Proof. destruct (flat_head d) as [tl ->]. simpl. lia. Qed.

(* ------------------------------------------------ table facts (computed) *)

Lemma group_end_not_spacer k c : is_group_end k c = true -> is_tc TMergedSpacer c = false.
Proof.
  intro H. apply is_group_end_tok in H. apply is_tc_false. intro E. rewrite E in H.
  destruct k; vm_compute in H; discriminate H.
Qed.

Lemma math_end_not_spacer k c : is_math_end k c = true -> is_tc TMergedSpacer c = false.
Proof.
  intro H. apply is_math_end_tok in H. apply is_tc_false. intro E. rewrite E in H.
  destruct k; vm_compute in H; discriminate H.
Qed.

Lemma opens_group_kind_spec k o :
  opens_group_kind k o = true ->
  group_kind_of_begin (tcat o) = Some k /\ group_tok_begin k = Some (tcat o) /\
  is_tc TMergedSpacer o = false /\
  is_tc (match k with GBrace => TGroupBegin | GBracket => TBracketBegin end) o = true.
Proof.
  unfold opens_group_kind. destruct k.
  - replace (group_tok_begin GBrace) with (Some TGroupBegin) by (vm_compute; reflexivity).
    intro H. pose proof H as H'. apply is_tc_true in H'.
    split; [rewrite H'; vm_compute; reflexivity|].
    split; [rewrite H'; reflexivity|].
    split; [apply (is_tc_excl _ _ _ H); discriminate | exact H].
  - replace (group_tok_begin GBracket) with (Some TBracketBegin) by (vm_compute; reflexivity).
    intro H. pose proof H as H'. apply is_tc_true in H'.
    split; [rewrite H'; vm_compute; reflexivity|].
    split; [rewrite H'; reflexivity|].
    split; [apply (is_tc_excl _ _ _ H); discriminate | exact H].
Qed.

Lemma opens_math_kind_spec k o :
  opens_math_kind k o = true ->
  math_kind_of_begin (tcat o) = Some k /\ math_tok_begin k = Some (tcat o).
Proof.
  unfold opens_math_kind. destruct (math_tok_begin k) as [b|] eqn:E; [|discriminate].
  intro H. apply is_tc_true in H. subst b. split; [|reflexivity].
  apply math_begin_kinds. exact E.
Qed.

Lemma group_begin_facts o :
  is_tc TGroupBegin o = true ->
  math_kind_of_begin (tcat o) = None /\ is_tc TEscape o = false.
Proof.
  intro H. apply is_tc_true in H. unfold is_tc. rewrite H. split; vm_compute; reflexivity.
Qed.

(* --------------------------------- the follow condition sees two tokens *)

Lemma head_after_spacer_ext l c r :
  is_tc TMergedSpacer c = false ->
  head_after_spacer (l ++ [c]) = head_after_spacer (l ++ c :: r).
Proof.
  intro Hc. unfold head_after_spacer, read_spacer.
  destruct l as [|x [|y l']]; simpl.
  - rewrite Hc. reflexivity.
  - destruct (is_tc TMergedSpacer x); reflexivity.
  - destruct (is_tc TMergedSpacer x); reflexivity.
Qed.

Lemma follows_ok_ext d l c r :
  is_tc TMergedSpacer c = false ->
  follows_ok d (l ++ [c]) = follows_ok d (l ++ c :: r).
Proof.
  intro Hc. destruct d; try reflexivity. simpl. unfold cmd_follow, stopsb.
  rewrite <- !(head_after_spacer_ext l c r Hc).
  replace (head_notb TBracketBegin (l ++ c :: r)) with (head_notb TBracketBegin (l ++ [c]))
    by (destruct l; reflexivity).
  reflexivity.
Qed.

Lemma seq_wf_ext W x ds c r :
  is_tc TMergedSpacer c = false ->
  seq_wf W x ds [c] = true -> seq_wf W x ds (c :: r) = true.
Proof.
  intro Hc. induction ds as [|d ds IH]; [reflexivity|].
  rewrite !seq_wf_cons. intro H.
  apply andb_true_iff in H. destruct H as [H H4].
  rewrite <- (follows_ok_ext d (flat_list ds) c r Hc), H, (IH H4). reflexivity.
Qed.

(* ====================================================================== *)
(* Stage 2: completeness                                                  *)
(* ====================================================================== *)

(* "for every sufficiently large fuel, F returns r" *)
Definition Reads {A} (F : nat -> res A) (r : res A) : Prop :=
  exists f0, forall f, (f0 <= f)%nat -> F f = r.

Definition PPd (d : doc) : Prop := forall skip strict m rest,
  wf d = true -> follows_ok d rest = true ->
  Reads (fun f => read_expr f skip strict m (flat d ++ rest)) (Ok (tree d, rest)).

Definition arg_open (a : arg) : token := match a with Arg _ _ o _ _ => o end.
Definition arg_inner (a : arg) : list token :=
  match a with Arg _ _ _ b c => flat_list b ++ [c] end.

Definition PPa (a : arg) : Prop := forall strict m rest,
  wf_arg a = true ->
  Reads (fun f => read_arg f (arg_open a) strict m (arg_inner a ++ rest))
        (Ok (tree_arg a, rest)).

(* the body of a group: elements one by one, then the closer *)
Lemma seq_group ds : Forall PPd ds -> forall k pos strict m acc c rest,
  seq_wf wf (CGroup k) ds (c :: rest) = true -> is_group_end k c = true ->
  Reads (fun f => read_arg_loop f k pos strict m acc (flat_list ds ++ c :: rest))
        (Ok (EGroup k (acc ++ map tree ds) pos, rest)).
Proof.
  induction 1 as [|d ds Hd Hds IH]; intros k pos strict m acc c rest Hwf Hc.
  - exists 1%nat. intros f Hf. destruct f as [|f]; [lia|].
    change (flat_list [] ++ c :: rest) with (c :: rest). simpl map. rewrite app_nil_r.
    apply C09_group_closes_on_own_delimiter. exact Hc.
  - rewrite seq_wf_cons in Hwf.
    apply andb_true_iff in Hwf. destruct Hwf as [Hwf H4].
    apply andb_true_iff in Hwf. destruct Hwf as [Hwf H3].
    apply andb_true_iff in Hwf. destruct Hwf as [H1 H2].
    apply negb_true_iff in H1. cbn [closes] in H1.
    destruct (flat_head d) as [tl Htl].
    destruct (Hd [] strict m (flat_list ds ++ c :: rest) H2 H3) as [f1 F1].
    destruct (IH k pos strict m (acc ++ [tree d]) c rest H4 Hc) as [f2 F2].
    exists (S (Nat.max f1 f2)). intros f Hf. destruct f as [|f]; [lia|].
    rewrite flat_list_cons, <- app_assoc.
    assert (E1 := F1 f ltac:(lia)). cbv beta in E1.
    rewrite Htl in E1 |- *. rewrite <- app_comm_cons in E1 |- *.
    rewrite (C09_group_continues f k pos strict m acc (dhead d) _ H1), E1. cbn [bind].
    rewrite F2 by lia. rewrite <- app_assoc. reflexivity.
Qed.

(* the body of a math region *)
Lemma seq_math ds : Forall PPd ds -> forall k pos strict acc c rest,
  seq_wf wf (CMath k) ds (c :: rest) = true -> is_math_end k c = true ->
  Reads (fun f => read_math_loop f k pos strict acc (flat_list ds ++ c :: rest))
        (Ok (EMath k (acc ++ map tree ds) pos, rest)).
Proof.
  induction 1 as [|d ds Hd Hds IH]; intros k pos strict acc c rest Hwf Hc.
  - exists 1%nat. intros f Hf. destruct f as [|f]; [lia|].
    change (flat_list [] ++ c :: rest) with (c :: rest). simpl map. rewrite app_nil_r.
    apply C12_math_closes. exact Hc.
  - rewrite seq_wf_cons in Hwf.
    apply andb_true_iff in Hwf. destruct Hwf as [Hwf H4].
    apply andb_true_iff in Hwf. destruct Hwf as [Hwf H3].
    apply andb_true_iff in Hwf. destruct Hwf as [H1 H2].
    apply negb_true_iff in H1. cbn [closes] in H1.
    destruct (flat_head d) as [tl Htl].
    destruct (Hd [] strict MMath (flat_list ds ++ c :: rest) H2 H3) as [f1 F1].
    destruct (IH k pos strict (acc ++ [tree d]) c rest H4 Hc) as [f2 F2].
    exists (S (Nat.max f1 f2)). intros f Hf. destruct f as [|f]; [lia|].
    rewrite flat_list_cons, <- app_assoc.
    assert (E1 := F1 f ltac:(lia)). cbv beta in E1.
    rewrite Htl in E1 |- *. rewrite <- app_comm_cons in E1 |- *.
    rewrite (C12_math_continues f k pos strict acc (dhead d) _ H1), E1. cbn [bind].
    rewrite F2 by lia. rewrite <- app_assoc. reflexivity.
Qed.

(* one argument group, from its opening token *)
Lemma arg_group sp k o b c : Forall PPd b -> PPa (Arg sp k o b c).
Proof.
  intros Hb strict m rest Hwf. rewrite wf_arg_eq in Hwf.
  apply andb_true_iff in Hwf. destruct Hwf as [Hwf H4].
  apply andb_true_iff in Hwf. destruct Hwf as [Hwf H3].
  apply andb_true_iff in Hwf. destruct Hwf as [H1 H2].
  apply opens_group_kind_spec in H2. destruct H2 as (Hk & _).
  pose proof (seq_wf_ext wf (CGroup k) b c rest (group_end_not_spacer k c H3) H4) as H4'.
  destruct (seq_group b Hb k (tpos o) strict m [] c rest H4' H3) as [f1 F1].
  exists (S f1). intros f Hf. destruct f as [|f]; [lia|].
  cbn [arg_open arg_inner tree_arg]. rewrite <- app_assoc. cbn [app].
  cbn [read_arg]. rewrite Hk. apply F1. lia.
Qed.

(* a brace group met by read_expr *)
Lemma read_expr_group_open f skip strict m o src :
  is_tc TGroupBegin o = true ->
  read_expr (S f) skip strict m (o :: src) = read_arg f o strict MNonMath src.
Proof.
  intro H. destruct (group_begin_facts o H) as [H1 H2].
  cbn [read_expr]. rewrite H1, H2, H. reflexivity.
Qed.

(* ---------------------------------------------------- argument loops *)

Lemma stopsb_stops k toks :
  stopsb k toks = true ->
  match head_after_spacer toks with Some c => is_tc k c = false | None => True end.
Proof.
  unfold stopsb. destruct (head_after_spacer toks); [|intros; exact I].
  intro H. apply negb_true_iff. exact H.
Qed.

(* what read_spacer leaves in front of an argument group *)
Lemma arg_after_spacer sp k o b c X :
  match sp with Some s => is_tc TMergedSpacer s | None => true end = true ->
  is_tc TMergedSpacer o = false ->
  snd (read_spacer (flat_arg (Arg sp k o b c) ++ X)) = o :: arg_inner (Arg sp k o b c) ++ X.
Proof.
  intros Hs Ho. rewrite flat_arg_eq. cbn [arg_inner]. unfold read_spacer.
  destruct sp as [s|]; cbn [opt_tok app].
  - rewrite Hs. reflexivity.
  - rewrite Ho. reflexivity.
Qed.

Lemma head_after_spacer_arg sp k o b c X :
  match sp with Some s => is_tc TMergedSpacer s | None => true end = true ->
  is_tc TMergedSpacer o = false ->
  head_after_spacer (flat_arg (Arg sp k o b c) ++ X) = Some o.
Proof.
  intros Hs Ho. unfold head_after_spacer. rewrite (arg_after_spacer sp k o b c X Hs Ho).
  reflexivity.
Qed.

Lemma wf_arg_parts sp k o b c :
  wf_arg (Arg sp k o b c) = true ->
  match sp with Some s => is_tc TMergedSpacer s | None => true end = true /\
  opens_group_kind k o = true /\ is_group_end k c = true /\ seq_wf wf (CGroup k) b [c] = true.
Proof.
  rewrite wf_arg_eq. intro Hwf.
  apply andb_true_iff in Hwf. destruct Hwf as [Hwf H4].
  apply andb_true_iff in Hwf. destruct Hwf as [Hwf H3].
  apply andb_true_iff in Hwf. destruct Hwf as [H1 H2]. auto.
Qed.

(* the bracket loop: all of `bs`, then stop *)
Lemma opt_loop bs : Forall PPa bs -> forall acc nopt strict m tail,
  (nopt < 0)%Z -> forallb wf_arg bs = true -> forallb is_bracket_arg bs = true ->
  stopsb TBracketBegin tail = true ->
  Reads (fun f => read_arg_optional f acc nopt strict m (flat_args bs ++ tail))
        (Ok ((acc ++ map tree_arg bs, (nopt - Z.of_nat (length bs))%Z), tail)).
Proof.
  induction 1 as [|a bs Ha Hbs IH]; intros acc nopt strict m tail Hn Hw Hk Hs.
  - exists 1%nat. intros f Hf. destruct f as [|f]; [lia|].
    change (flat_args [] ++ tail) with tail. simpl map. simpl length.
    rewrite app_nil_r, Z.sub_0_r.
    apply C09_other_token_detaches_opt. apply stopsb_stops. exact Hs.
  - cbn [forallb] in Hw, Hk.
    apply andb_true_iff in Hw. destruct Hw as [Hwa Hw].
    apply andb_true_iff in Hk. destruct Hk as [Hka Hk].
    destruct a as [sp k o b c].
    unfold is_bracket_arg in Hka. cbn [arg_kind] in Hka. apply groupkind_eqb_eq in Hka. subst k.
    destruct (wf_arg_parts _ _ _ _ _ Hwa) as (W1 & W2 & W3 & W4).
    apply opens_group_kind_spec in W2. destruct W2 as (_ & _ & Ho & Hob).
    destruct (Ha strict m (flat_args bs ++ tail) Hwa) as [f1 F1].
    destruct (IH (acc ++ [tree_arg (Arg sp GBracket o b c)]) (nopt - 1)%Z strict m tail
                 ltac:(lia) Hw Hk Hs) as [f2 F2].
    exists (S (Nat.max f1 f2)). intros f Hf. destruct f as [|f]; [lia|].
    rewrite flat_args_cons, <- app_assoc.
    rewrite (C09_attach_step_opt f acc nopt strict m _ o
               (arg_inner (Arg sp GBracket o b c) ++ flat_args bs ++ tail)
               (tree_arg (Arg sp GBracket o b c)) (flat_args bs ++ tail)).
    + rewrite F2 by lia. rewrite <- app_assoc. cbn [map app length].
      rewrite Nat2Z.inj_succ.
      replace (nopt - 1 - Z.of_nat (length bs))%Z with (nopt - Z.succ (Z.of_nat (length bs)))%Z
        by lia.
      reflexivity.
    + lia.
    + apply arg_after_spacer; assumption.
    + exact Hob.
    + apply (F1 f). lia.
Qed.

(* the brace loop *)
Lemma req_loop cs : Forall PPa cs -> forall acc nreq strict m tail,
  (nreq < 0)%Z -> forallb wf_arg cs = true -> forallb is_brace_arg cs = true ->
  stopsb TGroupBegin tail = true ->
  Reads (fun f => read_arg_required f acc nreq strict m (flat_args cs ++ tail))
        (Ok ((acc ++ map tree_arg cs, (nreq - Z.of_nat (length cs))%Z), tail)).
Proof.
  induction 1 as [|a cs Ha Hcs IH]; intros acc nreq strict m tail Hn Hw Hk Hs.
  - exists 1%nat. intros f Hf. destruct f as [|f]; [lia|].
    change (flat_args [] ++ tail) with tail. simpl map. simpl length.
    rewrite app_nil_r, Z.sub_0_r.
    apply C09_other_token_detaches_req; [lia|]. apply stopsb_stops. exact Hs.
  - cbn [forallb] in Hw, Hk.
    apply andb_true_iff in Hw. destruct Hw as [Hwa Hw].
    apply andb_true_iff in Hk. destruct Hk as [Hka Hk].
    destruct a as [sp k o b c].
    unfold is_brace_arg in Hka. cbn [arg_kind] in Hka. apply groupkind_eqb_eq in Hka. subst k.
    destruct (wf_arg_parts _ _ _ _ _ Hwa) as (W1 & W2 & W3 & W4).
    apply opens_group_kind_spec in W2. destruct W2 as (_ & _ & Ho & Hob).
    destruct (Ha strict m (flat_args cs ++ tail) Hwa) as [f1 F1].
    destruct (IH (acc ++ [tree_arg (Arg sp GBrace o b c)]) (nreq - 1)%Z strict m tail
                 ltac:(lia) Hw Hk Hs) as [f2 F2].
    exists (S (Nat.max f1 f2)). intros f Hf. destruct f as [|f]; [lia|].
    rewrite flat_args_cons, <- app_assoc.
    rewrite (C09_attach_step_req f acc nreq strict m _ o
               (arg_inner (Arg sp GBrace o b c) ++ flat_args cs ++ tail)
               (tree_arg (Arg sp GBrace o b c)) (flat_args cs ++ tail)).
    + rewrite F2 by lia. rewrite <- app_assoc. cbn [map app length].
      rewrite Nat2Z.inj_succ.
      replace (nreq - 1 - Z.of_nat (length cs))%Z with (nreq - Z.succ (Z.of_nat (length cs)))%Z
        by lia.
      reflexivity.
    + lia.
    + apply arg_after_spacer; assumption.
    + exact Hob.
    + apply (F1 f). lia.
Qed.

Lemma all_bracket_no_brace bs :
  forallb is_bracket_arg bs = true -> existsb is_brace_arg bs = false.
Proof.
  induction bs as [|a bs IH]; [reflexivity|]. cbn [forallb existsb]. intro H.
  apply andb_true_iff in H. destruct H as [Ha H]. rewrite (IH H), orb_false_r.
  unfold is_bracket_arg in Ha. unfold is_brace_arg. apply groupkind_eqb_eq in Ha.
  rewrite Ha. reflexivity.
Qed.

Lemma stopsb_head k toks :
  k <> TMergedSpacer -> stopsb k toks = true -> head_notb k toks = true.
Proof.
  intros Hk H. apply stopsb_stops in H.
  pose proof (stops_at_head k toks Hk H) as H'. unfold head_notb.
  destruct toks as [|t ts]; [reflexivity|]. rewrite H'. reflexivity.
Qed.

(* read_args with the "as many as there are" counts: first pass brackets,
   first pass braces, and the two second passes find nothing *)
Lemma args_read bs cs : Forall PPa bs -> Forall PPa cs -> forall strict m rest,
  forallb wf_arg bs = true -> forallb is_bracket_arg bs = true ->
  forallb wf_arg cs = true -> forallb is_brace_arg cs = true ->
  cmd_follow (bs ++ cs) rest = true ->
  Reads (fun f => read_args f (-1) (-1) strict m (flat_args (bs ++ cs) ++ rest))
        (Ok (map tree_arg (bs ++ cs), rest)).
Proof.
  intros Hbs Hcs strict m rest Wb Kb Wc Kc Hfol.
  unfold cmd_follow in Hfol. apply andb_true_iff in Hfol. destruct Hfol as [Fg Fb].
  rewrite existsb_app, (all_bracket_no_brace bs Kb), orb_false_l in Fb.
  (* the bracket loop stops in front of the brace groups / the rest *)
  assert (S1 : stopsb TBracketBegin (flat_args cs ++ rest) = true).
  { destruct cs as [|[sp k o b c] cs'].
    - exact Fb.
    - cbn [forallb] in Wc, Kc.
      apply andb_true_iff in Wc. destruct Wc as [Wa _].
      apply andb_true_iff in Kc. destruct Kc as [Ka _].
      unfold is_brace_arg in Ka. cbn [arg_kind] in Ka. apply groupkind_eqb_eq in Ka. subst k.
      destruct (wf_arg_parts _ _ _ _ _ Wa) as (W1 & W2 & _).
      apply opens_group_kind_spec in W2. destruct W2 as (_ & _ & Ho & Hob).
      unfold stopsb. rewrite flat_args_cons, <- app_assoc.
      rewrite (head_after_spacer_arg sp GBrace o b c _ W1 Ho).
      rewrite (is_tc_excl _ TBracketBegin _ Hob); [reflexivity | discriminate]. }
  assert (H3 : head_notb TBracketBegin rest = true).
  { destruct cs as [|c0 cs'].
    - apply stopsb_head; [discriminate | exact Fb].
    - cbn [forallb] in Kc. apply andb_true_iff in Kc. destruct Kc as [Ka _].
      cbn [existsb] in Fb. rewrite Ka in Fb. exact Fb. }
  assert (H4 : head_notb TGroupBegin rest = true).
  { apply stopsb_head; [discriminate | exact Fg]. }
  destruct (opt_loop bs Hbs [] (-1)%Z strict m (flat_args cs ++ rest) ltac:(lia) Wb Kb S1)
    as [f1 F1].
  destruct (req_loop cs Hcs ([] ++ map tree_arg bs) (-1)%Z strict m rest
                     ltac:(lia) Wc Kc Fg) as [f2 F2].
  exists (S (Nat.max f1 f2)). intros f Hf. destruct f as [|f]; [lia|].
  rewrite C09_read_args_passes by reflexivity.
  rewrite flat_args_app, <- app_assoc.
  rewrite F1 by lia. cbn [bind]. rewrite F2 by lia. cbn [bind].
  unfold head_notb in H3, H4.
  destruct rest as [|t ts]; cbn [bind app].
  - rewrite map_app. reflexivity.
  - apply negb_true_iff in H3, H4. rewrite H3. cbn [bind]. rewrite H4. cbn [bind].
    rewrite map_app. reflexivity.
Qed.

Lemma brackets_first_split args :
  brackets_first (map arg_kind args) = true ->
  exists bs cs, args = bs ++ cs /\
                forallb is_bracket_arg bs = true /\ forallb is_brace_arg cs = true.
Proof.
  induction args as [|a args IH]; cbn [map brackets_first]; intro H.
  - exists [], []. repeat split.
  - destruct (arg_kind a) eqn:Ek.
    + exists [], (a :: args). split; [reflexivity|]. split; [reflexivity|].
      cbn [forallb]. unfold is_brace_arg at 1. rewrite Ek. cbn [groupkind_beq andb].
      clear IH Ek. induction args as [|b args IH]; [reflexivity|].
      cbn [map forallb] in H |- *. apply andb_true_iff in H. destruct H as [Hb H].
      rewrite (IH H), andb_true_r. unfold is_brace_arg. apply groupkind_eqb_eq in Hb.
      rewrite <- Hb. reflexivity.
    + destruct (IH H) as (bs & cs & -> & Hb & Hc).
      exists (a :: bs), cs. split; [reflexivity|]. split; [|exact Hc].
      cbn [forallb]. rewrite Hb, andb_true_r. unfold is_bracket_arg. rewrite Ek. reflexivity.
Qed.

(* ------------------------------------------------------- the command *)

Lemma name_ok_parts n :
  name_ok n = true ->
  signature_of (ttext n) = ((-1)%Z, (-1)%Z) /\ str_eqb (ttext n) s_item = false /\
  str_eqb (ttext n) s_begin = false /\ str_eqb (ttext n) s_end = false /\
  mem_str (ttext n) Tables.special_commands = false.
Proof.
  unfold name_ok. intro H.
  apply andb_true_iff in H. destruct H as [H H5].
  apply andb_true_iff in H. destruct H as [H H4].
  apply andb_true_iff in H. destruct H as [H H3].
  apply andb_true_iff in H. destruct H as [H1 H2].
  apply negb_true_iff in H2, H3, H4, H5.
  destruct (signature_of (ttext n)) as [a b].
  apply andb_true_iff in H1. destruct H1 as [Ha Hb].
  apply Z.eqb_eq in Ha, Hb. subst. auto.
Qed.

Lemma read_command_plain f strict m n src :
  signature_of (ttext n) = ((-1)%Z, (-1)%Z) ->
  mem_str (ttext n) Tables.special_commands = false ->
  read_command (S f) (-1) (-1) 0 strict m (n :: src) =
  bind (read_args f (-1) (-1) strict m src) (fun '(args, src1) => Ok ((ttext n, args), src1)).
Proof.
  intros Hs Hm. simpl. change (skipn 0 (n :: src)) with (n :: src). cbv iota beta.
  rewrite Hs, Hm. reflexivity.
Qed.

Lemma read_expr_plain_cmd f skip strict m e n src args src1 :
  is_tc TEscape e = true -> name_ok n = true ->
  read_args f (-1) (-1) strict m src = Ok (args, src1) ->
  read_expr (S (S f)) skip strict m (e :: n :: src) =
  Ok (ECmd (strip (ttext n)) args [] (tpos e), src1).
Proof.
  intros He Hn Ha. destruct (name_ok_parts n Hn) as (Hs & Hi & Hb & _ & Hm).
  cbn [read_expr]. rewrite (escape_not_math_begin e He), He.
  rewrite (read_command_plain f strict m n src Hs Hm), Ha. cbn [bind].
  rewrite Hi, Hb. reflexivity.
Qed.

(* ------------------------------------------------------- the induction *)

Theorem PP_all : forall d, PPd d.
Proof.
  apply (doc_ind' PPd PPa).
  - (* leaf *)
    intros t skip strict m rest Hwf _. exists 1%nat. intros f Hf. destruct f as [|f]; [lia|].
    cbn [flat tree app]. apply read_expr_leaf. exact Hwf.
  - (* brace group *)
    intros o b c Hb skip strict m rest Hwf _. rewrite wf_group in Hwf.
    apply andb_true_iff in Hwf. destruct Hwf as [Hwf H3].
    apply andb_true_iff in Hwf. destruct Hwf as [H1 H2].
    assert (Wa : wf_arg (Arg None GBrace o b c) = true).
    { rewrite wf_arg_eq, H2, H3. unfold opens_group_kind.
      replace (group_tok_begin GBrace) with (Some TGroupBegin) by (vm_compute; reflexivity).
      rewrite H1. reflexivity. }
    destruct (arg_group None GBrace o b c Hb strict MNonMath rest Wa) as [f1 F1].
    exists (S f1). intros f Hf. destruct f as [|f]; [lia|].
    rewrite flat_group. rewrite <- app_comm_cons.
    rewrite (read_expr_group_open f skip strict m o _ H1).
    apply (F1 f). lia.
  - (* command *)
    intros e n args Hargs skip strict m rest Hwf Hfol. rewrite wf_cmd in Hwf.
    apply andb_true_iff in Hwf. destruct Hwf as [Hwf H4].
    apply andb_true_iff in Hwf. destruct Hwf as [Hwf H3].
    apply andb_true_iff in Hwf. destruct Hwf as [H1 H2].
    destruct (brackets_first_split args H3) as (bs & cs & -> & Kb & Kc).
    apply Forall_app in Hargs. destruct Hargs as [Hbs Hcs].
    rewrite forallb_app in H4. apply andb_true_iff in H4. destruct H4 as [Wb Wc].
    cbn [follows_ok] in Hfol.
    destruct (args_read bs cs Hbs Hcs strict m rest Wb Kb Wc Kc Hfol) as [f1 F1].
    exists (S (S f1)). intros f Hf. destruct f as [|[|f]]; [lia|lia|].
    rewrite flat_cmd. rewrite <- !app_comm_cons.
    apply (read_expr_plain_cmd f skip strict m e n _ _ rest H1 H2).
    apply F1. lia.
  - (* math region *)
    intros k o b c Hb skip strict m rest Hwf _. rewrite wf_math in Hwf.
    apply andb_true_iff in Hwf. destruct Hwf as [Hwf H3].
    apply andb_true_iff in Hwf. destruct Hwf as [H1 H2].
    apply opens_math_kind_spec in H1. destruct H1 as [Hk _].
    pose proof (seq_wf_ext wf (CMath k) b c rest (math_end_not_spacer k c H2) H3) as H3'.
    destruct (seq_math b Hb k (tpos o) strict [] c rest H3' H2) as [f1 F1].
    exists (S f1). intros f Hf. destruct f as [|f]; [lia|].
    rewrite flat_math. rewrite <- app_comm_cons, <- app_assoc. cbn [app].
    rewrite (C12_math_opens f skip strict m o _ k Hk).
    apply F1. lia.
  - (* argument group *)
    intros sp k o b c Hb. apply arg_group. exact Hb.
Qed.

Lemma PP_Forall ds : Forall PPd ds.
Proof. apply Forall_forall. intros d _. apply PP_all. Qed.

(* ------------------------------ explicit fuel (via Stage 0 and TOT) *)

(* one document element, followed by anything its follow condition allows *)
Theorem PP_expr d skip strict m rest f :
  wf d = true -> follows_ok d rest = true ->
  (3 * length (flat d ++ rest) + 1 <= f)%nat ->
  read_expr f skip strict m (flat d ++ rest) = Ok (tree d, rest).
Proof.
  intros Hwf Hfol Hf. destruct (PP_all d skip strict m rest Hwf Hfol) as [f0 F0].
  apply (fuel_any_expr f0); [apply F0; lia | exact Hf].
Qed.

(* the body of a group closed by `c` *)
Theorem PP_seq_group ds k pos strict m acc c rest f :
  wf_seq (CGroup k) ds (c :: rest) = true -> is_group_end k c = true ->
  (3 * length (flat_list ds ++ c :: rest) + 2 <= f)%nat ->
  read_arg_loop f k pos strict m acc (flat_list ds ++ c :: rest)
  = Ok (EGroup k (acc ++ map tree ds) pos, rest).
Proof.
  intros Hwf Hc Hf.
  destruct (seq_group ds (PP_Forall ds) k pos strict m acc c rest Hwf Hc) as [f0 F0].
  apply (fuel_any_argloop f0); [apply F0; lia | exact Hf].
Qed.

(* the body of a math region closed by `c` *)
Theorem PP_seq_math ds k pos strict acc c rest f :
  wf_seq (CMath k) ds (c :: rest) = true -> is_math_end k c = true ->
  (3 * length (flat_list ds ++ c :: rest) + 2 <= f)%nat ->
  read_math_loop f k pos strict acc (flat_list ds ++ c :: rest)
  = Ok (EMath k (acc ++ map tree ds) pos, rest).
Proof.
  intros Hwf Hc Hf.
  destruct (seq_math ds (PP_Forall ds) k pos strict acc c rest Hwf Hc) as [f0 F0].
  apply (fuel_any_math f0); [apply F0; lia | exact Hf].
Qed.

(* --------------------------------------------------------- top level *)

Lemma read_tex_loop_step f ef skip strict acc toks :
  toks <> [] ->
  read_tex_loop (S f) ef skip strict acc toks =
  bind (read_expr ef skip strict MNonMath toks) (fun '(e, rest) =>
    read_tex_loop f ef skip strict (acc ++ [e]) rest).
Proof. destruct toks; [congruence | reflexivity]. Qed.

Theorem PP_tex_loop ds : forall fuel efuel skip strict acc,
  wf_seq CTop ds [] = true ->
  (length (flat_list ds) < fuel)%nat -> (3 * length (flat_list ds) + 1 <= efuel)%nat ->
  read_tex_loop fuel efuel skip strict acc (flat_list ds) = Ok (acc ++ map tree ds).
Proof.
  induction ds as [|d ds IH]; intros fuel efuel skip strict acc Hwf Hfu Hef.
  - destruct fuel as [|fuel]; [simpl in Hfu; lia|]. simpl. rewrite app_nil_r. reflexivity.
  - unfold wf_seq in Hwf. rewrite seq_wf_cons in Hwf.
    apply andb_true_iff in Hwf. destruct Hwf as [Hwf H4].
    apply andb_true_iff in Hwf. destruct Hwf as [Hwf H3].
    apply andb_true_iff in Hwf. destruct Hwf as [_ H2].
    rewrite app_nil_r in H3.
    rewrite flat_list_cons in Hfu, Hef |- *. rewrite app_length in Hfu, Hef.
    pose proof (flat_length_pos d) as Hpos.
    destruct fuel as [|fuel]; [lia|].
    rewrite read_tex_loop_step.
    2:{ destruct (flat_head d) as [tl ->]. discriminate. }
    rewrite (PP_expr d skip strict MNonMath (flat_list ds) efuel H2 H3)
      by (rewrite app_length; lia).
    cbn [bind]. rewrite IH; [|exact H4|lia|lia].
    rewrite <- app_assoc. reflexivity.
Qed.

(* PP, top level: the token list of a well-formed document sequence parses
   to exactly the expected trees, in both tolerance modes and whatever the
   user's skip list *)
Theorem PP_parse_tokens ds strict user :
  wf_seq CTop ds [] = true ->
  parse_tokens (flat_list ds) strict user = Ok (ERoot (map tree ds)).
Proof.
  intro Hwf. unfold parse_tokens, fuel_for.
  rewrite (PP_tex_loop ds _ _ _ strict [] Hwf) by lia. reflexivity.
Qed.

(* ====================================================================== *)
(* print o parse o print: the expected tree prints as the tokens          *)
(* ====================================================================== *)

(* no spacer between a command and its argument groups, unpadded names *)
Fixpoint printable (d : doc) : bool :=
  match d with
  | DLeaf _ => true
  | DGroup _ b _ => forallb printable b
  | DCmd _ n args => str_eqb (strip (ttext n)) (ttext n) && forallb printable_arg args
  | DMath _ _ b _ => forallb printable b
  end
with printable_arg (a : arg) : bool :=
  match a with
  | Arg sp _ _ b _ => match sp with None => true | Some _ => false end && forallb printable b
  end.

Definition estr_d (d : doc) : Prop :=
  wf d = true -> printable d = true -> Forall tok_wf (flat d) ->
  estr (tree d) = texts (flat d).
Definition estr_a (a : arg) : Prop :=
  wf_arg a = true -> printable_arg a = true -> Forall tok_wf (flat_arg a) ->
  estr (tree_arg a) = texts (flat_arg a).

Lemma texts_cons t l : texts (t :: l) = ttext t ++ texts l.
Proof. reflexivity. Qed.
Lemma texts_one t : texts [t] = ttext t.
Proof. unfold texts. simpl. apply app_nil_r. Qed.

Lemma estr_body x b : Forall estr_d b -> forall r,
  seq_wf wf x b r = true -> forallb printable b = true -> Forall tok_wf (flat_list b) ->
  concat (map estr (map tree b)) = texts (flat_list b).
Proof.
  intros Hb r. induction Hb as [|d b Hd _ IH]; intros Hwf Hp Ht; [reflexivity|].
  rewrite seq_wf_cons in Hwf.
  apply andb_true_iff in Hwf. destruct Hwf as [Hwf H4].
  apply andb_true_iff in Hwf. destruct Hwf as [Hwf _].
  apply andb_true_iff in Hwf. destruct Hwf as [_ H2].
  cbn [forallb] in Hp. apply andb_true_iff in Hp. destruct Hp as [Hp1 Hp2].
  rewrite flat_list_cons in Ht |- *. apply Forall_app in Ht. destruct Ht as [Ht1 Ht2].
  cbn [map concat]. rewrite texts_app, (Hd H2 Hp1 Ht1), (IH H4 Hp2 Ht2). reflexivity.
Qed.

Lemma tok_wf_group_begin o k :
  tok_wf o -> group_tok_begin k = Some (tcat o) -> ttext o = group_begin k.
Proof. intros (H & _) E. apply H. exact E. Qed.
Lemma tok_wf_group_end c k :
  tok_wf c -> is_group_end k c = true -> ttext c = group_end k.
Proof. intros (_ & H & _) E. apply H. apply is_group_end_tok. exact E. Qed.
Lemma tok_wf_math_begin o k :
  tok_wf o -> math_tok_begin k = Some (tcat o) -> ttext o = math_begin k.
Proof. intros (_ & _ & H & _) E. apply H. exact E. Qed.
Lemma tok_wf_math_end c k :
  tok_wf c -> is_math_end k c = true -> ttext c = math_end k.
Proof. intros (_ & _ & _ & H & _) E. apply H. apply is_math_end_tok. exact E. Qed.
Lemma tok_wf_escape e : tok_wf e -> is_tc TEscape e = true -> ttext e = [backslash].
Proof. intros (_ & _ & _ & _ & H) E. apply H. apply is_tc_true. exact E. Qed.

Lemma estr_arg_group sp k o b c : Forall estr_d b -> estr_a (Arg sp k o b c).
Proof.
  intros Hb Hwf Hp Ht.
  destruct (wf_arg_parts _ _ _ _ _ Hwf) as (W1 & W2 & W3 & W4).
  apply opens_group_kind_spec in W2. destruct W2 as (_ & Hk & _).
  cbn [printable_arg] in Hp. apply andb_true_iff in Hp. destruct Hp as [Hsp Hp].
  destruct sp as [s|]; [discriminate Hsp|].
  rewrite flat_arg_eq in Ht |- *. cbn [opt_tok app] in Ht |- *.
  inversion Ht as [|? ? To Ht']; subst. apply Forall_app in Ht'. destruct Ht' as [Tb Tc].
  inversion Tc as [|? ? Tc' _]; subst.
  cbn [tree_arg estr]. rewrite texts_cons, texts_app, texts_one.
  rewrite (estr_body (CGroup k) b Hb [c] W4 Hp Tb).
  rewrite (tok_wf_group_begin o k To Hk), (tok_wf_group_end c k Tc' W3).
  reflexivity.
Qed.

Theorem estr_tree_all : forall d, estr_d d.
Proof.
  apply (doc_ind' estr_d estr_a).
  - intros t _ _ _. cbn [tree estr flat]. rewrite texts_one. reflexivity.
  - intros o b c Hb Hwf Hp Ht.
    assert (Wa : wf_arg (Arg None GBrace o b c) = true).
    { rewrite wf_group in Hwf. rewrite wf_arg_eq.
      apply andb_true_iff in Hwf. destruct Hwf as [Hwf H3].
      apply andb_true_iff in Hwf. destruct Hwf as [H1 H2].
      rewrite H2, H3. unfold opens_group_kind.
      replace (group_tok_begin GBrace) with (Some TGroupBegin) by (vm_compute; reflexivity).
      rewrite H1. reflexivity. }
    exact (estr_arg_group None GBrace o b c Hb Wa Hp Ht).
  - intros e n args Hargs Hwf Hp Ht. rewrite wf_cmd in Hwf.
    apply andb_true_iff in Hwf. destruct Hwf as [Hwf H4].
    apply andb_true_iff in Hwf. destruct Hwf as [Hwf _].
    apply andb_true_iff in Hwf. destruct Hwf as [H1 _].
    cbn [printable] in Hp. apply andb_true_iff in Hp. destruct Hp as [Hn Hp].
    apply str_eqb_eq in Hn.
    rewrite flat_cmd in Ht |- *.
    inversion Ht as [|? ? Te Ht']; subst. inversion Ht' as [|? ? _ Ta]; subst.
    cbn [tree estr]. rewrite !texts_cons, (tok_wf_escape e Te H1), Hn.
    cbn [app]. f_equal. f_equal. rewrite app_nil_r.
    clear - Hargs H4 Hp Ta.
    induction Hargs as [|a args Ha _ IH]; [reflexivity|].
    cbn [forallb] in H4, Hp.
    apply andb_true_iff in H4. destruct H4 as [W1 W2].
    apply andb_true_iff in Hp. destruct Hp as [P1 P2].
    rewrite flat_args_cons in Ta |- *. apply Forall_app in Ta. destruct Ta as [T1 T2].
    cbn [map concat]. rewrite texts_app, (Ha W1 P1 T1), (IH W2 P2 T2). reflexivity.
  - intros k o b c Hb Hwf Hp Ht. rewrite wf_math in Hwf.
    apply andb_true_iff in Hwf. destruct Hwf as [Hwf H3].
    apply andb_true_iff in Hwf. destruct Hwf as [H1 H2].
    apply opens_math_kind_spec in H1. destruct H1 as [_ Hk].
    cbn [printable] in Hp.
    rewrite flat_math in Ht |- *.
    inversion Ht as [|? ? To Ht']; subst. apply Forall_app in Ht'. destruct Ht' as [Tb Tc].
    inversion Tc as [|? ? Tc' _]; subst.
    cbn [tree estr]. rewrite texts_cons, texts_app, texts_one.
    rewrite (estr_body (CMath k) b Hb [c] H3 Hp Tb).
    rewrite (tok_wf_math_begin o k To Hk), (tok_wf_math_end c k Tc' H2).
    reflexivity.
  - intros sp k o b c Hb. apply estr_arg_group. exact Hb.
Qed.

Theorem estr_tree d :
  wf d = true -> printable d = true -> Forall tok_wf (flat d) ->
  estr (tree d) = texts (flat d).
Proof. apply estr_tree_all. Qed.

Theorem estr_tree_list x ds r :
  wf_seq x ds r = true -> forallb printable ds = true -> Forall tok_wf (flat_list ds) ->
  estr (ERoot (map tree ds)) = texts (flat_list ds).
Proof.
  intros Hwf Hp Ht. cbn [estr].
  assert (Hb : Forall estr_d ds) by (apply Forall_forall; intros d _; apply estr_tree_all).
  exact (estr_body x ds Hb r Hwf Hp Ht).
Qed.

(* print o parse o print *)
Theorem PP_print_parse_print ds strict user :
  wf_seq CTop ds [] = true -> forallb printable ds = true -> Forall tok_wf (flat_list ds) ->
  exists t, parse_tokens (flat_list ds) strict user = Ok t /\ estr t = texts (flat_list ds).
Proof.
  intros Hwf Hp Ht. exists (ERoot (map tree ds)). split.
  - apply PP_parse_tokens. exact Hwf.
  - eapply estr_tree_list; eassumption.
Qed.

(* ====================================================================== *)
(* Non-vacuity: concrete documents built from real tokenizer output       *)
(* ====================================================================== *)

Definition tok0 : token := mkt [] 0%Z TText.

(* \a[x]{y \b{z}} {g $m_1$} t *)
Definition ex1_src : str :=
  [92;97;91;120;93;123;121;32;92;98;123;122;125;125;32;123;103;32;36;109;95;49;36;125;32;116]%N.
Definition ex1_toks : list token := fst (tokens_of_string ex1_src).
Definition ex1_doc : list doc :=
  let t i := nth i ex1_toks tok0 in
  [ DCmd (t 0%nat) (t 1%nat)
      [ Arg None GBracket (t 2%nat) [DLeaf (t 3%nat)] (t 4%nat);
        Arg None GBrace (t 5%nat)
            [ DLeaf (t 6%nat);
              DCmd (t 7%nat) (t 8%nat)
                   [Arg None GBrace (t 9%nat) [DLeaf (t 10%nat)] (t 11%nat)] ]
            (t 12%nat);
        Arg (Some (t 13%nat)) GBrace (t 14%nat)
            [ DLeaf (t 15%nat);
              DMath MInline (t 16%nat) [DLeaf (t 17%nat)] (t 18%nat) ]
            (t 19%nat) ];
    DLeaf (t 20%nat) ].

(* {a {b $c$}} \d[e]{f}g   -- printable: no spacer before an argument *)
Definition ex2_src : str :=
  [123;97;32;123;98;32;36;99;36;125;125;32;92;100;91;101;93;123;102;125;103]%N.
Definition ex2_toks : list token := fst (tokens_of_string ex2_src).
Definition ex2_doc : list doc :=
  let t i := nth i ex2_toks tok0 in
  [ DGroup (t 0%nat)
      [ DLeaf (t 1%nat);
        DGroup (t 2%nat)
          [ DLeaf (t 3%nat); DMath MInline (t 4%nat) [DLeaf (t 5%nat)] (t 6%nat) ]
          (t 7%nat) ]
      (t 8%nat);
    DLeaf (t 9%nat);
    DCmd (t 10%nat) (t 11%nat)
      [ Arg None GBracket (t 12%nat) [DLeaf (t 13%nat)] (t 14%nat);
        Arg None GBrace (t 15%nat) [DLeaf (t 16%nat)] (t 17%nat) ];
    DLeaf (t 18%nat) ].

(* boolean form of tok_wf on the delimiters, for the examples *)
Definition tok_wfb (t : token) : bool :=
  forallb (fun k => match group_tok_begin k with
                    | Some b => negb (tc_beq b (tcat t)) || str_eqb (ttext t) (group_begin k)
                    | None => true end) [GBrace; GBracket] &&
  forallb (fun k => match group_tok_end k with
                    | Some b => negb (tc_beq b (tcat t)) || str_eqb (ttext t) (group_end k)
                    | None => true end) [GBrace; GBracket] &&
  forallb (fun k => match math_tok_begin k with
                    | Some b => negb (tc_beq b (tcat t)) || str_eqb (ttext t) (math_begin k)
                    | None => true end) [MInline; MDisplay; MParen; MBracket] &&
  forallb (fun k => match math_tok_end k with
                    | Some b => negb (tc_beq b (tcat t)) || str_eqb (ttext t) (math_end k)
                    | None => true end) [MInline; MDisplay; MParen; MBracket] &&
  (negb (tc_beq (tcat t) TEscape) || str_eqb (ttext t) [backslash]).

Lemma tok_wfb_sound t : tok_wfb t = true -> tok_wf t.
Proof.
  unfold tok_wfb. intro H.
  apply andb_true_iff in H. destruct H as [H H5].
  apply andb_true_iff in H. destruct H as [H H4].
  apply andb_true_iff in H. destruct H as [H H3].
  apply andb_true_iff in H. destruct H as [H1 H2].
  rewrite forallb_forall in H1, H2, H3, H4.
  assert (Hor : forall (a : tc) s s', negb (tc_beq a (tcat t)) || str_eqb s s' = true ->
                                      a = tcat t -> s = s').
  { intros a s s' Ho E. apply orb_true_iff in Ho. destruct Ho as [Ho|Ho].
    - apply negb_true_iff in Ho. subst a.
      assert (X : tc_beq (tcat t) (tcat t) = true) by (apply tc_eqb_eq; reflexivity).
      congruence.
    - apply str_eqb_eq. exact Ho. }
  repeat split.
  - intros k E. assert (I : In k [GBrace; GBracket]) by (destruct k; simpl; auto).
    specialize (H1 k I). rewrite E in H1. apply (Hor _ _ _ H1 eq_refl).
  - intros k E. assert (I : In k [GBrace; GBracket]) by (destruct k; simpl; auto).
    specialize (H2 k I). rewrite E in H2. apply (Hor _ _ _ H2 eq_refl).
  - intros k E. assert (I : In k [MInline; MDisplay; MParen; MBracket])
      by (destruct k; simpl; auto).
    specialize (H3 k I). rewrite E in H3. apply (Hor _ _ _ H3 eq_refl).
  - intros k E. assert (I : In k [MInline; MDisplay; MParen; MBracket])
      by (destruct k; simpl; auto).
    specialize (H4 k I). rewrite E in H4. apply (Hor _ _ _ H4 eq_refl).
  - intro E. apply orb_true_iff in H5. destruct H5 as [H5|H5].
    + apply negb_true_iff in H5. rewrite E in H5. discriminate H5.
    + apply str_eqb_eq. exact H5.
Qed.

Lemma tok_wfb_all l : forallb tok_wfb l = true -> Forall tok_wf l.
Proof.
  intro H. rewrite forallb_forall in H. apply Forall_forall. intros t Ht.
  apply tok_wfb_sound. apply H. exact Ht.
Qed.

Example ex1_is_tokenizer_output :
  flat_list ex1_doc = fst (tokens_of_string ex1_src) /\ snd (tokens_of_string ex1_src) = TEnd.
Proof. split; vm_compute; reflexivity. Qed.
Example ex1_wf : wf_seq CTop ex1_doc [] = true.
Proof. vm_compute. reflexivity. Qed.
Example ex2_is_tokenizer_output :
  flat_list ex2_doc = fst (tokens_of_string ex2_src) /\ snd (tokens_of_string ex2_src) = TEnd.
Proof. split; vm_compute; reflexivity. Qed.
Example ex2_wf :
  wf_seq CTop ex2_doc [] = true /\ forallb printable ex2_doc = true /\
  forallb tok_wfb (flat_list ex2_doc) = true.
Proof. repeat split; vm_compute; reflexivity. Qed.

(* the hypotheses of PP_expr / PP_seq_group / PP_seq_math on pieces of ex1 *)
Example ex_PP_expr_hyps :
  match ex1_doc with
  | d :: ds => wf d = true /\ follows_ok d (flat_list ds) = true
  | [] => False
  end.
Proof. split; vm_compute; reflexivity. Qed.
Example ex_PP_seq_group_hyps :
  let t i := nth i ex1_toks tok0 in
  wf_seq (CGroup GBrace)
         [DLeaf (t 6%nat); DCmd (t 7%nat) (t 8%nat)
                                [Arg None GBrace (t 9%nat) [DLeaf (t 10%nat)] (t 11%nat)]]
         (t 12%nat :: skipn 13 ex1_toks) = true /\
  is_group_end GBrace (t 12%nat) = true.
Proof. split; vm_compute; reflexivity. Qed.
Example ex_PP_seq_math_hyps :
  let t i := nth i ex1_toks tok0 in
  wf_seq (CMath MInline) [DLeaf (t 17%nat)] (t 18%nat :: skipn 19 ex1_toks) = true /\
  is_math_end MInline (t 18%nat) = true.
Proof. split; vm_compute; reflexivity. Qed.

(* the conditions are forced: dropping the follow condition makes the
   statement false.  `\a{x}` read as "command without arguments, then a brace
   group": the reader attaches the group.  `\a{x}[y]` read as "command with
   one brace argument, then three text leaves": the second pass attaches the
   bracket group. *)
Definition bad1_src : str := [92;97;123;120;125]%N.                 (* \a{x} *)
Definition bad1_doc : list doc :=
  let t i := nth i (fst (tokens_of_string bad1_src)) tok0 in
  [ DCmd (t 0%nat) (t 1%nat) []; DGroup (t 2%nat) [DLeaf (t 3%nat)] (t 4%nat) ].
Definition bad2_src : str := [92;97;123;120;125;91;121;93]%N.       (* \a{x}[y] *)
Definition bad2_doc : list doc :=
  let t i := nth i (fst (tokens_of_string bad2_src)) tok0 in
  [ DCmd (t 0%nat) (t 1%nat) [Arg None GBrace (t 2%nat) [DLeaf (t 3%nat)] (t 4%nat)];
    DLeaf (t 5%nat); DLeaf (t 6%nat); DLeaf (t 7%nat) ].

Theorem PP_without_follow_refuted :
  exists ds, forallb wf ds = true /\
             parse_tokens (flat_list ds) true [] <> Ok (ERoot (map tree ds)).
Proof. exists bad1_doc. split; [vm_compute; reflexivity | vm_compute; discriminate]. Qed.

(* the brace loop did stop after `{x}` (the next token is not `{`), and still
   the expected tree is not what is read: the follow condition must also
   exclude a `[` directly after the last brace argument *)
Theorem PP_first_pass_follow_only_refuted :
  exists e n args ds,
    wf (DCmd e n args) = true /\ forallb wf ds = true /\
    existsb is_brace_arg args = true /\ stopsb TGroupBegin (flat_list ds) = true /\
    parse_tokens (flat_list (DCmd e n args :: ds)) true []
    <> Ok (ERoot (map tree (DCmd e n args :: ds))).
Proof.
  pose (t i := nth i (fst (tokens_of_string bad2_src)) tok0).
  exists (t 0%nat), (t 1%nat), [Arg None GBrace (t 2%nat) [DLeaf (t 3%nat)] (t 4%nat)],
         [DLeaf (t 5%nat); DLeaf (t 6%nat); DLeaf (t 7%nat)].
  repeat split; try (vm_compute; reflexivity). vm_compute. discriminate.
Qed.
