(* PP: reader completeness ("parse o print = id", DESIGN.md section 5) at
   TOKEN level for a sub-grammar.

   Stage 0  fuel monotonicity of all ten reader functions (`mono_all_holds`),
            `enough_fuel_*`, fuel independence above 3*|toks|+c.
   Stage 1  a token-level document grammar `doc` with its token flattening
            `flat` and its expected tree `tree`, and the boolean
            well-formedness predicate `wf` / `seq_wf`.
   Stage 2  PP for single documents (`PP_expr`), for bodies of groups and
            math regions (`PP_seq_group`, `PP_seq_math`) and for whole token
            lists (`PP_parse_tokens`, both tolerance modes). *)
From Coq Require Import List NArith ZArith Bool Lia Arith.
From TexModel Require Import Base Tables Chars Tokenizer Tree Reader.
From TexProofs Require Import ReaderLen ReaderTotal ReaderCons AttachProofs.
Import ListNotations.

(* ====================================================================== *)
(* Stage 0: fuel monotonicity                                             *)
(* ====================================================================== *)

(* r' refines r: r ran out of fuel, or they agree *)
Definition ref {A} (r r' : res A) : Prop := r = Err OutOfFuel \/ r = r'.

Lemma ref_refl {A} (r : res A) : ref r r.
Proof. right. reflexivity. Qed.

Lemma ref_bind {A B} (r r' : res A) (k k' : A -> res B) :
  ref r r' -> (forall a, ref (k a) (k' a)) -> ref (bind r k) (bind r' k').
Proof.
  intros [-> | ->] H; [left; reflexivity|].
  destruct r' as [a|e]; simpl; [apply H | right; reflexivity].
Qed.

Lemma ref_eq {A} (r r' : res A) : ref r r' -> r <> Err OutOfFuel -> r' = r.
Proof. intros [H | H] Hn; [contradiction | symmetry; exact H]. Qed.

Definition mono_expr f := forall f' skip strict m toks, (f <= f')%nat ->
  ref (read_expr f skip strict m toks) (read_expr f' skip strict m toks).
Definition mono_item f := forall f' acc toks, (f <= f')%nat ->
  ref (read_item_loop f acc toks) (read_item_loop f' acc toks).
Definition mono_math f := forall f' k pos strict acc toks, (f <= f')%nat ->
  ref (read_math_loop f k pos strict acc toks) (read_math_loop f' k pos strict acc toks).
Definition mono_env f := forall f' name args pos skip strict m acc toks, (f <= f')%nat ->
  ref (read_env_loop f name args pos skip strict m acc toks)
      (read_env_loop f' name args pos skip strict m acc toks).
Definition mono_command f := forall f' nreq nopt sk strict m toks, (f <= f')%nat ->
  ref (read_command f nreq nopt sk strict m toks) (read_command f' nreq nopt sk strict m toks).
Definition mono_args f := forall f' nreq nopt strict m toks, (f <= f')%nat ->
  ref (read_args f nreq nopt strict m toks) (read_args f' nreq nopt strict m toks).
Definition mono_opt f := forall f' args nopt strict m toks, (f <= f')%nat ->
  ref (read_arg_optional f args nopt strict m toks) (read_arg_optional f' args nopt strict m toks).
Definition mono_req f := forall f' args nreq strict m toks, (f <= f')%nat ->
  ref (read_arg_required f args nreq strict m toks) (read_arg_required f' args nreq strict m toks).
Definition mono_arg f := forall f' c strict m toks, (f <= f')%nat ->
  ref (read_arg f c strict m toks) (read_arg f' c strict m toks).
Definition mono_argloop f := forall f' k pos strict m acc toks, (f <= f')%nat ->
  ref (read_arg_loop f k pos strict m acc toks) (read_arg_loop f' k pos strict m acc toks).

Definition mono_all f :=
  mono_expr f /\ mono_item f /\ mono_math f /\ mono_env f /\ mono_command f /\ mono_args f /\
  mono_opt f /\ mono_req f /\ mono_arg f /\ mono_argloop f.

(* one step on a goal  ref <reader body at f> <same body at f'> *)
Ltac mstep :=
  match goal with
  | |- ref ?x ?x => apply ref_refl
  | |- ref (bind _ _) (bind _ _) => apply ref_bind; [ | let a := fresh "a" in intros a ]
  | IH : mono_expr ?f |- ref (read_expr ?f _ _ _ _) _ => apply IH; assumption
  | IH : mono_item ?f |- ref (read_item_loop ?f _ _) _ => apply IH; assumption
  | IH : mono_math ?f |- ref (read_math_loop ?f _ _ _ _ _) _ => apply IH; assumption
  | IH : mono_env ?f |- ref (read_env_loop ?f _ _ _ _ _ _ _ _) _ => apply IH; assumption
  | IH : mono_command ?f |- ref (read_command ?f _ _ _ _ _ _) _ => apply IH; assumption
  | IH : mono_args ?f |- ref (read_args ?f _ _ _ _ _) _ => apply IH; assumption
  | IH : mono_opt ?f |- ref (read_arg_optional ?f _ _ _ _ _) _ => apply IH; assumption
  | IH : mono_req ?f |- ref (read_arg_required ?f _ _ _ _ _) _ => apply IH; assumption
  | IH : mono_arg ?f |- ref (read_arg ?f _ _ _ _) _ => apply IH; assumption
  | IH : mono_argloop ?f |- ref (read_arg_loop ?f _ _ _ _ _ _) _ => apply IH; assumption
  | |- ref (match ?x with _ => _ end) _ => destruct_innermost x
  end.

Lemma mono_all_holds : forall f, mono_all f.
Proof.
  induction f as [|f IH].
  { unfold mono_all, mono_expr, mono_item, mono_math, mono_env, mono_command, mono_args,
      mono_opt, mono_req, mono_arg, mono_argloop.
    repeat match goal with |- _ /\ _ => split end; intros; left; reflexivity. }
  destruct IH as (Me & Mi & Mm & Mv & Mc & Ma & Mo & Mr & Mg & Ml).
  unfold mono_all.
  repeat match goal with |- _ /\ _ => split end;
    [unfold mono_expr | unfold mono_item | unfold mono_math | unfold mono_env
     | unfold mono_command | unfold mono_args | unfold mono_opt | unfold mono_req
     | unfold mono_arg | unfold mono_argloop].
  - intros f' skip strict m toks Hle. destruct f' as [|f']; [lia|]. apply le_S_n in Hle.
    simpl. repeat mstep.
  - intros f' acc toks Hle. destruct f' as [|f']; [lia|]. apply le_S_n in Hle.
    simpl. repeat mstep.
  - intros f' k pos strict acc toks Hle. destruct f' as [|f']; [lia|]. apply le_S_n in Hle.
    simpl. repeat mstep.
  - intros f' name args pos skip strict m acc toks Hle. destruct f' as [|f']; [lia|].
    apply le_S_n in Hle. simpl. repeat mstep.
  - intros f' nreq nopt sk strict m toks Hle. destruct f' as [|f']; [lia|]. apply le_S_n in Hle.
    simpl. repeat mstep.
  - intros f' nreq nopt strict m toks Hle. destruct f' as [|f']; [lia|]. apply le_S_n in Hle.
    simpl. repeat mstep.
  - intros f' args nopt strict m toks Hle. destruct f' as [|f']; [lia|]. apply le_S_n in Hle.
    simpl. repeat mstep.
  - intros f' args nreq strict m toks Hle. destruct f' as [|f']; [lia|]. apply le_S_n in Hle.
    simpl. repeat mstep.
  - intros f' c strict m toks Hle. destruct f' as [|f']; [lia|]. apply le_S_n in Hle.
    simpl. repeat mstep.
  - intros f' k pos strict m acc toks Hle. destruct f' as [|f']; [lia|]. apply le_S_n in Hle.
    simpl. repeat mstep.
Qed.

Lemma mono_expr_holds f : mono_expr f.
Proof. destruct (mono_all_holds f) as (M & _); exact M. Qed.
Lemma mono_item_holds f : mono_item f.
Proof. destruct (mono_all_holds f) as (_ & M & _); exact M. Qed.
Lemma mono_math_holds f : mono_math f.
Proof. destruct (mono_all_holds f) as (_ & _ & M & _); exact M. Qed.
Lemma mono_env_holds f : mono_env f.
Proof. destruct (mono_all_holds f) as (_ & _ & _ & M & _); exact M. Qed.
Lemma mono_command_holds f : mono_command f.
Proof. destruct (mono_all_holds f) as (_ & _ & _ & _ & M & _); exact M. Qed.
Lemma mono_args_holds f : mono_args f.
Proof. destruct (mono_all_holds f) as (_ & _ & _ & _ & _ & M & _); exact M. Qed.
Lemma mono_opt_holds f : mono_opt f.
Proof. destruct (mono_all_holds f) as (_ & _ & _ & _ & _ & _ & M & _); exact M. Qed.
Lemma mono_req_holds f : mono_req f.
Proof. destruct (mono_all_holds f) as (_ & _ & _ & _ & _ & _ & _ & M & _); exact M. Qed.
Lemma mono_arg_holds f : mono_arg f.
Proof. destruct (mono_all_holds f) as (_ & _ & _ & _ & _ & _ & _ & _ & M & _); exact M. Qed.
Lemma mono_argloop_holds f : mono_argloop f.
Proof. destruct (mono_all_holds f) as (_ & _ & _ & _ & _ & _ & _ & _ & _ & M); exact M. Qed.

(* enough_fuel: a result other than OutOfFuel obtained with fuel f is the
   result with every fuel f' >= f (in particular with S f) *)
Ltac enough_fuel_tac M :=
  intros H Hn Hle; subst; apply ref_eq; [apply M; exact Hle | exact Hn].

Theorem enough_fuel_expr f f' skip strict m toks r :
  read_expr f skip strict m toks = r -> r <> Err OutOfFuel -> (f <= f')%nat ->
  read_expr f' skip strict m toks = r.
Proof. enough_fuel_tac (mono_expr_holds f). Qed.
Theorem enough_fuel_item f f' acc toks r :
  read_item_loop f acc toks = r -> r <> Err OutOfFuel -> (f <= f')%nat ->
  read_item_loop f' acc toks = r.
Proof. enough_fuel_tac (mono_item_holds f). Qed.
Theorem enough_fuel_math f f' k pos strict acc toks r :
  read_math_loop f k pos strict acc toks = r -> r <> Err OutOfFuel -> (f <= f')%nat ->
  read_math_loop f' k pos strict acc toks = r.
Proof. enough_fuel_tac (mono_math_holds f). Qed.
Theorem enough_fuel_env f f' name args pos skip strict m acc toks r :
  read_env_loop f name args pos skip strict m acc toks = r -> r <> Err OutOfFuel ->
  (f <= f')%nat -> read_env_loop f' name args pos skip strict m acc toks = r.
Proof. enough_fuel_tac (mono_env_holds f). Qed.
Theorem enough_fuel_command f f' nreq nopt sk strict m toks r :
  read_command f nreq nopt sk strict m toks = r -> r <> Err OutOfFuel -> (f <= f')%nat ->
  read_command f' nreq nopt sk strict m toks = r.
Proof. enough_fuel_tac (mono_command_holds f). Qed.
Theorem enough_fuel_args f f' nreq nopt strict m toks r :
  read_args f nreq nopt strict m toks = r -> r <> Err OutOfFuel -> (f <= f')%nat ->
  read_args f' nreq nopt strict m toks = r.
Proof. enough_fuel_tac (mono_args_holds f). Qed.
Theorem enough_fuel_opt f f' args nopt strict m toks r :
  read_arg_optional f args nopt strict m toks = r -> r <> Err OutOfFuel -> (f <= f')%nat ->
  read_arg_optional f' args nopt strict m toks = r.
Proof. enough_fuel_tac (mono_opt_holds f). Qed.
Theorem enough_fuel_req f f' args nreq strict m toks r :
  read_arg_required f args nreq strict m toks = r -> r <> Err OutOfFuel -> (f <= f')%nat ->
  read_arg_required f' args nreq strict m toks = r.
Proof. enough_fuel_tac (mono_req_holds f). Qed.
Theorem enough_fuel_arg f f' c strict m toks r :
  read_arg f c strict m toks = r -> r <> Err OutOfFuel -> (f <= f')%nat ->
  read_arg f' c strict m toks = r.
Proof. enough_fuel_tac (mono_arg_holds f). Qed.
Theorem enough_fuel_argloop f f' k pos strict m acc toks r :
  read_arg_loop f k pos strict m acc toks = r -> r <> Err OutOfFuel -> (f <= f')%nat ->
  read_arg_loop f' k pos strict m acc toks = r.
Proof. enough_fuel_tac (mono_argloop_holds f). Qed.

(* the literal one-step form, all ten functions at once *)
Theorem fuel_mono_S f :
  (forall skip strict m toks r, read_expr f skip strict m toks = r -> r <> Err OutOfFuel ->
     read_expr (S f) skip strict m toks = r) /\
  (forall acc toks r, read_item_loop f acc toks = r -> r <> Err OutOfFuel ->
     read_item_loop (S f) acc toks = r) /\
  (forall k pos strict acc toks r, read_math_loop f k pos strict acc toks = r ->
     r <> Err OutOfFuel -> read_math_loop (S f) k pos strict acc toks = r) /\
  (forall name args pos skip strict m acc toks r,
     read_env_loop f name args pos skip strict m acc toks = r -> r <> Err OutOfFuel ->
     read_env_loop (S f) name args pos skip strict m acc toks = r) /\
  (forall nreq nopt sk strict m toks r, read_command f nreq nopt sk strict m toks = r ->
     r <> Err OutOfFuel -> read_command (S f) nreq nopt sk strict m toks = r) /\
  (forall nreq nopt strict m toks r, read_args f nreq nopt strict m toks = r ->
     r <> Err OutOfFuel -> read_args (S f) nreq nopt strict m toks = r) /\
  (forall args nopt strict m toks r, read_arg_optional f args nopt strict m toks = r ->
     r <> Err OutOfFuel -> read_arg_optional (S f) args nopt strict m toks = r) /\
  (forall args nreq strict m toks r, read_arg_required f args nreq strict m toks = r ->
     r <> Err OutOfFuel -> read_arg_required (S f) args nreq strict m toks = r) /\
  (forall c strict m toks r, read_arg f c strict m toks = r -> r <> Err OutOfFuel ->
     read_arg (S f) c strict m toks = r) /\
  (forall k pos strict m acc toks r, read_arg_loop f k pos strict m acc toks = r ->
     r <> Err OutOfFuel -> read_arg_loop (S f) k pos strict m acc toks = r).
Proof.
  repeat match goal with |- _ /\ _ => split end; intros.
  - eapply enough_fuel_expr; eauto.
  - eapply enough_fuel_item; eauto.
  - eapply enough_fuel_math; eauto.
  - eapply enough_fuel_env; eauto.
  - eapply enough_fuel_command; eauto.
  - eapply enough_fuel_args; eauto.
  - eapply enough_fuel_opt; eauto.
  - eapply enough_fuel_req; eauto.
  - eapply enough_fuel_arg; eauto.
  - eapply enough_fuel_argloop; eauto.
Qed.

Lemma diag_not_oof {A} (r : res A) : diag r -> r <> Err OutOfFuel.
Proof. intros H E. subst r. exact H. Qed.

Lemma ref_indep {A} (F : nat -> res A) f1 f2 :
  (forall f f', (f <= f')%nat -> ref (F f) (F f')) ->
  F f1 <> Err OutOfFuel -> F f2 <> Err OutOfFuel -> F f1 = F f2.
Proof.
  intros M H1 H2.
  pose proof (ref_eq _ _ (M f1 (Nat.max f1 f2) (Nat.le_max_l _ _)) H1) as E1.
  pose proof (ref_eq _ _ (M f2 (Nat.max f1 f2) (Nat.le_max_r _ _)) H2) as E2.
  congruence.
Qed.

(* with TOT: above 3*|toks|+3 the result does not depend on the fuel *)
Theorem fuel_independent_expr f1 f2 skip strict m toks :
  (3 * length toks + 3 <= f1)%nat -> (3 * length toks + 3 <= f2)%nat ->
  read_expr f1 skip strict m toks = read_expr f2 skip strict m toks.
Proof.
  intros H1 H2. destruct toks as [|t ts].
  { destruct f1 as [|f1]; [simpl in H1; lia|]. destruct f2 as [|f2]; [simpl in H2; lia|].
    reflexivity. }
  apply (ref_indep (fun f => read_expr f skip strict m (t :: ts))).
  - intros f f' Hle. apply mono_expr_holds. exact Hle.
  - apply diag_not_oof. apply (tot_all_holds f1); [discriminate | lia].
  - apply diag_not_oof. apply (tot_all_holds f2); [discriminate | lia].
Qed.

Theorem fuel_independent_math f1 f2 k pos strict acc toks :
  (3 * length toks + 3 <= f1)%nat -> (3 * length toks + 3 <= f2)%nat ->
  read_math_loop f1 k pos strict acc toks = read_math_loop f2 k pos strict acc toks.
Proof.
  intros H1 H2. apply (ref_indep (fun f => read_math_loop f k pos strict acc toks)).
  - intros f f' Hle. apply mono_math_holds. exact Hle.
  - apply diag_not_oof. apply (tot_all_holds f1). lia.
  - apply diag_not_oof. apply (tot_all_holds f2). lia.
Qed.

Theorem fuel_independent_argloop f1 f2 k pos strict m acc toks :
  (3 * length toks + 3 <= f1)%nat -> (3 * length toks + 3 <= f2)%nat ->
  read_arg_loop f1 k pos strict m acc toks = read_arg_loop f2 k pos strict m acc toks.
Proof.
  intros H1 H2. apply (ref_indep (fun f => read_arg_loop f k pos strict m acc toks)).
  - intros f f' Hle. apply mono_argloop_holds. exact Hle.
  - apply diag_not_oof. apply (tot_all_holds f1). lia.
  - apply diag_not_oof. apply (tot_all_holds f2). lia.
Qed.

Theorem fuel_independent_env f1 f2 name args pos skip strict m acc toks :
  (3 * length toks + 3 <= f1)%nat -> (3 * length toks + 3 <= f2)%nat ->
  read_env_loop f1 name args pos skip strict m acc toks =
  read_env_loop f2 name args pos skip strict m acc toks.
Proof.
  intros H1 H2.
  apply (ref_indep (fun f => read_env_loop f name args pos skip strict m acc toks)).
  - intros f f' Hle. apply mono_env_holds. exact Hle.
  - apply diag_not_oof. apply (tot_all_holds f1). lia.
  - apply diag_not_oof. apply (tot_all_holds f2). lia.
Qed.

Theorem fuel_independent_item f1 f2 acc toks :
  (3 * length toks + 3 <= f1)%nat -> (3 * length toks + 3 <= f2)%nat ->
  read_item_loop f1 acc toks = read_item_loop f2 acc toks.
Proof.
  intros H1 H2. apply (ref_indep (fun f => read_item_loop f acc toks)).
  - intros f f' Hle. apply mono_item_holds. exact Hle.
  - apply diag_not_oof. apply (tot_all_holds f1). lia.
  - apply diag_not_oof. apply (tot_all_holds f2). lia.
Qed.

Theorem fuel_independent_args f1 f2 nreq nopt strict m toks :
  (3 * length toks + 3 <= f1)%nat -> (3 * length toks + 3 <= f2)%nat ->
  read_args f1 nreq nopt strict m toks = read_args f2 nreq nopt strict m toks.
Proof.
  intros H1 H2. apply (ref_indep (fun f => read_args f nreq nopt strict m toks)).
  - intros f f' Hle. apply mono_args_holds. exact Hle.
  - apply diag_not_oof. apply (tot_all_holds f1). lia.
  - apply diag_not_oof. apply (tot_all_holds f2). lia.
Qed.

(* the form used below: a successful run at SOME fuel is the run at every
   fuel that TOT declares sufficient *)
Lemma fuel_any_expr f f' skip strict m toks r :
  read_expr f skip strict m toks = Ok r -> (3 * length toks + 1 <= f')%nat ->
  read_expr f' skip strict m toks = Ok r.
Proof.
  intros H Hf.
  assert (Hne : toks <> []). { intro E. subst toks. destruct f; discriminate H. }
  rewrite <- H. symmetry.
  apply (ref_indep (fun f => read_expr f skip strict m toks)).
  - intros g g' Hle. apply mono_expr_holds. exact Hle.
  - rewrite H. discriminate.
  - apply diag_not_oof. apply (tot_all_holds f'); [exact Hne | exact Hf].
Qed.

Lemma fuel_any_math f f' k pos strict acc toks r :
  read_math_loop f k pos strict acc toks = Ok r -> (3 * length toks + 2 <= f')%nat ->
  read_math_loop f' k pos strict acc toks = Ok r.
Proof.
  intros H Hf. rewrite <- H. symmetry.
  apply (ref_indep (fun f => read_math_loop f k pos strict acc toks)).
  - intros g g' Hle. apply mono_math_holds. exact Hle.
  - rewrite H. discriminate.
  - apply diag_not_oof. apply (tot_all_holds f'). exact Hf.
Qed.

Lemma fuel_any_argloop f f' k pos strict m acc toks r :
  read_arg_loop f k pos strict m acc toks = Ok r -> (3 * length toks + 2 <= f')%nat ->
  read_arg_loop f' k pos strict m acc toks = Ok r.
Proof.
  intros H Hf. rewrite <- H. symmetry.
  apply (ref_indep (fun f => read_arg_loop f k pos strict m acc toks)).
  - intros g g' Hle. apply mono_argloop_holds. exact Hle.
  - rewrite H. discriminate.
  - apply diag_not_oof. apply (tot_all_holds f'). exact Hf.
Qed.

(* ====================================================================== *)
(* Stage 1: the token-level document grammar                              *)
(* ====================================================================== *)

(* A document element is written down as the tokens it consists of, with the
   structure made explicit.  An argument group carries the MergedSpacer token
   that may precede it, its kind, its two delimiter tokens and its body.
   An environment is  \ begin <name group> body \ end <name group>.
   An item is  \ item <argument groups> body,  the body extending up to the
   next \item, an \end, a closing brace or the end of the input. *)
Inductive doc :=
| DLeaf (t : token)
| DGroup (o : token) (body : list doc) (c : token)
| DCmd (e n : token) (args : list arg)
| DMath (k : mathkind) (o : token) (body : list doc) (c : token)
| DEnv (e b : token) (ng : arg) (body : list doc) (e2 en : token) (ng2 : arg)
| DItem (e n : token) (args : list arg) (body : list doc)
with arg :=
| Arg (sp : option token) (k : groupkind) (o : token) (body : list doc) (c : token).

Section doc_ind'.
  Variable P : doc -> Prop.
  Variable Q : arg -> Prop.
  Hypothesis HLeaf : forall t, P (DLeaf t).
  Hypothesis HGroup : forall o b c, Forall P b -> P (DGroup o b c).
  Hypothesis HCmd : forall e n args, Forall Q args -> P (DCmd e n args).
  Hypothesis HMath : forall k o b c, Forall P b -> P (DMath k o b c).
  Hypothesis HEnv : forall e b ng body e2 en ng2,
      Q ng -> Forall P body -> Q ng2 -> P (DEnv e b ng body e2 en ng2).
  Hypothesis HItem : forall e n args body,
      Forall Q args -> Forall P body -> P (DItem e n args body).
  Hypothesis HArg : forall sp k o b c, Forall P b -> Q (Arg sp k o b c).

  Fixpoint doc_ind' (d : doc) : P d :=
    let fix go (l : list doc) : Forall P l :=
        match l with
        | [] => Forall_nil P
        | x :: l' => Forall_cons x (doc_ind' x) (go l')
        end in
    let fix goa (l : list arg) : Forall Q l :=
        match l with
        | [] => Forall_nil Q
        | x :: l' => Forall_cons x (arg_ind' x) (goa l')
        end in
    match d with
    | DLeaf t => HLeaf t
    | DGroup o b c => HGroup o b c (go b)
    | DCmd e n args => HCmd e n args (goa args)
    | DMath k o b c => HMath k o b c (go b)
    | DEnv e b ng body e2 en ng2 =>
      HEnv e b ng body e2 en ng2 (arg_ind' ng) (go body) (arg_ind' ng2)
    | DItem e n args body => HItem e n args body (goa args) (go body)
    end
  with arg_ind' (a : arg) : Q a :=
    let fix go (l : list doc) : Forall P l :=
        match l with
        | [] => Forall_nil P
        | x :: l' => Forall_cons x (doc_ind' x) (go l')
        end in
    match a with
    | Arg sp k o b c => HArg sp k o b c (go b)
    end.
End doc_ind'.

Definition opt_tok (o : option token) : list token :=
  match o with Some t => [t] | None => [] end.

(* the tokens, in order *)
Fixpoint flat (d : doc) : list token :=
  match d with
  | DLeaf t => [t]
  | DGroup o b c => o :: concat (map flat b) ++ [c]
  | DCmd e n args => e :: n :: concat (map flat_arg args)
  | DMath _ o b c => o :: concat (map flat b) ++ [c]
  | DEnv e b ng body e2 en ng2 =>
    e :: b :: flat_arg ng ++ concat (map flat body) ++ e2 :: en :: flat_arg ng2
  | DItem e n args body => e :: n :: concat (map flat_arg args) ++ concat (map flat body)
  end
with flat_arg (a : arg) : list token :=
  match a with
  | Arg sp _ o b c => opt_tok sp ++ o :: concat (map flat b) ++ [c]
  end.

Definition flat_list (ds : list doc) : list token := concat (map flat ds).
Definition flat_args (l : list arg) : list token := concat (map flat_arg l).

(* the expected node *)
Fixpoint tree (d : doc) : expr :=
  match d with
  | DLeaf t => EText t
  | DGroup o b _ => EGroup GBrace (map tree b) (tpos o)
  | DCmd e n args => ECmd (strip (ttext n)) (map tree_arg args) [] (tpos e)
  | DMath k o b _ => EMath k (map tree b) (tpos o)
  | DEnv e _ ng body _ _ _ =>
    ENamed (strip (arg_string (tree_arg ng))) [] (map tree body) (tpos e)
  | DItem e n args body =>
    ECmd (strip (ttext n)) (map tree_arg args) (map tree body) (tpos e)
  end
with tree_arg (a : arg) : expr :=
  match a with
  | Arg _ k o b _ => EGroup k (map tree b) (tpos o)
  end.

(* the environment name as the reader computes it: the stripped string of
   the first argument of \begin *)
Definition env_name (ng : arg) : str := strip (arg_string (tree_arg ng)).

(* --------------------------------------------------- well-formedness *)

(* the loop that reads a body: what closes it *)
Inductive ctx := CTop | CGroup (k : groupkind) | CMath (k : mathkind) | CEnv | CItem.

Definition closes (x : ctx) (t : token) : bool :=
  match x with
  | CTop => false
  | CGroup k => is_group_end k t
  | CMath k => is_math_end k t
  | CEnv => false
  | CItem => is_tc TGroupEnd t
  end.

Definition is_item (d : doc) : bool :=
  match d with DItem _ _ _ _ => true | _ => false end.

(* an \item is never an element of an item body: it ends that body *)
Definition allowed (x : ctx) (d : doc) : bool :=
  match x with CItem => negb (is_item d) | _ => true end.

Definition dhead (d : doc) : token :=
  match d with
  | DLeaf t => t
  | DGroup o _ _ => o
  | DCmd e _ _ => e
  | DMath _ o _ _ => o
  | DEnv e _ _ _ _ _ _ => e
  | DItem e _ _ _ => e
  end.

(* "after an optional MergedSpacer the next token is not a k" *)
Definition stopsb (k : tc) (toks : list token) : bool :=
  match head_after_spacer toks with Some c => negb (is_tc k c) | None => true end.
(* "the very next token is not a k" *)
Definition head_notb (k : tc) (toks : list token) : bool :=
  match toks with t :: _ => negb (is_tc k t) | [] => true end.

Definition arg_kind (a : arg) : groupkind := match a with Arg _ k _ _ _ => k end.
Definition is_brace_arg (a : arg) : bool := groupkind_beq (arg_kind a) GBrace.
Definition is_bracket_arg (a : arg) : bool := groupkind_beq (arg_kind a) GBracket.

(* what may follow a command whose arguments are `args` *)
Definition cmd_follow (args : list arg) (rest : list token) : bool :=
  stopsb TGroupBegin rest &&
  (if existsb is_brace_arg args then head_notb TBracketBegin rest
   else stopsb TBracketBegin rest).

(* where an item body stops: at the end of the input, before `\end` or
   `\item` (the token after an escape names the command), before a `}` *)
Definition item_stop_b (rest : list token) : bool :=
  match rest with
  | [] => true
  | t :: tl =>
    if is_tc TEscape t
    then match tl with
         | n :: _ => str_eqb (ttext n) s_end || str_eqb (ttext n) s_item
         | [] => false
         end
    else is_tc TGroupEnd t
  end.

(* bracket groups before brace groups: the first pass of read_args only *)
Fixpoint brackets_first (ks : list groupkind) : bool :=
  match ks with
  | [] => true
  | GBracket :: ks' => brackets_first ks'
  | GBrace :: ks' => forallb (fun k => groupkind_beq k GBrace) ks'
  end.

Definition opens_group_kind (k : groupkind) (o : token) : bool :=
  match group_tok_begin k with Some b => is_tc b o | None => false end.
Definition opens_math_kind (k : mathkind) (o : token) : bool :=
  match math_tok_begin k with Some b => is_tc b o | None => false end.

Definition name_ok (n : token) : bool :=
  (let '(a, b) := signature_of (ttext n) in Z.eqb a (-1) && Z.eqb b (-1)) &&
  negb (str_eqb (ttext n) s_item) && negb (str_eqb (ttext n) s_begin) &&
  negb (str_eqb (ttext n) s_end) &&
  negb (mem_str (ttext n) Tables.special_commands).

(* a body: every element well-formed, not starting with the closer of the
   enclosing loop, and followed by what its follow condition allows; `rest`
   is what comes after the whole sequence *)
Definition seq_wf (W : doc -> bool) (F : doc -> list token -> bool) (x : ctx)
  : list doc -> list token -> bool :=
  fix go (ds : list doc) (rest : list token) {struct ds} : bool :=
    match ds with
    | [] => true
    | d :: ds' =>
      negb (closes x (dhead d)) && allowed x d && W d && F d (flat_list ds' ++ rest) &&
      go ds' rest
    end.

Section WithSkip.
(* SK: the environment names read verbatim (Tables.skip_env_names ++ the
   user's list); an environment of the grammar must not have such a name *)
Variable SK : list str.

(* mm: the element is read in math mode (inside a math region; inherited by
   argument groups and environment bodies, reset by a free-standing brace
   group): \item is an AssertionError in math mode.
   follows_ok d rest: what may follow d (its follow condition); for an item
   this includes the well-formedness of its body, which ends where `rest`
   begins. *)
Fixpoint wf (mm : bool) (d : doc) {struct d} : bool :=
  match d with
  | DLeaf t => leaf_cat (tcat t)
  | DGroup o b c =>
    is_tc TGroupBegin o && is_group_end GBrace c && seq_wf (wf false) follows_ok (CGroup GBrace) b [c]
  | DCmd e n args =>
    is_tc TEscape e && name_ok n && brackets_first (map arg_kind args) &&
    forallb (wf_arg mm) args
  | DMath k o b c =>
    opens_math_kind k o && is_math_end k c && seq_wf (wf true) follows_ok (CMath k) b [c]
  | DEnv e b ng body e2 en ng2 =>
    is_tc TEscape e && str_eqb (ttext b) s_begin &&
    wf_arg mm ng && is_brace_arg ng &&
    negb (mem_str (env_name ng) Tables.math_env_names) && negb (mem_str (env_name ng) SK) &&
    cmd_follow [ng] (flat_list body ++ [e2]) &&
    seq_wf (wf mm) follows_ok CEnv body [e2; en] &&
    is_tc TEscape e2 && str_eqb (ttext en) s_end &&
    wf_arg mm ng2 && is_brace_arg ng2 &&
    str_eqb (arg_string (tree_arg ng2)) (env_name ng)
  | DItem e n args body =>
    negb mm && is_tc TEscape e && str_eqb (ttext n) s_item &&
    brackets_first (map arg_kind args) && forallb (wf_arg mm) args
  end
with wf_arg (mm : bool) (a : arg) {struct a} : bool :=
  match a with
  | Arg sp k o b c =>
    match sp with Some s => is_tc TMergedSpacer s | None => true end &&
    opens_group_kind k o && is_group_end k c && seq_wf (wf mm) follows_ok (CGroup k) b [c]
  end
with follows_ok (d : doc) (rest : list token) {struct d} : bool :=
  match d with
  | DCmd _ _ args => cmd_follow args rest
  | DEnv _ _ _ _ _ _ ng2 => cmd_follow [ng2] rest
  | DItem _ _ args body =>
    cmd_follow args (flat_list body ++ rest) &&
    seq_wf (wf false) follows_ok CItem body rest &&
    item_stop_b rest
  | _ => true
  end.

Definition wf_seq (mm : bool) (x : ctx) (ds : list doc) (rest : list token) : bool :=
  seq_wf (wf mm) follows_ok x ds rest.

(* ------------------------------------------------- equations, list facts *)

Lemma wf_seq_cons mm x d ds rest :
  wf_seq mm x (d :: ds) rest =
  negb (closes x (dhead d)) && allowed x d && wf mm d && follows_ok d (flat_list ds ++ rest) &&
  wf_seq mm x ds rest.
Proof. reflexivity. Qed.

Lemma wf_seq_cons_parts mm x d ds rest :
  wf_seq mm x (d :: ds) rest = true ->
  closes x (dhead d) = false /\ allowed x d = true /\ wf mm d = true /\
  follows_ok d (flat_list ds ++ rest) = true /\ wf_seq mm x ds rest = true.
Proof.
  rewrite wf_seq_cons. intro H.
  apply andb_true_iff in H. destruct H as [H H5].
  apply andb_true_iff in H. destruct H as [H H4].
  apply andb_true_iff in H. destruct H as [H H3].
  apply andb_true_iff in H. destruct H as [H1 H2].
  apply negb_true_iff in H1. auto.
Qed.

Lemma flat_list_cons d ds : flat_list (d :: ds) = flat d ++ flat_list ds.
Proof. reflexivity. Qed.
Lemma flat_args_cons a l : flat_args (a :: l) = flat_arg a ++ flat_args l.
Proof. reflexivity. Qed.
Lemma flat_args_app a b : flat_args (a ++ b) = flat_args a ++ flat_args b.
Proof. unfold flat_args. rewrite map_app, concat_app. reflexivity. Qed.

Lemma flat_group o b c : flat (DGroup o b c) = o :: flat_list b ++ [c].
Proof. reflexivity. Qed.
Lemma flat_cmd e n args : flat (DCmd e n args) = e :: n :: flat_args args.
Proof. reflexivity. Qed.
Lemma flat_math k o b c : flat (DMath k o b c) = o :: flat_list b ++ [c].
Proof. reflexivity. Qed.
Lemma flat_env e b ng body e2 en ng2 :
  flat (DEnv e b ng body e2 en ng2) =
  e :: b :: flat_arg ng ++ flat_list body ++ e2 :: en :: flat_arg ng2.
Proof. reflexivity. Qed.
Lemma flat_item e n args body :
  flat (DItem e n args body) = e :: n :: flat_args args ++ flat_list body.
Proof. reflexivity. Qed.
Lemma flat_arg_eq sp k o b c :
  flat_arg (Arg sp k o b c) = opt_tok sp ++ o :: flat_list b ++ [c].
Proof. reflexivity. Qed.

Lemma wf_group mm o b c :
  wf mm (DGroup o b c) =
  is_tc TGroupBegin o && is_group_end GBrace c && wf_seq false (CGroup GBrace) b [c].
Proof. reflexivity. Qed.
Lemma wf_cmd mm e n args :
  wf mm (DCmd e n args) =
  is_tc TEscape e && name_ok n && brackets_first (map arg_kind args) &&
  forallb (wf_arg mm) args.
Proof. reflexivity. Qed.
Lemma wf_math mm k o b c :
  wf mm (DMath k o b c) =
  opens_math_kind k o && is_math_end k c && wf_seq true (CMath k) b [c].
Proof. reflexivity. Qed.
Lemma wf_env mm e b ng body e2 en ng2 :
  wf mm (DEnv e b ng body e2 en ng2) =
  is_tc TEscape e && str_eqb (ttext b) s_begin &&
  wf_arg mm ng && is_brace_arg ng &&
  negb (mem_str (env_name ng) Tables.math_env_names) && negb (mem_str (env_name ng) SK) &&
  cmd_follow [ng] (flat_list body ++ [e2]) &&
  wf_seq mm CEnv body [e2; en] &&
  is_tc TEscape e2 && str_eqb (ttext en) s_end &&
  wf_arg mm ng2 && is_brace_arg ng2 &&
  str_eqb (arg_string (tree_arg ng2)) (env_name ng).
Proof. reflexivity. Qed.
Lemma wf_item mm e n args body :
  wf mm (DItem e n args body) =
  negb mm && is_tc TEscape e && str_eqb (ttext n) s_item &&
  brackets_first (map arg_kind args) && forallb (wf_arg mm) args.
Proof. reflexivity. Qed.
Lemma follows_ok_item e n args body rest :
  follows_ok (DItem e n args body) rest =
  cmd_follow args (flat_list body ++ rest) && wf_seq false CItem body rest && item_stop_b rest.
Proof. reflexivity. Qed.
Lemma wf_arg_eq mm sp k o b c :
  wf_arg mm (Arg sp k o b c) =
  match sp with Some s => is_tc TMergedSpacer s | None => true end &&
  opens_group_kind k o && is_group_end k c && wf_seq mm (CGroup k) b [c].
Proof. reflexivity. Qed.

Lemma flat_head d : exists tl, flat d = dhead d :: tl.
Proof. destruct d; simpl; eauto. Qed.

Lemma flat_length_pos d : (1 <= length (flat d))%nat.
Proof. destruct (flat_head d) as [tl ->]. simpl. lia. Qed.

(* ------------------------------------------------ table facts (computed) *)

Lemma group_end_not_spacer k c : is_group_end k c = true -> is_tc TMergedSpacer c = false.
Proof.
  intro H. apply is_group_end_tok in H. apply is_tc_false. intro E. rewrite E in H.
  destruct k; vm_compute in H; discriminate H.
Qed.

Lemma math_end_not_spacer k c : is_math_end k c = true -> is_tc TMergedSpacer c = false.
Proof.
  intro H. apply is_math_end_tok in H. apply is_tc_false. intro E. rewrite E in H.
  destruct k; vm_compute in H; discriminate H.
Qed.

Lemma group_end_not_escape k c : is_group_end k c = true -> is_tc TEscape c = false.
Proof.
  intro H. apply is_group_end_tok in H. apply is_tc_false. intro E. rewrite E in H.
  destruct k; vm_compute in H; discriminate H.
Qed.

Lemma math_end_not_escape k c : is_math_end k c = true -> is_tc TEscape c = false.
Proof.
  intro H. apply is_math_end_tok in H. apply is_tc_false. intro E. rewrite E in H.
  destruct k; vm_compute in H; discriminate H.
Qed.

Lemma opens_group_kind_spec k o :
  opens_group_kind k o = true ->
  group_kind_of_begin (tcat o) = Some k /\ group_tok_begin k = Some (tcat o) /\
  is_tc TMergedSpacer o = false /\
  is_tc (match k with GBrace => TGroupBegin | GBracket => TBracketBegin end) o = true.
Proof.
  unfold opens_group_kind. destruct k.
  - replace (group_tok_begin GBrace) with (Some TGroupBegin) by (vm_compute; reflexivity).
    intro H. pose proof H as H'. apply is_tc_true in H'.
    split; [rewrite H'; vm_compute; reflexivity|].
    split; [rewrite H'; reflexivity|].
    split; [apply (is_tc_excl _ _ _ H); discriminate | exact H].
  - replace (group_tok_begin GBracket) with (Some TBracketBegin) by (vm_compute; reflexivity).
    intro H. pose proof H as H'. apply is_tc_true in H'.
    split; [rewrite H'; vm_compute; reflexivity|].
    split; [rewrite H'; reflexivity|].
    split; [apply (is_tc_excl _ _ _ H); discriminate | exact H].
Qed.

Lemma opens_math_kind_spec k o :
  opens_math_kind k o = true ->
  math_kind_of_begin (tcat o) = Some k /\ math_tok_begin k = Some (tcat o).
Proof.
  unfold opens_math_kind. destruct (math_tok_begin k) as [b|] eqn:E; [|discriminate].
  intro H. apply is_tc_true in H. subst b. split; [|reflexivity].
  apply math_begin_kinds. exact E.
Qed.

Lemma group_begin_facts o :
  is_tc TGroupBegin o = true ->
  math_kind_of_begin (tcat o) = None /\ is_tc TEscape o = false.
Proof.
  intro H. apply is_tc_true in H. unfold is_tc. rewrite H. split; vm_compute; reflexivity.
Qed.

(* --------------------------------- the follow condition sees two tokens *)

Lemma head_after_spacer_ext l c tl r :
  is_tc TMergedSpacer c = false ->
  head_after_spacer (l ++ c :: tl) = head_after_spacer (l ++ c :: tl ++ r).
Proof.
  intro Hc. unfold head_after_spacer, read_spacer.
  destruct l as [|x [|y l']]; simpl.
  - rewrite Hc. reflexivity.
  - destruct (is_tc TMergedSpacer x); reflexivity.
  - destruct (is_tc TMergedSpacer x); reflexivity.
Qed.

Lemma cmd_follow_ext args l c tl r :
  is_tc TMergedSpacer c = false ->
  cmd_follow args (l ++ c :: tl) = cmd_follow args (l ++ c :: tl ++ r).
Proof.
  intro Hc. unfold cmd_follow, stopsb.
  rewrite <- !(head_after_spacer_ext l c tl r Hc).
  replace (head_notb TBracketBegin (l ++ c :: tl ++ r))
    with (head_notb TBracketBegin (l ++ c :: tl)) by (destruct l; reflexivity).
  reflexivity.
Qed.

Lemma item_stop_b_ext l c tl r :
  is_tc TEscape c = false \/ tl <> [] ->
  item_stop_b (l ++ c :: tl) = item_stop_b (l ++ c :: tl ++ r).
Proof.
  intro H. destruct l as [|x [|y l']]; cbn [app item_stop_b]; try reflexivity.
  destruct (is_tc TEscape c) eqn:E; [|reflexivity].
  destruct H as [H|H]; [discriminate H|]. destruct tl; [congruence | reflexivity].
Qed.

Definition ext_ok (c : token) (tl : list token) : Prop :=
  is_tc TMergedSpacer c = false /\ (is_tc TEscape c = false \/ tl <> []).

Lemma follows_ok_ext : forall d l c tl r, ext_ok c tl ->
  follows_ok d (l ++ c :: tl) = follows_ok d (l ++ c :: tl ++ r).
Proof.
  apply (doc_ind' (fun d => forall l c tl r, ext_ok c tl ->
                     follows_ok d (l ++ c :: tl) = follows_ok d (l ++ c :: tl ++ r))
                  (fun _ => True)); try (intros; exact I); try (intros; reflexivity).
  - intros e n args _ l c tl r [Hc _]. cbn [follows_ok]. apply cmd_follow_ext. exact Hc.
  - intros e b ng body e2 en ng2 _ _ _ l c tl r [Hc _]. cbn [follows_ok].
    apply cmd_follow_ext. exact Hc.
  - intros e n args body _ Hbody l c tl r [Hc He]. rewrite !follows_ok_item.
    rewrite (item_stop_b_ext l c tl r He).
    rewrite !(app_assoc (flat_list body) l).
    rewrite (cmd_follow_ext args (flat_list body ++ l) c tl r Hc).
    f_equal. f_equal.
    induction Hbody as [|d ds Hd _ IH]; [reflexivity|].
    rewrite !wf_seq_cons. rewrite IH.
    rewrite !(app_assoc (flat_list ds) l).
    rewrite (Hd (flat_list ds ++ l) c tl r (conj Hc He)). reflexivity.
Qed.

Lemma wf_seq_ext mm x ds c tl r :
  ext_ok c tl ->
  wf_seq mm x ds (c :: tl) = true -> wf_seq mm x ds (c :: tl ++ r) = true.
Proof.
  intro Hc. induction ds as [|d ds IH]; [reflexivity|].
  rewrite !wf_seq_cons. intro H.
  apply andb_true_iff in H. destruct H as [H H4].
  rewrite <- (follows_ok_ext d (flat_list ds) c tl r Hc), H, (IH H4). reflexivity.
Qed.

Lemma ext_ok_group_end k c : is_group_end k c = true -> ext_ok c [].
Proof.
  intro H. split; [exact (group_end_not_spacer k c H) | left; exact (group_end_not_escape k c H)].
Qed.
Lemma ext_ok_math_end k c : is_math_end k c = true -> ext_ok c [].
Proof.
  intro H. split; [exact (math_end_not_spacer k c H) | left; exact (math_end_not_escape k c H)].
Qed.
End WithSkip.
