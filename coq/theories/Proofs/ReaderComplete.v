(* PP: reader completeness ("parse o print = id", DESIGN.md section 5) at
   TOKEN level for a sub-grammar.

   Stage 0  fuel monotonicity of all ten reader functions (`mono_all_holds`),
            `enough_fuel_*`, fuel independence above 3*|toks|+c.
   Stage 1  a token-level document grammar `doc` with its token flattening
            `flat` and its expected tree `tree`, and the boolean
            well-formedness predicate `wf` / `seq_wf`.
   Stage 2  PP for single documents (`PP_expr`), for bodies of groups and
            math regions (`PP_seq_group`, `PP_seq_math`) and for whole token
            lists (`PP_parse_tokens`, both tolerance modes). *)
From Coq Require Import List NArith ZArith Bool Lia Arith.
From TexModel Require Import Base Tables Chars Tokenizer Tree Reader.
From TexProofs Require Import ReaderLen ReaderTotal ReaderCons AttachProofs.
Import ListNotations.

(* ====================================================================== *)
(* Stage 0: fuel monotonicity                                             *)
(* ====================================================================== *)

(* r' refines r: r ran out of fuel, or they agree *)
Definition ref {A} (r r' : res A) : Prop := r = Err OutOfFuel \/ r = r'.

Lemma ref_refl {A} (r : res A) : ref r r.
Proof. right. reflexivity. Qed.

Lemma ref_bind {A B} (r r' : res A) (k k' : A -> res B) :
  ref r r' -> (forall a, ref (k a) (k' a)) -> ref (bind r k) (bind r' k').
Proof.
  intros [-> | ->] H; [left; reflexivity|].
  destruct r' as [a|e]; simpl; [apply H | right; reflexivity].
Qed.

Lemma ref_eq {A} (r r' : res A) : ref r r' -> r <> Err OutOfFuel -> r' = r.
Proof. intros [H | H] Hn; [contradiction | symmetry; exact H]. Qed.

Definition mono_expr f := forall f' skip strict m toks, (f <= f')%nat ->
  ref (read_expr f skip strict m toks) (read_expr f' skip strict m toks).
Definition mono_item f := forall f' acc toks, (f <= f')%nat ->
  ref (read_item_loop f acc toks) (read_item_loop f' acc toks).
Definition mono_math f := forall f' k pos strict acc toks, (f <= f')%nat ->
  ref (read_math_loop f k pos strict acc toks) (read_math_loop f' k pos strict acc toks).
Definition mono_env f := forall f' name args pos skip strict m acc toks, (f <= f')%nat ->
  ref (read_env_loop f name args pos skip strict m acc toks)
      (read_env_loop f' name args pos skip strict m acc toks).
Definition mono_command f := forall f' nreq nopt sk strict m toks, (f <= f')%nat ->
  ref (read_command f nreq nopt sk strict m toks) (read_command f' nreq nopt sk strict m toks).
Definition mono_args f := forall f' nreq nopt strict m toks, (f <= f')%nat ->
  ref (read_args f nreq nopt strict m toks) (read_args f' nreq nopt strict m toks).
Definition mono_opt f := forall f' args nopt strict m toks, (f <= f')%nat ->
  ref (read_arg_optional f args nopt strict m toks) (read_arg_optional f' args nopt strict m toks).
Definition mono_req f := forall f' args nreq strict m toks, (f <= f')%nat ->
  ref (read_arg_required f args nreq strict m toks) (read_arg_required f' args nreq strict m toks).
Definition mono_arg f := forall f' c strict m toks, (f <= f')%nat ->
  ref (read_arg f c strict m toks) (read_arg f' c strict m toks).
Definition mono_argloop f := forall f' k pos strict m acc toks, (f <= f')%nat ->
  ref (read_arg_loop f k pos strict m acc toks) (read_arg_loop f' k pos strict m acc toks).

Definition mono_all f :=
  mono_expr f /\ mono_item f /\ mono_math f /\ mono_env f /\ mono_command f /\ mono_args f /\
  mono_opt f /\ mono_req f /\ mono_arg f /\ mono_argloop f.

(* one step on a goal  ref <reader body at f> <same body at f'> *)
Ltac mstep :=
  match goal with
  | |- ref ?x ?x => apply ref_refl
  | |- ref (bind _ _) (bind _ _) => apply ref_bind; [ | let a := fresh "a" in intros a ]
  | IH : mono_expr ?f |- ref (read_expr ?f _ _ _ _) _ => apply IH; assumption
  | IH : mono_item ?f |- ref (read_item_loop ?f _ _) _ => apply IH; assumption
  | IH : mono_math ?f |- ref (read_math_loop ?f _ _ _ _ _) _ => apply IH; assumption
  | IH : mono_env ?f |- ref (read_env_loop ?f _ _ _ _ _ _ _ _) _ => apply IH; assumption
  | IH : mono_command ?f |- ref (read_command ?f _ _ _ _ _ _) _ => apply IH; assumption
  | IH : mono_args ?f |- ref (read_args ?f _ _ _ _ _) _ => apply IH; assumption
  | IH : mono_opt ?f |- ref (read_arg_optional ?f _ _ _ _ _) _ => apply IH; assumption
  | IH : mono_req ?f |- ref (read_arg_required ?f _ _ _ _ _) _ => apply IH; assumption
  | IH : mono_arg ?f |- ref (read_arg ?f _ _ _ _) _ => apply IH; assumption
  | IH : mono_argloop ?f |- ref (read_arg_loop ?f _ _ _ _ _ _) _ => apply IH; assumption
  | |- ref (match ?x with _ => _ end) _ => destruct_innermost x
  end.

Lemma mono_all_holds : forall f, mono_all f.
Proof.
  induction f as [|f IH].
  { unfold mono_all, mono_expr, mono_item, mono_math, mono_env, mono_command, mono_args,
      mono_opt, mono_req, mono_arg, mono_argloop.
    repeat match goal with |- _ /\ _ => split end; intros; left; reflexivity. }
  destruct IH as (Me & Mi & Mm & Mv & Mc & Ma & Mo & Mr & Mg & Ml).
  unfold mono_all.
  repeat match goal with |- _ /\ _ => split end;
    [unfold mono_expr | unfold mono_item | unfold mono_math | unfold mono_env
     | unfold mono_command | unfold mono_args | unfold mono_opt | unfold mono_req
     | unfold mono_arg | unfold mono_argloop].
  - intros f' skip strict m toks Hle. destruct f' as [|f']; [lia|]. apply le_S_n in Hle.
    simpl. repeat mstep.
  - intros f' acc toks Hle. destruct f' as [|f']; [lia|]. apply le_S_n in Hle.
    simpl. repeat mstep.
  - intros f' k pos strict acc toks Hle. destruct f' as [|f']; [lia|]. apply le_S_n in Hle.
    simpl. repeat mstep.
  - intros f' name args pos skip strict m acc toks Hle. destruct f' as [|f']; [lia|].
    apply le_S_n in Hle. simpl. repeat mstep.
  - intros f' nreq nopt sk strict m toks Hle. destruct f' as [|f']; [lia|]. apply le_S_n in Hle.
    simpl. repeat mstep.
  - intros f' nreq nopt strict m toks Hle. destruct f' as [|f']; [lia|]. apply le_S_n in Hle.
    simpl. repeat mstep.
  - intros f' args nopt strict m toks Hle. destruct f' as [|f']; [lia|]. apply le_S_n in Hle.
    simpl. repeat mstep.
  - intros f' args nreq strict m toks Hle. destruct f' as [|f']; [lia|]. apply le_S_n in Hle.
    simpl. repeat mstep.
  - intros f' c strict m toks Hle. destruct f' as [|f']; [lia|]. apply le_S_n in Hle.
    simpl. repeat mstep.
  - intros f' k pos strict m acc toks Hle. destruct f' as [|f']; [lia|]. apply le_S_n in Hle.
    simpl. repeat mstep.
Qed.

Lemma mono_expr_holds f : mono_expr f.
Proof. destruct (mono_all_holds f) as (M & _); exact M. Qed.
Lemma mono_item_holds f : mono_item f.
Proof. destruct (mono_all_holds f) as (_ & M & _); exact M. Qed.
Lemma mono_math_holds f : mono_math f.
Proof. destruct (mono_all_holds f) as (_ & _ & M & _); exact M. Qed.
Lemma mono_env_holds f : mono_env f.
Proof. destruct (mono_all_holds f) as (_ & _ & _ & M & _); exact M. Qed.
Lemma mono_command_holds f : mono_command f.
Proof. destruct (mono_all_holds f) as (_ & _ & _ & _ & M & _); exact M. Qed.
Lemma mono_args_holds f : mono_args f.
Proof. destruct (mono_all_holds f) as (_ & _ & _ & _ & _ & M & _); exact M. Qed.
Lemma mono_opt_holds f : mono_opt f.
Proof. destruct (mono_all_holds f) as (_ & _ & _ & _ & _ & _ & M & _); exact M. Qed.
Lemma mono_req_holds f : mono_req f.
Proof. destruct (mono_all_holds f) as (_ & _ & _ & _ & _ & _ & _ & M & _); exact M. Qed.
Lemma mono_arg_holds f : mono_arg f.
Proof. destruct (mono_all_holds f) as (_ & _ & _ & _ & _ & _ & _ & _ & M & _); exact M. Qed.
Lemma mono_argloop_holds f : mono_argloop f.
Proof. destruct (mono_all_holds f) as (_ & _ & _ & _ & _ & _ & _ & _ & _ & M); exact M. Qed.

(* enough_fuel: a result other than OutOfFuel obtained with fuel f is the
   result with every fuel f' >= f (in particular with S f) *)
Ltac enough_fuel_tac M :=
  intros H Hn Hle; subst; apply ref_eq; [apply M; exact Hle | exact Hn].

Theorem enough_fuel_expr f f' skip strict m toks r :
  read_expr f skip strict m toks = r -> r <> Err OutOfFuel -> (f <= f')%nat ->
  read_expr f' skip strict m toks = r.
Proof. enough_fuel_tac (mono_expr_holds f). Qed.
Theorem enough_fuel_item f f' acc toks r :
  read_item_loop f acc toks = r -> r <> Err OutOfFuel -> (f <= f')%nat ->
  read_item_loop f' acc toks = r.
Proof. enough_fuel_tac (mono_item_holds f). Qed.
Theorem enough_fuel_math f f' k pos strict acc toks r :
  read_math_loop f k pos strict acc toks = r -> r <> Err OutOfFuel -> (f <= f')%nat ->
  read_math_loop f' k pos strict acc toks = r.
Proof. enough_fuel_tac (mono_math_holds f). Qed.
Theorem enough_fuel_env f f' name args pos skip strict m acc toks r :
  read_env_loop f name args pos skip strict m acc toks = r -> r <> Err OutOfFuel ->
  (f <= f')%nat -> read_env_loop f' name args pos skip strict m acc toks = r.
Proof. enough_fuel_tac (mono_env_holds f). Qed.
Theorem enough_fuel_command f f' nreq nopt sk strict m toks r :
  read_command f nreq nopt sk strict m toks = r -> r <> Err OutOfFuel -> (f <= f')%nat ->
  read_command f' nreq nopt sk strict m toks = r.
Proof. enough_fuel_tac (mono_command_holds f). Qed.
Theorem enough_fuel_args f f' nreq nopt strict m toks r :
  read_args f nreq nopt strict m toks = r -> r <> Err OutOfFuel -> (f <= f')%nat ->
  read_args f' nreq nopt strict m toks = r.
Proof. enough_fuel_tac (mono_args_holds f). Qed.
Theorem enough_fuel_opt f f' args nopt strict m toks r :
  read_arg_optional f args nopt strict m toks = r -> r <> Err OutOfFuel -> (f <= f')%nat ->
  read_arg_optional f' args nopt strict m toks = r.
Proof. enough_fuel_tac (mono_opt_holds f). Qed.
Theorem enough_fuel_req f f' args nreq strict m toks r :
  read_arg_required f args nreq strict m toks = r -> r <> Err OutOfFuel -> (f <= f')%nat ->
  read_arg_required f' args nreq strict m toks = r.
Proof. enough_fuel_tac (mono_req_holds f). Qed.
Theorem enough_fuel_arg f f' c strict m toks r :
  read_arg f c strict m toks = r -> r <> Err OutOfFuel -> (f <= f')%nat ->
  read_arg f' c strict m toks = r.
Proof. enough_fuel_tac (mono_arg_holds f). Qed.
Theorem enough_fuel_argloop f f' k pos strict m acc toks r :
  read_arg_loop f k pos strict m acc toks = r -> r <> Err OutOfFuel -> (f <= f')%nat ->
  read_arg_loop f' k pos strict m acc toks = r.
Proof. enough_fuel_tac (mono_argloop_holds f). Qed.

(* the literal one-step form, all ten functions at once *)
Theorem fuel_mono_S f :
  (forall skip strict m toks r, read_expr f skip strict m toks = r -> r <> Err OutOfFuel ->
     read_expr (S f) skip strict m toks = r) /\
  (forall acc toks r, read_item_loop f acc toks = r -> r <> Err OutOfFuel ->
     read_item_loop (S f) acc toks = r) /\
  (forall k pos strict acc toks r, read_math_loop f k pos strict acc toks = r ->
     r <> Err OutOfFuel -> read_math_loop (S f) k pos strict acc toks = r) /\
  (forall name args pos skip strict m acc toks r,
     read_env_loop f name args pos skip strict m acc toks = r -> r <> Err OutOfFuel ->
     read_env_loop (S f) name args pos skip strict m acc toks = r) /\
  (forall nreq nopt sk strict m toks r, read_command f nreq nopt sk strict m toks = r ->
     r <> Err OutOfFuel -> read_command (S f) nreq nopt sk strict m toks = r) /\
  (forall nreq nopt strict m toks r, read_args f nreq nopt strict m toks = r ->
     r <> Err OutOfFuel -> read_args (S f) nreq nopt strict m toks = r) /\
  (forall args nopt strict m toks r, read_arg_optional f args nopt strict m toks = r ->
     r <> Err OutOfFuel -> read_arg_optional (S f) args nopt strict m toks = r) /\
  (forall args nreq strict m toks r, read_arg_required f args nreq strict m toks = r ->
     r <> Err OutOfFuel -> read_arg_required (S f) args nreq strict m toks = r) /\
  (forall c strict m toks r, read_arg f c strict m toks = r -> r <> Err OutOfFuel ->
     read_arg (S f) c strict m toks = r) /\
  (forall k pos strict m acc toks r, read_arg_loop f k pos strict m acc toks = r ->
     r <> Err OutOfFuel -> read_arg_loop (S f) k pos strict m acc toks = r).
Proof.
  repeat match goal with |- _ /\ _ => split end; intros.
  - eapply enough_fuel_expr; eauto.
  - eapply enough_fuel_item; eauto.
  - eapply enough_fuel_math; eauto.
  - eapply enough_fuel_env; eauto.
  - eapply enough_fuel_command; eauto.
  - eapply enough_fuel_args; eauto.
  - eapply enough_fuel_opt; eauto.
  - eapply enough_fuel_req; eauto.
  - eapply enough_fuel_arg; eauto.
  - eapply enough_fuel_argloop; eauto.
Qed.

Lemma diag_not_oof {A} (r : res A) : diag r -> r <> Err OutOfFuel.
Proof. intros H E. subst r. exact H. Qed.

Lemma ref_indep {A} (F : nat -> res A) f1 f2 :
  (forall f f', (f <= f')%nat -> ref (F f) (F f')) ->
  F f1 <> Err OutOfFuel -> F f2 <> Err OutOfFuel -> F f1 = F f2.
Proof.
  intros M H1 H2.
  pose proof (ref_eq _ _ (M f1 (Nat.max f1 f2) (Nat.le_max_l _ _)) H1) as E1.
  pose proof (ref_eq _ _ (M f2 (Nat.max f1 f2) (Nat.le_max_r _ _)) H2) as E2.
  congruence.
Qed.

(* with TOT: above 3*|toks|+3 the result does not depend on the fuel *)
Theorem fuel_independent_expr f1 f2 skip strict m toks :
  (3 * length toks + 3 <= f1)%nat -> (3 * length toks + 3 <= f2)%nat ->
  read_expr f1 skip strict m toks = read_expr f2 skip strict m toks.
Proof.
  intros H1 H2. destruct toks as [|t ts].
  { destruct f1 as [|f1]; [simpl in H1; lia|]. destruct f2 as [|f2]; [simpl in H2; lia|].
    reflexivity. }
  apply (ref_indep (fun f => read_expr f skip strict m (t :: ts))).
  - intros f f' Hle. apply mono_expr_holds. exact Hle.
  - apply diag_not_oof. apply (tot_all_holds f1); [discriminate | lia].
  - apply diag_not_oof. apply (tot_all_holds f2); [discriminate | lia].
Qed.

Theorem fuel_independent_math f1 f2 k pos strict acc toks :
  (3 * length toks + 3 <= f1)%nat -> (3 * length toks + 3 <= f2)%nat ->
  read_math_loop f1 k pos strict acc toks = read_math_loop f2 k pos strict acc toks.
Proof.
  intros H1 H2. apply (ref_indep (fun f => read_math_loop f k pos strict acc toks)).
  - intros f f' Hle. apply mono_math_holds. exact Hle.
  - apply diag_not_oof. apply (tot_all_holds f1). lia.
  - apply diag_not_oof. apply (tot_all_holds f2). lia.
Qed.

Theorem fuel_independent_argloop f1 f2 k pos strict m acc toks :
  (3 * length toks + 3 <= f1)%nat -> (3 * length toks + 3 <= f2)%nat ->
  read_arg_loop f1 k pos strict m acc toks = read_arg_loop f2 k pos strict m acc toks.
Proof.
  intros H1 H2. apply (ref_indep (fun f => read_arg_loop f k pos strict m acc toks)).
  - intros f f' Hle. apply mono_argloop_holds. exact Hle.
  - apply diag_not_oof. apply (tot_all_holds f1). lia.
  - apply diag_not_oof. apply (tot_all_holds f2). lia.
Qed.

Theorem fuel_independent_env f1 f2 name args pos skip strict m acc toks :
  (3 * length toks + 3 <= f1)%nat -> (3 * length toks + 3 <= f2)%nat ->
  read_env_loop f1 name args pos skip strict m acc toks =
  read_env_loop f2 name args pos skip strict m acc toks.
Proof.
  intros H1 H2.
  apply (ref_indep (fun f => read_env_loop f name args pos skip strict m acc toks)).
  - intros f f' Hle. apply mono_env_holds. exact Hle.
  - apply diag_not_oof. apply (tot_all_holds f1). lia.
  - apply diag_not_oof. apply (tot_all_holds f2). lia.
Qed.

Theorem fuel_independent_item f1 f2 acc toks :
  (3 * length toks + 3 <= f1)%nat -> (3 * length toks + 3 <= f2)%nat ->
  read_item_loop f1 acc toks = read_item_loop f2 acc toks.
Proof.
  intros H1 H2. apply (ref_indep (fun f => read_item_loop f acc toks)).
  - intros f f' Hle. apply mono_item_holds. exact Hle.
  - apply diag_not_oof. apply (tot_all_holds f1). lia.
  - apply diag_not_oof. apply (tot_all_holds f2). lia.
Qed.

Theorem fuel_independent_args f1 f2 nreq nopt strict m toks :
  (3 * length toks + 3 <= f1)%nat -> (3 * length toks + 3 <= f2)%nat ->
  read_args f1 nreq nopt strict m toks = read_args f2 nreq nopt strict m toks.
Proof.
  intros H1 H2. apply (ref_indep (fun f => read_args f nreq nopt strict m toks)).
  - intros f f' Hle. apply mono_args_holds. exact Hle.
  - apply diag_not_oof. apply (tot_all_holds f1). lia.
  - apply diag_not_oof. apply (tot_all_holds f2). lia.
Qed.

(* the form used below: a successful run at SOME fuel is the run at every
   fuel that TOT declares sufficient *)
Lemma fuel_any_expr f f' skip strict m toks r :
  read_expr f skip strict m toks = Ok r -> (3 * length toks + 1 <= f')%nat ->
  read_expr f' skip strict m toks = Ok r.
Proof.
  intros H Hf.
  assert (Hne : toks <> []). { intro E. subst toks. destruct f; discriminate H. }
  rewrite <- H. symmetry.
  apply (ref_indep (fun f => read_expr f skip strict m toks)).
  - intros g g' Hle. apply mono_expr_holds. exact Hle.
  - rewrite H. discriminate.
  - apply diag_not_oof. apply (tot_all_holds f'); [exact Hne | exact Hf].
Qed.

Lemma fuel_any_math f f' k pos strict acc toks r :
  read_math_loop f k pos strict acc toks = Ok r -> (3 * length toks + 2 <= f')%nat ->
  read_math_loop f' k pos strict acc toks = Ok r.
Proof.
  intros H Hf. rewrite <- H. symmetry.
  apply (ref_indep (fun f => read_math_loop f k pos strict acc toks)).
  - intros g g' Hle. apply mono_math_holds. exact Hle.
  - rewrite H. discriminate.
  - apply diag_not_oof. apply (tot_all_holds f'). exact Hf.
Qed.

Lemma fuel_any_argloop f f' k pos strict m acc toks r :
  read_arg_loop f k pos strict m acc toks = Ok r -> (3 * length toks + 2 <= f')%nat ->
  read_arg_loop f' k pos strict m acc toks = Ok r.
Proof.
  intros H Hf. rewrite <- H. symmetry.
  apply (ref_indep (fun f => read_arg_loop f k pos strict m acc toks)).
  - intros g g' Hle. apply mono_argloop_holds. exact Hle.
  - rewrite H. discriminate.
  - apply diag_not_oof. apply (tot_all_holds f'). exact Hf.
Qed.

(* ====================================================================== *)
(* Stage 1: the token-level document grammar                              *)
(* ====================================================================== *)

(* A document element is written down as the tokens it consists of, with the
   structure made explicit.  An argument group carries the MergedSpacer token
   that may precede it, its kind, its two delimiter tokens and its body.
   An environment is  \ begin <name group> body \ end <name group>. *)
Inductive doc :=
| DLeaf (t : token)
| DGroup (o : token) (body : list doc) (c : token)
| DCmd (e n : token) (args : list arg)
| DMath (k : mathkind) (o : token) (body : list doc) (c : token)
| DEnv (e b : token) (ng : arg) (body : list doc) (e2 en : token) (ng2 : arg)
with arg :=
| Arg (sp : option token) (k : groupkind) (o : token) (body : list doc) (c : token).

Section doc_ind'.
  Variable P : doc -> Prop.
  Variable Q : arg -> Prop.
  Hypothesis HLeaf : forall t, P (DLeaf t).
  Hypothesis HGroup : forall o b c, Forall P b -> P (DGroup o b c).
  Hypothesis HCmd : forall e n args, Forall Q args -> P (DCmd e n args).
  Hypothesis HMath : forall k o b c, Forall P b -> P (DMath k o b c).
  Hypothesis HEnv : forall e b ng body e2 en ng2,
      Q ng -> Forall P body -> Q ng2 -> P (DEnv e b ng body e2 en ng2).
  Hypothesis HArg : forall sp k o b c, Forall P b -> Q (Arg sp k o b c).

  Fixpoint doc_ind' (d : doc) : P d :=
    let fix go (l : list doc) : Forall P l :=
        match l with
        | [] => Forall_nil P
        | x :: l' => Forall_cons x (doc_ind' x) (go l')
        end in
    let fix goa (l : list arg) : Forall Q l :=
        match l with
        | [] => Forall_nil Q
        | x :: l' => Forall_cons x (arg_ind' x) (goa l')
        end in
    match d with
    | DLeaf t => HLeaf t
    | DGroup o b c => HGroup o b c (go b)
    | DCmd e n args => HCmd e n args (goa args)
    | DMath k o b c => HMath k o b c (go b)
    | DEnv e b ng body e2 en ng2 =>
      HEnv e b ng body e2 en ng2 (arg_ind' ng) (go body) (arg_ind' ng2)
    end
  with arg_ind' (a : arg) : Q a :=
    let fix go (l : list doc) : Forall P l :=
        match l with
        | [] => Forall_nil P
        | x :: l' => Forall_cons x (doc_ind' x) (go l')
        end in
    match a with
    | Arg sp k o b c => HArg sp k o b c (go b)
    end.
End doc_ind'.

Definition opt_tok (o : option token) : list token :=
  match o with Some t => [t] | None => [] end.

(* the tokens, in order *)
Fixpoint flat (d : doc) : list token :=
  match d with
  | DLeaf t => [t]
  | DGroup o b c => o :: concat (map flat b) ++ [c]
  | DCmd e n args => e :: n :: concat (map flat_arg args)
  | DMath _ o b c => o :: concat (map flat b) ++ [c]
  | DEnv e b ng body e2 en ng2 =>
    e :: b :: flat_arg ng ++ concat (map flat body) ++ e2 :: en :: flat_arg ng2
  end
with flat_arg (a : arg) : list token :=
  match a with
  | Arg sp _ o b c => opt_tok sp ++ o :: concat (map flat b) ++ [c]
  end.

Definition flat_list (ds : list doc) : list token := concat (map flat ds).
Definition flat_args (l : list arg) : list token := concat (map flat_arg l).

(* the expected node *)
Fixpoint tree (d : doc) : expr :=
  match d with
  | DLeaf t => EText t
  | DGroup o b _ => EGroup GBrace (map tree b) (tpos o)
  | DCmd e n args => ECmd (strip (ttext n)) (map tree_arg args) [] (tpos e)
  | DMath k o b _ => EMath k (map tree b) (tpos o)
  | DEnv e _ ng body _ _ _ =>
    ENamed (strip (arg_string (tree_arg ng))) [] (map tree body) (tpos e)
  end
with tree_arg (a : arg) : expr :=
  match a with
  | Arg _ k o b _ => EGroup k (map tree b) (tpos o)
  end.

(* the environment name as the reader computes it: the stripped string of
   the first argument of \begin *)
Definition env_name (ng : arg) : str := strip (arg_string (tree_arg ng)).

(* --------------------------------------------------- well-formedness *)

(* the loop that reads a body: what closes it *)
Inductive ctx := CTop | CGroup (k : groupkind) | CMath (k : mathkind) | CEnv.

Definition closes (x : ctx) (t : token) : bool :=
  match x with
  | CTop => false
  | CGroup k => is_group_end k t
  | CMath k => is_math_end k t
  | CEnv => false
  end.

Definition dhead (d : doc) : token :=
  match d with
  | DLeaf t => t
  | DGroup o _ _ => o
  | DCmd e _ _ => e
  | DMath _ o _ _ => o
  | DEnv e _ _ _ _ _ _ => e
  end.

(* "after an optional MergedSpacer the next token is not a k" *)
Definition stopsb (k : tc) (toks : list token) : bool :=
  match head_after_spacer toks with Some c => negb (is_tc k c) | None => true end.
(* "the very next token is not a k" *)
Definition head_notb (k : tc) (toks : list token) : bool :=
  match toks with t :: _ => negb (is_tc k t) | [] => true end.

Definition arg_kind (a : arg) : groupkind := match a with Arg _ k _ _ _ => k end.
Definition is_brace_arg (a : arg) : bool := groupkind_beq (arg_kind a) GBrace.
Definition is_bracket_arg (a : arg) : bool := groupkind_beq (arg_kind a) GBracket.

(* what may follow a command whose arguments are `args` *)
Definition cmd_follow (args : list arg) (rest : list token) : bool :=
  stopsb TGroupBegin rest &&
  (if existsb is_brace_arg args then head_notb TBracketBegin rest
   else stopsb TBracketBegin rest).

Definition follows_ok (d : doc) (rest : list token) : bool :=
  match d with
  | DCmd _ _ args => cmd_follow args rest
  | DEnv _ _ _ _ _ _ ng2 => cmd_follow [ng2] rest
  | _ => true
  end.

(* bracket groups before brace groups: the first pass of read_args only *)
Fixpoint brackets_first (ks : list groupkind) : bool :=
  match ks with
  | [] => true
  | GBracket :: ks' => brackets_first ks'
  | GBrace :: ks' => forallb (fun k => groupkind_beq k GBrace) ks'
  end.

Definition opens_group_kind (k : groupkind) (o : token) : bool :=
  match group_tok_begin k with Some b => is_tc b o | None => false end.
Definition opens_math_kind (k : mathkind) (o : token) : bool :=
  match math_tok_begin k with Some b => is_tc b o | None => false end.

Definition name_ok (n : token) : bool :=
  (let '(a, b) := signature_of (ttext n) in Z.eqb a (-1) && Z.eqb b (-1)) &&
  negb (str_eqb (ttext n) s_item) && negb (str_eqb (ttext n) s_begin) &&
  negb (str_eqb (ttext n) s_end) &&
  negb (mem_str (ttext n) Tables.special_commands).

(* a body: every element well-formed, not starting with the closer of the
   enclosing loop, and followed by what its follow condition allows; `rest`
   is what comes after the whole sequence *)
Definition seq_wf (W : doc -> bool) (x : ctx) : list doc -> list token -> bool :=
  fix go (ds : list doc) (rest : list token) {struct ds} : bool :=
    match ds with
    | [] => true
    | d :: ds' =>
      negb (closes x (dhead d)) && W d && follows_ok d (flat_list ds' ++ rest) &&
      go ds' rest
    end.

Section WithSkip.
(* SK: the environment names read verbatim (Tables.skip_env_names ++ the
   user's list); an environment of the grammar must not have such a name *)
Variable SK : list str.

(* mm: the element is read in math mode (inside a math region; inherited by
   argument groups and environment bodies, reset by a free-standing brace
   group).  Recorded because the reader's treatment of \item depends on it;
   no construct of the present grammar is sensitive to it. *)
Fixpoint wf (mm : bool) (d : doc) {struct d} : bool :=
  match d with
  | DLeaf t => leaf_cat (tcat t)
  | DGroup o b c =>
    is_tc TGroupBegin o && is_group_end GBrace c && seq_wf (wf false) (CGroup GBrace) b [c]
  | DCmd e n args =>
    is_tc TEscape e && name_ok n && brackets_first (map arg_kind args) &&
    forallb (wf_arg mm) args
  | DMath k o b c =>
    opens_math_kind k o && is_math_end k c && seq_wf (wf true) (CMath k) b [c]
  | DEnv e b ng body e2 en ng2 =>
    is_tc TEscape e && str_eqb (ttext b) s_begin &&
    wf_arg mm ng && is_brace_arg ng &&
    negb (mem_str (env_name ng) Tables.math_env_names) && negb (mem_str (env_name ng) SK) &&
    cmd_follow [ng] (flat_list body ++ [e2]) &&
    seq_wf (wf mm) CEnv body [e2; en] &&
    is_tc TEscape e2 && str_eqb (ttext en) s_end &&
    wf_arg mm ng2 && is_brace_arg ng2 &&
    str_eqb (arg_string (tree_arg ng2)) (env_name ng)
  end
with wf_arg (mm : bool) (a : arg) {struct a} : bool :=
  match a with
  | Arg sp k o b c =>
    match sp with Some s => is_tc TMergedSpacer s | None => true end &&
    opens_group_kind k o && is_group_end k c && seq_wf (wf mm) (CGroup k) b [c]
  end.

Definition wf_seq (mm : bool) (x : ctx) (ds : list doc) (rest : list token) : bool :=
  seq_wf (wf mm) x ds rest.

(* ------------------------------------------------- equations, list facts *)

Lemma seq_wf_cons W x d ds rest :
  seq_wf W x (d :: ds) rest =
  negb (closes x (dhead d)) && W d && follows_ok d (flat_list ds ++ rest) && seq_wf W x ds rest.
Proof. reflexivity. Qed.

Lemma flat_list_cons d ds : flat_list (d :: ds) = flat d ++ flat_list ds.
Proof. reflexivity. Qed.
Lemma flat_args_cons a l : flat_args (a :: l) = flat_arg a ++ flat_args l.
Proof. reflexivity. Qed.
Lemma flat_args_app a b : flat_args (a ++ b) = flat_args a ++ flat_args b.
Proof. unfold flat_args. rewrite map_app, concat_app. reflexivity. Qed.

Lemma flat_group o b c : flat (DGroup o b c) = o :: flat_list b ++ [c].
Proof. reflexivity. Qed.
Lemma flat_cmd e n args : flat (DCmd e n args) = e :: n :: flat_args args.
Proof. reflexivity. Qed.
Lemma flat_math k o b c : flat (DMath k o b c) = o :: flat_list b ++ [c].
Proof. reflexivity. Qed.
Lemma flat_env e b ng body e2 en ng2 :
  flat (DEnv e b ng body e2 en ng2) =
  e :: b :: flat_arg ng ++ flat_list body ++ e2 :: en :: flat_arg ng2.
Proof. reflexivity. Qed.
Lemma flat_arg_eq sp k o b c :
  flat_arg (Arg sp k o b c) = opt_tok sp ++ o :: flat_list b ++ [c].
Proof. reflexivity. Qed.

Lemma wf_group mm o b c :
  wf mm (DGroup o b c) =
  is_tc TGroupBegin o && is_group_end GBrace c && seq_wf (wf false) (CGroup GBrace) b [c].
Proof. reflexivity. Qed.
Lemma wf_cmd mm e n args :
  wf mm (DCmd e n args) =
  is_tc TEscape e && name_ok n && brackets_first (map arg_kind args) &&
  forallb (wf_arg mm) args.
Proof. reflexivity. Qed.
Lemma wf_math mm k o b c :
  wf mm (DMath k o b c) =
  opens_math_kind k o && is_math_end k c && seq_wf (wf true) (CMath k) b [c].
Proof. reflexivity. Qed.
Lemma wf_env mm e b ng body e2 en ng2 :
  wf mm (DEnv e b ng body e2 en ng2) =
  is_tc TEscape e && str_eqb (ttext b) s_begin &&
  wf_arg mm ng && is_brace_arg ng &&
  negb (mem_str (env_name ng) Tables.math_env_names) && negb (mem_str (env_name ng) SK) &&
  cmd_follow [ng] (flat_list body ++ [e2]) &&
  seq_wf (wf mm) CEnv body [e2; en] &&
  is_tc TEscape e2 && str_eqb (ttext en) s_end &&
  wf_arg mm ng2 && is_brace_arg ng2 &&
  str_eqb (arg_string (tree_arg ng2)) (env_name ng).
Proof. reflexivity. Qed.
Lemma wf_arg_eq mm sp k o b c :
  wf_arg mm (Arg sp k o b c) =
  match sp with Some s => is_tc TMergedSpacer s | None => true end &&
  opens_group_kind k o && is_group_end k c && seq_wf (wf mm) (CGroup k) b [c].
Proof. reflexivity. Qed.

Lemma flat_head d : exists tl, flat d = dhead d :: tl.
Proof. destruct d; simpl; eauto. Qed.

Lemma flat_length_pos d : (1 <= length (flat d))%nat.
Proof. destruct (flat_head d) as [tl ->]. simpl. lia. Qed.

(* ------------------------------------------------ table facts (computed) *)

Lemma group_end_not_spacer k c : is_group_end k c = true -> is_tc TMergedSpacer c = false.
Proof.
  intro H. apply is_group_end_tok in H. apply is_tc_false. intro E. rewrite E in H.
  destruct k; vm_compute in H; discriminate H.
Qed.

Lemma math_end_not_spacer k c : is_math_end k c = true -> is_tc TMergedSpacer c = false.
Proof.
  intro H. apply is_math_end_tok in H. apply is_tc_false. intro E. rewrite E in H.
  destruct k; vm_compute in H; discriminate H.
Qed.

Lemma opens_group_kind_spec k o :
  opens_group_kind k o = true ->
  group_kind_of_begin (tcat o) = Some k /\ group_tok_begin k = Some (tcat o) /\
  is_tc TMergedSpacer o = false /\
  is_tc (match k with GBrace => TGroupBegin | GBracket => TBracketBegin end) o = true.
Proof.
  unfold opens_group_kind. destruct k.
  - replace (group_tok_begin GBrace) with (Some TGroupBegin) by (vm_compute; reflexivity).
    intro H. pose proof H as H'. apply is_tc_true in H'.
    split; [rewrite H'; vm_compute; reflexivity|].
    split; [rewrite H'; reflexivity|].
    split; [apply (is_tc_excl _ _ _ H); discriminate | exact H].
  - replace (group_tok_begin GBracket) with (Some TBracketBegin) by (vm_compute; reflexivity).
    intro H. pose proof H as H'. apply is_tc_true in H'.
    split; [rewrite H'; vm_compute; reflexivity|].
    split; [rewrite H'; reflexivity|].
    split; [apply (is_tc_excl _ _ _ H); discriminate | exact H].
Qed.

Lemma opens_math_kind_spec k o :
  opens_math_kind k o = true ->
  math_kind_of_begin (tcat o) = Some k /\ math_tok_begin k = Some (tcat o).
Proof.
  unfold opens_math_kind. destruct (math_tok_begin k) as [b|] eqn:E; [|discriminate].
  intro H. apply is_tc_true in H. subst b. split; [|reflexivity].
  apply math_begin_kinds. exact E.
Qed.

Lemma group_begin_facts o :
  is_tc TGroupBegin o = true ->
  math_kind_of_begin (tcat o) = None /\ is_tc TEscape o = false.
Proof.
  intro H. apply is_tc_true in H. unfold is_tc. rewrite H. split; vm_compute; reflexivity.
Qed.

(* --------------------------------- the follow condition sees two tokens *)

Lemma head_after_spacer_ext l c tl r :
  is_tc TMergedSpacer c = false ->
  head_after_spacer (l ++ c :: tl) = head_after_spacer (l ++ c :: tl ++ r).
Proof.
  intro Hc. unfold head_after_spacer, read_spacer.
  destruct l as [|x [|y l']]; simpl.
  - rewrite Hc. reflexivity.
  - destruct (is_tc TMergedSpacer x); reflexivity.
  - destruct (is_tc TMergedSpacer x); reflexivity.
Qed.

Lemma cmd_follow_ext args l c tl r :
  is_tc TMergedSpacer c = false ->
  cmd_follow args (l ++ c :: tl) = cmd_follow args (l ++ c :: tl ++ r).
Proof.
  intro Hc. unfold cmd_follow, stopsb.
  rewrite <- !(head_after_spacer_ext l c tl r Hc).
  replace (head_notb TBracketBegin (l ++ c :: tl ++ r))
    with (head_notb TBracketBegin (l ++ c :: tl)) by (destruct l; reflexivity).
  reflexivity.
Qed.

Lemma follows_ok_ext d l c tl r :
  is_tc TMergedSpacer c = false ->
  follows_ok d (l ++ c :: tl) = follows_ok d (l ++ c :: tl ++ r).
Proof.
  intro Hc. destruct d; try reflexivity; simpl; apply cmd_follow_ext; exact Hc.
Qed.

Lemma seq_wf_ext W x ds c tl r :
  is_tc TMergedSpacer c = false ->
  seq_wf W x ds (c :: tl) = true -> seq_wf W x ds (c :: tl ++ r) = true.
Proof.
  intro Hc. induction ds as [|d ds IH]; [reflexivity|].
  rewrite !seq_wf_cons. intro H.
  apply andb_true_iff in H. destruct H as [H H4].
  rewrite <- (follows_ok_ext d (flat_list ds) c tl r Hc), H, (IH H4). reflexivity.
Qed.

(* ====================================================================== *)
(* Stage 2: completeness                                                  *)
(* ====================================================================== *)

(* "for every sufficiently large fuel, F returns r" *)
Definition Reads {A} (F : nat -> res A) (r : res A) : Prop :=
  exists f0, forall f, (f0 <= f)%nat -> F f = r.

Definition PPd (d : doc) : Prop := forall skip strict m rest,
  mode_is_special m = false -> sub_skip SK skip ->
  wf (mode_is_math m) d = true -> follows_ok d rest = true ->
  Reads (fun f => read_expr f skip strict m (flat d ++ rest)) (Ok (tree d, rest)).

Definition arg_open (a : arg) : token := match a with Arg _ _ o _ _ => o end.
Definition arg_inner (a : arg) : list token :=
  match a with Arg _ _ _ b c => flat_list b ++ [c] end.

Definition PPa (a : arg) : Prop := forall strict m rest,
  mode_is_special m = false -> wf_arg (mode_is_math m) a = true ->
  Reads (fun f => read_arg f (arg_open a) strict m (arg_inner a ++ rest))
        (Ok (tree_arg a, rest)).

Lemma sub_skip_nil : sub_skip SK [].
Proof. intros n H. unfold mem_str in H. simpl in H. discriminate H. Qed.

(* the body of a group: elements one by one, then the closer *)
Lemma seq_group ds : Forall PPd ds -> forall k pos strict m acc c rest,
  mode_is_special m = false ->
  seq_wf (wf (mode_is_math m)) (CGroup k) ds (c :: rest) = true -> is_group_end k c = true ->
  Reads (fun f => read_arg_loop f k pos strict m acc (flat_list ds ++ c :: rest))
        (Ok (EGroup k (acc ++ map tree ds) pos, rest)).
Proof.
  induction 1 as [|d ds Hd Hds IH]; intros k pos strict m acc c rest Hm Hwf Hc.
  - exists 1%nat. intros f Hf. destruct f as [|f]; [lia|].
    change (flat_list [] ++ c :: rest) with (c :: rest). simpl map. rewrite app_nil_r.
    apply C09_group_closes_on_own_delimiter. exact Hc.
  - rewrite seq_wf_cons in Hwf.
    apply andb_true_iff in Hwf. destruct Hwf as [Hwf H4].
    apply andb_true_iff in Hwf. destruct Hwf as [Hwf H3].
    apply andb_true_iff in Hwf. destruct Hwf as [H1 H2].
    apply negb_true_iff in H1. cbn [closes] in H1.
    destruct (flat_head d) as [tl Htl].
    destruct (Hd [] strict m (flat_list ds ++ c :: rest) Hm sub_skip_nil H2 H3) as [f1 F1].
    destruct (IH k pos strict m (acc ++ [tree d]) c rest Hm H4 Hc) as [f2 F2].
    exists (S (Nat.max f1 f2)). intros f Hf. destruct f as [|f]; [lia|].
    rewrite flat_list_cons, <- app_assoc.
    assert (E1 := F1 f ltac:(lia)). cbv beta in E1.
    rewrite Htl in E1 |- *. rewrite <- app_comm_cons in E1 |- *.
    rewrite (C09_group_continues f k pos strict m acc (dhead d) _ H1), E1. cbn [bind].
    rewrite F2 by lia. rewrite <- app_assoc. reflexivity.
Qed.

(* the body of a math region *)
Lemma seq_math ds : Forall PPd ds -> forall k pos strict acc c rest,
  seq_wf (wf true) (CMath k) ds (c :: rest) = true -> is_math_end k c = true ->
  Reads (fun f => read_math_loop f k pos strict acc (flat_list ds ++ c :: rest))
        (Ok (EMath k (acc ++ map tree ds) pos, rest)).
Proof.
  induction 1 as [|d ds Hd Hds IH]; intros k pos strict acc c rest Hwf Hc.
  - exists 1%nat. intros f Hf. destruct f as [|f]; [lia|].
    change (flat_list [] ++ c :: rest) with (c :: rest). simpl map. rewrite app_nil_r.
    apply C12_math_closes. exact Hc.
  - rewrite seq_wf_cons in Hwf.
    apply andb_true_iff in Hwf. destruct Hwf as [Hwf H4].
    apply andb_true_iff in Hwf. destruct Hwf as [Hwf H3].
    apply andb_true_iff in Hwf. destruct Hwf as [H1 H2].
    apply negb_true_iff in H1. cbn [closes] in H1.
    destruct (flat_head d) as [tl Htl].
    destruct (Hd [] strict MMath (flat_list ds ++ c :: rest) eq_refl sub_skip_nil H2 H3)
      as [f1 F1].
    destruct (IH k pos strict (acc ++ [tree d]) c rest H4 Hc) as [f2 F2].
    exists (S (Nat.max f1 f2)). intros f Hf. destruct f as [|f]; [lia|].
    rewrite flat_list_cons, <- app_assoc.
    assert (E1 := F1 f ltac:(lia)). cbv beta in E1.
    rewrite Htl in E1 |- *. rewrite <- app_comm_cons in E1 |- *.
    rewrite (C12_math_continues f k pos strict acc (dhead d) _ H1), E1. cbn [bind].
    rewrite F2 by lia. rewrite <- app_assoc. reflexivity.
Qed.

Lemma wf_arg_parts mm sp k o b c :
  wf_arg mm (Arg sp k o b c) = true ->
  match sp with Some s => is_tc TMergedSpacer s | None => true end = true /\
  opens_group_kind k o = true /\ is_group_end k c = true /\
  seq_wf (wf mm) (CGroup k) b [c] = true.
Proof.
  rewrite wf_arg_eq. intro Hwf.
  apply andb_true_iff in Hwf. destruct Hwf as [Hwf H4].
  apply andb_true_iff in Hwf. destruct Hwf as [Hwf H3].
  apply andb_true_iff in Hwf. destruct Hwf as [H1 H2]. auto.
Qed.

(* one argument group, from its opening token *)
Lemma arg_group sp k o b c : Forall PPd b -> PPa (Arg sp k o b c).
Proof.
  intros Hb strict m rest Hm Hwf.
  destruct (wf_arg_parts _ _ _ _ _ _ Hwf) as (H1 & H2 & H3 & H4).
  apply opens_group_kind_spec in H2. destruct H2 as (Hk & _).
  pose proof (seq_wf_ext _ (CGroup k) b c [] rest (group_end_not_spacer k c H3) H4) as H4'.
  destruct (seq_group b Hb k (tpos o) strict m [] c rest Hm H4' H3) as [f1 F1].
  exists (S f1). intros f Hf. destruct f as [|f]; [lia|].
  cbn [arg_open arg_inner tree_arg]. rewrite <- app_assoc. cbn [app].
  cbn [read_arg]. rewrite Hk. apply F1. lia.
Qed.

(* a brace group met by read_expr *)
Lemma read_expr_group_open f skip strict m o src :
  is_tc TGroupBegin o = true ->
  read_expr (S f) skip strict m (o :: src) = read_arg f o strict MNonMath src.
Proof.
  intro H. destruct (group_begin_facts o H) as [H1 H2].
  cbn [read_expr]. rewrite H1, H2, H. reflexivity.
Qed.

(* ---------------------------------------------------- argument loops *)

Lemma stopsb_stops k toks :
  stopsb k toks = true ->
  match head_after_spacer toks with Some c => is_tc k c = false | None => True end.
Proof.
  unfold stopsb. destruct (head_after_spacer toks); [|intros; exact I].
  intro H. apply negb_true_iff. exact H.
Qed.

(* what read_spacer leaves in front of an argument group *)
Lemma arg_after_spacer sp k o b c X :
  match sp with Some s => is_tc TMergedSpacer s | None => true end = true ->
  is_tc TMergedSpacer o = false ->
  snd (read_spacer (flat_arg (Arg sp k o b c) ++ X)) = o :: arg_inner (Arg sp k o b c) ++ X.
Proof.
  intros Hs Ho. rewrite flat_arg_eq. cbn [arg_inner]. unfold read_spacer.
  destruct sp as [s|]; cbn [opt_tok app].
  - rewrite Hs. reflexivity.
  - rewrite Ho. reflexivity.
Qed.

Lemma head_after_spacer_arg sp k o b c X :
  match sp with Some s => is_tc TMergedSpacer s | None => true end = true ->
  is_tc TMergedSpacer o = false ->
  head_after_spacer (flat_arg (Arg sp k o b c) ++ X) = Some o.
Proof.
  intros Hs Ho. unfold head_after_spacer. rewrite (arg_after_spacer sp k o b c X Hs Ho).
  reflexivity.
Qed.

(* the bracket loop: all of `bs`, then stop *)
Lemma opt_loop bs : Forall PPa bs -> forall acc nopt strict m tail,
  mode_is_special m = false ->
  (nopt < 0)%Z -> forallb (wf_arg (mode_is_math m)) bs = true ->
  forallb is_bracket_arg bs = true ->
  stopsb TBracketBegin tail = true ->
  Reads (fun f => read_arg_optional f acc nopt strict m (flat_args bs ++ tail))
        (Ok ((acc ++ map tree_arg bs, (nopt - Z.of_nat (length bs))%Z), tail)).
Proof.
  induction 1 as [|a bs Ha Hbs IH]; intros acc nopt strict m tail Hm Hn Hw Hk Hs.
  - exists 1%nat. intros f Hf. destruct f as [|f]; [lia|].
    change (flat_args [] ++ tail) with tail. simpl map. simpl length.
    rewrite app_nil_r, Z.sub_0_r.
    apply C09_other_token_detaches_opt. apply stopsb_stops. exact Hs.
  - cbn [forallb] in Hw, Hk.
    apply andb_true_iff in Hw. destruct Hw as [Hwa Hw].
    apply andb_true_iff in Hk. destruct Hk as [Hka Hk].
    destruct a as [sp k o b c].
    unfold is_bracket_arg in Hka. cbn [arg_kind] in Hka. apply groupkind_eqb_eq in Hka. subst k.
    destruct (wf_arg_parts _ _ _ _ _ _ Hwa) as (W1 & W2 & W3 & W4).
    apply opens_group_kind_spec in W2. destruct W2 as (_ & _ & Ho & Hob).
    destruct (Ha strict m (flat_args bs ++ tail) Hm Hwa) as [f1 F1].
    destruct (IH (acc ++ [tree_arg (Arg sp GBracket o b c)]) (nopt - 1)%Z strict m tail
                 Hm ltac:(lia) Hw Hk Hs) as [f2 F2].
    exists (S (Nat.max f1 f2)). intros f Hf. destruct f as [|f]; [lia|].
    rewrite flat_args_cons, <- app_assoc.
    rewrite (C09_attach_step_opt f acc nopt strict m _ o
               (arg_inner (Arg sp GBracket o b c) ++ flat_args bs ++ tail)
               (tree_arg (Arg sp GBracket o b c)) (flat_args bs ++ tail)).
    + rewrite F2 by lia. rewrite <- app_assoc. cbn [map app length].
      rewrite Nat2Z.inj_succ.
      replace (nopt - 1 - Z.of_nat (length bs))%Z with (nopt - Z.succ (Z.of_nat (length bs)))%Z
        by lia.
      reflexivity.
    + lia.
    + apply arg_after_spacer; assumption.
    + exact Hob.
    + apply (F1 f). lia.
Qed.

(* the brace loop *)
Lemma req_loop cs : Forall PPa cs -> forall acc nreq strict m tail,
  mode_is_special m = false ->
  (nreq < 0)%Z -> forallb (wf_arg (mode_is_math m)) cs = true ->
  forallb is_brace_arg cs = true ->
  stopsb TGroupBegin tail = true ->
  Reads (fun f => read_arg_required f acc nreq strict m (flat_args cs ++ tail))
        (Ok ((acc ++ map tree_arg cs, (nreq - Z.of_nat (length cs))%Z), tail)).
Proof.
  induction 1 as [|a cs Ha Hcs IH]; intros acc nreq strict m tail Hm Hn Hw Hk Hs.
  - exists 1%nat. intros f Hf. destruct f as [|f]; [lia|].
    change (flat_args [] ++ tail) with tail. simpl map. simpl length.
    rewrite app_nil_r, Z.sub_0_r.
    apply C09_other_token_detaches_req; [lia|]. apply stopsb_stops. exact Hs.
  - cbn [forallb] in Hw, Hk.
    apply andb_true_iff in Hw. destruct Hw as [Hwa Hw].
    apply andb_true_iff in Hk. destruct Hk as [Hka Hk].
    destruct a as [sp k o b c].
    unfold is_brace_arg in Hka. cbn [arg_kind] in Hka. apply groupkind_eqb_eq in Hka. subst k.
    destruct (wf_arg_parts _ _ _ _ _ _ Hwa) as (W1 & W2 & W3 & W4).
    apply opens_group_kind_spec in W2. destruct W2 as (_ & _ & Ho & Hob).
    destruct (Ha strict m (flat_args cs ++ tail) Hm Hwa) as [f1 F1].
    destruct (IH (acc ++ [tree_arg (Arg sp GBrace o b c)]) (nreq - 1)%Z strict m tail
                 Hm ltac:(lia) Hw Hk Hs) as [f2 F2].
    exists (S (Nat.max f1 f2)). intros f Hf. destruct f as [|f]; [lia|].
    rewrite flat_args_cons, <- app_assoc.
    rewrite (C09_attach_step_req f acc nreq strict m _ o
               (arg_inner (Arg sp GBrace o b c) ++ flat_args cs ++ tail)
               (tree_arg (Arg sp GBrace o b c)) (flat_args cs ++ tail)).
    + rewrite F2 by lia. rewrite <- app_assoc. cbn [map app length].
      rewrite Nat2Z.inj_succ.
      replace (nreq - 1 - Z.of_nat (length cs))%Z with (nreq - Z.succ (Z.of_nat (length cs)))%Z
        by lia.
      reflexivity.
    + lia.
    + apply arg_after_spacer; assumption.
    + exact Hob.
    + apply (F1 f). lia.
Qed.

Lemma all_bracket_no_brace bs :
  forallb is_bracket_arg bs = true -> existsb is_brace_arg bs = false.
Proof.
  induction bs as [|a bs IH]; [reflexivity|]. cbn [forallb existsb]. intro H.
  apply andb_true_iff in H. destruct H as [Ha H]. rewrite (IH H), orb_false_r.
  unfold is_bracket_arg in Ha. unfold is_brace_arg. apply groupkind_eqb_eq in Ha.
  rewrite Ha. reflexivity.
Qed.

Lemma stopsb_head k toks :
  k <> TMergedSpacer -> stopsb k toks = true -> head_notb k toks = true.
Proof.
  intros Hk H. apply stopsb_stops in H.
  pose proof (stops_at_head k toks Hk H) as H'. unfold head_notb.
  destruct toks as [|t ts]; [reflexivity|]. rewrite H'. reflexivity.
Qed.

(* read_args with the "as many as there are" counts: first pass brackets,
   first pass braces, and the two second passes find nothing *)
Lemma args_read bs cs : Forall PPa bs -> Forall PPa cs -> forall strict m rest,
  mode_is_special m = false ->
  forallb (wf_arg (mode_is_math m)) bs = true -> forallb is_bracket_arg bs = true ->
  forallb (wf_arg (mode_is_math m)) cs = true -> forallb is_brace_arg cs = true ->
  cmd_follow (bs ++ cs) rest = true ->
  Reads (fun f => read_args f (-1) (-1) strict m (flat_args (bs ++ cs) ++ rest))
        (Ok (map tree_arg (bs ++ cs), rest)).
Proof.
  intros Hbs Hcs strict m rest Hm Wb Kb Wc Kc Hfol.
  unfold cmd_follow in Hfol. apply andb_true_iff in Hfol. destruct Hfol as [Fg Fb].
  rewrite existsb_app, (all_bracket_no_brace bs Kb), orb_false_l in Fb.
  (* the bracket loop stops in front of the brace groups / the rest *)
  assert (S1 : stopsb TBracketBegin (flat_args cs ++ rest) = true).
  { destruct cs as [|[sp k o b c] cs'].
    - exact Fb.
    - cbn [forallb] in Wc, Kc.
      apply andb_true_iff in Wc. destruct Wc as [Wa _].
      apply andb_true_iff in Kc. destruct Kc as [Ka _].
      unfold is_brace_arg in Ka. cbn [arg_kind] in Ka. apply groupkind_eqb_eq in Ka. subst k.
      destruct (wf_arg_parts _ _ _ _ _ _ Wa) as (W1 & W2 & _).
      apply opens_group_kind_spec in W2. destruct W2 as (_ & _ & Ho & Hob).
      unfold stopsb. rewrite flat_args_cons, <- app_assoc.
      rewrite (head_after_spacer_arg sp GBrace o b c _ W1 Ho).
      rewrite (is_tc_excl _ TBracketBegin _ Hob); [reflexivity | discriminate]. }
  assert (H3 : head_notb TBracketBegin rest = true).
  { destruct cs as [|c0 cs'].
    - apply stopsb_head; [discriminate | exact Fb].
    - cbn [forallb] in Kc. apply andb_true_iff in Kc. destruct Kc as [Ka _].
      cbn [existsb] in Fb. rewrite Ka in Fb. exact Fb. }
  assert (H4 : head_notb TGroupBegin rest = true).
  { apply stopsb_head; [discriminate | exact Fg]. }
  destruct (opt_loop bs Hbs [] (-1)%Z strict m (flat_args cs ++ rest) Hm ltac:(lia) Wb Kb S1)
    as [f1 F1].
  destruct (req_loop cs Hcs ([] ++ map tree_arg bs) (-1)%Z strict m rest
                     Hm ltac:(lia) Wc Kc Fg) as [f2 F2].
  exists (S (Nat.max f1 f2)). intros f Hf. destruct f as [|f]; [lia|].
  rewrite C09_read_args_passes by reflexivity.
  rewrite flat_args_app, <- app_assoc.
  rewrite F1 by lia. cbn [bind]. rewrite F2 by lia. cbn [bind].
  unfold head_notb in H3, H4.
  destruct rest as [|t ts]; cbn [bind app].
  - rewrite map_app. reflexivity.
  - apply negb_true_iff in H3, H4. rewrite H3. cbn [bind]. rewrite H4. cbn [bind].
    rewrite map_app. reflexivity.
Qed.

Lemma brackets_first_split args :
  brackets_first (map arg_kind args) = true ->
  exists bs cs, args = bs ++ cs /\
                forallb is_bracket_arg bs = true /\ forallb is_brace_arg cs = true.
Proof.
  induction args as [|a args IH]; cbn [map brackets_first]; intro H.
  - exists [], []. repeat split.
  - destruct (arg_kind a) eqn:Ek.
    + exists [], (a :: args). split; [reflexivity|]. split; [reflexivity|].
      cbn [forallb]. unfold is_brace_arg at 1. rewrite Ek. cbn [groupkind_beq andb].
      clear IH Ek. induction args as [|b args IH]; [reflexivity|].
      cbn [map forallb] in H |- *. apply andb_true_iff in H. destruct H as [Hb H].
      rewrite (IH H), andb_true_r. exact Hb.
    + destruct (IH H) as (bs & cs & -> & Hb & Hc).
      exists (a :: bs), cs. split; [reflexivity|]. split; [|exact Hc].
      cbn [forallb]. rewrite Hb, andb_true_r. unfold is_bracket_arg. rewrite Ek. reflexivity.
Qed.

(* ------------------------------------------------------- the command *)

Lemma name_ok_parts n :
  name_ok n = true ->
  signature_of (ttext n) = ((-1)%Z, (-1)%Z) /\ str_eqb (ttext n) s_item = false /\
  str_eqb (ttext n) s_begin = false /\ str_eqb (ttext n) s_end = false /\
  mem_str (ttext n) Tables.special_commands = false.
Proof.
  unfold name_ok. intro H.
  apply andb_true_iff in H. destruct H as [H H5].
  apply andb_true_iff in H. destruct H as [H H4].
  apply andb_true_iff in H. destruct H as [H H3].
  apply andb_true_iff in H. destruct H as [H1 H2].
  apply negb_true_iff in H2, H3, H4, H5.
  destruct (signature_of (ttext n)) as [a b].
  apply andb_true_iff in H1. destruct H1 as [Ha Hb].
  apply Z.eqb_eq in Ha, Hb. subst. auto.
Qed.

Lemma read_command_plain f strict m n src :
  signature_of (ttext n) = ((-1)%Z, (-1)%Z) ->
  mem_str (ttext n) Tables.special_commands = false ->
  read_command (S f) (-1) (-1) 0 strict m (n :: src) =
  bind (read_args f (-1) (-1) strict m src) (fun '(args, src1) => Ok ((ttext n, args), src1)).
Proof.
  intros Hs Hm. simpl. change (skipn 0 (n :: src)) with (n :: src). cbv iota beta.
  rewrite Hs, Hm. reflexivity.
Qed.

(* the command part of a plain-named command: the name and all of its
   arguments; used for \name, \begin and \end alike *)
Lemma cmd_head_read n bs cs : Forall PPa bs -> Forall PPa cs -> forall strict m rest,
  mode_is_special m = false ->
  signature_of (ttext n) = ((-1)%Z, (-1)%Z) ->
  mem_str (ttext n) Tables.special_commands = false ->
  forallb (wf_arg (mode_is_math m)) bs = true -> forallb is_bracket_arg bs = true ->
  forallb (wf_arg (mode_is_math m)) cs = true -> forallb is_brace_arg cs = true ->
  cmd_follow (bs ++ cs) rest = true ->
  Reads (fun f => read_command f (-1) (-1) 0 strict m (n :: flat_args (bs ++ cs) ++ rest))
        (Ok ((ttext n, map tree_arg (bs ++ cs)), rest)).
Proof.
  intros Hbs Hcs strict m rest Hm Hsig Hsp Wb Kb Wc Kc Hfol.
  destruct (args_read bs cs Hbs Hcs strict m rest Hm Wb Kb Wc Kc Hfol) as [f1 F1].
  exists (S f1). intros f Hf. destruct f as [|f]; [lia|].
  rewrite (read_command_plain f strict m n _ Hsig Hsp), F1 by lia. reflexivity.
Qed.

Lemma read_expr_plain_cmd f skip strict m e n src args src1 :
  is_tc TEscape e = true -> name_ok n = true ->
  read_command f (-1) (-1) 0 strict m (n :: src) = Ok ((ttext n, args), src1) ->
  read_expr (S f) skip strict m (e :: n :: src) =
  Ok (ECmd (strip (ttext n)) args [] (tpos e), src1).
Proof.
  intros He Hn Ha. destruct (name_ok_parts n Hn) as (Hs & Hi & Hb & _ & Hm).
  cbn [read_expr]. rewrite (escape_not_math_begin e He), He, Ha. cbn [bind].
  rewrite Hi, Hb. reflexivity.
Qed.

(* ------------------------------------------------------- environments *)

(* read_command with one token to skip is read_command on the tail *)
Lemma read_command_skip1 f nreq nopt strict m e src :
  read_command f nreq nopt 1 strict m (e :: src) = read_command f nreq nopt 0 strict m src.
Proof.
  destruct f as [|f]; [reflexivity|]. cbn [read_command].
  change (skipn 1 (e :: src)) with src. change (skipn 0 src) with src.
  assert (H1 : (length (e :: src) <? 1)%nat = false) by (apply Nat.ltb_ge; simpl; lia).
  assert (H2 : (length src <? 0)%nat = false) by (apply Nat.ltb_ge; lia).
  rewrite H1, H2. reflexivity.
Qed.

(* "a peek returns what the real read returns": if read_expr succeeds on an
   escape, the look-ahead of read_env / read_item on the same tokens succeeds
   and reports the token after the escape as the command name *)
Lemma peek_of_read_expr f skip strict m e n src r :
  is_tc TEscape e = true ->
  read_expr (S f) skip strict m (e :: n :: src) = Ok r ->
  exists args src1,
    read_command f (-1) (-1) 1 strict m (e :: n :: src) = Ok ((ttext n, args), src1).
Proof.
  intros He H. cbn [read_expr] in H. rewrite (escape_not_math_begin e He), He in H.
  apply bind_ok in H. destruct H as ([[name args] src1] & Hc & _).
  pose proof (read_command_name _ _ _ _ _ _ _ _ _ _ Hc) as Hn. subst name.
  exists args, src1. rewrite read_command_skip1. exact Hc.
Qed.

(* one layer of the environment loop *)
Lemma env_loop_step_other f name args pos skip strict m acc t l :
  is_tc TEscape t = false ->
  read_env_loop (S f) name args pos skip strict m acc (t :: l) =
  bind (read_expr f skip strict m (t :: l)) (fun '(e, src1) =>
    read_env_loop f name args pos skip strict m (acc ++ [e]) src1).
Proof. intro H. simpl. rewrite H. reflexivity. Qed.

Lemma env_loop_step_esc f name args pos skip strict m acc t l cname cargs crest :
  is_tc TEscape t = true ->
  read_command f (-1) (-1) 1 strict m (t :: l) = Ok ((cname, cargs), crest) ->
  str_eqb cname s_end = false ->
  read_env_loop (S f) name args pos skip strict m acc (t :: l) =
  bind (read_expr f skip strict m (t :: l)) (fun '(e, src1) =>
    read_env_loop f name args pos skip strict m (acc ++ [e]) src1).
Proof. intros H Hc Hn. simpl. rewrite H, Hc. cbn [bind]. rewrite Hn. reflexivity. Qed.

Lemma env_loop_end f name args pos skip strict m acc t l cname a0 cargs crest c src3 g rest :
  is_tc TEscape t = true ->
  read_command f (-1) (-1) 1 strict m (t :: l) = Ok ((cname, a0 :: cargs), crest) ->
  str_eqb cname s_end = true -> str_eqb (arg_string a0) name = true ->
  snd (read_spacer (skipn 2 (t :: l))) = c :: src3 ->
  read_arg f c strict m src3 = Ok (g, rest) ->
  read_env_loop (S f) name args pos skip strict m acc (t :: l) =
  Ok (ENamed name args acc pos, rest).
Proof.
  intros H Hc Hn Ha Hs Hg. simpl. rewrite H, Hc. cbn [bind]. rewrite Hn, Ha. cbn [negb].
  destruct (read_spacer (skipn 2 (t :: l))) as [b0 src2]. cbn [snd] in Hs. subst src2.
  rewrite Hg. reflexivity.
Qed.

(* an element that starts with an escape is a command or an environment:
   its second token is the name, and the name is not `end` *)
Lemma escape_head_shape mm d :
  wf mm d = true -> is_tc TEscape (dhead d) = true ->
  exists n tl, flat d = dhead d :: n :: tl /\ str_eqb (ttext n) s_end = false.
Proof.
  destruct d as [t|o b c|e n args|k o b c|e b ng body e2 en ng2]; intros Hwf He; cbn [dhead] in He.
  - exfalso. cbn [wf] in Hwf. apply is_tc_true in He. rewrite He in Hwf. discriminate Hwf.
  - exfalso. rewrite wf_group in Hwf.
    apply andb_true_iff in Hwf. destruct Hwf as [Hwf _].
    apply andb_true_iff in Hwf. destruct Hwf as [H1 _].
    rewrite (is_tc_excl _ TEscape _ H1) in He; discriminate.
  - rewrite wf_cmd in Hwf.
    apply andb_true_iff in Hwf. destruct Hwf as [Hwf _].
    apply andb_true_iff in Hwf. destruct Hwf as [Hwf _].
    apply andb_true_iff in Hwf. destruct Hwf as [_ H2].
    destruct (name_ok_parts n H2) as (_ & _ & _ & Hend & _).
    exists n, (flat_args args). split; [reflexivity | exact Hend].
  - exfalso. rewrite wf_math in Hwf.
    apply andb_true_iff in Hwf. destruct Hwf as [Hwf _].
    apply andb_true_iff in Hwf. destruct Hwf as [H1 _].
    apply opens_math_kind_spec in H1. destruct H1 as [H1 _].
    rewrite (escape_not_math_begin o He) in H1. discriminate H1.
  - rewrite wf_env in Hwf.
    do 11 (apply andb_true_iff in Hwf; destruct Hwf as [Hwf _]).
    apply andb_true_iff in Hwf. destruct Hwf as [_ Hb]. apply str_eqb_eq in Hb.
    exists b, (flat_arg ng ++ flat_list body ++ e2 :: en :: flat_arg ng2).
    split; [reflexivity|]. rewrite Hb. reflexivity.
Qed.

Lemma end_facts en :
  str_eqb (ttext en) s_end = true ->
  signature_of (ttext en) = ((-1)%Z, (-1)%Z) /\
  mem_str (ttext en) Tables.special_commands = false.
Proof. intro H. apply str_eqb_eq in H. rewrite H. split; vm_compute; reflexivity. Qed.

Lemma begin_facts b :
  str_eqb (ttext b) s_begin = true ->
  signature_of (ttext b) = ((-1)%Z, (-1)%Z) /\
  mem_str (ttext b) Tables.special_commands = false /\ ttext b = s_begin.
Proof.
  intro H. apply str_eqb_eq in H. rewrite H. repeat split; vm_compute; reflexivity.
Qed.

(* the body of an environment: elements one by one (each escape is peeked
   at first), then  \end <name group> *)
Lemma seq_env ds : Forall PPd ds ->
  forall name args pos skip strict m acc e2 en ng2 rest,
  mode_is_special m = false -> sub_skip SK skip ->
  seq_wf (wf (mode_is_math m)) CEnv ds (e2 :: en :: flat_arg ng2 ++ rest) = true ->
  PPa ng2 ->
  is_tc TEscape e2 = true -> str_eqb (ttext en) s_end = true ->
  wf_arg (mode_is_math m) ng2 = true -> is_brace_arg ng2 = true ->
  str_eqb (arg_string (tree_arg ng2)) name = true -> cmd_follow [ng2] rest = true ->
  Reads (fun f => read_env_loop f name args pos skip strict m acc
                    (flat_list ds ++ e2 :: en :: flat_arg ng2 ++ rest))
        (Ok (ENamed name args (acc ++ map tree ds) pos, rest)).
Proof.
  induction 1 as [|d ds Hd Hds IH];
    intros name args pos skip strict m acc e2 en ng2 rest Hm Hsk Hwf Hng2 He2 Hen Wng2 Kng2 Hnm Hfol.
  - (* \end{name} *)
    destruct (end_facts en Hen) as [Hsig Hsp].
    assert (Wc : forallb (wf_arg (mode_is_math m)) [ng2] = true)
      by (cbn [forallb]; rewrite Wng2; reflexivity).
    assert (Kc : forallb is_brace_arg [ng2] = true)
      by (cbn [forallb]; rewrite Kng2; reflexivity).
    destruct (cmd_head_read en [] [ng2] (Forall_nil _) (Forall_cons _ Hng2 (Forall_nil _))
                strict m rest Hm Hsig Hsp eq_refl eq_refl Wc Kc Hfol) as [f1 F1].
    destruct ng2 as [sp k o b c].
    destruct (wf_arg_parts _ _ _ _ _ _ Wng2) as (W1 & W2 & W3 & W4).
    apply opens_group_kind_spec in W2. destruct W2 as (_ & _ & Ho & _).
    destruct (Hng2 strict m rest Hm Wng2) as [f2 F2].
    exists (S (Nat.max f1 f2)). intros f Hf. destruct f as [|f]; [lia|].
    change (flat_list [] ++ e2 :: en :: flat_arg (Arg sp k o b c) ++ rest)
      with (e2 :: en :: flat_arg (Arg sp k o b c) ++ rest).
    simpl map. rewrite app_nil_r.
    apply (env_loop_end f name args pos skip strict m acc e2 _ (ttext en)
             (tree_arg (Arg sp k o b c)) [] rest o
             (arg_inner (Arg sp k o b c) ++ rest) (tree_arg (Arg sp k o b c)) rest He2).
    + rewrite read_command_skip1.
      assert (E := F1 f ltac:(lia)). cbv beta in E.
      unfold flat_args in E. cbn [app map concat] in E. rewrite app_nil_r in E. exact E.
    + exact Hen.
    + exact Hnm.
    + change (skipn 2 (e2 :: en :: flat_arg (Arg sp k o b c) ++ rest))
        with (flat_arg (Arg sp k o b c) ++ rest).
      apply arg_after_spacer; assumption.
    + apply (F2 f). lia.
  - rewrite seq_wf_cons in Hwf.
    apply andb_true_iff in Hwf. destruct Hwf as [Hwf H4].
    apply andb_true_iff in Hwf. destruct Hwf as [Hwf H3].
    apply andb_true_iff in Hwf. destruct Hwf as [_ H2].
    set (tail := e2 :: en :: flat_arg ng2 ++ rest) in *.
    destruct (Hd skip strict m (flat_list ds ++ tail) Hm Hsk H2 H3) as [f1 F1].
    destruct (IH name args pos skip strict m (acc ++ [tree d]) e2 en ng2 rest
                 Hm Hsk H4 Hng2 He2 Hen Wng2 Kng2 Hnm Hfol) as [f2 F2].
    fold tail in F2.
    exists (S (S (Nat.max f1 f2))). intros f Hf. destruct f as [|f]; [lia|].
    rewrite flat_list_cons, <- app_assoc.
    assert (E1 := F1 f ltac:(lia)). cbv beta in E1.
    destruct (is_tc TEscape (dhead d)) eqn:Ee.
    + destruct (escape_head_shape _ d H2 Ee) as (n & tl & Htl & Hnend).
      rewrite Htl in E1 |- *. rewrite <- !app_comm_cons in E1 |- *.
      destruct f as [|f]; [lia|].
      destruct (peek_of_read_expr f skip strict m (dhead d) n _ _ Ee E1) as (pa & ps & Hp).
      assert (Hp' : read_command (S f) (-1) (-1) 1 strict m (dhead d :: n :: tl ++ flat_list ds ++ tail)
                    = Ok ((ttext n, pa), ps)).
      { apply (enough_fuel_command f (S f)); [exact Hp | discriminate | lia]. }
      rewrite (env_loop_step_esc (S f) name args pos skip strict m acc (dhead d) _ _ _ _
                 Ee Hp' Hnend).
      rewrite E1. cbn [bind]. rewrite F2 by lia. rewrite <- app_assoc. reflexivity.
    + destruct (flat_head d) as [tl Htl].
      rewrite Htl in E1 |- *. rewrite <- !app_comm_cons in E1 |- *.
      rewrite (env_loop_step_other f name args pos skip strict m acc (dhead d) _ Ee).
      rewrite E1. cbn [bind]. rewrite F2 by lia. rewrite <- app_assoc. reflexivity.
Qed.

(* \begin <name group> hands over to the environment loop *)
Lemma read_expr_begin f skip strict m e b src a0 args' src1 :
  is_tc TEscape e = true -> mode_is_special m = false ->
  read_command f (-1) (-1) 0 strict m (b :: src) = Ok ((s_begin, a0 :: args'), src1) ->
  mem_str (strip (arg_string a0)) Tables.math_env_names = false ->
  mem_str (strip (arg_string a0)) skip = false ->
  read_expr (S f) skip strict m (e :: b :: src) =
  read_env_loop f (strip (arg_string a0)) args' (tpos e) skip strict m [] src1.
Proof.
  intros He Hm Hc Hmath Hskip. cbn [read_expr].
  rewrite (escape_not_math_begin e He), He, Hc. cbn [bind].
  replace (str_eqb s_begin s_item) with false by (vm_compute; reflexivity).
  replace (str_eqb s_begin s_begin) with true by (vm_compute; reflexivity).
  rewrite Hm. cbn [negb andb]. rewrite Hmath, Hskip. reflexivity.
Qed.

(* ------------------------------------------------------- the induction *)

Theorem PP_all : forall d, PPd d.
Proof.
  apply (doc_ind' PPd PPa).
  - (* leaf *)
    intros t skip strict m rest _ _ Hwf _. exists 1%nat. intros f Hf. destruct f as [|f]; [lia|].
    cbn [flat tree app]. apply read_expr_leaf. exact Hwf.
  - (* brace group *)
    intros o b c Hb skip strict m rest _ _ Hwf _. rewrite wf_group in Hwf.
    apply andb_true_iff in Hwf. destruct Hwf as [Hwf H3].
    apply andb_true_iff in Hwf. destruct Hwf as [H1 H2].
    assert (Wa : wf_arg (mode_is_math MNonMath) (Arg None GBrace o b c) = true).
    { rewrite wf_arg_eq, H2. cbn [mode_is_math]. rewrite H3. unfold opens_group_kind.
      replace (group_tok_begin GBrace) with (Some TGroupBegin) by (vm_compute; reflexivity).
      rewrite H1. reflexivity. }
    destruct (arg_group None GBrace o b c Hb strict MNonMath rest eq_refl Wa) as [f1 F1].
    exists (S f1). intros f Hf. destruct f as [|f]; [lia|].
    rewrite flat_group. rewrite <- app_comm_cons.
    rewrite (read_expr_group_open f skip strict m o _ H1).
    apply (F1 f). lia.
  - (* command *)
    intros e n args Hargs skip strict m rest Hm _ Hwf Hfol. rewrite wf_cmd in Hwf.
    apply andb_true_iff in Hwf. destruct Hwf as [Hwf H4].
    apply andb_true_iff in Hwf. destruct Hwf as [Hwf H3].
    apply andb_true_iff in Hwf. destruct Hwf as [H1 H2].
    destruct (brackets_first_split args H3) as (bs & cs & -> & Kb & Kc).
    apply Forall_app in Hargs. destruct Hargs as [Hbs Hcs].
    rewrite forallb_app in H4. apply andb_true_iff in H4. destruct H4 as [Wb Wc].
    cbn [follows_ok] in Hfol.
    destruct (name_ok_parts n H2) as (Hsig & _ & _ & _ & Hsp).
    destruct (cmd_head_read n bs cs Hbs Hcs strict m rest Hm Hsig Hsp Wb Kb Wc Kc Hfol)
      as [f1 F1].
    exists (S f1). intros f Hf. destruct f as [|f]; [lia|].
    rewrite flat_cmd. rewrite <- !app_comm_cons.
    apply (read_expr_plain_cmd f skip strict m e n _ _ rest H1 H2).
    apply F1. lia.
  - (* math region *)
    intros k o b c Hb skip strict m rest _ _ Hwf _. rewrite wf_math in Hwf.
    apply andb_true_iff in Hwf. destruct Hwf as [Hwf H3].
    apply andb_true_iff in Hwf. destruct Hwf as [H1 H2].
    apply opens_math_kind_spec in H1. destruct H1 as [Hk _].
    pose proof (seq_wf_ext _ (CMath k) b c [] rest (math_end_not_spacer k c H2) H3) as H3'.
    destruct (seq_math b Hb k (tpos o) strict [] c rest H3' H2) as [f1 F1].
    exists (S f1). intros f Hf. destruct f as [|f]; [lia|].
    rewrite flat_math. rewrite <- app_comm_cons, <- app_assoc. cbn [app].
    rewrite (C12_math_opens f skip strict m o _ k Hk).
    apply F1. lia.
  - (* environment *)
    intros e b ng body e2 en ng2 Hng Hbody Hng2 skip strict m rest Hm Hsk Hwf Hfol.
    rewrite wf_env in Hwf.
    apply andb_true_iff in Hwf. destruct Hwf as [Hwf W13].
    apply andb_true_iff in Hwf. destruct Hwf as [Hwf W12].
    apply andb_true_iff in Hwf. destruct Hwf as [Hwf W11].
    apply andb_true_iff in Hwf. destruct Hwf as [Hwf W10].
    apply andb_true_iff in Hwf. destruct Hwf as [Hwf W9].
    apply andb_true_iff in Hwf. destruct Hwf as [Hwf W8].
    apply andb_true_iff in Hwf. destruct Hwf as [Hwf W7].
    apply andb_true_iff in Hwf. destruct Hwf as [Hwf W6].
    apply andb_true_iff in Hwf. destruct Hwf as [Hwf W5].
    apply andb_true_iff in Hwf. destruct Hwf as [Hwf W4].
    apply andb_true_iff in Hwf. destruct Hwf as [Hwf W3].
    apply andb_true_iff in Hwf. destruct Hwf as [W1 W2].
    apply negb_true_iff in W5, W6.
    cbn [follows_ok] in Hfol.
    destruct (begin_facts b W2) as (Hsig & Hsp & Hb).
    set (tail := e2 :: en :: flat_arg ng2 ++ rest).
    assert (Ne2 : is_tc TMergedSpacer e2 = false)
      by (apply (is_tc_excl _ _ _ W9); discriminate).
    (* the command part of \begin *)
    assert (Wc : forallb (wf_arg (mode_is_math m)) [ng] = true)
      by (cbn [forallb]; rewrite W3; reflexivity).
    assert (Kc : forallb is_brace_arg [ng] = true)
      by (cbn [forallb]; rewrite W4; reflexivity).
    assert (Fb : cmd_follow [ng] (flat_list body ++ tail) = true).
    { unfold tail. change (e2 :: en :: flat_arg ng2 ++ rest)
                     with (e2 :: [] ++ (en :: flat_arg ng2 ++ rest)).
      rewrite <- (cmd_follow_ext [ng] (flat_list body) e2 [] _ Ne2). exact W7. }
    destruct (cmd_head_read b [] [ng] (Forall_nil _) (Forall_cons _ Hng (Forall_nil _))
                strict m (flat_list body ++ tail) Hm Hsig Hsp eq_refl eq_refl Wc Kc Fb)
      as [f1 F1].
    (* the body and \end *)
    assert (Wb : seq_wf (wf (mode_is_math m)) CEnv body tail = true).
    { unfold tail. change (e2 :: en :: flat_arg ng2 ++ rest)
                     with (e2 :: [en] ++ (flat_arg ng2 ++ rest)).
      apply seq_wf_ext; [exact Ne2 | exact W8]. }
    destruct (seq_env body Hbody (env_name ng) [] (tpos e) skip strict m [] e2 en ng2 rest
                      Hm Hsk Wb Hng2 W9 W10 W11 W12 W13 Hfol) as [f2 F2].
    fold tail in F2.
    assert (Hskip : mem_str (env_name ng) skip = false).
    { destruct (mem_str (env_name ng) skip) eqn:E; [|reflexivity].
      apply Hsk in E. congruence. }
    exists (S (Nat.max f1 f2)). intros f Hf. destruct f as [|f]; [lia|].
    rewrite flat_env. rewrite <- !app_comm_cons.
    assert (E1 := F1 f ltac:(lia)). cbv beta in E1.
    unfold flat_args in E1. cbn [app map concat] in E1. rewrite app_nil_r in E1.
    rewrite Hb in E1.
    replace ((flat_arg ng ++ flat_list body ++ e2 :: en :: flat_arg ng2) ++ rest)
      with (flat_arg ng ++ flat_list body ++ tail).
    2:{ unfold tail. rewrite <- !app_assoc. rewrite <- !app_comm_cons. reflexivity. }
    rewrite (read_expr_begin f skip strict m e b _ (tree_arg ng) [] _ W1 Hm E1 W5 Hskip).
    cbn [tree]. apply (F2 f). lia.
  - (* argument group *)
    intros sp k o b c Hb. apply arg_group. exact Hb.
Qed.

Lemma PP_Forall ds : Forall PPd ds.
Proof. apply Forall_forall. intros d _. apply PP_all. Qed.

(* ------------------------------ explicit fuel (via Stage 0 and TOT) *)

(* one document element, followed by anything its follow condition allows *)
Theorem PP_expr d skip strict m rest f :
  mode_is_special m = false -> sub_skip SK skip ->
  wf (mode_is_math m) d = true -> follows_ok d rest = true ->
  (3 * length (flat d ++ rest) + 1 <= f)%nat ->
  read_expr f skip strict m (flat d ++ rest) = Ok (tree d, rest).
Proof.
  intros Hm Hsk Hwf Hfol Hf.
  destruct (PP_all d skip strict m rest Hm Hsk Hwf Hfol) as [f0 F0].
  apply (fuel_any_expr f0); [apply F0; lia | exact Hf].
Qed.

(* the body of a group closed by `c` *)
Theorem PP_seq_group ds k pos strict m acc c rest f :
  mode_is_special m = false ->
  wf_seq (mode_is_math m) (CGroup k) ds (c :: rest) = true -> is_group_end k c = true ->
  (3 * length (flat_list ds ++ c :: rest) + 2 <= f)%nat ->
  read_arg_loop f k pos strict m acc (flat_list ds ++ c :: rest)
  = Ok (EGroup k (acc ++ map tree ds) pos, rest).
Proof.
  intros Hm Hwf Hc Hf.
  destruct (seq_group ds (PP_Forall ds) k pos strict m acc c rest Hm Hwf Hc) as [f0 F0].
  apply (fuel_any_argloop f0); [apply F0; lia | exact Hf].
Qed.

(* the body of a math region closed by `c` *)
Theorem PP_seq_math ds k pos strict acc c rest f :
  wf_seq true (CMath k) ds (c :: rest) = true -> is_math_end k c = true ->
  (3 * length (flat_list ds ++ c :: rest) + 2 <= f)%nat ->
  read_math_loop f k pos strict acc (flat_list ds ++ c :: rest)
  = Ok (EMath k (acc ++ map tree ds) pos, rest).
Proof.
  intros Hwf Hc Hf.
  destruct (seq_math ds (PP_Forall ds) k pos strict acc c rest Hwf Hc) as [f0 F0].
  apply (fuel_any_math f0); [apply F0; lia | exact Hf].
Qed.

(* --------------------------------------------------------- top level *)

Lemma read_tex_loop_step f ef skip strict acc toks :
  toks <> [] ->
  read_tex_loop (S f) ef skip strict acc toks =
  bind (read_expr ef skip strict MNonMath toks) (fun '(e, rest) =>
    read_tex_loop f ef skip strict (acc ++ [e]) rest).
Proof. destruct toks; [congruence | reflexivity]. Qed.

Theorem PP_tex_loop ds : forall fuel efuel skip strict acc,
  sub_skip SK skip -> wf_seq false CTop ds [] = true ->
  (length (flat_list ds) < fuel)%nat -> (3 * length (flat_list ds) + 1 <= efuel)%nat ->
  read_tex_loop fuel efuel skip strict acc (flat_list ds) = Ok (acc ++ map tree ds).
Proof.
  induction ds as [|d ds IH]; intros fuel efuel skip strict acc Hsk Hwf Hfu Hef.
  - destruct fuel as [|fuel]; [simpl in Hfu; lia|]. simpl. rewrite app_nil_r. reflexivity.
  - unfold wf_seq in Hwf. rewrite seq_wf_cons in Hwf.
    apply andb_true_iff in Hwf. destruct Hwf as [Hwf H4].
    apply andb_true_iff in Hwf. destruct Hwf as [Hwf H3].
    apply andb_true_iff in Hwf. destruct Hwf as [_ H2].
    rewrite app_nil_r in H3.
    rewrite flat_list_cons in Hfu, Hef |- *. rewrite app_length in Hfu, Hef.
    pose proof (flat_length_pos d) as Hpos.
    destruct fuel as [|fuel]; [lia|].
    rewrite read_tex_loop_step.
    2:{ destruct (flat_head d) as [tl ->]. discriminate. }
    rewrite (PP_expr d skip strict MNonMath (flat_list ds) efuel eq_refl Hsk H2 H3)
      by (rewrite app_length; lia).
    cbn [bind]. rewrite IH; [|exact Hsk|exact H4|lia|lia].
    rewrite <- app_assoc. reflexivity.
Qed.

End WithSkip.

Lemma sub_skip_refl SK : sub_skip SK SK.
Proof. intros n H. exact H. Qed.

(* PP, top level: the token list of a well-formed document sequence parses
   to exactly the expected trees, in both tolerance modes; the environment
   names must not be among the verbatim names (built-in or user's) *)
Theorem PP_parse_tokens ds strict user :
  wf_seq (all_skip user) false CTop ds [] = true ->
  parse_tokens (flat_list ds) strict user = Ok (ERoot (map tree ds)).
Proof.
  intro Hwf. unfold parse_tokens, fuel_for.
  rewrite (PP_tex_loop (all_skip user) ds _ _ _ strict [] (sub_skip_refl _) Hwf) by lia.
  reflexivity.
Qed.

(* ====================================================================== *)
(* print o parse o print: the expected tree prints as the tokens          *)
(* ====================================================================== *)

(* no spacer between a command and its argument groups, unpadded names *)
Fixpoint printable (d : doc) : bool :=
  match d with
  | DLeaf _ => true
  | DGroup _ b _ => forallb printable b
  | DCmd _ n args => str_eqb (strip (ttext n)) (ttext n) && forallb printable_arg args
  | DMath _ _ b _ => forallb printable b
  | DEnv _ _ ng body _ _ ng2 =>
    printable_arg ng && printable_arg ng2 &&
    str_eqb (strip (arg_string (tree_arg ng))) (arg_string (tree_arg ng)) &&
    forallb printable body
  end
with printable_arg (a : arg) : bool :=
  match a with
  | Arg sp _ _ b _ => match sp with None => true | Some _ => false end && forallb printable b
  end.

Section Print.
Variable SK : list str.

Definition estr_d (d : doc) : Prop := forall mm,
  wf SK mm d = true -> printable d = true -> Forall tok_wf (flat d) ->
  estr (tree d) = texts (flat d).
Definition estr_a (a : arg) : Prop := forall mm,
  wf_arg SK mm a = true -> printable_arg a = true -> Forall tok_wf (flat_arg a) ->
  estr (tree_arg a) = texts (flat_arg a).

Lemma texts_cons t l : texts (t :: l) = ttext t ++ texts l.
Proof. reflexivity. Qed.
Lemma texts_one t : texts [t] = ttext t.
Proof. unfold texts. simpl. apply app_nil_r. Qed.

Lemma estr_body mm x b : Forall estr_d b -> forall r,
  seq_wf (wf SK mm) x b r = true -> forallb printable b = true ->
  Forall tok_wf (flat_list b) ->
  concat (map estr (map tree b)) = texts (flat_list b).
Proof.
  intros Hb r. induction Hb as [|d b Hd _ IH]; intros Hwf Hp Ht; [reflexivity|].
  rewrite seq_wf_cons in Hwf.
  apply andb_true_iff in Hwf. destruct Hwf as [Hwf H4].
  apply andb_true_iff in Hwf. destruct Hwf as [Hwf _].
  apply andb_true_iff in Hwf. destruct Hwf as [_ H2].
  cbn [forallb] in Hp. apply andb_true_iff in Hp. destruct Hp as [Hp1 Hp2].
  rewrite flat_list_cons in Ht |- *. apply Forall_app in Ht. destruct Ht as [Ht1 Ht2].
  cbn [map concat]. rewrite texts_app, (Hd mm H2 Hp1 Ht1), (IH H4 Hp2 Ht2). reflexivity.
Qed.

Lemma tok_wf_group_begin o k :
  tok_wf o -> group_tok_begin k = Some (tcat o) -> ttext o = group_begin k.
Proof. intros (H & _) E. apply H. exact E. Qed.
Lemma tok_wf_group_end c k :
  tok_wf c -> is_group_end k c = true -> ttext c = group_end k.
Proof. intros (_ & H & _) E. apply H. apply is_group_end_tok. exact E. Qed.
Lemma tok_wf_math_begin o k :
  tok_wf o -> math_tok_begin k = Some (tcat o) -> ttext o = math_begin k.
Proof. intros (_ & _ & H & _) E. apply H. exact E. Qed.
Lemma tok_wf_math_end c k :
  tok_wf c -> is_math_end k c = true -> ttext c = math_end k.
Proof. intros (_ & _ & _ & H & _) E. apply H. apply is_math_end_tok. exact E. Qed.
Lemma tok_wf_escape e : tok_wf e -> is_tc TEscape e = true -> ttext e = [backslash].
Proof. intros (_ & _ & _ & _ & H) E. apply H. apply is_tc_true. exact E. Qed.

Lemma estr_arg_group sp k o b c : Forall estr_d b -> estr_a (Arg sp k o b c).
Proof.
  intros Hb mm Hwf Hp Ht.
  destruct (wf_arg_parts _ _ _ _ _ _ _ Hwf) as (W1 & W2 & W3 & W4).
  apply opens_group_kind_spec in W2. destruct W2 as (_ & Hk & _).
  cbn [printable_arg] in Hp. apply andb_true_iff in Hp. destruct Hp as [Hsp Hp].
  destruct sp as [s|]; [discriminate Hsp|].
  rewrite flat_arg_eq in Ht |- *. cbn [opt_tok app] in Ht |- *.
  inversion Ht as [|? ? To Ht']; subst. apply Forall_app in Ht'. destruct Ht' as [Tb Tc].
  inversion Tc as [|? ? Tc' _]; subst.
  cbn [tree_arg estr]. rewrite texts_cons, texts_app, texts_one.
  rewrite (estr_body mm (CGroup k) b Hb [c] W4 Hp Tb).
  rewrite (tok_wf_group_begin o k To Hk), (tok_wf_group_end c k Tc' W3).
  reflexivity.
Qed.

(* a brace argument prints as  { <its string> } *)
Lemma estr_brace_arg a : is_brace_arg a = true ->
  estr (tree_arg a) = [123%N] ++ arg_string (tree_arg a) ++ [125%N].
Proof.
  destruct a as [sp k o b c]. unfold is_brace_arg. cbn [arg_kind]. intro H.
  apply groupkind_eqb_eq in H. subst k. reflexivity.
Qed.

Theorem estr_tree_all : forall d, estr_d d.
Proof.
  apply (doc_ind' estr_d estr_a).
  - intros t mm _ _ _. cbn [tree estr flat]. rewrite texts_one. reflexivity.
  - intros o b c Hb mm Hwf Hp Ht.
    assert (Wa : wf_arg SK false (Arg None GBrace o b c) = true).
    { rewrite wf_group in Hwf. rewrite wf_arg_eq.
      apply andb_true_iff in Hwf. destruct Hwf as [Hwf H3].
      apply andb_true_iff in Hwf. destruct Hwf as [H1 H2].
      rewrite H2, H3. unfold opens_group_kind.
      replace (group_tok_begin GBrace) with (Some TGroupBegin) by (vm_compute; reflexivity).
      rewrite H1. reflexivity. }
    exact (estr_arg_group None GBrace o b c Hb false Wa Hp Ht).
  - intros e n args Hargs mm Hwf Hp Ht. rewrite wf_cmd in Hwf.
    apply andb_true_iff in Hwf. destruct Hwf as [Hwf H4].
    apply andb_true_iff in Hwf. destruct Hwf as [Hwf _].
    apply andb_true_iff in Hwf. destruct Hwf as [H1 _].
    cbn [printable] in Hp. apply andb_true_iff in Hp. destruct Hp as [Hn Hp].
    apply str_eqb_eq in Hn.
    rewrite flat_cmd in Ht |- *.
    inversion Ht as [|? ? Te Ht']; subst. inversion Ht' as [|? ? _ Ta]; subst.
    cbn [tree estr]. rewrite !texts_cons, (tok_wf_escape e Te H1), Hn.
    cbn [app]. f_equal. f_equal. rewrite app_nil_r.
    clear - Hargs H4 Hp Ta.
    induction Hargs as [|a args Ha _ IH]; [reflexivity|].
    cbn [forallb] in H4, Hp.
    apply andb_true_iff in H4. destruct H4 as [W1 W2].
    apply andb_true_iff in Hp. destruct Hp as [P1 P2].
    rewrite flat_args_cons in Ta |- *. apply Forall_app in Ta. destruct Ta as [T1 T2].
    cbn [map concat]. rewrite texts_app, (Ha mm W1 P1 T1), (IH W2 P2 T2). reflexivity.
  - intros k o b c Hb mm Hwf Hp Ht. rewrite wf_math in Hwf.
    apply andb_true_iff in Hwf. destruct Hwf as [Hwf H3].
    apply andb_true_iff in Hwf. destruct Hwf as [H1 H2].
    apply opens_math_kind_spec in H1. destruct H1 as [_ Hk].
    cbn [printable] in Hp.
    rewrite flat_math in Ht |- *.
    inversion Ht as [|? ? To Ht']; subst. apply Forall_app in Ht'. destruct Ht' as [Tb Tc].
    inversion Tc as [|? ? Tc' _]; subst.
    cbn [tree estr]. rewrite texts_cons, texts_app, texts_one.
    rewrite (estr_body true (CMath k) b Hb [c] H3 Hp Tb).
    rewrite (tok_wf_math_begin o k To Hk), (tok_wf_math_end c k Tc' H2).
    reflexivity.
  - (* environment *)
    intros e b ng body e2 en ng2 Hng Hbody Hng2 mm Hwf Hp Ht.
    rewrite wf_env in Hwf.
    apply andb_true_iff in Hwf. destruct Hwf as [Hwf W13].
    apply andb_true_iff in Hwf. destruct Hwf as [Hwf W12].
    apply andb_true_iff in Hwf. destruct Hwf as [Hwf W11].
    apply andb_true_iff in Hwf. destruct Hwf as [Hwf W10].
    apply andb_true_iff in Hwf. destruct Hwf as [Hwf W9].
    apply andb_true_iff in Hwf. destruct Hwf as [Hwf W8].
    apply andb_true_iff in Hwf. destruct Hwf as [Hwf W7].
    apply andb_true_iff in Hwf. destruct Hwf as [Hwf W6].
    apply andb_true_iff in Hwf. destruct Hwf as [Hwf W5].
    apply andb_true_iff in Hwf. destruct Hwf as [Hwf W4].
    apply andb_true_iff in Hwf. destruct Hwf as [Hwf W3].
    apply andb_true_iff in Hwf. destruct Hwf as [W1 W2].
    apply str_eqb_eq in W2, W10, W13.
    cbn [printable] in Hp.
    apply andb_true_iff in Hp. destruct Hp as [Hp P4].
    apply andb_true_iff in Hp. destruct Hp as [Hp P3].
    apply andb_true_iff in Hp. destruct Hp as [P1 P2].
    apply str_eqb_eq in P3.
    rewrite flat_env in Ht |- *.
    inversion Ht as [|? ? Te Ht1]; subst. inversion Ht1 as [|? ? _ Ht2]; subst.
    apply Forall_app in Ht2. destruct Ht2 as [Tng Ht3].
    apply Forall_app in Ht3. destruct Ht3 as [Tbody Ht4].
    inversion Ht4 as [|? ? Te2 Ht5]; subst. inversion Ht5 as [|? ? _ Tng2]; subst.
    rewrite !texts_cons, !texts_app, !texts_cons.
    rewrite <- (Hng mm W3 P1 Tng), <- (Hng2 mm W11 P2 Tng2).
    rewrite <- (estr_body mm CEnv body Hbody [e2; en] W8 P4 Tbody).
    rewrite (estr_brace_arg ng W4), (estr_brace_arg ng2 W12).
    rewrite (tok_wf_escape e Te W1), (tok_wf_escape e2 Te2 W9), W2, W10, W13.
    unfold env_name. rewrite P3.
    cbn [tree estr map concat]. unfold env_begin, env_end.
    change s_begin_open with ([backslash] ++ s_begin ++ [123%N]).
    change s_end_open with ([backslash] ++ s_end ++ [123%N]).
    change s_close with [125%N].
    rewrite <- !app_assoc. cbn [app]. reflexivity.
  - intros sp k o b c Hb. apply estr_arg_group. exact Hb.
Qed.

Theorem estr_tree mm d :
  wf SK mm d = true -> printable d = true -> Forall tok_wf (flat d) ->
  estr (tree d) = texts (flat d).
Proof. apply estr_tree_all. Qed.

Theorem estr_tree_list mm x ds r :
  wf_seq SK mm x ds r = true -> forallb printable ds = true -> Forall tok_wf (flat_list ds) ->
  estr (ERoot (map tree ds)) = texts (flat_list ds).
Proof.
  intros Hwf Hp Ht. cbn [estr].
  assert (Hb : Forall estr_d ds) by (apply Forall_forall; intros d _; apply estr_tree_all).
  exact (estr_body mm x ds Hb r Hwf Hp Ht).
Qed.

End Print.

(* print o parse o print *)
Theorem PP_print_parse_print ds strict user :
  wf_seq (all_skip user) false CTop ds [] = true -> forallb printable ds = true ->
  Forall tok_wf (flat_list ds) ->
  exists t, parse_tokens (flat_list ds) strict user = Ok t /\ estr t = texts (flat_list ds).
Proof.
  intros Hwf Hp Ht. exists (ERoot (map tree ds)). split.
  - apply PP_parse_tokens. exact Hwf.
  - eapply estr_tree_list; eassumption.
Qed.
