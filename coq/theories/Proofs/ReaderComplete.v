(* PP: reader completeness ("parse o print = id", DESIGN.md section 5) at
   TOKEN level for a sub-grammar.

   Stage 0  fuel monotonicity of all ten reader functions (`mono_all_holds`),
            `enough_fuel_*`, `fuel_mono_S`, fuel independence above
            3*|toks|+c (`fuel_independent_*`, `fuel_any_*`).
   Stage 1  a token-level document grammar `doc` / `arg` (leaves, brace
            groups, commands with free or fixed signature and both argument
            passes, math regions, named environments with arguments - math
            environments included -, list items) with its token flattening
            `flat`, its expected tree `tree`, and the boolean well-formedness
            predicates `wf` / `wf_arg` / `follows_ok` / `wf_seq`.
   Stage 2  PP by induction on documents (`PP_all`: for every sufficiently
            large fuel ...), then with explicit fuel: single elements
            (`PP_expr`), bodies of groups and math regions (`PP_seq_group`,
            `PP_seq_math`), whole token lists (`PP_tex_loop`,
            `PP_parse_tokens`, both tolerance modes).
   Then     `estr_tree`: the expected tree prints as the token texts, hence
            `PP_print_parse_print`; examples built from real tokenizer output;
            `_refuted` witnesses showing that the conditions are forced. *)
From Coq Require Import List NArith ZArith Bool Lia Arith.
From TexModel Require Import Base Tables Chars Tokenizer Tree Reader.
From TexProofs Require Import ReaderLen ReaderTotal ReaderCons AttachProofs.
Import ListNotations.

(* ====================================================================== *)
(* Stage 0: fuel monotonicity                                             *)
(* ====================================================================== *)

(* r' refines r: r ran out of fuel, or they agree *)
Definition ref {A} (r r' : res A) : Prop := r = Err OutOfFuel \/ r = r'.

Lemma ref_refl {A} (r : res A) : ref r r.
Proof. right. reflexivity. Qed.

Lemma ref_bind {A B} (r r' : res A) (k k' : A -> res B) :
  ref r r' -> (forall a, ref (k a) (k' a)) -> ref (bind r k) (bind r' k').
Proof.
  intros [-> | ->] H; [left; reflexivity|].
  destruct r' as [a|e]; simpl; [apply H | right; reflexivity].
Qed.

Lemma ref_eq {A} (r r' : res A) : ref r r' -> r <> Err OutOfFuel -> r' = r.
Proof. intros [H | H] Hn; [contradiction | symmetry; exact H]. Qed.

Definition mono_expr f := forall f' skip strict m toks, (f <= f')%nat ->
  ref (read_expr f skip strict m toks) (read_expr f' skip strict m toks).
Definition mono_item f := forall f' acc toks, (f <= f')%nat ->
  ref (read_item_loop f acc toks) (read_item_loop f' acc toks).
Definition mono_math f := forall f' k pos strict acc toks, (f <= f')%nat ->
  ref (read_math_loop f k pos strict acc toks) (read_math_loop f' k pos strict acc toks).
Definition mono_env f := forall f' name args pos skip strict m acc toks, (f <= f')%nat ->
  ref (read_env_loop f name args pos skip strict m acc toks)
      (read_env_loop f' name args pos skip strict m acc toks).
Definition mono_command f := forall f' nreq nopt sk strict m toks, (f <= f')%nat ->
  ref (read_command f nreq nopt sk strict m toks) (read_command f' nreq nopt sk strict m toks).
Definition mono_args f := forall f' nreq nopt strict m toks, (f <= f')%nat ->
  ref (read_args f nreq nopt strict m toks) (read_args f' nreq nopt strict m toks).
Definition mono_opt f := forall f' args nopt strict m toks, (f <= f')%nat ->
  ref (read_arg_optional f args nopt strict m toks) (read_arg_optional f' args nopt strict m toks).
Definition mono_req f := forall f' args nreq strict m toks, (f <= f')%nat ->
  ref (read_arg_required f args nreq strict m toks) (read_arg_required f' args nreq strict m toks).
Definition mono_arg f := forall f' c strict m toks, (f <= f')%nat ->
  ref (read_arg f c strict m toks) (read_arg f' c strict m toks).
Definition mono_argloop f := forall f' k pos strict m acc toks, (f <= f')%nat ->
  ref (read_arg_loop f k pos strict m acc toks) (read_arg_loop f' k pos strict m acc toks).

Definition mono_all f :=
  mono_expr f /\ mono_item f /\ mono_math f /\ mono_env f /\ mono_command f /\ mono_args f /\
  mono_opt f /\ mono_req f /\ mono_arg f /\ mono_argloop f.

(* one step on a goal  ref <reader body at f> <same body at f'> *)
Ltac mstep :=
  match goal with
  | |- ref ?x ?x => apply ref_refl
  | |- ref (bind _ _) (bind _ _) => apply ref_bind; [ | let a := fresh "a" in intros a ]
  | IH : mono_expr ?f |- ref (read_expr ?f _ _ _ _) _ => apply IH; assumption
  | IH : mono_item ?f |- ref (read_item_loop ?f _ _) _ => apply IH; assumption
  | IH : mono_math ?f |- ref (read_math_loop ?f _ _ _ _ _) _ => apply IH; assumption
  | IH : mono_env ?f |- ref (read_env_loop ?f _ _ _ _ _ _ _ _) _ => apply IH; assumption
  | IH : mono_command ?f |- ref (read_command ?f _ _ _ _ _ _) _ => apply IH; assumption
  | IH : mono_args ?f |- ref (read_args ?f _ _ _ _ _) _ => apply IH; assumption
  | IH : mono_opt ?f |- ref (read_arg_optional ?f _ _ _ _ _) _ => apply IH; assumption
  | IH : mono_req ?f |- ref (read_arg_required ?f _ _ _ _ _) _ => apply IH; assumption
  | IH : mono_arg ?f |- ref (read_arg ?f _ _ _ _) _ => apply IH; assumption
  | IH : mono_argloop ?f |- ref (read_arg_loop ?f _ _ _ _ _ _) _ => apply IH; assumption
  | |- ref (match ?x with _ => _ end) _ => destruct_innermost x
  end.

Lemma mono_all_holds : forall f, mono_all f.
Proof.
  induction f as [|f IH].
  { unfold mono_all, mono_expr, mono_item, mono_math, mono_env, mono_command, mono_args,
      mono_opt, mono_req, mono_arg, mono_argloop.
    repeat match goal with |- _ /\ _ => split end; intros; left; reflexivity. }
  destruct IH as (Me & Mi & Mm & Mv & Mc & Ma & Mo & Mr & Mg & Ml).
  unfold mono_all.
  repeat match goal with |- _ /\ _ => split end;
    [unfold mono_expr | unfold mono_item | unfold mono_math | unfold mono_env
     | unfold mono_command | unfold mono_args | unfold mono_opt | unfold mono_req
     | unfold mono_arg | unfold mono_argloop].
  - intros f' skip strict m toks Hle. destruct f' as [|f']; [lia|]. apply le_S_n in Hle.
    simpl. repeat mstep.
  - intros f' acc toks Hle. destruct f' as [|f']; [lia|]. apply le_S_n in Hle.
    simpl. repeat mstep.
  - intros f' k pos strict acc toks Hle. destruct f' as [|f']; [lia|]. apply le_S_n in Hle.
    simpl. repeat mstep.
  - intros f' name args pos skip strict m acc toks Hle. destruct f' as [|f']; [lia|].
    apply le_S_n in Hle. simpl. repeat mstep.
  - intros f' nreq nopt sk strict m toks Hle. destruct f' as [|f']; [lia|]. apply le_S_n in Hle.
    simpl. repeat mstep.
  - intros f' nreq nopt strict m toks Hle. destruct f' as [|f']; [lia|]. apply le_S_n in Hle.
    simpl. repeat mstep.
  - intros f' args nopt strict m toks Hle. destruct f' as [|f']; [lia|]. apply le_S_n in Hle.
    simpl. repeat mstep.
  - intros f' args nreq strict m toks Hle. destruct f' as [|f']; [lia|]. apply le_S_n in Hle.
    simpl. repeat mstep.
  - intros f' c strict m toks Hle. destruct f' as [|f']; [lia|]. apply le_S_n in Hle.
    simpl. repeat mstep.
  - intros f' k pos strict m acc toks Hle. destruct f' as [|f']; [lia|]. apply le_S_n in Hle.
    simpl. repeat mstep.
Qed.

Lemma mono_expr_holds f : mono_expr f.
Proof. destruct (mono_all_holds f) as (M & _); exact M. Qed.
Lemma mono_item_holds f : mono_item f.
Proof. destruct (mono_all_holds f) as (_ & M & _); exact M. Qed.
Lemma mono_math_holds f : mono_math f.
Proof. destruct (mono_all_holds f) as (_ & _ & M & _); exact M. Qed.
Lemma mono_env_holds f : mono_env f.
Proof. destruct (mono_all_holds f) as (_ & _ & _ & M & _); exact M. Qed.
Lemma mono_command_holds f : mono_command f.
Proof. destruct (mono_all_holds f) as (_ & _ & _ & _ & M & _); exact M. Qed.
Lemma mono_args_holds f : mono_args f.
Proof. destruct (mono_all_holds f) as (_ & _ & _ & _ & _ & M & _); exact M. Qed.
Lemma mono_opt_holds f : mono_opt f.
Proof. destruct (mono_all_holds f) as (_ & _ & _ & _ & _ & _ & M & _); exact M. Qed.
Lemma mono_req_holds f : mono_req f.
Proof. destruct (mono_all_holds f) as (_ & _ & _ & _ & _ & _ & _ & M & _); exact M. Qed.
Lemma mono_arg_holds f : mono_arg f.
Proof. destruct (mono_all_holds f) as (_ & _ & _ & _ & _ & _ & _ & _ & M & _); exact M. Qed.
Lemma mono_argloop_holds f : mono_argloop f.
Proof. destruct (mono_all_holds f) as (_ & _ & _ & _ & _ & _ & _ & _ & _ & M); exact M. Qed.

(* enough_fuel: a result other than OutOfFuel obtained with fuel f is the
   result with every fuel f' >= f (in particular with S f) *)
Ltac enough_fuel_tac M :=
  intros H Hn Hle; subst; apply ref_eq; [apply M; exact Hle | exact Hn].

Theorem enough_fuel_expr f f' skip strict m toks r :
  read_expr f skip strict m toks = r -> r <> Err OutOfFuel -> (f <= f')%nat ->
  read_expr f' skip strict m toks = r.
Proof. enough_fuel_tac (mono_expr_holds f). Qed.
Theorem enough_fuel_item f f' acc toks r :
  read_item_loop f acc toks = r -> r <> Err OutOfFuel -> (f <= f')%nat ->
  read_item_loop f' acc toks = r.
Proof. enough_fuel_tac (mono_item_holds f). Qed.
Theorem enough_fuel_math f f' k pos strict acc toks r :
  read_math_loop f k pos strict acc toks = r -> r <> Err OutOfFuel -> (f <= f')%nat ->
  read_math_loop f' k pos strict acc toks = r.
Proof. enough_fuel_tac (mono_math_holds f). Qed.
Theorem enough_fuel_env f f' name args pos skip strict m acc toks r :
  read_env_loop f name args pos skip strict m acc toks = r -> r <> Err OutOfFuel ->
  (f <= f')%nat -> read_env_loop f' name args pos skip strict m acc toks = r.
Proof. enough_fuel_tac (mono_env_holds f). Qed.
Theorem enough_fuel_command f f' nreq nopt sk strict m toks r :
  read_command f nreq nopt sk strict m toks = r -> r <> Err OutOfFuel -> (f <= f')%nat ->
  read_command f' nreq nopt sk strict m toks = r.
Proof. enough_fuel_tac (mono_command_holds f). Qed.
Theorem enough_fuel_args f f' nreq nopt strict m toks r :
  read_args f nreq nopt strict m toks = r -> r <> Err OutOfFuel -> (f <= f')%nat ->
  read_args f' nreq nopt strict m toks = r.
Proof. enough_fuel_tac (mono_args_holds f). Qed.
Theorem enough_fuel_opt f f' args nopt strict m toks r :
  read_arg_optional f args nopt strict m toks = r -> r <> Err OutOfFuel -> (f <= f')%nat ->
  read_arg_optional f' args nopt strict m toks = r.
Proof. enough_fuel_tac (mono_opt_holds f). Qed.
Theorem enough_fuel_req f f' args nreq strict m toks r :
  read_arg_required f args nreq strict m toks = r -> r <> Err OutOfFuel -> (f <= f')%nat ->
  read_arg_required f' args nreq strict m toks = r.
Proof. enough_fuel_tac (mono_req_holds f). Qed.
Theorem enough_fuel_arg f f' c strict m toks r :
  read_arg f c strict m toks = r -> r <> Err OutOfFuel -> (f <= f')%nat ->
  read_arg f' c strict m toks = r.
Proof. enough_fuel_tac (mono_arg_holds f). Qed.
Theorem enough_fuel_argloop f f' k pos strict m acc toks r :
  read_arg_loop f k pos strict m acc toks = r -> r <> Err OutOfFuel -> (f <= f')%nat ->
  read_arg_loop f' k pos strict m acc toks = r.
Proof. enough_fuel_tac (mono_argloop_holds f). Qed.

(* the literal one-step form, all ten functions at once *)
Theorem fuel_mono_S f :
  (forall skip strict m toks r, read_expr f skip strict m toks = r -> r <> Err OutOfFuel ->
     read_expr (S f) skip strict m toks = r) /\
  (forall acc toks r, read_item_loop f acc toks = r -> r <> Err OutOfFuel ->
     read_item_loop (S f) acc toks = r) /\
  (forall k pos strict acc toks r, read_math_loop f k pos strict acc toks = r ->
     r <> Err OutOfFuel -> read_math_loop (S f) k pos strict acc toks = r) /\
  (forall name args pos skip strict m acc toks r,
     read_env_loop f name args pos skip strict m acc toks = r -> r <> Err OutOfFuel ->
     read_env_loop (S f) name args pos skip strict m acc toks = r) /\
  (forall nreq nopt sk strict m toks r, read_command f nreq nopt sk strict m toks = r ->
     r <> Err OutOfFuel -> read_command (S f) nreq nopt sk strict m toks = r) /\
  (forall nreq nopt strict m toks r, read_args f nreq nopt strict m toks = r ->
     r <> Err OutOfFuel -> read_args (S f) nreq nopt strict m toks = r) /\
  (forall args nopt strict m toks r, read_arg_optional f args nopt strict m toks = r ->
     r <> Err OutOfFuel -> read_arg_optional (S f) args nopt strict m toks = r) /\
  (forall args nreq strict m toks r, read_arg_required f args nreq strict m toks = r ->
     r <> Err OutOfFuel -> read_arg_required (S f) args nreq strict m toks = r) /\
  (forall c strict m toks r, read_arg f c strict m toks = r -> r <> Err OutOfFuel ->
     read_arg (S f) c strict m toks = r) /\
  (forall k pos strict m acc toks r, read_arg_loop f k pos strict m acc toks = r ->
     r <> Err OutOfFuel -> read_arg_loop (S f) k pos strict m acc toks = r).
Proof.
  repeat match goal with |- _ /\ _ => split end; intros.
  - eapply enough_fuel_expr; eauto.
  - eapply enough_fuel_item; eauto.
  - eapply enough_fuel_math; eauto.
  - eapply enough_fuel_env; eauto.
  - eapply enough_fuel_command; eauto.
  - eapply enough_fuel_args; eauto.
  - eapply enough_fuel_opt; eauto.
  - eapply enough_fuel_req; eauto.
  - eapply enough_fuel_arg; eauto.
  - eapply enough_fuel_argloop; eauto.
Qed.

Lemma diag_not_oof {A} (r : res A) : diag r -> r <> Err OutOfFuel.
Proof. intros H E. subst r. exact H. Qed.

Lemma ref_indep {A} (F : nat -> res A) f1 f2 :
  (forall f f', (f <= f')%nat -> ref (F f) (F f')) ->
  F f1 <> Err OutOfFuel -> F f2 <> Err OutOfFuel -> F f1 = F f2.
Proof.
  intros M H1 H2.
  pose proof (ref_eq _ _ (M f1 (Nat.max f1 f2) (Nat.le_max_l _ _)) H1) as E1.
  pose proof (ref_eq _ _ (M f2 (Nat.max f1 f2) (Nat.le_max_r _ _)) H2) as E2.
  congruence.
Qed.

(* with TOT: above 3*|toks|+3 the result does not depend on the fuel *)
Theorem fuel_independent_expr f1 f2 skip strict m toks :
  (3 * length toks + 3 <= f1)%nat -> (3 * length toks + 3 <= f2)%nat ->
  read_expr f1 skip strict m toks = read_expr f2 skip strict m toks.
Proof.
  intros H1 H2. destruct toks as [|t ts].
  { destruct f1 as [|f1]; [simpl in H1; lia|]. destruct f2 as [|f2]; [simpl in H2; lia|].
    reflexivity. }
  apply (ref_indep (fun f => read_expr f skip strict m (t :: ts))).
  - intros f f' Hle. apply mono_expr_holds. exact Hle.
  - apply diag_not_oof. apply (tot_all_holds f1); [discriminate | lia].
  - apply diag_not_oof. apply (tot_all_holds f2); [discriminate | lia].
Qed.

Theorem fuel_independent_math f1 f2 k pos strict acc toks :
  (3 * length toks + 3 <= f1)%nat -> (3 * length toks + 3 <= f2)%nat ->
  read_math_loop f1 k pos strict acc toks = read_math_loop f2 k pos strict acc toks.
Proof.
  intros H1 H2. apply (ref_indep (fun f => read_math_loop f k pos strict acc toks)).
  - intros f f' Hle. apply mono_math_holds. exact Hle.
  - apply diag_not_oof. apply (tot_all_holds f1). lia.
  - apply diag_not_oof. apply (tot_all_holds f2). lia.
Qed.

Theorem fuel_independent_argloop f1 f2 k pos strict m acc toks :
  (3 * length toks + 3 <= f1)%nat -> (3 * length toks + 3 <= f2)%nat ->
  read_arg_loop f1 k pos strict m acc toks = read_arg_loop f2 k pos strict m acc toks.
Proof.
  intros H1 H2. apply (ref_indep (fun f => read_arg_loop f k pos strict m acc toks)).
  - intros f f' Hle. apply mono_argloop_holds. exact Hle.
  - apply diag_not_oof. apply (tot_all_holds f1). lia.
  - apply diag_not_oof. apply (tot_all_holds f2). lia.
Qed.

Theorem fuel_independent_env f1 f2 name args pos skip strict m acc toks :
  (3 * length toks + 3 <= f1)%nat -> (3 * length toks + 3 <= f2)%nat ->
  read_env_loop f1 name args pos skip strict m acc toks =
  read_env_loop f2 name args pos skip strict m acc toks.
Proof.
  intros H1 H2.
  apply (ref_indep (fun f => read_env_loop f name args pos skip strict m acc toks)).
  - intros f f' Hle. apply mono_env_holds. exact Hle.
  - apply diag_not_oof. apply (tot_all_holds f1). lia.
  - apply diag_not_oof. apply (tot_all_holds f2). lia.
Qed.

Theorem fuel_independent_item f1 f2 acc toks :
  (3 * length toks + 3 <= f1)%nat -> (3 * length toks + 3 <= f2)%nat ->
  read_item_loop f1 acc toks = read_item_loop f2 acc toks.
Proof.
  intros H1 H2. apply (ref_indep (fun f => read_item_loop f acc toks)).
  - intros f f' Hle. apply mono_item_holds. exact Hle.
  - apply diag_not_oof. apply (tot_all_holds f1). lia.
  - apply diag_not_oof. apply (tot_all_holds f2). lia.
Qed.

Theorem fuel_independent_args f1 f2 nreq nopt strict m toks :
  (3 * length toks + 3 <= f1)%nat -> (3 * length toks + 3 <= f2)%nat ->
  read_args f1 nreq nopt strict m toks = read_args f2 nreq nopt strict m toks.
Proof.
  intros H1 H2. apply (ref_indep (fun f => read_args f nreq nopt strict m toks)).
  - intros f f' Hle. apply mono_args_holds. exact Hle.
  - apply diag_not_oof. apply (tot_all_holds f1). lia.
  - apply diag_not_oof. apply (tot_all_holds f2). lia.
Qed.

(* the form used below: a successful run at SOME fuel is the run at every
   fuel that TOT declares sufficient *)
Lemma fuel_any_expr f f' skip strict m toks r :
  read_expr f skip strict m toks = Ok r -> (3 * length toks + 1 <= f')%nat ->
  read_expr f' skip strict m toks = Ok r.
Proof.
  intros H Hf.
  assert (Hne : toks <> []). { intro E. subst toks. destruct f; discriminate H. }
  rewrite <- H. symmetry.
  apply (ref_indep (fun f => read_expr f skip strict m toks)).
  - intros g g' Hle. apply mono_expr_holds. exact Hle.
  - rewrite H. discriminate.
  - apply diag_not_oof. apply (tot_all_holds f'); [exact Hne | exact Hf].
Qed.

Lemma fuel_any_math f f' k pos strict acc toks r :
  read_math_loop f k pos strict acc toks = Ok r -> (3 * length toks + 2 <= f')%nat ->
  read_math_loop f' k pos strict acc toks = Ok r.
Proof.
  intros H Hf. rewrite <- H. symmetry.
  apply (ref_indep (fun f => read_math_loop f k pos strict acc toks)).
  - intros g g' Hle. apply mono_math_holds. exact Hle.
  - rewrite H. discriminate.
  - apply diag_not_oof. apply (tot_all_holds f'). exact Hf.
Qed.

Lemma fuel_any_argloop f f' k pos strict m acc toks r :
  read_arg_loop f k pos strict m acc toks = Ok r -> (3 * length toks + 2 <= f')%nat ->
  read_arg_loop f' k pos strict m acc toks = Ok r.
Proof.
  intros H Hf. rewrite <- H. symmetry.
  apply (ref_indep (fun f => read_arg_loop f k pos strict m acc toks)).
  - intros g g' Hle. apply mono_argloop_holds. exact Hle.
  - rewrite H. discriminate.
  - apply diag_not_oof. apply (tot_all_holds f'). exact Hf.
Qed.

Lemma fuel_any_env f f' name args pos skip strict m acc toks r :
  read_env_loop f name args pos skip strict m acc toks = Ok r ->
  (3 * length toks + 2 <= f')%nat ->
  read_env_loop f' name args pos skip strict m acc toks = Ok r.
Proof.
  intros H Hf. rewrite <- H. symmetry.
  apply (ref_indep (fun f => read_env_loop f name args pos skip strict m acc toks)).
  - intros g g' Hle. apply mono_env_holds. exact Hle.
  - rewrite H. discriminate.
  - apply diag_not_oof. apply (tot_all_holds f'). exact Hf.
Qed.

Lemma fuel_any_item f f' acc toks r :
  read_item_loop f acc toks = Ok r -> (3 * length toks + 2 <= f')%nat ->
  read_item_loop f' acc toks = Ok r.
Proof.
  intros H Hf. rewrite <- H. symmetry.
  apply (ref_indep (fun f => read_item_loop f acc toks)).
  - intros g g' Hle. apply mono_item_holds. exact Hle.
  - rewrite H. discriminate.
  - apply diag_not_oof. apply (tot_all_holds f'). exact Hf.
Qed.

(* ====================================================================== *)
(* Stage 1: the token-level document grammar                              *)
(* ====================================================================== *)

(* A document element is written down as the tokens it consists of, with the
   structure made explicit.  An argument group carries the MergedSpacer token
   that may precede it, its kind, its two delimiter tokens and its body.
   An environment is  \ begin <name group> <further arguments> body
   \ end <name group>.
   An item is  \ item <argument groups> body,  the body extending up to the
   next \item, an \end, a closing brace or the end of the input. *)
Inductive doc :=
| DLeaf (t : token)
| DGroup (o : token) (body : list doc) (c : token)
| DCmd (e n : token) (args : list arg)
| DMath (k : mathkind) (o : token) (body : list doc) (c : token)
| DEnv (e b : token) (ng : arg) (xargs : list arg) (body : list doc)
       (e2 en : token) (ng2 : arg)
| DItem (e n : token) (args : list arg) (body : list doc)
with arg :=
| Arg (sp : option token) (k : groupkind) (o : token) (body : list doc) (c : token).

Section doc_ind'.
  Variable P : doc -> Prop.
  Variable Q : arg -> Prop.
  Hypothesis HLeaf : forall t, P (DLeaf t).
  Hypothesis HGroup : forall o b c, Forall P b -> P (DGroup o b c).
  Hypothesis HCmd : forall e n args, Forall Q args -> P (DCmd e n args).
  Hypothesis HMath : forall k o b c, Forall P b -> P (DMath k o b c).
  Hypothesis HEnv : forall e b ng xargs body e2 en ng2,
      Q ng -> Forall Q xargs -> Forall P body -> Q ng2 ->
      P (DEnv e b ng xargs body e2 en ng2).
  Hypothesis HItem : forall e n args body,
      Forall Q args -> Forall P body -> P (DItem e n args body).
  Hypothesis HArg : forall sp k o b c, Forall P b -> Q (Arg sp k o b c).

  Fixpoint doc_ind' (d : doc) : P d :=
    let fix go (l : list doc) : Forall P l :=
        match l with
        | [] => Forall_nil P
        | x :: l' => Forall_cons x (doc_ind' x) (go l')
        end in
    let fix goa (l : list arg) : Forall Q l :=
        match l with
        | [] => Forall_nil Q
        | x :: l' => Forall_cons x (arg_ind' x) (goa l')
        end in
    match d with
    | DLeaf t => HLeaf t
    | DGroup o b c => HGroup o b c (go b)
    | DCmd e n args => HCmd e n args (goa args)
    | DMath k o b c => HMath k o b c (go b)
    | DEnv e b ng xargs body e2 en ng2 =>
      HEnv e b ng xargs body e2 en ng2 (arg_ind' ng) (goa xargs) (go body) (arg_ind' ng2)
    | DItem e n args body => HItem e n args body (goa args) (go body)
    end
  with arg_ind' (a : arg) : Q a :=
    let fix go (l : list doc) : Forall P l :=
        match l with
        | [] => Forall_nil P
        | x :: l' => Forall_cons x (doc_ind' x) (go l')
        end in
    match a with
    | Arg sp k o b c => HArg sp k o b c (go b)
    end.
End doc_ind'.

Definition opt_tok (o : option token) : list token :=
  match o with Some t => [t] | None => [] end.

(* the tokens, in order *)
Fixpoint flat (d : doc) : list token :=
  match d with
  | DLeaf t => [t]
  | DGroup o b c => o :: concat (map flat b) ++ [c]
  | DCmd e n args => e :: n :: concat (map flat_arg args)
  | DMath _ o b c => o :: concat (map flat b) ++ [c]
  | DEnv e b ng xargs body e2 en ng2 =>
    e :: b :: (flat_arg ng ++ concat (map flat_arg xargs)) ++ concat (map flat body) ++
    e2 :: en :: flat_arg ng2
  | DItem e n args body => e :: n :: concat (map flat_arg args) ++ concat (map flat body)
  end
with flat_arg (a : arg) : list token :=
  match a with
  | Arg sp _ o b c => opt_tok sp ++ o :: concat (map flat b) ++ [c]
  end.

Definition flat_list (ds : list doc) : list token := concat (map flat ds).
Definition flat_args (l : list arg) : list token := concat (map flat_arg l).

(* the expected node *)
Fixpoint tree (d : doc) : expr :=
  match d with
  | DLeaf t => EText t
  | DGroup o b _ => EGroup GBrace (map tree b) (tpos o)
  | DCmd e n args => ECmd (strip (ttext n)) (map tree_arg args) [] (tpos e)
  | DMath k o b _ => EMath k (map tree b) (tpos o)
  | DEnv e _ ng xargs body _ _ _ =>
    ENamed (strip (arg_string (tree_arg ng))) (map tree_arg xargs) (map tree body) (tpos e)
  | DItem e n args body =>
    ECmd (strip (ttext n)) (map tree_arg args) (map tree body) (tpos e)
  end
with tree_arg (a : arg) : expr :=
  match a with
  | Arg _ k o b _ => EGroup k (map tree b) (tpos o)
  end.

(* the environment name as the reader computes it: the stripped string of
   the first argument of \begin *)
Definition env_name (ng : arg) : str := strip (arg_string (tree_arg ng)).

(* the mode of an environment body: math for the math environment names
   (equation, align, ...), inherited otherwise *)
Definition env_mm (mm : bool) (ng : arg) : bool :=
  mm || mem_str (env_name ng) Tables.math_env_names.

(* --------------------------------------------------- well-formedness *)

(* the loop that reads a body: what closes it *)
Inductive ctx := CTop | CGroup (k : groupkind) | CMath (k : mathkind) | CEnv | CItem.

Definition closes (x : ctx) (t : token) : bool :=
  match x with
  | CTop => false
  | CGroup k => is_group_end k t
  | CMath k => is_math_end k t
  | CEnv => false
  | CItem => is_tc TGroupEnd t
  end.

Definition is_item (d : doc) : bool :=
  match d with DItem _ _ _ _ => true | _ => false end.

(* an \item is never an element of an item body: it ends that body *)
Definition allowed (x : ctx) (d : doc) : bool :=
  match x with CItem => negb (is_item d) | _ => true end.

Definition dhead (d : doc) : token :=
  match d with
  | DLeaf t => t
  | DGroup o _ _ => o
  | DCmd e _ _ => e
  | DMath _ o _ _ => o
  | DEnv e _ _ _ _ _ _ _ => e
  | DItem e _ _ _ => e
  end.

(* "after an optional MergedSpacer the next token is not a k" *)
Definition stopsb (k : tc) (toks : list token) : bool :=
  match head_after_spacer toks with Some c => negb (is_tc k c) | None => true end.
(* "the very next token is not a k" *)
Definition head_notb (k : tc) (toks : list token) : bool :=
  match toks with t :: _ => negb (is_tc k t) | [] => true end.

Definition arg_kind (a : arg) : groupkind := match a with Arg _ k _ _ _ => k end.
Definition is_brace_arg (a : arg) : bool := groupkind_beq (arg_kind a) GBrace.
Definition is_bracket_arg (a : arg) : bool := groupkind_beq (arg_kind a) GBracket.

Definition no_spacer (a : arg) : bool :=
  match a with Arg None _ _ _ _ => true | Arg (Some _) _ _ _ _ => false end.
Definition head_no_spacer (l : list arg) : bool :=
  match l with a :: _ => no_spacer a | [] => true end.
Definition nonempty {A} (l : list A) : bool := match l with [] => false | _ :: _ => true end.

(* the longest prefix of groups of kind k *)
Fixpoint take_kind (k : groupkind) (l : list arg) : list arg * list arg :=
  match l with
  | a :: l' =>
    if groupkind_beq (arg_kind a) k
    then let (x, y) := take_kind k l' in (a :: x, y)
    else ([], l)
  | [] => ([], [])
  end.

(* the four runs read_args can read with "as many as there are" counts:
   brackets, braces (first pass), brackets, braces (second pass) *)
Definition split4 (args : list arg) :=
  let (b1, r1) := take_kind GBracket args in
  let (c1, r2) := take_kind GBrace r1 in
  let (b2, r3) := take_kind GBracket r2 in
  let (c2, r4) := take_kind GBrace r3 in
  (b1, c1, b2, c2, r4).

Definition free_sig : Z * Z := ((-1)%Z, (-1)%Z).
Definition is_free (sg : Z * Z) : bool := (fst sg =? -1)%Z && (snd sg =? -1)%Z.
Definition is_zero (sg : Z * Z) : bool := (fst sg =? 0)%Z && (snd sg =? 0)%Z.

(* which argument lists a command of signature sg = (required, optional) can
   be written with.
   free signature: the four runs and nothing more; the second pass is entered
   without skipping a spacer, so the first group of each second-pass run has
   no spacer before it.
   fixed signature (0,0): no arguments.  Otherwise: at most `optional`
   bracket groups, then exactly `required` brace groups. *)
Definition cmd_shape (sg : Z * Z) (args : list arg) : bool :=
  if is_free sg then
    let '(_, _, b2, c2, r4) := split4 args in
    negb (nonempty r4) && head_no_spacer b2 && head_no_spacer c2
  else
    (0 <=? fst sg)%Z && (0 <=? snd sg)%Z &&
    (if is_zero sg then negb (nonempty args)
     else let (bs, r1) := take_kind GBracket args in
          let (cs, r2) := take_kind GBrace r1 in
          negb (nonempty r2) && (Z.of_nat (length bs) <=? snd sg)%Z &&
          (Z.of_nat (length cs) =? fst sg)%Z).

(* what may follow a command of signature sg whose arguments are `args`,
   in terms of four facts about the following tokens:
     sg_ = after an optional spacer the next token is not `{`
     sb_ = after an optional spacer the next token is not `[`
     hb_ = the very next token is not `[`     hg_ = the very next token is not `{` *)
Definition cmd_follow_b (sg : Z * Z) (args : list arg) (sg_ sb_ hb_ hg_ : bool) : bool :=
  if is_free sg then
    let '(_, c1, b2, c2, _) := split4 args in
    match b2, c2 with
    | [], _ => sg_ && (if nonempty c1 then hb_ else sb_)
    | _ :: _, [] => sb_ && hg_
    | _ :: _, _ :: _ => sg_
    end
  else
    if is_zero sg then true
    else let (bs, _) := take_kind GBracket args in
         (Z.of_nat (length bs) =? snd sg)%Z || (if (fst sg =? 0)%Z then sb_ else hb_).

Definition cmd_follow (sg : Z * Z) (args : list arg) (rest : list token) : bool :=
  cmd_follow_b sg args (stopsb TGroupBegin rest) (stopsb TBracketBegin rest)
               (head_notb TBracketBegin rest) (head_notb TGroupBegin rest).

(* where an item body stops: at the end of the input, before `\end` or
   `\item` (the token after an escape names the command), before a `}` *)
Definition item_stop_b (rest : list token) : bool :=
  match rest with
  | [] => true
  | t :: tl =>
    if is_tc TEscape t
    then match tl with
         | n :: _ => str_eqb (ttext n) s_end || str_eqb (ttext n) s_item
         | [] => false
         end
    else is_tc TGroupEnd t
  end.

Definition opens_group_kind (k : groupkind) (o : token) : bool :=
  match group_tok_begin k with Some b => is_tc b o | None => false end.
Definition opens_math_kind (k : mathkind) (o : token) : bool :=
  match math_tok_begin k with Some b => is_tc b o | None => false end.

Definition name_ok (n : token) : bool :=
  negb (str_eqb (ttext n) s_item) && negb (str_eqb (ttext n) s_begin) &&
  negb (str_eqb (ttext n) s_end) &&
  negb (mem_str (ttext n) Tables.special_commands).

(* a body: every element well-formed, not starting with the closer of the
   enclosing loop, and followed by what its follow condition allows; `rest`
   is what comes after the whole sequence *)
Definition seq_wf (W : doc -> bool) (F : doc -> list token -> bool) (x : ctx)
  : list doc -> list token -> bool :=
  fix go (ds : list doc) (rest : list token) {struct ds} : bool :=
    match ds with
    | [] => true
    | d :: ds' =>
      negb (closes x (dhead d)) && allowed x d && W d && F d (flat_list ds' ++ rest) &&
      go ds' rest
    end.

Section WithSkip.
(* SK: the environment names read verbatim (Tables.skip_env_names ++ the
   user's list); an environment of the grammar must not have such a name *)
Variable SK : list str.

(* mm: the element is read in math mode (inside a math region; inherited by
   argument groups and environment bodies, reset by a free-standing brace
   group): \item is an AssertionError in math mode.
   follows_ok d rest: what may follow d (its follow condition); for an item
   this includes the well-formedness of its body, which ends where `rest`
   begins. *)
Fixpoint wf (mm : bool) (d : doc) {struct d} : bool :=
  match d with
  | DLeaf t => leaf_cat (tcat t)
  | DGroup o b c =>
    is_tc TGroupBegin o && is_group_end GBrace c && seq_wf (wf false) follows_ok (CGroup GBrace) b [c]
  | DCmd e n args =>
    is_tc TEscape e && name_ok n && cmd_shape (signature_of (ttext n)) args &&
    forallb (wf_arg mm) args
  | DMath k o b c =>
    opens_math_kind k o && is_math_end k c && seq_wf (wf true) follows_ok (CMath k) b [c]
  | DEnv e b ng xargs body e2 en ng2 =>
    is_tc TEscape e && str_eqb (ttext b) s_begin &&
    wf_arg mm ng && is_brace_arg ng &&
    negb (mem_str (env_name ng) SK) &&
    cmd_shape free_sig (ng :: xargs) && forallb (wf_arg mm) xargs &&
    cmd_follow free_sig (ng :: xargs) (flat_list body ++ [e2]) &&
    seq_wf (wf (env_mm mm ng)) follows_ok CEnv body [e2; en] &&
    is_tc TEscape e2 && str_eqb (ttext en) s_end &&
    wf_arg (env_mm mm ng) ng2 && is_brace_arg ng2 &&
    str_eqb (arg_string (tree_arg ng2)) (env_name ng)
  | DItem e n args body =>
    negb mm && is_tc TEscape e && str_eqb (ttext n) s_item &&
    cmd_shape free_sig args && forallb (wf_arg mm) args
  end
with wf_arg (mm : bool) (a : arg) {struct a} : bool :=
  match a with
  | Arg sp k o b c =>
    match sp with Some s => is_tc TMergedSpacer s | None => true end &&
    opens_group_kind k o && is_group_end k c && seq_wf (wf mm) follows_ok (CGroup k) b [c]
  end
with follows_ok (d : doc) (rest : list token) {struct d} : bool :=
  match d with
  | DCmd _ n args => cmd_follow (signature_of (ttext n)) args rest
  | DEnv _ _ _ _ _ _ _ ng2 => cmd_follow free_sig [ng2] rest
  | DItem _ _ args body =>
    cmd_follow free_sig args (flat_list body ++ rest) &&
    seq_wf (wf false) follows_ok CItem body rest &&
    item_stop_b rest
  | _ => true
  end.

Definition wf_seq (mm : bool) (x : ctx) (ds : list doc) (rest : list token) : bool :=
  seq_wf (wf mm) follows_ok x ds rest.

(* ------------------------------------------------- equations, list facts *)

Lemma wf_seq_cons mm x d ds rest :
  wf_seq mm x (d :: ds) rest =
  negb (closes x (dhead d)) && allowed x d && wf mm d && follows_ok d (flat_list ds ++ rest) &&
  wf_seq mm x ds rest.
Proof. reflexivity. Qed.

Lemma wf_seq_cons_parts mm x d ds rest :
  wf_seq mm x (d :: ds) rest = true ->
  closes x (dhead d) = false /\ allowed x d = true /\ wf mm d = true /\
  follows_ok d (flat_list ds ++ rest) = true /\ wf_seq mm x ds rest = true.
Proof.
  rewrite wf_seq_cons. intro H.
  apply andb_true_iff in H. destruct H as [H H5].
  apply andb_true_iff in H. destruct H as [H H4].
  apply andb_true_iff in H. destruct H as [H H3].
  apply andb_true_iff in H. destruct H as [H1 H2].
  apply negb_true_iff in H1. auto.
Qed.

Lemma flat_list_cons d ds : flat_list (d :: ds) = flat d ++ flat_list ds.
Proof. reflexivity. Qed.
Lemma flat_args_cons a l : flat_args (a :: l) = flat_arg a ++ flat_args l.
Proof. reflexivity. Qed.
Lemma flat_args_app a b : flat_args (a ++ b) = flat_args a ++ flat_args b.
Proof. unfold flat_args. rewrite map_app, concat_app. reflexivity. Qed.

Lemma flat_group o b c : flat (DGroup o b c) = o :: flat_list b ++ [c].
Proof. reflexivity. Qed.
Lemma flat_cmd e n args : flat (DCmd e n args) = e :: n :: flat_args args.
Proof. reflexivity. Qed.
Lemma flat_math k o b c : flat (DMath k o b c) = o :: flat_list b ++ [c].
Proof. reflexivity. Qed.
Lemma flat_env e b ng xargs body e2 en ng2 :
  flat (DEnv e b ng xargs body e2 en ng2) =
  e :: b :: flat_args (ng :: xargs) ++ flat_list body ++ e2 :: en :: flat_arg ng2.
Proof. reflexivity. Qed.
Lemma flat_item e n args body :
  flat (DItem e n args body) = e :: n :: flat_args args ++ flat_list body.
Proof. reflexivity. Qed.
Lemma flat_arg_eq sp k o b c :
  flat_arg (Arg sp k o b c) = opt_tok sp ++ o :: flat_list b ++ [c].
Proof. reflexivity. Qed.

Lemma wf_group mm o b c :
  wf mm (DGroup o b c) =
  is_tc TGroupBegin o && is_group_end GBrace c && wf_seq false (CGroup GBrace) b [c].
Proof. reflexivity. Qed.
Lemma wf_cmd mm e n args :
  wf mm (DCmd e n args) =
  is_tc TEscape e && name_ok n && cmd_shape (signature_of (ttext n)) args &&
  forallb (wf_arg mm) args.
Proof. reflexivity. Qed.
Lemma wf_math mm k o b c :
  wf mm (DMath k o b c) =
  opens_math_kind k o && is_math_end k c && wf_seq true (CMath k) b [c].
Proof. reflexivity. Qed.
Lemma wf_env mm e b ng xargs body e2 en ng2 :
  wf mm (DEnv e b ng xargs body e2 en ng2) =
  is_tc TEscape e && str_eqb (ttext b) s_begin &&
  wf_arg mm ng && is_brace_arg ng &&
  negb (mem_str (env_name ng) SK) &&
  cmd_shape free_sig (ng :: xargs) && forallb (wf_arg mm) xargs &&
  cmd_follow free_sig (ng :: xargs) (flat_list body ++ [e2]) &&
  wf_seq (env_mm mm ng) CEnv body [e2; en] &&
  is_tc TEscape e2 && str_eqb (ttext en) s_end &&
  wf_arg (env_mm mm ng) ng2 && is_brace_arg ng2 &&
  str_eqb (arg_string (tree_arg ng2)) (env_name ng).
Proof. reflexivity. Qed.
Lemma wf_item mm e n args body :
  wf mm (DItem e n args body) =
  negb mm && is_tc TEscape e && str_eqb (ttext n) s_item &&
  cmd_shape free_sig args && forallb (wf_arg mm) args.
Proof. reflexivity. Qed.
Lemma follows_ok_item e n args body rest :
  follows_ok (DItem e n args body) rest =
  cmd_follow free_sig args (flat_list body ++ rest) && wf_seq false CItem body rest &&
  item_stop_b rest.
Proof. reflexivity. Qed.
Lemma wf_arg_eq mm sp k o b c :
  wf_arg mm (Arg sp k o b c) =
  match sp with Some s => is_tc TMergedSpacer s | None => true end &&
  opens_group_kind k o && is_group_end k c && wf_seq mm (CGroup k) b [c].
Proof. reflexivity. Qed.

Lemma flat_head d : exists tl, flat d = dhead d :: tl.
Proof. destruct d; simpl; eauto. Qed.

Lemma flat_length_pos d : (1 <= length (flat d))%nat.
Proof. destruct (flat_head d) as [tl ->]. simpl. lia. Qed.

(* ------------------------------------------------ table facts (computed) *)

Lemma group_end_not_spacer k c : is_group_end k c = true -> is_tc TMergedSpacer c = false.
Proof.
  intro H. apply is_group_end_tok in H. apply is_tc_false. intro E. rewrite E in H.
  destruct k; vm_compute in H; discriminate H.
Qed.

Lemma math_end_not_spacer k c : is_math_end k c = true -> is_tc TMergedSpacer c = false.
Proof.
  intro H. apply is_math_end_tok in H. apply is_tc_false. intro E. rewrite E in H.
  destruct k; vm_compute in H; discriminate H.
Qed.

Lemma group_end_not_escape k c : is_group_end k c = true -> is_tc TEscape c = false.
Proof.
  intro H. apply is_group_end_tok in H. apply is_tc_false. intro E. rewrite E in H.
  destruct k; vm_compute in H; discriminate H.
Qed.

Lemma math_end_not_escape k c : is_math_end k c = true -> is_tc TEscape c = false.
Proof.
  intro H. apply is_math_end_tok in H. apply is_tc_false. intro E. rewrite E in H.
  destruct k; vm_compute in H; discriminate H.
Qed.

Lemma opens_group_kind_spec k o :
  opens_group_kind k o = true ->
  group_kind_of_begin (tcat o) = Some k /\ group_tok_begin k = Some (tcat o) /\
  is_tc TMergedSpacer o = false /\
  is_tc (match k with GBrace => TGroupBegin | GBracket => TBracketBegin end) o = true.
Proof.
  unfold opens_group_kind. destruct k.
  - replace (group_tok_begin GBrace) with (Some TGroupBegin) by (vm_compute; reflexivity).
    intro H. pose proof H as H'. apply is_tc_true in H'.
    split; [rewrite H'; vm_compute; reflexivity|].
    split; [rewrite H'; reflexivity|].
    split; [apply (is_tc_excl _ _ _ H); discriminate | exact H].
  - replace (group_tok_begin GBracket) with (Some TBracketBegin) by (vm_compute; reflexivity).
    intro H. pose proof H as H'. apply is_tc_true in H'.
    split; [rewrite H'; vm_compute; reflexivity|].
    split; [rewrite H'; reflexivity|].
    split; [apply (is_tc_excl _ _ _ H); discriminate | exact H].
Qed.

Lemma opens_math_kind_spec k o :
  opens_math_kind k o = true ->
  math_kind_of_begin (tcat o) = Some k /\ math_tok_begin k = Some (tcat o).
Proof.
  unfold opens_math_kind. destruct (math_tok_begin k) as [b|] eqn:E; [|discriminate].
  intro H. apply is_tc_true in H. subst b. split; [|reflexivity].
  apply math_begin_kinds. exact E.
Qed.

Lemma group_begin_facts o :
  is_tc TGroupBegin o = true ->
  math_kind_of_begin (tcat o) = None /\ is_tc TEscape o = false.
Proof.
  intro H. apply is_tc_true in H. unfold is_tc. rewrite H. split; vm_compute; reflexivity.
Qed.

(* --------------------------------- the follow condition sees two tokens *)

Lemma head_after_spacer_ext l c tl r :
  is_tc TMergedSpacer c = false ->
  head_after_spacer (l ++ c :: tl) = head_after_spacer (l ++ c :: tl ++ r).
Proof.
  intro Hc. unfold head_after_spacer, read_spacer.
  destruct l as [|x [|y l']]; simpl.
  - rewrite Hc. reflexivity.
  - destruct (is_tc TMergedSpacer x); reflexivity.
  - destruct (is_tc TMergedSpacer x); reflexivity.
Qed.

Lemma cmd_follow_ext sg args l c tl r :
  is_tc TMergedSpacer c = false ->
  cmd_follow sg args (l ++ c :: tl) = cmd_follow sg args (l ++ c :: tl ++ r).
Proof.
  intro Hc. unfold cmd_follow, stopsb.
  rewrite <- !(head_after_spacer_ext l c tl r Hc).
  replace (head_notb TBracketBegin (l ++ c :: tl ++ r))
    with (head_notb TBracketBegin (l ++ c :: tl)) by (destruct l; reflexivity).
  replace (head_notb TGroupBegin (l ++ c :: tl ++ r))
    with (head_notb TGroupBegin (l ++ c :: tl)) by (destruct l; reflexivity).
  reflexivity.
Qed.

Lemma item_stop_b_ext l c tl r :
  is_tc TEscape c = false \/ tl <> [] ->
  item_stop_b (l ++ c :: tl) = item_stop_b (l ++ c :: tl ++ r).
Proof.
  intro H. destruct l as [|x [|y l']]; cbn [app item_stop_b]; try reflexivity.
  destruct (is_tc TEscape c) eqn:E; [|reflexivity].
  destruct H as [H|H]; [discriminate H|]. destruct tl; [congruence | reflexivity].
Qed.

Definition ext_ok (c : token) (tl : list token) : Prop :=
  is_tc TMergedSpacer c = false /\ (is_tc TEscape c = false \/ tl <> []).

Lemma follows_ok_ext : forall d l c tl r, ext_ok c tl ->
  follows_ok d (l ++ c :: tl) = follows_ok d (l ++ c :: tl ++ r).
Proof.
  apply (doc_ind' (fun d => forall l c tl r, ext_ok c tl ->
                     follows_ok d (l ++ c :: tl) = follows_ok d (l ++ c :: tl ++ r))
                  (fun _ => True)); try (intros; exact I); try (intros; reflexivity).
  - intros e n args _ l c tl r [Hc _]. cbn [follows_ok]. apply cmd_follow_ext. exact Hc.
  - intros e b ng xargs body e2 en ng2 _ _ _ _ l c tl r [Hc _]. cbn [follows_ok].
    apply cmd_follow_ext. exact Hc.
  - intros e n args body _ Hbody l c tl r [Hc He]. rewrite !follows_ok_item.
    rewrite (item_stop_b_ext l c tl r He).
    rewrite !(app_assoc (flat_list body) l).
    rewrite (cmd_follow_ext free_sig args (flat_list body ++ l) c tl r Hc).
    f_equal. f_equal.
    induction Hbody as [|d ds Hd _ IH]; [reflexivity|].
    rewrite !wf_seq_cons. rewrite IH.
    rewrite !(app_assoc (flat_list ds) l).
    rewrite (Hd (flat_list ds ++ l) c tl r (conj Hc He)). reflexivity.
Qed.

Lemma wf_seq_ext mm x ds c tl r :
  ext_ok c tl ->
  wf_seq mm x ds (c :: tl) = true -> wf_seq mm x ds (c :: tl ++ r) = true.
Proof.
  intro Hc. induction ds as [|d ds IH]; [reflexivity|].
  rewrite !wf_seq_cons. intro H.
  apply andb_true_iff in H. destruct H as [H H4].
  rewrite <- (follows_ok_ext d (flat_list ds) c tl r Hc), H, (IH H4). reflexivity.
Qed.

Lemma ext_ok_group_end k c : is_group_end k c = true -> ext_ok c [].
Proof.
  intro H. split; [exact (group_end_not_spacer k c H) | left; exact (group_end_not_escape k c H)].
Qed.
Lemma ext_ok_math_end k c : is_math_end k c = true -> ext_ok c [].
Proof.
  intro H. split; [exact (math_end_not_spacer k c H) | left; exact (math_end_not_escape k c H)].
Qed.

(* ====================================================================== *)
(* Stage 2: completeness                                                  *)
(* ====================================================================== *)

(* "for every sufficiently large fuel, F returns r" *)
Definition Reads {A} (F : nat -> res A) (r : res A) : Prop :=
  exists f0, forall f, (f0 <= f)%nat -> F f = r.

(* the look-ahead of read_item on what follows an item: when that starts
   with an escape, read_item reads the whole command there - strictly, in
   non-math mode - before it looks at the name; that read must succeed *)
Definition head_peek (R : list token) : Prop :=
  forall e src, R = e :: src -> is_tc TEscape e = true ->
  exists r, Reads (fun f => read_command f (-1) (-1) 1 true MNonMath R) (Ok r).

Definition peek_ok (d : doc) (R : list token) : Prop :=
  if is_item d then head_peek R else True.

Definition PPd (d : doc) : Prop := forall skip strict m rest,
  mode_is_special m = false -> sub_skip SK skip ->
  wf (mode_is_math m) d = true -> follows_ok d rest = true -> peek_ok d rest ->
  Reads (fun f => read_expr f skip strict m (flat d ++ rest)) (Ok (tree d, rest)).

Definition arg_open (a : arg) : token := match a with Arg _ _ o _ _ => o end.
Definition arg_inner (a : arg) : list token :=
  match a with Arg _ _ _ b c => flat_list b ++ [c] end.

Definition PPa (a : arg) : Prop := forall strict m rest,
  mode_is_special m = false -> wf_arg (mode_is_math m) a = true ->
  Reads (fun f => read_arg f (arg_open a) strict m (arg_inner a ++ rest))
        (Ok (tree_arg a, rest)).

Lemma sub_skip_nil : sub_skip SK [].
Proof. intros n H. unfold mem_str in H. simpl in H. discriminate H. Qed.

Lemma wf_arg_parts mm sp k o b c :
  wf_arg mm (Arg sp k o b c) = true ->
  match sp with Some s => is_tc TMergedSpacer s | None => true end = true /\
  opens_group_kind k o = true /\ is_group_end k c = true /\
  wf_seq mm (CGroup k) b [c] = true.
Proof.
  rewrite wf_arg_eq. intro Hwf.
  apply andb_true_iff in Hwf. destruct Hwf as [Hwf H4].
  apply andb_true_iff in Hwf. destruct Hwf as [Hwf H3].
  apply andb_true_iff in Hwf. destruct Hwf as [H1 H2]. auto.
Qed.

(* a brace group met by read_expr *)
Lemma read_expr_group_open f skip strict m o src :
  is_tc TGroupBegin o = true ->
  read_expr (S f) skip strict m (o :: src) = read_arg f o strict MNonMath src.
Proof.
  intro H. destruct (group_begin_facts o H) as [H1 H2].
  cbn [read_expr]. rewrite H1, H2, H. reflexivity.
Qed.

(* ---------------------------------------------------- argument loops *)

Lemma stopsb_stops k toks :
  stopsb k toks = true ->
  match head_after_spacer toks with Some c => is_tc k c = false | None => True end.
Proof.
  unfold stopsb. destruct (head_after_spacer toks); [|intros; exact I].
  intro H. apply negb_true_iff. exact H.
Qed.

(* what read_spacer leaves in front of an argument group *)
Lemma arg_after_spacer sp k o b c X :
  match sp with Some s => is_tc TMergedSpacer s | None => true end = true ->
  is_tc TMergedSpacer o = false ->
  snd (read_spacer (flat_arg (Arg sp k o b c) ++ X)) = o :: arg_inner (Arg sp k o b c) ++ X.
Proof.
  intros Hs Ho. rewrite flat_arg_eq. cbn [arg_inner]. unfold read_spacer.
  destruct sp as [s|]; cbn [opt_tok app].
  - rewrite Hs. reflexivity.
  - rewrite Ho. reflexivity.
Qed.

Lemma head_after_spacer_arg sp k o b c X :
  match sp with Some s => is_tc TMergedSpacer s | None => true end = true ->
  is_tc TMergedSpacer o = false ->
  head_after_spacer (flat_arg (Arg sp k o b c) ++ X) = Some o.
Proof.
  intros Hs Ho. unfold head_after_spacer. rewrite (arg_after_spacer sp k o b c X Hs Ho).
  reflexivity.
Qed.

Lemma opt_zero f args strict m toks :
  read_arg_optional (S f) args 0 strict m toks = Ok ((args, 0%Z), toks).
Proof. reflexivity. Qed.

Lemma req_zero f args strict m toks :
  read_arg_required (S f) args 0 strict m toks = Ok ((args, 0%Z), toks).
Proof. reflexivity. Qed.

(* the bracket loop: all of `bs` (the count allows it), then stop: because
   the count is used up, or because no `[` follows *)
Lemma opt_loop bs : Forall PPa bs -> forall acc nopt strict m tail,
  mode_is_special m = false ->
  (nopt < 0 \/ Z.of_nat (length bs) <= nopt)%Z ->
  forallb (wf_arg (mode_is_math m)) bs = true -> forallb is_bracket_arg bs = true ->
  ((nopt - Z.of_nat (length bs) = 0)%Z \/ stopsb TBracketBegin tail = true) ->
  Reads (fun f => read_arg_optional f acc nopt strict m (flat_args bs ++ tail))
        (Ok ((acc ++ map tree_arg bs, (nopt - Z.of_nat (length bs))%Z), tail)).
Proof.
  induction 1 as [|a bs Ha Hbs IH]; intros acc nopt strict m tail Hm Hn Hw Hk Hs.
  - exists 1%nat. intros f Hf. destruct f as [|f]; [lia|].
    change (flat_args [] ++ tail) with tail. simpl map. simpl length.
    rewrite app_nil_r, Z.sub_0_r. simpl length in Hs. rewrite Z.sub_0_r in Hs.
    destruct Hs as [Hz|Hs].
    + rewrite Hz. apply opt_zero.
    + apply C09_other_token_detaches_opt. apply stopsb_stops. exact Hs.
  - cbn [forallb] in Hw, Hk.
    apply andb_true_iff in Hw. destruct Hw as [Hwa Hw].
    apply andb_true_iff in Hk. destruct Hk as [Hka Hk].
    destruct a as [sp k o b c].
    unfold is_bracket_arg in Hka. cbn [arg_kind] in Hka. apply groupkind_eqb_eq in Hka. subst k.
    destruct (wf_arg_parts _ _ _ _ _ _ Hwa) as (W1 & W2 & W3 & W4).
    apply opens_group_kind_spec in W2. destruct W2 as (_ & _ & Ho & Hob).
    cbn [length] in Hn, Hs. rewrite Nat2Z.inj_succ in Hn, Hs.
    destruct (Ha strict m (flat_args bs ++ tail) Hm Hwa) as [f1 F1].
    destruct (IH (acc ++ [tree_arg (Arg sp GBracket o b c)]) (nopt - 1)%Z strict m tail
                 Hm ltac:(lia) Hw Hk ltac:(destruct Hs; [left; lia | right; assumption]))
      as [f2 F2].
    exists (S (Nat.max f1 f2)). intros f Hf. destruct f as [|f]; [lia|].
    rewrite flat_args_cons, <- app_assoc.
    rewrite (C09_attach_step_opt f acc nopt strict m _ o
               (arg_inner (Arg sp GBracket o b c) ++ flat_args bs ++ tail)
               (tree_arg (Arg sp GBracket o b c)) (flat_args bs ++ tail)).
    + rewrite F2 by lia. rewrite <- app_assoc. cbn [map app length].
      rewrite Nat2Z.inj_succ.
      replace (nopt - 1 - Z.of_nat (length bs))%Z with (nopt - Z.succ (Z.of_nat (length bs)))%Z
        by lia.
      reflexivity.
    + lia.
    + apply arg_after_spacer; assumption.
    + exact Hob.
    + apply (F1 f). lia.
Qed.

(* the brace loop *)
Lemma req_loop cs : Forall PPa cs -> forall acc nreq strict m tail,
  mode_is_special m = false ->
  (nreq < 0 \/ Z.of_nat (length cs) <= nreq)%Z ->
  forallb (wf_arg (mode_is_math m)) cs = true -> forallb is_brace_arg cs = true ->
  ((nreq - Z.of_nat (length cs) = 0)%Z \/
   ((nreq - Z.of_nat (length cs) < 0)%Z /\ stopsb TGroupBegin tail = true)) ->
  Reads (fun f => read_arg_required f acc nreq strict m (flat_args cs ++ tail))
        (Ok ((acc ++ map tree_arg cs, (nreq - Z.of_nat (length cs))%Z), tail)).
Proof.
  induction 1 as [|a cs Ha Hcs IH]; intros acc nreq strict m tail Hm Hn Hw Hk Hs.
  - exists 1%nat. intros f Hf. destruct f as [|f]; [lia|].
    change (flat_args [] ++ tail) with tail. simpl map. simpl length.
    rewrite app_nil_r, Z.sub_0_r. simpl length in Hs. rewrite Z.sub_0_r in Hs.
    destruct Hs as [Hz|[Hlt Hs]].
    + rewrite Hz. apply req_zero.
    + apply C09_other_token_detaches_req; [lia|]. apply stopsb_stops. exact Hs.
  - cbn [forallb] in Hw, Hk.
    apply andb_true_iff in Hw. destruct Hw as [Hwa Hw].
    apply andb_true_iff in Hk. destruct Hk as [Hka Hk].
    destruct a as [sp k o b c].
    unfold is_brace_arg in Hka. cbn [arg_kind] in Hka. apply groupkind_eqb_eq in Hka. subst k.
    destruct (wf_arg_parts _ _ _ _ _ _ Hwa) as (W1 & W2 & W3 & W4).
    apply opens_group_kind_spec in W2. destruct W2 as (_ & _ & Ho & Hob).
    cbn [length] in Hn, Hs. rewrite Nat2Z.inj_succ in Hn, Hs.
    destruct (Ha strict m (flat_args cs ++ tail) Hm Hwa) as [f1 F1].
    destruct (IH (acc ++ [tree_arg (Arg sp GBrace o b c)]) (nreq - 1)%Z strict m tail
                 Hm ltac:(lia) Hw Hk
                 ltac:(destruct Hs as [Hs|[Hs1 Hs2]]; [left; lia | right; split; [lia | assumption]]))
      as [f2 F2].
    exists (S (Nat.max f1 f2)). intros f Hf. destruct f as [|f]; [lia|].
    rewrite flat_args_cons, <- app_assoc.
    rewrite (C09_attach_step_req f acc nreq strict m _ o
               (arg_inner (Arg sp GBrace o b c) ++ flat_args cs ++ tail)
               (tree_arg (Arg sp GBrace o b c)) (flat_args cs ++ tail)).
    + rewrite F2 by lia. rewrite <- app_assoc. cbn [map app length].
      rewrite Nat2Z.inj_succ.
      replace (nreq - 1 - Z.of_nat (length cs))%Z with (nreq - Z.succ (Z.of_nat (length cs)))%Z
        by lia.
      reflexivity.
    + lia.
    + apply arg_after_spacer; assumption.
    + exact Hob.
    + apply (F1 f). lia.
Qed.

Lemma stopsb_head k toks :
  k <> TMergedSpacer -> stopsb k toks = true -> head_notb k toks = true.
Proof.
  intros Hk H. apply stopsb_stops in H.
  pose proof (stops_at_head k toks Hk H) as H'. unfold head_notb.
  destruct toks as [|t ts]; [reflexivity|]. rewrite H'. reflexivity.
Qed.

(* ----------------------------------------------- runs of argument groups *)

Lemma take_kind_spec k l : forall x y, take_kind k l = (x, y) ->
  l = x ++ y /\ forallb (fun a => groupkind_beq (arg_kind a) k) x = true /\
  match y with a :: _ => groupkind_beq (arg_kind a) k = false | [] => True end.
Proof.
  induction l as [|a l IH]; intros x y H; cbn [take_kind] in H.
  - inversion H; subst. repeat split.
  - destruct (groupkind_beq (arg_kind a) k) eqn:E.
    + destruct (take_kind k l) as [x' y'] eqn:Et. inversion H; subst.
      destruct (IH x' y eq_refl) as (-> & Hx & Hy).
      split; [reflexivity|]. split; [|exact Hy]. cbn [forallb]. rewrite E, Hx. reflexivity.
    + inversion H; subst. split; [reflexivity|]. split; [reflexivity | exact E].
Qed.

Lemma take_kind_stuck k l :
  match l with a :: _ => groupkind_beq (arg_kind a) k = false | [] => True end ->
  take_kind k l = ([], l).
Proof. destruct l as [|a l]; [reflexivity|]. intro H. cbn [take_kind]. rewrite H. reflexivity. Qed.

Lemma kind_excl a : groupkind_beq (arg_kind a) GBrace = negb (groupkind_beq (arg_kind a) GBracket).
Proof. destruct (arg_kind a); reflexivity. Qed.

(* the head of a run of groups of kind k, seen through read_spacer *)
Lemma run_head_after_spacer mm k a l X :
  wf_arg mm a = true -> groupkind_beq (arg_kind a) k = true ->
  exists o, head_after_spacer (flat_args (a :: l) ++ X) = Some o /\
            is_tc (match k with GBrace => TGroupBegin | GBracket => TBracketBegin end) o = true.
Proof.
  destruct a as [sp k' o b c]. cbn [arg_kind]. intros Hw Hk. apply groupkind_eqb_eq in Hk. subst k'.
  destruct (wf_arg_parts _ _ _ _ _ _ Hw) as (W1 & W2 & _).
  apply opens_group_kind_spec in W2. destruct W2 as (_ & _ & Ho & Hob).
  exists o. split; [|exact Hob].
  rewrite flat_args_cons, <- app_assoc. apply head_after_spacer_arg; assumption.
Qed.

(* the head of a run whose first group has no spacer *)
Lemma run_head_direct mm k a l X :
  wf_arg mm a = true -> groupkind_beq (arg_kind a) k = true -> no_spacer a = true ->
  exists o Y, flat_args (a :: l) ++ X = o :: Y /\
              is_tc (match k with GBrace => TGroupBegin | GBracket => TBracketBegin end) o = true.
Proof.
  destruct a as [sp k' o b c]. cbn [arg_kind]. intros Hw Hk Hs. apply groupkind_eqb_eq in Hk.
  subst k'. destruct sp as [s|]; [discriminate Hs|].
  destruct (wf_arg_parts _ _ _ _ _ _ Hw) as (_ & W2 & _).
  apply opens_group_kind_spec in W2. destruct W2 as (_ & _ & _ & Hob).
  exists o. eexists. split; [|exact Hob].
  rewrite flat_args_cons, flat_arg_eq. cbn [opt_tok app]. reflexivity.
Qed.

(* read_args, free signature: the four runs *)
Lemma args_read_free b1 c1 b2 c2 :
  Forall PPa b1 -> Forall PPa c1 -> Forall PPa b2 -> Forall PPa c2 ->
  forall strict m rest, mode_is_special m = false ->
  forallb (wf_arg (mode_is_math m)) b1 = true -> forallb is_bracket_arg b1 = true ->
  forallb (wf_arg (mode_is_math m)) c1 = true -> forallb is_brace_arg c1 = true ->
  forallb (wf_arg (mode_is_math m)) b2 = true -> forallb is_bracket_arg b2 = true ->
  forallb (wf_arg (mode_is_math m)) c2 = true -> forallb is_brace_arg c2 = true ->
  (c1 = [] -> b2 = []) -> (b2 = [] -> c2 = []) ->
  head_no_spacer b2 = true -> head_no_spacer c2 = true ->
  match b2, c2 with
  | [], _ => stopsb TGroupBegin rest &&
             (if nonempty c1 then head_notb TBracketBegin rest else stopsb TBracketBegin rest)
  | _ :: _, [] => stopsb TBracketBegin rest && head_notb TGroupBegin rest
  | _ :: _, _ :: _ => stopsb TGroupBegin rest
  end = true ->
  Reads (fun f => read_args f (-1) (-1) strict m
                    (flat_args (b1 ++ c1 ++ b2 ++ c2) ++ rest))
        (Ok (map tree_arg (b1 ++ c1 ++ b2 ++ c2), rest)).
Proof.
  intros Hb1 Hc1 Hb2 Hc2 strict m rest Hm Wb1 Kb1 Wc1 Kc1 Wb2 Kb2 Wc2 Kc2 E12 E23 N2 N3 Hfol.
  (* the stop conditions of the four loops *)
  assert (S1 : stopsb TBracketBegin (flat_args c1 ++ flat_args b2 ++ flat_args c2 ++ rest) = true).
  { destruct c1 as [|a c1'].
    - rewrite (E12 eq_refl) in *. rewrite (E23 eq_refl) in *. cbn [nonempty] in Hfol.
      apply andb_true_iff in Hfol. exact (proj2 Hfol).
    - cbn [forallb] in Wc1, Kc1.
      apply andb_true_iff in Wc1. destruct Wc1 as [Wa _].
      apply andb_true_iff in Kc1. destruct Kc1 as [Ka _].
      destruct (run_head_after_spacer _ GBrace a c1' (flat_args b2 ++ flat_args c2 ++ rest) Wa Ka)
        as (o & Ho & Hob).
      unfold stopsb. rewrite Ho. rewrite (is_tc_excl _ TBracketBegin _ Hob); [reflexivity|discriminate]. }
  assert (S2 : stopsb TGroupBegin (flat_args b2 ++ flat_args c2 ++ rest) = true).
  { destruct b2 as [|a b2'].
    - rewrite (E23 eq_refl) in *. apply andb_true_iff in Hfol. exact (proj1 Hfol).
    - cbn [forallb] in Wb2, Kb2.
      apply andb_true_iff in Wb2. destruct Wb2 as [Wa _].
      apply andb_true_iff in Kb2. destruct Kb2 as [Ka _].
      destruct (run_head_after_spacer _ GBracket a b2' (flat_args c2 ++ rest) Wa Ka)
        as (o & Ho & Hob).
      unfold stopsb. rewrite Ho. rewrite (is_tc_excl _ TGroupBegin _ Hob); [reflexivity|discriminate]. }
  assert (Neg1 : forall n : nat, (-1 < 0 \/ Z.of_nat n <= -1)%Z) by (intro; lia).
  assert (Neg2 : forall n : nat, (-1 - Z.of_nat n < 0)%Z) by (intro; lia).
  assert (Neg3 : forall n k : nat, (-1 - Z.of_nat n < 0 \/ Z.of_nat k <= -1 - Z.of_nat n)%Z)
    by (intros; lia).
  assert (Neg4 : forall n k : nat, (-1 - Z.of_nat n - Z.of_nat k < 0)%Z) by (intros; lia).
  destruct (opt_loop b1 Hb1 [] (-1)%Z strict m (flat_args c1 ++ flat_args b2 ++ flat_args c2 ++ rest)
                     Hm (Neg1 _) Wb1 Kb1 (or_intror S1)) as [f1 F1].
  destruct (req_loop c1 Hc1 ([] ++ map tree_arg b1) (-1)%Z strict m
                     (flat_args b2 ++ flat_args c2 ++ rest)
                     Hm (Neg1 _) Wc1 Kc1 (or_intror (conj (Neg2 _) S2))) as [f2 F2].
  (* second pass, brackets *)
  assert (P3 : Reads (fun f =>
             match flat_args b2 ++ flat_args c2 ++ rest with
             | t :: _ => if is_tc TBracketBegin t
                         then read_arg_optional f (([] ++ map tree_arg b1) ++ map tree_arg c1)
                                (-1 - Z.of_nat (length b1))%Z strict m
                                (flat_args b2 ++ flat_args c2 ++ rest)
                         else Ok ((([] ++ map tree_arg b1) ++ map tree_arg c1,
                                   (-1 - Z.of_nat (length b1))%Z),
                                  flat_args b2 ++ flat_args c2 ++ rest)
             | [] => Ok ((([] ++ map tree_arg b1) ++ map tree_arg c1,
                          (-1 - Z.of_nat (length b1))%Z),
                         flat_args b2 ++ flat_args c2 ++ rest)
             end)
            (Ok (((([] ++ map tree_arg b1) ++ map tree_arg c1) ++ map tree_arg b2,
                  (-1 - Z.of_nat (length b1) - Z.of_nat (length b2))%Z),
                 flat_args c2 ++ rest))).
  { destruct b2 as [|a b2'].
    - rewrite (E23 eq_refl) in *. change (flat_args [] ++ flat_args [] ++ rest) with rest.
      change (flat_args [] ++ rest) with rest. cbn [map length]. rewrite app_nil_r, Z.sub_0_r.
      assert (H3 : head_notb TBracketBegin rest = true).
      { apply andb_true_iff in Hfol. destruct Hfol as [_ Hf2].
        destruct (nonempty c1); [exact Hf2 | apply stopsb_head; [discriminate | exact Hf2]]. }
      exists 0%nat. intros f _. unfold head_notb in H3. destruct rest as [|t ts]; [reflexivity|].
      apply negb_true_iff in H3. rewrite H3. reflexivity.
    - assert (S3 : stopsb TBracketBegin (flat_args c2 ++ rest) = true).
      { destruct c2 as [|a2 c2'].
        - apply andb_true_iff in Hfol. exact (proj1 Hfol).
        - cbn [forallb] in Wc2, Kc2.
          apply andb_true_iff in Wc2. destruct Wc2 as [Wa _].
          apply andb_true_iff in Kc2. destruct Kc2 as [Ka _].
          destruct (run_head_after_spacer _ GBrace a2 c2' rest Wa Ka) as (o & Ho & Hob).
          unfold stopsb. rewrite Ho.
          rewrite (is_tc_excl _ TBracketBegin _ Hob); [reflexivity|discriminate]. }
      destruct (opt_loop (a :: b2') Hb2 (([] ++ map tree_arg b1) ++ map tree_arg c1)
                         (-1 - Z.of_nat (length b1))%Z strict m (flat_args c2 ++ rest)
                         Hm (Neg3 _ _) Wb2 Kb2 (or_intror S3)) as [f3 F3].
      cbn [forallb] in Wb2, Kb2.
      apply andb_true_iff in Wb2. destruct Wb2 as [Wa _].
      apply andb_true_iff in Kb2. destruct Kb2 as [Ka _].
      cbn [head_no_spacer] in N2.
      destruct (run_head_direct _ GBracket a b2' (flat_args c2 ++ rest) Wa Ka N2)
        as (o & Y & EY & Hob).
      exists f3. intros f Hf.
      rewrite EY. rewrite Hob. rewrite <- EY. apply F3. exact Hf. }
  (* second pass, braces *)
  assert (P4 : Reads (fun f =>
             match flat_args c2 ++ rest with
             | t :: _ => if is_tc TGroupBegin t
                         then read_arg_required f
                                ((([] ++ map tree_arg b1) ++ map tree_arg c1) ++ map tree_arg b2)
                                (-1 - Z.of_nat (length c1))%Z strict m (flat_args c2 ++ rest)
                         else Ok (((([] ++ map tree_arg b1) ++ map tree_arg c1) ++ map tree_arg b2,
                                   (-1 - Z.of_nat (length c1))%Z), flat_args c2 ++ rest)
             | [] => Ok (((([] ++ map tree_arg b1) ++ map tree_arg c1) ++ map tree_arg b2,
                          (-1 - Z.of_nat (length c1))%Z), flat_args c2 ++ rest)
             end)
            (Ok ((((([] ++ map tree_arg b1) ++ map tree_arg c1) ++ map tree_arg b2)
                    ++ map tree_arg c2,
                  (-1 - Z.of_nat (length c1) - Z.of_nat (length c2))%Z), rest))).
  { destruct c2 as [|a c2'].
    - change (flat_args [] ++ rest) with rest. cbn [map length]. rewrite app_nil_r, Z.sub_0_r.
      assert (H4 : head_notb TGroupBegin rest = true).
      { destruct b2 as [|a2 b2'].
        - apply andb_true_iff in Hfol. apply stopsb_head; [discriminate | exact (proj1 Hfol)].
        - apply andb_true_iff in Hfol. exact (proj2 Hfol). }
      exists 0%nat. intros f _. unfold head_notb in H4. destruct rest as [|t ts]; [reflexivity|].
      apply negb_true_iff in H4. rewrite H4. reflexivity.
    - assert (S4 : stopsb TGroupBegin rest = true).
      { destruct b2 as [|a2 b2']; [specialize (E23 eq_refl); discriminate E23 | exact Hfol]. }
      destruct (req_loop (a :: c2') Hc2
                         ((([] ++ map tree_arg b1) ++ map tree_arg c1) ++ map tree_arg b2)
                         (-1 - Z.of_nat (length c1))%Z strict m rest
                         Hm (Neg3 _ _) Wc2 Kc2 (or_intror (conj (Neg4 _ _) S4))) as [f4 F4].
      cbn [forallb] in Wc2, Kc2.
      apply andb_true_iff in Wc2. destruct Wc2 as [Wa _].
      apply andb_true_iff in Kc2. destruct Kc2 as [Ka _].
      cbn [head_no_spacer] in N3.
      destruct (run_head_direct _ GBrace a c2' rest Wa Ka N3) as (o & Y & EY & Hob).
      exists f4. intros f Hf. rewrite EY. rewrite Hob. rewrite <- EY. apply F4. exact Hf. }
  destruct P3 as [f3 F3]. destruct P4 as [f4 F4].
  exists (S (Nat.max (Nat.max f1 f2) (Nat.max f3 f4))). intros f Hf. destruct f as [|f]; [lia|].
  rewrite C09_read_args_passes by reflexivity.
  rewrite !flat_args_app, <- !app_assoc.
  rewrite F1 by lia. cbn [bind]. rewrite F2 by lia. cbn [bind].
  rewrite F3 by lia. cbn [bind]. rewrite F4 by lia. cbn [bind].
  rewrite !map_app. cbn [app]. rewrite <- !app_assoc. reflexivity.
Qed.

(* read_args, fixed signature other than (0,0): at most `no` bracket groups,
   exactly `nr` brace groups *)
Lemma args_read_fixed nr no bs cs :
  Forall PPa bs -> Forall PPa cs ->
  forall strict m rest, mode_is_special m = false ->
  (0 <= nr)%Z -> (0 <= no)%Z -> (nr =? 0)%Z && (no =? 0)%Z = false ->
  forallb (wf_arg (mode_is_math m)) bs = true -> forallb is_bracket_arg bs = true ->
  forallb (wf_arg (mode_is_math m)) cs = true -> forallb is_brace_arg cs = true ->
  (Z.of_nat (length bs) <= no)%Z -> Z.of_nat (length cs) = nr ->
  (Z.of_nat (length bs) =? no)%Z ||
  (if (nr =? 0)%Z then stopsb TBracketBegin rest else head_notb TBracketBegin rest) = true ->
  Reads (fun f => read_args f nr no strict m (flat_args (bs ++ cs) ++ rest))
        (Ok (map tree_arg (bs ++ cs), rest)).
Proof.
  intros Hbs Hcs strict m rest Hm Hnr Hno Hnz Wb Kb Wc Kc Lb Lc Hfol.
  assert (Full : (no - Z.of_nat (length bs) = 0)%Z \/
                 (if (nr =? 0)%Z then stopsb TBracketBegin rest else head_notb TBracketBegin rest)
                 = true).
  { apply orb_true_iff in Hfol. destruct Hfol as [H|H]; [left; apply Z.eqb_eq in H; lia | right; exact H]. }
  assert (S1 : (no - Z.of_nat (length bs) = 0)%Z \/
               stopsb TBracketBegin (flat_args cs ++ rest) = true).
  { destruct Full as [H|H]; [left; exact H|]. right.
    destruct cs as [|a cs'].
    - cbn [length] in Lc. subst nr. exact H.
    - cbn [forallb] in Wc, Kc.
      apply andb_true_iff in Wc. destruct Wc as [Wa _].
      apply andb_true_iff in Kc. destruct Kc as [Ka _].
      destruct (run_head_after_spacer _ GBrace a cs' rest Wa Ka) as (o & Ho & Hob).
      unfold stopsb. rewrite Ho. rewrite (is_tc_excl _ TBracketBegin _ Hob); [reflexivity|discriminate]. }
  destruct (opt_loop bs Hbs [] no strict m (flat_args cs ++ rest) Hm (or_intror Lb) Wb Kb S1)
    as [f1 F1].
  assert (Lc1 : (Z.of_nat (length cs) <= nr)%Z) by lia.
  assert (Lc2 : (nr - Z.of_nat (length cs) = 0)%Z) by lia.
  destruct (req_loop cs Hcs ([] ++ map tree_arg bs) nr strict m rest Hm
                     (or_intror Lc1) Wc Kc (or_introl Lc2)) as [f2 F2].
  exists (S (S (Nat.max f1 f2))). intros f Hf. destruct f as [|f]; [lia|].
  rewrite C09_read_args_passes by exact Hnz.
  rewrite flat_args_app, <- app_assoc.
  rewrite F1 by lia. cbn [bind]. rewrite F2 by lia. cbn [bind].
  destruct f as [|f]; [lia|].
  (* second pass: the brace count is 0; the bracket count is 0 or no `[` follows *)
  replace (nr - Z.of_nat (length cs))%Z with 0%Z by lia.
  assert (P3 : match rest with
               | t :: _ => if is_tc TBracketBegin t
                           then read_arg_optional (S f) (([] ++ map tree_arg bs) ++ map tree_arg cs)
                                  (no - Z.of_nat (length bs))%Z strict m rest
                           else Ok ((([] ++ map tree_arg bs) ++ map tree_arg cs,
                                     (no - Z.of_nat (length bs))%Z), rest)
               | [] => Ok ((([] ++ map tree_arg bs) ++ map tree_arg cs,
                            (no - Z.of_nat (length bs))%Z), rest)
               end = Ok ((([] ++ map tree_arg bs) ++ map tree_arg cs,
                          (no - Z.of_nat (length bs))%Z), rest)).
  { destruct rest as [|t ts]; [reflexivity|].
    destruct (is_tc TBracketBegin t) eqn:Et; [|reflexivity].
    destruct Full as [H|H].
    - rewrite H. apply opt_zero.
    - exfalso. destruct (nr =? 0)%Z.
      + apply stopsb_head in H; [|discriminate]. cbn [head_notb] in H. rewrite Et in H. discriminate H.
      + cbn [head_notb] in H. rewrite Et in H. discriminate H. }
  rewrite P3. cbn [bind].
  assert (P4 : match rest with
               | t :: _ => if is_tc TGroupBegin t
                           then read_arg_required (S f) (([] ++ map tree_arg bs) ++ map tree_arg cs)
                                  0 strict m rest
                           else Ok ((([] ++ map tree_arg bs) ++ map tree_arg cs, 0%Z), rest)
               | [] => Ok ((([] ++ map tree_arg bs) ++ map tree_arg cs, 0%Z), rest)
               end = Ok ((([] ++ map tree_arg bs) ++ map tree_arg cs, 0%Z), rest)).
  { destruct rest as [|t ts]; [reflexivity|].
    destruct (is_tc TGroupBegin t); [apply req_zero | reflexivity]. }
  rewrite P4. cbn [bind]. rewrite map_app. reflexivity.
Qed.

Lemma nonempty_false {A} (l : list A) : negb (nonempty l) = true -> l = [].
Proof. destruct l; [reflexivity | discriminate]. Qed.

Lemma forallb_kind_bracket l :
  forallb (fun a => groupkind_beq (arg_kind a) GBracket) l = forallb is_bracket_arg l.
Proof. reflexivity. Qed.
Lemma forallb_kind_brace l :
  forallb (fun a => groupkind_beq (arg_kind a) GBrace) l = forallb is_brace_arg l.
Proof. reflexivity. Qed.

Lemma head_not_kind_nil k k' (y : list arg) :
  match y with a :: _ => groupkind_beq (arg_kind a) k = false | [] => True end ->
  forall x z, take_kind k' y = (x, z) -> k' = k -> x = [] /\ z = y.
Proof.
  intros H x z E ->. rewrite (take_kind_stuck k y H) in E. inversion E; subst. auto.
Qed.

(* read_args for every admissible signature and argument list *)
Lemma args_read sg args : Forall PPa args -> forall strict m rest,
  mode_is_special m = false ->
  cmd_shape sg args = true -> forallb (wf_arg (mode_is_math m)) args = true ->
  cmd_follow sg args rest = true ->
  Reads (fun f => read_args f (fst sg) (snd sg) strict m (flat_args args ++ rest))
        (Ok (map tree_arg args, rest)).
Proof.
  intros Hargs strict m rest Hm Hshape Hwf Hfol.
  unfold cmd_shape in Hshape. unfold cmd_follow, cmd_follow_b in Hfol.
  destruct (is_free sg) eqn:Efree.
  - (* free *)
    unfold is_free in Efree. apply andb_true_iff in Efree. destruct Efree as [E1 E2].
    apply Z.eqb_eq in E1, E2. destruct sg as [nr no]. cbn [fst snd] in *. subst nr no.
    unfold split4 in Hshape, Hfol.
    destruct (take_kind GBracket args) as [b1 r1] eqn:T1.
    destruct (take_kind GBrace r1) as [c1 r2] eqn:T2.
    destruct (take_kind GBracket r2) as [b2 r3] eqn:T3.
    destruct (take_kind GBrace r3) as [c2 r4] eqn:T4.
    apply andb_true_iff in Hshape. destruct Hshape as [Hshape N3].
    apply andb_true_iff in Hshape. destruct Hshape as [N0 N2].
    apply nonempty_false in N0. subst r4.
    destruct (take_kind_spec _ _ _ _ T1) as (A1 & K1 & Y1).
    destruct (take_kind_spec _ _ _ _ T2) as (A2 & K2 & Y2).
    destruct (take_kind_spec _ _ _ _ T3) as (A3 & K3 & Y3).
    destruct (take_kind_spec _ _ _ _ T4) as (A4 & K4 & _).
    rewrite app_nil_r in A4. subst r3. subst r2. subst r1. subst args.
    rewrite !forallb_app in Hwf.
    apply andb_true_iff in Hwf. destruct Hwf as [Wb1 Hwf].
    apply andb_true_iff in Hwf. destruct Hwf as [Wc1 Hwf].
    apply andb_true_iff in Hwf. destruct Hwf as [Wb2 Wc2].
    apply Forall_app in Hargs. destruct Hargs as [Hb1 Hargs].
    apply Forall_app in Hargs. destruct Hargs as [Hc1 Hargs].
    apply Forall_app in Hargs. destruct Hargs as [Hb2 Hc2].
    apply (args_read_free b1 c1 b2 c2 Hb1 Hc1 Hb2 Hc2 strict m rest Hm
             Wb1 K1 Wc1 K2 Wb2 K3 Wc2 K4); try assumption.
    + (* c1 = [] -> b2 = [] *)
      intro Ec. subst c1. cbn [app] in T2, T3.
      assert (Y1' : match b2 ++ c2 with
                    | a :: _ => groupkind_beq (arg_kind a) GBracket = false | [] => True end).
      { exact Y1. }
      rewrite (take_kind_stuck GBracket (b2 ++ c2) Y1') in T3. inversion T3. reflexivity.
    + (* b2 = [] -> c2 = [] *)
      intro Eb. subst b2. cbn [app] in T3, T4, Y2.
      rewrite (take_kind_stuck GBrace c2 Y2) in T4. inversion T4. reflexivity.
  - (* fixed *)
    apply andb_true_iff in Hshape. destruct Hshape as [Hshape Hsh].
    apply andb_true_iff in Hshape. destruct Hshape as [Hnr Hno].
    apply Z.leb_le in Hnr, Hno.
    destruct sg as [nr no]. cbn [fst snd] in *. unfold is_zero in *. cbn [fst snd] in *.
    destruct ((nr =? 0)%Z && (no =? 0)%Z) eqn:Ez.
    + apply nonempty_false in Hsh. subst args.
      apply andb_true_iff in Ez. destruct Ez as [Z1 Z2]. apply Z.eqb_eq in Z1, Z2. subst.
      exists 1%nat. intros f Hf. destruct f as [|f]; [lia|]. reflexivity.
    + destruct (take_kind GBracket args) as [bs r1] eqn:T1.
      destruct (take_kind GBrace r1) as [cs r2] eqn:T2.
      apply andb_true_iff in Hsh. destruct Hsh as [Hsh L2].
      apply andb_true_iff in Hsh. destruct Hsh as [N0 L1].
      apply nonempty_false in N0. subst r2.
      apply Z.leb_le in L1. apply Z.eqb_eq in L2.
      destruct (take_kind_spec _ _ _ _ T1) as (A1 & K1 & _).
      destruct (take_kind_spec _ _ _ _ T2) as (A2 & K2 & _).
      rewrite app_nil_r in A2. subst r1. subst args.
      rewrite forallb_app in Hwf. apply andb_true_iff in Hwf. destruct Hwf as [Wb Wc].
      apply Forall_app in Hargs. destruct Hargs as [Hbs Hcs].
      apply (args_read_fixed nr no bs cs Hbs Hcs strict m rest Hm Hnr Hno Ez Wb K1 Wc K2 L1 L2).
      exact Hfol.
Qed.

(* ------------------------------------------------------- the command *)

Lemma name_ok_parts n :
  name_ok n = true ->
  str_eqb (ttext n) s_item = false /\
  str_eqb (ttext n) s_begin = false /\ str_eqb (ttext n) s_end = false /\
  mem_str (ttext n) Tables.special_commands = false.
Proof.
  unfold name_ok. intro H.
  apply andb_true_iff in H. destruct H as [H H5].
  apply andb_true_iff in H. destruct H as [H H4].
  apply andb_true_iff in H. destruct H as [H2 H3].
  apply negb_true_iff in H2, H3, H4, H5. auto.
Qed.

Lemma read_command_plain f strict m n src :
  mem_str (ttext n) Tables.special_commands = false ->
  read_command (S f) (-1) (-1) 0 strict m (n :: src) =
  bind (read_args f (fst (signature_of (ttext n))) (snd (signature_of (ttext n))) strict m src)
       (fun '(args, src1) => Ok ((ttext n, args), src1)).
Proof.
  intros Hm. simpl. change (skipn 0 (n :: src)) with (n :: src). cbv iota beta.
  rewrite Hm. destruct (signature_of (ttext n)) as [a b]. reflexivity.
Qed.

(* the command part of a plain-named command: the name and all of its
   arguments; used for \name, \begin, \end and \item alike *)
Lemma cmd_head_read n args : Forall PPa args -> forall strict m rest,
  mode_is_special m = false ->
  mem_str (ttext n) Tables.special_commands = false ->
  cmd_shape (signature_of (ttext n)) args = true ->
  forallb (wf_arg (mode_is_math m)) args = true ->
  cmd_follow (signature_of (ttext n)) args rest = true ->
  Reads (fun f => read_command f (-1) (-1) 0 strict m (n :: flat_args args ++ rest))
        (Ok ((ttext n, map tree_arg args), rest)).
Proof.
  intros Hargs strict m rest Hm Hsp Hshape Hwf Hfol.
  destruct (args_read _ args Hargs strict m rest Hm Hshape Hwf Hfol) as [f1 F1].
  exists (S f1). intros f Hf. destruct f as [|f]; [lia|].
  rewrite (read_command_plain f strict m n _ Hsp), F1 by lia. reflexivity.
Qed.

Lemma read_expr_plain_cmd f skip strict m e n src args src1 :
  is_tc TEscape e = true -> name_ok n = true ->
  read_command f (-1) (-1) 0 strict m (n :: src) = Ok ((ttext n, args), src1) ->
  read_expr (S f) skip strict m (e :: n :: src) =
  Ok (ECmd (strip (ttext n)) args [] (tpos e), src1).
Proof.
  intros He Hn Ha. destruct (name_ok_parts n Hn) as (Hi & Hb & _ & Hm).
  cbn [read_expr]. rewrite (escape_not_math_begin e He), He, Ha. cbn [bind].
  rewrite Hi, Hb. reflexivity.
Qed.

(* ------------------------------------------------------- environments *)

(* read_command with one token to skip is read_command on the tail *)
Lemma read_command_skip1 f nreq nopt strict m e src :
  read_command f nreq nopt 1 strict m (e :: src) = read_command f nreq nopt 0 strict m src.
Proof.
  destruct f as [|f]; [reflexivity|]. cbn [read_command].
  change (skipn 1 (e :: src)) with src. change (skipn 0 src) with src.
  assert (H1 : (length (e :: src) <? 1)%nat = false) by (apply Nat.ltb_ge; simpl; lia).
  assert (H2 : (length src <? 0)%nat = false) by (apply Nat.ltb_ge; lia).
  rewrite H1, H2. reflexivity.
Qed.

(* "a peek returns what the real read returns": if read_expr succeeds on an
   escape, the look-ahead of read_env / read_item on the same tokens succeeds
   and reports the token after the escape as the command name *)
Lemma peek_of_read_expr f skip strict m e n src r :
  is_tc TEscape e = true ->
  read_expr (S f) skip strict m (e :: n :: src) = Ok r ->
  exists args src1,
    read_command f (-1) (-1) 1 strict m (e :: n :: src) = Ok ((ttext n, args), src1).
Proof.
  intros He H. cbn [read_expr] in H. rewrite (escape_not_math_begin e He), He in H.
  apply bind_ok in H. destruct H as ([[name args] src1] & Hc & _).
  pose proof (read_command_name _ _ _ _ _ _ _ _ _ _ Hc) as Hn. subst name.
  exists args, src1. rewrite read_command_skip1. exact Hc.
Qed.


(* an element that starts with an escape is a command, an environment or an
   item: its second token is the name; the name is not `end`, and it is
   `item` exactly for items *)
Lemma escape_head_shape mm d :
  wf mm d = true -> is_tc TEscape (dhead d) = true ->
  exists n tl, flat d = dhead d :: n :: tl /\ str_eqb (ttext n) s_end = false /\
               str_eqb (ttext n) s_item = is_item d.
Proof.
  destruct d as [t|o b c|e n args|k o b c|e b ng xargs body e2 en ng2|e n args body];
    intros Hwf He; cbn [dhead] in He.
  - exfalso. cbn [wf] in Hwf. apply is_tc_true in He. rewrite He in Hwf. discriminate Hwf.
  - exfalso. rewrite wf_group in Hwf.
    apply andb_true_iff in Hwf. destruct Hwf as [Hwf _].
    apply andb_true_iff in Hwf. destruct Hwf as [H1 _].
    rewrite (is_tc_excl _ TEscape _ H1) in He; discriminate.
  - rewrite wf_cmd in Hwf.
    apply andb_true_iff in Hwf. destruct Hwf as [Hwf _].
    apply andb_true_iff in Hwf. destruct Hwf as [Hwf _].
    apply andb_true_iff in Hwf. destruct Hwf as [_ H2].
    destruct (name_ok_parts n H2) as (Hitem & _ & Hend & _).
    exists n, (flat_args args). split; [reflexivity | split; [exact Hend | exact Hitem]].
  - exfalso. rewrite wf_math in Hwf.
    apply andb_true_iff in Hwf. destruct Hwf as [Hwf _].
    apply andb_true_iff in Hwf. destruct Hwf as [H1 _].
    apply opens_math_kind_spec in H1. destruct H1 as [H1 _].
    rewrite (escape_not_math_begin o He) in H1. discriminate H1.
  - rewrite wf_env in Hwf.
    do 12 (apply andb_true_iff in Hwf; destruct Hwf as [Hwf _]).
    apply andb_true_iff in Hwf. destruct Hwf as [_ Hb]. apply str_eqb_eq in Hb.
    exists b, (flat_args (ng :: xargs) ++ flat_list body ++ e2 :: en :: flat_arg ng2).
    split; [reflexivity|]. rewrite Hb. split; reflexivity.
  - rewrite wf_item in Hwf.
    do 2 (apply andb_true_iff in Hwf; destruct Hwf as [Hwf _]).
    apply andb_true_iff in Hwf. destruct Hwf as [_ Hn]. apply str_eqb_eq in Hn.
    exists n, (flat_args args ++ flat_list body).
    split; [reflexivity|]. rewrite Hn. split; reflexivity.
Qed.

Lemma item_not_math mm d : wf mm d = true -> is_item d = true -> mm = false.
Proof.
  destruct d; try discriminate. rewrite wf_item. intros Hwf _.
  do 4 (apply andb_true_iff in Hwf; destruct Hwf as [Hwf _]).
  apply negb_true_iff in Hwf. exact Hwf.
Qed.

Lemma elem_peek_ok mm d R :
  wf mm d = true -> (mm = false -> head_peek R) -> peek_ok d R.
Proof.
  intros Hwf H. unfold peek_ok. destruct (is_item d) eqn:E; [|exact I].
  apply H. apply (item_not_math mm d Hwf E).
Qed.

(* the look-ahead succeeds in front of every element of a well-formed
   non-math sequence, given that it succeeds in front of what follows it *)
Lemma seq_head_peek ds : Forall PPd ds -> forall x tail,
  wf_seq false x ds tail = true -> head_peek tail -> head_peek (flat_list ds ++ tail).
Proof.
  induction 1 as [|d ds Hd Hds IH]; intros x tail Hwf Ht; [exact Ht|].
  destruct (wf_seq_cons_parts _ _ _ _ _ Hwf) as (_ & _ & H2 & H3 & H4).
  specialize (IH x tail H4 Ht).
  intros e src E He. rewrite flat_list_cons, <- app_assoc in E |- *.
  assert (Ed : dhead d = e).
  { destruct (flat_head d) as [tl Htl]. rewrite Htl in E. inversion E. reflexivity. }
  subst e.
  destruct (escape_head_shape _ d H2 He) as (n & tl & Htl & _).
  destruct (Hd [] true MNonMath (flat_list ds ++ tail) eq_refl sub_skip_nil H2 H3
               (elem_peek_ok false d _ H2 (fun _ => IH))) as [f1 F1].
  assert (E1 := F1 (S f1) ltac:(lia)). cbv beta in E1.
  rewrite Htl in E1 |- *. rewrite <- !app_comm_cons in E1 |- *.
  destruct (peek_of_read_expr f1 [] true MNonMath (dhead d) n _ _ He E1) as (pa & ps & Hp).
  exists ((ttext n, pa), ps). exists f1. intros f Hf.
  apply (enough_fuel_command f1 f); [exact Hp | discriminate | exact Hf].
Qed.

(* reading one element of a sequence *)
Lemma seq_elem d ds x tail skip strict m :
  PPd d -> Forall PPd ds -> mode_is_special m = false -> sub_skip SK skip ->
  wf_seq (mode_is_math m) x (d :: ds) tail = true ->
  (mode_is_math m = false -> head_peek tail) ->
  Reads (fun f => read_expr f skip strict m (flat d ++ flat_list ds ++ tail))
        (Ok (tree d, flat_list ds ++ tail)).
Proof.
  intros Hd Hds Hm Hsk Hwf Ht.
  destruct (wf_seq_cons_parts _ _ _ _ _ Hwf) as (_ & _ & H2 & H3 & H4).
  apply (Hd skip strict m _ Hm Hsk H2 H3).
  apply (elem_peek_ok _ d _ H2). intro Hmm. rewrite Hmm in H4.
  exact (seq_head_peek ds Hds x tail H4 (Ht Hmm)).
Qed.

Lemma head_peek_nonescape c rest : is_tc TEscape c = false -> head_peek (c :: rest).
Proof. intros H e src E He. inversion E; subst. congruence. Qed.

Lemma head_peek_nil : head_peek [].
Proof. intros e src E. discriminate E. Qed.

(* the body of a group: elements one by one, then the closer *)
Lemma seq_group ds : Forall PPd ds -> forall k pos strict m acc c rest,
  mode_is_special m = false ->
  wf_seq (mode_is_math m) (CGroup k) ds (c :: rest) = true -> is_group_end k c = true ->
  Reads (fun f => read_arg_loop f k pos strict m acc (flat_list ds ++ c :: rest))
        (Ok (EGroup k (acc ++ map tree ds) pos, rest)).
Proof.
  induction 1 as [|d ds Hd Hds IH]; intros k pos strict m acc c rest Hm Hwf Hc.
  - exists 1%nat. intros f Hf. destruct f as [|f]; [lia|].
    change (flat_list [] ++ c :: rest) with (c :: rest). simpl map. rewrite app_nil_r.
    apply C09_group_closes_on_own_delimiter. exact Hc.
  - destruct (wf_seq_cons_parts _ _ _ _ _ Hwf) as (H1 & _ & _ & _ & H4).
    cbn [closes] in H1.
    destruct (flat_head d) as [tl Htl].
    destruct (seq_elem d ds _ _ [] strict m Hd Hds Hm sub_skip_nil Hwf
                (fun _ => head_peek_nonescape c rest (group_end_not_escape k c Hc)))
      as [f1 F1].
    destruct (IH k pos strict m (acc ++ [tree d]) c rest Hm H4 Hc) as [f2 F2].
    exists (S (Nat.max f1 f2)). intros f Hf. destruct f as [|f]; [lia|].
    rewrite flat_list_cons, <- app_assoc.
    assert (E1 := F1 f ltac:(lia)). cbv beta in E1.
    rewrite Htl in E1 |- *. rewrite <- app_comm_cons in E1 |- *.
    rewrite (C09_group_continues f k pos strict m acc (dhead d) _ H1), E1. cbn [bind].
    rewrite F2 by lia. rewrite <- app_assoc. reflexivity.
Qed.

(* the body of a math region *)
Lemma seq_math ds : Forall PPd ds -> forall k pos strict acc c rest,
  wf_seq true (CMath k) ds (c :: rest) = true -> is_math_end k c = true ->
  Reads (fun f => read_math_loop f k pos strict acc (flat_list ds ++ c :: rest))
        (Ok (EMath k (acc ++ map tree ds) pos, rest)).
Proof.
  induction 1 as [|d ds Hd Hds IH]; intros k pos strict acc c rest Hwf Hc.
  - exists 1%nat. intros f Hf. destruct f as [|f]; [lia|].
    change (flat_list [] ++ c :: rest) with (c :: rest). simpl map. rewrite app_nil_r.
    apply C12_math_closes. exact Hc.
  - destruct (wf_seq_cons_parts _ _ _ _ _ Hwf) as (H1 & _ & _ & _ & H4).
    cbn [closes] in H1.
    destruct (flat_head d) as [tl Htl].
    destruct (seq_elem d ds (CMath k) (c :: rest) [] strict MMath Hd Hds eq_refl sub_skip_nil Hwf
                (fun (E : true = false) => match Bool.diff_true_false E with end))
      as [f1 F1].
    destruct (IH k pos strict (acc ++ [tree d]) c rest H4 Hc) as [f2 F2].
    exists (S (Nat.max f1 f2)). intros f Hf. destruct f as [|f]; [lia|].
    rewrite flat_list_cons, <- app_assoc.
    assert (E1 := F1 f ltac:(lia)). cbv beta in E1.
    rewrite Htl in E1 |- *. rewrite <- app_comm_cons in E1 |- *.
    rewrite (C12_math_continues f k pos strict acc (dhead d) _ H1), E1. cbn [bind].
    rewrite F2 by lia. rewrite <- app_assoc. reflexivity.
Qed.

(* one argument group, from its opening token *)
Lemma arg_group sp k o b c : Forall PPd b -> PPa (Arg sp k o b c).
Proof.
  intros Hb strict m rest Hm Hwf.
  destruct (wf_arg_parts _ _ _ _ _ _ Hwf) as (H1 & H2 & H3 & H4).
  apply opens_group_kind_spec in H2. destruct H2 as (Hk & _).
  pose proof (wf_seq_ext _ (CGroup k) b c [] rest (ext_ok_group_end k c H3) H4) as H4'.
  destruct (seq_group b Hb k (tpos o) strict m [] c rest Hm H4' H3) as [f1 F1].
  exists (S f1). intros f Hf. destruct f as [|f]; [lia|].
  cbn [arg_open arg_inner tree_arg]. rewrite <- app_assoc. cbn [app].
  cbn [read_arg]. rewrite Hk. apply F1. lia.
Qed.

(* one layer of the environment loop *)
Lemma env_loop_step_other f name args pos skip strict m acc t l :
  is_tc TEscape t = false ->
  read_env_loop (S f) name args pos skip strict m acc (t :: l) =
  bind (read_expr f skip strict m (t :: l)) (fun '(e, src1) =>
    read_env_loop f name args pos skip strict m (acc ++ [e]) src1).
Proof. intro H. simpl. rewrite H. reflexivity. Qed.

Lemma env_loop_step_esc f name args pos skip strict m acc t l cname cargs crest :
  is_tc TEscape t = true ->
  read_command f (-1) (-1) 1 strict m (t :: l) = Ok ((cname, cargs), crest) ->
  str_eqb cname s_end = false ->
  read_env_loop (S f) name args pos skip strict m acc (t :: l) =
  bind (read_expr f skip strict m (t :: l)) (fun '(e, src1) =>
    read_env_loop f name args pos skip strict m (acc ++ [e]) src1).
Proof. intros H Hc Hn. simpl. rewrite H, Hc. cbn [bind]. rewrite Hn. reflexivity. Qed.

Lemma env_loop_end f name args pos skip strict m acc t l cname a0 cargs crest c src3 g rest :
  is_tc TEscape t = true ->
  read_command f (-1) (-1) 1 strict m (t :: l) = Ok ((cname, a0 :: cargs), crest) ->
  str_eqb cname s_end = true -> str_eqb (arg_string a0) name = true ->
  snd (read_spacer (skipn 2 (t :: l))) = c :: src3 ->
  read_arg f c strict m src3 = Ok (g, rest) ->
  read_env_loop (S f) name args pos skip strict m acc (t :: l) =
  Ok (ENamed name args acc pos, rest).
Proof.
  intros H Hc Hn Ha Hs Hg. simpl. rewrite H, Hc. cbn [bind]. rewrite Hn, Ha. cbn [negb].
  destruct (read_spacer (skipn 2 (t :: l))) as [b0 src2]. cbn [snd] in Hs. subst src2.
  rewrite Hg. reflexivity.
Qed.

Lemma end_facts en :
  str_eqb (ttext en) s_end = true ->
  signature_of (ttext en) = free_sig /\
  mem_str (ttext en) Tables.special_commands = false.
Proof. intro H. apply str_eqb_eq in H. rewrite H. split; vm_compute; reflexivity. Qed.

Lemma begin_facts b :
  str_eqb (ttext b) s_begin = true ->
  signature_of (ttext b) = free_sig /\
  mem_str (ttext b) Tables.special_commands = false /\ ttext b = s_begin.
Proof.
  intro H. apply str_eqb_eq in H. rewrite H. repeat split; vm_compute; reflexivity.
Qed.

(* the mode of the environment body, as read_expr computes it *)
Definition env_mode (m : mode) (ename : str) : mode :=
  if mem_str ename Tables.math_env_names then MMath else m.

Lemma env_mode_special m ename : mode_is_special m = false ->
  mode_is_special (env_mode m ename) = false.
Proof. intro H. unfold env_mode. destruct (mem_str _ _); [reflexivity | exact H]. Qed.

Lemma env_mode_math m ng :
  mode_is_math (env_mode m (env_name ng)) = env_mm (mode_is_math m) ng.
Proof.
  unfold env_mode, env_mm. destruct (mem_str _ _).
  - rewrite orb_true_r. reflexivity.
  - rewrite orb_false_r. reflexivity.
Qed.

(* \begin <name group> <arguments> hands over to the environment loop *)
Lemma read_expr_begin f skip strict m e b src a0 args' src1 :
  is_tc TEscape e = true -> mode_is_special m = false ->
  read_command f (-1) (-1) 0 strict m (b :: src) = Ok ((s_begin, a0 :: args'), src1) ->
  mem_str (strip (arg_string a0)) skip = false ->
  read_expr (S f) skip strict m (e :: b :: src) =
  read_env_loop f (strip (arg_string a0)) args' (tpos e) skip strict
                (env_mode m (strip (arg_string a0))) [] src1.
Proof.
  intros He Hm Hc Hskip. cbn [read_expr].
  rewrite (escape_not_math_begin e He), He, Hc. cbn [bind].
  replace (str_eqb s_begin s_item) with false by (vm_compute; reflexivity).
  replace (str_eqb s_begin s_begin) with true by (vm_compute; reflexivity).
  rewrite Hm. cbn [negb andb]. rewrite Hskip. reflexivity.
Qed.



(* the look-ahead in front of  \end <name group>  succeeds (any mode in which
   the name group is well-formed, any tolerance) *)
Lemma end_peek_reads en ng2 strict m rest :
  PPa ng2 -> mode_is_special m = false ->
  str_eqb (ttext en) s_end = true ->
  wf_arg (mode_is_math m) ng2 = true -> is_brace_arg ng2 = true ->
  cmd_follow free_sig [ng2] rest = true ->
  forall e2,
  Reads (fun f => read_command f (-1) (-1) 1 strict m (e2 :: en :: flat_arg ng2 ++ rest))
        (Ok ((ttext en, [tree_arg ng2]), rest)).
Proof.
  intros Hng2 Hm Hen Wng2 Kng2 Hfol e2.
  destruct (end_facts en Hen) as [Hsig Hsp].
  assert (Wc : forallb (wf_arg (mode_is_math m)) [ng2] = true)
    by (cbn [forallb]; rewrite Wng2; reflexivity).
  assert (Hsh : cmd_shape free_sig [ng2] = true).
  { unfold is_brace_arg in Kng2. apply groupkind_eqb_eq in Kng2.
    destruct ng2 as [sp k o b c]. cbn [arg_kind] in Kng2. subst k. reflexivity. }
  assert (Hsh' : cmd_shape (signature_of (ttext en)) [ng2] = true)
    by (rewrite Hsig; exact Hsh).
  assert (Hfol' : cmd_follow (signature_of (ttext en)) [ng2] rest = true)
    by (rewrite Hsig; exact Hfol).
  destruct (cmd_head_read en [ng2] (Forall_cons _ Hng2 (Forall_nil _))
              strict m rest Hm Hsp Hsh' Wc Hfol') as [f1 F1].
  exists f1. intros f Hf. rewrite read_command_skip1.
  assert (E := F1 f Hf). cbv beta in E.
  unfold flat_args in E. cbn [app map concat] in E. rewrite app_nil_r in E. exact E.
Qed.

(* the body of an environment: elements one by one (each escape is peeked
   at first), then  \end <name group> *)
Lemma seq_env ds : Forall PPd ds ->
  forall name args pos skip strict m acc e2 en ng2 rest,
  mode_is_special m = false -> sub_skip SK skip ->
  wf_seq (mode_is_math m) CEnv ds (e2 :: en :: flat_arg ng2 ++ rest) = true ->
  PPa ng2 ->
  is_tc TEscape e2 = true -> str_eqb (ttext en) s_end = true ->
  wf_arg (mode_is_math m) ng2 = true -> is_brace_arg ng2 = true ->
  str_eqb (arg_string (tree_arg ng2)) name = true -> cmd_follow free_sig [ng2] rest = true ->
  Reads (fun f => read_env_loop f name args pos skip strict m acc
                    (flat_list ds ++ e2 :: en :: flat_arg ng2 ++ rest))
        (Ok (ENamed name args (acc ++ map tree ds) pos, rest)).
Proof.
  induction 1 as [|d ds Hd Hds IH];
    intros name args pos skip strict m acc e2 en ng2 rest Hm Hsk Hwf Hng2 He2 Hen Wng2 Kng2 Hnm Hfol.
  - (* \end{name} *)
    destruct (end_peek_reads en ng2 strict m rest Hng2 Hm Hen Wng2 Kng2 Hfol e2) as [f1 F1].
    destruct ng2 as [sp k o b c].
    destruct (wf_arg_parts _ _ _ _ _ _ Wng2) as (W1 & W2 & W3 & W4).
    apply opens_group_kind_spec in W2. destruct W2 as (_ & _ & Ho & _).
    destruct (Hng2 strict m rest Hm Wng2) as [f2 F2].
    exists (S (Nat.max f1 f2)). intros f Hf. destruct f as [|f]; [lia|].
    change (flat_list [] ++ e2 :: en :: flat_arg (Arg sp k o b c) ++ rest)
      with (e2 :: en :: flat_arg (Arg sp k o b c) ++ rest).
    simpl map. rewrite app_nil_r.
    apply (env_loop_end f name args pos skip strict m acc e2 _ (ttext en)
             (tree_arg (Arg sp k o b c)) [] rest o
             (arg_inner (Arg sp k o b c) ++ rest) (tree_arg (Arg sp k o b c)) rest He2).
    + apply (F1 f). lia.
    + exact Hen.
    + exact Hnm.
    + change (skipn 2 (e2 :: en :: flat_arg (Arg sp k o b c) ++ rest))
        with (flat_arg (Arg sp k o b c) ++ rest).
      apply arg_after_spacer; assumption.
    + apply (F2 f). lia.
  - destruct (wf_seq_cons_parts _ _ _ _ _ Hwf) as (_ & _ & H2 & _ & H4).
    set (tail := e2 :: en :: flat_arg ng2 ++ rest) in *.
    assert (Htail : mode_is_math m = false -> head_peek tail).
    { intros Hmm e src E He.
      destruct (end_peek_reads en ng2 true MNonMath rest Hng2 eq_refl Hen) with (e2 := e2)
        as [f0 F0]; try assumption.
      - cbn [mode_is_math]. rewrite <- Hmm. exact Wng2.
      - eexists. exists f0. exact F0. }
    destruct (seq_elem d ds CEnv tail skip strict m Hd Hds Hm Hsk Hwf Htail) as [f1 F1].
    destruct (IH name args pos skip strict m (acc ++ [tree d]) e2 en ng2 rest
                 Hm Hsk H4 Hng2 He2 Hen Wng2 Kng2 Hnm Hfol) as [f2 F2].
    fold tail in F2.
    exists (S (S (Nat.max f1 f2))). intros f Hf. destruct f as [|f]; [lia|].
    rewrite flat_list_cons, <- app_assoc.
    assert (E1 := F1 f ltac:(lia)). cbv beta in E1.
    destruct (is_tc TEscape (dhead d)) eqn:Ee.
    + destruct (escape_head_shape _ d H2 Ee) as (n & tl & Htl & Hnend & _).
      rewrite Htl in E1 |- *. rewrite <- !app_comm_cons in E1 |- *.
      destruct f as [|f]; [lia|].
      destruct (peek_of_read_expr f skip strict m (dhead d) n _ _ Ee E1) as (pa & ps & Hp).
      assert (Hp' : read_command (S f) (-1) (-1) 1 strict m (dhead d :: n :: tl ++ flat_list ds ++ tail)
                    = Ok ((ttext n, pa), ps)).
      { apply (enough_fuel_command f (S f)); [exact Hp | discriminate | lia]. }
      rewrite (env_loop_step_esc (S f) name args pos skip strict m acc (dhead d) _ _ _ _
                 Ee Hp' Hnend).
      rewrite E1. cbn [bind]. rewrite F2 by lia. rewrite <- app_assoc. reflexivity.
    + destruct (flat_head d) as [tl Htl].
      rewrite Htl in E1 |- *. rewrite <- !app_comm_cons in E1 |- *.
      rewrite (env_loop_step_other f name args pos skip strict m acc (dhead d) _ Ee).
      rewrite E1. cbn [bind]. rewrite F2 by lia. rewrite <- app_assoc. reflexivity.
Qed.

(* ------------------------------------------------------------- items *)

(* one layer of the item loop *)
Lemma item_loop_stop_esc f acc t l cname cargs crest :
  is_tc TEscape t = true ->
  read_command f (-1) (-1) 1 true MNonMath (t :: l) = Ok ((cname, cargs), crest) ->
  str_eqb cname s_end || str_eqb cname s_item = true ->
  read_item_loop (S f) acc (t :: l) = Ok (acc, t :: l).
Proof. intros H Hc Hn. simpl. rewrite H, Hc. cbn [bind]. rewrite Hn. reflexivity. Qed.

Lemma item_loop_stop_brace f acc t l :
  is_tc TEscape t = false -> is_tc TGroupEnd t = true ->
  read_item_loop (S f) acc (t :: l) = Ok (acc, t :: l).
Proof. intros H Hc. simpl. rewrite H, Hc. reflexivity. Qed.

Lemma item_loop_step_esc f acc t l cname cargs crest :
  is_tc TEscape t = true ->
  read_command f (-1) (-1) 1 true MNonMath (t :: l) = Ok ((cname, cargs), crest) ->
  str_eqb cname s_end || str_eqb cname s_item = false ->
  read_item_loop (S f) acc (t :: l) =
  bind (read_expr f [] true MNonMath (t :: l)) (fun '(e, src1) =>
    read_item_loop f (acc ++ [e]) src1).
Proof. intros H Hc Hn. simpl. rewrite H, Hc. cbn [bind]. rewrite Hn. reflexivity. Qed.

Lemma item_loop_step_other f acc t l :
  is_tc TEscape t = false -> is_tc TGroupEnd t = false ->
  read_item_loop (S f) acc (t :: l) =
  bind (read_expr f [] true MNonMath (t :: l)) (fun '(e, src1) =>
    read_item_loop f (acc ++ [e]) src1).
Proof. intros H Hc. simpl. rewrite H, Hc. reflexivity. Qed.

(* the body of an item: elements one by one - always read strictly, in
   non-math mode, without skip list - up to where the item stops *)
Lemma seq_item ds : Forall PPd ds -> forall acc R,
  wf_seq false CItem ds R = true -> item_stop_b R = true -> head_peek R ->
  Reads (fun f => read_item_loop f acc (flat_list ds ++ R)) (Ok (acc ++ map tree ds, R)).
Proof.
  induction 1 as [|d ds Hd Hds IH]; intros acc R Hwf Hstop Hpk.
  - change (flat_list [] ++ R) with R. simpl map. rewrite app_nil_r.
    destruct R as [|t tl].
    { exists 1%nat. intros f Hf. destruct f as [|f]; [lia|]. reflexivity. }
    cbn [item_stop_b] in Hstop. destruct (is_tc TEscape t) eqn:Et.
    + destruct tl as [|n tl']; [discriminate Hstop|].
      destruct (Hpk t (n :: tl') eq_refl Et) as ([[cname cargs] crest] & f1 & F1).
      exists (S f1). intros f Hf. destruct f as [|f]; [lia|].
      assert (E := F1 f ltac:(lia)). cbv beta in E.
      assert (Hn : cname = ttext n).
      { rewrite read_command_skip1 in E.
        exact (read_command_name _ _ _ _ _ _ _ _ _ _ E). }
      subst cname.
      apply (item_loop_stop_esc f acc t _ _ _ _ Et E Hstop).
    + exists 1%nat. intros f Hf. destruct f as [|f]; [lia|].
      apply item_loop_stop_brace; assumption.
  - destruct (wf_seq_cons_parts _ _ _ _ _ Hwf) as (H1 & Hal & H2 & _ & H4).
    cbn [closes] in H1. cbn [allowed] in Hal. apply negb_true_iff in Hal.
    destruct (seq_elem d ds CItem R [] true MNonMath Hd Hds eq_refl sub_skip_nil Hwf
                (fun _ => Hpk)) as [f1 F1].
    destruct (IH (acc ++ [tree d]) R H4 Hstop Hpk) as [f2 F2].
    exists (S (S (Nat.max f1 f2))). intros f Hf. destruct f as [|f]; [lia|].
    rewrite flat_list_cons, <- app_assoc.
    assert (E1 := F1 f ltac:(lia)). cbv beta in E1.
    destruct (is_tc TEscape (dhead d)) eqn:Ee.
    + destruct (escape_head_shape _ d H2 Ee) as (n & tl & Htl & Hnend & Hnitem).
      rewrite Hal in Hnitem.
      rewrite Htl in E1 |- *. rewrite <- !app_comm_cons in E1 |- *.
      destruct f as [|f]; [lia|].
      destruct (peek_of_read_expr f [] true MNonMath (dhead d) n _ _ Ee E1) as (pa & ps & Hp).
      assert (Hp' : read_command (S f) (-1) (-1) 1 true MNonMath
                                 (dhead d :: n :: tl ++ flat_list ds ++ R)
                    = Ok ((ttext n, pa), ps)).
      { apply (enough_fuel_command f (S f)); [exact Hp | discriminate | lia]. }
      rewrite (item_loop_step_esc (S f) acc (dhead d) _ _ _ _ Ee Hp').
      2:{ rewrite Hnend, Hnitem. reflexivity. }
      rewrite E1. cbn [bind]. rewrite F2 by lia. rewrite <- app_assoc. reflexivity.
    + destruct (flat_head d) as [tl Htl].
      rewrite Htl in E1 |- *. rewrite <- !app_comm_cons in E1 |- *.
      rewrite (item_loop_step_other f acc (dhead d) _ Ee H1).
      rewrite E1. cbn [bind]. rewrite F2 by lia. rewrite <- app_assoc. reflexivity.
Qed.

Lemma item_facts n :
  str_eqb (ttext n) s_item = true ->
  signature_of (ttext n) = free_sig /\
  mem_str (ttext n) Tables.special_commands = false /\ ttext n = s_item.
Proof.
  intro H. apply str_eqb_eq in H. rewrite H. repeat split; vm_compute; reflexivity.
Qed.

(* \item <arguments> hands over to the item loop *)
Lemma read_expr_item f skip strict m e n src args src1 contents src2 :
  is_tc TEscape e = true -> mode_is_math m = false ->
  read_command f (-1) (-1) 0 strict m (n :: src) = Ok ((s_item, args), src1) ->
  read_item_loop f [] src1 = Ok (contents, src2) ->
  read_expr (S f) skip strict m (e :: n :: src) =
  Ok (ECmd (strip s_item) args contents (tpos e), src2).
Proof.
  intros He Hm Hc Hi. cbn [read_expr].
  rewrite (escape_not_math_begin e He), He, Hc. cbn [bind].
  replace (str_eqb s_item s_item) with true by (vm_compute; reflexivity).
  rewrite Hm, Hi. reflexivity.
Qed.

(* ------------------------------------------------------- the induction *)

Lemma PP_case_leaf t : PPd (DLeaf t).
Proof.
    intros skip strict m rest _ _ Hwf _ _. exists 1%nat. intros f Hf. destruct f as [|f]; [lia|].
    cbn [flat tree app]. apply read_expr_leaf. exact Hwf.
Qed.

Lemma PP_case_group o b c : Forall PPd b -> PPd (DGroup o b c).
Proof.
    intros Hb skip strict m rest _ _ Hwf _ _. rewrite wf_group in Hwf.
    apply andb_true_iff in Hwf. destruct Hwf as [Hwf H3].
    apply andb_true_iff in Hwf. destruct Hwf as [H1 H2].
    assert (Wa : wf_arg (mode_is_math MNonMath) (Arg None GBrace o b c) = true).
    { rewrite wf_arg_eq, H2. cbn [mode_is_math]. rewrite H3. unfold opens_group_kind.
      replace (group_tok_begin GBrace) with (Some TGroupBegin) by (vm_compute; reflexivity).
      rewrite H1. reflexivity. }
    destruct (arg_group None GBrace o b c Hb strict MNonMath rest eq_refl Wa) as [f1 F1].
    exists (S f1). intros f Hf. destruct f as [|f]; [lia|].
    rewrite flat_group. rewrite <- app_comm_cons.
    rewrite (read_expr_group_open f skip strict m o _ H1).
    apply (F1 f). lia.
Qed.

Lemma PP_case_cmd e n args : Forall PPa args -> PPd (DCmd e n args).
Proof.
    intros Hargs skip strict m rest Hm _ Hwf Hfol _. rewrite wf_cmd in Hwf.
    apply andb_true_iff in Hwf. destruct Hwf as [Hwf H4].
    apply andb_true_iff in Hwf. destruct Hwf as [Hwf H3].
    apply andb_true_iff in Hwf. destruct Hwf as [H1 H2].
    cbn [follows_ok] in Hfol.
    destruct (name_ok_parts n H2) as (_ & _ & _ & Hsp).
    destruct (cmd_head_read n args Hargs strict m rest Hm Hsp H3 H4 Hfol) as [f1 F1].
    exists (S f1). intros f Hf. destruct f as [|f]; [lia|].
    rewrite flat_cmd. rewrite <- !app_comm_cons.
    apply (read_expr_plain_cmd f skip strict m e n _ _ rest H1 H2).
    apply F1. lia.
Qed.

Lemma PP_case_math k o b c : Forall PPd b -> PPd (DMath k o b c).
Proof.
    intros Hb skip strict m rest _ _ Hwf _ _. rewrite wf_math in Hwf.
    apply andb_true_iff in Hwf. destruct Hwf as [Hwf H3].
    apply andb_true_iff in Hwf. destruct Hwf as [H1 H2].
    apply opens_math_kind_spec in H1. destruct H1 as [Hk _].
    pose proof (wf_seq_ext _ (CMath k) b c [] rest (ext_ok_math_end k c H2) H3) as H3'.
    destruct (seq_math b Hb k (tpos o) strict [] c rest H3' H2) as [f1 F1].
    exists (S f1). intros f Hf. destruct f as [|f]; [lia|].
    rewrite flat_math. rewrite <- app_comm_cons, <- app_assoc. cbn [app].
    rewrite (C12_math_opens f skip strict m o _ k Hk).
    apply F1. lia.
Qed.

Lemma PP_case_env e b ng xargs body e2 en ng2 :
  PPa ng -> Forall PPa xargs -> Forall PPd body -> PPa ng2 ->
  PPd (DEnv e b ng xargs body e2 en ng2).
Proof.
    intros Hng Hxargs Hbody Hng2 skip strict m rest Hm Hsk Hwf Hfol _.
    rewrite wf_env in Hwf.
    apply andb_true_iff in Hwf. destruct Hwf as [Hwf W13].
    apply andb_true_iff in Hwf. destruct Hwf as [Hwf W12].
    apply andb_true_iff in Hwf. destruct Hwf as [Hwf W11].
    apply andb_true_iff in Hwf. destruct Hwf as [Hwf W10].
    apply andb_true_iff in Hwf. destruct Hwf as [Hwf W9].
    apply andb_true_iff in Hwf. destruct Hwf as [Hwf W8].
    apply andb_true_iff in Hwf. destruct Hwf as [Hwf W7].
    apply andb_true_iff in Hwf. destruct Hwf as [Hwf W7b].
    apply andb_true_iff in Hwf. destruct Hwf as [Hwf W7a].
    apply andb_true_iff in Hwf. destruct Hwf as [Hwf W6].
    apply andb_true_iff in Hwf. destruct Hwf as [Hwf W4].
    apply andb_true_iff in Hwf. destruct Hwf as [Hwf W3].
    apply andb_true_iff in Hwf. destruct Hwf as [W1 W2].
    apply negb_true_iff in W6.
    cbn [follows_ok] in Hfol.
    destruct (begin_facts b W2) as (Hsig & Hsp & Hb).
    set (tail := e2 :: en :: flat_arg ng2 ++ rest).
    set (m' := env_mode m (env_name ng)).
    assert (Hm' : mode_is_special m' = false) by (apply env_mode_special; exact Hm).
    assert (Emm : mode_is_math m' = env_mm (mode_is_math m) ng) by apply env_mode_math.
    assert (Ne2 : is_tc TMergedSpacer e2 = false)
      by (apply (is_tc_excl _ _ _ W9); discriminate).
    (* the command part of \begin *)
    assert (Wc : forallb (wf_arg (mode_is_math m)) (ng :: xargs) = true)
      by (cbn [forallb]; rewrite W3, W7b; reflexivity).
    assert (Fb : cmd_follow free_sig (ng :: xargs) (flat_list body ++ tail) = true).
    { unfold tail. change (e2 :: en :: flat_arg ng2 ++ rest)
                     with (e2 :: [] ++ (en :: flat_arg ng2 ++ rest)).
      rewrite <- (cmd_follow_ext free_sig (ng :: xargs) (flat_list body) e2 [] _ Ne2). exact W7. }
    assert (W7a' : cmd_shape (signature_of (ttext b)) (ng :: xargs) = true)
      by (rewrite Hsig; exact W7a).
    assert (Fb' : cmd_follow (signature_of (ttext b)) (ng :: xargs) (flat_list body ++ tail) = true)
      by (rewrite Hsig; exact Fb).
    destruct (cmd_head_read b (ng :: xargs) (Forall_cons _ Hng Hxargs)
                strict m (flat_list body ++ tail) Hm Hsp W7a' Wc Fb')
      as [f1 F1].
    (* the body and \end, in the mode of the body *)
    assert (Wb : wf_seq (mode_is_math m') CEnv body tail = true).
    { rewrite Emm. unfold tail. change (e2 :: en :: flat_arg ng2 ++ rest)
                     with (e2 :: [en] ++ (flat_arg ng2 ++ rest)).
      apply wf_seq_ext; [|exact W8]. split; [exact Ne2 | right; discriminate]. }
    assert (W11' : wf_arg (mode_is_math m') ng2 = true) by (rewrite Emm; exact W11).
    destruct (seq_env body Hbody (env_name ng) (map tree_arg xargs) (tpos e) skip strict m' []
                      e2 en ng2 rest Hm' Hsk Wb Hng2 W9 W10 W11' W12 W13 Hfol) as [f2 F2].
    fold tail in F2.
    assert (Hskip : mem_str (env_name ng) skip = false).
    { destruct (mem_str (env_name ng) skip) eqn:E; [|reflexivity].
      apply Hsk in E. rewrite W6 in E. discriminate E. }
    exists (S (Nat.max f1 f2)). intros f Hf. destruct f as [|f]; [lia|].
    rewrite flat_env. rewrite <- !app_comm_cons.
    assert (E1 := F1 f ltac:(lia)). cbv beta in E1.
    rewrite Hb in E1. cbn [map] in E1.
    replace ((flat_args (ng :: xargs) ++ flat_list body ++ e2 :: en :: flat_arg ng2) ++ rest)
      with (flat_args (ng :: xargs) ++ flat_list body ++ tail).
    2:{ unfold tail. rewrite <- !app_assoc. rewrite <- !app_comm_cons. reflexivity. }
    rewrite (read_expr_begin f skip strict m e b _ (tree_arg ng) (map tree_arg xargs) _
               W1 Hm E1 Hskip).
    cbn [tree]. apply (F2 f). lia.
Qed.

Lemma PP_case_item e n args body :
  Forall PPa args -> Forall PPd body -> PPd (DItem e n args body).
Proof.
    intros Hargs Hbody skip strict m rest Hm _ Hwf Hfol Hpk.
    rewrite wf_item in Hwf.
    apply andb_true_iff in Hwf. destruct Hwf as [Hwf W5].
    apply andb_true_iff in Hwf. destruct Hwf as [Hwf W4].
    apply andb_true_iff in Hwf. destruct Hwf as [Hwf W3].
    apply andb_true_iff in Hwf. destruct Hwf as [W1 W2].
    apply negb_true_iff in W1.
    rewrite follows_ok_item in Hfol.
    apply andb_true_iff in Hfol. destruct Hfol as [Hfol F3].
    apply andb_true_iff in Hfol. destruct Hfol as [F1 F2].
    unfold peek_ok in Hpk. cbn [is_item] in Hpk.
    destruct (item_facts n W3) as (Hsig & Hsp & Hn).
    assert (W4' : cmd_shape (signature_of (ttext n)) args = true)
      by (rewrite Hsig; exact W4).
    assert (F1' : cmd_follow (signature_of (ttext n)) args (flat_list body ++ rest) = true)
      by (rewrite Hsig; exact F1).
    destruct (cmd_head_read n args Hargs strict m (flat_list body ++ rest)
                Hm Hsp W4' W5 F1') as [f1 G1].
    destruct (seq_item body Hbody [] rest F2 F3 Hpk) as [f2 G2].
    exists (S (Nat.max f1 f2)). intros f Hf. destruct f as [|f]; [lia|].
    rewrite flat_item. rewrite <- !app_comm_cons, <- app_assoc.
    assert (E1 := G1 f ltac:(lia)). cbv beta in E1. rewrite Hn in E1.
    cbn [tree]. rewrite Hn.
    apply (read_expr_item f skip strict m e n _ _ _ _ rest W2 W1 E1).
    apply (G2 f). lia.
Qed.

Theorem PP_all : forall d, PPd d.
Proof.
  apply (doc_ind' PPd PPa).
  - exact PP_case_leaf.
  - exact PP_case_group.
  - exact PP_case_cmd.
  - exact PP_case_math.
  - exact PP_case_env.
  - exact PP_case_item.
  - intros sp k o b c Hb. apply arg_group. exact Hb.
Qed.

Lemma PP_Forall ds : Forall PPd ds.
Proof. apply Forall_forall. intros d _. apply PP_all. Qed.

(* ------------------------------ explicit fuel (via Stage 0 and TOT) *)

(* one document element, followed by anything its follow condition allows *)
Theorem PP_expr d skip strict m rest f :
  mode_is_special m = false -> sub_skip SK skip ->
  wf (mode_is_math m) d = true -> follows_ok d rest = true -> peek_ok d rest ->
  (3 * length (flat d ++ rest) + 1 <= f)%nat ->
  read_expr f skip strict m (flat d ++ rest) = Ok (tree d, rest).
Proof.
  intros Hm Hsk Hwf Hfol Hpk Hf.
  destruct (PP_all d skip strict m rest Hm Hsk Hwf Hfol Hpk) as [f0 F0].
  apply (fuel_any_expr f0); [apply F0; lia | exact Hf].
Qed.

(* the body of a group closed by `c` *)
Theorem PP_seq_group ds k pos strict m acc c rest f :
  mode_is_special m = false ->
  wf_seq (mode_is_math m) (CGroup k) ds (c :: rest) = true -> is_group_end k c = true ->
  (3 * length (flat_list ds ++ c :: rest) + 2 <= f)%nat ->
  read_arg_loop f k pos strict m acc (flat_list ds ++ c :: rest)
  = Ok (EGroup k (acc ++ map tree ds) pos, rest).
Proof.
  intros Hm Hwf Hc Hf.
  destruct (seq_group ds (PP_Forall ds) k pos strict m acc c rest Hm Hwf Hc) as [f0 F0].
  apply (fuel_any_argloop f0); [apply F0; lia | exact Hf].
Qed.

(* the body of a math region closed by `c` *)
Theorem PP_seq_math ds k pos strict acc c rest f :
  wf_seq true (CMath k) ds (c :: rest) = true -> is_math_end k c = true ->
  (3 * length (flat_list ds ++ c :: rest) + 2 <= f)%nat ->
  read_math_loop f k pos strict acc (flat_list ds ++ c :: rest)
  = Ok (EMath k (acc ++ map tree ds) pos, rest).
Proof.
  intros Hwf Hc Hf.
  destruct (seq_math ds (PP_Forall ds) k pos strict acc c rest Hwf Hc) as [f0 F0].
  apply (fuel_any_math f0); [apply F0; lia | exact Hf].
Qed.

Lemma PP_arg_all a : PPa a.
Proof. destruct a as [sp k o b c]. apply arg_group. apply PP_Forall. Qed.

(* the body of an environment, up to and including  \end <name group> *)
Theorem PP_seq_env ds name args pos skip strict m acc e2 en ng2 rest f :
  mode_is_special m = false -> sub_skip SK skip ->
  wf_seq (mode_is_math m) CEnv ds (e2 :: en :: flat_arg ng2 ++ rest) = true ->
  is_tc TEscape e2 = true -> str_eqb (ttext en) s_end = true ->
  wf_arg (mode_is_math m) ng2 = true -> is_brace_arg ng2 = true ->
  str_eqb (arg_string (tree_arg ng2)) name = true -> cmd_follow free_sig [ng2] rest = true ->
  (3 * length (flat_list ds ++ e2 :: en :: flat_arg ng2 ++ rest) + 2 <= f)%nat ->
  read_env_loop f name args pos skip strict m acc
                (flat_list ds ++ e2 :: en :: flat_arg ng2 ++ rest)
  = Ok (ENamed name args (acc ++ map tree ds) pos, rest).
Proof.
  intros Hm Hsk Hwf He2 Hen Wng2 Kng2 Hnm Hfol Hf.
  destruct (seq_env ds (PP_Forall ds) name args pos skip strict m acc e2 en ng2 rest
                    Hm Hsk Hwf (PP_arg_all ng2) He2 Hen Wng2 Kng2 Hnm Hfol) as [f0 F0].
  apply (fuel_any_env f0); [apply F0; lia | exact Hf].
Qed.

(* the body of an item, up to where it stops *)
Theorem PP_seq_item ds acc R f :
  wf_seq false CItem ds R = true -> item_stop_b R = true -> head_peek R ->
  (3 * length (flat_list ds ++ R) + 2 <= f)%nat ->
  read_item_loop f acc (flat_list ds ++ R) = Ok (acc ++ map tree ds, R).
Proof.
  intros Hwf Hstop Hpk Hf.
  destruct (seq_item ds (PP_Forall ds) acc R Hwf Hstop Hpk) as [f0 F0].
  apply (fuel_any_item f0); [apply F0; lia | exact Hf].
Qed.

(* --------------------------------------------------------- top level *)

Lemma read_tex_loop_step f ef skip strict acc toks :
  toks <> [] ->
  read_tex_loop (S f) ef skip strict acc toks =
  bind (read_expr ef skip strict MNonMath toks) (fun '(e, rest) =>
    read_tex_loop f ef skip strict (acc ++ [e]) rest).
Proof. destruct toks; [congruence | reflexivity]. Qed.

Theorem PP_tex_loop ds : forall fuel efuel skip strict acc,
  sub_skip SK skip -> wf_seq false CTop ds [] = true ->
  (length (flat_list ds) < fuel)%nat -> (3 * length (flat_list ds) + 1 <= efuel)%nat ->
  read_tex_loop fuel efuel skip strict acc (flat_list ds) = Ok (acc ++ map tree ds).
Proof.
  induction ds as [|d ds IH]; intros fuel efuel skip strict acc Hsk Hwf Hfu Hef.
  - destruct fuel as [|fuel]; [simpl in Hfu; lia|]. simpl. rewrite app_nil_r. reflexivity.
  - destruct (wf_seq_cons_parts _ _ _ _ _ Hwf) as (_ & _ & H2 & H3 & H4).
    assert (Hpk : peek_ok d (flat_list ds ++ [])).
    { apply (elem_peek_ok false d _ H2). intros _.
      exact (seq_head_peek ds (PP_Forall ds) CTop [] H4 head_peek_nil). }
    rewrite app_nil_r in H3, Hpk.
    rewrite flat_list_cons in Hfu, Hef |- *. rewrite app_length in Hfu, Hef.
    pose proof (flat_length_pos d) as Hpos.
    destruct fuel as [|fuel]; [lia|].
    rewrite read_tex_loop_step.
    2:{ destruct (flat_head d) as [tl ->]. discriminate. }
    rewrite (PP_expr d skip strict MNonMath (flat_list ds) efuel eq_refl Hsk H2 H3 Hpk)
      by (rewrite app_length; lia).
    cbn [bind]. rewrite IH; [|exact Hsk|exact H4|lia|lia].
    rewrite <- app_assoc. reflexivity.
Qed.

End WithSkip.

Lemma sub_skip_refl SK : sub_skip SK SK.
Proof. intros n H. exact H. Qed.

(* PP, top level: the token list of a well-formed document sequence parses
   to exactly the expected trees, in both tolerance modes; the environment
   names must not be among the verbatim names (built-in or user's) *)
Theorem PP_parse_tokens ds strict user :
  wf_seq (all_skip user) false CTop ds [] = true ->
  parse_tokens (flat_list ds) strict user = Ok (ERoot (map tree ds)).
Proof.
  intro Hwf. unfold parse_tokens, fuel_for.
  rewrite (PP_tex_loop (all_skip user) ds _ _ _ strict [] (sub_skip_refl _) Hwf) by lia.
  reflexivity.
Qed.

(* ====================================================================== *)
(* print o parse o print: the expected tree prints as the tokens          *)
(* ====================================================================== *)

(* no spacer between a command and its argument groups, unpadded names *)
Fixpoint printable (d : doc) : bool :=
  match d with
  | DLeaf _ => true
  | DGroup _ b _ => forallb printable b
  | DCmd _ n args => str_eqb (strip (ttext n)) (ttext n) && forallb printable_arg args
  | DMath _ _ b _ => forallb printable b
  | DEnv _ _ ng xargs body _ _ ng2 =>
    printable_arg ng && forallb printable_arg xargs && printable_arg ng2 &&
    str_eqb (strip (arg_string (tree_arg ng))) (arg_string (tree_arg ng)) &&
    forallb printable body
  | DItem _ _ args body => forallb printable_arg args && forallb printable body
  end
with printable_arg (a : arg) : bool :=
  match a with
  | Arg sp _ _ b _ => match sp with None => true | Some _ => false end && forallb printable b
  end.

Section Print.
Variable SK : list str.

Definition estr_d (d : doc) : Prop := forall mm rest,
  wf SK mm d = true -> follows_ok SK d rest = true ->
  printable d = true -> Forall tok_wf (flat d) ->
  estr (tree d) = texts (flat d).
Definition estr_a (a : arg) : Prop := forall mm,
  wf_arg SK mm a = true -> printable_arg a = true -> Forall tok_wf (flat_arg a) ->
  estr (tree_arg a) = texts (flat_arg a).

Lemma texts_cons t l : texts (t :: l) = ttext t ++ texts l.
Proof. reflexivity. Qed.
Lemma texts_one t : texts [t] = ttext t.
Proof. unfold texts. simpl. apply app_nil_r. Qed.

Lemma estr_body mm x b : Forall estr_d b -> forall r,
  wf_seq SK mm x b r = true -> forallb printable b = true ->
  Forall tok_wf (flat_list b) ->
  concat (map estr (map tree b)) = texts (flat_list b).
Proof.
  intros Hb r. induction Hb as [|d b Hd _ IH]; intros Hwf Hp Ht; [reflexivity|].
  destruct (wf_seq_cons_parts _ _ _ _ _ _ Hwf) as (_ & _ & H2 & H3 & H4).
  cbn [forallb] in Hp. apply andb_true_iff in Hp. destruct Hp as [Hp1 Hp2].
  rewrite flat_list_cons in Ht |- *. apply Forall_app in Ht. destruct Ht as [Ht1 Ht2].
  cbn [map concat]. rewrite texts_app, (Hd mm _ H2 H3 Hp1 Ht1), (IH H4 Hp2 Ht2). reflexivity.
Qed.

Lemma estr_args mm args : Forall estr_a args ->
  forallb (wf_arg SK mm) args = true -> forallb printable_arg args = true ->
  Forall tok_wf (flat_args args) ->
  concat (map estr (map tree_arg args)) = texts (flat_args args).
Proof.
  induction 1 as [|a args Ha _ IH]; intros H4 Hp Ta; [reflexivity|].
  cbn [forallb] in H4, Hp.
  apply andb_true_iff in H4. destruct H4 as [W1 W2].
  apply andb_true_iff in Hp. destruct Hp as [P1 P2].
  rewrite flat_args_cons in Ta |- *. apply Forall_app in Ta. destruct Ta as [T1 T2].
  cbn [map concat]. rewrite texts_app, (Ha mm W1 P1 T1), (IH W2 P2 T2). reflexivity.
Qed.

Lemma tok_wf_group_begin o k :
  tok_wf o -> group_tok_begin k = Some (tcat o) -> ttext o = group_begin k.
Proof. intros (H & _) E. apply H. exact E. Qed.
Lemma tok_wf_group_end c k :
  tok_wf c -> is_group_end k c = true -> ttext c = group_end k.
Proof. intros (_ & H & _) E. apply H. apply is_group_end_tok. exact E. Qed.
Lemma tok_wf_math_begin o k :
  tok_wf o -> math_tok_begin k = Some (tcat o) -> ttext o = math_begin k.
Proof. intros (_ & _ & H & _) E. apply H. exact E. Qed.
Lemma tok_wf_math_end c k :
  tok_wf c -> is_math_end k c = true -> ttext c = math_end k.
Proof. intros (_ & _ & _ & H & _) E. apply H. apply is_math_end_tok. exact E. Qed.
Lemma tok_wf_escape e : tok_wf e -> is_tc TEscape e = true -> ttext e = [backslash].
Proof. intros (_ & _ & _ & _ & H) E. apply H. apply is_tc_true. exact E. Qed.

Lemma estr_arg_group sp k o b c : Forall estr_d b -> estr_a (Arg sp k o b c).
Proof.
  intros Hb mm Hwf Hp Ht.
  destruct (wf_arg_parts _ _ _ _ _ _ _ Hwf) as (W1 & W2 & W3 & W4).
  apply opens_group_kind_spec in W2. destruct W2 as (_ & Hk & _).
  cbn [printable_arg] in Hp. apply andb_true_iff in Hp. destruct Hp as [Hsp Hp].
  destruct sp as [s|]; [discriminate Hsp|].
  rewrite flat_arg_eq in Ht |- *. cbn [opt_tok app] in Ht |- *.
  inversion Ht as [|? ? To Ht']; subst. apply Forall_app in Ht'. destruct Ht' as [Tb Tc].
  inversion Tc as [|? ? Tc' _]; subst.
  cbn [tree_arg estr]. rewrite texts_cons, texts_app, texts_one.
  rewrite (estr_body mm (CGroup k) b Hb [c] W4 Hp Tb).
  rewrite (tok_wf_group_begin o k To Hk), (tok_wf_group_end c k Tc' W3).
  reflexivity.
Qed.

(* a brace argument prints as  { <its string> } *)
Lemma estr_brace_arg a : is_brace_arg a = true ->
  estr (tree_arg a) = [123%N] ++ arg_string (tree_arg a) ++ [125%N].
Proof.
  destruct a as [sp k o b c]. unfold is_brace_arg. cbn [arg_kind]. intro H.
  apply groupkind_eqb_eq in H. subst k. reflexivity.
Qed.

Theorem estr_tree_all : forall d, estr_d d.
Proof.
  apply (doc_ind' estr_d estr_a).
  - intros t mm rest _ _ _ _. cbn [tree estr flat]. rewrite texts_one. reflexivity.
  - intros o b c Hb mm rest Hwf _ Hp Ht.
    assert (Wa : wf_arg SK false (Arg None GBrace o b c) = true).
    { rewrite wf_group in Hwf. rewrite wf_arg_eq.
      apply andb_true_iff in Hwf. destruct Hwf as [Hwf H3].
      apply andb_true_iff in Hwf. destruct Hwf as [H1 H2].
      rewrite H2, H3. unfold opens_group_kind.
      replace (group_tok_begin GBrace) with (Some TGroupBegin) by (vm_compute; reflexivity).
      rewrite H1. reflexivity. }
    exact (estr_arg_group None GBrace o b c Hb false Wa Hp Ht).
  - intros e n args Hargs mm rest Hwf _ Hp Ht. rewrite wf_cmd in Hwf.
    apply andb_true_iff in Hwf. destruct Hwf as [Hwf H4].
    apply andb_true_iff in Hwf. destruct Hwf as [Hwf _].
    apply andb_true_iff in Hwf. destruct Hwf as [H1 _].
    cbn [printable] in Hp. apply andb_true_iff in Hp. destruct Hp as [Hn Hp].
    apply str_eqb_eq in Hn.
    rewrite flat_cmd in Ht |- *.
    inversion Ht as [|? ? Te Ht']; subst. inversion Ht' as [|? ? _ Ta]; subst.
    cbn [tree estr]. rewrite !texts_cons, (tok_wf_escape e Te H1), Hn.
    cbn [app]. f_equal. f_equal. rewrite app_nil_r.
    exact (estr_args mm args Hargs H4 Hp Ta).
  - intros k o b c Hb mm rest Hwf _ Hp Ht. rewrite wf_math in Hwf.
    apply andb_true_iff in Hwf. destruct Hwf as [Hwf H3].
    apply andb_true_iff in Hwf. destruct Hwf as [H1 H2].
    apply opens_math_kind_spec in H1. destruct H1 as [_ Hk].
    cbn [printable] in Hp.
    rewrite flat_math in Ht |- *.
    inversion Ht as [|? ? To Ht']; subst. apply Forall_app in Ht'. destruct Ht' as [Tb Tc].
    inversion Tc as [|? ? Tc' _]; subst.
    cbn [tree estr]. rewrite texts_cons, texts_app, texts_one.
    rewrite (estr_body true (CMath k) b Hb [c] H3 Hp Tb).
    rewrite (tok_wf_math_begin o k To Hk), (tok_wf_math_end c k Tc' H2).
    reflexivity.
  - (* environment *)
    intros e b ng xargs body e2 en ng2 Hng Hxargs Hbody Hng2 mm rest Hwf _ Hp Ht.
    rewrite wf_env in Hwf.
    apply andb_true_iff in Hwf. destruct Hwf as [Hwf W13].
    apply andb_true_iff in Hwf. destruct Hwf as [Hwf W12].
    apply andb_true_iff in Hwf. destruct Hwf as [Hwf W11].
    apply andb_true_iff in Hwf. destruct Hwf as [Hwf W10].
    apply andb_true_iff in Hwf. destruct Hwf as [Hwf W9].
    apply andb_true_iff in Hwf. destruct Hwf as [Hwf W8].
    apply andb_true_iff in Hwf. destruct Hwf as [Hwf W7].
    apply andb_true_iff in Hwf. destruct Hwf as [Hwf W7b].
    apply andb_true_iff in Hwf. destruct Hwf as [Hwf W7a].
    apply andb_true_iff in Hwf. destruct Hwf as [Hwf W6].
    apply andb_true_iff in Hwf. destruct Hwf as [Hwf W4].
    apply andb_true_iff in Hwf. destruct Hwf as [Hwf W3].
    apply andb_true_iff in Hwf. destruct Hwf as [W1 W2].
    apply str_eqb_eq in W2, W10, W13.
    cbn [printable] in Hp.
    apply andb_true_iff in Hp. destruct Hp as [Hp P4].
    apply andb_true_iff in Hp. destruct Hp as [Hp P3].
    apply andb_true_iff in Hp. destruct Hp as [Hp P2].
    apply andb_true_iff in Hp. destruct Hp as [P1 P1x].
    apply str_eqb_eq in P3.
    rewrite flat_env in Ht |- *. rewrite flat_args_cons in Ht |- *.
    inversion Ht as [|? ? Te Ht1]; subst. inversion Ht1 as [|? ? _ Ht2]; subst.
    apply Forall_app in Ht2. destruct Ht2 as [Targs Ht3].
    apply Forall_app in Targs. destruct Targs as [Tng Txargs].
    apply Forall_app in Ht3. destruct Ht3 as [Tbody Ht4].
    inversion Ht4 as [|? ? Te2 Ht5]; subst. inversion Ht5 as [|? ? _ Tng2]; subst.
    rewrite !texts_cons, !texts_app, !texts_cons.
    rewrite <- (Hng mm W3 P1 Tng), <- (Hng2 _ W11 P2 Tng2).
    rewrite <- (estr_args mm xargs Hxargs W7b P1x Txargs).
    rewrite <- (estr_body _ CEnv body Hbody [e2; en] W8 P4 Tbody).
    rewrite (estr_brace_arg ng W4), (estr_brace_arg ng2 W12).
    rewrite (tok_wf_escape e Te W1), (tok_wf_escape e2 Te2 W9), W2, W10, W13.
    unfold env_name. rewrite P3.
    cbn [tree estr]. rewrite !P3. unfold env_begin, env_end.
    change s_begin_open with ([backslash] ++ s_begin ++ [123%N]).
    change s_end_open with ([backslash] ++ s_end ++ [123%N]).
    change s_close with [125%N].
    rewrite <- !app_assoc. cbn [app]. reflexivity.
  - (* item *)
    intros e n args body Hargs Hbody mm rest Hwf Hfol Hp Ht.
    rewrite wf_item in Hwf.
    apply andb_true_iff in Hwf. destruct Hwf as [Hwf W5].
    apply andb_true_iff in Hwf. destruct Hwf as [Hwf _].
    apply andb_true_iff in Hwf. destruct Hwf as [Hwf W3].
    apply andb_true_iff in Hwf. destruct Hwf as [_ W2].
    apply str_eqb_eq in W3.
    rewrite follows_ok_item in Hfol.
    apply andb_true_iff in Hfol. destruct Hfol as [Hfol _].
    apply andb_true_iff in Hfol. destruct Hfol as [_ F2].
    cbn [printable] in Hp. apply andb_true_iff in Hp. destruct Hp as [P1 P2].
    rewrite flat_item in Ht |- *.
    inversion Ht as [|? ? Te Ht1]; subst. inversion Ht1 as [|? ? _ Ht2]; subst.
    apply Forall_app in Ht2. destruct Ht2 as [Ta Tb].
    cbn [tree estr]. rewrite !texts_cons, texts_app, (tok_wf_escape e Te W2), W3.
    rewrite (estr_args mm args Hargs W5 P1 Ta).
    rewrite (estr_body false CItem body Hbody rest F2 P2 Tb).
    replace (strip s_item) with s_item by (vm_compute; reflexivity).
    reflexivity.
  - intros sp k o b c Hb. apply estr_arg_group. exact Hb.
Qed.

Theorem estr_tree mm d rest :
  wf SK mm d = true -> follows_ok SK d rest = true ->
  printable d = true -> Forall tok_wf (flat d) ->
  estr (tree d) = texts (flat d).
Proof. apply estr_tree_all. Qed.

Theorem estr_tree_list mm x ds r :
  wf_seq SK mm x ds r = true -> forallb printable ds = true -> Forall tok_wf (flat_list ds) ->
  estr (ERoot (map tree ds)) = texts (flat_list ds).
Proof.
  intros Hwf Hp Ht. cbn [estr].
  assert (Hb : Forall estr_d ds) by (apply Forall_forall; intros d _; apply estr_tree_all).
  exact (estr_body mm x ds Hb r Hwf Hp Ht).
Qed.

End Print.

(* print o parse o print *)
Theorem PP_print_parse_print ds strict user :
  wf_seq (all_skip user) false CTop ds [] = true -> forallb printable ds = true ->
  Forall tok_wf (flat_list ds) ->
  exists t, parse_tokens (flat_list ds) strict user = Ok t /\ estr t = texts (flat_list ds).
Proof.
  intros Hwf Hp Ht. exists (ERoot (map tree ds)). split.
  - apply PP_parse_tokens. exact Hwf.
  - eapply estr_tree_list; eassumption.
Qed.

(* ====================================================================== *)
(* Non-vacuity: concrete documents built from real tokenizer output       *)
(* ====================================================================== *)

Definition tok0 : token := mkt [] 0%Z TText.

(* \a[x]{y \b{z}} {g $m_1$} t *)
Definition ex1_src : str :=
  [92;97;91;120;93;123;121;32;92;98;123;122;125;125;32;123;103;32;36;109;95;49;36;125;32;116]%N.
Definition ex1_toks : list token := fst (tokens_of_string ex1_src).
Definition ex1_doc : list doc :=
  let t i := nth i ex1_toks tok0 in
  [ DCmd (t 0%nat) (t 1%nat)
      [ Arg None GBracket (t 2%nat) [DLeaf (t 3%nat)] (t 4%nat);
        Arg None GBrace (t 5%nat)
            [ DLeaf (t 6%nat);
              DCmd (t 7%nat) (t 8%nat)
                   [Arg None GBrace (t 9%nat) [DLeaf (t 10%nat)] (t 11%nat)] ]
            (t 12%nat);
        Arg (Some (t 13%nat)) GBrace (t 14%nat)
            [ DLeaf (t 15%nat);
              DMath MInline (t 16%nat) [DLeaf (t 17%nat)] (t 18%nat) ]
            (t 19%nat) ];
    DLeaf (t 20%nat) ].

(* {a {b $c$}} \d[e]{f}g   -- printable: no spacer before an argument *)
Definition ex2_src : str :=
  [123;97;32;123;98;32;36;99;36;125;125;32;92;100;91;101;93;123;102;125;103]%N.
Definition ex2_toks : list token := fst (tokens_of_string ex2_src).
Definition ex2_doc : list doc :=
  let t i := nth i ex2_toks tok0 in
  [ DGroup (t 0%nat)
      [ DLeaf (t 1%nat);
        DGroup (t 2%nat)
          [ DLeaf (t 3%nat); DMath MInline (t 4%nat) [DLeaf (t 5%nat)] (t 6%nat) ]
          (t 7%nat) ]
      (t 8%nat);
    DLeaf (t 9%nat);
    DCmd (t 10%nat) (t 11%nat)
      [ Arg None GBracket (t 12%nat) [DLeaf (t 13%nat)] (t 14%nat);
        Arg None GBrace (t 15%nat) [DLeaf (t 16%nat)] (t 17%nat) ];
    DLeaf (t 18%nat) ].

(* \begin{q}a\begin{r}b{c}$d$\end{r} \e{f}\end{q}z  -- nested environments *)
Definition ex3_src : str :=
  [92;98;101;103;105;110;123;113;125;97;92;98;101;103;105;110;123;114;125;98;123;99;125;36;100;36;92;101;110;100;123;114;125;32;92;101;123;102;125;92;101;110;100;123;113;125;122]%N.
Definition ex3_toks : list token := fst (tokens_of_string ex3_src).
Definition ex3_doc : list doc :=
  let t i := nth i ex3_toks tok0 in
  [ DEnv (t 0%nat) (t 1%nat) (Arg None GBrace (t 2%nat) [DLeaf (t 3%nat)] (t 4%nat)) []
      [ DLeaf (t 5%nat);
        DEnv (t 6%nat) (t 7%nat) (Arg None GBrace (t 8%nat) [DLeaf (t 9%nat)] (t 10%nat)) []
          [ DLeaf (t 11%nat);
            DGroup (t 12%nat) [DLeaf (t 13%nat)] (t 14%nat);
            DMath MInline (t 15%nat) [DLeaf (t 16%nat)] (t 17%nat) ]
          (t 18%nat) (t 19%nat) (Arg None GBrace (t 20%nat) [DLeaf (t 21%nat)] (t 22%nat));
        DLeaf (t 23%nat);
        DCmd (t 24%nat) (t 25%nat) [Arg None GBrace (t 26%nat) [DLeaf (t 27%nat)] (t 28%nat)] ]
      (t 29%nat) (t 30%nat) (Arg None GBrace (t 31%nat) [DLeaf (t 32%nat)] (t 33%nat));
    DLeaf (t 34%nat) ].

(* \begin{q}\item a $b$\item[x] c {\item d}\end{q}e  -- items: two in an
   environment (one with a bracket argument), one inside a brace group *)
Definition ex4_src : str :=
  [92;98;101;103;105;110;123;113;125;92;105;116;101;109;32;97;32;36;98;36;92;105;116;101;109;91;120;93;32;99;32;123;92;105;116;101;109;32;100;125;92;101;110;100;123;113;125;101]%N.
Definition ex4_toks : list token := fst (tokens_of_string ex4_src).
Definition ex4_doc : list doc :=
  let t i := nth i ex4_toks tok0 in
  [ DEnv (t 0%nat) (t 1%nat) (Arg None GBrace (t 2%nat) [DLeaf (t 3%nat)] (t 4%nat)) []
      [ DItem (t 5%nat) (t 6%nat) []
              [DLeaf (t 7%nat); DMath MInline (t 8%nat) [DLeaf (t 9%nat)] (t 10%nat)];
        DItem (t 11%nat) (t 12%nat)
              [Arg None GBracket (t 13%nat) [DLeaf (t 14%nat)] (t 15%nat)]
              [DLeaf (t 16%nat);
               DGroup (t 17%nat) [DItem (t 18%nat) (t 19%nat) [] [DLeaf (t 20%nat)]] (t 21%nat)] ]
      (t 22%nat) (t 23%nat) (Arg None GBrace (t 24%nat) [DLeaf (t 25%nat)] (t 26%nat));
    DLeaf (t 27%nat) ].

(* \section[s]{t}\a{x}[y]{z}[w] \begin{tab}{ll}[h]\textbf{b}$\cup[$\end{tab}
   -- fixed signatures (1,1) (1,0) (0,0), the second argument pass, and an
   environment with arguments of its own (the bracket one in the second pass) *)
Definition ex5_src : str :=
  [92;115;101;99;116;105;111;110;91;115;93;123;116;125;92;97;123;120;125;91;121;93;123;122;125;91;119;93;32;92;98;101;103;105;110;123;116;97;98;125;123;108;108;125;91;104;93;92;116;101;120;116;98;102;123;98;125;36;92;99;117;112;91;36;92;101;110;100;123;116;97;98;125]%N.
Definition ex5_toks : list token := fst (tokens_of_string ex5_src).
Definition ex5_doc : list doc :=
  let t i := nth i ex5_toks tok0 in
  [ DCmd (t 0%nat) (t 1%nat)
         [ Arg None GBracket (t 2%nat) [DLeaf (t 3%nat)] (t 4%nat);
           Arg None GBrace (t 5%nat) [DLeaf (t 6%nat)] (t 7%nat) ];
    DCmd (t 8%nat) (t 9%nat)
         [ Arg None GBrace (t 10%nat) [DLeaf (t 11%nat)] (t 12%nat);
           Arg None GBracket (t 13%nat) [DLeaf (t 14%nat)] (t 15%nat);
           Arg None GBrace (t 16%nat) [DLeaf (t 17%nat)] (t 18%nat) ];
    DLeaf (t 19%nat); DLeaf (t 20%nat); DLeaf (t 21%nat); DLeaf (t 22%nat);
    DEnv (t 23%nat) (t 24%nat) (Arg None GBrace (t 25%nat) [DLeaf (t 26%nat)] (t 27%nat))
         [ Arg None GBrace (t 28%nat) [DLeaf (t 29%nat)] (t 30%nat);
           Arg None GBracket (t 31%nat) [DLeaf (t 32%nat)] (t 33%nat) ]
         [ DCmd (t 34%nat) (t 35%nat) [Arg None GBrace (t 36%nat) [DLeaf (t 37%nat)] (t 38%nat)];
           DMath MInline (t 39%nat) [DCmd (t 40%nat) (t 41%nat) []; DLeaf (t 42%nat)] (t 43%nat) ]
         (t 44%nat) (t 45%nat) (Arg None GBrace (t 46%nat) [DLeaf (t 47%nat)] (t 48%nat)) ].

(* \begin{equation}a_1\cup[\frac{x}{y}\end{equation}  -- a math environment *)
Definition ex6_src : str :=
  [92;98;101;103;105;110;123;101;113;117;97;116;105;111;110;125;97;95;49;92;99;117;112;91;92;102;114;97;99;123;120;125;123;121;125;92;101;110;100;123;101;113;117;97;116;105;111;110;125]%N.
Definition ex6_toks : list token := fst (tokens_of_string ex6_src).
Definition ex6_doc : list doc :=
  let t i := nth i ex6_toks tok0 in
  [ DEnv (t 0%nat) (t 1%nat) (Arg None GBrace (t 2%nat) [DLeaf (t 3%nat)] (t 4%nat)) []
      [ DLeaf (t 5%nat);
        DCmd (t 6%nat) (t 7%nat) [];
        DLeaf (t 8%nat);
        DCmd (t 9%nat) (t 10%nat)
             [ Arg None GBrace (t 11%nat) [DLeaf (t 12%nat)] (t 13%nat);
               Arg None GBrace (t 14%nat) [DLeaf (t 15%nat)] (t 16%nat) ] ]
      (t 17%nat) (t 18%nat) (Arg None GBrace (t 19%nat) [DLeaf (t 20%nat)] (t 21%nat)) ].

(* boolean form of tok_wf on the delimiters, for the examples *)
Definition tok_wfb (t : token) : bool :=
  forallb (fun k => match group_tok_begin k with
                    | Some b => negb (tc_beq b (tcat t)) || str_eqb (ttext t) (group_begin k)
                    | None => true end) [GBrace; GBracket] &&
  forallb (fun k => match group_tok_end k with
                    | Some b => negb (tc_beq b (tcat t)) || str_eqb (ttext t) (group_end k)
                    | None => true end) [GBrace; GBracket] &&
  forallb (fun k => match math_tok_begin k with
                    | Some b => negb (tc_beq b (tcat t)) || str_eqb (ttext t) (math_begin k)
                    | None => true end) [MInline; MDisplay; MParen; MBracket] &&
  forallb (fun k => match math_tok_end k with
                    | Some b => negb (tc_beq b (tcat t)) || str_eqb (ttext t) (math_end k)
                    | None => true end) [MInline; MDisplay; MParen; MBracket] &&
  (negb (tc_beq (tcat t) TEscape) || str_eqb (ttext t) [backslash]).

Lemma tok_wfb_sound t : tok_wfb t = true -> tok_wf t.
Proof.
  unfold tok_wfb. intro H.
  apply andb_true_iff in H. destruct H as [H H5].
  apply andb_true_iff in H. destruct H as [H H4].
  apply andb_true_iff in H. destruct H as [H H3].
  apply andb_true_iff in H. destruct H as [H1 H2].
  rewrite forallb_forall in H1, H2, H3, H4.
  assert (Hor : forall (a : tc) s s', negb (tc_beq a (tcat t)) || str_eqb s s' = true ->
                                      a = tcat t -> s = s').
  { intros a s s' Ho E. apply orb_true_iff in Ho. destruct Ho as [Ho|Ho].
    - apply negb_true_iff in Ho. subst a.
      assert (X : tc_beq (tcat t) (tcat t) = true) by (apply tc_eqb_eq; reflexivity).
      congruence.
    - apply str_eqb_eq. exact Ho. }
  repeat split.
  - intros k E. assert (I : In k [GBrace; GBracket]) by (destruct k; simpl; auto).
    specialize (H1 k I). rewrite E in H1. apply (Hor _ _ _ H1 eq_refl).
  - intros k E. assert (I : In k [GBrace; GBracket]) by (destruct k; simpl; auto).
    specialize (H2 k I). rewrite E in H2. apply (Hor _ _ _ H2 eq_refl).
  - intros k E. assert (I : In k [MInline; MDisplay; MParen; MBracket])
      by (destruct k; simpl; auto).
    specialize (H3 k I). rewrite E in H3. apply (Hor _ _ _ H3 eq_refl).
  - intros k E. assert (I : In k [MInline; MDisplay; MParen; MBracket])
      by (destruct k; simpl; auto).
    specialize (H4 k I). rewrite E in H4. apply (Hor _ _ _ H4 eq_refl).
  - intro E. apply orb_true_iff in H5. destruct H5 as [H5|H5].
    + apply negb_true_iff in H5. rewrite E in H5. discriminate H5.
    + apply str_eqb_eq. exact H5.
Qed.

Lemma tok_wfb_all l : forallb tok_wfb l = true -> Forall tok_wf l.
Proof.
  intro H. rewrite forallb_forall in H. apply Forall_forall. intros t Ht.
  apply tok_wfb_sound. apply H. exact Ht.
Qed.

Example ex1_is_tokenizer_output :
  flat_list ex1_doc = fst (tokens_of_string ex1_src) /\ snd (tokens_of_string ex1_src) = TEnd.
Proof. split; vm_compute; reflexivity. Qed.
Example ex1_wf : wf_seq (all_skip []) false CTop ex1_doc [] = true.
Proof. vm_compute. reflexivity. Qed.
Example ex2_is_tokenizer_output :
  flat_list ex2_doc = fst (tokens_of_string ex2_src) /\ snd (tokens_of_string ex2_src) = TEnd.
Proof. split; vm_compute; reflexivity. Qed.
Example ex2_wf :
  wf_seq (all_skip []) false CTop ex2_doc [] = true /\ forallb printable ex2_doc = true /\
  forallb tok_wfb (flat_list ex2_doc) = true.
Proof. repeat split; vm_compute; reflexivity. Qed.
Example ex3_is_tokenizer_output :
  flat_list ex3_doc = fst (tokens_of_string ex3_src) /\ snd (tokens_of_string ex3_src) = TEnd.
Proof. split; vm_compute; reflexivity. Qed.
Example ex3_wf :
  wf_seq (all_skip []) false CTop ex3_doc [] = true /\ forallb printable ex3_doc = true /\
  forallb tok_wfb (flat_list ex3_doc) = true.
Proof. repeat split; vm_compute; reflexivity. Qed.

Example ex4_is_tokenizer_output :
  flat_list ex4_doc = fst (tokens_of_string ex4_src) /\ snd (tokens_of_string ex4_src) = TEnd.
Proof. split; vm_compute; reflexivity. Qed.
Example ex4_wf :
  wf_seq (all_skip []) false CTop ex4_doc [] = true /\ forallb printable ex4_doc = true /\
  forallb tok_wfb (flat_list ex4_doc) = true.
Proof. repeat split; vm_compute; reflexivity. Qed.

Example ex5_is_tokenizer_output :
  flat_list ex5_doc = fst (tokens_of_string ex5_src) /\ snd (tokens_of_string ex5_src) = TEnd.
Proof. split; vm_compute; reflexivity. Qed.
Example ex5_wf :
  wf_seq (all_skip []) false CTop ex5_doc [] = true /\ forallb printable ex5_doc = true /\
  forallb tok_wfb (flat_list ex5_doc) = true.
Proof. repeat split; vm_compute; reflexivity. Qed.

Example ex6_is_tokenizer_output :
  flat_list ex6_doc = fst (tokens_of_string ex6_src) /\ snd (tokens_of_string ex6_src) = TEnd.
Proof. split; vm_compute; reflexivity. Qed.
Example ex6_wf :
  wf_seq (all_skip []) false CTop ex6_doc [] = true /\ forallb printable ex6_doc = true /\
  forallb tok_wfb (flat_list ex6_doc) = true.
Proof. repeat split; vm_compute; reflexivity. Qed.

(* the hypotheses of PP_expr / PP_seq_group / PP_seq_math on pieces of ex1 *)
Example ex_PP_expr_hyps :
  match ex1_doc with
  | d :: ds => wf (all_skip []) false d = true /\
               follows_ok (all_skip []) d (flat_list ds) = true /\ peek_ok d (flat_list ds)
  | [] => False
  end.
Proof. repeat split; vm_compute; reflexivity. Qed.

(* ... and for an item: the first item of ex4, followed by `\item[x] ...`; the
   look-ahead there is a successful strict read of `\item[x]` *)
Example ex_PP_expr_item_hyps :
  let t i := nth i ex4_toks tok0 in
  let d := DItem (t 5%nat) (t 6%nat) []
                 [DLeaf (t 7%nat); DMath MInline (t 8%nat) [DLeaf (t 9%nat)] (t 10%nat)] in
  let rest := skipn 11 ex4_toks in
  wf (all_skip []) false d = true /\ follows_ok (all_skip []) d rest = true /\ peek_ok d rest.
Proof.
  cbv zeta. split; [vm_compute; reflexivity|]. split; [vm_compute; reflexivity|].
  unfold peek_ok. cbn [is_item]. intros e src _ _.
  eexists. exists 10%nat. intros f Hf.
  apply (enough_fuel_command 10 f); [vm_compute; reflexivity | discriminate | exact Hf].
Qed.
Example ex_PP_seq_group_hyps :
  let t i := nth i ex1_toks tok0 in
  wf_seq (all_skip []) false (CGroup GBrace)
         [DLeaf (t 6%nat); DCmd (t 7%nat) (t 8%nat)
                                [Arg None GBrace (t 9%nat) [DLeaf (t 10%nat)] (t 11%nat)]]
         (t 12%nat :: skipn 13 ex1_toks) = true /\
  is_group_end GBrace (t 12%nat) = true.
Proof. split; vm_compute; reflexivity. Qed.
Example ex_PP_seq_math_hyps :
  let t i := nth i ex1_toks tok0 in
  wf_seq (all_skip []) true (CMath MInline) [DLeaf (t 17%nat)]
         (t 18%nat :: skipn 19 ex1_toks) = true /\
  is_math_end MInline (t 18%nat) = true.
Proof. split; vm_compute; reflexivity. Qed.

(* the hypotheses of PP_seq_env / PP_seq_item on pieces of ex4: the body of
   the environment q, and the body of its second item (followed by \end{q}) *)
Example ex_PP_seq_env_hyps :
  let t i := nth i ex4_toks tok0 in
  let ng2 := Arg None GBrace (t 24%nat) [DLeaf (t 25%nat)] (t 26%nat) in
  match ex4_doc with
  | DEnv _ _ ng _ body e2 en _ :: ds =>
    wf_seq (all_skip []) false CEnv body (e2 :: en :: flat_arg ng2 ++ flat_list ds) = true /\
    is_tc TEscape e2 = true /\ str_eqb (ttext en) s_end = true /\
    wf_arg (all_skip []) false ng2 = true /\ is_brace_arg ng2 = true /\
    str_eqb (arg_string (tree_arg ng2)) (env_name ng) = true /\
    cmd_follow free_sig [ng2] (flat_list ds) = true
  | _ => False
  end.
Proof. repeat split; vm_compute; reflexivity. Qed.
Example ex_PP_seq_item_hyps :
  let t i := nth i ex4_toks tok0 in
  let body := [DLeaf (t 16%nat);
               DGroup (t 17%nat) [DItem (t 18%nat) (t 19%nat) [] [DLeaf (t 20%nat)]] (t 21%nat)] in
  let R := skipn 22 ex4_toks in
  wf_seq (all_skip []) false CItem body R = true /\ item_stop_b R = true /\ head_peek R.
Proof.
  cbv zeta. split; [vm_compute; reflexivity|]. split; [vm_compute; reflexivity|].
  intros e src _ _. eexists. exists 10%nat. intros f Hf.
  apply (enough_fuel_command 10 f); [vm_compute; reflexivity | discriminate | exact Hf].
Qed.

(* the conditions are forced: dropping the follow condition makes the
   statement false.  `\a{x}` read as "command without arguments, then a brace
   group": the reader attaches the group.  `\a{x}[y]` read as "command with
   one brace argument, then three text leaves": the second pass attaches the
   bracket group. *)
Definition bad1_src : str := [92;97;123;120;125]%N.                 (* \a{x} *)
Definition bad1_doc : list doc :=
  let t i := nth i (fst (tokens_of_string bad1_src)) tok0 in
  [ DCmd (t 0%nat) (t 1%nat) []; DGroup (t 2%nat) [DLeaf (t 3%nat)] (t 4%nat) ].
Definition bad2_src : str := [92;97;123;120;125;91;121;93]%N.       (* \a{x}[y] *)

Theorem PP_without_follow_refuted :
  exists ds, forallb (wf (all_skip []) false) ds = true /\
             parse_tokens (flat_list ds) true [] <> Ok (ERoot (map tree ds)).
Proof. exists bad1_doc. split; [vm_compute; reflexivity | vm_compute; discriminate]. Qed.

(* the brace loop did stop after `{x}` (the next token is not `{`), and still
   "one brace argument, then three text leaves" is not what is read: a `[`
   directly after the last first-pass brace argument belongs to the command
   (second pass); the follow condition excludes it as a leaf *)
Theorem PP_first_pass_follow_only_refuted :
  exists e n args ds,
    wf (all_skip []) false (DCmd e n args) = true /\
    forallb (wf (all_skip []) false) ds = true /\
    existsb is_brace_arg args = true /\ stopsb TGroupBegin (flat_list ds) = true /\
    parse_tokens (flat_list (DCmd e n args :: ds)) true []
    <> Ok (ERoot (map tree (DCmd e n args :: ds))).
Proof.
  pose (t i := nth i (fst (tokens_of_string bad2_src)) tok0).
  exists (t 0%nat), (t 1%nat), [Arg None GBrace (t 2%nat) [DLeaf (t 3%nat)] (t 4%nat)],
         [DLeaf (t 5%nat); DLeaf (t 6%nat); DLeaf (t 7%nat)].
  repeat split; try (vm_compute; reflexivity). vm_compute. discriminate.
Qed.

(* fixed signatures.  `\section{t}[x]` read as "one brace argument, then
   leaves": the optional count is not used up, so the second pass attaches
   [x].  `\textbf x` read as "no argument, then a leaf": a required argument
   that is not a group is taken as a bare token (and re-braced). *)
Definition bad5_src : str := [92;115;101;99;116;105;111;110;123;116;125;91;120;93]%N.
Definition bad5_doc : list doc :=
  let t i := nth i (fst (tokens_of_string bad5_src)) tok0 in
  [ DCmd (t 0%nat) (t 1%nat) [Arg None GBrace (t 2%nat) [DLeaf (t 3%nat)] (t 4%nat)];
    DLeaf (t 5%nat); DLeaf (t 6%nat); DLeaf (t 7%nat) ].
Definition bad6_src : str := [92;116;101;120;116;98;102;32;120]%N.
Definition bad6_doc : list doc :=
  let t i := nth i (fst (tokens_of_string bad6_src)) tok0 in
  [ DCmd (t 0%nat) (t 1%nat) []; DLeaf (t 2%nat) ].
Theorem PP_fixed_signature_refuted :
  (flat_list bad5_doc = fst (tokens_of_string bad5_src) /\
   parse_tokens (flat_list bad5_doc) true [] <> Ok (ERoot (map tree bad5_doc))) /\
  (flat_list bad6_doc = fst (tokens_of_string bad6_src) /\
   parse_tokens (flat_list bad6_doc) true [] <> Ok (ERoot (map tree bad6_doc))).
Proof.
  repeat split; try (vm_compute; reflexivity); vm_compute; discriminate.
Qed.

(* \item in math mode is an AssertionError: `$\item a$` *)
Definition bad3_src : str := [36;92;105;116;101;109;32;97;36]%N.
Definition bad3_doc : list doc :=
  let t i := nth i (fst (tokens_of_string bad3_src)) tok0 in
  [ DMath MInline (t 0%nat) [DItem (t 1%nat) (t 2%nat) [] [DLeaf (t 3%nat)]] (t 4%nat) ].
Theorem PP_item_in_math_refuted :
  flat_list bad3_doc = fst (tokens_of_string bad3_src) /\
  parse_tokens (flat_list bad3_doc) true [] = Err AssertionError /\
  parse_tokens (flat_list bad3_doc) false [] = Err AssertionError.
Proof. repeat split; vm_compute; reflexivity. Qed.

(* ... also inside a math environment: \begin{equation}\item a\end{equation} *)
Definition bad7_src : str :=
  [92;98;101;103;105;110;123;101;113;117;97;116;105;111;110;125;92;105;116;101;109;32;97;92;101;110;100;123;101;113;117;97;116;105;111;110;125]%N.
Definition bad7_doc : list doc :=
  let t i := nth i (fst (tokens_of_string bad7_src)) tok0 in
  [ DEnv (t 0%nat) (t 1%nat) (Arg None GBrace (t 2%nat) [DLeaf (t 3%nat)] (t 4%nat)) []
      [ DItem (t 5%nat) (t 6%nat) [] [DLeaf (t 7%nat)] ]
      (t 8%nat) (t 9%nat) (Arg None GBrace (t 10%nat) [DLeaf (t 11%nat)] (t 12%nat)) ].
Theorem PP_item_in_math_env_refuted :
  flat_list bad7_doc = fst (tokens_of_string bad7_src) /\
  parse_tokens (flat_list bad7_doc) true [] = Err AssertionError.
Proof. split; vm_compute; reflexivity. Qed.

(* the follow condition after `\end{name}` cannot simply be dropped: read_env
   looks ahead at `\end` with read_command, which reads the groups that follow
   as arguments - in the mode of the environment body.  After a math
   environment a brace group that follows directly is thus read (and thrown
   away) in math mode: `\begin{equation}x\end{equation}{\item a}` raises
   AssertionError in both tolerance modes, although each element is
   well-formed and the group stands outside the environment
   (`\begin{equation}x\end{equation} t{\item a}` parses). *)
Definition bad8_src : str :=
  [92;98;101;103;105;110;123;101;113;117;97;116;105;111;110;125;120;92;101;110;100;123;101;113;117;97;116;105;111;110;125;123;92;105;116;101;109;32;97;125]%N.
Definition bad8_doc : list doc :=
  let t i := nth i (fst (tokens_of_string bad8_src)) tok0 in
  [ DEnv (t 0%nat) (t 1%nat) (Arg None GBrace (t 2%nat) [DLeaf (t 3%nat)] (t 4%nat)) []
      [ DLeaf (t 5%nat) ]
      (t 6%nat) (t 7%nat) (Arg None GBrace (t 8%nat) [DLeaf (t 9%nat)] (t 10%nat));
    DGroup (t 11%nat) [DItem (t 12%nat) (t 13%nat) [] [DLeaf (t 14%nat)]] (t 15%nat) ].
Theorem PP_end_follow_refuted :
  flat_list bad8_doc = fst (tokens_of_string bad8_src) /\
  forallb (wf (all_skip []) false) bad8_doc = true /\
  parse_tokens (flat_list bad8_doc) true [] = Err AssertionError /\
  parse_tokens (flat_list bad8_doc) false [] = Err AssertionError.
Proof. repeat split; vm_compute; reflexivity. Qed.

(* an item as the last element of a BRACKET group does not stop at `]`: it
   swallows the closer and the group is left unclosed: `\a[\item x]` *)
Definition bad4_src : str := [92;97;91;92;105;116;101;109;32;120;93]%N.
Definition bad4_doc : list doc :=
  let t i := nth i (fst (tokens_of_string bad4_src)) tok0 in
  [ DCmd (t 0%nat) (t 1%nat)
         [Arg None GBracket (t 2%nat) [DItem (t 3%nat) (t 4%nat) [] [DLeaf (t 5%nat)]] (t 6%nat)] ].
Theorem PP_item_in_bracket_group_refuted :
  flat_list bad4_doc = fst (tokens_of_string bad4_src) /\
  parse_tokens (flat_list bad4_doc) true [] = Err TypeError /\
  parse_tokens (flat_list bad4_doc) false [] <> Ok (ERoot (map tree bad4_doc)).
Proof. repeat split; try (vm_compute; reflexivity). vm_compute. discriminate. Qed.

(* an environment whose name the user asked to be read verbatim is NOT read
   as the grammar says: the condition on SK is forced *)
Definition s_q : str := [113]%N.
Theorem PP_env_in_skip_list_refuted :
  wf_seq (all_skip []) false CTop ex3_doc [] = true /\
  parse_tokens (flat_list ex3_doc) true [s_q] <> Ok (ERoot (map tree ex3_doc)).
Proof. split; [vm_compute; reflexivity | vm_compute; discriminate]. Qed.
