(* Facts about categorize: every code point has exactly one category, whatever
   the iteration order of the category dict, and its own index. *)
From Coq Require Import List NArith ZArith Bool Lia Permutation.
From TexModel Require Import Base Tables Chars.
Import ListNotations.

Definition tables_of (c : N) : list cc :=
  map fst (filter (fun kv => mem_N c (snd kv)) Tables.category_table).

Definition all_listed : list N := concat (map snd Tables.category_table).

(* finite check on the regenerated table: every listed character is listed in
   exactly one table *)
Lemma listed_once_check :
  forallb (fun c => Nat.eqb (length (tables_of c)) 1) all_listed = true.
Proof. vm_compute. reflexivity. Qed.

Lemma mem_N_In c l : mem_N c l = true <-> In c l.
Proof.
  unfold mem_N. rewrite existsb_exists. split.
  - intros (x & Hx & E). apply N.eqb_eq in E. subst. exact Hx.
  - intro H. exists c. split; [exact H | apply N.eqb_refl].
Qed.

Lemma in_table_listed c k vs :
  In (k, vs) Tables.category_table -> mem_N c vs = true -> In c all_listed.
Proof.
  intros Hin Hm. unfold all_listed. apply in_concat. exists vs. split.
  - apply in_map_iff. exists (k, vs). auto.
  - apply mem_N_In. exact Hm.
Qed.

Lemma in_tables_of c k vs :
  In (k, vs) Tables.category_table -> mem_N c vs = true -> In k (tables_of c).
Proof.
  intros Hin Hm. unfold tables_of. apply in_map_iff. exists (k, vs). split; [reflexivity|].
  apply filter_In. auto.
Qed.

Theorem unique_category c k1 vs1 k2 vs2 :
  In (k1, vs1) Tables.category_table -> In (k2, vs2) Tables.category_table ->
  mem_N c vs1 = true -> mem_N c vs2 = true -> k1 = k2.
Proof.
  intros H1 H2 M1 M2.
  pose proof (in_table_listed c k1 vs1 H1 M1) as L.
  pose proof listed_once_check as Chk. rewrite forallb_forall in Chk.
  specialize (Chk c L). apply Nat.eqb_eq in Chk.
  pose proof (in_tables_of c k1 vs1 H1 M1) as I1.
  pose proof (in_tables_of c k2 vs2 H2 M2) as I2.
  destruct (tables_of c) as [|a [|b l]]; simpl in Chk; try discriminate.
  destruct I1 as [<-|[]]. destruct I2 as [<-|[]]. reflexivity.
Qed.

Lemma lookup_cat_some tbl c k :
  lookup_cat tbl c = Some k -> exists vs, In (k, vs) tbl /\ mem_N c vs = true.
Proof.
  induction tbl as [|[k' vs] tbl IH]; simpl; [discriminate|].
  destruct (mem_N c vs) eqn:M.
  - intro H; inversion H; subst. eauto.
  - intro H. destruct (IH H) as (vs' & ? & ?). eauto.
Qed.

Lemma lookup_cat_none tbl c :
  lookup_cat tbl c = None -> forall k vs, In (k, vs) tbl -> mem_N c vs = false.
Proof.
  induction tbl as [|[k' vs'] tbl IH]; simpl; intros H k vs Hin; [contradiction|].
  destruct (mem_N c vs') eqn:M; [discriminate|].
  destruct Hin as [E|Hin]; [inversion E; subst; exact M | eauto].
Qed.

(* the category does not depend on the order in which the tables are tried *)
Theorem category_order_independent tbl' c :
  Permutation tbl' Tables.category_table ->
  lookup_cat tbl' c = lookup_cat Tables.category_table c.
Proof.
  intro P.
  destruct (lookup_cat tbl' c) as [k1|] eqn:E1; destruct (lookup_cat Tables.category_table c) as [k2|] eqn:E2;
    try reflexivity.
  - apply lookup_cat_some in E1. apply lookup_cat_some in E2.
    destruct E1 as (vs1 & I1 & M1). destruct E2 as (vs2 & I2 & M2).
    f_equal. apply (unique_category c k1 vs1 k2 vs2);
      [eapply Permutation_in; [exact P | exact I1] | exact I2 | exact M1 | exact M2].
  - apply lookup_cat_some in E1. destruct E1 as (vs1 & I1 & M1).
    pose proof (lookup_cat_none _ _ E2 k1 vs1 (Permutation_in _ P I1)). congruence.
  - apply lookup_cat_some in E2. destruct E2 as (vs2 & I2 & M2).
    pose proof (lookup_cat_none _ _ E1 k2 vs2 (Permutation_in _ (Permutation_sym P) I2)). congruence.
Qed.

(* categorize keeps every character, in order, with its own index *)
Lemma categorize_from_length p s : length (categorize_from p s) = length s.
Proof. revert p; induction s; intro p; simpl; auto. Qed.

Lemma categorize_from_nth p s i c :
  nth_error (categorize_from p s) i = Some c ->
  nth_error s i = Some (ch c) /\ cpos c = (p + Z.of_nat i)%Z /\ ccat c = categorize_char (ch c).
Proof.
  revert p i; induction s as [|x s IH]; intros p i H.
  - destruct i; discriminate.
  - destruct i as [|i]; simpl in H.
    + inversion H; subst; simpl. split; [reflexivity|]. split; [lia|reflexivity].
    + apply IH in H. destruct H as (H1 & H2 & H3). simpl nth_error.
      split; [exact H1|]. split; [lia|exact H3].
Qed.

Theorem categorize_spec s :
  length (categorize s) = length s /\
  forall i c, nth_error (categorize s) i = Some c ->
    nth_error s i = Some (ch c) /\ cpos c = Z.of_nat i /\ ccat c = categorize_char (ch c).
Proof.
  split; [apply categorize_from_length|]. intros i c H.
  apply categorize_from_nth in H. simpl in H. exact H.
Qed.
