(* Facts about single tokenizer rounds used by properties C17 (order
   independence of the PUNCTUATION_COMMANDS set iteration), C10 (comments and
   escaped percent signs, tokenizer half) and C12 (math switches and sizing
   commands, tokenizer half).

   Every fact about a generated table (Tables.v) is obtained by computation on
   the table, never by restating its contents. *)
From Coq Require Import List NArith ZArith Bool Lia Arith Permutation.
From TexModel Require Import Base Tables Chars Tokenizer Tree Reader.
From TexProofs Require Import TokProofs.
Import ListNotations.

(* ====================================================================== *)
(* generic helpers                                                         *)
(* ====================================================================== *)

Lemma is_cat_true k c : is_cat k c = true <-> ccat c = k.
Proof. unfold is_cat. apply cc_eqb_eq. Qed.

Lemma is_cat_false k c : ccat c <> k -> is_cat k c = false.
Proof.
  intro H. destruct (is_cat k c) eqn:E; [|reflexivity].
  apply is_cat_true in E. contradiction.
Qed.

Lemma run_rules_cons_none r rs cx rest :
  run_rule r cx rest = RNone -> run_rules (r :: rs) cx rest = run_rules rs cx rest.
Proof. intro H. cbn [run_rules]. rewrite H. reflexivity. Qed.

Lemma run_rules_cons_tok r rs cx rest t rest' :
  run_rule r cx rest = RTok t rest' -> run_rules (r :: rs) cx rest = RTok t rest'.
Proof. intro H. cbn [run_rules]. rewrite H. reflexivity. Qed.

Lemma take_while_split p a tail :
  Forall (fun c => p c = true) a ->
  match tail with c :: _ => p c = false | [] => True end ->
  take_while p (a ++ tail) = (a, tail).
Proof.
  intros Ha Ht. induction Ha as [|c a Hc Ha IH].
  - destruct tail as [|c tail]; cbn [app take_while]; [reflexivity|].
    rewrite Ht. reflexivity.
  - cbn [app take_while]. rewrite Hc, IH. reflexivity.
Qed.

(* ---------------------------------------------- when a rule returns None *)

Lemma escaped_none_first c0 r : ccat c0 <> CEscape -> rule_escaped_symbols (c0 :: r) = RNone.
Proof. intro H. unfold rule_escaped_symbols. rewrite (is_cat_false _ _ H). reflexivity. Qed.

Lemma escaped_none_second c0 c1 r :
  mem_cc (ccat c1) Tables.escaped_second_cats = false ->
  rule_escaped_symbols (c0 :: c1 :: r) = RNone.
Proof.
  intro H. unfold rule_escaped_symbols. destruct (is_cat CEscape c0); [|reflexivity].
  rewrite H. reflexivity.
Qed.

Lemma comment_none prev c0 r : ccat c0 <> CComment -> rule_comment prev (c0 :: r) = RNone.
Proof. intro H. unfold rule_comment. rewrite (is_cat_false _ _ H). reflexivity. Qed.

Lemma math_sym_none c0 r : ccat c0 <> CMathSwitch -> rule_math_sym_switch (c0 :: r) = RNone.
Proof. intro H. unfold rule_math_sym_switch. rewrite (is_cat_false _ _ H). reflexivity. Qed.

(* read off Tables.asym_map: every key starts with Escape *)
Lemma asym_key_escape a b : a <> CEscape -> lookup_asym Tables.asym_map a b = None.
Proof. intro H. destruct a; try congruence; destruct b; reflexivity. Qed.

Lemma math_asym_none c0 r : ccat c0 <> CEscape -> rule_math_asym_switch (c0 :: r) = RNone.
Proof.
  intro H. unfold rule_math_asym_switch. destruct r as [|c1 r2]; [reflexivity|].
  rewrite (asym_key_escape _ _ H). reflexivity.
Qed.

Lemma line_break_none c0 r : ccat c0 <> CEscape -> rule_line_break (c0 :: r) = RNone.
Proof. intro H. unfold rule_line_break. rewrite (is_cat_false _ _ H). reflexivity. Qed.

Lemma ignore_none c0 r :
  mem_cc (ccat c0) Tables.ignore_cats = false -> rule_ignore (c0 :: r) = RNone.
Proof. intro H. unfold rule_ignore. cbn [take_while]. rewrite H. reflexivity. Qed.

Lemma spacers_none idx c0 r :
  ccat c0 <> CSpacer -> ccat c0 <> CEndOfLine -> rule_spacers idx (c0 :: r) = RNone.
Proof.
  intros H1 H2. unfold rule_spacers. cbn [take_while].
  rewrite (is_cat_false _ _ H1), (is_cat_false _ _ H2). cbn [take_while].
  rewrite (is_cat_false _ _ H1). cbn [app].
  destruct (mem_cc (ccat c0) Tables.spacer_rollback_cats); reflexivity.
Qed.

Lemma symbols_none c0 r :
  lookup_sym Tables.symbols_map (ccat c0) = None -> rule_symbols (c0 :: r) = RNone.
Proof. intro H. unfold rule_symbols. rewrite H. reflexivity. Qed.

(* ====================================================================== *)
(* A.  C17: the iteration order of PUNCTUATION_COMMANDS is immaterial      *)
(* ====================================================================== *)

Definition is_prefix_b (p s : str) : bool := str_eqb (firstn (length p) s) p.

Definition prefix_free_b (l : list str) : bool :=
  forallb (fun p => forallb (fun q => negb (is_prefix_b p q) || str_eqb p q) l) l.

Lemma punct_prefix_free_b : prefix_free_b Tables.punctuation_commands = true.
Proof. vm_compute. reflexivity. Qed.

(* 1. no table element is a proper prefix of another one *)
Theorem punct_prefix_free p q :
  In p Tables.punctuation_commands -> In q Tables.punctuation_commands ->
  firstn (length p) q = p -> p = q.
Proof.
  intros Hp Hq H. pose proof punct_prefix_free_b as B. unfold prefix_free_b in B.
  rewrite forallb_forall in B. specialize (B p Hp).
  rewrite forallb_forall in B. specialize (B q Hq).
  unfold is_prefix_b in B. apply orb_true_iff in B. destruct B as [B|B].
  - rewrite (proj2 (str_eqb_eq _ _) H) in B. discriminate B.
  - apply str_eqb_eq. exact B.
Qed.

Lemma find_point_in ps s p :
  find_point ps s = Some p -> In p ps /\ firstn (length p) s = p.
Proof.
  induction ps as [|q ps IH]; cbn [find_point]; [discriminate|].
  destruct (str_eqb (firstn (length q) s) q) eqn:E.
  - intro H; inversion H; subst. split; [left; reflexivity|]. apply str_eqb_eq. exact E.
  - intro H. apply IH in H. destruct H as [H1 H2]. split; [right; exact H1 | exact H2].
Qed.

Lemma find_point_none ps s :
  find_point ps s = None -> forall p, In p ps -> firstn (length p) s <> p.
Proof.
  induction ps as [|q ps IH]; cbn [find_point]; intros H p Hp; [destruct Hp|].
  destruct (str_eqb (firstn (length q) s) q) eqn:E; [discriminate H|].
  destruct Hp as [Hp|Hp].
  - subst q. intro F. rewrite F, str_eqb_refl in E. discriminate E.
  - apply IH; assumption.
Qed.

Lemma prefix_of_prefix (p q s : str) :
  firstn (length p) s = p -> firstn (length q) s = q -> length p <= length q ->
  firstn (length p) q = p.
Proof.
  intros Hp Hq Hle. rewrite <- Hq at 1. rewrite firstn_firstn.
  rewrite Nat.min_l by exact Hle. exact Hp.
Qed.

(* at most one table element is a prefix of a given string *)
Theorem punct_match_unique p q s :
  In p Tables.punctuation_commands -> In q Tables.punctuation_commands ->
  firstn (length p) s = p -> firstn (length q) s = q -> p = q.
Proof.
  intros Ip Iq Hp Hq. destruct (le_ge_dec (length p) (length q)) as [L|L].
  - apply punct_prefix_free; try assumption. eapply prefix_of_prefix; eassumption.
  - symmetry. apply punct_prefix_free; try assumption. eapply prefix_of_prefix; eassumption.
Qed.

(* 2. first match over any enumeration of the set = first match over the sorted one *)
Theorem find_point_order_independent pts s :
  Permutation pts Tables.punctuation_commands ->
  find_point pts s = find_point Tables.punctuation_commands s.
Proof.
  intro P.
  destruct (find_point pts s) as [p|] eqn:E1;
    destruct (find_point Tables.punctuation_commands s) as [q|] eqn:E2.
  - apply find_point_in in E1. apply find_point_in in E2.
    destruct E1 as [I1 F1]. destruct E2 as [I2 F2]. f_equal.
    apply (punct_match_unique p q s); try assumption.
    eapply Permutation_in; eassumption.
  - exfalso. apply find_point_in in E1. destruct E1 as [I1 F1].
    apply (find_point_none _ _ E2 p); [|exact F1]. eapply Permutation_in; eassumption.
  - exfalso. apply find_point_in in E2. destruct E2 as [I2 F2].
    apply (find_point_none _ _ E1 q); [|exact F2].
    eapply Permutation_in; [apply Permutation_sym|]; eassumption.
  - reflexivity.
Qed.

Lemma max_point_len_perm l1 l2 : Permutation l1 l2 -> max_point_len l1 = max_point_len l2.
Proof.
  unfold max_point_len. induction 1 as [|x l l' P IH|x y l|l l' l'' P1 IH1 P2 IH2]; cbn [fold_right].
  - reflexivity.
  - rewrite IH. reflexivity.
  - lia.
  - congruence.
Qed.

Lemma run_rule_points r idx prev pp pc pts rest :
  Permutation pts Tables.punctuation_commands ->
  run_rule r (mkctx idx prev pp pc pts) rest =
  run_rule r (mkctx idx prev pp pc Tables.punctuation_commands) rest.
Proof.
  intro P. destruct r; cbn [run_rule cx_points cx_prevc_punct cx_prevc_cmd cx_idx cx_prev];
    try reflexivity.
  unfold rule_punctuation. rewrite (find_point_order_independent pts _ P). reflexivity.
Qed.

Lemma run_rules_points rs idx prev pp pc pts rest :
  Permutation pts Tables.punctuation_commands ->
  run_rules rs (mkctx idx prev pp pc pts) rest =
  run_rules rs (mkctx idx prev pp pc Tables.punctuation_commands) rest.
Proof.
  intro P. induction rs as [|r rs IH]; cbn [run_rules]; [reflexivity|].
  rewrite (run_rule_points r idx prev pp pc pts rest P), IH. reflexivity.
Qed.

Lemma tokenize_loop_points fuel pts idx pp pc prev rest :
  Permutation pts Tables.punctuation_commands ->
  tokenize_loop fuel pts idx pp pc prev rest =
  tokenize_loop fuel Tables.punctuation_commands idx pp pc prev rest.
Proof.
  intro P. revert idx pp pc prev rest.
  induction fuel as [|f IH]; intros idx pp pc prev rest; cbn [tokenize_loop]; [reflexivity|].
  destruct rest as [|c0 r]; [reflexivity|].
  rewrite (run_rules_points _ idx prev pp pc pts (c0 :: r) P).
  destruct (run_rules Tables.rule_order
              (mkctx idx prev pp pc Tables.punctuation_commands) (c0 :: r)) as [|t rest'|rest'|];
    try reflexivity.
  - rewrite IH. reflexivity.
  - apply IH.
Qed.

(* 3. the whole token stream does not depend on the iteration order *)
Theorem tokenize_order_independent pts cs :
  Permutation pts Tables.punctuation_commands ->
  tokenize_with pts cs = tokenize_with Tables.punctuation_commands cs.
Proof.
  intro P. unfold tokenize_with, start_prev_cmd.
  rewrite (max_point_len_perm _ _ P). apply tokenize_loop_points. exact P.
Qed.

(* the parser run on the tokens obtained under any iteration order *)
Definition parse_with (pts : list str) (s : str) (strict : bool) (user_skip : list str) : res expr :=
  match tokenize_with pts (categorize s) with
  | (toks, TEnd) => parse_tokens toks strict user_skip
  | (_, _) => Err TokenizerError
  end.

Theorem parse_order_independent pts s strict skip :
  Permutation pts Tables.punctuation_commands ->
  parse_with pts s strict skip = parse s strict skip.
Proof.
  intro P. unfold parse_with, parse, tokens_of_string, tokenize.
  rewrite (tokenize_order_independent pts _ P). reflexivity.
Qed.

(* 4. tex.read first joins the chunks of its argument:
      ''.join(itertools.chain( *tex )); nothing else sees the chunking *)
Definition read_chunks (l : list str) (strict : bool) (user_skip : list str) : res expr :=
  parse (concat l) strict user_skip.

Theorem flatten_chunks l1 l2 strict skip :
  concat l1 = concat l2 -> read_chunks l1 strict skip = read_chunks l2 strict skip.
Proof. unfold read_chunks. intro H. rewrite H. reflexivity. Qed.

Theorem read_chunks_single s strict skip : read_chunks [s] strict skip = parse s strict skip.
Proof. unfold read_chunks. cbn [concat]. rewrite app_nil_r. reflexivity. Qed.

(* non-vacuity *)
Example rev_is_permutation :
  Permutation (rev Tables.punctuation_commands) Tables.punctuation_commands.
Proof. apply Permutation_sym, Permutation_rev. Qed.

Example rev_is_different :
  hd [] (rev Tables.punctuation_commands) <> hd [] Tables.punctuation_commands.
Proof. vm_compute. discriminate. Qed.

(* "\left(" *)
Example left_paren_both_orders :
  let cs := categorize [92; 108; 101; 102; 116; 40]%N in
  map (fun t => (ttext t, tpos t, tcat t)) (fst (tokenize_with (rev Tables.punctuation_commands) cs)) =
    [([92]%N, 0%Z, TEscape); ([108; 101; 102; 116; 40]%N, 1%Z, TPunctuationCommandName)] /\
  map (fun t => (ttext t, tpos t, tcat t)) (fst (tokenize_with Tables.punctuation_commands cs)) =
    [([92]%N, 0%Z, TEscape); ([108; 101; 102; 116; 40]%N, 1%Z, TPunctuationCommandName)].
Proof. vm_compute. split; reflexivity. Qed.

Example chunks_example :
  concat [[92; 98]%N; [102]%N] = concat [[92]%N; []; [98; 102]%N].
Proof. reflexivity. Qed.

(* ====================================================================== *)
(* rounds decided by the first two characters                              *)
(* ====================================================================== *)

(* rule 1 fires: Escape followed by a character of one of the listed categories *)
Lemma escaped_round cx a b r :
  ccat a = CEscape -> mem_cc (ccat b) Tables.escaped_second_cats = true ->
  run_rules Tables.rule_order cx (a :: b :: r) =
  RTok (mkt [ch a; ch b] (cpos a) TEscapedComment) r.
Proof.
  intros Ha Hb. unfold Tables.rule_order. apply run_rules_cons_tok. cbn [run_rule].
  unfold rule_escaped_symbols. rewrite (proj2 (is_cat_true _ _) Ha), Hb. reflexivity.
Qed.

(* rule 2 fires: a Comment character *)
Lemma comment_round cx c0 r1 :
  ccat c0 = CComment ->
  run_rules Tables.rule_order cx (c0 :: r1) =
  let (body, rest2) := take_while (fun c => negb (is_cat CEndOfLine c)) r1 in
  RTok (mkt (ch c0 :: chars_of body) (cpos c0) TComment) rest2.
Proof.
  intro H. unfold Tables.rule_order.
  rewrite run_rules_cons_none
    by (cbn [run_rule]; apply escaped_none_first; rewrite H; discriminate).
  cbn [run_rules run_rule]. unfold rule_comment.
  rewrite (proj2 (is_cat_true _ _) H), comment_always_allowed. cbn [andb].
  destruct (take_while (fun c => negb (is_cat CEndOfLine c)) r1) as [body rest2].
  reflexivity.
Qed.

(* ====================================================================== *)
(* B.  C10, tokenizer half                                                 *)
(* ====================================================================== *)

Definition no_eol (c : cchar) : Prop := ccat c <> CEndOfLine.

(* the characters after a comment: nothing, or an end-of-line character first *)
Definition eol_or_end (tail : list cchar) : Prop :=
  match tail with [] => True | e :: _ => ccat e = CEndOfLine end.

Lemma no_eol_b c : negb (is_cat CEndOfLine c) = true <-> no_eol c.
Proof.
  unfold no_eol. rewrite negb_true_iff. split.
  - intros H E. apply is_cat_true in E. congruence.
  - apply is_cat_false.
Qed.

Lemma eol_stop tail :
  eol_or_end tail ->
  match tail with c :: _ => negb (is_cat CEndOfLine c) = false | [] => True end.
Proof.
  destruct tail as [|e t]; cbn [eol_or_end]; [trivial|].
  intro H. apply negb_false_iff, is_cat_true. exact H.
Qed.

(* 5. a comment character at a token boundary starts a Comment token that
      extends over the longest end-of-line-free prefix of what follows *)
Theorem comment_token_split cx c0 body tail :
  ccat c0 = CComment -> Forall no_eol body -> eol_or_end tail ->
  run_rules Tables.rule_order cx (c0 :: body ++ tail) =
  RTok (mkt (ch c0 :: chars_of body) (cpos c0) TComment) tail.
Proof.
  intros H Hb Ht. rewrite (comment_round cx c0 _ H).
  rewrite (take_while_split (fun c => negb (is_cat CEndOfLine c)) body tail).
  - reflexivity.
  - eapply Forall_impl; [|exact Hb]. intros c Hc. apply no_eol_b. exact Hc.
  - apply eol_stop. exact Ht.
Qed.

Theorem comment_token cx c0 r1 :
  ccat c0 = CComment ->
  exists body rest',
    r1 = body ++ rest' /\ Forall no_eol body /\ eol_or_end rest' /\
    run_rules Tables.rule_order cx (c0 :: r1) =
    RTok (mkt (ch c0 :: chars_of body) (cpos c0) TComment) rest'.
Proof.
  intro H. rewrite (comment_round cx c0 r1 H).
  destruct (take_while (fun c => negb (is_cat CEndOfLine c)) r1) as [body rest2] eqn:E.
  exists body, rest2. split; [eapply take_while_app; exact E|]. split; [|split; [|reflexivity]].
  - apply take_while_all in E. eapply Forall_impl; [|exact E].
    intros c Hc. apply no_eol_b. exact Hc.
  - apply take_while_stop in E. destruct rest2 as [|e t]; cbn [eol_or_end]; [trivial|].
    apply negb_false_iff, is_cat_true in E. exact E.
Qed.

(* the decomposition is unique, so comment_token determines the token *)
Lemma eol_split_unique b1 t1 b2 t2 :
  b1 ++ t1 = b2 ++ t2 -> Forall no_eol b1 -> Forall no_eol b2 ->
  eol_or_end t1 -> eol_or_end t2 -> b1 = b2 /\ t1 = t2.
Proof.
  revert b2. induction b1 as [|x b1 IH]; intros b2 E F1 F2 E1 E2.
  - destruct b2 as [|y b2]; [split; [reflexivity | exact E]|].
    exfalso. cbn [app] in E. subst t1. cbn [eol_or_end] in E1.
    inversion F2; subst. contradiction.
  - destruct b2 as [|y b2].
    + exfalso. cbn [app] in E. subst t2. cbn [eol_or_end] in E2.
      inversion F1; subst. contradiction.
    + cbn [app] in E. inversion E; subst. inversion F1; subst. inversion F2; subst.
      destruct (IH b2 H1 H3 H5 E1 E2) as [A B]. subst. split; reflexivity.
Qed.

(* the payload of a comment is never looked at *)
Theorem comment_payload_irrelevant cx c0 p1 p2 tail :
  ccat c0 = CComment -> Forall no_eol p1 -> Forall no_eol p2 -> eol_or_end tail ->
  exists t1 t2,
    run_rules Tables.rule_order cx (c0 :: p1 ++ tail) = RTok t1 tail /\
    run_rules Tables.rule_order cx (c0 :: p2 ++ tail) = RTok t2 tail /\
    tcat t1 = TComment /\ tcat t2 = TComment /\
    ttext t1 = ch c0 :: chars_of p1 /\ ttext t2 = ch c0 :: chars_of p2 /\
    tpos t1 = tpos t2.
Proof.
  intros H F1 F2 Ht.
  exists (mkt (ch c0 :: chars_of p1) (cpos c0) TComment),
         (mkt (ch c0 :: chars_of p2) (cpos c0) TComment).
  rewrite (comment_token_split cx c0 p1 tail H F1 Ht).
  rewrite (comment_token_split cx c0 p2 tail H F2 Ht).
  repeat split; reflexivity.
Qed.

(* ---------------------------------------------------------- escape parity *)

Definition is_esc (c : cchar) : Prop := ccat c = CEscape.

(* the tokens made of consecutive pairs of characters *)
Fixpoint pair_toks (es : list cchar) : list token :=
  match es with
  | a :: b :: r => mkt [ch a; ch b] (cpos a) TEscapedComment :: pair_toks r
  | _ => []
  end.

Lemma escape_second_escape : mem_cc CEscape Tables.escaped_second_cats = true.
Proof. reflexivity. Qed.
Lemma escape_second_comment : mem_cc CComment Tables.escaped_second_cats = true.
Proof. reflexivity. Qed.
Lemma escape_second_mathswitch : mem_cc CMathSwitch Tables.escaped_second_cats = true.
Proof. reflexivity. Qed.

Lemma loop_step_tok f points idx pp pc prev c0 r t rest' :
  run_rules Tables.rule_order (mkctx idx prev pp pc points) (c0 :: r) = RTok t rest' ->
  tokenize_loop (S f) points idx pp pc prev (c0 :: r) =
  let lc := last_consumed (c0 :: r) rest' in
  let (ts, e) := tokenize_loop f points
                   (idx + Z.of_nat (length (c0 :: r) - length rest'))%Z lc lc (Some t) rest' in
  (t :: ts, e).
Proof. intro H. cbn [tokenize_loop]. rewrite H. reflexivity. Qed.

Lemma last_cons {A} (body : list A) : forall x c, last (x :: body) c = last body x.
Proof.
  induction body as [|y b IH]; intros x c; [reflexivity|].
  change (last (x :: y :: b) c) with (last (y :: b) c).
  rewrite (IH y c), (IH y x). reflexivity.
Qed.

Lemma last_consumed_body c body tail :
  last_consumed (c :: body ++ tail) tail = Some (last body c).
Proof.
  unfold last_consumed.
  replace (length (c :: body ++ tail) - length tail - 1) with (length body)
    by (cbn [length]; rewrite app_length; lia).
  revert c. induction body as [|x body IH]; intro c; [reflexivity|].
  cbn [length app nth_error]. rewrite IH. rewrite last_cons. reflexivity.
Qed.

Lemma consumed_body {A} (c : A) body tail :
  length (c :: body ++ tail) - length tail = S (length body).
Proof. cbn [length]. rewrite app_length. lia. Qed.

(* 2*j escape characters in front of a round whose outcome does not depend on
   the context are consumed as j two-character tokens *)
Lemma peel_pairs j : forall es rest t rest' f points idx pp pc prev,
  length es = 2 * j -> Forall is_esc es ->
  (forall cx, run_rules Tables.rule_order cx rest = RTok t rest') ->
  tokenize_loop (j + S f) points idx pp pc prev (es ++ rest) =
  let lc := last_consumed rest rest' in
  let (ts, e) := tokenize_loop f points
      (idx + Z.of_nat (2 * j + (length rest - length rest')))%Z lc lc (Some t) rest' in
  (pair_toks es ++ t :: ts, e).
Proof.
  induction j as [|j IH]; intros es rest t rest' f points idx pp pc prev Hlen Hesc Hround.
  - destruct es as [|x es]; [|discriminate Hlen]. cbn [app pair_toks plus].
    destruct rest as [|c0 r].
    { specialize (Hround (mkctx idx prev pp pc points)). discriminate Hround. }
    rewrite (loop_step_tok f points idx pp pc prev c0 r t rest' (Hround _)).
    cbn [Nat.mul plus]. reflexivity.
  - destruct es as [|a [|b es]]; try (cbn [length] in Hlen; lia).
    inversion Hesc as [|? ? Ha Hesc']; subst. inversion Hesc' as [|? ? Hb Hesc'']; subst.
    cbn [app plus pair_toks].
    rewrite (loop_step_tok (j + S f) points idx pp pc prev a (b :: es ++ rest)
               (mkt [ch a; ch b] (cpos a) TEscapedComment) (es ++ rest)).
    2:{ apply escaped_round; [exact Ha|]. unfold is_esc in Hb. rewrite Hb.
        exact escape_second_escape. }
    cbv zeta.
    replace (length (a :: b :: es ++ rest) - length (es ++ rest)) with 2
      by (cbn [length]; lia).
    rewrite (IH es rest t rest' f points); [|cbn [length] in Hlen; lia|exact Hesc''|exact Hround].
    cbv zeta.
    replace (idx + Z.of_nat 2 + Z.of_nat (2 * j + (length rest - length rest')))%Z
      with (idx + Z.of_nat (2 * S j + (length rest - length rest')))%Z by lia.
    destruct (tokenize_loop f points _ _ _ _ rest') as [ts e]. reflexivity.
Qed.

(* 6a. an even number 2*j of escape characters, then a comment character:
       j tokens "\\", then the Comment token starting at the comment character *)
Theorem escape_parity_even j es pct body tail f points idx pp pc prev :
  length es = 2 * j -> Forall is_esc es -> ccat pct = CComment ->
  Forall no_eol body -> eol_or_end tail ->
  tokenize_loop (j + S f) points idx pp pc prev (es ++ pct :: body ++ tail) =
  let tcm := mkt (ch pct :: chars_of body) (cpos pct) TComment in
  let lc := Some (last body pct) in
  let (ts, e) := tokenize_loop f points
      (idx + Z.of_nat (2 * j + S (length body)))%Z lc lc (Some tcm) tail in
  (pair_toks es ++ tcm :: ts, e).
Proof.
  intros Hlen Hesc Hp Hb Ht.
  rewrite (peel_pairs j es (pct :: body ++ tail)
             (mkt (ch pct :: chars_of body) (cpos pct) TComment) tail f points idx pp pc prev
             Hlen Hesc).
  2:{ intro cx. apply comment_token_split; assumption. }
  cbv zeta. rewrite last_consumed_body, consumed_body. reflexivity.
Qed.

(* 6b. an odd number 2*j+1 of escape characters, then a comment character:
       j tokens "\\", then ONE EscapedComment token "\%", and the payload is
       tokenised as ordinary input (no Comment token starts at pct) *)
Theorem escape_parity_odd j es e0 pct payload f points idx pp pc prev :
  length es = 2 * j -> Forall is_esc es -> ccat e0 = CEscape -> ccat pct = CComment ->
  tokenize_loop (j + S f) points idx pp pc prev (es ++ e0 :: pct :: payload) =
  let tesc := mkt [ch e0; ch pct] (cpos e0) TEscapedComment in
  let (ts, e) := tokenize_loop f points
      (idx + Z.of_nat (2 * j + 2))%Z (Some pct) (Some pct) (Some tesc) payload in
  (pair_toks es ++ tesc :: ts, e).
Proof.
  intros Hlen Hesc He Hp.
  rewrite (peel_pairs j es (e0 :: pct :: payload)
             (mkt [ch e0; ch pct] (cpos e0) TEscapedComment) payload f points idx pp pc prev
             Hlen Hesc).
  2:{ intro cx. apply escaped_round; [exact He|]. rewrite Hp. exact escape_second_comment. }
  cbv zeta.
  replace (length (e0 :: pct :: payload) - length payload) with 2 by (cbn [length]; lia).
  replace (last_consumed (e0 :: pct :: payload) payload) with (Some pct).
  2:{ unfold last_consumed.
      replace (length (e0 :: pct :: payload) - length payload - 1) with 1
        by (cbn [length]; lia). reflexivity. }
  reflexivity.
Qed.

(* what pair_toks is *)
Lemma pair_toks_spec j : forall es, length es = 2 * j ->
  length (pair_toks es) = j /\
  Forall (fun t => tcat t = TEscapedComment /\ length (ttext t) = 2) (pair_toks es) /\
  concat (map ttext (pair_toks es)) = chars_of es.
Proof.
  induction j as [|j IH]; intros es Hlen.
  - destruct es; [|discriminate Hlen]. repeat split; constructor.
  - destruct es as [|a [|b es]]; try (cbn [length] in Hlen; lia).
    destruct (IH es) as (L & F & C); [cbn [length] in Hlen; lia|].
    cbn [pair_toks length map concat ttext]. split; [rewrite L; reflexivity|]. split.
    + constructor; [split; reflexivity | exact F].
    + rewrite C. reflexivity.
Qed.

(* ====================================================================== *)
(* C.  C12, tokenizer half                                                 *)
(* ====================================================================== *)

(* 7. "$$" is one DisplayMathSwitch token; a lone "$" is a MathSwitch token *)
Theorem display_switch_token cx c0 c1 r :
  ccat c0 = CMathSwitch -> ccat c1 = CMathSwitch ->
  run_rules Tables.rule_order cx (c0 :: c1 :: r) =
  RTok (mkt [ch c0; ch c1] (cpos c0) TDisplayMathSwitch) r.
Proof.
  intros H0 H1. unfold Tables.rule_order.
  rewrite run_rules_cons_none
    by (cbn [run_rule]; apply escaped_none_first; rewrite H0; discriminate).
  rewrite run_rules_cons_none
    by (cbn [run_rule]; apply comment_none; rewrite H0; discriminate).
  apply run_rules_cons_tok. cbn [run_rule]. unfold rule_math_sym_switch.
  rewrite (proj2 (is_cat_true _ _) H0), (proj2 (is_cat_true _ _) H1). reflexivity.
Qed.

Definition not_switch_next (r : list cchar) : Prop :=
  match r with [] => True | c1 :: _ => ccat c1 <> CMathSwitch end.

Theorem single_switch_token cx c0 r :
  ccat c0 = CMathSwitch -> not_switch_next r ->
  run_rules Tables.rule_order cx (c0 :: r) = RTok (mkt [ch c0] (cpos c0) TMathSwitch) r.
Proof.
  intros H0 H1. unfold Tables.rule_order.
  rewrite run_rules_cons_none
    by (cbn [run_rule]; apply escaped_none_first; rewrite H0; discriminate).
  rewrite run_rules_cons_none
    by (cbn [run_rule]; apply comment_none; rewrite H0; discriminate).
  apply run_rules_cons_tok. cbn [run_rule]. unfold rule_math_sym_switch.
  rewrite (proj2 (is_cat_true _ _) H0). destruct r as [|c1 r2]; [reflexivity|].
  cbn [not_switch_next] in H1. rewrite (is_cat_false _ _ H1). reflexivity.
Qed.

(* 8. "\$" is one EscapedComment token: no math-switch token *)
Theorem escaped_dollar_not_switch cx c0 c1 r :
  ccat c0 = CEscape -> ccat c1 = CMathSwitch ->
  run_rules Tables.rule_order cx (c0 :: c1 :: r) =
  RTok (mkt [ch c0; ch c1] (cpos c0) TEscapedComment) r.
Proof.
  intros H0 H1. apply escaped_round; [exact H0|]. rewrite H1. exact escape_second_mathswitch.
Qed.

(* 9. "\[" "\]" "\(" "\)": the token category is read from Tables.asym_map *)
Lemma asym_second_not_escaped k t :
  lookup_asym Tables.asym_map CEscape k = Some t ->
  mem_cc k Tables.escaped_second_cats = false.
Proof. destruct k; intro H; try reflexivity; vm_compute in H; discriminate H. Qed.

Lemma asym_round cx c0 c1 r t :
  ccat c0 = CEscape -> lookup_asym Tables.asym_map CEscape (ccat c1) = Some t ->
  run_rules Tables.rule_order cx (c0 :: c1 :: r) = RTok (mkt [ch c0; ch c1] (cpos c0) t) r.
Proof.
  intros H0 H1. unfold Tables.rule_order.
  rewrite run_rules_cons_none
    by (cbn [run_rule]; apply escaped_none_second; eapply asym_second_not_escaped; exact H1).
  rewrite run_rules_cons_none
    by (cbn [run_rule]; apply comment_none; rewrite H0; discriminate).
  rewrite run_rules_cons_none
    by (cbn [run_rule]; apply math_sym_none; rewrite H0; discriminate).
  apply run_rules_cons_tok. cbn [run_rule]. unfold rule_math_asym_switch.
  rewrite H0, H1. reflexivity.
Qed.

Theorem asym_switch_tokens cx c0 c1 r :
  ccat c0 = CEscape ->
  (ccat c1 = CBracketBegin ->
   run_rules Tables.rule_order cx (c0 :: c1 :: r) =
   RTok (mkt [ch c0; ch c1] (cpos c0) TDisplayMathGroupBegin) r) /\
  (ccat c1 = CBracketEnd ->
   run_rules Tables.rule_order cx (c0 :: c1 :: r) =
   RTok (mkt [ch c0; ch c1] (cpos c0) TDisplayMathGroupEnd) r) /\
  (ccat c1 = CParenBegin ->
   run_rules Tables.rule_order cx (c0 :: c1 :: r) =
   RTok (mkt [ch c0; ch c1] (cpos c0) TMathGroupBegin) r) /\
  (ccat c1 = CParenEnd ->
   run_rules Tables.rule_order cx (c0 :: c1 :: r) =
   RTok (mkt [ch c0; ch c1] (cpos c0) TMathGroupEnd) r).
Proof.
  intro H0. repeat split; intro H1; apply asym_round; try exact H0; rewrite H1; reflexivity.
Qed.

(* 10. sizing command + delimiter *)

Definition starts_letter_b (p : str) : bool :=
  match p with c :: _ => cc_beq (categorize_char c) CLetter | [] => false end.

Lemma points_start_letter_b : forallb starts_letter_b Tables.punctuation_commands = true.
Proof. vm_compute. reflexivity. Qed.

Lemma points_start_letter p :
  In p Tables.punctuation_commands ->
  exists c p', p = c :: p' /\ categorize_char c = CLetter.
Proof.
  intro H. pose proof points_start_letter_b as B. rewrite forallb_forall in B.
  specialize (B p H). destruct p as [|c p']; [discriminate B|].
  exists c, p'. split; [reflexivity|]. apply cc_eqb_eq. exact B.
Qed.

(* rules 1-8 return None on a letter *)
Lemma letter_rules_none cx c0 r :
  ccat c0 = CLetter ->
  run_rules Tables.rule_order cx (c0 :: r) =
  run_rules [R_punctuation_command_name; R_command_name; R_string] cx (c0 :: r).
Proof.
  intro H. unfold Tables.rule_order.
  rewrite run_rules_cons_none
    by (cbn [run_rule]; apply escaped_none_first; rewrite H; discriminate).
  rewrite run_rules_cons_none
    by (cbn [run_rule]; apply comment_none; rewrite H; discriminate).
  rewrite run_rules_cons_none
    by (cbn [run_rule]; apply math_sym_none; rewrite H; discriminate).
  rewrite run_rules_cons_none
    by (cbn [run_rule]; apply math_asym_none; rewrite H; discriminate).
  rewrite run_rules_cons_none
    by (cbn [run_rule]; apply line_break_none; rewrite H; discriminate).
  rewrite run_rules_cons_none
    by (cbn [run_rule]; apply ignore_none; rewrite H; reflexivity).
  rewrite run_rules_cons_none
    by (cbn [run_rule]; apply spacers_none; rewrite H; discriminate).
  rewrite run_rules_cons_none
    by (cbn [run_rule]; apply symbols_none; rewrite H; reflexivity).
  reflexivity.
Qed.

Theorem punctuation_command_one_token cx c0 r p :
  Permutation (cx_points cx) Tables.punctuation_commands ->
  prev_is_escape (cx_prevc_punct cx) = true ->
  ccat c0 = categorize_char (ch c0) ->
  In p Tables.punctuation_commands ->
  firstn (length p) (chars_of (c0 :: r)) = p ->
  run_rules Tables.rule_order cx (c0 :: r) =
    RTok (mkt p (cpos c0) TPunctuationCommandName) (skipn (length p) (c0 :: r)) /\
  chars_of (firstn (length p) (c0 :: r)) = p /\ p <> [].
Proof.
  intros P Hesc Hcat Hin Hpre.
  destruct (points_start_letter p Hin) as (c & p' & Ep & Hc).
  assert (Hch : ch c0 = c).
  { rewrite Ep in Hpre. cbn [length firstn chars_of map] in Hpre. congruence. }
  assert (Hl : ccat c0 = CLetter) by (rewrite Hcat, Hch; exact Hc).
  split; [|split].
  - rewrite (letter_rules_none cx c0 r Hl). apply run_rules_cons_tok. cbn [run_rule].
    unfold rule_punctuation. rewrite Hesc.
    rewrite (find_point_order_independent _ _ P).
    destruct (find_point Tables.punctuation_commands (chars_of (c0 :: r))) as [q|] eqn:E.
    + apply find_point_in in E. destruct E as [Iq Fq].
      assert (q = p) by (eapply punct_match_unique; eassumption). subst q.
      rewrite Ep. cbn [length firstn]. reflexivity.
    + exfalso. exact (find_point_none _ _ E p Hin Hpre).
  - unfold chars_of in *. rewrite <- firstn_map. exact Hpre.
  - rewrite Ep. discriminate.
Qed.

(* ====================================================================== *)
(* string-level form of escape parity, for every k                         *)
(* ====================================================================== *)

Lemma categorize_from_app p a b :
  categorize_from p (a ++ b) =
  categorize_from p a ++ categorize_from (p + Z.of_nat (length a))%Z b.
Proof.
  revert p. induction a as [|x a IH]; intro p; cbn [app categorize_from length].
  - rewrite Z.add_0_r. reflexivity.
  - rewrite IH.
    replace (p + Z.of_nat (S (length a)))%Z with (p + 1 + Z.of_nat (length a))%Z by lia.
    reflexivity.
Qed.

Lemma categorize_from_length p s : length (categorize_from p s) = length s.
Proof. revert p. induction s as [|x s IH]; intro p; cbn [categorize_from length]; auto. Qed.

Lemma categorize_from_repeat_esc bsl k : categorize_char bsl = CEscape ->
  forall p, Forall is_esc (categorize_from p (repeat bsl k)).
Proof.
  intro H. induction k as [|k IH]; intro p; cbn [repeat categorize_from]; constructor.
  - exact H.
  - apply IH.
Qed.

(* j tokens "\\" at offsets p, p+2, ... *)
Fixpoint esc_pair_toks (bsl : N) (p : Z) (j : nat) : list token :=
  match j with
  | O => []
  | S j' => mkt [bsl; bsl] p TEscapedComment :: esc_pair_toks bsl (p + 2)%Z j'
  end.

Lemma pair_toks_repeat bsl j : forall p,
  pair_toks (categorize_from p (repeat bsl (2 * j))) = esc_pair_toks bsl p j.
Proof.
  induction j as [|j IH]; intro p; [reflexivity|].
  replace (2 * S j) with (S (S (2 * j))) by lia.
  cbn [repeat categorize_from pair_toks esc_pair_toks ch cpos].
  rewrite IH. do 2 f_equal. lia.
Qed.

Theorem escape_parity_string bsl pct k payload :
  categorize_char bsl = CEscape -> categorize_char pct = CComment ->
  exists ts,
    fst (tokens_of_string (repeat bsl k ++ pct :: payload)) =
      esc_pair_toks bsl 0 (Nat.div2 k) ++ ts /\
    if Nat.even k
    then exists body tl r, payload = body ++ tl /\
                           ts = mkt (pct :: body) (Z.of_nat k) TComment :: r
    else exists r, ts = mkt [bsl; pct] (Z.of_nat (k - 1)) TEscapedComment :: r.
Proof.
  intros Hb Hp. unfold tokens_of_string, tokenize, tokenize_with, categorize.
  destruct (Nat.even k) eqn:Ev.
  - apply Nat.even_spec in Ev. destruct Ev as [j Hj]. subst k.
    rewrite Nat.div2_double, categorize_from_app, repeat_length.
    cbn [categorize_from]. rewrite Hp.
    set (es := categorize_from 0 (repeat bsl (2 * j))).
    set (c0 := mkc pct (0 + Z.of_nat (2 * j)) CComment).
    set (r1 := categorize_from (0 + Z.of_nat (2 * j) + 1) payload).
    assert (Les : length es = 2 * j)
      by (unfold es; rewrite categorize_from_length, repeat_length; reflexivity).
    generalize (start_prev_punct (es ++ c0 :: r1)) as pp.
    generalize (start_prev_cmd Tables.punctuation_commands (es ++ c0 :: r1)) as pc.
    intros pc pp.
    replace (S (length (es ++ c0 :: r1))) with (j + S (length (es ++ c0 :: r1) - j))
      by (rewrite app_length, Les; lia).
    destruct (take_while (fun c => negb (is_cat CEndOfLine c)) r1) as [body rest2] eqn:E.
    rewrite (peel_pairs j es (c0 :: r1) (mkt (ch c0 :: chars_of body) (cpos c0) TComment) rest2);
      [ | exact Les | apply categorize_from_repeat_esc; exact Hb
        | intro cx; rewrite (comment_round cx c0 r1 eq_refl), E; reflexivity ].
    cbv zeta.
    destruct (tokenize_loop _ _ _ _ _ _ rest2) as [ts e]. cbn [fst].
    exists (mkt (ch c0 :: chars_of body) (cpos c0) TComment :: ts). split.
    + unfold es. rewrite pair_toks_repeat. reflexivity.
    + exists (chars_of body), (chars_of rest2), ts. split.
      * apply take_while_app in E.
        rewrite <- (chars_of_categorize_from (0 + Z.of_nat (2 * j) + 1) payload).
        fold r1. rewrite E. unfold chars_of. apply map_app.
      * unfold c0. cbn [ch cpos]. rewrite Z.add_0_l. reflexivity.
  - rewrite <- Nat.negb_odd in Ev. apply negb_false_iff, Nat.odd_spec in Ev.
    destruct Ev as [j Hj]. subst k.
    replace (2 * j + 1) with (S (2 * j)) by lia. rewrite Nat.div2_succ_double.
    replace (repeat bsl (S (2 * j))) with (repeat bsl (2 * j) ++ [bsl])
      by (rewrite <- repeat_cons; reflexivity).
    rewrite <- app_assoc. cbn [app].
    rewrite categorize_from_app, repeat_length.
    cbn [categorize_from]. rewrite Hb, Hp.
    set (es := categorize_from 0 (repeat bsl (2 * j))).
    set (e0 := mkc bsl (0 + Z.of_nat (2 * j)) CEscape).
    set (c0 := mkc pct (0 + Z.of_nat (2 * j) + 1) CComment).
    set (r1 := categorize_from (0 + Z.of_nat (2 * j) + 1 + 1) payload).
    assert (Les : length es = 2 * j)
      by (unfold es; rewrite categorize_from_length, repeat_length; reflexivity).
    generalize (start_prev_punct (es ++ e0 :: c0 :: r1)) as pp.
    generalize (start_prev_cmd Tables.punctuation_commands (es ++ e0 :: c0 :: r1)) as pc.
    intros pc pp.
    replace (S (length (es ++ e0 :: c0 :: r1)))
      with (j + S (length (es ++ e0 :: c0 :: r1) - j))
      by (rewrite app_length, Les; lia).
    rewrite (escape_parity_odd j es e0 c0 r1); try reflexivity;
      [ | exact Les | apply categorize_from_repeat_esc; exact Hb ].
    cbv zeta.
    destruct (tokenize_loop _ _ _ _ _ _ r1) as [ts e]. cbn [fst].
    exists (mkt [ch e0; ch c0] (cpos e0) TEscapedComment :: ts). split.
    + unfold es. rewrite pair_toks_repeat. reflexivity.
    + exists ts. unfold e0, c0. cbn [ch cpos]. do 2 f_equal. lia.
Qed.

(* ====================================================================== *)
(* examples on concrete code points (the real tables)                      *)
(* ====================================================================== *)

Definition show (s : str) : list (str * Z * tc) :=
  map (fun t => (ttext t, tpos t, tcat t)) (fst (tokens_of_string s)).

(* "%a}b\nc": the comment runs to the line end, whatever it contains *)
Example ex_comment :
  show [37; 97; 125; 98; 10; 99]%N =
  [([37; 97; 125; 98]%N, 0%Z, TComment); ([10; 99]%N, 4%Z, TText)].
Proof. vm_compute. reflexivity. Qed.

(* "\\\%x": three backslashes: "\\" then "\%" then text, no comment *)
Example ex_parity_odd :
  show [92; 92; 92; 37; 120]%N =
  [([92; 92]%N, 0%Z, TEscapedComment); ([92; 37]%N, 2%Z, TEscapedComment);
   ([120]%N, 4%Z, TText)].
Proof. vm_compute. reflexivity. Qed.

(* "\\%x": two backslashes: "\\" then the comment "%x" *)
Example ex_parity_even :
  show [92; 92; 37; 120]%N =
  [([92; 92]%N, 0%Z, TEscapedComment); ([37; 120]%N, 2%Z, TComment)].
Proof. vm_compute. reflexivity. Qed.

(* "$$" and "$a" *)
Example ex_display_switch : show [36; 36]%N = [([36; 36]%N, 0%Z, TDisplayMathSwitch)].
Proof. vm_compute. reflexivity. Qed.
Example ex_single_switch :
  show [36; 97]%N = [([36]%N, 0%Z, TMathSwitch); ([97]%N, 1%Z, TText)].
Proof. vm_compute. reflexivity. Qed.

(* "\$" *)
Example ex_escaped_dollar : show [92; 36]%N = [([92; 36]%N, 0%Z, TEscapedComment)].
Proof. vm_compute. reflexivity. Qed.

(* "\[\]\(\)" *)
Example ex_asym :
  show [92; 91; 92; 93; 92; 40; 92; 41]%N =
  [([92; 91]%N, 0%Z, TDisplayMathGroupBegin); ([92; 93]%N, 2%Z, TDisplayMathGroupEnd);
   ([92; 40]%N, 4%Z, TMathGroupBegin); ([92; 41]%N, 6%Z, TMathGroupEnd)].
Proof. vm_compute. reflexivity. Qed.

(* "\left[x": the bracket is inside the command token *)
Example ex_left_bracket :
  show [92; 108; 101; 102; 116; 91; 120]%N =
  [([92]%N, 0%Z, TEscape); ([108; 101; 102; 116; 91]%N, 1%Z, TPunctuationCommandName);
   ([120]%N, 6%Z, TText)].
Proof. vm_compute. reflexivity. Qed.

(* hypotheses of the theorems are satisfiable on categorised input *)
Example ex_cats :
  categorize_char 92 = CEscape /\ categorize_char 37 = CComment /\
  categorize_char 36 = CMathSwitch /\ categorize_char 10 = CEndOfLine /\
  categorize_char 91 = CBracketBegin /\ categorize_char 93 = CBracketEnd /\
  categorize_char 40 = CParenBegin /\ categorize_char 41 = CParenEnd /\
  mem_str [108; 101; 102; 116; 91]%N Tables.punctuation_commands = true.
Proof. vm_compute. repeat split. Qed.
