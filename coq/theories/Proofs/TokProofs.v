(* TOK: the tokenizer partitions its input (DESIGN.md section 5).
   For every categorised character list the driver terminates normally with
   the fuel it is given, every token is a non-empty run of consecutive
   characters starting at the offset it records, and the only characters that
   belong to no token are ignored/invalid ones skipped between tokens. *)
From Coq Require Import List NArith ZArith Bool Lia.
From TexModel Require Import Base Tables Chars Tokenizer.
Import ListNotations.
Local Open Scope Z_scope.

Arguments is_cat : simpl never.
Arguments mem_cc : simpl never.
Arguments lookup_asym : simpl never.
Arguments lookup_sym : simpl never.
Arguments comment_allowed : simpl never.
Arguments prev_is_escape : simpl never.

Definition ign (c : cchar) : bool := mem_cc (ccat c) Tables.ignore_cats.

(* ------------------------------------------------------------ take_while *)

Lemma take_while_app p l a b : take_while p l = (a, b) -> l = a ++ b.
Proof.
  revert a b; induction l as [|c l IH]; simpl; intros a b H.
  - inversion H; reflexivity.
  - destruct (p c).
    + destruct (take_while p l) as [a' b'] eqn:E. inversion H; subst.
      simpl. f_equal. apply IH. reflexivity.
    + inversion H; reflexivity.
Qed.

Lemma take_while_all p l a b : take_while p l = (a, b) -> Forall (fun c => p c = true) a.
Proof.
  revert a b; induction l as [|c l IH]; simpl; intros a b H.
  - inversion H; constructor.
  - destruct (p c) eqn:Pc.
    + destruct (take_while p l) as [a' b'] eqn:E. inversion H; subst.
      constructor; [assumption | eapply IH; reflexivity].
    + inversion H; constructor.
Qed.

Lemma take_while_stop p l a b :
  take_while p l = (a, b) -> match b with c :: _ => p c = false | [] => True end.
Proof.
  revert a b; induction l as [|c l IH]; simpl; intros a b H.
  - inversion H; exact I.
  - destruct (p c) eqn:Pc.
    + destruct (take_while p l) as [a' b'] eqn:E. inversion H; subst.
      eapply IH; reflexivity.
    + inversion H; subst. exact Pc.
Qed.

Lemma take_while_first p c l : p c = true -> exists a b, take_while p (c :: l) = (c :: a, b).
Proof. intro H. simpl. rewrite H. destruct (take_while p l) as [a b]. eauto. Qed.

(* -------------------------------------------------- what a rule may return *)

Definition first_pos (idx : Z) (body : list cchar) : Z :=
  match body with c :: _ => cpos c | [] => idx end.

(* a rule result is sound for (idx, rest): a token is a prefix of rest *)
Definition sound_res (strict : bool) (idx : Z) (rest : list cchar) (r : rres) : Prop :=
  match r with
  | RNone => True
  | RTok t rest' =>
    exists body, rest = body ++ rest' /\ ttext t = chars_of body /\
                 tpos t = first_pos idx body /\ (strict = true -> body <> [])
  | RSkip rest' =>
    exists sk, sk <> [] /\ rest = sk ++ rest' /\ Forall (fun c => ign c = true) sk
  | RErr => rest = []
  end.

Lemma sound_weaken idx rest r : sound_res true idx rest r -> sound_res false idx rest r.
Proof.
  destruct r; simpl; auto. intros (b & H1 & H2 & H3 & _). exists b. repeat split; auto.
  intro; discriminate.
Qed.

Ltac tok_with b :=
  exists b; repeat split; try reflexivity; try (intros _; discriminate).

Lemma sound_escaped idx rest : sound_res true idx rest (rule_escaped_symbols rest).
Proof.
  unfold rule_escaped_symbols. destruct rest as [|c0 [|c1 r2]]; simpl; auto;
    destruct (is_cat CEscape c0); simpl; auto.
  destruct (mem_cc (ccat c1) Tables.escaped_second_cats); simpl; auto.
  tok_with [c0; c1].
Qed.

Lemma sound_comment idx prev rest : sound_res true idx rest (rule_comment prev rest).
Proof.
  unfold rule_comment. destruct rest as [|c0 r1]; simpl; auto.
  destruct (is_cat CComment c0 && comment_allowed prev); simpl; auto.
  destruct (take_while _ r1) as [body r2] eqn:E. simpl.
  apply take_while_app in E. subst r1. tok_with (c0 :: body).
Qed.

Lemma sound_math_sym idx rest : sound_res true idx rest (rule_math_sym_switch rest).
Proof.
  unfold rule_math_sym_switch. destruct rest as [|c0 [|c1 r2]]; simpl; auto;
    destruct (is_cat CMathSwitch c0); simpl; auto; [tok_with [c0]|].
  destruct (is_cat CMathSwitch c1); simpl; [tok_with [c0; c1] | tok_with [c0]].
Qed.

Lemma sound_math_asym idx rest : sound_res true idx rest (rule_math_asym_switch rest).
Proof.
  unfold rule_math_asym_switch. destruct rest as [|c0 [|c1 r2]]; simpl; auto.
  destruct (lookup_asym _ _ _); simpl; auto. tok_with [c0; c1].
Qed.

Lemma sound_line_break idx rest : sound_res true idx rest (rule_line_break rest).
Proof.
  unfold rule_line_break. destruct rest as [|c0 [|c1 r2]]; simpl; auto;
    destruct (is_cat CEscape c0); simpl; auto.
  destruct (is_cat CEscape c1); simpl; auto. tok_with [c0; c1].
Qed.

Lemma sound_ignore idx rest : sound_res true idx rest (rule_ignore rest).
Proof.
  unfold rule_ignore. destruct (take_while _ rest) as [sk r'] eqn:E.
  destruct sk as [|c sk]; simpl; auto.
  exists (c :: sk). split; [discriminate|]. split.
  - apply take_while_app in E. exact E.
  - apply take_while_all in E. exact E.
Qed.

Lemma sound_spacers idx rest : sound_res true idx rest (rule_spacers idx rest).
Proof.
  unfold rule_spacers.
  destruct (take_while (is_cat CSpacer) rest) as [s1 r1] eqn:E1.
  apply take_while_app in E1.
  set (er := match r1 with
             | c :: r' => if is_cat CEndOfLine c then ([c], r') else ([], r1)
             | [] => ([], r1) end).
  assert (Her : r1 = fst er ++ snd er).
  { subst er. destruct r1 as [|c r']; simpl; auto. destruct (is_cat CEndOfLine c); reflexivity. }
  destruct er as [e r2]. simpl in Her.
  destruct (take_while (is_cat CSpacer) r2) as [s2 r3] eqn:E2.
  apply take_while_app in E2.
  assert (Hall : rest = (s1 ++ e ++ s2) ++ r3).
  { subst rest r1 r2. rewrite <- !app_assoc. reflexivity. }
  assert (Hk : forall cons, cons = s1 ++ e ++ s2 ->
          sound_res true idx rest
            (match cons with [] => RNone | _ => RTok (mk_tok cons idx TMergedSpacer) r3 end)).
  { intros cons Hc. destruct cons as [|c cons]; simpl; auto.
    exists (c :: cons). split; [rewrite Hc; exact Hall|].
    split; [reflexivity|]. split; [reflexivity|]. intros _; discriminate. }
  destruct r3 as [|c r3'].
  - apply Hk. reflexivity.
  - destruct (mem_cc (ccat c) Tables.spacer_rollback_cats); [exact I|].
    apply Hk. reflexivity.
Qed.

Lemma sound_symbols idx rest : sound_res true idx rest (rule_symbols rest).
Proof.
  unfold rule_symbols. destruct rest as [|c0 r1]; simpl; auto.
  destruct (lookup_sym _ _); simpl; auto. tok_with [c0].
Qed.

Lemma find_point_some ps s p : find_point ps s = Some p -> firstn (length p) s = p.
Proof.
  induction ps as [|q ps IH]; simpl; [discriminate|].
  destruct (str_eqb (firstn (length q) s) q) eqn:E.
  - intro H; inversion H; subst. apply str_eqb_eq. exact E.
  - exact IH.
Qed.

Lemma sound_punct idx points prevc rest :
  sound_res true idx rest (rule_punctuation points prevc rest).
Proof.
  unfold rule_punctuation. destruct (prev_is_escape prevc); simpl; auto.
  destruct (find_point points (chars_of rest)) as [p|] eqn:E; simpl; auto.
  destruct (firstn (length p) rest) as [|c0 b] eqn:F; simpl; auto.
  exists (c0 :: b). rewrite <- F. repeat split.
  - symmetry. apply firstn_skipn.
  - apply find_point_some in E. unfold chars_of in *. rewrite firstn_map in E.
    symmetry. exact E.
  - rewrite F. reflexivity.
  - intros _. rewrite F. discriminate.
Qed.

Lemma sound_command_name idx prevc rest :
  sound_res true idx rest (rule_command_name prevc rest).
Proof.
  unfold rule_command_name. destruct (prev_is_escape prevc); simpl; auto.
  destruct rest as [|c0 r1]; simpl; auto.
  destruct (is_cat CLetter c0); simpl; auto.
  destruct (take_while _ r1) as [more r2] eqn:E. simpl.
  apply take_while_app in E. subst r1. tok_with (c0 :: more).
Qed.

Lemma sound_string idx rest : sound_res false idx rest (rule_string idx rest).
Proof.
  unfold rule_string. destruct (take_while _ rest) as [body r'] eqn:E. simpl.
  apply take_while_app in E. exists body. repeat split; auto. intro; discriminate.
Qed.

Lemma sound_run_rule r cx rest : sound_res false (cx_idx cx) rest (run_rule r cx rest).
Proof.
  destruct r; cbn [run_rule]; try apply sound_string; apply sound_weaken.
  - apply sound_escaped.
  - apply sound_comment.
  - apply sound_math_sym.
  - apply sound_math_asym.
  - apply sound_line_break.
  - apply sound_ignore.
  - apply sound_spacers.
  - apply sound_symbols.
  - apply sound_punct.
  - apply sound_command_name.
Qed.

(* ------------------------------------------- facts read off the tables *)

(* `prev.category != CC.Comment` compares a token code with a category code:
   the two enumerations do not overlap at Comment, so the guard is vacuous *)
Lemma comment_always_allowed prev : comment_allowed prev = true.
Proof. destruct prev as [[x p k]|]; [destruct k|]; reflexivity. Qed.

Lemma string_takes_first c r :
  mem_cc (ccat c) Tables.string_stop_cats = false ->
  exists body r', rule_string 0 (c :: r) = RTok (mk_tok (c :: body) 0 TText) r'.
Proof.
  intro H. unfold rule_string.
  destruct (take_while_first (fun c => negb (mem_cc (ccat c) Tables.string_stop_cats)) c r)
    as (a & b & E).
  { rewrite H. reflexivity. }
  rewrite E. eauto.
Qed.

(* with the registered rule order, the round started on a non-empty buffer
   always yields a non-empty token or skips ignored characters *)
Theorem run_rules_progress cx c0 rest1 :
  let rest := c0 :: rest1 in
  match run_rules Tables.rule_order cx rest with
  | RTok t rest' =>
    exists body, body <> [] /\ rest = body ++ rest' /\ ttext t = chars_of body /\
                 tpos t = first_pos (cx_idx cx) body
  | RSkip rest' =>
    exists sk, sk <> [] /\ rest = sk ++ rest' /\ Forall (fun c => ign c = true) sk
  | RNone | RErr => False
  end.
Proof.
  intro rest. unfold Tables.rule_order. cbn [run_rules run_rule].
  pose proof (sound_escaped (cx_idx cx) rest) as S1.
  destruct (rule_escaped_symbols rest) as [|t1 r1|r1|] eqn:E1;
    [ | destruct S1 as (b & ? & ? & ? & Hne); exists b; auto | exact S1 | discriminate S1].
  clear S1.
  pose proof (sound_comment (cx_idx cx) (cx_prev cx) rest) as S2.
  destruct (rule_comment (cx_prev cx) rest) as [|t2 r2|r2|] eqn:E2;
    [ | destruct S2 as (b & ? & ? & ? & Hne); exists b; auto | exact S2 | discriminate S2].
  clear S2.
  pose proof (sound_math_sym (cx_idx cx) rest) as S3.
  destruct (rule_math_sym_switch rest) as [|t3 r3|r3|] eqn:E3;
    [ | destruct S3 as (b & ? & ? & ? & Hne); exists b; auto | exact S3 | discriminate S3].
  clear S3.
  pose proof (sound_math_asym (cx_idx cx) rest) as S4.
  destruct (rule_math_asym_switch rest) as [|t4 r4|r4|] eqn:E4;
    [ | destruct S4 as (b & ? & ? & ? & Hne); exists b; auto | exact S4 | discriminate S4].
  clear S4.
  pose proof (sound_line_break (cx_idx cx) rest) as S5.
  destruct (rule_line_break rest) as [|t5 r5|r5|] eqn:E5;
    [ | destruct S5 as (b & ? & ? & ? & Hne); exists b; auto | exact S5 | discriminate S5].
  clear S5.
  pose proof (sound_ignore (cx_idx cx) rest) as S6.
  destruct (rule_ignore rest) as [|t6 r6|r6|] eqn:E6;
    [ | destruct S6 as (b & ? & ? & ? & Hne); exists b; auto | exact S6 | discriminate S6].
  clear S6.
  pose proof (sound_spacers (cx_idx cx) rest) as S7.
  destruct (rule_spacers (cx_idx cx) rest) as [|t7 r7|r7|] eqn:E7;
    [ | destruct S7 as (b & ? & ? & ? & Hne); exists b; auto | exact S7 | discriminate S7].
  clear S7.
  pose proof (sound_symbols (cx_idx cx) rest) as S8.
  destruct (rule_symbols rest) as [|t8 r8|r8|] eqn:E8;
    [ | destruct S8 as (b & ? & ? & ? & Hne); exists b; auto | exact S8 | discriminate S8].
  clear S8.
  pose proof (sound_punct (cx_idx cx) (cx_points cx) (cx_prevc_punct cx) rest) as S9.
  destruct (rule_punctuation (cx_points cx) (cx_prevc_punct cx) rest) as [|t9 r9|r9|] eqn:E9;
    [ | destruct S9 as (b & ? & ? & ? & Hne); exists b; auto | exact S9 | discriminate S9].
  clear S9.
  pose proof (sound_command_name (cx_idx cx) (cx_prevc_cmd cx) rest) as S10.
  destruct (rule_command_name (cx_prevc_cmd cx) rest) as [|t10 r10|r10|] eqn:E10;
    [ | destruct S10 as (b & ? & ? & ? & Hne); exists b; auto | exact S10 | discriminate S10].
  clear S10.
  (* only the string rule is left: the first character is not a stop
     character, because the rules for every stop category returned None *)
  assert (Hstop : mem_cc (ccat c0) Tables.string_stop_cats = false).
  { subst rest. unfold rule_comment in E2. rewrite comment_always_allowed, andb_true_r in E2.
    unfold rule_math_sym_switch in E3. unfold rule_symbols in E8.
    unfold is_cat in *. destruct c0 as [h0 p0 k0]. cbn [ccat] in *.
    destruct k0; try reflexivity; exfalso;
      try (cbv in E8; discriminate E8);
      try (cbv in E3; destruct rest1 as [|[h1 p1 k1] rr];
           [discriminate E3 | destruct k1; discriminate E3]);
      try (cbv in E2;
           match type of E2 with context [let (_, _) := ?x in _] => destruct x end;
           discriminate E2). }
  unfold rule_string. subst rest.
  destruct (take_while_first (fun c => negb (mem_cc (ccat c) Tables.string_stop_cats)) c0 rest1)
    as (a & b & E).
  { rewrite Hstop. reflexivity. }
  rewrite E. exists (c0 :: a). split; [discriminate|].
  apply take_while_app in E. repeat split; auto.
Qed.

(* ------------------------------------------------------------ partition *)

(* Part p cs toks: cs, whose first character stands at offset p, is the
   concatenation of the tokens' character runs, in order, interleaved only
   with ignored characters; each token records the offset of its first
   character. *)
Inductive Part : Z -> list cchar -> list token -> Prop :=
| Part_nil p : Part p [] []
| Part_skip p sk cs toks :
    sk <> [] -> Forall (fun c => ign c = true) sk ->
    Part (p + Z.of_nat (length sk)) cs toks -> Part p (sk ++ cs) toks
| Part_tok p body cs t toks :
    body <> [] -> ttext t = chars_of body -> tpos t = p ->
    Part (p + Z.of_nat (length body)) cs toks -> Part p (body ++ cs) (t :: toks).

(* consecutive positions *)
Fixpoint consecutive (p : Z) (cs : list cchar) : Prop :=
  match cs with
  | [] => True
  | c :: cs' => cpos c = p /\ consecutive (p + 1) cs'
  end.

Lemma consecutive_app p a b :
  consecutive p (a ++ b) -> consecutive p a /\ consecutive (p + Z.of_nat (length a)) b.
Proof.
  revert p; induction a as [|c a IH]; intros p H.
  - simpl in *. rewrite Z.add_0_r. auto.
  - cbn [app consecutive] in H. destruct H as [H1 H2]. apply IH in H2. destruct H2 as [H2 H3].
    split; [split; assumption|].
    replace (p + Z.of_nat (length (c :: a))) with (p + 1 + Z.of_nat (length a)); [assumption|].
    cbn [length]. lia.
Qed.

Lemma categorize_from_consecutive p s : consecutive p (categorize_from p s).
Proof. revert p; induction s as [|c s IH]; intro p; simpl; auto. Qed.

Lemma app_length_lt {A} (a b : list A) : a <> [] -> (length b < length (a ++ b))%nat.
Proof. destruct a; [congruence|]. intros _. rewrite app_length. simpl. lia. Qed.

Lemma length_app_minus {A} (a b : list A) : (length (a ++ b) - length b)%nat = length a.
Proof. rewrite app_length. lia. Qed.

Theorem tokenize_loop_part fuel points idx pp pc prev rest :
  (length rest < fuel)%nat -> consecutive idx rest ->
  exists toks, tokenize_loop fuel points idx pp pc prev rest = (toks, TEnd) /\ Part idx rest toks.
Proof.
  revert idx pp pc prev rest.
  induction fuel as [|f IH]; intros idx pp pc prev rest Hf Hc; [lia|].
  destruct rest as [|c0 rest1].
  - exists []. split; [reflexivity | constructor].
  - cbn [tokenize_loop].
    pose proof (run_rules_progress (mkctx idx prev pp pc points) c0 rest1) as P.
    cbv zeta in P.
    destruct (run_rules Tables.rule_order (mkctx idx prev pp pc points) (c0 :: rest1))
      as [|t rest'|rest'|] eqn:E; try contradiction.
    + destruct P as (body & Hne & Hsplit & Htext & Hpos).
      rewrite Hsplit in *. rewrite length_app_minus.
      apply consecutive_app in Hc. destruct Hc as [Hc1 Hc2].
      destruct (IH (idx + Z.of_nat (length body)) (last_consumed (body ++ rest') rest')
                   (last_consumed (body ++ rest') rest') (Some t) rest') as (toks & Et & Pt).
      * pose proof (app_length_lt body rest' Hne). lia.
      * exact Hc2.
      * rewrite Et. exists (t :: toks). split; [reflexivity|].
        apply Part_tok; [exact Hne | exact Htext | | exact Pt].
        cbn [cx_idx] in Hpos. rewrite Hpos. destruct body as [|b0 body']; [congruence|].
        simpl. simpl in Hc1. tauto.
    + destruct P as (sk & Hne & Hsplit & Hall).
      rewrite Hsplit in *. rewrite length_app_minus.
      apply consecutive_app in Hc. destruct Hc as [Hc1 Hc2].
      destruct (IH (idx + Z.of_nat (length sk)) (last_consumed (sk ++ rest') rest')
                   (last_consumed (sk ++ rest') rest') prev rest') as (toks & Et & Pt).
      * pose proof (app_length_lt sk rest' Hne). lia.
      * exact Hc2.
      * rewrite Et. exists toks. split; [reflexivity|].
        apply Part_skip; assumption.
Qed.

(* TOK *)
Theorem tokenize_partition (s : str) :
  exists toks, tokens_of_string s = (toks, TEnd) /\ Part 0 (categorize s) toks.
Proof.
  unfold tokens_of_string, tokenize, tokenize_with, categorize.
  apply tokenize_loop_part; [lia | apply categorize_from_consecutive].
Qed.

(* ------------------------------------------- consequences at string level *)

(* `out` is `s` with some ignored characters deleted *)
Inductive DropIgnored : list cchar -> str -> Prop :=
| DI_nil : DropIgnored [] []
| DI_keep c cs out : DropIgnored cs out -> DropIgnored (c :: cs) (ch c :: out)
| DI_drop c cs out : ign c = true -> DropIgnored cs out -> DropIgnored (c :: cs) out.

Lemma DropIgnored_keep_all a cs out :
  DropIgnored cs out -> DropIgnored (a ++ cs) (chars_of a ++ out).
Proof. induction a; simpl; auto using DI_keep. Qed.

Lemma DropIgnored_drop_all a cs out :
  Forall (fun c => ign c = true) a -> DropIgnored cs out -> DropIgnored (a ++ cs) out.
Proof. induction 1; simpl; auto using DI_drop. Qed.

Lemma Part_concat p cs toks : Part p cs toks -> DropIgnored cs (concat (map ttext toks)).
Proof.
  induction 1; simpl.
  - constructor.
  - apply DropIgnored_drop_all; assumption.
  - rewrite H0. apply DropIgnored_keep_all. assumption.
Qed.

Lemma Part_nonempty p cs toks : Part p cs toks -> Forall (fun t => ttext t <> []) toks.
Proof.
  induction 1; auto. constructor; auto. rewrite H0. destruct body; [congruence|discriminate].
Qed.

(* a token's text is the slice of the input at its recorded offset *)
Definition slice (s : str) (p : Z) (n : nat) : str := firstn n (skipn (Z.to_nat p) s).

Lemma Part_slices_gen p cs toks :
  Part p cs toks -> (0 <= p) -> forall pre, Z.of_nat (length pre) = p ->
  Forall (fun t => slice (pre ++ chars_of cs) (tpos t) (length (ttext t)) = ttext t) toks.
Proof.
  induction 1; intros Hp pre Hpre.
  - constructor.
  - unfold chars_of in *. rewrite map_app, app_assoc. apply IHPart; [lia|].
    rewrite app_length, map_length. lia.
  - constructor.
    + unfold slice. rewrite H1, <- Hpre, Nat2Z.id. rewrite skipn_app, skipn_all, Nat.sub_diag.
      simpl. rewrite H0. unfold chars_of. rewrite map_app.
      rewrite firstn_app, firstn_all, map_length, Nat.sub_diag. simpl. apply app_nil_r.
    + unfold chars_of in *. rewrite map_app, app_assoc. apply IHPart; [lia|].
      rewrite app_length, map_length. lia.
Qed.

Lemma chars_of_categorize_from p s : chars_of (categorize_from p s) = s.
Proof. revert p; induction s as [|c s IH]; intro p; simpl; [reflexivity|]. f_equal. apply IH. Qed.

Theorem token_slices (s : str) toks e :
  tokens_of_string s = (toks, e) ->
  Forall (fun t => slice s (tpos t) (length (ttext t)) = ttext t) toks.
Proof.
  intro H. destruct (tokenize_partition s) as (toks' & E & P). rewrite E in H. inversion H; subst.
  pose proof (Part_slices_gen 0 (categorize s) toks P ltac:(lia) [] eq_refl) as Q.
  simpl in Q. unfold categorize in Q. rewrite chars_of_categorize_from in Q. exact Q.
Qed.

Theorem tokens_concat (s : str) toks e :
  tokens_of_string s = (toks, e) ->
  e = TEnd /\ DropIgnored (categorize s) (concat (map ttext toks)) /\
  Forall (fun t => ttext t <> []) toks.
Proof.
  intro H. destruct (tokenize_partition s) as (toks' & E & P). rewrite E in H. inversion H; subst.
  split; [reflexivity|]. split; [eapply Part_concat; eassumption | eapply Part_nonempty; eassumption].
Qed.

Lemma DropIgnored_none cs out :
  Forall (fun c => ign c = false) cs -> DropIgnored cs out -> out = chars_of cs.
Proof.
  intros F D. induction D; simpl.
  - reflexivity.
  - inversion F; subst. f_equal. auto.
  - inversion F; subst. congruence.
Qed.

(* without NUL/DEL the token texts concatenate to the input exactly *)
Theorem tokens_concat_exact (s : str) toks e :
  tokens_of_string s = (toks, e) ->
  Forall (fun c => ign c = false) (categorize s) ->
  concat (map ttext toks) = s.
Proof.
  intros H F. apply tokens_concat in H. destruct H as (_ & D & _).
  rewrite (DropIgnored_none _ _ F D). unfold categorize. apply chars_of_categorize_from.
Qed.
