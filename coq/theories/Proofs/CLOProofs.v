(* Proofs about the CharToLineOffset model (Model/CLO.v): for EVERY source and
   every offset 0 <= i <= length src (so in particular every in-range offset
   0..len-1), clo reports the number of LF among the first i characters as the
   line, and the length of the longest LF-free suffix of those i characters as
   the column.  No bound, by induction. *)
From Coq Require Import List NArith ZArith Bool Lia Arith.
From TexModel Require Import CLO.
Import ListNotations.
Open Scope Z_scope.

(* ------------------------------------------------------------------ spec *)

(* independent, first-principles definitions used to state the spec *)
Definition count_lf (l : list N) : Z := Z.of_nat (length (filter is_lf l)).

Fixpoint take_while {A} (p : A -> bool) (l : list A) : list A :=
  match l with
  | [] => []
  | x :: r => if p x then x :: take_while p r else []
  end.

Definition not_lf (c : N) : bool := negb (is_lf c).

(* the longest suffix of l that contains no LF *)
Definition lf_free_suffix (l : list N) : list N := rev (take_while not_lf (rev l)).

Definition column_of (l : list N) : Z := Z.of_nat (length (lf_free_suffix l)).

Definition clo_spec (src : list N) (i : Z) : Z * Z :=
  let before := firstn (Z.to_nat i) src in (count_lf before, column_of before).

(* sanity of the spec definitions: lf_free_suffix l really is a suffix, is
   LF-free, and is the longest such (what precedes it is empty or ends in LF) *)
Lemma take_while_split {A} (p : A -> bool) (l : list A) :
  exists rest, l = take_while p l ++ rest /\
               Forall (fun x => p x = true) (take_while p l) /\
               (rest = [] \/ exists y r, rest = y :: r /\ p y = false).
Proof.
  induction l as [|x r IH]; simpl.
  - exists []. repeat split; auto.
  - destruct (p x) eqn:Hp.
    + destruct IH as [rest [H1 [H2 H3]]]. exists rest. simpl. repeat split.
      * f_equal. exact H1.
      * constructor; assumption.
      * exact H3.
    + exists (x :: r). simpl. repeat split; auto. right. exists x, r. auto.
Qed.

Lemma lf_free_suffix_spec (l : list N) :
  exists pre, l = pre ++ lf_free_suffix l /\
              Forall (fun c => is_lf c = false) (lf_free_suffix l) /\
              (pre = [] \/ exists p, pre = p ++ [10%N]).
Proof.
  unfold lf_free_suffix.
  destruct (take_while_split not_lf (rev l)) as [rest [H1 [H2 H3]]].
  exists (rev rest). repeat split.
  - rewrite <- rev_app_distr, <- H1, rev_involutive. reflexivity.
  - apply Forall_rev. eapply Forall_impl; [|exact H2].
    intros c Hc. unfold not_lf in Hc. destruct (is_lf c); [discriminate|reflexivity].
  - destruct H3 as [-> | [y [r [-> Hy]]]]; [left; reflexivity|].
    right. exists (rev r). simpl. f_equal.
    unfold not_lf, is_lf in Hy. destruct (N.eqb y 10) eqn:E; [|discriminate].
    apply N.eqb_eq in E. subst y. reflexivity.
Qed.

(* --------------------------------------------------- spec defs on snoc *)

Lemma count_lf_nonneg l : 0 <= count_lf l.
Proof. unfold count_lf. lia. Qed.

Lemma count_lf_snoc l c :
  count_lf (l ++ [c]) = count_lf l + (if is_lf c then 1 else 0).
Proof.
  unfold count_lf. rewrite filter_app, app_length. simpl.
  destruct (is_lf c); simpl; lia.
Qed.

Lemma column_of_snoc l c :
  column_of (l ++ [c]) = if is_lf c then 0 else column_of l + 1.
Proof.
  unfold column_of, lf_free_suffix. rewrite rev_app_distr. simpl.
  unfold not_lf at 1. destruct (is_lf c); simpl.
  - reflexivity.
  - rewrite app_length, !rev_length. simpl. lia.
Qed.

Lemma column_of_no_lf l : count_lf l = 0 -> column_of l = Z.of_nat (length l).
Proof.
  induction l as [|c l IH] using rev_ind; intros H.
  - reflexivity.
  - rewrite count_lf_snoc in H. rewrite column_of_snoc, app_length. simpl.
    pose proof (count_lf_nonneg l) as Hn.
    destruct (is_lf c); [lia|]. rewrite IH by lia. lia.
Qed.

(* -------------------------------------------------------- line_breaks *)

Lemma lb_app a b k :
  line_breaks_from (a ++ b) k =
  line_breaks_from a k ++ line_breaks_from b (k + Z.of_nat (length a)).
Proof.
  revert k. induction a as [|c a IH]; intros k.
  - simpl. rewrite Z.add_0_r. reflexivity.
  - cbn [app line_breaks_from length]. rewrite IH.
    replace (k + 1 + Z.of_nat (length a)) with (k + Z.of_nat (S (length a))) by lia.
    destruct (is_lf c); reflexivity.
Qed.

Lemma lb_range a k :
  Forall (fun x => k <= x < k + Z.of_nat (length a)) (line_breaks_from a k).
Proof.
  revert k. induction a as [|c a IH]; intros k; cbn [line_breaks_from length].
  - constructor.
  - assert (Hr : Forall (fun x => k <= x < k + Z.of_nat (S (length a)))
                        (line_breaks_from a (k + 1))).
    { eapply Forall_impl; [|apply IH]. cbv beta. intros x Hx. lia. }
    destruct (is_lf c); [constructor; [lia|exact Hr] | exact Hr].
Qed.

Lemma lb_length a k :
  Z.of_nat (length (line_breaks_from a k)) = count_lf a.
Proof.
  unfold count_lf. revert k. induction a as [|c a IH]; intros k; cbn [line_breaks_from filter].
  - reflexivity.
  - destruct (is_lf c); cbn [length]; rewrite ?Nat2Z.inj_succ, IH; reflexivity.
Qed.

(* line_break_positions is strictly increasing: bisect_left (count of smaller
   elements) is the genuine insertion point *)
Inductive increasing : list Z -> Prop :=
| inc_nil : increasing []
| inc_cons x l : Forall (fun y => x < y) l -> increasing l -> increasing (x :: l).

Lemma line_breaks_sorted a k : increasing (line_breaks_from a k).
Proof.
  revert k. induction a as [|c a IH]; intros k; cbn [line_breaks_from].
  - constructor.
  - destruct (is_lf c); [|apply IH]. constructor; [|apply IH].
    eapply Forall_impl; [|apply lb_range]. cbv beta. intros; lia.
Qed.

Lemma bisect_left_insertion_point l x :
  increasing l ->
  Forall (fun y => y < x) (firstn (bisect_left l x) l) /\
  Forall (fun y => x <= y) (skipn (bisect_left l x) l).
Proof.
  induction 1 as [|y l Hy Hinc IH]; simpl.
  - split; constructor.
  - destruct (y <? x) eqn:E.
    + apply Z.ltb_lt in E. destruct IH as [I1 I2]. split; [constructor; assumption|exact I2].
    + apply Z.ltb_ge in E.
      assert (Hall : Forall (fun z => x <= z) l).
      { eapply Forall_impl; [|exact Hy]. cbv beta. intros; lia. }
      assert (H0 : bisect_left l x = O).
      { clear -Hall. induction Hall as [|z l Hz _ IHl]; simpl; [reflexivity|].
        destruct (z <? x) eqn:E2; [apply Z.ltb_lt in E2; lia|exact IHl]. }
      rewrite H0. simpl. split; [constructor|constructor; assumption].
Qed.

(* ------------------------------------------------------------- bisect *)

Lemma bisect_app a b x :
  bisect_left (a ++ b) x = (bisect_left a x + bisect_left b x)%nat.
Proof.
  induction a as [|y a IH]; simpl; [reflexivity|].
  destruct (y <? x); rewrite IH; reflexivity.
Qed.

Lemma bisect_all_lt l x : Forall (fun y => y < x) l -> bisect_left l x = length l.
Proof.
  induction 1 as [|y l Hy _ IH]; simpl; [reflexivity|].
  destruct (y <? x) eqn:E; [rewrite IH; reflexivity|apply Z.ltb_ge in E; lia].
Qed.

Lemma bisect_all_ge l x : Forall (fun y => x <= y) l -> bisect_left l x = O.
Proof.
  induction 1 as [|y l Hy _ IH]; simpl; [reflexivity|].
  destruct (y <? x) eqn:E; [apply Z.ltb_lt in E; lia|exact IH].
Qed.

(* --------------------------------------------------- the last line break *)

Lemma last_lb a k d :
  0 < count_lf a ->
  last (line_breaks_from a k) d = k + Z.of_nat (length a) - 1 - column_of a.
Proof.
  induction a as [|c a IH] using rev_ind; intros Hpos.
  - unfold count_lf in Hpos. simpl in Hpos. lia.
  - rewrite lb_app, column_of_snoc, app_length. rewrite count_lf_snoc in Hpos.
    cbn [line_breaks_from length]. destruct (is_lf c).
    + rewrite last_last. lia.
    + rewrite app_nil_r, IH by lia. lia.
Qed.

Lemma nth_pred_length_last (l : list Z) d :
  l <> [] -> nth (length l - 1) l d = last l d.
Proof.
  intros Hne. destruct (exists_last Hne) as [l' [z ->]].
  rewrite last_last, app_length. simpl.
  replace (length l' + 1 - 1)%nat with (length l') by lia.
  rewrite app_nth2 by lia. rewrite Nat.sub_diag. reflexivity.
Qed.

(* ------------------------------------------------------------ main proof *)

Theorem clo_correct_le (src : list N) (i : Z) :
  0 <= i <= Z.of_nat (length src) -> clo src i = clo_spec src i.
Proof.
  intros Hi. unfold clo_spec.
  set (a := firstn (Z.to_nat i) src). set (b := skipn (Z.to_nat i) src).
  assert (Hsrc : src = a ++ b) by (symmetry; apply firstn_skipn).
  assert (Hla : Z.of_nat (length a) = i).
  { unfold a. rewrite firstn_length. lia. }
  clearbody a b. subst src. clear Hi.
  unfold clo, line_breaks. cbv zeta.
  rewrite app_length, Nat2Z.inj_add, Hla.
  rewrite lb_app, Hla, Z.add_0_l.
  set (A := line_breaks_from a 0). set (B := line_breaks_from b i).
  assert (HA : Forall (fun y => y < i) A).
  { eapply Forall_impl; [|apply lb_range]. cbv beta. intros; lia. }
  assert (HB : Forall (fun y => i <= y) B).
  { eapply Forall_impl; [|apply lb_range]. cbv beta. intros; lia. }
  rewrite bisect_app, (bisect_all_lt _ _ HA), (bisect_all_ge _ _ HB), Nat.add_0_r.
  assert (HlA : Z.of_nat (length A) = count_lf a) by apply lb_length.
  rewrite HlA.
  destruct (count_lf a =? 0) eqn:E0.
  - apply Z.eqb_eq in E0. rewrite column_of_no_lf by exact E0. rewrite E0, Hla. reflexivity.
  - apply Z.eqb_neq in E0. pose proof (count_lf_nonneg a) as Hnn.
    assert (Hpos : 0 < count_lf a) by lia.
    assert (HAne : A <> []).
    { intros HAe. rewrite HAe in HlA. simpl in HlA. lia. }
    assert (Hlast : last A 0 = i - 1 - column_of a).
    { unfold A. rewrite last_lb by exact Hpos. lia. }
    rewrite app_length, Nat2Z.inj_add, HlA.
    destruct (count_lf a =? count_lf a + Z.of_nat (length B)) eqn:E1.
    + apply Z.eqb_eq in E1. assert (HBe : B = []).
      { destruct B; [reflexivity|simpl in E1; lia]. }
      rewrite HBe, app_nil_r. unfold py_last. rewrite Hlast. f_equal. lia.
    + unfold py_nth. f_equal.
      replace (Z.to_nat (count_lf a - 1)) with (length A - 1)%nat by lia.
      rewrite app_nth1 by lia.
      rewrite nth_pred_length_last by exact HAne. rewrite Hlast. lia.
Qed.

(* The property's clause: every in-range offset. *)
Theorem clo_correct (src : list N) (i : Z) :
  0 <= i < Z.of_nat (length src) -> clo src i = clo_spec src i.
Proof. intros Hi. apply clo_correct_le. lia. Qed.

(* An LF character itself is reported on the line it ends (its line number does
   not count itself), at the column just after the last character of that line;
   the next offset is column 0 of the next line. *)
Lemma firstn_succ_nth (l : list N) (n : nat) c :
  nth_error l n = Some c -> firstn (S n) l = firstn n l ++ [c].
Proof.
  revert n. induction l as [|x l IH]; intros [|n] H; simpl in *; try discriminate.
  - injection H as ->. reflexivity.
  - rewrite (IH n H). reflexivity.
Qed.

Theorem clo_step (src : list N) (i : Z) c :
  0 <= i -> nth_error src (Z.to_nat i) = Some c ->
  clo src (i + 1) =
  if is_lf c then (fst (clo src i) + 1, 0) else (fst (clo src i), snd (clo src i) + 1).
Proof.
  intros Hi Hc.
  assert (Hlt : (Z.to_nat i < length src)%nat) by (apply nth_error_Some; congruence).
  rewrite !clo_correct_le by lia. unfold clo_spec.
  replace (Z.to_nat (i + 1)) with (S (Z.to_nat i)) by lia.
  rewrite (firstn_succ_nth _ _ _ Hc), count_lf_snoc, column_of_snoc. simpl.
  destruct (is_lf c); rewrite ?Z.add_0_r; reflexivity.
Qed.

Theorem clo_lf_on_line_it_ends (src : list N) (i : Z) :
  0 <= i -> nth_error src (Z.to_nat i) = Some 10%N ->
  clo src i = (count_lf (firstn (Z.to_nat i) src), column_of (firstn (Z.to_nat i) src)) /\
  clo src (i + 1) = (fst (clo src i) + 1, 0).
Proof.
  intros Hi Hc.
  assert (Hlt : (Z.to_nat i < length src)%nat) by (apply nth_error_Some; congruence).
  split; [apply clo_correct; lia|].
  rewrite (clo_step src i 10%N Hi Hc). reflexivity.
Qed.

Lemma clo_zero src : clo src 0 = (0, 0).
Proof. rewrite clo_correct_le by lia. reflexivity. Qed.

(* ----------------------------------------------------------- examples *)

(* "ab\ncd\n\ne": offsets 0..8 *)
Definition ex_src : list N := [97; 98; 10; 99; 100; 10; 10; 101]%N.

Example clo_example :
  map (clo ex_src) [0; 1; 2; 3; 4; 5; 6; 7] =
  [(0, 0); (0, 1); (0, 2); (1, 0); (1, 1); (1, 2); (2, 0); (3, 0)].
Proof. vm_compute. reflexivity. Qed.

Example clo_spec_example :
  map (clo_spec ex_src) [0; 1; 2; 3; 4; 5; 6; 7] = map (clo ex_src) [0; 1; 2; 3; 4; 5; 6; 7].
Proof. vm_compute. reflexivity. Qed.

(* hypotheses of clo_correct / clo_lf_on_line_it_ends are satisfiable *)
Example clo_correct_hyp : 0 <= 5 < Z.of_nat (length ex_src) /\
                          nth_error ex_src (Z.to_nat 5) = Some 10%N.
Proof. split; [cbn; lia|reflexivity]. Qed.

Example clo_lf_example : clo ex_src 5 = (1, 2) /\ clo ex_src 6 = (2, 0).
Proof. vm_compute. split; reflexivity. Qed.

Example run_clo_example : run_clo [4; 97; 98; 10; 99; 100; 10] = [1; 1].
Proof. vm_compute. reflexivity. Qed.

(* no Props file is assigned to this clause of C13; the closure check is here *)
Print Assumptions clo_correct.
Print Assumptions clo_correct_le.
Print Assumptions clo_step.
Print Assumptions clo_lf_on_line_it_ends.
Print Assumptions bisect_left_insertion_point.
Print Assumptions lf_free_suffix_spec.
