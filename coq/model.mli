
val negb : bool -> bool

type nat =
| O
| S of nat

val length : 'a1 list -> nat

val app : 'a1 list -> 'a1 list -> 'a1 list

type comparison =
| Eq
| Lt
| Gt

val compOpp : comparison -> comparison

val add : nat -> nat -> nat

val mul : nat -> nat -> nat

val sub : nat -> nat -> nat

module Nat :
 sig
  val leb : nat -> nat -> bool

  val ltb : nat -> nat -> bool

  val max : nat -> nat -> nat

  val min : nat -> nat -> nat
 end

val nth_error : 'a1 list -> nat -> 'a1 option

val rev : 'a1 list -> 'a1 list

val concat : 'a1 list list -> 'a1 list

val map : ('a1 -> 'a2) -> 'a1 list -> 'a2 list

val fold_right : ('a2 -> 'a1 -> 'a1) -> 'a1 -> 'a2 list -> 'a1

val existsb : ('a1 -> bool) -> 'a1 list -> bool

val firstn : nat -> 'a1 list -> 'a1 list

val skipn : nat -> 'a1 list -> 'a1 list

type positive =
| XI of positive
| XO of positive
| XH

type n =
| N0
| Npos of positive

type z =
| Z0
| Zpos of positive
| Zneg of positive

module Pos :
 sig
  val succ : positive -> positive

  val add : positive -> positive -> positive

  val add_carry : positive -> positive -> positive

  val pred_double : positive -> positive

  val compare_cont : comparison -> positive -> positive -> comparison

  val compare : positive -> positive -> comparison

  val eqb : positive -> positive -> bool

  val of_succ_nat : nat -> positive
 end

module N :
 sig
  val eqb : n -> n -> bool
 end

module Z :
 sig
  val double : z -> z

  val succ_double : z -> z

  val pred_double : z -> z

  val pos_sub : positive -> positive -> z

  val add : z -> z -> z

  val opp : z -> z

  val sub : z -> z -> z

  val compare : z -> z -> comparison

  val ltb : z -> z -> bool

  val eqb : z -> z -> bool

  val of_nat : nat -> z
 end

type cc =
| CEscape
| CGroupBegin
| CGroupEnd
| CMathSwitch
| CAlignment
| CEndOfLine
| CMacro
| CSuperscript
| CSubscript
| CIgnored
| CSpacer
| CLetter
| COther
| CActive
| CComment
| CInvalid
| CMathGroupBegin
| CMathGroupEnd
| CBracketBegin
| CBracketEnd
| CParenBegin
| CParenEnd

type tc =
| TEscape
| TGroupBegin
| TGroupEnd
| TComment
| TMergedSpacer
| TEscapedComment
| TMathSwitch
| TDisplayMathSwitch
| TMathGroupBegin
| TMathGroupEnd
| TDisplayMathGroupBegin
| TDisplayMathGroupEnd
| TLineBreak
| TCommandName
| TText
| TBracketBegin
| TBracketEnd
| TParenBegin
| TParenEnd
| TPunctuationCommandName
| TSizeCommand
| TSpacer

type rule_id =
| R_escaped_symbols
| R_comment
| R_math_sym_switch
| R_math_asym_switch
| R_line_break
| R_ignore
| R_spacers
| R_symbols
| R_punctuation_command_name
| R_command_name
| R_string

type mathkind =
| MInline
| MDisplay
| MParen
| MBracket

type groupkind =
| GBrace
| GBracket

val cc_beq : cc -> cc -> bool

val tc_beq : tc -> tc -> bool

val mathkind_beq : mathkind -> mathkind -> bool

val groupkind_beq : groupkind -> groupkind -> bool

type str = n list

val str_eqb : str -> str -> bool

val mem_cc : cc -> cc list -> bool

val mem_N : n -> n list -> bool

val mem_str : str -> str list -> bool

val starts_with : str -> str -> bool

val assoc_str : str -> (str * 'a1) list -> 'a1 option

module Tables :
 sig
  val category_table : (cc * n list) list

  val cc_value : cc -> n

  val tc_value : tc -> n

  val rule_order : rule_id list

  val escaped_second_cats : cc list

  val asym_map : ((cc * cc) * tc) list

  val ignore_cats : cc list

  val spacer_rollback_cats : cc list

  val symbols_map : (cc * tc) list

  val string_stop_cats : cc list

  val skip_env_names : n list list

  val math_env_names : n list list

  val special_commands : n list list

  val punctuation_commands : n list list

  val signatures : (n list * (z * z)) list

  val math_classes :
    (mathkind * ((tc * tc) * ((n list * n list) * n list))) list

  val group_classes :
    (groupkind * ((tc * tc) * ((n list * n list) * n list))) list

  val py_whitespace : n list
 end

type cchar = { ch : n; cpos : z; ccat : cc }

val lookup_cat : (cc * n list) list -> n -> cc option

val categorize_char : n -> cc

val categorize_from : z -> str -> cchar list

val categorize : str -> cchar list

val chars_of : cchar list -> str

type token = { ttext : str; tpos : z; tcat : tc }

type rres =
| RNone
| RTok of token * cchar list
| RSkip of cchar list
| RErr

val take_while : (cchar -> bool) -> cchar list -> cchar list * cchar list

val is_cat : cc -> cchar -> bool

val mk_tok : cchar list -> z -> tc -> token

val rule_escaped_symbols : cchar list -> rres

val comment_allowed : token option -> bool

val rule_comment : token option -> cchar list -> rres

val rule_math_sym_switch : cchar list -> rres

val lookup_asym : ((cc * cc) * tc) list -> cc -> cc -> tc option

val rule_math_asym_switch : cchar list -> rres

val rule_line_break : cchar list -> rres

val rule_ignore : cchar list -> rres

val rule_spacers : z -> cchar list -> rres

val lookup_sym : (cc * tc) list -> cc -> tc option

val rule_symbols : cchar list -> rres

val prev_is_escape : cchar option -> bool

val find_point : str list -> str -> str option

val rule_punctuation : str list -> cchar option -> cchar list -> rres

val star : n

val rule_command_name : cchar option -> cchar list -> rres

val rule_string : z -> cchar list -> rres

type rctx = { cx_idx : z; cx_prev : token option;
              cx_prevc_punct : cchar option; cx_prevc_cmd : cchar option;
              cx_points : str list }

val run_rule : rule_id -> rctx -> cchar list -> rres

val run_rules : rule_id list -> rctx -> cchar list -> rres

val max_point_len : str list -> nat

val start_prev_punct : cchar list -> cchar option

val start_prev_cmd : str list -> cchar list -> cchar option

type tok_end =
| TEnd
| TEndErr
| TEndHang
| TEndFuel

val last_consumed : cchar list -> cchar list -> cchar option

val tokenize_loop :
  nat -> str list -> z -> cchar option -> cchar option -> token option ->
  cchar list -> token list * tok_end

val tokenize_with : str list -> cchar list -> token list * tok_end

val tokenize : cchar list -> token list * tok_end

val tokens_of_string : str -> token list * tok_end

type expr =
| EText of token
| ERaw of str * z
| EStr of str
| ECmd of str * expr list * expr list * z
| ENamed of str * expr list * expr list * z
| EMath of mathkind * expr list * z
| EGroup of groupkind * expr list * z
| ERoot of expr list

val lookup_mk : mathkind -> (mathkind * 'a1) list -> 'a1 option

val lookup_gk : groupkind -> (groupkind * 'a1) list -> 'a1 option

val math_begin : mathkind -> str

val math_end : mathkind -> str

val math_tok_end : mathkind -> tc option

val group_begin : groupkind -> str

val group_end : groupkind -> str

val group_tok_end : groupkind -> tc option

val backslash : n

val s_begin_open : str

val s_end_open : str

val s_close : str

val env_begin : str -> str

val env_end : str -> str

val estr : expr -> str

val estr_list : expr list -> str

val arg_string : expr -> str

val is_ws : n -> bool

val lstrip : str -> str

val strip : str -> str

type err =
| EOFError
| TypeError
| AssertionError
| StopIteration
| KeyError
| TokenizerError
| OutOfFuel

type 'a res =
| Ok of 'a
| Err of err

val bind : 'a1 res -> ('a1 -> 'a2 res) -> 'a2 res

type mode =
| MNonMath
| MMath
| MSpecial

val mode_is_math : mode -> bool

val mode_is_special : mode -> bool

val s_item : str

val s_begin : str

val s_end : str

val is_tc : tc -> token -> bool

val math_kind_of_begin_in :
  (mathkind * ((tc * tc) * ((str * str) * str))) list -> tc -> mathkind option

val math_kind_of_begin : tc -> mathkind option

val group_kind_of_begin_in :
  (groupkind * ((tc * tc) * ((str * str) * str))) list -> tc -> groupkind
  option

val group_kind_of_begin : tc -> groupkind option

val is_group_end : groupkind -> token -> bool

val is_math_end : mathkind -> token -> bool

val read_spacer : token list -> bool * token list

val signature_of : str -> z * z

val texts : token list -> str

val skip_scan : str -> str -> token list -> str * token list

val read_skip_env :
  str -> expr list -> z -> token list -> (expr * token list) res

val read_expr :
  nat -> str list -> bool -> mode -> token list -> (expr * token list) res

val read_item_loop :
  nat -> expr list -> token list -> (expr list * token list) res

val read_math_loop :
  nat -> mathkind -> z -> bool -> expr list -> token list -> (expr * token
  list) res

val read_env_loop :
  nat -> str -> expr list -> z -> str list -> bool -> mode -> expr list ->
  token list -> (expr * token list) res

val read_command :
  nat -> z -> z -> nat -> bool -> mode -> token list -> ((str * expr
  list) * token list) res

val read_args :
  nat -> z -> z -> bool -> mode -> token list -> (expr list * token list) res

val read_arg_optional :
  nat -> expr list -> z -> bool -> mode -> token list -> ((expr
  list * z) * token list) res

val read_arg_required :
  nat -> expr list -> z -> bool -> mode -> token list -> ((expr
  list * z) * token list) res

val read_arg :
  nat -> token -> bool -> mode -> token list -> (expr * token list) res

val read_arg_loop :
  nat -> groupkind -> z -> bool -> mode -> expr list -> token list ->
  (expr * token list) res

val read_tex_loop :
  nat -> nat -> str list -> bool -> expr list -> token list -> expr list res

val fuel_for : token list -> nat

val parse_tokens : token list -> bool -> str list -> expr res

val parse : str -> bool -> str list -> expr res

val run_clo : z list -> z list

val run_buf : z list -> z list

val run_args : z list -> z list

val run_view : z list -> z list

val run_edit : z list -> z list
