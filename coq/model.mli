
val negb : bool -> bool

type nat =
| O
| S of nat

val option_map : ('a1 -> 'a2) -> 'a1 option -> 'a2 option

val fst : ('a1 * 'a2) -> 'a1

val snd : ('a1 * 'a2) -> 'a2

val length : 'a1 list -> nat

val app : 'a1 list -> 'a1 list -> 'a1 list

type comparison =
| Eq
| Lt
| Gt

val compOpp : comparison -> comparison

val pred : nat -> nat

val add : nat -> nat -> nat

val mul : nat -> nat -> nat

val sub : nat -> nat -> nat

module Nat :
 sig
  val eqb : nat -> nat -> bool

  val leb : nat -> nat -> bool

  val ltb : nat -> nat -> bool

  val max : nat -> nat -> nat

  val min : nat -> nat -> nat
 end

val nth : nat -> 'a1 list -> 'a1 -> 'a1

val nth_error : 'a1 list -> nat -> 'a1 option

val last : 'a1 list -> 'a1 -> 'a1

val removelast : 'a1 list -> 'a1 list

val rev : 'a1 list -> 'a1 list

val concat : 'a1 list list -> 'a1 list

val map : ('a1 -> 'a2) -> 'a1 list -> 'a2 list

val flat_map : ('a1 -> 'a2 list) -> 'a1 list -> 'a2 list

val fold_left : ('a1 -> 'a2 -> 'a1) -> 'a2 list -> 'a1 -> 'a1

val fold_right : ('a2 -> 'a1 -> 'a1) -> 'a1 -> 'a2 list -> 'a1

val existsb : ('a1 -> bool) -> 'a1 list -> bool

val forallb : ('a1 -> bool) -> 'a1 list -> bool

val filter : ('a1 -> bool) -> 'a1 list -> 'a1 list

val find : ('a1 -> bool) -> 'a1 list -> 'a1 option

val firstn : nat -> 'a1 list -> 'a1 list

val skipn : nat -> 'a1 list -> 'a1 list

type positive =
| XI of positive
| XO of positive
| XH

type n =
| N0
| Npos of positive

type z =
| Z0
| Zpos of positive
| Zneg of positive

module Pos :
 sig
  val succ : positive -> positive

  val add : positive -> positive -> positive

  val add_carry : positive -> positive -> positive

  val pred_double : positive -> positive

  val compare_cont : comparison -> positive -> positive -> comparison

  val compare : positive -> positive -> comparison

  val eqb : positive -> positive -> bool

  val iter_op : ('a1 -> 'a1 -> 'a1) -> positive -> 'a1 -> 'a1

  val to_nat : positive -> nat

  val of_succ_nat : nat -> positive
 end

module N :
 sig
  val eqb : n -> n -> bool
 end

module Z :
 sig
  val double : z -> z

  val succ_double : z -> z

  val pred_double : z -> z

  val pos_sub : positive -> positive -> z

  val add : z -> z -> z

  val opp : z -> z

  val sub : z -> z -> z

  val compare : z -> z -> comparison

  val leb : z -> z -> bool

  val ltb : z -> z -> bool

  val eqb : z -> z -> bool

  val max : z -> z -> z

  val min : z -> z -> z

  val to_nat : z -> nat

  val to_N : z -> n

  val of_nat : nat -> z

  val of_N : n -> z
 end

type cc =
| CEscape
| CGroupBegin
| CGroupEnd
| CMathSwitch
| CAlignment
| CEndOfLine
| CMacro
| CSuperscript
| CSubscript
| CIgnored
| CSpacer
| CLetter
| COther
| CActive
| CComment
| CInvalid
| CMathGroupBegin
| CMathGroupEnd
| CBracketBegin
| CBracketEnd
| CParenBegin
| CParenEnd

type tc =
| TEscape
| TGroupBegin
| TGroupEnd
| TComment
| TMergedSpacer
| TEscapedComment
| TMathSwitch
| TDisplayMathSwitch
| TMathGroupBegin
| TMathGroupEnd
| TDisplayMathGroupBegin
| TDisplayMathGroupEnd
| TLineBreak
| TCommandName
| TText
| TBracketBegin
| TBracketEnd
| TParenBegin
| TParenEnd
| TPunctuationCommandName
| TSizeCommand
| TSpacer

type rule_id =
| R_escaped_symbols
| R_comment
| R_math_sym_switch
| R_math_asym_switch
| R_line_break
| R_ignore
| R_spacers
| R_symbols
| R_punctuation_command_name
| R_command_name
| R_string

type mathkind =
| MInline
| MDisplay
| MParen
| MBracket

type groupkind =
| GBrace
| GBracket

val cc_beq : cc -> cc -> bool

val tc_beq : tc -> tc -> bool

val mathkind_beq : mathkind -> mathkind -> bool

val groupkind_beq : groupkind -> groupkind -> bool

type str = n list

val str_eqb : str -> str -> bool

val mem_cc : cc -> cc list -> bool

val mem_N : n -> n list -> bool

val mem_str : str -> str list -> bool

val starts_with : str -> str -> bool

val assoc_str : str -> (str * 'a1) list -> 'a1 option

module Tables :
 sig
  val category_table : (cc * n list) list

  val cc_value : cc -> n

  val tc_value : tc -> n

  val rule_order : rule_id list

  val escaped_second_cats : cc list

  val asym_map : ((cc * cc) * tc) list

  val ignore_cats : cc list

  val spacer_rollback_cats : cc list

  val symbols_map : (cc * tc) list

  val string_stop_cats : cc list

  val skip_env_names : n list list

  val math_env_names : n list list

  val special_commands : n list list

  val punctuation_commands : n list list

  val signatures : (n list * (z * z)) list

  val math_classes :
    (mathkind * ((tc * tc) * ((n list * n list) * n list))) list

  val group_classes :
    (groupkind * ((tc * tc) * ((n list * n list) * n list))) list

  val py_whitespace : n list

  val dir_texnode : n list list
 end

type cchar = { ch : n; cpos : z; ccat : cc }

val lookup_cat : (cc * n list) list -> n -> cc option

val categorize_char : n -> cc

val categorize_from : z -> str -> cchar list

val categorize : str -> cchar list

val chars_of : cchar list -> str

type token = { ttext : str; tpos : z; tcat : tc }

type rres =
| RNone
| RTok of token * cchar list
| RSkip of cchar list
| RErr

val take_while : (cchar -> bool) -> cchar list -> cchar list * cchar list

val is_cat : cc -> cchar -> bool

val mk_tok : cchar list -> z -> tc -> token

val rule_escaped_symbols : cchar list -> rres

val comment_allowed : token option -> bool

val rule_comment : token option -> cchar list -> rres

val rule_math_sym_switch : cchar list -> rres

val lookup_asym : ((cc * cc) * tc) list -> cc -> cc -> tc option

val rule_math_asym_switch : cchar list -> rres

val rule_line_break : cchar list -> rres

val rule_ignore : cchar list -> rres

val rule_spacers : z -> cchar list -> rres

val lookup_sym : (cc * tc) list -> cc -> tc option

val rule_symbols : cchar list -> rres

val prev_is_escape : cchar option -> bool

val find_point : str list -> str -> str option

val rule_punctuation : str list -> cchar option -> cchar list -> rres

val star : n

val rule_command_name : cchar option -> cchar list -> rres

val rule_string : z -> cchar list -> rres

type rctx = { cx_idx : z; cx_prev : token option;
              cx_prevc_punct : cchar option; cx_prevc_cmd : cchar option;
              cx_points : str list }

val run_rule : rule_id -> rctx -> cchar list -> rres

val run_rules : rule_id list -> rctx -> cchar list -> rres

val max_point_len : str list -> nat

val start_prev_punct : cchar list -> cchar option

val start_prev_cmd : str list -> cchar list -> cchar option

type tok_end =
| TEnd
| TEndErr
| TEndHang
| TEndFuel

val last_consumed : cchar list -> cchar list -> cchar option

val tokenize_loop :
  nat -> str list -> z -> cchar option -> cchar option -> token option ->
  cchar list -> token list * tok_end

val tokenize_with : str list -> cchar list -> token list * tok_end

val tokenize : cchar list -> token list * tok_end

val tokens_of_string : str -> token list * tok_end

type expr =
| EText of token
| ERaw of str * z
| EStr of str
| ECmd of str * expr list * expr list * z
| ENamed of str * expr list * expr list * z
| EMath of mathkind * expr list * z
| EGroup of groupkind * expr list * z
| ERoot of expr list

val lookup_mk : mathkind -> (mathkind * 'a1) list -> 'a1 option

val lookup_gk : groupkind -> (groupkind * 'a1) list -> 'a1 option

val math_begin : mathkind -> str

val math_end : mathkind -> str

val math_name : mathkind -> str

val math_tok_end : mathkind -> tc option

val group_begin : groupkind -> str

val group_end : groupkind -> str

val group_name : groupkind -> str

val group_tok_end : groupkind -> tc option

val backslash : n

val s_begin_open : str

val s_end_open : str

val s_close : str

val env_begin : str -> str

val env_end : str -> str

val estr : expr -> str

val estr_list : expr list -> str

val arg_string : expr -> str

val is_ws : n -> bool

val lstrip : str -> str

val strip : str -> str

type err =
| EOFError
| TypeError
| AssertionError
| StopIteration
| KeyError
| TokenizerError
| OutOfFuel

type 'a res =
| Ok of 'a
| Err of err

val bind : 'a1 res -> ('a1 -> 'a2 res) -> 'a2 res

type mode =
| MNonMath
| MMath
| MSpecial

val mode_is_math : mode -> bool

val mode_is_special : mode -> bool

val s_item : str

val s_begin : str

val s_end : str

val is_tc : tc -> token -> bool

val math_kind_of_begin_in :
  (mathkind * ((tc * tc) * ((str * str) * str))) list -> tc -> mathkind option

val math_kind_of_begin : tc -> mathkind option

val group_kind_of_begin_in :
  (groupkind * ((tc * tc) * ((str * str) * str))) list -> tc -> groupkind
  option

val group_kind_of_begin : tc -> groupkind option

val is_group_end : groupkind -> token -> bool

val is_math_end : mathkind -> token -> bool

val read_spacer : token list -> bool * token list

val signature_of : str -> z * z

val texts : token list -> str

val skip_scan : str -> str -> token list -> str * token list

val read_skip_env :
  str -> expr list -> z -> token list -> (expr * token list) res

val read_expr :
  nat -> str list -> bool -> mode -> token list -> (expr * token list) res

val read_item_loop :
  nat -> expr list -> token list -> (expr list * token list) res

val read_math_loop :
  nat -> mathkind -> z -> bool -> expr list -> token list -> (expr * token
  list) res

val read_env_loop :
  nat -> str -> expr list -> z -> str list -> bool -> mode -> expr list ->
  token list -> (expr * token list) res

val read_command :
  nat -> z -> z -> nat -> bool -> mode -> token list -> ((str * expr
  list) * token list) res

val read_args :
  nat -> z -> z -> bool -> mode -> token list -> (expr list * token list) res

val read_arg_optional :
  nat -> expr list -> z -> bool -> mode -> token list -> ((expr
  list * z) * token list) res

val read_arg_required :
  nat -> expr list -> z -> bool -> mode -> token list -> ((expr
  list * z) * token list) res

val read_arg :
  nat -> token -> bool -> mode -> token list -> (expr * token list) res

val read_arg_loop :
  nat -> groupkind -> z -> bool -> mode -> expr list -> token list ->
  (expr * token list) res

val read_tex_loop :
  nat -> nat -> str list -> bool -> expr list -> token list -> expr list res

val fuel_for : token list -> nat

val parse_tokens : token list -> bool -> str list -> expr res

val parse : str -> bool -> str list -> expr res

val is_lf : n -> bool

val line_breaks_from : n list -> z -> z list

val line_breaks : n list -> z list

val bisect_left : z list -> z -> nat

val py_last : z list -> z

val py_nth : z list -> z -> z

val clo : n list -> z -> z * z

val run_clo : z list -> z list

type exn =
| StopIteration0
| IndexError
| AssertionError0
| AttributeError
| OutOfFuel0

type out =
| OItem of z
| ONone
| OItems of z list
| OBool of bool
| OInt of z
| OExc of exn

type state = { items : z list; mat : nat; cursor : z }

val init_state : z list -> state

val queue : state -> z list

val set_cursor : state -> z -> state

val py_index : z list -> z -> out

val norm_idx : z -> z option -> z -> z

val py_slice : z list -> z option -> z option -> z list

val next_raw : state -> state * out

val bound_ok : z -> z option -> bool

val advance : nat -> state -> z option -> state * exn option

val advance_fuel : state -> nat

val getitem_int : state -> z -> state * out

val getitem_slice : state -> z option -> z option -> state * out

val catch_index : (state * out) -> state * out

val peek_int : state -> z -> state * out

val peek_range : state -> z -> z -> state * out

val truthy : out -> bool

val has_next : state -> z -> state * out

val forward_pos : state -> z -> state * out

val backward_pos : state -> z -> state * out

val forward : state -> z -> state * out

val backward : state -> z -> state * out

val is_prefix : z list -> z list -> bool

val is_suffix : z list -> z list -> bool

val starts_with0 : state -> z list -> state * out

val ends_with : state -> z list -> state * out

val pred0 : z -> z -> bool

val pred_none : z -> bool

val cond_holds : z -> out -> bool

val scan :
  nat -> state -> z -> z list -> z -> ((state * exn option) * z list) * z

val scan_fuel : state -> nat

val forward_until : state -> z -> state * out

val list_eqb : z list -> z list -> bool

val num_forward_until : state -> z -> state * out

type op =
| Next
| HasNext of z
| Peek of z
| PeekR of z * z
| Forward of z
| Backward of z
| Slice of z option * z option
| Getitem of z
| Startswith of z list
| Endswith of z list
| ForwardUntil of z
| NumForwardUntil of z
| Position

val step : state -> op -> state * out

val opt_of : z -> z -> z option

val decode_ops : nat -> z list -> op list

val exn_code : exn -> z

val encode_out : out -> z list

val run_enc : state -> op list -> z list

val run_buf : z list -> z list

type pstr = z list

val pstr_eqb : pstr -> pstr -> bool

val zlen : 'a1 list -> z

val is_space_char : z -> bool

val is_space : pstr -> bool

val starts_with1 : pstr -> pstr -> bool

val ends_with0 : pstr -> pstr -> bool

val py_join : pstr list -> pstr

val norm_insert : z -> z -> z

val insert_at : nat -> 'a1 -> 'a1 list -> 'a1 list

val py_insert : z -> 'a1 -> 'a1 list -> 'a1 list

val py_index0 : ('a1 -> bool) -> 'a1 list -> nat option

val py_remove : ('a1 -> bool) -> 'a1 list -> 'a1 list option

val pop_at : nat -> 'a1 list -> ('a1 * 'a1 list) option

val py_pop : z -> 'a1 list -> ('a1 * 'a1 list) option

val py_getitem : z -> 'a1 list -> 'a1 option

val clamp_index : z -> z -> z

val py_slice0 : z option -> z option -> 'a1 list -> 'a1 list

type group = bool * pstr

val open_of : bool -> z

val close_of : bool -> z

val render : group -> pstr

type item =
| IG of group
| IW of pstr

val render_item : item -> pstr

val item_eqb : item -> item -> bool

type arg =
| AG of group
| AS of pstr

val parse_kind : bool -> pstr -> group option

val parse_group : pstr -> group option

val coerce : arg -> item option

type state0 = group list * item list

type out0 =
| ONone0
| OVal of item
| OArgs of state0
| OBool0 of bool
| ETypeError
| EValueError
| EIndexError

type op0 =
| OpAppend of arg
| OpExtend of arg list
| OpInsert of z * arg
| OpRemove of arg
| OpPop of z option
| OpReverse
| OpClear
| OpGet of z
| OpSlice of z option * z option
| OpContains of arg

val empty_state : state0

val shadow_insert : group list -> item list -> z -> item -> state0 * out0

val m_insert : state0 -> z -> arg -> state0 * out0

val m_append : state0 -> arg -> state0 * out0

val m_extend : state0 -> arg list -> state0 * out0

val m_remove : state0 -> arg -> state0 * out0

val m_pop : state0 -> z option -> state0 * out0

val m_new : arg list -> state0 * out0

val m_contains : state0 -> arg -> bool

val m_step : state0 -> op0 -> state0 * out0

val m_str : state0 -> pstr

val m_len : state0 -> z

val m_run : state0 -> op0 list -> (state0 * out0) list

val take_str : z list -> (pstr * z list) option

val take_arg : z list -> (arg * z list) option

val take_args : nat -> z list -> (arg list * z list) option

val take_arglist : z list -> (arg list * z list) option

val take_optz : z list -> (z option * z list) option

val take_op : z list -> (op0 * z list) option

val take_ops : nat -> z list -> op0 list option

val enc_str : pstr -> z list

val enc_item : item -> z list

val enc_state : state0 -> z list

val enc_out : out0 -> z list

val enc_result : (state0 * out0) -> z list

val run_args : z list -> z list

val str_isspace : str -> bool

val unwrap : expr -> expr

val is_blank : expr -> bool

val clean : expr list -> expr list

val is_texexpr : expr -> bool

val is_env_or_cmd : expr -> bool

val is_strlike : expr -> bool

val expr_contents : expr -> expr list

val expr_all : expr -> expr list

val edepth : expr -> nat

type path = nat list

type item0 = path * expr

val wrap_from : path -> nat -> expr list -> item0 list

val contents : item0 -> item0 list

val children : item0 -> item0 list

val node_all : item0 -> expr list option

val parent_path : path -> path

val node_getitem : item0 -> z -> item0 option

val descendants_f : nat -> item0 -> item0 list

val descendants : item0 -> item0 list

val text_f : nat -> item0 -> item0 list

val text : item0 -> item0 list

type query =
| QName of str
| QList of str list

val c_lbrace : n

val c_lbracket : n

val s_text : str

val s_roottex : str

val expr_name : expr -> str

val expr_begin : expr -> str

val expr_end : expr -> str

val expr_args : expr -> expr list

val expr_begin_args : expr -> str

val query_has_brace : query -> bool

val texexpr_match : query -> expr -> bool

val texenv_match : query -> expr -> bool

val match_item : query -> expr -> bool

val find_all : query -> item0 -> item0 list

val find0 : query -> item0 -> item0 option

val count : query -> item0 -> nat

val instance_attrs : str list

val is_real_attr : str -> bool

type attr_result =
| AReal
| AFound of item0 option

val getattr : str -> item0 -> attr_result

val enc_str0 : str -> z list

val enc_path : path -> z list

val class_code : expr -> z

val epos : expr -> z

val enc_expr : expr -> z list

val enc_item0 : item0 -> z list

val enc_list : ('a1 -> z list) -> 'a1 list -> z list

val enc_opt_item : item0 option -> z list

val enc_query : item0 -> query -> z list

val enc_node : query list -> item0 -> z list

val err_code : err -> z

val take_str0 : z list -> str * z list

val take_strs : nat -> z list -> str list * z list

val take_queries : nat -> z list -> query list * z list

val view_of_tree : query list -> expr -> z list

val run_view : z list -> z list

type eerr =
| ETypeError0
| EValueError0
| EAssertionError
| EIndexError0
| EBadCase

type 'a outcome =
| Done of 'a
| Raise of eerr
| Partial of eerr * 'a

val obind : 'a1 outcome -> ('a1 -> 'a2 outcome) -> 'a2 outcome

type step0 =
| SArg of nat
| SBody of nat

type path0 = step0 list

val step_eqb : step0 -> step0 -> bool

val path_eqb : path0 -> path0 -> bool

val is_node : expr -> bool

val args_of : expr -> expr list

val body_of : expr -> expr list

val set_body : expr -> expr list -> expr

val set_args_of : expr -> expr list -> expr

val subst_nth : nat -> 'a1 -> 'a1 list -> 'a1 list

val splice : nat -> nat -> 'a1 list -> 'a1 list -> 'a1 list

val child : expr -> step0 -> expr option

val set_child : expr -> step0 -> expr -> expr

val get : expr -> path0 -> expr option

val put : expr -> path0 -> expr -> expr option

val put_o : expr -> path0 -> expr -> expr outcome

val is_ws_str : str -> bool

val is_ws_item : expr -> bool

val number_from : nat -> 'a1 list -> (nat * 'a1) list

val cview : expr -> ((path0 * nat) * expr) list

val resolve : expr -> path0 -> nat list -> (path0 * expr) option

val split_node_path : path0 -> (path0 * nat) option

val drop_args : path0 -> path0

val nav_parent : path0 -> path0

val norm_index : nat -> z -> nat

val list_insert : z -> 'a1 -> 'a1 list -> 'a1 list

val insert_seq : z -> 'a1 list -> 'a1 list -> 'a1 list

val index_of : ('a1 -> bool) -> 'a1 list -> nat option

val supports : expr -> bool

val eq_expr_item : expr -> expr -> bool

val eq_node_item : expr -> expr -> bool

val expr_remove :
  (expr -> expr -> bool) -> path0 -> expr -> path0 -> nat -> expr ->
  (nat * expr) outcome

val expr_insert : expr -> z -> expr list -> expr outcome

val expr_append : expr -> expr list -> expr outcome

val number_args : path0 -> nat -> expr list -> (path0 * expr) list

val holders : path0 -> expr -> (path0 * expr) list

val holds_object : path0 -> (path0 * expr) -> bool

val delete_via : expr -> path0 -> path0 -> nat -> expr outcome

val delete : expr -> path0 -> nat -> expr outcome

val remove_via : expr -> path0 -> path0 -> nat -> expr outcome

val remove : expr -> path0 -> nat -> expr outcome

val replace_in :
  expr -> path0 -> expr -> path0 -> nat -> expr -> expr list -> expr outcome

val replace_via : expr -> path0 -> path0 -> nat -> expr list -> expr outcome

val replace_with : expr -> path0 -> nat -> expr list -> expr outcome

val insert : expr -> path0 -> z -> expr list -> expr outcome

val append : expr -> path0 -> expr list -> expr outcome

val copy : expr -> expr

val rename : expr -> str -> expr outcome

val set_name : expr -> path0 -> str -> expr outcome

val text_of : str -> expr

val restring : expr -> str -> expr outcome

val set_string : expr -> path0 -> str -> expr outcome

val select : 'a1 list -> nat list -> 'a1 list option

val nodup_nat : nat list -> bool

val reargs : expr -> nat list -> expr outcome

val set_args : expr -> path0 -> nat list -> expr outcome

val args_insert : expr -> path0 -> z -> groupkind -> str -> expr outcome

type zs = z list

val take : nat -> zs -> (zs * zs) option

val dec_list : zs -> (zs * zs) option

val to_str : zs -> str

val to_nats : zs -> nat list

val split_neg1 : zs -> zs * zs

val dec_mats : expr -> nat -> zs -> (expr list * zs) option

val dec_matlist : expr -> zs -> (expr list * zs) option

val locate : expr -> nat list -> ((path0 * (path0 * nat)) * expr) option

val exec_op : expr -> expr -> zs -> (expr outcome * zs) option

val code_of : eerr -> z

val emit : z -> expr -> zs

val run_loop : nat -> expr -> expr -> zs -> zs

val run_edit : zs -> zs

type res_match = str * z option

type regex_error =
| AttributeError0
| RegexTypeError

val token_matches : (str -> (nat * str) list) -> str -> z -> res_match list

val leaf_matches :
  (str -> (nat * str) list) -> expr -> res_match list * regex_error option

val search_strs :
  (str -> (nat * str) list) -> expr list -> res_match list * regex_error
  option

val search_regex :
  (str -> (nat * str) list) -> item0 -> res_match list * regex_error option

val find_lit : str -> nat -> nat -> str -> (nat * str) list

val find_literal : str -> str -> (nat * str) list

val enc_match : res_match -> z list

val enc_regex_error : regex_error option -> z

val run_regex : z list -> z list
