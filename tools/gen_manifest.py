#!/venv/bin/python
"""Regenerate MANIFEST.json from tools/manifest_data.json (claimed properties,
their level texts) - keeps the file valid against the schema."""
import json, os, sys
V = os.path.dirname(os.path.dirname(os.path.abspath(__file__)))
data = json.load(open(os.path.join(V, 'tools', 'manifest_data.json')))
props = [json.loads(l) for l in open(os.path.join(V, 'properties.jsonl'))]
checks, na = [], []
for p in props:
    pid = p['id']
    d = data['claimed'].get(pid)
    if d is None:
        na.append({'property_id': pid, 'reason': data['not_claimed'].get(pid, 'check under construction')})
        continue
    checks.append({
        'property_id': pid,
        'quick_cmd': './check %s --tier quick' % pid,
        'thorough_cmd': './check %s --tier thorough' % pid,
        'evidence_file': 'evidence/%s.json' % pid,
        'replay_cmd_template': './check %s --replay {path}' % pid,
        'engine': 'coq-model',
        'level_claimed': {'category': 'proof', 'text': d['text'], 'design_ref': d.get('design_ref', 'DESIGN.md section 6 ' + pid)},
        'level_note': d['note'],
        'technique': d['technique'],
    })
m = {
    'version': 1,
    'setup_cmd': './setup.sh',
    'hooks': {'guard': 'TEXSOUP_VERIF', 'enable': 'no hooks: every stage of the library is importable and callable as is',
              'baseline_off_cmd': 'cd /repo && /venv/bin/python -m pytest -ra -q -p no:cacheprovider --timeout=900',
              'source_commits': [], 'add_only': True},
    'engines': [{'name': 'coq-model', 'path': 'coq/', 'serves_properties': [c['property_id'] for c in checks],
                 'kind_free_text': 'Coq 8.16 model of TexSoup + theorems (theories/Props), Tables.v regenerated from /repo on every run, '
                                   'extracted OCaml driver run against the implementation (correspondence), direct oracles on the implementation'}],
    'checks': checks,
    'notes': data.get('notes', ''),
    'not_applicable': na,
}
json.dump(m, open(os.path.join(V, 'MANIFEST.json'), 'w'), indent=1)
print('claimed', len(checks), 'not claimed', len(na))
