#!/bin/sh
# tools/private_driver.sh <scratch-dir>
# Builds, in a private copy, the extracted OCaml driver from the *current* model
# sources (theories/Model/*.v + Extract.v) without touching the shared build.
# Prints the driver path on the last line.  Remove <scratch-dir> when done.
set -e
T="$1"; [ -n "$T" ] || { echo "usage: $0 <scratch-dir>"; exit 2; }
mkdir -p "$T/coq/theories" "$T/b"
cp -r /verif/coq/theories/Model /verif/coq/theories/Extract "$T/coq/theories/"
cd "$T/coq"
find . -name '*.vo' -o -name '*.vos' -o -name '*.vok' -o -name '*.glob' -o -name '.*.aux' | xargs rm -f
for f in Base Tables Chars Tokenizer Tree Reader CLO Buffer Args Views Edit Regex; do
  timeout 600 coqc -Q theories/Model TexModel theories/Model/$f.v
done
timeout 600 coqc -Q theories/Model TexModel -Q theories/Extract TexExtract theories/Extract/Extract.v
cp model.ml model.mli /verif/ocaml/driver.ml "$T/b/"
cd "$T/b" && ocamlfind ocamlopt -w -a model.mli model.ml driver.ml -o driver
echo "$T/b/driver"
