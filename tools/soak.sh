#!/bin/sh
# tools/soak.sh <seed> [<seed>...] : run every quick check on the unchanged
# /repo with the given VERIF_SEEDs, in a private copy of /verif (so that edits
# and builds going on in /verif do not disturb it).  Prints one line per check
# and every VIOLATION with the kind/input of its replay.
V=$(mktemp -d /tmp/soak-XXXXXX)
rsync -a --exclude .git --exclude replay --exclude evidence /verif/ "$V"/
mkdir -p "$V/replay" "$V/evidence"
cd "$V" || exit 2
for seed in "$@"; do
  for p in C01 C02 C03 C04 C05 C06 C07 C08 C09 C10 C11 C12 C13 C14 C15 C16 C17 C18 C19 C20; do
    out=$(VERIF_SEED=$seed TEXSOUP_REPO=/repo PYTHONHASHSEED=0 PYTHONDONTWRITEBYTECODE=1 /venv/bin/python -W ignore harness/main.py $p --tier ${TIER:-quick} 2>&1); rc=$?
    printf 'seed=%s %s rc=%s %s\n' "$seed" "$p" "$rc" "$(printf '%s\n' "$out" | grep -E 'obligations' | cut -c1-150)"
    if [ $rc != 0 ]; then
      printf '%s\n' "$out" | grep -E "VIOLATION|Traceback" | cut -c1-200
      for r in $(printf '%s\n' "$out" | grep -o 'replay=[^ ]*' | cut -d= -f2); do
        [ -f "$r" ] && /venv/bin/python -c "
import json; d=json.load(open('$r')); print('   replay kind=%s input=%r obs=%r' % (d.get('kind'), str(d.get('input'))[:160], str(d.get('observed'))[:120])); print('   broken=%r' % str(d.get('broken_obligations'))[:300])"
      done
    fi
  done
done
rm -rf "$V"
