#!/bin/sh
# tools/run_all.sh [tier] [props...] : run checks sequentially, one summary line each
TIER=${1:-quick}; shift
PROPS=${@:-C01 C02 C03 C04 C05 C06 C07 C08 C09 C10 C11 C12 C13 C14 C15 C16 C17 C18 C19 C20}
cd /verif
for p in $PROPS; do
  s=$(date +%s)
  out=$(./check $p --tier $TIER 2>&1); rc=$?
  e=$(date +%s)
  echo "== $p rc=$rc $((e-s))s"; printf "%s\n" "$out" | grep -E "VIOLATION|KNOWN-FINDING|obligations|Traceback|Error" | cut -c1-260
done
