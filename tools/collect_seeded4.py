#!/venv/bin/python
"""Round 4 of the seeded mutations: /tmp/mutout4-<id>/ (patch.diff, patch2.diff
...) -> /verif/seeded/<id>-5, <id>-6 with meta.json (what it breaks, what it
needs, what was run, what our checks said; `first_run` is the outcome before
the checks were strengthened, when there was such a run)."""
import glob, json, os, re, shutil
OUT = '/verif/seeded'
rows = []


def parse_log(path, pid):
    if not os.path.exists(path):
        return None, None
    txt = open(path).read()
    ver = 'VERIFIED' if re.search(r'^VERIFIED', txt, re.M) else ('NOT-VERIFIED' if 'NOT-VERIFIED' in txt else 'unknown')
    vd = re.search(r'(demo_without=.*)', txt)
    m = re.search(r'== %s exit=(\d+)' % pid, txt)
    kinds = re.findall(r'replay kind=(\S+) input=(.*)', txt)
    line = re.search(r'(%s quick: .*)' % pid, txt)
    det = {'exit': int(m.group(1)) if m else None,
           'violation_kinds': sorted({k for k, _ in kinds}),
           'example_replay_input': kinds[0][1][:200] if kinds else None,
           'summary_line': line.group(1)[:300] if line else None}
    return {'status': ver, 'detail': vd.group(1)[:200] if vd else None}, det


for d in sorted(glob.glob('/tmp/mutout4-C*')):
    pid = os.path.basename(d).split('-')[1]
    have = [int(os.path.basename(x).split('-')[1]) for x in glob.glob(OUT + '/%s-*' % pid)]
    nxt = max(have + [0])
    for suf in ('', '2'):
        pf = os.path.join(d, 'patch%s.diff' % suf)
        if not os.path.exists(pf):
            continue
        tagf = os.path.join(d, '.kept%s' % suf)
        if os.path.exists(tagf):
            k = int(open(tagf).read())
        else:
            nxt += 1; k = nxt
        ver, det = parse_log('/tmp/mut4final-%s-%s.txt' % (pid, suf), pid)
        _, first = parse_log('/tmp/mut4final-%s-%s.old' % (pid, suf), pid)
        if ver is None or ver['status'] != 'VERIFIED':
            print('SKIP (claims not verified):', pid, k)
            continue
        dest = os.path.join(OUT, '%s-%d' % (pid, k))
        open(tagf, 'w').write(str(k))
        os.makedirs(dest, exist_ok=True)
        shutil.copy(pf, os.path.join(dest, 'patch.diff'))
        df = os.path.join(d, 'demo%s.py' % suf)
        if os.path.exists(df):
            shutil.copy(df, os.path.join(dest, 'demo.py'))
        meta = {}
        mf = os.path.join(d, 'meta%s.json' % suf)
        if os.path.exists(mf):
            try:
                meta = json.load(open(mf))
            except ValueError:
                meta = {'raw': open(mf).read()[:2000]}
        meta['property'] = pid
        meta["round"] = 4
        meta['claims_checked'] = ver
        det['check'] = ('./check %s --tier quick (tools/try_mutation_iso.sh: scratch worktree of /repo with the '
                        'patch applied, private copy of /verif)' % pid)
        meta['our_check'] = det
        if first is not None:
            meta['first_run'] = first
        meta['what_was_run'] = ['tools/verify_mutation.sh <patch> <demo>: demo passes on the unchanged tree, patch applies, 164 tests pass with it, demo fails with it',
                                'tools/try_mutation_iso.sh <patch> %s' % pid]
        json.dump(meta, open(os.path.join(dest, 'meta.json'), 'w'), indent=1)
        rows.append((pid, k, meta.get('summary', '')[:90].replace('\n', ' '), ver['status'], det['exit'],
                     ','.join(det['violation_kinds'])[:60],
                     ('first run: exit %s %s' % (first['exit'], ','.join(first['violation_kinds']))) if first else ''))
for r in rows:
    print(' | '.join(str(x) for x in r))
