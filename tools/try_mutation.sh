#!/bin/sh
# tools/try_mutation.sh <patch.diff> <prop> [<prop>...]
# Applies the patch to /repo, runs the quick checks of the given properties,
# reverts /repo.  Prints each check's VIOLATION lines and exit status.
P="$1"; shift
cd /repo || exit 2
[ -z "$(git status --porcelain)" ] || { echo "/repo not clean"; exit 2; }
git apply "$P" || { echo APPLY-FAILED; exit 3; }
for p in "$@"; do
  out=$(cd /verif && ./check $p --tier ${TIER:-quick} 2>&1); rc=$?
  echo "== $p exit=$rc"; printf "%s\n" "$out" | grep -E "VIOLATION|KNOWN-FINDING|obligations" | cut -c1-300
done
git -C /repo checkout -- . ; git -C /repo status --porcelain
# restore generated artefacts to the unchanged tree
(cd /verif && ./setup.sh >/dev/null 2>&1)
