#!/bin/sh
# tools/try_mutation_iso.sh <patch.diff> <prop> [<prop>...]
# Runs the quick checks against a scratch worktree of /repo with the patch
# applied, using a private copy of /verif: neither /repo nor /verif is touched.
P="$1"; shift
W=$(mktemp -d /tmp/tmi-XXXXXX); rmdir "$W"
V=$(mktemp -d /tmp/tmv-XXXXXX)
git -C /repo worktree add -q --detach "$W" HEAD || exit 2
( cd "$W" && git apply "$P" ) || { echo APPLY-FAILED; git -C /repo worktree remove --force "$W"; rm -rf "$V"; exit 3; }
rsync -a --exclude .git --exclude replay --exclude evidence /verif/ "$V"/
mkdir -p "$V/replay" "$V/evidence"
for p in "$@"; do
  out=$(cd "$V" && TEXSOUP_REPO="$W" PYTHONHASHSEED=0 PYTHONDONTWRITEBYTECODE=1 /venv/bin/python -W ignore harness/main.py $p --tier ${TIER:-quick} 2>&1); rc=$?
  echo "== $p exit=$rc"; printf "%s\n" "$out" | grep -E "VIOLATION|KNOWN-FINDING|NOTE:|obligations|Traceback|Error" | cut -c1-300
  for r in $(printf "%s\n" "$out" | grep -o 'replay=[^ ]*' | cut -d= -f2); do
    [ -f "$r" ] && mkdir -p /tmp/replays-keep && cp "$r" /tmp/replays-keep/$(basename "$P" .diff)-$(basename "$r") 2>/dev/null
    [ -f "$r" ] && /venv/bin/python -c "
import json,sys; d=json.load(open('$r')); print('   replay kind=%s input=%r' % (d.get('kind'), str(d.get('input'))[:100]))"
  done
done
git -C /repo worktree remove --force "$W"; rm -rf "$V"
