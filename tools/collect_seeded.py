#!/venv/bin/python
"""Collect the seeded mutations produced by the independent sub-agents
(/tmp/mutout-<id>/) into /verif/seeded/<id>-<k>/ with patch.diff, demo.py and
meta.json (what it breaks, what it needs, what was run, what our checks said)."""
import glob, json, os, re, shutil, sys
OUT = '/verif/seeded'
rows = []
for d in sorted(glob.glob('/tmp/mutout-C*')):
    pid = os.path.basename(d).split('-')[1]
    for k, suf in ((1, ''), (2, '2')):
        pf = os.path.join(d, 'patch%s.diff' % suf)
        if not os.path.exists(pf):
            continue
        dest = os.path.join(OUT, '%s-%d' % (pid, k))
        os.makedirs(dest, exist_ok=True)
        shutil.copy(pf, os.path.join(dest, 'patch.diff'))
        df = os.path.join(d, 'demo%s.py' % suf)
        if os.path.exists(df):
            shutil.copy(df, os.path.join(dest, 'demo.py'))
        meta = {}
        mf = os.path.join(d, 'meta%s.json' % suf)
        if os.path.exists(mf):
            try:
                meta = json.load(open(mf))
            except ValueError:
                meta = {'raw': open(mf).read()[:2000]}
        meta['property'] = pid
        # verification of the agent's claims (tools/verify_mutation.sh)
        vlog = '/tmp/mutlog-%s-%s.txt' % (pid, suf)
        ver = None
        for cand in (vlog, '/tmp/mutlog.txt'):
            if os.path.exists(cand):
                txt = open(cand).read()
                m = re.search(r'##### %s patch%s\n(.*?)\n(VERIFIED|NOT-VERIFIED)' % (pid, suf), txt, re.S)
                if m:
                    ver = {'status': m.group(2), 'detail': m.group(1).strip()[-200:]}
                    break
        meta['claims_checked'] = ver or {'status': 'unknown'}
        flog = '/tmp/mutfinal-%s-%s.txt' % (pid, suf)
        det = None
        if os.path.exists(flog):
            txt = open(flog).read()
            m = re.search(r'== %s exit=(\d+)' % pid, txt)
            kinds = re.findall(r'replay kind=(\S+) input=(.*)', txt)
            line = re.search(r'(%s quick: .*)' % pid, txt)
            det = {'check': './check %s --tier quick (tools/try_mutation_iso.sh: scratch worktree of /repo with the patch applied, private copy of /verif)' % pid,
                   'exit': int(m.group(1)) if m else None,
                   'violation_kinds': sorted({k for k, _ in kinds}),
                   'example_replay_input': kinds[0][1][:200] if kinds else None,
                   'summary_line': line.group(1)[:300] if line else None}
        meta['our_check'] = det
        meta['what_was_run'] = ['tools/verify_mutation.sh <patch> <demo>: demo passes on the unchanged tree, patch applies, 164 tests pass with it, demo fails with it',
                                'tools/try_mutation_iso.sh <patch> %s' % pid]
        json.dump(meta, open(os.path.join(dest, 'meta.json'), 'w'), indent=1)
        rows.append((pid, k, meta.get('summary', '')[:90], (ver or {}).get('status'), det and det['exit'],
                     det and ','.join(det['violation_kinds'])[:80]))
for r in rows:
    print(' | '.join(str(x) for x in r))
