#!/bin/sh
# tools/verify_mutation.sh <patch.diff> <demo.py>
# Confirms, in a scratch worktree of /repo: demo passes without the change,
# the change applies, the whole test suite passes with it, demo fails with it.
P="$1"; D="$2"
W=$(mktemp -d /tmp/vm-XXXXXX); rmdir "$W"
git -C /repo worktree add -q --detach "$W" HEAD || exit 2
cd "$W" || exit 2
r0=$(timeout 900 /venv/bin/python "$D" >/tmp/vm-demo0.log 2>&1; echo $?)
if ! git apply "$P"; then echo "APPLY-FAILED"; cd /; git -C /repo worktree remove --force "$W"; exit 3; fi
t=$(timeout 900 /venv/bin/python -m pytest -q -p no:cacheprovider 2>&1 | tail -1)
r1=$(timeout 900 /venv/bin/python "$D" >/tmp/vm-demo1.log 2>&1; echo $?)
cd /; git -C /repo worktree remove --force "$W"
echo "demo_without=$r0 demo_with=$r1 tests_with: $t"
[ "$r0" = 0 ] && [ "$r1" = 1 ] && echo "$t" | grep -q "164 passed" && echo VERIFIED || echo NOT-VERIFIED
