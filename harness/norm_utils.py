"""Abstract-syntax normalisations shared by the translators of TexSoup/utils.py
(gen_buffer.py, gen_clo.py, gen_token.py).

Each function maps a Python `ast` to a Python `ast` with the SAME behaviour, so
that source texts that differ only by one of the listed rewrites translate to
the same DSL program.  Nothing is imported or executed.  Every rewrite is
guarded by a syntactic side condition that makes it behaviour-preserving in
Python (stated at the function); when the side condition does not hold the
code is left as it is (and the translator then reads it as written, or gives
up).  Deterministic: no sets/dicts are iterated for output.

  strip_annotations   parameter / return annotations dropped, `x: T = e`
                      becomes `x = e` (annotations in a function scope are
                      never evaluated; those of a def are evaluated once at
                      definition time and stored only)
  else_nest           if c: A  (A always returns) ; R   ==>  if c: A else: R
  sink_tail_return    if c: ..; x = e1 else: ..; x = e2 ; return R[x]
                                  ==>  if c: ..; return R[e1] else: ..; return R[e2]
                      (R is x or a tuple of plain names: an unbound plain name
                      of R would now fail before e is evaluated instead of
                      after -- the only difference, and not one in the DSLs,
                      where an unbound local is OUnsup wherever it is read)
  inline_aliases      b = <atom> ; ... b ...            ==>  ... <atom> ...
  hoist_ifexp         return E[a if c else b]  ==>  if c: return E[a] else: return E[b]
  inline_helpers      a call of a small module-level function (straight-line
                      assignments and one return) is replaced by its body
  loop_break_to_cond  while A: if B: break ; R          ==>  while A and not B: R
"""
import ast
import copy


class NormError(Exception):
    pass


def strip_doc(body):
    if body and isinstance(body[0], ast.Expr) and isinstance(body[0].value, ast.Constant) \
            and isinstance(body[0].value.value, str):
        return body[1:]
    return body


# ------------------------------------------------------------- annotations

def strip_annotations(fn):
    """A deep copy of the FunctionDef without annotations.  `x: T` without a
    value (declares a local without binding it) is not handled: NormError."""
    fn = copy.deepcopy(fn)
    a = fn.args
    for x in list(getattr(a, 'posonlyargs', [])) + list(a.args) + list(a.kwonlyargs) \
            + [y for y in (a.vararg, a.kwarg) if y is not None]:
        x.annotation = None
    fn.returns = None

    def block(body):
        out = []
        for s in body:
            if isinstance(s, ast.AnnAssign):
                if s.value is None:
                    raise NormError('%s: annotation without a value at line %s' % (fn.name, s.lineno))
                n = ast.Assign(targets=[s.target], value=s.value)
                ast.copy_location(n, s)
                n.type_comment = None
                s = n
            for f in ('body', 'orelse', 'finalbody'):
                if isinstance(getattr(s, f, None), list) and not isinstance(s, (ast.FunctionDef, ast.ClassDef)):
                    setattr(s, f, block(getattr(s, f)))
            if isinstance(s, ast.Try):
                for h in s.handlers:
                    h.body = block(h.body)
            out.append(s)
        return out

    fn.body = block(fn.body)
    return fn


# ------------------------------------------------------- control structure

def always_returns(body):
    """every path through the statement list ends in return / raise"""
    if not body:
        return False
    s = body[-1]
    if isinstance(s, (ast.Return, ast.Raise)):
        return True
    if isinstance(s, ast.If):
        return always_returns(s.body) and always_returns(s.orelse)
    return False


def else_nest(body):
    """`if c: A` followed by R, where A always returns: R can only run when c
    is false, so it is the else branch (likewise when only the else branch
    always returns).  Applied to the statement list and, recursively, to the
    branches of its if statements; loops and try blocks are left alone."""
    body = list(body)
    for k, s in enumerate(body):
        if not isinstance(s, ast.If):
            continue
        rest = body[k + 1:]
        a_ret, b_ret = always_returns(s.body), always_returns(s.orelse)
        n = ast.If(test=s.test, body=s.body, orelse=s.orelse)
        ast.copy_location(n, s)
        if rest and a_ret and not b_ret:
            n.orelse = list(s.orelse) + rest
            rest = []
        elif rest and b_ret and not a_ret:
            n.body = list(s.body) + rest
            rest = []
        n.body = else_nest(n.body)
        n.orelse = else_nest(n.orelse)
        return body[:k] + [n] + (else_nest(rest) if rest else [])
    return body


def _loads(node, name):
    return [x for x in ast.walk(node) if isinstance(x, ast.Name) and x.id == name
            and isinstance(x.ctx, ast.Load)]


def _subst(node, name, value):
    """copy of `node` with every load of `name` replaced by a copy of `value`"""
    class T(ast.NodeTransformer):
        def visit_Name(self, n):
            if n.id == name and isinstance(n.ctx, ast.Load):
                return copy.deepcopy(value)
            return n
    return T().visit(copy.deepcopy(node))


def _simple_result(r, x):
    """R is `x`, or a tuple of names / constants that mentions x exactly once:
    nothing with an effect (or that can fail differently) is evaluated before x"""
    if isinstance(r, ast.Name):
        return r.id == x
    if isinstance(r, ast.Tuple) and isinstance(r.ctx, ast.Load):
        if not all(isinstance(e, (ast.Name, ast.Constant)) for e in r.elts):
            return False
        return len([e for e in r.elts if isinstance(e, ast.Name) and e.id == x]) == 1
    return False


def sink_tail_return(body):
    """`if ...` whose every branch ends in `x = e` (or returns), followed by the
    last statement `return R` where R is x or a tuple of plain names containing
    x once: each `x = e` becomes `return R[x := e]`.  x is dead after the
    return and R evaluates nothing but plain names before/after e."""
    body = list(body)
    if len(body) < 2 or not isinstance(body[-1], ast.Return) or not isinstance(body[-2], ast.If) \
            or body[-1].value is None:
        return body
    ret, top = body[-1], body[-2]
    names = []

    def leaves(blk):
        """the variable assigned last in every non-returning leaf, None if some leaf has none"""
        if always_returns(blk):
            return True
        if not blk:
            return False
        s = blk[-1]
        if isinstance(s, ast.If):
            return leaves(s.body) and leaves(s.orelse)
        if isinstance(s, ast.Assign) and len(s.targets) == 1 and isinstance(s.targets[0], ast.Name) \
                and not any(isinstance(n, ast.NamedExpr) for n in ast.walk(s.value)):
            names.append(s.targets[0].id)
            return True
        return False

    if not top.orelse or not (leaves(top.body) and leaves(top.orelse)) or not names:
        return body
    x = names[0]
    if any(n != x for n in names) or not _simple_result(ret.value, x):
        return body

    def rewrite(blk):
        if always_returns(blk):
            return blk
        s = blk[-1]
        if isinstance(s, ast.If):
            n = ast.If(test=s.test, body=rewrite(s.body), orelse=rewrite(s.orelse))
            ast.copy_location(n, s)
            return blk[:-1] + [n]
        r = ast.Return(value=_subst(ret.value, x, s.value))
        ast.copy_location(r, s)
        return blk[:-1] + [r]

    n = ast.If(test=top.test, body=rewrite(top.body), orelse=rewrite(top.orelse))
    ast.copy_location(n, top)
    return body[:-2] + [n]


def loop_break_to_cond(body):
    """`while A:` whose body starts with `if B: break` (no else, nothing else in
    the if) and has no `else:` of its own: B is evaluated exactly when A was
    true and the loop is left exactly when B is true, which is the loop
    `while A and not B:` over the remaining body (`and` evaluates `not B` only
    when A is true; while only looks at the truth value).  Applied to nested
    statement lists as well."""
    out = []
    for s in body:
        if isinstance(s, (ast.FunctionDef, ast.AsyncFunctionDef, ast.ClassDef)):
            out.append(s)
            continue
        s = copy.copy(s)
        for f in ('body', 'orelse', 'finalbody'):
            if isinstance(getattr(s, f, None), list):
                setattr(s, f, loop_break_to_cond(getattr(s, f)))
        if isinstance(s, ast.Try):
            hs = []
            for h in s.handlers:
                h = copy.copy(h)
                h.body = loop_break_to_cond(h.body)
                hs.append(h)
            s.handlers = hs
        while isinstance(s, ast.While) and not s.orelse and len(s.body) >= 2 \
                and isinstance(s.body[0], ast.If) and not s.body[0].orelse \
                and len(s.body[0].body) == 1 and isinstance(s.body[0].body[0], ast.Break):
            neg = ast.UnaryOp(op=ast.Not(), operand=s.body[0].test)
            ast.copy_location(neg, s.body[0].test)
            vals = list(s.test.values) if isinstance(s.test, ast.BoolOp) and isinstance(s.test.op, ast.And) \
                else [s.test]
            test = ast.BoolOp(op=ast.And(), values=vals + [neg])
            ast.copy_location(test, s.test)
            n = ast.While(test=test, body=s.body[1:], orelse=[])
            ast.copy_location(n, s)
            s = n
        out.append(s)
    return out


# ------------------------------------------------------------------ aliases

def _unconditional_loads(node, name):
    """loads of `name` in positions of the expression that are evaluated
    whenever the expression is"""
    if node is None:
        return 0
    if isinstance(node, ast.Name):
        return 1 if (node.id == name and isinstance(node.ctx, ast.Load)) else 0
    if isinstance(node, ast.IfExp):
        return _unconditional_loads(node.test, name)
    if isinstance(node, ast.BoolOp):
        return _unconditional_loads(node.values[0], name)
    if isinstance(node, ast.Compare):
        return _unconditional_loads(node.left, name) + _unconditional_loads(node.comparators[0], name)
    if isinstance(node, (ast.Lambda, ast.ListComp, ast.SetComp, ast.DictComp, ast.GeneratorExp)):
        return 0
    return sum(_unconditional_loads(c, name) for c in ast.iter_child_nodes(node)
               if isinstance(c, ast.expr))


def _stmt_uses_unconditionally(s, name):
    if isinstance(s, (ast.Assign, ast.Return, ast.Expr)):
        return _unconditional_loads(s.value, name) > 0
    if isinstance(s, ast.If):
        return _unconditional_loads(s.test, name) > 0
    return False


def inline_aliases(fn, is_atom):
    """fn.body with `b = <atom>` removed and <atom> written for b, for a local
    b that is bound exactly once in the def, at the top level of its body,
    where `is_atom(expr)` says the right-hand side is an expression without
    effect whose value cannot change during the call (a parameter that is
    never re-bound, a constant, an attribute of self in a def that writes no
    attribute), and the statement after the binding evaluates b in every case
    (so the atom is still evaluated, and fails, exactly when it did before)."""
    body = list(fn.body)
    stores = {}
    for n in ast.walk(fn):
        if isinstance(n, ast.Name) and isinstance(n.ctx, (ast.Store, ast.Del)):
            stores[n.id] = stores.get(n.id, 0) + 1
        elif isinstance(n, ast.ExceptHandler) and n.name:
            stores[n.name] = stores.get(n.name, 0) + 2
        elif isinstance(n, (ast.FunctionDef, ast.AsyncFunctionDef, ast.ClassDef)) and n is not fn:
            stores[n.name] = stores.get(n.name, 0) + 2
        elif isinstance(n, (ast.Import, ast.ImportFrom)):
            for al in n.names:
                nm = (al.asname or al.name).split('.')[0]
                stores[nm] = stores.get(nm, 0) + 2
        elif isinstance(n, (ast.Global, ast.Nonlocal)):
            for nm in n.names:
                stores[nm] = stores.get(nm, 0) + 2
    params = set(x.arg for x in fn.args.args)
    changed = True
    while changed:
        changed = False
        for k, s in enumerate(body):
            if not (isinstance(s, ast.Assign) and len(s.targets) == 1 and isinstance(s.targets[0], ast.Name)):
                continue
            b = s.targets[0].id
            if b in params or stores.get(b) != 1 or not is_atom(s.value):
                continue
            if _loads(s.value, b):
                continue
            if k + 1 >= len(body) or not _stmt_uses_unconditionally(body[k + 1], b):
                continue
            body = body[:k] + [_subst(t, b, s.value) for t in body[k + 1:]]
            changed = True
            break
    return body


# ------------------------------------------------------------------- IfExp

def _pure_before(e):
    """an expression without effect: a name, a constant, an attribute of one"""
    if isinstance(e, (ast.Name, ast.Constant)):
        return True
    if isinstance(e, ast.Attribute):
        return _pure_before(e.value)
    return False


def _find_ifexp(e, total):
    """path (list of (parent, field, index)) to the first conditional
    expression of e that is evaluated unconditionally, after nothing but pure
    sub-expressions, and whose test is total; None if there is none"""
    def children(n):
        """(field, index, child) in evaluation order, or None if the node's
        children are not all evaluated unconditionally, left to right"""
        if isinstance(n, ast.Call):
            out = [('func', None, n.func)] + [('args', i, a) for i, a in enumerate(n.args)]
            if any(isinstance(a, ast.Starred) for a in n.args) or any(k.arg is None for k in n.keywords):
                return None
            return out + [('keywords', i, k.value) for i, k in enumerate(n.keywords)]
        if isinstance(n, ast.BinOp):
            return [('left', None, n.left), ('right', None, n.right)]
        if isinstance(n, ast.UnaryOp):
            return [('operand', None, n.operand)]
        if isinstance(n, ast.Attribute):
            return [('value', None, n.value)]
        if isinstance(n, (ast.Tuple, ast.List)):
            return [('elts', i, x) for i, x in enumerate(n.elts)]
        if isinstance(n, ast.Compare) and len(n.comparators) == 1:
            return [('left', None, n.left), ('comparators', 0, n.comparators[0])]
        if isinstance(n, ast.Subscript) and not isinstance(n.slice, ast.Slice):
            return [('value', None, n.value), ('slice', None, n.slice)]
        return None

    def go(n):
        if isinstance(n, ast.IfExp):
            return [] if total(n.test) else None
        ch = children(n)
        if ch is None:
            return None
        for f, i, c in ch:
            if _pure_before(c):
                continue
            p = go(c)
            if p is None:
                return None           # something impure comes first: stop
            return [(n, f, i)] + p
        return None
    return go(e)


def _replace_at(root, path, new):
    """copy of root with the node at `path` replaced"""
    if not path:
        return copy.deepcopy(new)
    root2 = copy.copy(root)
    n, f, i = path[0]
    assert n is root
    if f == 'keywords':
        kws = list(root.keywords)
        kw = copy.copy(kws[i])
        kw.value = _replace_at(kw.value, path[1:], new)
        kws[i] = kw
        root2.keywords = kws
    elif i is None:
        setattr(root2, f, _replace_at(getattr(root, f), path[1:], new))
    else:
        lst = list(getattr(root, f))
        lst[i] = _replace_at(lst[i], path[1:], new)
        setattr(root2, f, lst)
    return root2


def hoist_ifexp(body, total):
    """`return E[a if c else b]` / `x = E[a if c else b]` become an if statement
    with the two instances of the statement, when c is total (`total(c)`:
    cannot fail and has no effect) and E evaluates only names, constants and
    attribute reads of those before the conditional expression.  Applied to
    the statement list and the branches of its if statements."""
    out = []
    for s in body:
        if isinstance(s, ast.If):
            n = ast.If(test=s.test, body=hoist_ifexp(s.body, total), orelse=hoist_ifexp(s.orelse, total))
            ast.copy_location(n, s)
            out.append(n)
            continue
        ok = isinstance(s, ast.Return) and s.value is not None or \
            (isinstance(s, ast.Assign) and len(s.targets) == 1 and isinstance(s.targets[0], ast.Name))
        path = _find_ifexp(s.value, total) if ok else None
        if path is None:
            out.append(s)
            continue
        node = s.value
        for (n, f, i) in path:
            node = getattr(n, f) if i is None else getattr(n, f)[i]
            if f == 'keywords':
                node = node.value
        a, b = copy.copy(s), copy.copy(s)
        a.value = _replace_at(s.value, path, node.body)
        b.value = _replace_at(s.value, path, node.orelse)
        n = ast.If(test=copy.deepcopy(node.test), body=hoist_ifexp([a], total), orelse=hoist_ifexp([b], total))
        ast.copy_location(n, s)
        out.append(n)
    return out


# ----------------------------------------------------------------- helpers

_BAD_IN_HELPER = (ast.FunctionDef, ast.AsyncFunctionDef, ast.ClassDef, ast.Lambda, ast.ListComp,
                  ast.SetComp, ast.DictComp, ast.GeneratorExp, ast.Yield, ast.YieldFrom, ast.Await,
                  ast.NamedExpr, ast.Starred, ast.Global, ast.Nonlocal)


def helper_table(tree, exclude=()):
    """module-level defs that can be inlined: bound once in the module, no
    decorators, plain positional parameters without defaults, body = optional
    docstring, assignments `local = expr` (never to a parameter) and a final
    `return expr`"""
    count = {}
    for st in tree.body:
        if isinstance(st, (ast.FunctionDef, ast.ClassDef)):
            count[st.name] = count.get(st.name, 0) + 1
        elif isinstance(st, (ast.Assign, ast.AnnAssign, ast.AugAssign)):
            for x in ast.walk(st):
                if isinstance(x, ast.Name) and isinstance(x.ctx, ast.Store):
                    count[x.id] = count.get(x.id, 0) + 2
        elif isinstance(st, (ast.Import, ast.ImportFrom)):
            for a in st.names:
                nm = (a.asname or a.name).split('.')[0]
                count[nm] = count.get(nm, 0) + 2
    table = {}
    for st in tree.body:
        if not isinstance(st, ast.FunctionDef) or count.get(st.name) != 1 or st.name in exclude:
            continue
        a = st.args
        if st.decorator_list or a.vararg or a.kwarg or a.kwonlyargs or a.defaults or a.kw_defaults \
                or getattr(a, 'posonlyargs', []):
            continue
        try:
            fn = strip_annotations(st)
        except NormError:
            continue
        body = strip_doc(fn.body)
        params = [x.arg for x in fn.args.args]
        if len(set(params)) != len(params) or not body or not isinstance(body[-1], ast.Return) \
                or body[-1].value is None:
            continue
        ok = True
        for s in body[:-1]:
            ok = ok and isinstance(s, ast.Assign) and len(s.targets) == 1 \
                and isinstance(s.targets[0], ast.Name) and s.targets[0].id not in params
        for n in ast.walk(fn):
            if n is not fn and isinstance(n, _BAD_IN_HELPER):
                ok = False
            if isinstance(n, ast.Call) and isinstance(n.func, ast.Name) and n.func.id == st.name:
                ok = False                      # recursion
        if ok:
            table[st.name] = (params, body)
    return table


def _bound_names(fn):
    out = set(x.arg for x in fn.args.args)
    for y in (fn.args.vararg, fn.args.kwarg):
        if y is not None:
            out.add(y.arg)
    for n in ast.walk(fn):
        if isinstance(n, ast.Name) and isinstance(n.ctx, (ast.Store, ast.Del)):
            out.add(n.id)
    return out


def _rename(node, mapping):
    """copy of node with names replaced: mapping name -> expr (for loads) or
    name -> str (loads and stores)"""
    class T(ast.NodeTransformer):
        def visit_Name(self, n):
            m = mapping.get(n.id)
            if m is None:
                return n
            if isinstance(m, str):
                r = ast.Name(id=m, ctx=n.ctx)
                return ast.copy_location(r, n)
            return copy.deepcopy(m)
    return T().visit(copy.deepcopy(node))


def inline_helpers(fn, table, rounds=6):
    """fn.body with calls `h(a1, .., an)` (positional arguments only) of the
    functions of `table` replaced by their bodies.

    A statement `return h(..)`, `x = h(..)` or `h(..)`: arguments that are not
    plain names / constants are first bound, left to right, to fresh locals
    (so they are evaluated once, in the original order, before the body);
    then the assignments of h with its locals renamed apart; then the
    statement with h's result expression.  A call nested in an expression is
    replaced only when h is a single `return expr` and all arguments are plain
    names or constants.  No capture: the global names h uses must not be
    bound in fn (checked), h's parameters are never assigned in h (checked by
    helper_table)."""
    if not table:
        return list(fn.body)
    bound = _bound_names(fn)
    counter = [0]

    def usable(h, call):
        if h not in table or h in bound or call.keywords or len(call.args) != len(table[h][0]):
            return False
        params, body = table[h]
        locs = set(params)
        for s in body[:-1]:
            locs.add(s.targets[0].id)
        for s in body:
            for n in ast.walk(s):
                if isinstance(n, ast.Name) and isinstance(n.ctx, ast.Load) and n.id not in locs \
                        and n.id in bound:
                    return False
        return all(not isinstance(a, ast.Starred) for a in call.args)

    def atomic(a):
        return isinstance(a, (ast.Name, ast.Constant))

    def expand(call, at):
        """(prelude statements, result expression)"""
        h = call.func.id
        params, body = table[h]
        counter[0] += 1
        tag = '_inl%d_%s_' % (counter[0], h)
        mapping = {}
        pre = []
        for p, a in zip(params, call.args):
            if atomic(a):
                mapping[p] = a
            else:
                nm = tag + p
                st = ast.Assign(targets=[ast.Name(id=nm, ctx=ast.Store())], value=a)
                st.type_comment = None
                ast.copy_location(st, at)
                ast.fix_missing_locations(st)
                pre.append(st)
                mapping[p] = nm
        for s in body[:-1]:
            mapping[s.targets[0].id] = tag + s.targets[0].id
        for s in body[:-1]:
            st = _rename(s, mapping)
            ast.copy_location(st, at)
            ast.fix_missing_locations(st)
            pre.append(st)
        return pre, _rename(body[-1].value, mapping)

    def nested(e):
        """expression-level inlining inside e"""
        class T(ast.NodeTransformer):
            def visit_Call(self, n):
                self.generic_visit(n)
                if isinstance(n.func, ast.Name) and usable(n.func.id, n) \
                        and len(table[n.func.id][1]) == 1 and all(atomic(a) for a in n.args):
                    return expand(n, n)[1]
                return n
        return T().visit(copy.deepcopy(e))

    def block(body):
        out = []
        for s in body:
            if isinstance(s, ast.If):
                n = ast.If(test=nested(s.test), body=block(s.body), orelse=block(s.orelse))
                ast.copy_location(n, s)
                out.append(n)
                continue
            if isinstance(s, (ast.While, ast.For, ast.Try, ast.With)):
                out.append(s)
                continue
            v = getattr(s, 'value', None)
            top = isinstance(s, (ast.Return, ast.Expr)) or \
                (isinstance(s, ast.Assign) and len(s.targets) == 1 and isinstance(s.targets[0], ast.Name))
            if top and isinstance(v, ast.Call) and isinstance(v.func, ast.Name) and usable(v.func.id, v):
                v2 = copy.copy(v)
                v2.args = [nested(a) for a in v.args]
                pre, res = expand(v2, s)
                s2 = copy.copy(s)
                s2.value = res
                out.extend(pre)
                out.append(s2)
                continue
            if isinstance(s, (ast.Return, ast.Expr, ast.Assign)) and v is not None:
                s2 = copy.copy(s)
                s2.value = nested(v)
                out.append(s2)
                continue
            out.append(s)
        return out

    body = list(fn.body)
    for _ in range(rounds):
        before = [ast.dump(s) for s in body]
        body = block(body)
        if [ast.dump(s) for s in body] == before:
            break
    return body
